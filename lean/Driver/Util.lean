/- Line-protocol helpers for the replay driver. Floats travel as decimal uint64 bit patterns. -/
namespace Driver

def pF (s : String) : Float := Float.ofBits s.toNat!.toUInt64
def sF (x : Float) : String := toString x.toBits.toNat
def pI (s : String) : Int := s.toInt!
def pN (s : String) : Nat := s.toNat!
def pB (s : String) : Bool := s == "1"
def sB (b : Bool) : String := if b then "1" else "0"
/-- optional float: "-" is none -/
def pOF (s : String) : Option Float := if s == "-" then none else some (pF s)
def sOF : Option Float → String
  | none => "-"
  | some x => sF x
def joinSp (xs : List String) : String := " ".intercalate xs

/-- pairs from a flat token list -/
def pairsF : List String → List (Float × Float)
  | a :: b :: rest => (pF a, pF b) :: pairsF rest
  | _ => []

end Driver

import Driver.Util
import Driver.CmdData
import RQ.ModelF.Isolation
/-! Driver command for the process-state model (C13), instantiated with the flags regenerated from the source. -/
namespace Driver
open RQ.F

partial def parseRuns (l : List String) (acc : List RunCfg) : List RunCfg :=
  match l with
  | rid :: rest =>
    let (sw, r1) := takeN rest
    let (ex, r2) := takeN r1
    let (ids, r3) := takeN r2
    let names := srcFlags.switchWrites.map (·.1)
    let vals := (names.zip (sw.map pI))
    parseRuns r3 ({ runId := pN rid, switchVals := fun n => ((vals.find? (fun e => e.1 == n)).map (·.2)).getD 0, exports := ex, ids := ids } :: acc)
  | [] => acc.reverse

def showView (v : RunView) : String :=
  let so (o : Option Int) : String := match o with | none => "-" | some i => toString i
  let sn (o : Option Nat) : String := match o with | none => "-" | some i => toString i
  joinSp (["V", toString v.switches.length] ++ v.switches.map so ++ [toString v.api.length] ++ v.api.map sn ++
          [toString v.resolved.length] ++ v.resolved.map toString ++ [toString v.env])

def cmdIso (toks : List String) : Option String :=
  match toks with
  | "ISO" :: rest =>
    let runs := parseRuns rest []
    let r := runs.foldl (fun (st : Proc × List String) c => let o := runOnce srcFlags c st.1; (o.2, st.2 ++ [showView o.1])) (Proc.fresh, [])
    some (joinSp r.2)
  | "ISOFLAGS" :: _ =>
    some (joinSp [sB srcFlags.exportRebinds, sB srcFlags.dispatcherKeepsProxy, sB srcFlags.cacheResettable, sB srcFlags.entryClears, sB srcFlags.envReplaced,
                  toString srcFlags.switchWrites.length] ++ " " ++ joinSp (srcFlags.switchWrites.map (fun w => s!"{w.1}:{sB w.2.1}:{sB w.2.2}")))
  | "RENUMBER" :: ids => some (joinSp ((renumber (ids.map pN)).map toString))
  | _ => none

end Driver

import Driver.Util
import Driver.CmdData
import Driver.CmdAcct
import RQ.ModelF.Matcher
import RQ.ModelF.Broker
/-! Driver commands for the bar matcher and Order.fill (C04 C05 C06). -/
namespace Driver
open RQ.F

def statusStr : Status → String
  | .pendingNew => "PENDING_NEW" | .active => "ACTIVE" | .filled => "FILLED" | .rejected => "REJECTED"
  | .cancelled => "CANCELLED" | .pendingCancel => "PENDING_CANCEL"

def parseStatus (s : String) : Status :=
  if s == "PENDING_NEW" then .pendingNew else if s == "ACTIVE" then .active else if s == "FILLED" then .filled
  else if s == "REJECTED" then .rejected else if s == "CANCELLED" then .cancelled else .pendingCancel

def rdOrd (t : Toks) : Ord × Toks :=
  let (ib, t) := tk t; let (il, t) := tk t; let (lp, t) := tk t; let (ef, t) := tk t; let (q, t) := tk t; let (f, t) := tk t
  let (st, t) := tk t; let (avg, t) := tk t; let (cost, t) := tk t; let (fp, t) := tk t; let (init, t) := tk t
  ({ id := 0, ins := 0, isBuy := pB ib, isLimit := pB il, limitPrice := pF lp, effect := parseEffect ef, qty := pI q, filled := pI f,
     status := parseStatus st, avg := pF avg, cost := pF cost, frozenPrice := pF fp, initFrozen := pF init }, t)

def shOrd (o : Ord) : String := joinSp [statusStr o.status, toString o.filled, sF o.avg, sF o.cost]

def cmdMatch (toks : Toks) : Option String :=
  match toks with
  | ["ROUNDPX", l, t] => some (toString (roundPrice (pN l) (pN t)))
  | "MATCH" :: pl :: il :: vl :: vp :: slipK :: rate :: tick :: rest =>
      let slip : Slip := if slipK == "ratio" then .priceRatio (pF rate) else if slipK == "tick" then .tickSize (pF rate) (pF tick) else .limitPrice
      let cfg : MCfg := { priceLimit := pB pl, inactiveLimit := pB il, volumeLimit := pB vl, volumePercent := pF vp, slip := slip }
      let (ic, t) := rdCfg rest
      let (o, t) := rdOrd t
      let (deal, t) := tk t; let (lu, t) := tk t; let (ld, t) := tk t; let (vol, t) := tk t; let (lt, t) := tk t
      let (au, t) := tk t; let (tv, t) := tk t; let (cpi, t) := tk t; let (fee, t) := tk t; let (ct, t) := tk t; let (bo, _) := tk t
      let b : MBar := { deal := pOF deal, limitUp := pOF lu, limitDown := pOF ld, volume := pOF vol, listedToday := pB lt }
      let feeFn : Int → Float → Float := fun _ _ => pF fee
      let out := matchOrderAt (pB bo) cfg ic o b (pB au) (pI tv) (pF cpi) feeFn (fun _ => pI ct)
      let o' := orderAfter o feeFn out
      let outS := match out with
        | .rest => "REST" | .rejected => "REJECTED" | .cancelled => "CANCELLED" | .raises => "RAISES"
        | .fill q p c cr => joinSp ["FILL", toString q, sF p, toString c, sB cr]
      some (joinSp [outS, "|", shOrd o', toString (turnoverAfter (pI tv) out)])
  | "SIGMATCH" :: pl :: slipK :: rate :: tick :: rest =>
      let slip : Slip := if slipK == "ratio" then .priceRatio (pF rate) else if slipK == "tick" then .tickSize (pF rate) (pF tick) else .limitPrice
      let (_, t) := rdCfg rest
      let (o, t) := rdOrd t
      let (last, t) := tk t; let (lu, t) := tk t; let (ld, t) := tk t; let (fee, t) := tk t; let (ct, _) := tk t
      let b : MBar := { deal := pOF last, limitUp := pOF lu, limitDown := pOF ld, volume := none, listedToday := false }
      let feeFn : Int → Float → Float := fun _ _ => pF fee
      let out := signalMatch (pB pl) slip o b (fun _ => pI ct)
      let o' := orderAfter o feeFn out
      let outS := match out with
        | .rest => "REST" | .rejected => "REJECTED" | .cancelled => "CANCELLED" | .raises => "RAISES"
        | .fill q p c cr => joinSp ["FILL", toString q, sF p, toString c, sB cr]
      some (joinSp [outS, "|", shOrd o', "0"])
  | "OFILL" :: rest =>
      let (o, t) := rdOrd rest; let (p, t) := tk t; let (q, t) := tk t; let (fee, _) := tk t
      some (shOrd (o.fill (pF p) (pI q) (pF fee)))
  | _ => none

end Driver

import Driver.Util
import Driver.CmdData
import RQ.ModelF.Executor
import RQ.Gen.Tables
/-! Driver commands for the executor / event source / API phase table (C08). -/
namespace Driver
open RQ.F

def kindStr : EvKind → String
  | .bt => "BT" | .auc => "AUC" | .bar => "BAR" | .at_ => "AT" | .st => "ST"
def partStr : Part → String
  | .pre => "PRE" | .main => "MAIN" | .post => "POST"
def parseKind (s : String) : EvKind :=
  if s == "BT" then .bt else if s == "AUC" then .auc else if s == "BAR" then .bar else if s == "AT" then .at_ else .st

def parseScript : List String → List (EvKind × Nat)
  | k :: t :: rest => (parseKind k, pN t) :: parseScript rest
  | _ => []

/-- allowed according to the regenerated decorator table -/
def apiAllowed (api phase : String) : String :=
  match RQ.Gen.apiPhaseTable.find? (fun r => r.1 == api) with
  | none => "UNKNOWN"
  | some (_, none) => "1"
  | some (_, some phases) => if phases.contains phase then "1" else "0"

def cmdExec (toks : List String) : Option String :=
  match toks with
  | "EXEC" :: freq :: rest =>
      let (cs, r1) := takeN rest
      let cal := cs.map pN
      match r1 with
      | dataStart :: dataEnd :: start :: end_ :: r2 =>
          let (ms, r3) := takeN r2
          let (sc, _) := takeN r3
          let script := parseScript sc
          let scriptFn : Src → Bool := fun e => script.any (fun (k, t) => k == e.kind && t == e.cal)
          match adjustRange cal (pN dataStart) (pN dataEnd) (pN start) (pN end_) with
          | none => some "NODATA"
          | some (a, b) =>
              let days := getTradingDates cal a b
              let src := if freq == "1d" then source1d days else source1m scriptFn (ms.map pN) days false
              let pubs := execRun cal a b src
              some (joinSp (s!"{a}" :: s!"{b}" :: pubs.map (fun p => s!"{kindStr p.kind}.{partStr p.part}.{p.cal}.{p.trd}")))
      | _ => none
  | ["ALLOWED", api, phase] => some (apiAllowed api phase)
  | _ => none

end Driver

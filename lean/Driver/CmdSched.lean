import Driver.Util
import Driver.CmdData
import RQ.ModelF.Scheduler
/-! Driver commands for the scheduler (C17). -/
namespace Driver
open RQ.F

def parseRule (s : String) : DayRule :=
  if s == "D" then .daily
  else if s.startsWith "W" then .weekday (s.drop 1).toNat!
  else if s.startsWith "N" then .weekNth (s.drop 1).toInt!
  else .monthNth (s.drop 1).toInt!

def parsePairs : List String → List (Nat × Nat)
  | a :: b :: rest => (pN a, pN b) :: parsePairs rest
  | _ => []

/-- `k` groups "m s1 e1 .. (m numbers)" -/
def hourGroups : Nat → List String → List (List (Nat × Nat))
  | 0, _ => []
  | _, [] => []
  | fuel + 1, xs =>
    let (g, r) := takeN xs
    parsePairs g :: hourGroups fuel r

/-- run the day part of the scheduler over a day sequence with the cache, for every rule: days on which it holds -/
def schedRun (cal : List Nat) (days : List Nat) (rules : List DayRule) : List (List Nat) :=
  let rec go (s : SchedDay) : List Nat → List (List Bool)
    | [] => []
    | d :: rest =>
      let s' := nextDay cal s d
      (rules.map (dayRuleHolds s')) :: go s' rest
  let table := go { today := 0, thisWeek := [], thisMonth := [] } days
  (List.range rules.length).map (fun i =>
    (days.zip table).filterMap (fun (d, row) => if row.getD i false then some d else none))

def cmdSched (toks : List String) : Option String :=
  match toks with
  | "SCHD" :: rest =>
      let (cs, r) := takeN rest
      let cal := cs.map pN
      match r with
      | ["WEEK", t] => some (joinSp ((fillWeek cal (pN t)).map toString))
      | ["MONTH", t] => some (joinSp ((fillMonth cal (pN t)).map toString))
      | "RUN" :: r2 =>
          let (ds, r3) := takeN r2
          let (rs, _) := takeN r3
          let out := schedRun cal (ds.map pN) (rs.map parseRule)
          some ("|".intercalate (out.map (fun l => joinSp (l.map toString))))
      | _ => none
  | ["CIVIL", d] =>
      let (y, m, dd) := civilOfOrdinal (pN d)
      some s!"{y} {m} {dd} {weekday (pN d)} {ordinalOfCivil y m dd}"
  | "SCHTIME" :: f1d :: start :: rest =>
      let (rs, r2) := takeN rest
      let cfg : SchedCfg := { freq1d := pB f1d, ranges := parsePairs rs, startMinute := pN start }
      match r2 with
      | dayOk :: rule :: bars =>
          let tr := if rule == "BT" then TimeRule.beforeTrading else TimeRule.minute (pN rule)
          let (bt, fired) := dayFirings cfg (pB dayOk) tr (bars.map pN)
          some (joinSp (sB bt :: fired.map toString))
      | _ => none
  | "URANGES" :: stock :: start0 :: rest =>
      match rest with
      | k :: xs =>
        let hs := hourGroups (pN k) xs
        let rs := universeRanges (pB stock) hs
        some (joinSp (toString (universeStartMinute (pN start0) hs) :: rs.flatMap (fun r => [toString r.1, toString r.2])))
      | _ => none
  | ["MOPEN", h, m] => some (toString (marketOpen (pI h) (pI m)))
  | ["MCLOSE", h, m] => some (toString (marketClose (pI h) (pI m)))
  | ["PTIME", h, m] => some (toString (physicalTime (pI h) (pI m)))
  | _ => none

end Driver

import Driver.Util
import Driver.CmdData
import Driver.CmdAcct
import RQ.ModelF.Validators
import RQ.ModelF.Portfolio
/-! Driver commands for validators (C09 C10 C16) and the portfolio (C03). -/
namespace Driver
open RQ.F

def vetoStr : Option Veto → String
  | none => "PASS"
  | some .position => "position" | some .priceUp => "priceUp" | some .priceDown => "priceDown"
  | some .notListed => "notListed" | some .suspended => "suspended" | some .cash => "cash" | some .selfTrade => "selfTrade"

def rdOrderIn (t : Toks) : OrderIn × Toks :=
  let (il, t) := tk t; let (pr, t) := tk t; let (fp, t) := tk t; let (q, t) := tk t; let (ef, t) := tk t; let (ib, t) := tk t
  ({ isLimit := pB il, price := pF pr, frozenPrice := pF fp, qty := pI q, effect := parseEffect ef, isBuy := pB ib }, t)

def rdPfAccts (t : Toks) : List Acct × Toks :=
  let (n, t) := tk t
  rdMany rdAcct (pN n) t

def shPf (p : Pf) : String :=
  joinSp [sF p.units, sF p.staticNav, sF p.totalValue, sOF p.nav, sOF p.dailyReturns, sOF p.totalReturns]

def cmdMisc (toks : Toks) : Option String :=
  match toks with
  | "VPOS" :: rest =>
      let (o, t) := rdOrderIn rest; let (cl, t) := tk t; let (tcl, _) := tk t
      some (sB (positionVeto o (pI cl) (pI tcl)))
  | "VCLOSABLE" :: rest =>
      -- cfg tplusOn isLong pos openClosing openCloseToday
      let (cfg, t) := rdCfg rest; let (tp, t) := tk t; let (il, t) := tk t
      let (p, t) := rdPos (pB il) t; let (oc, t) := tk t; let (oct, _) := tk t
      some (joinSp [toString (posClosable cfg (pB tp) p (pI oc)), toString (posTodayClosable p (pI oct) (posClosable cfg (pB tp) p (pI oc)))])
  | "VCASH" :: rest =>
      let (cfg, t) := rdCfg rest; let (o, t) := rdOrderIn t; let (oc, t) := tk t; let (cash, _) := tk t
      some (sB (cashVeto cfg o (pF oc) (pF cash)))
  | "VPRICE" :: rest =>
      let (o, t) := rdOrderIn rest; let (lu, t) := tk t; let (ld, _) := tk t
      some (vetoStr (priceVeto o { isIndex := false, isCS := true, listed := true, suspended := false, limitUp4 := pOF lu, limitDown4 := pOF ld }))
  | "VTRADING" :: isIdx :: isCS :: listed :: susp :: _ =>
      some (vetoStr (isTradingVeto { isIndex := pB isIdx, isCS := pB isCS, listed := pB listed, suspended := pB susp, limitUp4 := none, limitDown4 := none }))
  | "VCHAIN" :: rest =>
      -- switches(5) cfg orderIn market(isIndex isCS listed suspended lu ld) closable todayClosable orderCost cash nOpp opp...
      let (s1, t) := tk rest; let (s2, t) := tk t; let (s3, t) := tk t; let (s4, t) := tk t; let (s5, t) := tk t
      let (cfg, t) := rdCfg t
      let (o, t) := rdOrderIn t
      let (ii, t) := tk t; let (ic, t) := tk t; let (li, t) := tk t; let (su, t) := tk t; let (lu, t) := tk t; let (ld, t) := tk t
      let (cl, t) := tk t; let (tcl, t) := tk t; let (oc, t) := tk t; let (cash, t) := tk t
      let (n, t) := tk t
      let opp := (t.take (pN n)).map pF
      some (vetoStr (validate { position := pB s1, price := pB s2, isTrading := pB s3, cash := pB s4, selfTrade := pB s5 } cfg o
        { isIndex := pB ii, isCS := pB ic, listed := pB li, suspended := pB su, limitUp4 := pOF lu, limitDown4 := pOF ld }
        (pI cl) (pI tcl) (pF oc) (pF cash) opp))
  | "PFOBS" :: units :: static :: rest =>
      let (accts, _) := rdPfAccts rest
      some (shPf { accounts := accts, units := pF units, staticNav := pF static })
  | "PFLATCH" :: units :: static :: rest =>
      let (accts, _) := rdPfAccts rest
      some (shPf ({ accounts := accts, units := pF units, staticNav := pF static } : Pf).preBeforeTrading)
  | "PFDEP" :: units :: static :: k :: amt :: hasD :: d :: rest =>
      let (accts, _) := rdPfAccts rest
      match ({ accounts := accts, units := pF units, staticNav := pF static } : Pf).depositWithdraw (pN k) (pF amt) (if pB hasD then some (pN d) else none) with
      | some p => some (shPf p)
      | none => some "RAISE"
  | _ => none

end Driver

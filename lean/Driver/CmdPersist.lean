import Driver.Util
import Driver.CmdData
import Driver.CmdExec
import RQ.ModelF.Persist
import RQ.ModelF.View
/-! Driver commands for persistence (C14). -/
namespace Driver
open RQ.F

def cmdPersist (toks : List String) : Option String :=
  match toks with
  | ["PKEYS"] =>
    -- which of the model's fields the CURRENT source persists: name:0/1
    let f (pre : String) (req ks : List String) := req.map (fun k => s!"{pre}.{k}:{sB (kept ks k)}")
    some (joinSp (f "pos" requiredPosKeys srcKeys.pos ++ f "acct" requiredAcctKeys srcKeys.acct ++ f "pf" requiredPfKeys srcKeys.pf ++
                  [s!"complete:{sB srcKeys.complete}", s!"skipOnLastEqual:{sB RQ.Gen.persistSkipsOnLastEqual}"]))
  | "PSEQ" :: rest =>
    -- states as naturals, 0 = empty state; prints the provider content after each persistence point (0 = nothing stored)
    let sts : List (Option Nat) := rest.map (fun t => if t == "0" then none else some (pN t))
    let step (st : (Option Nat × Option Nat) × List String) (cur : Option Nat) :=
      let r := persistOne RQ.Gen.persistSkipsOnLastEqual st.1.1 st.1.2 cur
      (r, st.2 ++ [match r.1 with | none => "0" | some v => toString v])
    some (joinSp (sts.foldl step ((none, none), [])).2)
  | ["AUCFIELDS"] => some (joinSp srcAuctionFields)
  | "EXECRESUME" :: rest =>
    let (cs, r1) := takeN rest
    let cal := cs.map pN
    match r1 with
    | stopDay :: start :: end_ :: _ =>
      let days := getTradingDates cal (pN start) (pN end_)
      match days.head?, days.getLast? with
      | some a, some b =>
        let pubs := execResume cal (pN stopDay) a b (source1d days)
        some (joinSp (pubs.map (fun p => s!"{kindStr p.kind}.{partStr p.part}.{p.cal}.{p.trd}")))
      | _, _ => some "NODATA"
    | _ => none
  | _ => none

end Driver

import Driver.Util
import Driver.Cmd
/-! Replay driver: one request per line on stdin, one reply per line on stdout. -/
open Driver

partial def loop (h : IO.FS.Stream) (out : IO.FS.Stream) : IO Unit := do
  let line ← h.getLine
  if line.isEmpty then return ()
  let toks := (line.trimAscii.toString.splitOn " ").filter (· ≠ "")
  out.putStrLn (dispatch toks)
  loop h out

def main : IO Unit := do
  let out ← IO.getStdout
  loop (← IO.getStdin) out
  out.flush

import Driver.Util
import Driver.CmdData
import RQ.ModelF.RunCtl
/-! Driver command for run control (C19). -/
namespace Driver
open RQ.F

def codeStr : ExitCode → String
  | .success => "EXIT_SUCCESS" | .userError => "EXIT_USER_ERROR" | .internalError => "EXIT_INTERNAL_ERROR"

def parseMods : List String → List ModSpec
  | tag :: prio :: sr :: tr :: ret :: rest =>
      { tag := pN tag, prio := pI prio, startRaises := pB sr, teardownRaises := pB tr, ret := if ret == "-" then none else some (pN ret) } :: parseMods rest
  | _ => []

def parseOrigin (s : String) : Origin :=
  if s == "user" then .userCode else if s == "api_user" then .apiUserError else if s == "api_internal" then .apiInternal else .systemListener

def cmdRun (toks : List String) : Option String :=
  match toks with
  | "RUNCTL" :: n :: hasFault :: fi :: origin :: rest =>
      let (ms, _) := takeN rest
      let out := runMain (parseMods ms) (pN n) (if pB hasFault then some (pN fi, parseOrigin origin) else none)
      let logS := out.log.map (fun e => match e with
        | .start t => s!"S{t}" | .teardown t c => s!"T{t}:{codeStr c}" | .callback i => s!"C{i}")
      let resS := match out.result with
        | none => "NONE"
        | some l => "RET[" ++ ",".intercalate (l.map (fun (a, b) => s!"{a}={b}")) ++ "]"
      some (joinSp ([codeStr out.code, resS] ++ logS))
  | _ => none

end Driver

import Driver.Util
import Driver.CmdData
import Driver.CmdAcct
import RQ.ModelF.Sizing
/-! Driver commands for the order-sizing APIs (C15). -/
namespace Driver
open RQ.F

def shSide : Option (Bool × Int) → String
  | none => "NONE"
  | some (b, q) => s!"{sB b} {q}"

def effStr : Effect → String
  | .open_ => "OPEN" | .close => "CLOSE" | .closeToday => "CLOSE_TODAY"

def shLegs (l : List Leg) : String :=
  if l.isEmpty then "NONE" else " ".intercalate (l.map (fun x => s!"{sB x.isBuy}:{effStr x.effect}:{x.qty}"))

def cmdSize (toks : Toks) : Option String :=
  match toks with
  | ["SZSHARES", k, lot, amount, cur] => some (shSide (orderShares ⟨pB k, pI lot⟩ (pF amount) (pI cur)))
  | ["SZSHARESAUTO", k, lot, amount, cur, closable, price, cash, rate, mult, minC] =>
      let cfg : StockCostCfg := { rate := pF rate, mult := pF mult, minC := pF minC, taxRate := 0.0, taxMult := 0.0 }
      let cost : Int → Float := fun a => stockOrderCost cfg true false (pF price) (Float.ofInt a)
      some (shSide (orderSharesAuto ⟨pB k, pI lot⟩ (pF amount) (pI cur) (pI closable) (pF price) (pF cash) cost))
  | ["SZLOTS", k, lot, lots, cur] => some (shSide (orderLots ⟨pB k, pI lot⟩ (pF lots) (pI cur)))
  | ["SZORDERTO", k, lot, q, cur] => some (shSide (stockOrderTo ⟨pB k, pI lot⟩ (pF q) (pI cur)))
  | ["SZVALUE", k, lot, v, price, cash, closable, posQty, rate, mult, minC] =>
      let cfg : StockCostCfg := { rate := pF rate, mult := pF mult, minC := pF minC, taxRate := 0.0, taxMult := 0.0 }
      let cost : Int → Float := fun a => stockOrderCost cfg true false (pF price) (Float.ofInt a)
      some (shSide (orderValue ⟨pB k, pI lot⟩ (pF v) (pF price) (pF cash) (pI closable) (pI posQty) cost))
  | ["SZTARGET", k, lot, target, mv, price, cash, closable, posQty, rate, mult, minC] =>
      let cfg : StockCostCfg := { rate := pF rate, mult := pF mult, minC := pF minC, taxRate := 0.0, taxMult := 0.0 }
      let cost : Int → Float := fun a => stockOrderCost cfg true false (pF price) (Float.ofInt a)
      some (shSide (orderTargetValue ⟨pB k, pI lot⟩ (pF target) (pF mv) (pF price) (pF cash) (pI closable) (pI posQty) cost))
  | ["SZFUT", q, target, lq, lo, sq, so] => some (shLegs (futOrderRequests (pI q) (pB target) (pI lq) (pI lo) (pI sq) (pI so)))
  | ["SZFSUB", amount, isBuy, eff, posQty, oldQty, tc] =>
      some (shLegs (futSubmit (pF amount) (pB isBuy) (parseEffect eff) (pI posQty) (pI oldQty) (pI tc)))
  | "SZOTP" :: value :: cash :: rate :: mult :: minC :: taxRate :: taxMult :: _n :: rest =>
      let cfg : StockCostCfg := { rate := pF rate, mult := pF mult, minC := pF minC, taxRate := pF taxRate, taxMult := pF taxMult }
      let rec items : List String → List OtpItem
        | k :: lot :: cs :: pc :: last :: op :: cp :: om :: cm :: cur :: more =>
          { ins := ⟨pB k, pI lot⟩, percent := pF pc, last := pF last, openP := pF op, closeP := pF cp, openMkt := pB om, closeMkt := pB cm,
            cur := pI cur, isCS := pB cs } :: items more
        | _ => []
      let costV : Float → Float := fun v => stockCostWithValue cfg (decide (v < 0)) (if v < 0 then -v else v)
      let sellCost : Bool → Int → Float → Float := fun isCS q price => stockOrderCost cfg isCS true price (Float.ofInt q)
      let os := orderTargetPortfolio (pF value) (pF cash) (items rest) costV sellCost
      some (if os.isEmpty then "NONE" else joinSp (os.map (fun o => s!"{o.idx}:{if o.isBuy then 1 else 0}:{o.qty}:{match o.limit with | none => "-" | some l => toString l.toBits}")))
  | ["DECQ", a, b] => some (toString (R.decQuot10 (pF a) (pF b)))
  | _ => none

end Driver

import Driver.Util
import RQ.ModelF.Cost
import Driver.CmdData
import Driver.CmdSched
import Driver.CmdExec
import Driver.CmdAcct
import Driver.CmdMisc
import Driver.CmdMatch
import Driver.CmdSize
import Driver.CmdRun
import Driver.CmdAnalyse
import Driver.CmdIso
import Driver.CmdPersist
import Driver.CmdWorld
/-! Command table of the replay driver (model instantiated at `Float`). -/
namespace Driver
open RQ.F

def cmdCost : List String → Option String
  | "STKCOMM" :: rate :: mult :: minC :: fills =>
      let cfg : StockCostCfg := { rate := pF rate, mult := pF mult, minC := pF minC, taxRate := 0.0, taxMult := 0.0 }
      some (joinSp ((chargeFills cfg cfg.minC (pairsF fills)).map sF))
  | ["STKTAX", taxRate, taxMult, isCS, isSell, money] =>
      let cfg : StockCostCfg := { rate := 0.0, mult := 0.0, minC := 0.0, taxRate := pF taxRate, taxMult := pF taxMult }
      some (sF (stockTax cfg (pB isCS) (pB isSell) (pF money)))
  | ["STKORD", rate, mult, minC, taxRate, taxMult, isCS, isSell, price, qty] =>
      let cfg : StockCostCfg := { rate := pF rate, mult := pF mult, minC := pF minC, taxRate := pF taxRate, taxMult := pF taxMult }
      some (sF (stockOrderCost cfg (pB isCS) (pB isSell) (pF price) (pF qty)))
  | ["STKVAL", rate, mult, minC, taxRate, taxMult, isSell, value] =>
      let cfg : StockCostCfg := { rate := pF rate, mult := pF mult, minC := pF minC, taxRate := pF taxRate, taxMult := pF taxMult }
      some (sF (stockCostWithValue cfg (pB isSell) (pF value)))
  | ["PITTAX", change, before, after, d] =>
      some (sF (pitTaxRate (pN change) (pF before) (pF after) (pN d)))
  | ["FUTCOMM", byMoney, openR, closeR, ctR, cm, commMult, isOpen, price, qty, closeToday] =>
      let cfg : FutCostCfg := { byMoney := pB byMoney, openR := pF openR, closeR := pF closeR, closeTodayR := pF ctR,
                                contractMult := pF cm, commMult := pF commMult }
      some (sF (futCommission cfg (pB isOpen) (pF price) (pF qty) (pF closeToday)))
  | ["FUTORD", byMoney, openR, closeR, ctR, cm, commMult, isOpen, isCT, price, qty] =>
      let cfg : FutCostCfg := { byMoney := pB byMoney, openR := pF openR, closeR := pF closeR, closeTodayR := pF ctR,
                                contractMult := pF cm, commMult := pF commMult }
      some (sF (futOrderCost cfg (pB isOpen) (pB isCT) (pF price) (pF qty)))
  | _ => none

def dispatch (toks : List String) : String :=
  match cmdCost toks with
  | some r => r
  | none =>
  match cmdData toks with
  | some r => r
  | none =>
  match cmdSched toks with
  | some r => r
  | none =>
  match cmdExec toks with
  | some r => r
  | none =>
  match cmdAcct toks with
  | some r => r
  | none =>
  match cmdMisc toks with
  | some r => r
  | none =>
  match cmdMatch toks with
  | some r => r
  | none =>
  match cmdSize toks with
  | some r => r
  | none =>
  match cmdRun toks with
  | some r => r
  | none =>
  match cmdAnalyse toks with
  | some r => r
  | none =>
  match cmdIso toks with
  | some r => r
  | none =>
  match cmdPersist toks with
  | some r => r
  | none =>
  match cmdWorld toks with
  | some r => r
  | none => "ERR unknown-command"

end Driver

import Driver.Util
import Driver.CmdData
import Driver.CmdRun
import RQ.ModelF.Analyser
/-! Driver commands for the analyser (C18) and Python-compatible rounding. -/
namespace Driver
open RQ.F

def takeF (n : Nat) (l : List String) : List Float × List String := ((l.take n).map pF, l.drop n)

def parseSnap (l : List String) : PfSnap × List String :=
  match l with
  | a :: b :: c :: d :: e :: f :: g :: h :: rest => (⟨pF a, pF b, pF c, pF d, pF e, pF f, pF g, pF h⟩, rest)
  | _ => (⟨0, 0, 0, 0, 0, 0, 0, 0⟩, [])

/-- `n (tag nf f…)*` -/
partial def parseRows (l : List String) : List RowSnap × List String :=
  match l with
  | n :: rest =>
    let rec go (k : Nat) (l : List String) (acc : List RowSnap) : List RowSnap × List String :=
      match k, l with
      | 0, l => (acc.reverse, l)
      | k + 1, tag :: nf :: rest => let (fs, rest') := takeF (pN nf) rest; go k rest' (⟨tag, fs⟩ :: acc)
      | _, _ => (acc.reverse, [])
    go (pN n) rest []
  | [] => ([], [])

partial def parseEvents (l : List String) (acc : List AEv) : List AEv :=
  match l with
  | "T" :: ex :: oid :: book :: side :: eff :: qty :: price :: tax :: comm :: cal :: trd :: rest =>
    parseEvents rest (.trade ⟨pN ex, pN oid, book, side, eff, pF qty, pF price, pF tax, pF comm, pN cal, pN trd⟩ :: acc)
  | "O" :: oid :: rest => parseEvents rest (.orderPass (pN oid) :: acc)
  | "S" :: day :: rest =>
    let (p, r1) := parseSnap rest
    let (accts, r2) := parseRows r1
    let (poss, r3) := parseRows r2
    parseEvents r3 (.postSettlement (pN day) p accts poss :: acc)
  | "X" :: rest => parseEvents rest (.other :: acc)
  | _ => acc.reverse

/-- `nparts (w n closes…)*` -/
partial def parseBench (l : List String) : Option (List (List Float × Float)) × List String :=
  match l with
  | "-" :: rest => (none, rest)
  | n :: rest =>
    let rec go (k : Nat) (l : List String) (acc : List (List Float × Float)) : List (List Float × Float) × List String :=
      match k, l with
      | 0, l => (acc.reverse, l)
      | k + 1, w :: nc :: rest => let (cs, rest') := takeF (pN nc) rest; go k rest' ((benchReturns cs, pF w) :: acc)
      | _, _ => (acc.reverse, [])
    let (ps, rest') := go (pN n) rest []
    (some ps, rest')
  | [] => (none, [])

def annS : Ann → List String
  | .minusOne => ["M"]
  | .pow b d => ["P", sF b, toString d]

def rowS (r : Row) : List String := [toString r.date, r.tag, toString r.fields.length] ++ r.fields.map sF

def cmdAnalyse (toks : List String) : Option String :=
  match toks with
  | "ANALYSE" :: code :: enabled :: dateCount :: nDays :: rest =>
    let (final, r1) := parseSnap rest
    let (parts, r2) := parseBench r1
    let evs := parseEvents r2 []
    let c : ExitCode := if code == "S" then .success else if code == "U" then .userError else .internalError
    let bench := parts.map (fun ps => benchCombine (pN nDays) ps)
    match analyserTearDown c (pB enabled) (collect evs) final (pN dateCount) bench with
    | none => some "NONE"
    | some r =>
      let s := r.summary
      let head := ["REPORT", sF s.totalValue, sF s.cash, sF s.totalReturns, sF s.nav, sF s.units] ++ annS s.annualized ++
        (match s.benchTotal with | none => ["-"] | some t => [sF t]) ++ (match s.benchAnnualized with | none => ["-"] | some a => annS a)
      let pfS := r.portfolio.flatMap (fun p => [toString p.date, sF p.cash, sF p.totalValue, sF p.marketValue, sF p.nav, sF p.units, sF p.staticNav])
      let trS := r.trades.flatMap (fun t => [toString t.execId, toString t.orderId, t.book, t.side, t.effect, sF t.qty, sF t.price, sF t.tax, sF t.commission, sF t.cost, toString t.cal, toString t.trd])
      let bn := match r.benchNav with | none => ["NB", "-"] | some l => ["NB", toString l.length] ++ l.map sF
      some (joinSp (head ++ ["NP", toString r.portfolio.length] ++ pfS ++ ["NT", toString r.trades.length] ++ trS ++
                    ["NA", toString r.accounts.length] ++ r.accounts.flatMap rowS ++ ["NPOS", toString r.positions.length] ++ r.positions.flatMap rowS ++ bn))
  | "ROUNDDEC" :: n :: xs => some (joinSp (xs.map (fun x => sF (R.roundDec (pN n) (pF x)))))
  | _ => none

end Driver

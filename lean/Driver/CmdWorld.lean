import Driver.Util
import Driver.CmdData
import Driver.CmdAcct
import Driver.CmdMatch
import RQ.ModelF.World
import RQ.ModelF.WorldApi
import RQ.ModelF.WorldSignal
import RQ.ModelF.WorldConv
/-! Driver command for the free-running world: one request = one whole run (configuration, starting portfolio, the day events and
the strategy's calls in order); the reply holds, per input, what was published and the state of every account afterwards. -/
namespace Driver
open RQ.F

def rdSwitches (t : Toks) : Switches × Toks :=
  let (a, t) := tk t; let (b, t) := tk t; let (c, t) := tk t; let (d, t) := tk t; let (e, t) := tk t
  ({ position := pB a, price := pB b, isTrading := pB c, cash := pB d, selfTrade := pB e }, t)

def rdWIns (t : Toks) : WIns × Toks :=
  let (ins, t) := tk t
  let (cfg, t) := rdCfg t
  let (isCS, t) := tk t; let (tkey, t) := tk t; let (tick, t) := tk t
  let (bm, t) := tk t; let (o, t) := tk t; let (c, t) := tk t; let (ct, t) := tk t; let (cm, t) := tk t; let (mult, t) := tk t
  ({ ins := pN ins, cfg := cfg, isCS := pB isCS, typeKey := pN tkey, tick := pF tick,
     futCost := { byMoney := pB bm, openR := pF o, closeR := pF c, closeTodayR := pF ct, contractMult := pF cm, commMult := pF mult } }, t)

def rdWCfg (t : Toks) : WCfg × Toks :=
  let (n, t) := tk t
  let (inss, t) := rdMany rdWIns (pN n) t
  let (pl, t) := tk t; let (il, t) := tk t; let (vl, t) := tk t; let (vp, t) := tk t; let (sk, t) := tk t; let (sr, t) := tk t
  let (rate, t) := tk t; let (mult, t) := tk t; let (minC, t) := tk t; let (taxMult, t) := tk t
  let (sws, t) := rdSwitches t
  let (swf, t) := rdSwitches t
  let (tp, t) := tk t; let (ri, t) := tk t; let (fo, t) := tk t; let (mi, t) := tk t; let (dy, t) := tk t
  ({ instruments := inss, priceLimit := pB pl, inactiveLimit := pB il, volumeLimit := pB vl, volumePercent := pF vp, slipKind := pN sk,
     slipRate := pF sr, stockCost := { rate := pF rate, mult := pF mult, minC := pF minC, taxRate := 0.0, taxMult := pF taxMult },
     swStock := sws, swFut := swf, tplusOn := pB tp, reinvest := pB ri, forced := pB fo, matchImmediately := pB mi, daily := pB dy }, t)

def rdDayIns (today : Nat) (t : Toks) : DayIns × Toks :=
  let (ins, t) := tk t; let (op, t) := tk t; let (cl, t) := tk t; let (ad, t) := tk t; let (bd, t) := tk t
  let (lu, t) := tk t; let (ld, t) := tk t; let (vol, t) := tk t; let (lt, t) := tk t; let (li, t) := tk t; let (su, t) := tk t
  let (hd, t) := tk t; let (dps, t) := tk t; let (pay, t) := tk t; let (hs, t) := tk t; let (ra, t) := tk t
  let (dk, t) := tk t; let (hst, t) := tk t; let (sp, t) := tk t; let (ex, t) := tk t
  let mk (deal : String) : MBar := { deal := pOF deal, limitUp := pOF lu, limitDown := pOF ld, volume := pOF vol, listedToday := pB lt }
  ({ ins := pN ins, open_ := pOF op, close := pOF cl, auc := mk ad, bar := mk bd, listed := pB li, suspended := pB su,
     corp := { bookDps := if pB hd then some (pF dps, pN pay) else none, split := if pB hs then some (pF ra) else none, today := today },
     delist := if dk == "1" then .payout else if dk == "2" then .forfeit else .none,
     settle := if pB hst then some (pF sp) else none, expires := pB ex }, t)

def pON (s : String) : Option Nat := if s == "-" then none else some (pN s)

def rdWIn (t : Toks) : WIn × Toks :=
  let (tag, t) := tk t
  if tag == "P" then
    let (today, t) := tk t; let (tax, t) := tk t; let (n, t) := tk t
    let (ds, t) := rdMany (rdDayIns (pN today)) (pN n) t
    (.preBeforeTrading (pN today) (pF tax) ds, t)
  else if tag == "M" then
    let (n, t) := tk t
    let (rows, t) := rdMany (fun t =>
      let (ins, t) := tk t; let (cl, t) := tk t; let (deal, t) := tk t; let (lu, t) := tk t; let (ld, t) := tk t; let (vol, t) := tk t
      ((pN ins, pOF cl, ({ deal := pOF deal, limitUp := pOF lu, limitDown := pOF ld, volume := pOF vol, listedToday := false } : MBar)), t)) (pN n) t
    (.barData rows, t)
  else if tag == "B" then (.beforeTrading, t)
  else if tag == "A" then (.openAuction, t)
  else if tag == "R" then (.bar, t)
  else if tag == "T" then (.afterTrading, t)
  else if tag == "S" then (.settlement, t)
  else if tag == "O" then
    let (id, t) := tk t; let (ins, t) := tk t; let (ib, t) := tk t; let (il, t) := tk t; let (pr, t) := tk t; let (ef, t) := tk t; let (q, t) := tk t
    (.submit { id := pN id, ins := pN ins, isBuy := pB ib, isLimit := pB il, price := pF pr, effect := parseEffect ef, qty := pI q }, t)
  else if tag == "C" then let (id, t) := tk t; (.cancel (pN id), t)
  else if tag == "D" then
    let (k, t) := tk t; let (a, t) := tk t; let (h, t) := tk t; let (d, t) := tk t
    (.deposit (pN k) (pF a) (if pB h then some (pN d) else none), t)
  else
    let (k, t) := tk t; let (a, t) := tk t
    (.finance (pN k) (pF a), t)

def wVetoStr : Veto → String
  | .position => "position" | .priceUp => "priceUp" | .priceDown => "priceDown" | .notListed => "notListed"
  | .suspended => "suspended" | .cash => "cash" | .selfTrade => "selfTrade"

def shEv : WEv → String
  | .order (.pendingNew id) => s!"PN:{id}"
  | .order (.creationPass id) => s!"CP:{id}"
  | .order (.trade id q p fee) => s!"TR:{id}:{q}:{sF p}:{sF fee}"
  | .order (.unsolicited id) => s!"UU:{id}"
  | .order (.pendingCancel id) => s!"PC:{id}"
  | .order (.cancellationPass id) => s!"XP:{id}"
  | .creationReject id v => s!"CR:{id}:{wVetoStr v}"
  | .noMarket id => s!"NM:{id}"
  | .depositRefused => "DR"

def shWorld (w : World) : String :=
  joinSp ((w.pf.accounts.map shAcct).intersperse "@@" ++ ["##", sF w.pf.units, sF w.pf.staticNav, "##"] ++
    (w.openOrders ++ w.auctionOrders).map (fun o => toString o.id))

def shOrdFull (o : Ord) : String := joinSp [toString o.id, statusStr o.status, toString o.filled, sF o.avg, sF o.cost, sF o.frozenPrice, sF o.initFrozen]

/-- fold over the inputs, one reply segment per input -/
def runSegs (w : World) : List WIn → World × List String
  | [] => (w, [])
  | i :: rest =>
    let (w1, evs) := w.step i
    let seg := joinSp (evs.map shEv ++ ["##", shWorld w1])
    let (w2, segs) := runSegs w1 rest
    (w2, seg :: segs)

def parseStockApi (s : String) : StockApi :=
  if s == "order_shares" || s == "order" then .shares else if s == "order_lots" then .lots else if s == "order_value" then .value
  else if s == "order_percent" then .percent else if s == "order_target_value" then .targetValue
  else if s == "order_target_percent" then .targetPercent else .orderTo

def rdIds (t : Toks) : List Nat × Toks :=
  let (n, t) := tk t
  rdMany (fun t => let (x, t) := tk t; (pN x, t)) (pN n) t

def rdWIn2 (t : Toks) : WIn2 × Toks :=
  match t with
  | "K" :: api :: ins :: x :: hl :: lim :: rest =>
    let (ids, t) := rdIds rest
    (.api (.stock (parseStockApi api) (pN ins) (pF x) (if pB hl then some (pF lim) else none)) ids, t)
  | "KF" :: ins :: amount :: ib :: ef :: hl :: lim :: rest =>
    let (ids, t) := rdIds rest
    (.api (.future (pN ins) (pF amount) (pB ib) (parseEffect ef) (if pB hl then some (pF lim) else none)) ids, t)
  | _ => let (i, t) := rdWIn t; (.base i, t)

def rdWIn3 (t : Toks) : WIn3 × Toks :=
  match t with
  | "V" :: pred :: succ :: ratio :: rest => (.convert (pN pred) (pN succ) (pF ratio), rest)
  | _ => let (i, t) := rdWIn2 t; (.w2 i, t)

def runSegs2 (w : World) (ac : ApiCfg) : List WIn3 → World × List String
  | [] => (w, [])
  | i :: rest =>
    let (w1, evs) := w.step3 ac i
    let seg := joinSp (evs.map shEv ++ ["##", shWorld w1])
    let (w2, segs) := runSegs2 w1 ac rest
    (w2, seg :: segs)

def runSegsS (w : World) : List WIn → World × List String
  | [] => (w, [])
  | i :: rest =>
    let (w1, evs) := w.stepS i
    let seg := joinSp (evs.map shEv ++ ["##", shWorld w1])
    let (w2, segs) := runSegsS w1 rest
    (w2, seg :: segs)

def cmdWorld (toks : Toks) : Option String :=
  match toks with
  | "WRUN" :: rest =>
      let (cfg, t) := rdWCfg rest
      let (na, t) := tk t
      let (accts, t) := rdMany rdAcct (pN na) t
      let (units, t) := tk t; let (stat, t) := tk t; let (si, t) := tk t; let (fi, t) := tk t
      let (n, t) := tk t
      let (ins, _) := rdMany rdWIn (pN n) t
      let w0 : World := { cfg := cfg, pf := { accounts := accts, units := pF units, staticNav := pF stat }, stockIdx := pON si, futIdx := pON fi,
                          openOrders := [], auctionOrders := [], finals := [], turnover := [], commMap := [], mkt := [], today := 0,
                          taxRate := 0.0, phase := .before, log := [] }
      let (w, segs) := runSegs w0 ins
      let ords := (w.finals.reverse ++ w.openOrders ++ w.auctionOrders).map shOrdFull
      some (joinSp (segs.intersperse ";;" ++ [";;", "ORDERS"] ++ ords.intersperse "," ++ [";;", "LOG", toString w.log.length]))
  | "WRUNS" :: rest =>
      let (cfg, t) := rdWCfg rest
      let (na, t) := tk t
      let (accts, t) := rdMany rdAcct (pN na) t
      let (units, t) := tk t; let (stat, t) := tk t; let (si, t) := tk t; let (fi, t) := tk t
      let (n, t) := tk t
      let (ins, _) := rdMany rdWIn (pN n) t
      let w0 : World := { cfg := cfg, pf := { accounts := accts, units := pF units, staticNav := pF stat }, stockIdx := pON si, futIdx := pON fi,
                          openOrders := [], auctionOrders := [], finals := [], turnover := [], commMap := [], mkt := [], today := 0,
                          taxRate := 0.0, phase := .before, log := [] }
      let (w, segs) := runSegsS w0 ins
      let ords := (w.finals.reverse ++ w.openOrders ++ w.auctionOrders).map shOrdFull
      some (joinSp (segs.intersperse ";;" ++ [";;", "ORDERS"] ++ ords.intersperse "," ++ [";;", "LOG", toString w.log.length]))
  | "WRUN2" :: rest =>
      let (cfg, t) := rdWCfg rest
      let (na, t) := tk t
      let (accts, t) := rdMany rdAcct (pN na) t
      let (units, t) := tk t; let (stat, t) := tk t; let (si, t) := tk t; let (fi, t) := tk t
      let (auto, t) := tk t
      let (ksh, t) := rdIds t
      let (n, t) := tk t
      let (ins, _) := rdMany rdWIn3 (pN n) t
      let w0 : World := { cfg := cfg, pf := { accounts := accts, units := pF units, staticNav := pF stat }, stockIdx := pON si, futIdx := pON fi,
                          openOrders := [], auctionOrders := [], finals := [], turnover := [], commMap := [], mkt := [], today := 0,
                          taxRate := 0.0, phase := .before, log := [] }
      let (w, segs) := runSegs2 w0 { autoSwitch := pB auto, ksh := ksh } ins
      let ords := (w.finals.reverse ++ w.openOrders ++ w.auctionOrders).map shOrdFull
      some (joinSp (segs.intersperse ";;" ++ [";;", "ORDERS"] ++ ords.intersperse "," ++ [";;", "LOG", toString w.log.length]))
  | _ => none

end Driver

import Driver.Util
import Driver.CmdData
import RQ.ModelF.Account
/-! Driver commands for account / position operations (step-sync correspondence; C01 C02 C03 C09 C10 C12). -/
namespace Driver
open RQ.F

abbrev Toks := List String

def tk (t : Toks) : String × Toks := match t with | x :: r => (x, r) | [] => ("0", [])

def rdPos (isLong : Bool) (t : Toks) : Pos × Toks :=
  let (qty, t) := tk t; let (old, t) := tk t; let (lg, t) := tk t; let (avg, t) := tk t; let (tc, t) := tk t
  let (xc, t) := tk t; let (last, t) := tk t; let (nc, t) := tk t; let (dd, t) := tk t; let (da, t) := tk t
  ({ isLong := isLong, qty := pI qty, oldQty := pI old, logicalOld := pI lg, avg := pF avg, tradeCost := pF tc, txnCost := pF xc,
     last := pF last, nonClosable := pI nc, divRecv := if dd == "0" then none else some (pN dd, pF da) }, t)

def rdCfg (t : Toks) : InsCfg × Toks :=
  let (isF, t) := tk t; let (mult, t) := tk t; let (mr, t) := tk t; let (mm, t) := tk t; let (tp, t) := tk t; let (lot, t) := tk t
  ({ isFuture := pB isF, mult := pF mult, marginRatio := pF mr, marginMult := pF mm, tplus := pB tp, lot := pI lot }, t)

def rdHolding (t : Toks) : Holding × Toks :=
  let (ins, t) := tk t
  let (cfg, t) := rdCfg t
  let (l, t) := rdPos true t
  let (s, t) := rdPos false t
  ({ ins := pN ins, cfg := cfg, long := l, short := s }, t)

def rdMany {α : Type} (rd : Toks → α × Toks) : Nat → Toks → List α × Toks
  | 0, t => ([], t)
  | n + 1, t => let (x, t1) := rd t; let (xs, t2) := rdMany rd n t1; (x :: xs, t2)

def rdAcct (t : Toks) : Acct × Toks :=
  let (tc, t) := tk t; let (fr, t) := tk t; let (li, t) := tk t; let (mf, t) := tk t; let (mr, t) := tk t; let (fi, t) := tk t
  let (np, t) := tk t
  let (pend, t) := rdMany (fun t => let (d, t) := tk t; let (a, t) := tk t; ((pN d, pF a), t)) (pN np) t
  let (nh, t) := tk t
  let (hs, t) := rdMany rdHolding (pN nh) t
  ({ totalCash := pF tc, frozen := pF fr, liabilities := pF li, pending := pend, mgmtFees := pF mf, mgmtRate := pF mr, finRate := pF fi,
     holdings := hs }, t)

def shPos (p : Pos) : List String :=
  [toString p.qty, toString p.oldQty, toString p.logicalOld, sF p.avg, sF p.tradeCost, sF p.txnCost, sF p.last, toString p.nonClosable] ++
  (match p.divRecv with | none => ["0", "0"] | some (d, a) => [toString d, sF a])

def shAcct (a : Acct) : String :=
  joinSp ([sF a.totalCash, sF a.frozen, sF a.liabilities, sF a.mgmtFees, toString a.pending.length] ++
    a.pending.flatMap (fun (d, x) => [toString d, sF x]) ++ [toString a.holdings.length] ++
    a.holdings.flatMap (fun h => [toString h.ins] ++ shPos h.long ++ shPos h.short) ++
    ["|", sF a.cash, sF a.margin, sF a.marketValue, sF a.totalValue, sF a.positionEquity, sF a.transactionCost, sF a.tradingPnl])

def parseEffect (s : String) : Effect :=
  if s == "OPEN" then .open_ else if s == "CLOSE_TODAY" then .closeToday else .close

def cmdAcct (toks : Toks) : Option String :=
  match toks with
  | "AOBS" :: rest => let (a, _) := rdAcct rest; some (shAcct a)
  | "ATRADE" :: rest =>
      let (a, t) := rdAcct rest
      let (ins, t) := tk t
      let (cfg, t) := rdCfg t
      let (cl, t) := tk t; let (isLong, t) := tk t; let (price, t) := tk t; let (qty, t) := tk t; let (eff, t) := tk t; let (fee, t) := tk t
      let (hasOrd, t) := tk t; let (oq, t) := tk t; let (init, _) := tk t
      let tr : TradeIn := { price := pF price, qty := pI qty, effect := parseEffect eff, fee := pF fee }
      some (shAcct (a.applyTrade (pN ins) cfg (pF cl) (pB isLong) tr (if pB hasOrd then some (pI oq, pF init) else none)))
  | "APNEW" :: rest => let (a, t) := rdAcct rest; let (init, _) := tk t; some (shAcct (a.onPendingNew (pF init)))
  | "AUNSOL" :: rest =>
      let (a, t) := rdAcct rest; let (q, t) := tk t; let (f, t) := tk t; let (init, _) := tk t
      some (shAcct (a.onUnsolicited (pI q) (pI f) (pF init)))
  | "AFROZEN" :: rest =>
      let (cfg, t) := rdCfg rest; let (p, t) := tk t; let (q, t) := tk t; let (isOpen, t) := tk t; let (oc, _) := tk t
      some (sF (frozenCashOfOrder cfg (pF p) (pI q) (pB isOpen) (pF oc)))
  | "ABAR" :: rest =>
      let (a, t) := rdAcct rest
      let (n, t) := tk t
      let (ps, _) := rdMany (fun t => let (i, t) := tk t; let (p, t) := tk t; ((pN i, pOF p), t)) (pN n) t
      some (shAcct (a.onBar (fun i => (ps.find? (·.1 == i)).bind (·.2))))
  | "ABT" :: rest =>
      let (a, t) := rdAcct rest
      let (today, t) := tk t; let (reinv, t) := tk t; let (n, t) := tk t
      -- per instrument: ins hasDiv dps payable hasSplit ratio fee
      let (rows, _) := rdMany (fun t =>
        let (i, t) := tk t; let (hd, t) := tk t; let (dps, t) := tk t; let (pay, t) := tk t; let (hs, t) := tk t; let (ra, t) := tk t; let (fee, t) := tk t
        ((pN i, (if pB hd then some (pF dps, pN pay) else none), (if pB hs then some (pF ra) else none), pF fee), t)) (pN n) t
      let corp : Nat → CorpDay := fun i => match rows.find? (·.1 == i) with
        | some (_, d, s, _) => { bookDps := d, split := s, today := pN today }
        | none => { bookDps := none, split := none, today := pN today }
      let fee : Nat → Int → Float → Float := fun i _ _ => match rows.find? (·.1 == i) with
        | some (_, _, _, f) => f
        | none => 0.0
      some (shAcct (a.onBeforeTrading { today := pN today, corp := corp, reinvest := pB reinv, fee := fee }))
  | "AST" :: rest =>
      let (a, t) := rdAcct rest
      let (forced, t) := tk t; let (n, t) := tk t
      -- per instrument: ins delist(0 none,1 payout,2 forfeit) hasSettle settle expires
      let (rows, _) := rdMany (fun t =>
        let (i, t) := tk t; let (dk, t) := tk t; let (hs, t) := tk t; let (sp, t) := tk t; let (ex, t) := tk t
        ((pN i, pN dk, (if pB hs then some (pF sp) else none), pB ex), t)) (pN n) t
      let inp : STInput := {
        delist := fun i => match rows.find? (·.1 == i) with
          | some (_, 1, _, _) => .payout | some (_, 2, _, _) => .forfeit | _ => .none,
        settle := fun i => (rows.find? (·.1 == i)).bind (fun r => r.2.2.1),
        expires := fun i => match rows.find? (·.1 == i) with | some (_, _, _, e) => e | none => false,
        forced := pB forced }
      some (shAcct (a.onSettlement inp))
  | "ADEP" :: rest =>
      let (a, t) := rdAcct rest; let (amt, t) := tk t; let (hasD, t) := tk t; let (d, _) := tk t
      match a.depositWithdraw (pF amt) (if pB hasD then some (pN d) else none) with
      | some a' => some (shAcct a')
      | none => some "RAISE"
  | "AFIN" :: rest => let (a, t) := rdAcct rest; let (amt, _) := tk t; some (shAcct (a.financeRepay (pF amt)))
  | "ACONV" :: rest =>
      let (a, t) := rdAcct rest
      let (pred, t) := tk t; let (succ, t) := tk t
      let (cfg, t) := rdCfg t
      let (cl, t) := tk t; let (ratio, t) := tk t; let (sq, t) := tk t; let (rep, _) := tk t
      some (shAcct (a.convert (pN pred) (pN succ) cfg (pF cl) (pF ratio) (pI sq) (pB rep)))
  | _ => none

end Driver

import Driver.Util
import RQ.ModelF.History
import RQ.ModelF.Weekly
/-! Driver commands for calendar and history (C20, C17). -/
namespace Driver
open RQ.F

def sON : Option Nat → String
  | none => "NONE"
  | some n => toString n

/-- split `n x1..xn rest` -/
def takeN (toks : List String) : List String × List String :=
  match toks with
  | n :: rest => (rest.take n.toNat!, rest.drop n.toNat!)
  | [] => ([], [])

def parseBars : List String → List Bar
  | d :: o :: c :: h :: l :: v :: t :: lu :: ld :: rest =>
      { dt := pN d, openP := pF o, closeP := pF c, highP := pF h, lowP := pF l, volume := pF v, turnover := pF t,
        limitUp := pF lu, limitDown := pF ld } :: parseBars rest
  | _ => []

def parseFacs : List String → List (Nat × Float)
  | d :: f :: rest => (pN d, pF f) :: parseFacs rest
  | _ => []

def showBar (b : Bar) : String :=
  joinSp [toString b.dt, sF b.openP, sF b.closeP, sF b.highP, sF b.lowP, sF b.volume, sF b.turnover, sF b.limitUp, sF b.limitDown]

def cmdData (toks : List String) : Option String :=
  match toks with
  | "MERGECAL" :: k :: rest =>
      let rec go (n : Nat) (r : List String) (acc : List (List Nat)) : List (List Nat) :=
        match n with
        | 0 => acc.reverse
        | n + 1 => let (c, r') := takeN r; go n r' (c.map pN :: acc)
      some (joinSp ((mergeCals (go (pN k) rest [])).map toString))
  | "CAL" :: rest =>
      let (cs, r) := takeN rest
      let cal := cs.map pN
      match r with
      | ["DATES", s, e] => some (joinSp ((getTradingDates cal (pN s) (pN e)).map toString))
      | ["PREV", d, n] => some (sON (prevTradingDate cal (pN d) (pN n)))
      | ["NEXT", d, n] => some (sON (nextTradingDate cal (pN d) (pN n)))
      | ["ISTD", d] => some (sB (isTradingDate cal (pN d)))
      | ["NUNTIL", d, n] => some (joinSp ((nTradingDatesUntil cal (pN d) (pN n)).map toString))
      | ["COUNT", s, e] => some (toString (countTradingDates cal (pN s) (pN e)))
      | ["APIEND", bo, td, cd] => some (sON (apiEndDate cal (pB bo) (pN td) (pN cd)))
      | _ => none
  | "HISTW" :: isCS :: noAdj :: skip :: inow :: adj :: n :: dt :: orig :: rest =>
      let (bs, r) := takeN rest
      let bars := parseBars bs
      let facs : Option (List (Nat × Float)) := match r with
        | "-" :: _ => none
        | _ => some (parseFacs (takeN r).1)
      let t := if adj == "pre" then AdjustType.pre else if adj == "post" then AdjustType.post else AdjustType.none
      match historyBarsWeekly bars (pB isCS) (pB noAdj) facs (pN n) (pN dt) (pB inow) (pB skip) t (pN orig) with
      | none => some "NONE"
      | some out => some (joinSp (toString out.length :: out.map showBar))
  | "HIST" :: isCS :: noAdj :: skip :: adj :: n :: dt :: orig :: rest =>
      let (bs, r) := takeN rest
      -- bars come as 9 tokens each; takeN counted tokens
      let bars := parseBars bs
      let facs : Option (List (Nat × Float)) := match r with
        | "-" :: _ => none
        | _ => some (parseFacs (takeN r).1)
      let t := if adj == "pre" then AdjustType.pre else if adj == "post" then AdjustType.post else AdjustType.none
      match historyBars bars (pB isCS) (pB noAdj) facs (pN n) (pN dt) (pB skip) t (pN orig) with
      | none => some "NONE"
      | some out => some (joinSp (toString out.length :: out.map showBar))
  | _ => none

end Driver

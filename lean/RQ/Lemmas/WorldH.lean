/-
World-level lemmas, part H (isolation from unrelated data, C13 / C07 at whole-system level): the market data of an instrument the run
never touches — no order on it, no holding of it — has no influence on the run.  Deleting every row of that instrument from every
market table the run receives changes nothing observable: same accounts, same books, same fee state, same published events.
-/
import RQ.Model.World
import RQ.Lemmas.WorldB
import Mathlib.Tactic.SplitIfs

namespace RQ.Lemmas.WorldH
open RQ.Q

/-- a market table without the rows of instrument `j` -/
def dropIns (j : Nat) (mkt : List DayIns) : List DayIns := mkt.filter (fun d => d.ins != j)

/-- an input with every market row of instrument `j` removed -/
def strip (j : Nat) : WIn → WIn
  | .preBeforeTrading today tax mkt => .preBeforeTrading today tax (dropIns j mkt)
  | .barData rows => .barData (rows.filter (fun r => r.1 != j))
  | i => i

/-- the only way an input can refer to an instrument: an order on it -/
def Mentions (j : Nat) : WIn → Prop
  | .submit o => o.ins = j
  | _ => False

/-- everything of a world except the market table in force and the ghost log (whose `bar` / `beforeTrading` / `settlement` entries are
functions of the whole table) -/
structure Obs where
  cfg : WCfg
  pf : Pf
  stockIdx : Option Nat
  futIdx : Option Nat
  openOrders : List Ord
  auctionOrders : List Ord
  finals : List Ord
  turnover : List (Nat × Int)
  commMap : List ((Option Nat × Nat) × R)
  today : Nat
  taxRate : R
  phase : WPhase

def obs (w : World) : Obs :=
  { cfg := w.cfg, pf := w.pf, stockIdx := w.stockIdx, futIdx := w.futIdx, openOrders := w.openOrders, auctionOrders := w.auctionOrders,
    finals := w.finals, turnover := w.turnover, commMap := w.commMap, today := w.today, taxRate := w.taxRate, phase := w.phase }

/-- instrument `j` is foreign to the world: no account holds it and no order on it rests -/
def Foreign (j : Nat) (w : World) : Prop :=
  (∀ (k : Nat) (a : Acct), w.pf.accounts[k]? = some a → ∀ h ∈ a.holdings, h.ins ≠ j) ∧
  (∀ o ∈ w.openOrders ++ w.auctionOrders, o.ins ≠ j)

/-- two worlds that differ only in the rows of `j` in the market table (and in the ghost log) -/
def Same (j : Nat) (w w' : World) : Prop := obs w = obs w' ∧ dropIns j w.mkt = dropIns j w'.mkt

/-! ### generalities -/

theorem foldl_congr_mem {α β : Type _} (f g : β → α → β) (l : List α) (b : β) (h : ∀ b, ∀ x ∈ l, f b x = g b x) :
    l.foldl f b = l.foldl g b := by
  induction l generalizing b with
  | nil => rfl
  | cons x xs ih =>
    simp only [List.foldl_cons]
    rw [h b x (by simp)]
    exact ih _ (fun b y hy => h b y (List.mem_cons_of_mem _ hy))

theorem find_dropIns (j i : Nat) (hij : i ≠ j) (m : List DayIns) :
    (dropIns j m).find? (·.ins == i) = m.find? (·.ins == i) := by
  induction m with
  | nil => rfl
  | cons d ds ih =>
    unfold dropIns at ih ⊢
    by_cases hd : d.ins = j
    · have h1 : (d.ins != j) = false := by simp [hd]
      have h2 : (d.ins == i) = false := by
        simp only [beq_eq_false_iff_ne, ne_eq]; intro h; exact hij (h ▸ hd)
      simp only [List.filter_cons, h1, List.find?_cons, h2]
      exact ih
    · have h1 : (d.ins != j) = true := by simp [hd]
      simp only [List.filter_cons, h1, if_true, List.find?_cons]
      rw [ih]

/-! ### accounts: holdings that avoid `j`, and congruence of the market-driven operations -/

/-- no holding of `j` -/
def AClean (j : Nat) (a : Acct) : Prop := ∀ h ∈ a.holdings, h.ins ≠ j

theorem onBar_congr (a : Acct) (f g : Nat → Option R) (h : ∀ x ∈ a.holdings, f x.ins = g x.ins) : a.onBar f = a.onBar g := by
  unfold Acct.onBar
  congr 1
  apply List.map_congr_left
  intro x hx
  rw [h x hx]

theorem onBar_clean (j : Nat) (a : Acct) (f : Nat → Option R) (h : AClean j a) : AClean j (a.onBar f) := by
  intro x hx
  simp only [Acct.onBar, List.mem_map] at hx
  obtain ⟨y, hy, rfl⟩ := hx
  have := h y hy
  split <;> exact this

theorem onBeforeTrading_congr (a : Acct) (i i' : BTInput) (ht : i.today = i'.today) (hr : i.reinvest = i'.reinvest)
    (hf : i.fee = i'.fee) (hc : ∀ x ∈ a.holdings, i.corp x.ins = i'.corp x.ins) : a.onBeforeTrading i = a.onBeforeTrading i' := by
  unfold Acct.onBeforeTrading
  simp only [ht, hr, hf]
  rw [foldl_congr_mem (l := List.filter _ a.holdings)]
  intro b x hx
  rw [hc x (List.mem_filter.mp hx).1]

theorem foldl_snd_clean {β : Type _} (j : Nat) (step : β × List Holding → Holding → β × List Holding)
    (hstep : ∀ acc h, ∃ h', h'.ins = h.ins ∧ (step acc h).2 = acc.2 ++ [h'])
    (l : List Holding) (acc : β × List Holding) (hl : ∀ h ∈ l, h.ins ≠ j) (hacc : ∀ h ∈ acc.2, h.ins ≠ j) :
    ∀ h ∈ (l.foldl step acc).2, h.ins ≠ j := by
  induction l generalizing acc with
  | nil => exact hacc
  | cons x xs ih =>
    simp only [List.foldl_cons]
    apply ih
    · exact fun h hh => hl h (List.mem_cons_of_mem _ hh)
    · obtain ⟨h', e1, e2⟩ := hstep acc x
      rw [e2]
      intro h hh
      rcases List.mem_append.mp hh with hh | hh
      · exact hacc h hh
      · simp only [List.mem_singleton] at hh
        rw [hh, e1]; exact hl x (by simp)

theorem onBeforeTrading_clean (j : Nat) (a : Acct) (i : BTInput) (h : AClean j a) : AClean j (a.onBeforeTrading i) := by
  unfold Acct.onBeforeTrading AClean
  simp only
  apply foldl_snd_clean
  · intro acc x
    split
    · refine ⟨_, ?_, rfl⟩; rfl
    · refine ⟨_, ?_, rfl⟩; rfl
  · intro x hx; exact h x (List.mem_filter.mp hx).1
  · simp

theorem onSettlement_congr (a : Acct) (i i' : STInput) (hf : i.forced = i'.forced)
    (hc : ∀ x ∈ a.holdings, i.delist x.ins = i'.delist x.ins ∧ i.settle x.ins = i'.settle x.ins ∧ i.expires x.ins = i'.expires x.ins) :
    a.onSettlement i = a.onSettlement i' := by
  unfold Acct.onSettlement
  simp only [hf]
  rw [foldl_congr_mem (l := a.holdings)]
  intro b x hx
  obtain ⟨h1, h2, h3⟩ := hc x hx
  rw [h1, h2, h3]

theorem onSettlement_clean (j : Nat) (a : Acct) (i : STInput) (h : AClean j a) : AClean j (a.onSettlement i) := by
  unfold Acct.onSettlement
  extract_lets step r a1 fee a2
  have hr : ∀ x ∈ r.2, x.ins ≠ j := by
    apply foldl_snd_clean
    · intro acc x
      simp only [step]
      split
      · refine ⟨_, ?_, rfl⟩; rfl
      · refine ⟨_, ?_, rfl⟩; rfl
    · exact h
    · simp
  split
  · intro x hx; simp at hx
  · exact hr

theorem getOrCreate_clean (j : Nat) (a : Acct) (ins : Nat) (cfg : InsCfg) (cl : R) (hi : ins ≠ j) (h : AClean j a) :
    AClean j (a.getOrCreate ins cfg cl) := by
  unfold Acct.getOrCreate
  split
  · exact h
  · intro x hx
    simp only [List.mem_append, List.mem_singleton] at hx
    rcases hx with hx | rfl
    · exact h x hx
    · exact hi

theorem setPos_clean (j : Nat) (a : Acct) (ins : Nat) (isLong : Bool) (p : Pos) (h : AClean j a) :
    AClean j (a.setPos ins isLong p) := by
  intro x hx
  simp only [Acct.setPos, List.mem_map] at hx
  obtain ⟨y, hy, rfl⟩ := hx
  have := h y hy
  split_ifs <;> exact this

theorem applyTrade_clean (j : Nat) (a : Acct) (ins : Nat) (cfg : InsCfg) (cl : R) (isLong : Bool) (t : TradeIn)
    (o : Option (Int × R)) (hi : ins ≠ j) (h : AClean j a) : AClean j (a.applyTrade ins cfg cl isLong t o) := by
  unfold Acct.applyTrade
  extract_lets a1 a2
  have h1 : AClean j a1 := by
    simp only [a1]
    split
    · split_ifs <;> exact h
    · exact h
  have h2 : AClean j a2 := getOrCreate_clean j a1 ins cfg cl hi h1
  split
  · exact setPos_clean j a2 ins isLong _ h2
  · exact h2

/-- the operation does not create a holding of `j` -/
def OpClean (j : Nat) : AcctOp → Prop
  | .trade ins _ _ _ _ _ => ins ≠ j
  | .touch ins _ _ => ins ≠ j
  | _ => True

theorem stepOp_clean (j : Nat) (a : Acct) (op : AcctOp) (ho : OpClean j op) (h : AClean j a) : AClean j (a.stepOp op) := by
  cases op with
  | pendingNew init => exact h
  | unsolicited q f init =>
    simp only [Acct.stepOp, Acct.onUnsolicited]
    split_ifs <;> exact h
  | trade ins cfg cl isLong t o => exact applyTrade_clean j a ins cfg cl isLong t o ho h
  | touch ins cfg cl => exact getOrCreate_clean j a ins cfg cl ho h
  | bar price => exact onBar_clean j a price h
  | beforeTrading i => exact onBeforeTrading_clean j a i h
  | settlement i => exact onSettlement_clean j a i h
  | deposit amt recv =>
    simp only [Acct.stepOp, Acct.depositWithdraw]
    split
    · rename_i a' ha'
      split_ifs at ha'
      split at ha'
      · cases ha'; exact h
      · cases ha'; exact h
    · exact h
  | finance amt =>
    simp only [Acct.stepOp, Acct.financeRepay]
    split_ifs <;> exact h

/-! ### worlds that differ only in the rows of `j` (and in the ghost log) -/

theorem same_iff {j : Nat} {w w' : World} :
    Same j w w' ↔ ∃ m l, w' = { w with mkt := m, log := l } ∧ dropIns j w.mkt = dropIns j m := by
  constructor
  · rintro ⟨h1, h2⟩
    refine ⟨w'.mkt, w'.log, ?_, h2⟩
    obtain ⟨a1, a2, a3, a4, a5, a6, a7, a8, a9, a10, a11, a12, a13, a14⟩ := w
    obtain ⟨b1, b2, b3, b4, b5, b6, b7, b8, b9, b10, b11, b12, b13, b14⟩ := w'
    simp only [obs, Obs.mk.injEq] at h1
    obtain ⟨rfl, rfl, rfl, rfl, rfl, rfl, rfl, rfl, rfl, rfl, rfl, rfl⟩ := h1
    rfl
  · rintro ⟨m, l, rfl, h⟩
    exact ⟨rfl, h⟩

theorem same_refl (j : Nat) (w : World) : Same j w w := ⟨rfl, rfl⟩

theorem same_of_eq {j : Nat} {w w' v v' : World} (h : Same j w w') (h1 : obs v = obs w) (h2 : obs v' = obs w')
    (h3 : v.mkt = w.mkt) (h4 : v'.mkt = w'.mkt) : Same j v v' :=
  ⟨by rw [h1, h2, h.1], by rw [h3, h4, h.2]⟩

section fields
variable {j : Nat} {w w' : World} (h : Same j w w')
include h
theorem Same.cfg : w'.cfg = w.cfg := by obtain ⟨m, l, rfl, -⟩ := same_iff.mp h; rfl
theorem Same.pf : w'.pf = w.pf := by obtain ⟨m, l, rfl, -⟩ := same_iff.mp h; rfl
theorem Same.openOrders : w'.openOrders = w.openOrders := by obtain ⟨m, l, rfl, -⟩ := same_iff.mp h; rfl
theorem Same.auctionOrders : w'.auctionOrders = w.auctionOrders := by obtain ⟨m, l, rfl, -⟩ := same_iff.mp h; rfl
theorem Same.finals : w'.finals = w.finals := by obtain ⟨m, l, rfl, -⟩ := same_iff.mp h; rfl
theorem Same.phase : w'.phase = w.phase := by obtain ⟨m, l, rfl, -⟩ := same_iff.mp h; rfl
theorem Same.today : w'.today = w.today := by obtain ⟨m, l, rfl, -⟩ := same_iff.mp h; rfl
theorem Same.acctIdx (wi : WIns) : w'.acctIdx wi = w.acctIdx wi := by obtain ⟨m, l, rfl, -⟩ := same_iff.mp h; rfl
theorem Same.acct (k : Nat) : w'.acct k = w.acct k := by obtain ⟨m, l, rfl, -⟩ := same_iff.mp h; rfl
theorem Same.mcfg (wi : WIns) : w'.mcfg wi = w.mcfg wi := by obtain ⟨m, l, rfl, -⟩ := same_iff.mp h; rfl
theorem Same.turnoverOf (i : Nat) : w'.turnoverOf i = w.turnoverOf i := by obtain ⟨m, l, rfl, -⟩ := same_iff.mp h; rfl
theorem Same.posOf (wi : WIns) (b : Bool) : w'.posOf wi b = w.posOf wi b := by obtain ⟨m, l, rfl, -⟩ := same_iff.mp h; rfl
theorem Same.openOn (i : Nat) : w'.openOn i = w.openOn i := by obtain ⟨m, l, rfl, -⟩ := same_iff.mp h; rfl
theorem Same.orderCost (wi : WIns) (b : Bool) (e : Effect) (p : R) (q : Int) : w'.orderCost wi b e p q = w.orderCost wi b e p q := by
  obtain ⟨m, l, rfl, -⟩ := same_iff.mp h; rfl
theorem Same.dayOf {i : Nat} (hi : i ≠ j) : w'.dayOf i = w.dayOf i := by
  unfold World.dayOf
  rw [← find_dropIns j i hi w'.mkt, ← h.2, find_dropIns j i hi]
theorem Same.lastPrice {i : Nat} (hi : i ≠ j) : w'.lastPrice i = w.lastPrice i := by
  unfold World.lastPrice
  rw [Same.dayOf h hi, Same.phase h]
end fields

theorem foreign_of_eq {j : Nat} {w v : World} (h : Foreign j w) (h1 : v.pf.accounts = w.pf.accounts)
    (h2 : v.openOrders = w.openOrders) (h3 : v.auctionOrders = w.auctionOrders) : Foreign j v := by
  unfold Foreign; rw [h1, h2, h3]; exact h

/-- the relation the steps preserve -/
structure Rel (j : Nat) (w w' : World) : Prop where
  same : Same j w w'
  foreign : Foreign j w

theorem Rel.of_eq {j : Nat} {w w' v v' : World} (h : Rel j w w') (h1 : obs v = obs w) (h2 : obs v' = obs w')
    (h3 : v.mkt = w.mkt) (h4 : v'.mkt = w'.mkt) : Rel j v v' :=
  ⟨same_of_eq h.same h1 h2 h3 h4, foreign_of_eq h.foreign (congrArg (fun o => o.pf.accounts) h1)
    (congrArg Obs.openOrders h1) (congrArg Obs.auctionOrders h1)⟩

theorem apply_rel {j : Nat} {w w' : World} (hr : Rel j w w') (k : Nat) (op op' : AcctOp) (ho : OpClean j op)
    (he : ∀ a, w.pf.accounts[k]? = some a → AClean j a → a.stepOp op = a.stepOp op') :
    Rel j (w.apply k op) (w'.apply k op') := by
  obtain ⟨hs, hf⟩ := hr
  obtain ⟨m, l, rfl, hd⟩ := same_iff.mp hs
  unfold World.apply
  simp only
  cases ha : w.pf.accounts[k]? with
  | none => exact ⟨hs, hf⟩
  | some a =>
    simp only
    have hc : AClean j a := hf.1 k a ha
    rw [← he a ha hc]
    refine ⟨⟨rfl, hd⟩, ?_, hf.2⟩
    intro k' a' hk'
    simp only [List.getElem?_set] at hk'
    split_ifs at hk'
    · cases hk'; exact stepOp_clean j a op ho hc
    · exact hf.1 k' a' hk'

theorem apply_rel' {j : Nat} {w w' : World} (hr : Rel j w w') (k : Nat) (op : AcctOp) (ho : OpClean j op) :
    Rel j (w.apply k op) (w'.apply k op) := apply_rel hr k op op ho (fun _ _ _ => rfl)

theorem addTurnover_rel {j : Nat} {w w' : World} (hr : Rel j w w') (i : Nat) (q : Int) :
    Rel j (w.addTurnover i q) (w'.addTurnover i q) := by
  obtain ⟨hs, hf⟩ := hr
  obtain ⟨m, l, rfl, hd⟩ := same_iff.mp hs
  unfold World.addTurnover
  simp only
  split_ifs <;> exact ⟨⟨rfl, hd⟩, hf⟩

theorem setCommRem_rel {j : Nat} {w w' : World} (hr : Rel j w w') (key : Option Nat × Nat) (v : R) :
    Rel j (w.setCommRem key v) (w'.setCommRem key v) := by
  obtain ⟨hs, hf⟩ := hr
  obtain ⟨m, l, rfl, hd⟩ := same_iff.mp hs
  unfold World.setCommRem
  simp only
  split_ifs <;> exact ⟨⟨rfl, hd⟩, hf⟩

theorem tradeFee_rel {j : Nat} {w w' : World} (hr : Rel j w w') (wi : WIns) (oid : Option Nat) (isBuy : Bool) (e : Effect)
    (q : Int) (p : R) (ct : Int) :
    (w'.tradeFee wi oid isBuy e q p ct).1 = (w.tradeFee wi oid isBuy e q p ct).1 ∧
    Rel j (w.tradeFee wi oid isBuy e q p ct).2 (w'.tradeFee wi oid isBuy e q p ct).2 := by
  have h1 : w'.stockCost = w.stockCost := by obtain ⟨m, l, rfl, -⟩ := same_iff.mp hr.same; rfl
  have h2 : ∀ key, w'.commRem key = w.commRem key := by intro key; obtain ⟨m, l, rfl, -⟩ := same_iff.mp hr.same; rfl
  unfold World.tradeFee
  split_ifs
  · exact ⟨rfl, hr⟩
  · simp only [h1, h2]
    exact ⟨trivial, setCommRem_rel hr _ _⟩

theorem announce_rel {j : Nat} {w w' : World} (hr : Rel j w w') (o : Ord) : Rel j (w.announce o) (w'.announce o) := by
  have h1 : ∀ wi, w'.acctIdx wi = w.acctIdx wi := hr.same.acctIdx
  unfold World.announce
  rw [hr.same.cfg, show World.acctIdx w' = World.acctIdx w from funext h1]
  split
  · exact apply_rel' hr _ _ trivial
  · exact hr

/-! ### matching -/

@[simp] theorem markCancelled_ins (o : Ord) : o.markCancelled.ins = o.ins := by unfold Ord.markCancelled; split_ifs <;> rfl
@[simp] theorem markRejected_ins (o : Ord) : o.markRejected.ins = o.ins := by unfold Ord.markRejected; split_ifs <;> rfl
@[simp] theorem fill_ins (o : Ord) (p : R) (q : Int) (fee : R) : (o.fill p q fee).ins = o.ins := by
  unfold Ord.fill; simp only; split_ifs <;> rfl
@[simp] theorem orderAfter_ins (o : Ord) (fee : Int → R → R) (out : MOutcome) : (orderAfter o fee out).ins = o.ins := by
  cases out <;> simp [orderAfter]
  split_ifs <;> simp

theorem matchOne_rel {j : Nat} {w w' : World} (hr : Rel j w w') (a : Bool) (o : Ord) (ho : o.ins ≠ j) :
    Rel j (w.matchOne a o).1 (w'.matchOne a o).1 ∧ (w'.matchOne a o).2 = (w.matchOne a o).2 ∧
      (w.matchOne a o).2.1.ins = o.ins := by
  unfold World.matchOne
  by_cases hfin : o.isFinal = true
  · simp only [hfin, if_true]; exact ⟨hr, trivial, trivial⟩
  · simp only [hfin, Bool.false_eq_true, if_false]
    rw [hr.same.cfg, hr.same.dayOf ho, hr.same.phase]
    by_cases hdl : (w.cfg.daily && !a && (w.phase == .before || w.phase == .auction)) = true
    · simp only [hdl, if_true]; exact ⟨hr, trivial, trivial⟩
    simp only [hdl, Bool.false_eq_true, if_false]
    cases hc : w.cfg.find o.ins with
    | none => exact ⟨hr, rfl, rfl⟩
    | some wi =>
      cases hd : w.dayOf o.ins with
      | none => exact ⟨hr, rfl, rfl⟩
      | some d =>
        simp only
        rw [hr.same.acctIdx]
        cases hk : w.acctIdx wi with
        | none => exact ⟨hr, rfl, rfl⟩
        | some k =>
          simp only
          rw [hr.same.mcfg, hr.same.turnoverOf]
          cases hp : matchPre (w.mcfg wi) wi.cfg o (if a = true then d.auc else d.bar) a (w.turnoverOf o.ins) with
          | inl out => exact ⟨hr, rfl, by simp⟩
          | inr fp =>
            obtain ⟨f, price⟩ := fp
            simp only
            rw [hr.same.lastPrice ho]
            have h1 := apply_rel' hr k (.touch o.ins wi.cfg (match w.lastPrice o.ins with | some p => p | none => 0)) ho
            generalize w.apply k (.touch o.ins wi.cfg (match w.lastPrice o.ins with | some p => p | none => 0)) = w1 at h1 ⊢
            generalize w'.apply k (.touch o.ins wi.cfg (match w.lastPrice o.ins with | some p => p | none => 0)) = w1' at h1 ⊢
            rw [h1.same.posOf]
            have h2 := tradeFee_rel h1 wi (some o.id) o.isBuy o.effect f price
              (Pos.closeTodayAmount wi.cfg (w1.posOf wi (ordIsLong o.isBuy o.effect)) f o.effect)
            generalize w1.tradeFee _ _ _ _ _ _ _ = r at h2 ⊢
            generalize w1'.tradeFee _ _ _ _ _ _ _ = r' at h2 ⊢
            obtain ⟨fee, w2⟩ := r
            obtain ⟨fee', w2'⟩ := r'
            simp only at h2 ⊢
            obtain ⟨rfl, h2⟩ := h2
            rw [h2.same.mcfg, h2.same.acct]
            generalize matchPost _ _ _ _ _ _ _ _ = out
            cases out with
            | fill q p c cancelRem =>
              simp only
              refine ⟨apply_rel' (addTurnover_rel h2 _ _) _ _ ho, trivial, ?_⟩
              split_ifs <;> simp
            | rest => exact ⟨h2, rfl, by simp⟩
            | raises => exact ⟨h2, rfl, by simp⟩
            | rejected => exact ⟨h2, rfl, by simp⟩
            | cancelled => exact ⟨h2, rfl, by simp⟩

theorem matchList_rel {j : Nat} {w w' : World} (hr : Rel j w w') (a : Bool) (l : List Ord) (hl : ∀ o ∈ l, o.ins ≠ j) :
    Rel j (w.matchList a l).1 (w'.matchList a l).1 ∧ (w'.matchList a l).2 = (w.matchList a l).2 ∧
      ∀ o ∈ (w.matchList a l).2.1, o.ins ≠ j := by
  induction l generalizing w w' with
  | nil => exact ⟨hr, rfl, by simp [World.matchList]⟩
  | cons o rest ih =>
    simp only [World.matchList]
    obtain ⟨h1, h2, h3⟩ := matchOne_rel hr a o (hl o (by simp))
    rcases hm : w.matchOne a o with ⟨w1, o1, e1⟩
    rcases hm' : w'.matchOne a o with ⟨w1', o1', e1'⟩
    rw [hm, hm'] at h1 h2
    rw [hm] at h3
    simp only at h1 h2 h3 ⊢
    obtain ⟨rfl, rfl⟩ := Prod.mk.inj h2
    obtain ⟨g1, g2, g3⟩ := ih h1 (fun x hx => hl x (List.mem_cons_of_mem _ hx))
    rcases hn : w1.matchList a rest with ⟨w2, os, e2⟩
    rcases hn' : w1'.matchList a rest with ⟨w2', os', e2'⟩
    rw [hn, hn'] at g1 g2
    rw [hn] at g3
    simp only at g1 g2 g3 ⊢
    obtain ⟨rfl, rfl⟩ := Prod.mk.inj g2
    refine ⟨g1, rfl, ?_⟩
    intro x hx
    rcases List.mem_cons.mp hx with rfl | hx
    · rw [h3]; exact hl o (by simp)
    · exact g3 x hx

theorem foldl_announce_rel {j : Nat} {w w' : World} (hr : Rel j w w') (l : List Ord) :
    Rel j (l.foldl World.announce w) (l.foldl World.announce w') := by
  induction l generalizing w w' with
  | nil => exact hr
  | cons o rest ih => exact ih (announce_rel hr o)

theorem rel_books {j : Nat} {w w' : World} (hr : Rel j w w') (oo ao fs : List Ord) (h : ∀ o ∈ oo ++ ao, o.ins ≠ j) :
    Rel j { w with openOrders := oo, auctionOrders := ao, finals := fs }
      { w' with openOrders := oo, auctionOrders := ao, finals := fs } := by
  obtain ⟨hs, hf⟩ := hr
  obtain ⟨m, l, rfl, hd⟩ := same_iff.mp hs
  exact ⟨⟨rfl, hd⟩, hf.1, h⟩

theorem matchRound_rel {j : Nat} {w w' : World} (hr : Rel j w w') :
    Rel j w.matchRound.1 w'.matchRound.1 ∧ w'.matchRound.2 = w.matchRound.2 := by
  unfold World.matchRound
  rw [hr.same.openOrders]
  obtain ⟨g1, g2, g3⟩ := matchList_rel hr false w.openOrders
    (fun o ho => hr.foreign.2 o (List.mem_append.mpr (Or.inl ho)))
  rcases hn : w.matchList false w.openOrders with ⟨w1, r1, e1⟩
  rcases hn' : w'.matchList false w.openOrders with ⟨w1', r1', e1'⟩
  rw [hn, hn'] at g1 g2
  rw [hn] at g3
  simp only at g1 g2 g3 ⊢
  obtain ⟨rfl, rfl⟩ := Prod.mk.inj g2
  rw [g1.same.auctionOrders]
  obtain ⟨k1, k2, k3⟩ := matchList_rel g1 true w1.auctionOrders
    (fun o ho => g1.foreign.2 o (List.mem_append.mpr (Or.inr ho)))
  rcases hq : w1.matchList true w1.auctionOrders with ⟨w2, r2, e2⟩
  rcases hq' : w1'.matchList true w1.auctionOrders with ⟨w2', r2', e2'⟩
  rw [hq, hq'] at k1 k2
  rw [hq] at k3
  simp only at k1 k2 k3 ⊢
  obtain ⟨rfl, rfl⟩ := Prod.mk.inj k2
  refine ⟨?_, rfl⟩
  have h3 := foldl_announce_rel k1
    (List.filter (fun o => o.status == .rejected || o.status == .cancelled) (List.filter (·.isFinal) (r1' ++ r2')))
  rw [h3.same.finals]
  apply rel_books h3
  intro o ho
  simp only [List.append_nil, List.mem_filter, List.mem_append] at ho
  rcases ho.1 with h | h
  · exact g3 o h
  · exact k3 o h

/-! ### the steps -/

theorem beforeTrading_rel {j : Nat} {w w' : World} (hr : Rel j w w') :
    Rel j w.beforeTrading.1 w'.beforeTrading.1 ∧ w'.beforeTrading.2 = w.beforeTrading.2 := by
  obtain ⟨hs, hf⟩ := hr
  obtain ⟨m, l, rfl, hd⟩ := same_iff.mp hs
  refine ⟨⟨⟨rfl, hd⟩, hf.1, ?_⟩, rfl⟩
  intro o ho
  simp only [World.beforeTrading, List.mem_append, List.mem_map] at ho
  rcases ho with ⟨x, hx, rfl⟩ | ho
  · exact hf.2 x (List.mem_append.mpr (Or.inl hx))
  · exact hf.2 o (List.mem_append.mpr (Or.inr ho))

theorem openAuction_rel {j : Nat} {w w' : World} (hr : Rel j w w') :
    Rel j { w with phase := .auction } { w' with phase := .auction } := by
  obtain ⟨hs, hf⟩ := hr
  obtain ⟨m, l, rfl, hd⟩ := same_iff.mp hs
  exact ⟨⟨rfl, hd⟩, hf⟩

theorem afterTrading_rel {j : Nat} {w w' : World} (hr : Rel j w w') :
    Rel j w.afterTrading.1 w'.afterTrading.1 ∧ w'.afterTrading.2 = w.afterTrading.2 := by
  have e : List.map Ord.markRejected w'.openOrders = List.map Ord.markRejected w.openOrders := by rw [hr.same.openOrders]
  unfold World.afterTrading
  simp only
  rw [e]
  refine ⟨?_, rfl⟩
  have h0 : Rel j { w with phase := .after } { w' with phase := .after } := by
    obtain ⟨hs, hf⟩ := hr
    obtain ⟨m, l, rfl, hd⟩ := same_iff.mp hs
    exact ⟨⟨rfl, hd⟩, hf⟩
  have h1 := foldl_announce_rel h0 (w.openOrders.map Ord.markRejected)
  rw [h1.same.finals, h1.same.auctionOrders]
  apply rel_books h1
  intro o ho
  simp only [List.nil_append] at ho
  exact h1.foreign.2 o (List.mem_append.mpr (Or.inr ho))

theorem cancel_rel {j : Nat} {w w' : World} (hr : Rel j w w') (id : Nat) :
    Rel j (w.cancel id).1 (w'.cancel id).1 ∧ (w'.cancel id).2 = (w.cancel id).2 := by
  unfold World.cancel
  rw [hr.same.openOrders, hr.same.auctionOrders]
  cases hfind : (w.openOrders ++ w.auctionOrders).find? (·.id == id) with
  | none => exact ⟨hr, rfl⟩
  | some o =>
    simp only
    have h1 := announce_rel hr o.markCancelled
    refine ⟨?_, trivial⟩
    rw [h1.same.openOrders, h1.same.auctionOrders, h1.same.finals]
    apply rel_books h1
    intro x hx
    simp only [List.mem_append, List.mem_filter] at hx
    rcases hx with hx | hx
    · exact h1.foreign.2 x (List.mem_append.mpr (Or.inl hx.1))
    · exact h1.foreign.2 x (List.mem_append.mpr (Or.inr hx.1))

theorem rel_units {j : Nat} {w w' : World} (hr : Rel j w w') (u : R) :
    Rel j { w with pf := { w.pf with units := u } } { w' with pf := { w'.pf with units := u } } := by
  obtain ⟨hs, hf⟩ := hr
  obtain ⟨m, l, rfl, hd⟩ := same_iff.mp hs
  exact ⟨⟨rfl, hd⟩, hf⟩

theorem deposit_rel {j : Nat} {w w' : World} (hr : Rel j w w') (k : Nat) (amount : R) (recv : Option Nat) :
    Rel j (w.deposit k amount recv).1 (w'.deposit k amount recv).1 ∧ (w'.deposit k amount recv).2 = (w.deposit k amount recv).2 := by
  unfold World.deposit
  rw [hr.same.pf]
  cases hn : w.pf.nav with
  | none => exact ⟨hr, rfl⟩
  | some n =>
    cases ha : w.pf.accounts[k]? with
    | none => exact ⟨hr, rfl⟩
    | some a =>
      simp only
      by_cases hz : (n == 0) = true
      · simp only [hz, if_true]; exact ⟨hr, trivial⟩
      · simp only [hz, Bool.false_eq_true, if_false]
        cases hd : a.depositWithdraw amount recv with
        | none => exact ⟨hr, rfl⟩
        | some a' =>
          simp only
          have h1 := apply_rel' hr k (.deposit amount recv) trivial
          refine ⟨?_, trivial⟩
          have := rel_units h1 ((w.apply k (.deposit amount recv)).pf.totalValue / n)
          rw [h1.same.pf] at this ⊢
          exact this

theorem foldl_rel {α : Type _} {j : Nat} (f f' : World → α → World)
    (hf : ∀ w w' x, Rel j w w' → Rel j (f w x) (f' w' x)) (l : List α) {w w' : World} (hr : Rel j w w') :
    Rel j (l.foldl f w) (l.foldl f' w') := by
  induction l generalizing w w' with
  | nil => exact hr
  | cons x xs ih => exact ih (hf _ _ _ hr)

theorem rel_phase {j : Nat} {w w' : World} (hr : Rel j w w') (p : WPhase) :
    Rel j { w with phase := p } { w' with phase := p } := by
  obtain ⟨hs, hf⟩ := hr
  obtain ⟨m, l, rfl, hd⟩ := same_iff.mp hs
  exact ⟨⟨rfl, hd⟩, hf⟩

theorem rel_turnover {j : Nat} {w w' : World} (hr : Rel j w w') (t : List (Nat × Int)) :
    Rel j { w with turnover := t } { w' with turnover := t } := by
  obtain ⟨hs, hf⟩ := hr
  obtain ⟨m, l, rfl, hd⟩ := same_iff.mp hs
  exact ⟨⟨rfl, hd⟩, hf⟩

theorem barStep_rel {j : Nat} {w w' : World} (hr : Rel j w w') (k : Nat) :
    Rel j (w.apply k (.bar w.barPrices)) (w'.apply k (.bar w'.barPrices)) :=
  apply_rel hr k _ _ trivial (fun a _ hc => onBar_congr a _ _ (fun x hx => by
    unfold World.barPrices; rw [hr.same.dayOf (hc x hx)]))

theorem onBar_rel {j : Nat} {w w' : World} (hr : Rel j w w') :
    Rel j w.onBar.1 w'.onBar.1 ∧ w'.onBar.2 = w.onBar.2 := by
  have e : w'.pf.accounts.length = w.pf.accounts.length := by rw [hr.same.pf]
  unfold World.onBar
  simp only
  rw [e]
  have h1 := foldl_rel (fun (w : World) (k : Nat) => w.apply k (.bar w.barPrices)) _ (fun _ _ k h => barStep_rel h k)
    (List.range w.pf.accounts.length) (rel_phase hr .bar)
  exact matchRound_rel (rel_turnover h1 [])

theorem settleStep_rel {j : Nat} {w w' : World} (hr : Rel j w w') (k : Nat) :
    Rel j (w.apply k (.settlement w.stInput)) (w'.apply k (.settlement w'.stInput)) :=
  apply_rel hr k _ _ trivial (fun a _ hc => onSettlement_congr a _ _ (by simp only [World.stInput]; rw [hr.same.cfg])
    (fun x hx => by
      simp only [World.stInput]; rw [hr.same.dayOf (hc x hx)]; exact ⟨rfl, rfl, rfl⟩))

theorem settlement_rel {j : Nat} {w w' : World} (hr : Rel j w w') : Rel j w.settlement w'.settlement := by
  have e : w'.pf.accounts.length = w.pf.accounts.length := by rw [hr.same.pf]
  unfold World.settlement
  rw [e]
  exact foldl_rel (fun (w : World) (k : Nat) => w.apply k (.settlement w.stInput)) _ (fun _ _ k h => settleStep_rel h k) _ hr

theorem dropIns_map (j : Nat) (F : DayIns → DayIns) (hF : ∀ d, (F d).ins = d.ins) (l : List DayIns) :
    dropIns j (l.map F) = (dropIns j l).map F := by
  induction l with
  | nil => rfl
  | cons d ds ih =>
    unfold dropIns at ih ⊢
    simp only [List.map_cons, List.filter_cons, hF]
    split_ifs
    · rw [List.map_cons, ih]
    · exact ih

theorem find_filter_rows {β : Type _} (j i : Nat) (hij : i ≠ j) (rows : List (Nat × β)) :
    (rows.filter (fun r => r.1 != j)).find? (·.1 == i) = rows.find? (·.1 == i) := by
  induction rows with
  | nil => rfl
  | cons d ds ih =>
    by_cases hd : d.1 = j
    · have h1 : (d.1 != j) = false := by simp [hd]
      have h2 : (d.1 == i) = false := by
        simp only [beq_eq_false_iff_ne, ne_eq]; intro h; exact hij (h ▸ hd)
      simp only [List.filter_cons, h1, List.find?_cons, h2]
      exact ih
    · have h1 : (d.1 != j) = true := by simp [hd]
      simp only [List.filter_cons, h1, if_true, List.find?_cons]
      rw [ih]

theorem barData_rel {j : Nat} {w w' : World} (hr : Rel j w w') (rows : List (Nat × Option R × MBar)) :
    Rel j (w.barData rows) (w'.barData (rows.filter (fun r => r.1 != j))) := by
  obtain ⟨hs, hf⟩ := hr
  obtain ⟨m, l, rfl, hd⟩ := same_iff.mp hs
  refine ⟨⟨rfl, ?_⟩, hf⟩
  simp only [World.barData]
  rw [dropIns_map, dropIns_map, hd]
  · apply List.map_congr_left
    intro d hdm
    have hne : d.ins ≠ j := by
      have := (List.mem_filter.mp hdm).2
      simpa using this
    rw [find_filter_rows j d.ins hne]
  · intro d; split <;> rfl
  · intro d; split <;> rfl

theorem Same.validate {j : Nat} {w w' : World} (h : Same j w w') (wi : WIns) (d : DayIns) (o : OrderReq) (fp : R) :
    w'.validate wi d o fp = w.validate wi d o fp := by
  obtain ⟨m, l, rfl, -⟩ := same_iff.mp h; rfl

theorem rel_addAuction {j : Nat} {w w' : World} (hr : Rel j w w') (ord : Ord) (ho : ord.ins ≠ j) :
    Rel j { w with auctionOrders := w.auctionOrders ++ [ord] } { w' with auctionOrders := w'.auctionOrders ++ [ord] } := by
  obtain ⟨hs, hf⟩ := hr
  obtain ⟨m, l, rfl, hd⟩ := same_iff.mp hs
  refine ⟨⟨rfl, hd⟩, hf.1, ?_⟩
  intro x hx
  simp only [List.mem_append, List.mem_singleton] at hx
  rcases hx with hx | hx | rfl
  · exact hf.2 x (List.mem_append.mpr (Or.inl hx))
  · exact hf.2 x (List.mem_append.mpr (Or.inr hx))
  · exact ho

theorem rel_addOpen {j : Nat} {w w' : World} (hr : Rel j w w') (ord : Ord) (ho : ord.ins ≠ j) :
    Rel j { w with openOrders := w.openOrders ++ [ord] } { w' with openOrders := w'.openOrders ++ [ord] } := by
  obtain ⟨hs, hf⟩ := hr
  obtain ⟨m, l, rfl, hd⟩ := same_iff.mp hs
  refine ⟨⟨rfl, hd⟩, hf.1, ?_⟩
  intro x hx
  simp only [List.mem_append, List.mem_singleton] at hx
  rcases hx with (hx | rfl) | hx
  · exact hf.2 x (List.mem_append.mpr (Or.inl hx))
  · exact ho
  · exact hf.2 x (List.mem_append.mpr (Or.inr hx))

theorem submit_tail {j : Nat} {v v' : World} (h2 : Rel j v v') (pre : List WEv) :
    Rel j (if v.cfg.matchImmediately = true then
            (v.matchRound.1, pre ++ v.matchRound.2) else (v, pre)).1
          (if v'.cfg.matchImmediately = true then
            (v'.matchRound.1, pre ++ v'.matchRound.2) else (v', pre)).1 ∧
      (if v'.cfg.matchImmediately = true then
            (v'.matchRound.1, pre ++ v'.matchRound.2) else (v', pre)).2 =
      (if v.cfg.matchImmediately = true then
            (v.matchRound.1, pre ++ v.matchRound.2) else (v, pre)).2 := by
  rw [h2.same.cfg]
  split_ifs
  · obtain ⟨h3, h4⟩ := matchRound_rel h2
    generalize v.matchRound = r at h3 h4 ⊢
    generalize v'.matchRound = r' at h3 h4 ⊢
    obtain ⟨w3, evs⟩ := r
    obtain ⟨w3', evs'⟩ := r'
    simp only at h3 h4 ⊢
    exact ⟨h3, by rw [h4]⟩
  · exact ⟨h2, rfl⟩

theorem submit_rel {j : Nat} {w w' : World} (hr : Rel j w w') (o : OrderReq) (ho : o.ins ≠ j) :
    Rel j (w.submit o).1 (w'.submit o).1 ∧ (w'.submit o).2 = (w.submit o).2 := by
  unfold World.submit
  rw [hr.same.cfg, hr.same.dayOf ho]
  cases hc : w.cfg.find o.ins with
  | none => exact ⟨hr, rfl⟩
  | some wi =>
    cases hd : w.dayOf o.ins with
    | none => exact ⟨hr, rfl⟩
    | some d =>
      simp only
      rw [hr.same.acctIdx]
      cases hk : w.acctIdx wi with
      | none => exact ⟨hr, rfl⟩
      | some k =>
        simp only
        rw [hr.same.lastPrice ho]
        generalize (if o.isLimit = true then o.price else _) = fp
        rw [hr.same.validate]
        cases hv : w.validate wi d o fp with
        | some v => exact ⟨hr, rfl⟩
        | none =>
          simp only
          rw [hr.same.orderCost]
          generalize frozenCashOfOrder _ _ _ _ _ = init
          have h1 := apply_rel' hr k (.pendingNew init) trivial
          generalize w.apply k (.pendingNew init) = w1 at h1 ⊢
          generalize w'.apply k (.pendingNew init) = w1' at h1 ⊢
          have hph' : (w1'.phase == WPhase.auction) = (w1.phase == WPhase.auction) := by rw [h1.same.phase]
          rw [hph']
          by_cases hph : (w1.phase == WPhase.auction) = true
          · simp only [hph, if_true]
            refine submit_tail (rel_addAuction h1 _ ?_) _
            exact ho
          · simp only [hph, Bool.false_eq_true, if_false]
            refine submit_tail (rel_addOpen h1 _ ?_) _
            exact ho

/-! ### the morning -/

/-- the body of the fold of `World.reinvestFees` -/
def rfStep (acc : List (Nat × R) × World) (h : Holding) : List (Nat × R) × World :=
  if h.cfg.isFuture then acc
  else match acc.2.cfg.find h.ins, acc.2.dayOf h.ins with
    | some wi, some d =>
      let probe := h.long.beforeTradingStock h.cfg d.corp acc.2.cfg.reinvest
                     (fun q p => (acc.2.tradeFee wi none true .open_ q p 0).1)
      match probe.2.2 with
      | some t => (acc.1 ++ [(h.ins, t.fee)], (acc.2.tradeFee wi none true .open_ t.qty t.price 0).2)
      | none => acc
    | _, _ => acc

theorem reinvestFees_eq (w : World) (a : Acct) : w.reinvestFees a = a.holdings.foldl rfStep ([], w) := rfl

theorem rfStep_rel {j : Nat} (acc acc' : List (Nat × R) × World) (h : Holding) (hi : h.ins ≠ j) (e : acc'.1 = acc.1)
    (hr : Rel j acc.2 acc'.2) : (rfStep acc' h).1 = (rfStep acc h).1 ∧ Rel j (rfStep acc h).2 (rfStep acc' h).2 := by
  obtain ⟨fs, v⟩ := acc
  obtain ⟨fs', v'⟩ := acc'
  simp only at e hr
  subst e
  unfold rfStep
  simp only
  split_ifs
  · exact ⟨rfl, hr⟩
  · rw [hr.same.cfg, hr.same.dayOf hi]
    cases hc : v.cfg.find h.ins with
    | none => exact ⟨rfl, hr⟩
    | some wi =>
      cases hd : v.dayOf h.ins with
      | none => exact ⟨rfl, hr⟩
      | some d =>
        simp only
        have hfee : (fun q p => (v'.tradeFee wi none true .open_ q p 0).1) = (fun q p => (v.tradeFee wi none true .open_ q p 0).1) :=
          funext fun q => funext fun p => (tradeFee_rel hr wi none true .open_ q p 0).1
        rw [hfee]
        cases hp : (Pos.beforeTradingStock h.cfg h.long d.corp v.cfg.reinvest
            (fun q p => (v.tradeFee wi none true .open_ q p 0).1)).2.2 with
        | none => exact ⟨rfl, hr⟩
        | some t => exact ⟨rfl, (tradeFee_rel hr wi none true .open_ t.qty t.price 0).2⟩

theorem reinvestFees_rel {j : Nat} {w w' : World} (hr : Rel j w w') (a : Acct) (ha : AClean j a) :
    (w'.reinvestFees a).1 = (w.reinvestFees a).1 ∧ Rel j (w.reinvestFees a).2 (w'.reinvestFees a).2 := by
  rw [reinvestFees_eq, reinvestFees_eq]
  suffices h : ∀ (l : List Holding), (∀ x ∈ l, x.ins ≠ j) → ∀ acc acc' : List (Nat × R) × World, acc'.1 = acc.1 → Rel j acc.2 acc'.2 →
      (l.foldl rfStep acc').1 = (l.foldl rfStep acc).1 ∧ Rel j (l.foldl rfStep acc).2 (l.foldl rfStep acc').2 from
    h a.holdings ha _ _ rfl hr
  intro l
  induction l with
  | nil => intro _ acc acc' e h; exact ⟨e, h⟩
  | cons x xs ih =>
    intro hl acc acc' e h
    simp only [List.foldl_cons]
    obtain ⟨e1, h1⟩ := rfStep_rel acc acc' x (hl x (by simp)) e h
    exact ih (fun y hy => hl y (List.mem_cons_of_mem _ hy)) _ _ e1 h1

theorem dropIns_idem (j : Nat) (m : List DayIns) : dropIns j (dropIns j m) = dropIns j m := by
  unfold dropIns; rw [List.filter_filter]; simp

theorem morningStep_rel {j : Nat} {w w' : World} (hr : Rel j w w') (k : Nat) :
    Rel j (match w.acct k with
            | some a => (match w.reinvestFees a with | (fees, w1) => w1.apply k (.beforeTrading (w1.btInput fees)))
            | none => w)
          (match w'.acct k with
            | some a => (match w'.reinvestFees a with | (fees, w1) => w1.apply k (.beforeTrading (w1.btInput fees)))
            | none => w') := by
  rw [hr.same.acct]
  cases ha : w.acct k with
  | none => exact hr
  | some a =>
    simp only
    have hc : AClean j a := hr.foreign.1 k a ha
    obtain ⟨e1, h1⟩ := reinvestFees_rel hr a hc
    generalize w.reinvestFees a = r at e1 h1 ⊢
    generalize w'.reinvestFees a = r' at e1 h1 ⊢
    obtain ⟨fees, w1⟩ := r
    obtain ⟨fees', w1'⟩ := r'
    simp only at e1 h1 ⊢
    subst e1
    refine apply_rel h1 k _ _ ?_ ?_
    · trivial
    intro b _ hb
    apply onBeforeTrading_congr
    · simp only [World.btInput]; rw [h1.same.today]
    · simp only [World.btInput]; rw [h1.same.cfg]
    · rfl
    · intro x hx
      simp only [World.btInput]
      rw [h1.same.dayOf (hb x hx), h1.same.today]

theorem preBeforeTrading_rel {j : Nat} {w w' : World} (hr : Rel j w w') (today : Nat) (tax : R) (mkt : List DayIns) :
    Rel j (w.preBeforeTrading today tax mkt) (w'.preBeforeTrading today tax (dropIns j mkt)) := by
  have e : w'.pf.preBeforeTrading.accounts.length = w.pf.preBeforeTrading.accounts.length := by rw [hr.same.pf]
  unfold World.preBeforeTrading
  simp only
  rw [e]
  apply foldl_rel _ _ (fun _ _ k h => morningStep_rel h k)
  obtain ⟨hs, hf⟩ := hr
  obtain ⟨m, l, rfl, hd⟩ := same_iff.mp hs
  refine ⟨⟨rfl, (dropIns_idem j mkt).symm⟩, ?_, hf.2⟩
  intro k a hk
  simp only [WorldB.pf_preBeforeTrading_accounts] at hk
  exact hf.1 k a hk

/-! ### the theorems -/

theorem step_rel {j : Nat} {w w' : World} (hr : Rel j w w') (i : WIn) (hm : ¬ Mentions j i) :
    Rel j (w.step i).1 (w'.step (strip j i)).1 ∧ (w'.step (strip j i)).2 = (w.step i).2 := by
  cases i with
  | preBeforeTrading today tax mkt => exact ⟨preBeforeTrading_rel hr today tax mkt, rfl⟩
  | barData rows => exact ⟨barData_rel hr rows, rfl⟩
  | beforeTrading => exact beforeTrading_rel hr
  | openAuction => exact ⟨rel_phase hr .auction, rfl⟩
  | bar => exact onBar_rel hr
  | afterTrading => exact afterTrading_rel hr
  | settlement => exact ⟨settlement_rel hr, rfl⟩
  | submit o => exact submit_rel hr o hm
  | cancel id => exact cancel_rel hr id
  | deposit k amount recv => exact deposit_rel hr k amount recv
  | finance k amount => exact ⟨apply_rel' hr k _ trivial, rfl⟩

/-- one input: same observable state afterwards, same events, and `j` stays foreign -/
theorem step_ignores_unrelated (j : Nat) (w w' : World) (i : WIn) (hs : Same j w w') (hf : Foreign j w) (hm : ¬ Mentions j i) :
    Same j (w.step i).1 (w'.step (strip j i)).1 ∧ (w.step i).2 = (w'.step (strip j i)).2 ∧ Foreign j (w.step i).1 := by
  obtain ⟨h1, h2⟩ := step_rel ⟨hs, hf⟩ i hm
  exact ⟨h1.same, h2.symm, h1.foreign⟩

/-- **whole runs**: for every input list that never orders instrument `j`, from a world that neither holds nor has resting orders on `j`,
removing all market data of `j` changes neither the observable state at the end nor anything published on the way -/
theorem run_ignores_unrelated (j : Nat) (w w' : World) (ins : List WIn) (hs : Same j w w') (hf : Foreign j w)
    (hm : ∀ i ∈ ins, ¬ Mentions j i) :
    Same j (w.run ins).1 (w'.run (ins.map (strip j))).1 ∧ (w.run ins).2 = (w'.run (ins.map (strip j))).2 := by
  induction ins generalizing w w' with
  | nil => exact ⟨hs, rfl⟩
  | cons i rest ih =>
    obtain ⟨h1, h2, h3⟩ := step_ignores_unrelated j w w' i hs hf (hm i (by simp))
    obtain ⟨k1, k2⟩ := ih _ _ h1 h3 (fun x hx => hm x (List.mem_cons_of_mem _ hx))
    simp only [List.map_cons, World.run]
    exact ⟨k1, by rw [h2, k2]⟩

end RQ.Lemmas.WorldH

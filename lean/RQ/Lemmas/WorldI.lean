/-
World-level lemmas, part I (capstone): the hypotheses of the whole-system invariants (C09 reserve, C10 positions) hold for every run
that has the executor's day structure (C08) — so the invariants hold for every daily back-test of the composed system, under
hypotheses that mention only the start state, the market tables and the orders the strategy submits.
-/
import RQ.Model.World
import RQ.Lemmas.WorldC
import RQ.Lemmas.WorldE
import RQ.Lemmas.WorldF
import Mathlib.Tactic.SplitIfs

namespace RQ.Lemmas.WorldI
open RQ.Q
open RQ.Lemmas.WorldC (InputOk bookIds submittedIds BooksWF IdsNodup ReserveInv)
open RQ.Lemmas.WorldE (RunOk StepOk ValidatorsOn HoldingsWF CloseInv)
open RQ.Lemmas.WorldF (Day RunQuiet QuietAt)
open RQ.Lemmas.WorldC (submittedId)

/-- split ratios in every market table the run receives are positive -/
def SplitsPositive (ins : List WIn) : Prop :=
  ∀ i ∈ ins, match i with
    | .preBeforeTrading _ _ mkt => ∀ d ∈ mkt, ∀ r, d.corp.split = some r → 0 < r
    | _ => True

/-! ### the ids resting in the books are among the ids resting before plus the submitted one (no well-formedness needed) -/

theorem markCancelled_id (o : Ord) : o.markCancelled.id = o.id := by
  unfold Ord.markCancelled; split <;> rfl

theorem markRejected_id (o : Ord) : o.markRejected.id = o.id := by
  unfold Ord.markRejected; split <;> rfl

theorem fill_id (o : Ord) (p : R) (q : Int) (fee : R) : (o.fill p q fee).id = o.id := by
  unfold Ord.fill; dsimp only; split <;> rfl

theorem orderAfter_id (o : Ord) (fee : Int → R → R) (out : MOutcome) : (orderAfter o fee out).id = o.id := by
  cases out with
  | rest => rfl
  | raises => rfl
  | rejected => exact markRejected_id o
  | cancelled => exact markCancelled_id o
  | fill q p c cr =>
    simp only [orderAfter]
    split
    · rw [markCancelled_id, fill_id]
    · rw [fill_id]

theorem matchOne_id (w : World) (auction : Bool) (o : Ord) : (w.matchOne auction o).2.1.id = o.id := by
  unfold World.matchOne
  repeat' (first | rfl | rw [orderAfter_id] | rw [markCancelled_id] | rw [fill_id] | split | dsimp only)

theorem matchList_ids (w : World) (auction : Bool) (l : List Ord) :
    (w.matchList auction l).2.1.map (·.id) = l.map (·.id) := by
  induction l generalizing w with
  | nil => rfl
  | cons o rest ih =>
    have h1 := matchOne_id w auction o
    rcases hm : w.matchOne auction o with ⟨w1, o1, e1⟩
    rw [hm] at h1
    have h2 := ih w1
    rcases hm2 : w1.matchList auction rest with ⟨w2, os, e2⟩
    rw [hm2] at h2
    simp only [World.matchList, hm, hm2]
    dsimp only at h1 h2
    simp [h1, h2]

theorem matchRound_ids (w : World) : ∀ id ∈ bookIds w.matchRound.1, id ∈ bookIds w := by
  unfold World.matchRound
  have h1 := matchList_ids w false w.openOrders
  have g1 := (RQ.Lemmas.WorldB.matchList_good w false w.openOrders).2
  rcases hm1 : w.matchList false w.openOrders with ⟨w1, r1, e1⟩
  rw [hm1] at h1 g1
  dsimp only at h1 ⊢
  have h2 := matchList_ids w1 true w1.auctionOrders
  rcases hm2 : w1.matchList true w1.auctionOrders with ⟨w2, r2, e2⟩
  rw [hm2] at h2
  dsimp only at h2 ⊢
  intro id hid
  unfold bookIds at hid ⊢
  dsimp only at hid
  rw [List.append_nil] at hid
  have hsub : ((r1 ++ r2).filter (fun o => !o.isFinal)).map (·.id) ⊆ (r1 ++ r2).map (·.id) :=
    (List.filter_sublist.map _).subset
  have := hsub hid
  rw [List.map_append, h1, h2, g1.2.1, ← List.map_append] at this
  exact this

theorem bookIds_of_frame {w w' : World} (h : RQ.Lemmas.WorldB.Frame w w') : bookIds w' = bookIds w := by
  unfold bookIds; rw [h.1, h.2.1]

theorem addOrd_ids (w1 : World) (ord : Ord) : ∀ id ∈ bookIds (RQ.Lemmas.WorldB.addOrd w1 ord), id ∈ bookIds w1 ∨ id = ord.id := by
  intro id hid
  unfold RQ.Lemmas.WorldB.addOrd at hid
  unfold bookIds at hid ⊢
  split_ifs at hid <;> simp at hid ⊢
  · rcases hid with h | h | h
    · exact Or.inl (Or.inl h)
    · exact Or.inl (Or.inr h)
    · exact Or.inr h
  · rcases hid with h | h | h
    · exact Or.inl (Or.inl h)
    · exact Or.inr h
    · exact Or.inl (Or.inr h)

theorem submit_ids (w : World) (o : OrderReq) : ∀ id ∈ bookIds (w.submit o).1, id ∈ bookIds w ∨ id = o.id := by
  unfold World.submit
  split
  · split
    · exact fun id hid => Or.inl hid
    · extract_lets fp init w1 ord w2
      split
      · exact fun id hid => Or.inl hid
      · have hw2 : w2 = RQ.Lemmas.WorldB.addOrd w1 ord := rfl
        have hb1 : bookIds w1 = bookIds w := bookIds_of_frame (RQ.Lemmas.WorldB.apply_good _ _ _).2
        have h2 : ∀ id ∈ bookIds w2, id ∈ bookIds w ∨ id = o.id := by
          intro id hid
          rw [hw2] at hid
          have := addOrd_ids w1 ord id hid
          rwa [hb1] at this
        split_ifs
        · intro id hid
          exact h2 id (matchRound_ids w2 id hid)
        · exact h2
  · exact fun id hid => Or.inl hid

theorem activate_id (o : Ord) : o.activate.id = o.id := rfl

/-- one input: the ids resting afterwards rested before or are the submitted one -/
theorem step_ids (w : World) (i : WIn) : ∀ id ∈ bookIds (w.step i).1, id ∈ bookIds w ++ submittedId i := by
  have frame : ∀ w' : World, RQ.Lemmas.WorldB.Frame w w' → ∀ id ∈ bookIds w', id ∈ bookIds w ++ [] := by
    intro w' h id hid
    rw [bookIds_of_frame h] at hid
    simpa using hid
  cases i with
  | preBeforeTrading today tax mkt => exact frame _ (RQ.Lemmas.WorldB.preBeforeTrading_good w today tax mkt).2
  | beforeTrading =>
    intro id hid
    have : bookIds (w.step .beforeTrading).1 = bookIds w := by
      show bookIds w.beforeTrading.1 = bookIds w
      unfold bookIds World.beforeTrading
      simp [List.map_map, Function.comp_def, activate_id]
    rw [this] at hid
    simpa [submittedId] using hid
  | openAuction => exact frame _ ⟨rfl, rfl, rfl, rfl⟩
  | barData rows => exact frame _ (RQ.Lemmas.WorldB.barData_good w rows).2
  | bar =>
    intro id hid
    obtain ⟨w', g, h⟩ := RQ.Lemmas.WorldB.onBar_char w
    have hid' : id ∈ bookIds w.onBar.1 := hid
    rw [h] at hid'
    have := matchRound_ids w' id hid'
    rw [bookIds_of_frame g.2] at this
    simpa [submittedId] using this
  | afterTrading =>
    intro id hid
    obtain ⟨w1, g, h⟩ := RQ.Lemmas.WorldB.afterTrading_char w
    have hid' : id ∈ bookIds w.afterTrading.1 := hid
    rw [h] at hid'
    unfold bookIds at hid' ⊢
    dsimp only at hid'
    rw [g.2.2.1] at hid'
    simp at hid' ⊢
    exact Or.inr (Or.inl hid')
  | settlement => exact frame _ (RQ.Lemmas.WorldB.settlement_good w).2
  | submit o =>
    intro id hid
    rcases submit_ids w o id hid with h | h
    · exact List.mem_append_left _ h
    · exact List.mem_append_right _ (by simp [submittedId, h])
  | cancel id' =>
    intro id hid
    have hid' : id ∈ bookIds (w.cancel id').1 := hid
    rcases RQ.Lemmas.WorldB.cancel_char w id' with h | ⟨o, w1, _, g, h⟩
    · rw [h] at hid'; simpa [submittedId] using hid'
    · rw [h] at hid'
      unfold bookIds at hid' ⊢
      dsimp only at hid'
      rw [g.2.1, g.2.2.1] at hid'
      simp only [submittedId, List.append_nil]
      rw [← List.filter_append] at hid'
      exact (List.filter_sublist.map _).subset hid'
  | deposit k amount recv => exact frame _ (RQ.Lemmas.WorldB.deposit_good w k amount recv).2
  | finance k amount => exact frame _ (RQ.Lemmas.WorldB.apply_good w k _).2

/-! ### `RunOk` of a prefix, and `RunOk` from quiet books and globally fresh ids -/

theorem runOk_append (w : World) (xs ys : List WIn) :
    RunOk w (xs ++ ys) ↔ RunOk w xs ∧ RunOk (w.run xs).1 ys := by
  induction xs generalizing w with
  | nil => simp [RunOk, World.run]
  | cons x xs ih =>
    simp only [List.cons_append, RunOk, RQ.Lemmas.WorldF.run_cons_fst, ih, and_assoc]

theorem splitsPositive_cons {i : WIn} {rest : List WIn} (h : SplitsPositive (i :: rest)) : SplitsPositive rest :=
  fun x hx => h x (List.mem_cons_of_mem _ hx)

/-- generalisation of `runOk_of_quiet`: the ids in the books are among a list `S` of ids none of which is submitted later -/
theorem runOk_aux (w : World) (ins : List WIn) (S : List Nat) (hS : ∀ id ∈ bookIds w, id ∈ S)
    (hq : RunQuiet w ins) (hi : ∀ i ∈ ins, InputOk i) (hids : (S ++ submittedIds ins).Nodup) (hs : SplitsPositive ins) :
    RunOk w ins := by
  induction ins generalizing w S with
  | nil => trivial
  | cons i rest ih =>
    rw [RQ.Lemmas.WorldC.submittedIds_cons, ← List.append_assoc] at hids
    refine ⟨?_, ih (w.step i).1 (S ++ submittedId i) ?_ hq.2 (fun x hx => hi x (List.mem_cons_of_mem _ hx)) hids
      (splitsPositive_cons hs)⟩
    · have hq1 := hq.1
      have hi1 := hi i List.mem_cons_self
      have hs1 := hs i List.mem_cons_self
      cases i with
      | preBeforeTrading today tax mkt => exact ⟨hq1.1, hq1.2, hs1, fun _ _ _ _ => trivial⟩
      | settlement => exact hq1
      | submit o =>
        refine ⟨hi1, fun hmem => ?_⟩
        have h1 : o.id ∈ S := hS _ hmem
        have hnd := (List.nodup_append.1 hids).1
        have := (List.nodup_append.1 hnd).2.2 o.id h1 o.id (by simp [submittedId])
        exact this rfl
      | beforeTrading => trivial
      | openAuction => trivial
      | barData rows => trivial
      | bar => trivial
      | afterTrading => trivial
      | cancel id => trivial
      | deposit k amount recv => trivial
      | finance k amount => trivial
    · intro id hid
      rcases List.mem_append.1 (step_ids w i id hid) with h | h
      · exact List.mem_append_left _ (hS id h)
      · exact List.mem_append_right _ h

/-- quiet books where needed + positive order quantities + pairwise different order ids + positive split ratios give `RunOk`, from a
world whose books are empty -/
theorem runOk_of_quiet (w : World) (ins : List WIn) (ho : w.openOrders = []) (ha : w.auctionOrders = [])
    (hq : RunQuiet w ins) (hi : ∀ i ∈ ins, InputOk i) (hids : (submittedIds ins).Nodup) (hs : SplitsPositive ins) :
    RunOk w ins := by
  refine runOk_aux w ins [] (fun id hid => ?_) hq hi (by simpa using hids) hs
  unfold bookIds at hid
  rw [ho, ha] at hid
  exact hid

theorem submittedIds_append (xs ys : List WIn) : submittedIds (xs ++ ys) = submittedIds xs ++ submittedIds ys := by
  simp [submittedIds]

/-- from a well-formed start and a run that is `RunOk`: the three invariants after every prefix -/
theorem invariants_of_runOk (w : World) (pre : List WIn)
    (ho : w.openOrders = []) (ha : w.auctionOrders = [])
    (hf : ∀ (k : Nat) (a : Acct), w.pf.accounts[k]? = some a → a.frozen = 0)
    (hv : ValidatorsOn w) (hwf : HoldingsWF w) (hinv : CloseInv w)
    (hi : ∀ i ∈ pre, InputOk i) (hids : (submittedIds pre).Nodup) (hok : RunOk w pre) :
    (∀ (k : Nat) (a : Acct), (w.run pre).1.pf.accounts[k]? = some a → ∀ h ∈ a.holdings, 0 ≤ h.long.qty ∧ 0 ≤ h.short.qty) ∧
    CloseInv (w.run pre).1 ∧ ReserveInv (w.run pre).1 := by
  obtain ⟨_, hb⟩ := RQ.Lemmas.WorldC.start_ok w ho ha hf
  have hn : IdsNodup w := by
    unfold IdsNodup bookIds; rw [ho, ha]; exact List.nodup_nil
  exact ⟨RQ.Lemmas.WorldE.run_qty_nonneg w pre hv hwf hb hn hinv hok,
    RQ.Lemmas.WorldE.run_closeInv w pre hv hwf hb hn hinv hok,
    (RQ.Lemmas.WorldC.run_from_start w pre ho ha hf hi hids).1⟩

/-- **every daily back-test of the composed system** (C08 ⇒ C09 ∧ C10): start from a well-formed world with empty books and nothing
reserved, position validators on; any number of trading days in the executor's order, any market with positive split ratios, any calls
of the strategy inside its two callbacks, the submitted orders having positive quantities and pairwise different ids.  Then in the
state after the run (and, by `RQ.Lemmas.WorldB.run_append`, after every prefix of it that ends a day) no position quantity is
negative, the resting closes are within the holdings, and every account's reserved cash is what its resting orders still hold. -/
theorem daily_backtest_invariants (w : World) (days : List Day) (hc : ∀ d ∈ days, d.CallsOnly)
    (ho : w.openOrders = []) (ha : w.auctionOrders = [])
    (hf : ∀ (k : Nat) (a : Acct), w.pf.accounts[k]? = some a → a.frozen = 0)
    (hv : ValidatorsOn w) (hwf : HoldingsWF w) (hinv : CloseInv w)
    (hi : ∀ i ∈ days.flatMap Day.inputs, InputOk i) (hids : (submittedIds (days.flatMap Day.inputs)).Nodup)
    (hs : SplitsPositive (days.flatMap Day.inputs)) :
    (∀ (k : Nat) (a : Acct), (w.run (days.flatMap Day.inputs)).1.pf.accounts[k]? = some a →
        ∀ h ∈ a.holdings, 0 ≤ h.long.qty ∧ 0 ≤ h.short.qty) ∧
    CloseInv (w.run (days.flatMap Day.inputs)).1 ∧
    ReserveInv (w.run (days.flatMap Day.inputs)).1 := by
  have hq := (RQ.Lemmas.WorldF.days_quiet w days hc ho ha).1
  exact invariants_of_runOk w _ ho ha hf hv hwf hinv hi hids (runOk_of_quiet w _ ho ha hq hi hids hs)

/-- the same at every point of the run: for every prefix of the inputs -/
theorem daily_backtest_invariants_prefix (w : World) (days : List Day) (hc : ∀ d ∈ days, d.CallsOnly)
    (ho : w.openOrders = []) (ha : w.auctionOrders = [])
    (hf : ∀ (k : Nat) (a : Acct), w.pf.accounts[k]? = some a → a.frozen = 0)
    (hv : ValidatorsOn w) (hwf : HoldingsWF w) (hinv : CloseInv w)
    (hi : ∀ i ∈ days.flatMap Day.inputs, InputOk i) (hids : (submittedIds (days.flatMap Day.inputs)).Nodup)
    (hs : SplitsPositive (days.flatMap Day.inputs))
    (pre post : List WIn) (hsplit : days.flatMap Day.inputs = pre ++ post) :
    (∀ (k : Nat) (a : Acct), (w.run pre).1.pf.accounts[k]? = some a → ∀ h ∈ a.holdings, 0 ≤ h.long.qty ∧ 0 ≤ h.short.qty) ∧
    CloseInv (w.run pre).1 ∧ ReserveInv (w.run pre).1 := by
  have hq := (RQ.Lemmas.WorldF.days_quiet w days hc ho ha).1
  have hok := runOk_of_quiet w _ ho ha hq hi hids hs
  rw [hsplit] at hok hi hids
  rw [submittedIds_append] at hids
  exact invariants_of_runOk w pre ho ha hf hv hwf hinv (fun i hx => hi i (List.mem_append_left _ hx))
    (List.nodup_append.1 hids).1 ((runOk_append w pre post).1 hok).1

end RQ.Lemmas.WorldI

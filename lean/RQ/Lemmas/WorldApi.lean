/-
The API-level world is the base world: every run with API calls IS a run of the base world on some list of inputs (the submissions the
calls amount to, computed on the states the calls meet).  Every theorem quantified over all input lists of `World.run` therefore covers
every API-level run.
-/
import RQ.Model.WorldApi
import RQ.Lemmas.WorldB

namespace RQ.Lemmas.WorldApi
open RQ.Q

theorem run_singleton (w : World) (i : WIn) : w.run [i] = w.step i := by
  simp [World.run]

/-- every API-level run is a base-level run -/
theorem run2_is_run (w : World) (ac : ApiCfg) (is : List WIn2) : ∃ ins : List WIn, w.run2 ac is = w.run ins := by
  induction is generalizing w with
  | nil => exact ⟨[], rfl⟩
  | cons i rest ih =>
    cases i with
    | base b =>
      obtain ⟨ys, hys⟩ := ih (w.step b).1
      refine ⟨[b] ++ ys, ?_⟩
      rw [RQ.Lemmas.WorldB.run_append, run_singleton]
      simp only [World.run2, World.step2]
      rw [hys]
    | api c ids =>
      obtain ⟨ys, hys⟩ := ih (w.api ac c ids).1
      refine ⟨w.apiInputs ac c ids ++ ys, ?_⟩
      rw [RQ.Lemmas.WorldB.run_append]
      simp only [World.run2, World.step2]
      rw [hys]
      rfl

end RQ.Lemmas.WorldApi

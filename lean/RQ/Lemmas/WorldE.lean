/-
World-level lemmas, part E (positions never go negative, C10 at whole-system level): in every state a run of the free-running world
reaches, what the orders resting in the broker's books may still close of a position never exceeds what the position holds.  In
particular no position quantity is ever negative.
-/
import RQ.Model.World
import RQ.Lemmas.WorldC
import Mathlib.Tactic.SplitIfs
import Mathlib.Tactic.Linarith
import Mathlib.Tactic.Positivity
import Mathlib.Data.Rat.Floor

namespace RQ.Lemmas.WorldE
open RQ.Q
open RQ.Lemmas.WorldC (acctOfOrd InputOk bookIds submittedIds)

/-- the unfilled quantity of the closing orders (CLOSE and CLOSE_TODAY) of account `k` resting in either book on one side of one
instrument -/
def restingClose (w : World) (k : Nat) (ins : Nat) (isLong : Bool) : Int :=
  (((w.openOrders ++ w.auctionOrders).filter (fun o =>
      acctOfOrd w o == some k && o.ins == ins && ordIsLong o.isBuy o.effect == isLong && o.effect != .open_)).map (·.unfilled)).sum

/-- **the invariant**: for every account, every holding and both directions: what the resting closing orders may still close never
exceeds the quantity held, and the T+1 lock (which only ever makes the validator stricter) is not negative -/
def CloseInv (w : World) : Prop :=
  ∀ (k : Nat) (a : Acct), w.pf.accounts[k]? = some a → ∀ h ∈ a.holdings,
    (0 ≤ h.long.nonClosable ∧ restingClose w k h.ins true ≤ h.long.qty) ∧
    (0 ≤ h.short.nonClosable ∧ restingClose w k h.ins false ≤ h.short.qty)

/-- closing orders rest only on instruments the account holds (so that `CloseInv` speaks about all of them), instruments are listed
once per account, and a holding's configuration is the instrument's -/
def HoldingsWF (w : World) : Prop :=
  (∀ (k : Nat) (a : Acct), w.pf.accounts[k]? = some a → (a.holdings.map (·.ins)).Nodup ∧
      ∀ h ∈ a.holdings, ∃ wi, w.cfg.find h.ins = some wi ∧ wi.cfg = h.cfg ∧ w.acctIdx wi = some k ∧ h.long.isLong = true ∧ h.short.isLong = false) ∧
  (∀ o ∈ w.openOrders ++ w.auctionOrders, o.effect ≠ .open_ → ∀ k, acctOfOrd w o = some k →
      ∃ a, w.pf.accounts[k]? = some a ∧ ∃ h ∈ a.holdings, h.ins = o.ins) ∧
  (∀ wi ∈ w.cfg.instruments, w.cfg.find wi.ins = some wi)

/-- the position validators are switched on (they are by default) -/
def ValidatorsOn (w : World) : Prop := w.cfg.swStock.position = true ∧ w.cfg.swFut.position = true

/-- corporate actions and the end of the day meet empty books (the executor's day structure: after the close nothing rests; with
immediate matching nothing stays in the auction book); split ratios are positive; the market table lists each instrument once -/
def StepOk (w : World) : WIn → Prop
  | .preBeforeTrading _ _ mkt => w.openOrders = [] ∧ w.auctionOrders = [] ∧
      (∀ d ∈ mkt, ∀ r, d.corp.split = some r → 0 < r) ∧ (∀ d ∈ mkt, ∀ x, d.corp.bookDps = some x → True)
  | .settlement => w.openOrders = [] ∧ w.auctionOrders = []
  | .submit o => 0 < o.qty ∧ o.id ∉ bookIds w
  | _ => True

/-- a run all of whose steps are ok in the state they meet -/
def RunOk : World → List WIn → Prop
  | _, [] => True
  | w, i :: rest => StepOk w i ∧ RunOk (w.step i).1 rest

/-! ## helpers

### what the resting closing orders may still close, as a sum over an arbitrary list of orders -/

/-- the order is a closing order of account `k` on side `d` of instrument `ins` -/
def closeP (w : World) (k ins : Nat) (d : Bool) (o : Ord) : Bool :=
  acctOfOrd w o == some k && o.ins == ins && ordIsLong o.isBuy o.effect == d && o.effect != .open_

def closeK (w : World) (k ins : Nat) (d : Bool) (o : Ord) : Int := if closeP w k ins d o then o.unfilled else 0
def closeSum (w : World) (k ins : Nat) (d : Bool) (l : List Ord) : Int := (l.map (closeK w k ins d)).sum

theorem filter_map_sum_int (p : Ord → Bool) (f : Ord → Int) (l : List Ord) :
    ((l.filter p).map f).sum = (l.map (fun o => if p o then f o else 0)).sum := by
  induction l with
  | nil => rfl
  | cons x xs ih => by_cases h : p x <;> simp [h, ih]

theorem restingClose_eq (w : World) (k ins : Nat) (d : Bool) :
    restingClose w k ins d = closeSum w k ins d (w.openOrders ++ w.auctionOrders) := by
  unfold restingClose closeSum closeK closeP; rw [filter_map_sum_int]

theorem closeSum_nil (w : World) (k ins : Nat) (d : Bool) : closeSum w k ins d [] = 0 := rfl
theorem closeSum_cons (w : World) (k ins : Nat) (d : Bool) (o : Ord) (l : List Ord) :
    closeSum w k ins d (o :: l) = closeK w k ins d o + closeSum w k ins d l := by simp [closeSum]
theorem closeSum_append (w : World) (k ins : Nat) (d : Bool) (l l' : List Ord) :
    closeSum w k ins d (l ++ l') = closeSum w k ins d l + closeSum w k ins d l' := by simp [closeSum]

theorem closeK_nonneg (w : World) (k ins : Nat) (d : Bool) (o : Ord) (h : 0 ≤ o.unfilled) : 0 ≤ closeK w k ins d o := by
  unfold closeK; split
  · exact h
  · exact le_refl _

theorem closeSum_nonneg (w : World) (k ins : Nat) (d : Bool) (l : List Ord) (hl : ∀ o ∈ l, 0 ≤ o.unfilled) :
    0 ≤ closeSum w k ins d l := by
  induction l with
  | nil => exact le_refl _
  | cons x xs ih =>
    rw [closeSum_cons]
    have := closeK_nonneg w k ins d x (hl x (by simp))
    have := ih (fun o ho => hl o (by simp [ho]))
    omega

theorem closeSum_perm (w : World) (k ins : Nat) (d : Bool) {l l' : List Ord} (h : l.Perm l') :
    closeSum w k ins d l = closeSum w k ins d l' := (h.map _).sum_eq

theorem closeSum_sublist (w : World) (k ins : Nat) (d : Bool) {l l' : List Ord} (h : l'.Sublist l)
    (hl : ∀ o ∈ l, 0 ≤ o.unfilled) : closeSum w k ins d l' ≤ closeSum w k ins d l := by
  induction h with
  | slnil => exact le_refl _
  | cons a _ ih =>
    rw [closeSum_cons]
    have := closeK_nonneg w k ins d a (hl a (by simp))
    have := ih (fun o ho => hl o (by simp [ho]))
    omega
  | cons_cons a _ ih =>
    rw [closeSum_cons, closeSum_cons]
    have := ih (fun o ho => hl o (by simp [ho]))
    omega

open RQ.Lemmas.WorldC (Env)

theorem closeK_env {w w' : World} (h : Env w w') (k ins : Nat) (d : Bool) (o : Ord) : closeK w' k ins d o = closeK w k ins d o := by
  unfold closeK closeP; rw [h.acct]

theorem closeSum_env {w w' : World} (h : Env w w') (k ins : Nat) (d : Bool) (l : List Ord) :
    closeSum w' k ins d l = closeSum w k ins d l := by
  unfold closeSum
  have : closeK w' k ins d = closeK w k ins d := funext (closeK_env h k ins d)
  rw [this]

/-- replacing one order by one that closes no more -/
theorem closeK_congr (w : World) (k ins : Nat) (d : Bool) (o o' : Ord) (h1 : o'.ins = o.ins) (h2 : o'.isBuy = o.isBuy)
    (h3 : o'.effect = o.effect) :
    closeK w k ins d o' = if closeP w k ins d o then o'.unfilled else 0 := by
  unfold closeK closeP acctOfOrd; rw [h1, h2, h3]

/-! ### the invariant over an arbitrary list of orders -/

/-- a holding of account `k` is configured as its instrument -/
def HWF1 (w : World) (k : Nat) (h : Holding) : Prop :=
  ∃ wi, w.cfg.find h.ins = some wi ∧ wi.cfg = h.cfg ∧ w.acctIdx wi = some k ∧ h.long.isLong = true ∧ h.short.isLong = false

def HQ (w : World) (L : List Ord) (k : Nat) (h : Holding) : Prop :=
  (0 ≤ h.long.nonClosable ∧ closeSum w k h.ins true L ≤ h.long.qty) ∧
  (0 ≤ h.short.nonClosable ∧ closeSum w k h.ins false L ≤ h.short.qty)

def AInv (w : World) (L : List Ord) (k : Nat) (hs : List Holding) : Prop :=
  (hs.map (·.ins)).Nodup ∧ ∀ h ∈ hs, HWF1 w k h ∧ HQ w L k h

def BInv (w : World) (L : List Ord) : Prop :=
  ∀ o ∈ L, o.effect ≠ .open_ → ∀ k, acctOfOrd w o = some k → ∃ a, w.pf.accounts[k]? = some a ∧ ∃ h ∈ a.holdings, h.ins = o.ins

def Inv (w : World) (L : List Ord) : Prop :=
  (∀ (k : Nat) (a : Acct), w.pf.accounts[k]? = some a → AInv w L k a.holdings) ∧ BInv w L ∧ ∀ o ∈ L, 0 ≤ o.unfilled

def InsWF (w : World) : Prop := ∀ wi ∈ w.cfg.instruments, w.cfg.find wi.ins = some wi

theorem inv_of (w : World) (hwf : HoldingsWF w) (hinv : CloseInv w) (hb : RQ.Lemmas.WorldC.BooksWF w) :
    Inv w (w.openOrders ++ w.auctionOrders) := by
  refine ⟨fun k a ha => ⟨(hwf.1 k a ha).1, fun h hh => ⟨(hwf.1 k a ha).2 h hh, ?_⟩⟩, hwf.2.1, fun o ho => ?_⟩
  · have := hinv k a ha h hh
    rw [restingClose_eq, restingClose_eq] at this
    exact this
  · have := hb o ho
    unfold Ord.unfilled; omega

theorem of_inv (w : World) (h : Inv w (w.openOrders ++ w.auctionOrders)) (hi : InsWF w) : CloseInv w ∧ HoldingsWF w := by
  refine ⟨fun k a ha h' hh => ?_, fun k a ha => ⟨(h.1 k a ha).1, fun h' hh => ((h.1 k a ha).2 h' hh).1⟩, h.2.1, hi⟩
  rw [restingClose_eq, restingClose_eq]
  exact ((h.1 k a ha).2 h' hh).2

theorem HWF1_env {w w' : World} (h : Env w w') (k : Nat) (x : Holding) : HWF1 w' k x ↔ HWF1 w k x := by
  obtain ⟨h1, h2, h3⟩ := h
  unfold HWF1 World.acctIdx
  rw [h1, h2, h3]

theorem HQ_env {w w' : World} (h : Env w w') (L : List Ord) (k : Nat) (x : Holding) : HQ w' L k x ↔ HQ w L k x := by
  unfold HQ; rw [closeSum_env h, closeSum_env h]

theorem AInv_env {w w' : World} (h : Env w w') (L : List Ord) (k : Nat) (hs : List Holding) : AInv w' L k hs ↔ AInv w L k hs := by
  unfold AInv
  constructor
  · exact fun ⟨a, b⟩ => ⟨a, fun x hx => ⟨(HWF1_env h k x).1 (b x hx).1, (HQ_env h L k x).1 (b x hx).2⟩⟩
  · exact fun ⟨a, b⟩ => ⟨a, fun x hx => ⟨(HWF1_env h k x).2 (b x hx).1, (HQ_env h L k x).2 (b x hx).2⟩⟩

theorem HQ_mono {w : World} {L L' : List Ord} {k : Nat} {x : Holding}
    (hle : ∀ ins d, closeSum w k ins d L' ≤ closeSum w k ins d L) (h : HQ w L k x) : HQ w L' k x := by
  obtain ⟨⟨a, b⟩, c, d⟩ := h
  exact ⟨⟨a, le_trans (hle _ _) b⟩, c, le_trans (hle _ _) d⟩

theorem AInv_mono {w : World} {L L' : List Ord} {k : Nat} {hs : List Holding}
    (hle : ∀ ins d, closeSum w k ins d L' ≤ closeSum w k ins d L) (h : AInv w L k hs) : AInv w L' k hs :=
  ⟨h.1, fun x hx => ⟨(h.2 x hx).1, HQ_mono hle (h.2 x hx).2⟩⟩

/-! ### how the invariant moves from one world (and list) to another -/

theorem apply_acc (w : World) (k : Nat) (op : AcctOp) (j : Nat) :
    (w.apply k op).pf.accounts[j]? = if j = k then (w.pf.accounts[k]?).map (·.stepOp op) else w.pf.accounts[j]? := by
  unfold World.apply
  split
  · rename_i a ha
    have hk : k < w.pf.accounts.length := by
      rcases Nat.lt_or_ge k w.pf.accounts.length with h' | h'
      · exact h'
      · rw [List.getElem?_eq_none h'] at ha; cases ha
    by_cases hj : j = k
    · subst hj
      simp only [List.getElem?_set_self hk, ha, Option.map_some, if_true]
    · have : k ≠ j := fun e => hj e.symm
      simp only [List.getElem?_set_ne this, hj, if_false]
  · rename_i ha
    by_cases hj : j = k
    · subst hj; simp [ha]
    · simp only [hj, if_false]

theorem acctOfOrd_ins (w : World) (o o' : Ord) (h : o'.ins = o.ins) : acctOfOrd w o' = acctOfOrd w o := by
  unfold acctOfOrd; rw [h]

/-- closing orders of `L'` are on instruments closing orders of `L` are on -/
def Retains (L L' : List Ord) : Prop := ∀ o ∈ L', o.effect ≠ .open_ → ∃ o0 ∈ L, o0.effect ≠ .open_ ∧ o0.ins = o.ins

theorem Retains.of_subset {L L' : List Ord} (h : ∀ o ∈ L', o ∈ L) : Retains L L' :=
  fun o ho hc => ⟨o, h o ho, hc, rfl⟩

theorem BInv_transfer {w w' : World} {L L' : List Ord} (hB : BInv w L) (henv : Env w w') (hr : Retains L L')
    (hacc : ∀ (j : Nat) (a : Acct), w.pf.accounts[j]? = some a → ∃ a' : Acct, w'.pf.accounts[j]? = some a' ∧
      ∀ h ∈ a.holdings, ∃ h' ∈ a'.holdings, h'.ins = h.ins) : BInv w' L' := by
  intro o ho hc k hk
  obtain ⟨o0, ho0, hc0, hi0⟩ := hr o ho hc
  rw [henv.acct, ← acctOfOrd_ins w o o0 hi0] at hk
  obtain ⟨a, ha, h, hh, hins⟩ := hB o0 ho0 hc0 k hk
  obtain ⟨a', ha', hret⟩ := hacc k a ha
  obtain ⟨h', hh', hins'⟩ := hret h hh
  exact ⟨a', ha', h', hh', by rw [hins', hins, hi0]⟩

theorem Inv_core {w w' : World} {L L' : List Ord} (hinv : Inv w L) (henv : Env w w')
    (hacc : ∀ (j : Nat) (a' : Acct), w'.pf.accounts[j]? = some a' → ∃ a : Acct, w.pf.accounts[j]? = some a ∧
      (AInv w L j a.holdings → AInv w L' j a'.holdings))
    (hB : BInv w' L') (hL : ∀ o ∈ L', 0 ≤ o.unfilled) : Inv w' L' := by
  refine ⟨fun k a' ha' => ?_, hB, hL⟩
  obtain ⟨a, ha, himp⟩ := hacc k a' ha'
  exact (AInv_env henv L' k _).2 (himp (hinv.1 k a ha))

/-- nothing the invariant reads has changed -/
theorem Inv_frame {w w' : World} {L : List Ord} (hinv : Inv w L) (henv : Env w w') (hacc : w'.pf.accounts = w.pf.accounts) :
    Inv w' L := by
  refine Inv_core hinv henv (fun j a' ha' => ⟨a', by rw [← hacc]; exact ha', id⟩) ?_ hinv.2.2
  exact BInv_transfer hinv.2.1 henv (Retains.of_subset (fun _ h => h))
    (fun j a ha => ⟨a, by rw [hacc]; exact ha, fun h hh => ⟨h, hh, rfl⟩⟩)

/-- the list shrinks -/
theorem Inv_mono {w : World} {L L' : List Ord} (hinv : Inv w L) (hL : ∀ o ∈ L', 0 ≤ o.unfilled)
    (hle : ∀ k ins d, closeSum w k ins d L' ≤ closeSum w k ins d L) (hr : Retains L L') : Inv w L' := by
  refine Inv_core hinv (Env.refl w) (fun j a' ha' => ⟨a', ha', AInv_mono (hle j)⟩) ?_ hL
  exact BInv_transfer hinv.2.1 (Env.refl w) hr (fun j a ha => ⟨a, ha, fun h hh => ⟨h, hh, rfl⟩⟩)

theorem Inv_sublist {w : World} {L L' : List Ord} (hinv : Inv w L) (hs : L'.Sublist L) : Inv w L' :=
  Inv_mono hinv (fun o ho => hinv.2.2 o (hs.subset ho)) (fun k ins d => closeSum_sublist w k ins d hs hinv.2.2)
    (Retains.of_subset (fun _ h => hs.subset h))

theorem Inv_perm {w : World} {L L' : List Ord} (hinv : Inv w L) (hp : L.Perm L') : Inv w L' :=
  Inv_mono hinv (fun o ho => hinv.2.2 o (hp.symm.subset ho)) (fun k ins d => le_of_eq (closeSum_perm w k ins d hp.symm))
    (Retains.of_subset (fun _ h => hp.symm.subset h))

/-- one account operation, the list changing with it -/
theorem Inv_apply {w : World} {L L' : List Ord} (k : Nat) (op : AcctOp) (hinv : Inv w L)
    (hL : ∀ o ∈ L', 0 ≤ o.unfilled) (hle : ∀ j ins d, closeSum w j ins d L' ≤ closeSum w j ins d L)
    (hr : Retains L L')
    (hop : ∀ a, w.pf.accounts[k]? = some a → AInv w L k a.holdings →
      AInv w L' k (a.stepOp op).holdings ∧ (L' = [] ∨ ∀ h ∈ a.holdings, ∃ h' ∈ (a.stepOp op).holdings, h'.ins = h.ins)) :
    Inv (w.apply k op) L' := by
  have henv := RQ.Lemmas.WorldC.apply_env w k op
  refine Inv_core hinv henv (fun j a' ha' => ?_) ?_ hL
  · rw [apply_acc] at ha'
    by_cases hj : j = k
    · subst hj
      rw [if_pos rfl, Option.map_eq_some_iff] at ha'
      obtain ⟨a, ha, rfl⟩ := ha'
      exact ⟨a, ha, fun h => (hop a ha h).1⟩
    · rw [if_neg hj] at ha'
      exact ⟨a', ha', AInv_mono (hle j)⟩
  · by_cases hnil : L' = []
    · subst hnil; intro o ho; cases ho
    · refine BInv_transfer hinv.2.1 henv hr (fun j a ha => ?_)
      rw [apply_acc]
      by_cases hj : j = k
      · subst hj
        rw [if_pos rfl, ha]
        refine ⟨_, rfl, ?_⟩
        rcases (hop a ha (hinv.1 j a ha)).2 with h | h
        · exact absurd h hnil
        · exact h
      · rw [if_neg hj]
        exact ⟨a, ha, fun h hh => ⟨h, hh, rfl⟩⟩

/-- an operation that leaves the holdings alone -/
theorem Inv_apply_same {w : World} {L : List Ord} (k : Nat) (op : AcctOp) (hinv : Inv w L)
    (hop : ∀ a : Acct, (a.stepOp op).holdings = a.holdings) : Inv (w.apply k op) L :=
  Inv_apply k op hinv hinv.2.2 (fun _ _ _ => le_refl _) (Retains.of_subset (fun _ h => h))
    (fun a _ h => ⟨by rw [hop]; exact h, Or.inr (fun x hx => ⟨x, by rw [hop]; exact hx, rfl⟩)⟩)

/-! ### what the account operations do to the holdings -/

def newH (ins : Nat) (cfg : InsCfg) (cl : R) : Holding :=
  { ins := ins, cfg := cfg, long := Pos.empty true cl, short := Pos.empty false cl }

def touchH (hs : List Holding) (ins : Nat) (cfg : InsCfg) (cl : R) : List Holding :=
  match hs.find? (·.ins == ins) with
  | some _ => hs
  | none => hs ++ [newH ins cfg cl]

theorem getOrCreate_holdings (a : Acct) (ins : Nat) (cfg : InsCfg) (cl : R) :
    (a.getOrCreate ins cfg cl).holdings = touchH a.holdings ins cfg cl := by
  unfold Acct.getOrCreate Acct.findHolding touchH
  cases h : a.holdings.find? (fun x => x.ins == ins) <;> rfl

def setF (ins : Nat) (isLong : Bool) (p : Pos) (h : Holding) : Holding :=
  if h.ins == ins then (if isLong then { h with long := p } else { h with short := p }) else h

def sel (isLong : Bool) (h : Holding) : Pos := if isLong then h.long else h.short

def tradeH (hs : List Holding) (ins : Nat) (isLong : Bool) (t : TradeIn) : List Holding :=
  match hs.find? (·.ins == ins) with
  | some h0 => hs.map (setF ins isLong ((sel isLong h0).applyTrade h0.cfg t).1)
  | none => hs

theorem applyTrade_holdings_aux (a1 : Acct) (ins : Nat) (cfg : InsCfg) (cl : R) (isLong : Bool) (t : TradeIn) :
    (match (a1.getOrCreate ins cfg cl).getPos ins isLong with
      | some (c, p) =>
        { ((a1.getOrCreate ins cfg cl).setPos ins isLong (p.applyTrade c t).1) with
            totalCash := (a1.getOrCreate ins cfg cl).totalCash + (p.applyTrade c t).2 }
      | none => a1.getOrCreate ins cfg cl).holdings = tradeH (touchH a1.holdings ins cfg cl) ins isLong t := by
  rw [← getOrCreate_holdings]
  generalize a1.getOrCreate ins cfg cl = a2
  unfold Acct.getPos Acct.findHolding tradeH
  cases h : a2.holdings.find? (fun x => x.ins == ins) with
  | none => rfl
  | some h0 => rfl

theorem applyTrade_holdings (a : Acct) (ins : Nat) (cfg : InsCfg) (cl : R) (isLong : Bool) (t : TradeIn)
    (ord : Option (Int × R)) :
    (a.applyTrade ins cfg cl isLong t ord).holdings = tradeH (touchH a.holdings ins cfg cl) ins isLong t := by
  unfold Acct.applyTrade
  refine (applyTrade_holdings_aux _ ins cfg cl isLong t).trans ?_
  congr 2
  split
  · split_ifs <;> rfl
  · rfl

theorem find_of_mem_nodup (hs : List Holding) (hnd : (hs.map (·.ins)).Nodup) (h : Holding) (hh : h ∈ hs) :
    hs.find? (·.ins == h.ins) = some h := by
  induction hs with
  | nil => cases hh
  | cons x xs ih =>
    rw [List.map_cons, List.nodup_cons] at hnd
    rcases List.mem_cons.1 hh with rfl | hx
    · simp
    · have hne : x.ins ≠ h.ins := fun e => hnd.1 (e ▸ List.mem_map_of_mem hx)
      have : (x.ins == h.ins) = false := by simpa using hne
      rw [List.find?_cons, this]
      exact ih hnd.2 hx

theorem AInv_map {w : World} {L L' : List Ord} {k : Nat} {hs : List Holding} (g : Holding → Holding) (h : AInv w L k hs)
    (hins : ∀ x ∈ hs, (g x).ins = x.ins)
    (hg : ∀ x ∈ hs, HWF1 w k x → HQ w L k x → HWF1 w k (g x) ∧ HQ w L' k (g x)) : AInv w L' k (hs.map g) := by
  refine ⟨?_, fun y hy => ?_⟩
  · rw [List.map_map]
    have : hs.map ((fun x => x.ins) ∘ g) = hs.map (fun x => x.ins) := List.map_congr_left (fun x hx => hins x hx)
    rw [this]; exact h.1
  · obtain ⟨x, hx, rfl⟩ := List.mem_map.1 hy
    exact hg x hx (h.2 x hx).1 (h.2 x hx).2

theorem AInv_sublist {w : World} {L : List Ord} {k : Nat} {hs hs' : List Holding} (h : AInv w L k hs) (hsub : hs'.Sublist hs) :
    AInv w L k hs' :=
  ⟨h.1.sublist (hsub.map _), fun x hx => h.2 x (hsub.subset hx)⟩

theorem AInv_nil (w : World) (L : List Ord) (k : Nat) : AInv w L k [] := ⟨List.nodup_nil, fun _ h => by cases h⟩

theorem AInv_touch {w : World} {L : List Ord} {k : Nat} {hs : List Holding} (ins : Nat) (cfg : InsCfg) (cl : R)
    (h : AInv w L k hs) (hnew : HWF1 w k (newH ins cfg cl))
    (hz : (∀ x ∈ hs, x.ins ≠ ins) → ∀ d, closeSum w k ins d L ≤ 0) : AInv w L k (touchH hs ins cfg cl) := by
  unfold touchH
  cases hf : hs.find? (fun x => x.ins == ins) with
  | some _ => exact h
  | none =>
    have hne : ∀ x ∈ hs, x.ins ≠ ins := by
      intro x hx
      have := List.find?_eq_none.1 hf x hx
      simpa using this
    refine ⟨?_, fun y hy => ?_⟩
    · rw [List.map_append, List.nodup_append]
      refine ⟨h.1, by simp, fun a ha b hb => ?_⟩
      obtain ⟨x, hx, rfl⟩ := List.mem_map.1 ha
      have : b = ins := by simpa [newH] using hb
      subst this
      exact hne x hx
    · rcases List.mem_append.1 hy with hy | hy
      · exact h.2 y hy
      · have : y = newH ins cfg cl := by simpa using hy
        subst this
        refine ⟨hnew, ⟨le_refl _, ?_⟩, le_refl _, ?_⟩
        · exact hz hne true
        · exact hz hne false

theorem touchH_retains (hs : List Holding) (ins : Nat) (cfg : InsCfg) (cl : R) :
    ∀ h ∈ hs, ∃ h' ∈ touchH hs ins cfg cl, h'.ins = h.ins := by
  intro h hh
  unfold touchH
  split
  · exact ⟨h, hh, rfl⟩
  · exact ⟨h, List.mem_append_left _ hh, rfl⟩

theorem setF_ins (ins : Nat) (isLong : Bool) (p : Pos) (h : Holding) : (setF ins isLong p h).ins = h.ins := by
  unfold setF; split_ifs <;> rfl

theorem tradeH_retains (hs : List Holding) (ins : Nat) (isLong : Bool) (t : TradeIn) :
    ∀ h ∈ hs, ∃ h' ∈ tradeH hs ins isLong t, h'.ins = h.ins := by
  intro h hh
  unfold tradeH
  split
  · exact ⟨_, List.mem_map_of_mem hh, setF_ins _ _ _ _⟩
  · exact ⟨h, hh, rfl⟩

theorem applyTrade_facts (c : InsCfg) (p : Pos) (t : TradeIn) :
    (p.applyTrade c t).1.isLong = p.isLong ∧
    (p.applyTrade c t).1.qty = (if t.effect = .open_ then p.qty + t.qty else p.qty - t.qty) ∧
    (0 ≤ p.nonClosable → 0 ≤ t.qty → 0 ≤ (p.applyTrade c t).1.nonClosable) := by
  obtain ⟨price, q, eff, fee⟩ := t
  unfold Pos.applyTrade Pos.applyTradeFuture Pos.applyTradeStock Pos.applyTradeBase
  cases eff <;> cases c.isFuture <;> cases c.tplus <;> simp <;> omega

theorem AInv_trade {w : World} {L L' : List Ord} {k : Nat} {hs : List Holding} (ins : Nat) (isLong : Bool) (t : TradeIn)
    (h : AInv w L k hs) (ht : 0 ≤ t.qty)
    (hle : ∀ ins' d, closeSum w k ins' d L' ≤ closeSum w k ins' d L)
    (hdir : t.effect ≠ .open_ → closeSum w k ins isLong L' + t.qty ≤ closeSum w k ins isLong L) :
    AInv w L' k (tradeH hs ins isLong t) := by
  unfold tradeH
  cases hf : hs.find? (fun x => x.ins == ins) with
  | none => exact AInv_mono hle h
  | some h0 =>
    have hins0 : h0.ins = ins := by simpa using List.find?_some hf
    refine AInv_map _ h (fun x _ => setF_ins _ _ _ _) (fun x hx hw hq => ?_)
    obtain ⟨f1, f2, f3⟩ := applyTrade_facts h0.cfg (sel isLong h0) t
    by_cases hxi : x.ins = ins
    · have hx0 : x = h0 := by
        have := find_of_mem_nodup hs h.1 x hx
        rw [hxi, hf] at this
        exact (Option.some.inj this).symm
      subst hx0
      have hb : (x.ins == ins) = true := by simpa using hxi
      obtain ⟨wi, w1, w2, w3, w4, w5⟩ := hw
      obtain ⟨⟨q1, q2⟩, q3, q4⟩ := hq
      have l1 := hle x.ins true
      have l2 := hle x.ins false
      rw [← hxi] at hdir
      unfold setF
      rw [hb, if_pos rfl]
      cases isLong
      · simp only [sel, Bool.false_eq_true, if_false] at f1 f2 f3 ⊢
        refine ⟨⟨wi, w1, w2, w3, w4, by rw [f1]; exact w5⟩, ⟨q1, le_trans l1 q2⟩, f3 q3 ht, ?_⟩
        show closeSum w k x.ins false L' ≤ (x.short.applyTrade x.cfg t).1.qty
        rw [f2]
        split_ifs with he
        · omega
        · have := hdir he; omega
      · simp only [sel, if_true] at f1 f2 f3 ⊢
        refine ⟨⟨wi, w1, w2, w3, by rw [f1]; exact w4, w5⟩, ⟨f3 q1 ht, ?_⟩, q3, le_trans l2 q4⟩
        show closeSum w k x.ins true L' ≤ (x.long.applyTrade x.cfg t).1.qty
        rw [f2]
        split_ifs with he
        · omega
        · have := hdir he; omega
    · have hb : (x.ins == ins) = false := by simpa using hxi
      unfold setF
      rw [hb]
      exact ⟨hw, HQ_mono hle hq⟩

/-! ### one matcher call -/

open RQ.Lemmas.WorldC (OrdWF BooksWF IdsNodup matchPre_inl matchPre_inr matchPost_cases markRejected_eq markCancelled_eq)

theorem stepOp_touch_holdings (a : Acct) (ins : Nat) (cfg : InsCfg) (cl : R) :
    (a.stepOp (.touch ins cfg cl)).holdings = touchH a.holdings ins cfg cl := getOrCreate_holdings a ins cfg cl

theorem stepOp_trade_holdings (a : Acct) (ins : Nat) (cfg : InsCfg) (cl : R) (isLong : Bool) (t : TradeIn) (ord : Option (Int × R)) :
    (a.stepOp (.trade ins cfg cl isLong t ord)).holdings = tradeH (touchH a.holdings ins cfg cl) ins isLong t :=
  applyTrade_holdings a ins cfg cl isLong t ord

theorem sum_map_zero (f : Ord → Int) (l : List Ord) (h : ∀ o ∈ l, f o = 0) : (l.map f).sum = 0 := by
  induction l with
  | nil => rfl
  | cons x xs ih =>
    rw [List.map_cons, List.sum_cons, h x (by simp), ih (fun o ho => h o (by simp [ho]))]; rfl

theorem closeP_iff (w : World) (k ins : Nat) (d : Bool) (o : Ord) :
    closeP w k ins d o = true ↔ acctOfOrd w o = some k ∧ o.ins = ins ∧ ordIsLong o.isBuy o.effect = d ∧ o.effect ≠ .open_ := by
  unfold closeP
  simp [and_assoc]

theorem closeSum_zero_of_no_holding {w : World} {L : List Ord} (hB : BInv w L) (k : Nat) (a : Acct)
    (ha : w.pf.accounts[k]? = some a) (ins : Nat) (hne : ∀ x ∈ a.holdings, x.ins ≠ ins) (d : Bool) :
    closeSum w k ins d L = 0 := by
  refine sum_map_zero _ L (fun o ho => ?_)
  unfold closeK
  split
  · rename_i hp
    obtain ⟨h1, h2, _, h4⟩ := (closeP_iff w k ins d o).1 hp
    obtain ⟨a', ha', h, hh, hi⟩ := hB o ho h4 k h1
    rw [ha] at ha'
    cases ha'
    exact absurd (hi.trans h2) (hne h hh)
  · rfl

theorem AInv_touch_of_inv {w : World} {L : List Ord} (hinv : Inv w L) (k : Nat) (a : Acct) (ha : w.pf.accounts[k]? = some a)
    (ins : Nat) (wi : WIns) (hwi : w.cfg.find ins = some wi) (hk : w.acctIdx wi = some k) (cl : R) :
    AInv w L k (touchH a.holdings ins wi.cfg cl) :=
  AInv_touch ins wi.cfg cl (hinv.1 k a ha) ⟨wi, hwi, rfl, hk, rfl, rfl⟩
    (fun hne d => le_of_eq (closeSum_zero_of_no_holding hinv.2.1 k a ha ins hne d))

theorem Inv_touch {w : World} {L : List Ord} (hinv : Inv w L) (k : Nat) (ins : Nat) (wi : WIns)
    (hwi : w.cfg.find ins = some wi) (hk : w.acctIdx wi = some k) (cl : R) : Inv (w.apply k (.touch ins wi.cfg cl)) L :=
  Inv_apply k _ hinv hinv.2.2 (fun _ _ _ => le_refl _) (Retains.of_subset (fun _ h => h))
    (fun a ha _ => ⟨by rw [stepOp_touch_holdings]; exact AInv_touch_of_inv hinv k a ha ins wi hwi hk cl,
      Or.inr (by rw [stepOp_touch_holdings]; exact touchH_retains _ _ _ _)⟩)

/-- the order afterwards is the same order with `f` less to fill -/
def Shrinks (o o' : Ord) (f : Int) : Prop :=
  o'.ins = o.ins ∧ o'.isBuy = o.isBuy ∧ o'.effect = o.effect ∧ o'.unfilled = o.unfilled - f

theorem Shrinks.refl (o : Ord) : Shrinks o o 0 := ⟨rfl, rfl, rfl, by omega⟩

theorem markRejected_shrinks (o : Ord) : Shrinks o o.markRejected 0 := by
  unfold Ord.markRejected; split
  · exact ⟨rfl, rfl, rfl, by unfold Ord.unfilled; simp⟩
  · exact Shrinks.refl o

theorem markCancelled_shrinks (o : Ord) : Shrinks o o.markCancelled 0 := by
  unfold Ord.markCancelled; split
  · exact ⟨rfl, rfl, rfl, by unfold Ord.unfilled; simp⟩
  · exact Shrinks.refl o

theorem Shrinks.trans {a b c : Ord} {f g : Int} (h1 : Shrinks a b f) (h2 : Shrinks b c g) : Shrinks a c (f + g) :=
  ⟨h2.1.trans h1.1, h2.2.1.trans h1.2.1, h2.2.2.1.trans h1.2.2.1, by rw [h2.2.2.2, h1.2.2.2]; omega⟩

theorem fill_shrinks (o : Ord) (p : R) (q : Int) (fee : R) : Shrinks o (o.fill p q fee) q := by
  unfold Ord.fill
  simp only
  split_ifs <;> exact ⟨rfl, rfl, rfl, by unfold Ord.unfilled; simp only; omega⟩

theorem fillc_shrinks (o : Ord) (p : R) (q : Int) (fee : R) (cr : Bool) :
    Shrinks o (if cr then (o.fill p q fee).markCancelled else o.fill p q fee) q := by
  cases cr
  · exact fill_shrinks o p q fee
  · have := (fill_shrinks o p q fee).trans (markCancelled_shrinks _)
    rw [add_zero] at this
    exact this

theorem orderAfter_shrinks (o : Ord) (out : MOutcome)
    (h : out = .rest ∨ out = .rejected ∨ out = .cancelled ∨ out = .raises) (fee : Int → R → R) :
    Shrinks o (orderAfter o fee out) 0 := by
  rcases h with rfl | rfl | rfl | rfl
  · exact Shrinks.refl o
  · exact markRejected_shrinks o
  · exact markCancelled_shrinks o
  · exact Shrinks.refl o

theorem closeSum_replace (w : World) (j ins : Nat) (d : Bool) (pre post : List Ord) (o o' : Ord) (f : Int)
    (hs : Shrinks o o' f) :
    closeSum w j ins d (pre ++ o' :: post) = closeSum w j ins d (pre ++ o :: post) - (if closeP w j ins d o then f else 0) := by
  rw [closeSum_append, closeSum_append, closeSum_cons, closeSum_cons, closeK_congr w j ins d o o' hs.1 hs.2.1 hs.2.2.1]
  unfold closeK
  rw [hs.2.2.2]
  split <;> omega

theorem replace_facts {w : World} {pre post : List Ord} {o o' : Ord} {f : Int}
    (hL : ∀ x ∈ pre ++ o :: post, 0 ≤ x.unfilled) (hs : Shrinks o o' f) (hf0 : 0 ≤ f) (hfu : f ≤ o.unfilled) :
    (∀ x ∈ pre ++ o' :: post, 0 ≤ x.unfilled) ∧
    (∀ j ins d, closeSum w j ins d (pre ++ o' :: post) ≤ closeSum w j ins d (pre ++ o :: post)) ∧
    Retains (pre ++ o :: post) (pre ++ o' :: post) := by
  refine ⟨fun x hx => ?_, fun j ins d => ?_, fun x hx hc => ?_⟩
  · rcases List.mem_append.1 hx with h | h
    · exact hL x (List.mem_append_left _ h)
    · rcases List.mem_cons.1 h with rfl | h
      · rw [hs.2.2.2]; omega
      · exact hL x (List.mem_append_right _ (List.mem_cons_of_mem _ h))
  · rw [closeSum_replace w j ins d pre post o o' f hs]
    split <;> omega
  · rcases List.mem_append.1 hx with h | h
    · exact ⟨x, List.mem_append_left _ h, hc, rfl⟩
    · rcases List.mem_cons.1 h with rfl | h
      · exact ⟨o, by simp, by rw [← hs.2.2.1]; exact hc, hs.1.symm⟩
      · exact ⟨x, List.mem_append_right _ (List.mem_cons_of_mem _ h), hc, rfl⟩

theorem Inv_replace {w : World} {pre post : List Ord} {o o' : Ord} {f : Int} (hinv : Inv w (pre ++ o :: post))
    (hs : Shrinks o o' f) (hf0 : 0 ≤ f) (hfu : f ≤ o.unfilled) : Inv w (pre ++ o' :: post) := by
  obtain ⟨h1, h2, h3⟩ := replace_facts (w := w) hinv.2.2 hs hf0 hfu
  exact Inv_mono hinv h1 h2 h3

/-- frame: static part, accounts and market table are as before -/
def Fr (w w' : World) : Prop := Env w w' ∧ w'.pf.accounts = w.pf.accounts ∧ w'.mkt = w.mkt

theorem Fr.refl (w : World) : Fr w w := ⟨Env.refl w, rfl, rfl⟩
theorem Fr.trans {a b c : World} (h1 : Fr a b) (h2 : Fr b c) : Fr a c :=
  ⟨h1.1.trans h2.1, h2.2.1.trans h1.2.1, h2.2.2.trans h1.2.2⟩
theorem Fr.inv {w w' : World} {L : List Ord} (h : Fr w w') (hinv : Inv w L) : Inv w' L := Inv_frame hinv h.1 h.2.1

theorem setCommRem_Fr (w : World) (key v) : Fr w (w.setCommRem key v) := by
  unfold World.setCommRem; split <;> exact ⟨⟨rfl, rfl, rfl⟩, rfl, rfl⟩
theorem addTurnover_Fr (w : World) (ins q) : Fr w (w.addTurnover ins q) := by
  unfold World.addTurnover; split <;> exact ⟨⟨rfl, rfl, rfl⟩, rfl, rfl⟩
theorem tradeFee_Fr (w : World) (wi oid isBuy eff q p ct) : Fr w (w.tradeFee wi oid isBuy eff q p ct).2 := by
  unfold World.tradeFee; split
  · exact Fr.refl w
  · exact setCommRem_Fr w _ _

def MQ (pre post : List Ord) (r : World × Ord × List WEv) : Prop := Inv r.1 (pre ++ r.2.1 :: post)

theorem matchOne_inv (w : World) (auction : Bool) (pre post : List Ord) (o : Ord) (hwf : OrdWF o)
    (hinv : Inv w (pre ++ o :: post)) : MQ pre post (w.matchOne auction o) := by
  have hu : 0 < o.unfilled := by unfold Ord.unfilled; have := hwf.2.2; omega
  unfold World.matchOne
  rw [if_neg (by simp [hwf.1])]
  split
  · exact hinv
  split
  · rename_i wi d hwi hd
    split
    · exact hinv
    · rename_i k hk
      have hacct : acctOfOrd w o = some k := by unfold acctOfOrd; rw [hwi]; exact hk
      extract_lets b isLong cl w1
      have hi1 : Inv w1 (pre ++ o :: post) := Inv_touch hinv k o.ins wi hwi hk cl
      have he1 : Env w w1 := RQ.Lemmas.WorldC.apply_env w k _
      clear_value w1
      split
      · rename_i out hout
        exact Inv_replace hinv (orderAfter_shrinks o out (matchPre_inl _ _ _ _ _ _ _ hout) _) (le_refl _) (le_of_lt hu)
      · rename_i f price hpre
        obtain ⟨hf0, hfu⟩ := matchPre_inr _ _ _ _ _ _ _ _ hpre hu
        extract_lets ct
        have hs2 := tradeFee_Fr w1 wi (some o.id) o.isBuy o.effect f price ct
        split
        rename_i fee w2 hfee
        rw [hfee] at hs2
        have hi2 : Inv w2 (pre ++ o :: post) := hs2.inv hi1
        have he2 : Env w w2 := he1.trans hs2.1
        extract_lets cash out
        have hout : out = .raises ∨ out = .rejected ∨ out = .fill f price ct (!o.isLimit && o.unfilled - f ≠ 0) :=
          matchPost_cases (w2.mcfg wi) wi.cfg o f price (cash + o.initFrozen) fee ct
        clear_value out cash
        rcases hout with h | h | h
        · rw [h]
          exact Inv_replace hi2 (orderAfter_shrinks o _ (by simp) _) (le_refl _) (le_of_lt hu)
        · rw [h]
          exact Inv_replace hi2 (orderAfter_shrinks o _ (by simp) _) (le_refl _) (le_of_lt hu)
        · rw [h]
          dsimp only
          have hs3 := addTurnover_Fr w2 o.ins f
          have hi3 := hs3.inv hi2
          have he3 : Env w (w2.addTurnover o.ins f) := he2.trans hs3.1
          generalize w2.addTurnover o.ins f = w3 at hi3 he3
          have hsh := fillc_shrinks o price f fee (!o.isLimit && decide (o.unfilled - f ≠ 0))
          generalize (if (!o.isLimit && decide (o.unfilled - f ≠ 0)) = true then (o.fill price f fee).markCancelled
            else o.fill price f fee) = o' at hsh
          obtain ⟨r1, r2, r3⟩ := replace_facts (w := w3) hi3.2.2 hsh (le_of_lt hf0) hfu
          have hwi3 : w3.cfg.find o.ins = some wi := by rw [he3.1]; exact hwi
          have hk3 : w3.acctIdx wi = some k := by
            unfold World.acctIdx; rw [he3.2.1, he3.2.2]; exact hk
          have hacct3 : acctOfOrd w3 o = some k := by rw [he3.acct]; exact hacct
          show Inv (w3.apply k _) (pre ++ o' :: post)
          refine Inv_apply k _ hi3 r1 r2 r3 (fun a ha _ => ?_)
          rw [stepOp_trade_holdings]
          refine ⟨AInv_trade o.ins isLong _ (AInv_touch_of_inv hi3 k a ha o.ins wi hwi3 hk3 cl) (le_of_lt hf0) (r2 k)
            (fun hc => ?_), Or.inr (fun x hx => ?_)⟩
          · have hp : closeP w3 k o.ins isLong o = true := (closeP_iff _ _ _ _ _).2 ⟨hacct3, rfl, rfl, hc⟩
            rw [closeSum_replace w3 k o.ins isLong pre post o o' f hsh, hp, if_pos rfl]
            show _ - f + f ≤ _
            omega
          · obtain ⟨x1, hx1, e1⟩ := touchH_retains a.holdings o.ins wi.cfg cl x hx
            obtain ⟨x2, hx2, e2⟩ := tradeH_retains _ o.ins isLong
              { price := price, qty := f, effect := o.effect, fee := fee } x1 hx1
            exact ⟨x2, hx2, e2.trans e1⟩
  · exact hinv

/-! ### a matching round -/

theorem matchList_inv (w : World) (auction : Bool) (pre post l : List Ord) (hl : ∀ o ∈ l, OrdWF o)
    (hinv : Inv w (pre ++ l ++ post)) :
    Inv (w.matchList auction l).1 (pre ++ (w.matchList auction l).2.1 ++ post) := by
  induction l generalizing w pre with
  | nil => exact hinv
  | cons o rest ih =>
    have e0 : pre ++ o :: rest ++ post = pre ++ o :: (rest ++ post) := by simp
    rw [e0] at hinv
    have h1 := matchOne_inv w auction pre (rest ++ post) o (hl o (by simp)) hinv
    rcases hm : w.matchOne auction o with ⟨w1, o1, e1⟩
    rw [hm] at h1
    unfold MQ at h1
    dsimp only at h1
    have e1' : pre ++ o1 :: (rest ++ post) = (pre ++ [o1]) ++ rest ++ post := by simp
    rw [e1'] at h1
    have h2 := ih w1 (pre ++ [o1]) (fun x hx => hl x (by simp [hx])) h1
    rcases hm2 : w1.matchList auction rest with ⟨w2, os, e2⟩
    rw [hm2] at h2
    simp only [World.matchList, hm, hm2]
    have e2' : pre ++ [o1] ++ os ++ post = pre ++ o1 :: os ++ post := by simp
    rw [← e2']
    exact h2

theorem stepOp_unsolicited_holdings (a : Acct) (q f : Int) (init : R) : (a.stepOp (.unsolicited q f init)).holdings = a.holdings := by
  show (a.onUnsolicited q f init).holdings = _
  unfold Acct.onUnsolicited; split_ifs <;> rfl

theorem stepOp_pendingNew_holdings (a : Acct) (init : R) : (a.stepOp (.pendingNew init)).holdings = a.holdings := rfl

theorem stepOp_finance_holdings (a : Acct) (x : R) : (a.stepOp (.finance x)).holdings = a.holdings := by
  show (a.financeRepay x).holdings = _
  unfold Acct.financeRepay; split_ifs <;> rfl

theorem depositWithdraw_holdings (a a' : Acct) (x r) (h : a.depositWithdraw x r = some a') : a'.holdings = a.holdings := by
  unfold Acct.depositWithdraw at h
  split_ifs at h
  split at h <;> (cases h; rfl)

theorem stepOp_deposit_holdings (a : Acct) (x r) : (a.stepOp (.deposit x r)).holdings = a.holdings := by
  show (match a.depositWithdraw x r with | some a' => a' | none => a).holdings = _
  split
  · exact depositWithdraw_holdings a _ x r (by assumption)
  · rfl

theorem announce_inv {w : World} {L : List Ord} (o : Ord) (hinv : Inv w L) : Inv (w.announce o) L := by
  unfold World.announce
  split
  · exact Inv_apply_same _ _ hinv (fun a => stepOp_unsolicited_holdings a _ _ _)
  · exact hinv

theorem announce_foldl_inv {w : World} {L : List Ord} (l : List Ord) (hinv : Inv w L) : Inv (l.foldl World.announce w) L := by
  induction l generalizing w with
  | nil => exact hinv
  | cons o rest ih => exact ih (announce_inv o hinv)

open RQ.Lemmas.WorldC (matchList_spec announce_foldl_spec ResultOk)

theorem matchRound_inv (w : World) (hwf : BooksWF w) (hinv : Inv w (w.openOrders ++ w.auctionOrders)) :
    Inv w.matchRound.1 (w.matchRound.1.openOrders ++ w.matchRound.1.auctionOrders) ∧ BooksWF w.matchRound.1 ∧
      (bookIds w.matchRound.1).Sublist (bookIds w) ∧ Env w w.matchRound.1 := by
  have hwf1 : ∀ o ∈ w.openOrders, OrdWF o := fun o ho => hwf o (List.mem_append_left _ ho)
  have hwf2 : ∀ o ∈ w.auctionOrders, OrdWF o := fun o ho => hwf o (List.mem_append_right _ ho)
  unfold World.matchRound
  have h1 := matchList_spec w false w.openOrders hwf1
  have q1 := matchList_inv w false [] w.auctionOrders w.openOrders hwf1 (by simpa using hinv)
  rcases hm1 : w.matchList false w.openOrders with ⟨w1, r1, e1⟩
  rw [hm1] at h1 q1
  obtain ⟨a1, a2, a3, a4, a5⟩ := h1
  dsimp only at a1 a2 a3 a4 a5 q1
  dsimp only
  have h2 := matchList_spec w1 true w1.auctionOrders (by rw [a2]; exact hwf2)
  have q2 := matchList_inv w1 true r1 [] w1.auctionOrders (by rw [a2]; exact hwf2) (by rw [a2]; simpa using q1)
  rcases hm2 : w1.matchList true w1.auctionOrders with ⟨w2, r2, e2⟩
  rw [hm2] at h2 q2
  obtain ⟨b1, b2, b3, b4, b5⟩ := h2
  dsimp only at b1 b2 b3 b4 b5 q2
  dsimp only
  rw [List.append_nil] at q2
  have hall : ∀ o ∈ r1 ++ r2, ResultOk o := by
    intro o ho
    rcases List.mem_append.1 ho with h | h
    · exact a4 o h
    · exact b4 o h
  obtain ⟨c1, c2, c3⟩ := announce_foldl_spec w2
    (((r1 ++ r2).filter (·.isFinal)).filter (fun o => o.status == .rejected || o.status == .cancelled))
  have q3 := announce_foldl_inv
    (((r1 ++ r2).filter (·.isFinal)).filter (fun o => o.status == .rejected || o.status == .cancelled)) q2
  generalize (List.foldl World.announce w2
    (((r1 ++ r2).filter (·.isFinal)).filter (fun o => o.status == .rejected || o.status == .cancelled))) = w3 at c1 c2 c3 q3 ⊢
  have henv : Env w w3 := (a5.1.trans b5.1).trans c3.1
  refine ⟨?_, ?_, ?_, ?_⟩
  · rw [List.append_nil]
    refine Inv_frame (w := w3) (Inv_sublist q3 List.filter_sublist) ⟨rfl, rfl, rfl⟩ rfl
  · intro o ho
    dsimp only at ho
    rw [List.append_nil, List.mem_filter] at ho
    rcases hall o ho.1 with h | h
    · exact h
    · rw [h.1] at ho; simp at ho
  · unfold bookIds
    dsimp only
    rw [List.append_nil, List.map_append, ← a3, ← a2, ← b3, ← List.map_append]
    exact (List.filter_sublist).map _
  · exact ⟨henv.1, henv.2.1, henv.2.2⟩

/-! ### the inputs one by one (all but the morning, the settlement and a submission) -/

def Good (w : World) : Prop := Inv w (w.openOrders ++ w.auctionOrders) ∧ BooksWF w
def StepRes (w w' : World) : Prop := Good w' ∧ (bookIds w').Sublist (bookIds w) ∧ Env w w'

theorem closeK_shrinks0 (w : World) (k ins : Nat) (d : Bool) (o o' : Ord) (hs : Shrinks o o' 0) :
    closeK w k ins d o' = closeK w k ins d o := by
  rw [closeK_congr w k ins d o o' hs.1 hs.2.1 hs.2.2.1, hs.2.2.2]
  unfold closeK; simp

theorem closeSum_map0 (w : World) (k ins : Nat) (d : Bool) (f : Ord → Ord) (hf : ∀ o, Shrinks o (f o) 0) (l : List Ord) :
    closeSum w k ins d (l.map f) = closeSum w k ins d l := by
  unfold closeSum
  rw [List.map_map]
  congr 1
  exact List.map_congr_left (fun o _ => closeK_shrinks0 w k ins d o (f o) (hf o))

theorem Inv_map_list {w : World} {l1 l2 : List Ord} (f : Ord → Ord) (hf : ∀ o, Shrinks o (f o) 0) (hinv : Inv w (l1 ++ l2)) :
    Inv w (l1.map f ++ l2) := by
  refine Inv_mono hinv (fun x hx => ?_) (fun k ins d => ?_) (fun x hx hc => ?_)
  · rcases List.mem_append.1 hx with h | h
    · obtain ⟨o, ho, rfl⟩ := List.mem_map.1 h
      rw [(hf o).2.2.2]
      have := hinv.2.2 o (List.mem_append_left _ ho)
      omega
    · exact hinv.2.2 x (List.mem_append_right _ h)
  · rw [closeSum_append, closeSum_append, closeSum_map0 w k ins d f hf]
  · rcases List.mem_append.1 hx with h | h
    · obtain ⟨o, ho, rfl⟩ := List.mem_map.1 h
      exact ⟨o, List.mem_append_left _ ho, by rw [← (hf o).2.2.1]; exact hc, (hf o).1.symm⟩
    · exact ⟨x, List.mem_append_right _ h, hc, rfl⟩

theorem activate_shrinks (o : Ord) : Shrinks o o.activate 0 := ⟨rfl, rfl, rfl, by unfold Ord.unfilled Ord.activate; simp⟩

theorem beforeTrading_res (w : World) (hg : Good w) : StepRes w w.beforeTrading.1 := by
  obtain ⟨hinv, hwf⟩ := hg
  unfold World.beforeTrading
  refine ⟨⟨?_, ?_⟩, ?_, ⟨rfl, rfl, rfl⟩⟩
  · dsimp only
    exact Inv_frame (w := w) (Inv_map_list Ord.activate activate_shrinks hinv) ⟨rfl, rfl, rfl⟩ rfl
  · intro o ho
    dsimp only at ho
    rcases List.mem_append.1 ho with h | h
    · obtain ⟨o0, ho0, rfl⟩ := List.mem_map.1 h
      exact RQ.Lemmas.WorldC.ordWF_activate o0 (hwf o0 (List.mem_append_left _ ho0))
    · exact hwf o (List.mem_append_right _ h)
  · unfold bookIds
    dsimp only
    rw [List.map_append, List.map_append, List.map_map]
    exact List.Sublist.refl _

theorem afterTrading_res (w : World) (hg : Good w) : StepRes w w.afterTrading.1 := by
  obtain ⟨hinv, hwf⟩ := hg
  unfold World.afterTrading
  extract_lets rej w1
  obtain ⟨c1, c2, c3⟩ := announce_foldl_spec { w with phase := .after } rej
  have c3' : Env w w1 := c3.1
  have c2' : w1.auctionOrders = w.auctionOrders := c2
  have q : Inv w1 (w.openOrders ++ w.auctionOrders) :=
    announce_foldl_inv rej (Inv_frame (w := w) (w' := { w with phase := .after }) hinv ⟨rfl, rfl, rfl⟩ rfl)
  clear_value w1
  refine ⟨⟨?_, ?_⟩, ?_, ⟨c3'.1, c3'.2.1, c3'.2.2⟩⟩
  · dsimp only
    rw [List.nil_append, c2']
    exact Inv_frame (w := w1) (Inv_sublist q (List.sublist_append_right _ _)) ⟨rfl, rfl, rfl⟩ rfl
  · intro o ho
    dsimp only at ho
    rw [List.nil_append, c2'] at ho
    exact hwf o (List.mem_append_right _ ho)
  · unfold bookIds
    dsimp only
    rw [List.nil_append, c2', List.map_append]
    exact List.sublist_append_right _ _

theorem cancel_res (w : World) (id : Nat) (hg : Good w) : StepRes w (w.cancel id).1 := by
  obtain ⟨hinv, hwf⟩ := hg
  unfold World.cancel
  split
  · exact ⟨⟨hinv, hwf⟩, List.Sublist.refl _, Env.refl w⟩
  · rename_i o hfind
    extract_lets oc w1
    obtain ⟨c1, c2, c3⟩ := RQ.Lemmas.WorldC.announce_spec w oc
    have c1' : w1.openOrders = w.openOrders := c1
    have c2' : w1.auctionOrders = w.auctionOrders := c2
    have c3' : Env w w1 := c3.1
    have q : Inv w1 (w.openOrders ++ w.auctionOrders) := announce_inv oc hinv
    clear_value w1
    refine ⟨⟨?_, ?_⟩, ?_, ⟨c3'.1, c3'.2.1, c3'.2.2⟩⟩
    · dsimp only
      rw [c1', c2', ← List.filter_append]
      exact Inv_frame (w := w1) (Inv_sublist q List.filter_sublist) ⟨rfl, rfl, rfl⟩ rfl
    · intro x hx
      dsimp only at hx
      rw [c1', c2', ← List.filter_append] at hx
      exact hwf x (List.mem_filter.1 hx).1
    · unfold bookIds
      dsimp only
      rw [c1', c2', ← List.filter_append]
      exact List.filter_sublist.map _

open RQ.Lemmas.WorldC (Same)

theorem Good_of_same {w w' : World} (hs : Same w w') (hg : Good w) (hi : Inv w' (w.openOrders ++ w.auctionOrders)) : StepRes w w' := by
  refine ⟨⟨by rw [hs.2.1, hs.2.2]; exact hi, hs.booksWF hg.2⟩, by rw [hs.bookIds], hs.1.1⟩

theorem deposit_res (w : World) (k : Nat) (amount : R) (recv : Option Nat) (hg : Good w) : StepRes w (w.deposit k amount recv).1 := by
  refine Good_of_same (RQ.Lemmas.WorldC.deposit_Same w k amount recv) hg ?_
  unfold World.deposit
  split
  · split
    · exact hg.1
    · split
      · exact Inv_frame (w := w.apply k (.deposit amount recv))
          (Inv_apply_same _ _ hg.1 (fun a => stepOp_deposit_holdings a _ _)) ⟨rfl, rfl, rfl⟩ rfl
      · exact hg.1
  · exact hg.1

theorem finance_res (w : World) (k : Nat) (amount : R) (hg : Good w) : StepRes w (w.apply k (.finance amount)) :=
  Good_of_same (RQ.Lemmas.WorldC.apply_Same w k _ (fun a => RQ.Lemmas.WorldC.stepOp_finance a _)) hg
    (Inv_apply_same _ _ hg.1 (fun a => stepOp_finance_holdings a _))

theorem foldl_pred {α : Type} (P : World → Prop) (f : World → α → World) (hf : ∀ w x, P w → P (f w x)) (l : List α) (w : World)
    (h : P w) : P (l.foldl f w) := by
  induction l generalizing w with
  | nil => exact h
  | cons x xs ih => exact ih _ (hf w x h)

theorem stepOp_bar_holdings (a : Acct) (price : Nat → Option R) :
    (a.stepOp (.bar price)).holdings = a.holdings.map (fun h => match price h.ins with
      | some p => { h with long := { h.long with last := p }, short := { h.short with last := p } }
      | none => h) := rfl

theorem Inv_apply_map {w : World} {L : List Ord} (k : Nat) (op : AcctOp) (g : Holding → Holding) (hinv : Inv w L)
    (hop : ∀ a : Acct, (a.stepOp op).holdings = a.holdings.map g) (hins : ∀ x, (g x).ins = x.ins)
    (hg : ∀ j x, HWF1 w j x → HQ w L j x → HWF1 w j (g x) ∧ HQ w L j (g x)) : Inv (w.apply k op) L :=
  Inv_apply k op hinv hinv.2.2 (fun _ _ _ => le_refl _) (Retains.of_subset (fun _ h => h))
    (fun a _ h => ⟨by rw [hop]; exact AInv_map g h (fun x _ => hins x) (fun x _ => hg k x),
      Or.inr (fun x hx => ⟨g x, by rw [hop]; exact List.mem_map_of_mem hx, hins x⟩)⟩)

theorem Inv_bar {w : World} {L : List Ord} (k : Nat) (price : Nat → Option R) (hinv : Inv w L) : Inv (w.apply k (.bar price)) L := by
  refine Inv_apply_map k _ _ hinv (fun a => stepOp_bar_holdings a price) (fun x => ?_) (fun j x hw hq => ?_)
  · dsimp only; split <;> rfl
  · dsimp only; split
    · exact ⟨hw, hq⟩
    · exact ⟨hw, hq⟩

theorem onBar_res (w : World) (hg : Good w) : StepRes w w.onBar.1 := by
  obtain ⟨hinv, hwf⟩ := hg
  unfold World.onBar
  extract_lets w0 w1
  have h0 : Same w w0 := Same.of_pf rfl ⟨rfl, rfl, rfl⟩ rfl rfl
  have h1 : Same w0 w1 := RQ.Lemmas.WorldC.foldl_Same _
    (fun _ _ => RQ.Lemmas.WorldC.apply_Same _ _ _ (fun a => RQ.Lemmas.WorldC.stepOp_bar a _)) _ _
  have h2 : Same w1 { w1 with turnover := [] } := Same.of_pf rfl ⟨rfl, rfl, rfl⟩ rfl rfl
  have hs := (h0.trans h1).trans h2
  have q0 : Inv w0 (w.openOrders ++ w.auctionOrders) := Inv_frame hinv ⟨rfl, rfl, rfl⟩ rfl
  have q1 : Inv w1 (w.openOrders ++ w.auctionOrders) :=
    foldl_pred (fun w' => Inv w' (w.openOrders ++ w.auctionOrders)) _ (fun w' k h => Inv_bar k _ h) _ _ q0
  have q2 : Inv { w1 with turnover := [] } (w.openOrders ++ w.auctionOrders) := Inv_frame q1 ⟨rfl, rfl, rfl⟩ rfl
  clear_value w1
  obtain ⟨m1, m2, m3, m4⟩ := matchRound_inv { w1 with turnover := [] } (hs.booksWF hwf) (by rw [hs.2.1, hs.2.2]; exact q2)
  rw [hs.bookIds] at m3
  exact ⟨⟨m1, m2⟩, m3, hs.1.1.trans m4⟩

/-! ### a submission: what the position validator lets through -/

theorem validate_pos (sw : Switches) (cfg : InsCfg) (oi : OrderIn) (m : MarketIn) (c tc : Int) (oc cash : R) (opp : List R)
    (h : RQ.Q.validate sw cfg oi m c tc oc cash opp = none) (hsw : sw.position = true) : positionVeto oi c tc = false := by
  unfold RQ.Q.validate at h
  rw [hsw] at h
  by_cases hp : positionVeto oi c tc = true
  · simp [hp] at h
  · simpa using hp

theorem positionVeto_false (oi : OrderIn) (c tc : Int) (h : positionVeto oi c tc = false) (hc : oi.effect ≠ .open_) (htc : tc ≤ c) :
    oi.qty ≤ c := by
  unfold positionVeto at h
  split at h
  · rename_i he; exact absurd he hc
  · have : ¬ oi.qty > tc := by simpa using h
    omega
  · have : ¬ oi.qty > c := by simpa using h
    omega

theorem foldl_unfilled (l : List Ord) (z : Int) : l.foldl (fun s x => s + x.unfilled) z = z + (l.map (·.unfilled)).sum := by
  induction l generalizing z with
  | nil => simp
  | cons x xs ih => rw [List.foldl_cons, ih]; simp only [List.map_cons, List.sum_cons]; omega

theorem openClosing_eq (w : World) (k ins : Nat) (d : Bool) (hk : ∀ x : Ord, x.ins = ins → acctOfOrd w x = some k) :
    ((((w.openOn ins).filter (fun x => ordIsLong x.isBuy x.effect == d)).filter (fun x => x.effect != .open_)).foldl
      (fun s x => s + x.unfilled) 0) = closeSum w k ins d (w.openOrders ++ w.auctionOrders) := by
  rw [foldl_unfilled, zero_add]
  unfold World.openOn
  rw [List.filter_filter, List.filter_filter, filter_map_sum_int]
  unfold closeSum
  congr 1
  refine List.map_congr_left (fun x _ => ?_)
  unfold closeK closeP
  by_cases h1 : x.ins = ins
  · have h1' : (x.ins == ins) = true := by simpa using h1
    rw [hk x h1, h1']
    simp only [beq_self_eq_true, Bool.true_and, Bool.and_true]
    rw [Bool.and_comm]
  · have h1' : (x.ins == ins) = false := by simpa using h1
    rw [h1']
    simp

theorem posOf_cases (w : World) (wi : WIns) (isLong : Bool) :
    (∃ k a h, w.acctIdx wi = some k ∧ w.pf.accounts[k]? = some a ∧ h ∈ a.holdings ∧ h.ins = wi.ins ∧
      w.posOf wi isLong = sel isLong h) ∨ w.posOf wi isLong = Pos.empty isLong 0 := by
  unfold World.posOf World.acct Acct.getPos Acct.findHolding
  cases hk : w.acctIdx wi with
  | none => right; rfl
  | some k =>
    cases ha : w.pf.accounts[k]? with
    | none => right; simp [ha]
    | some a =>
      cases hf : a.holdings.find? (fun x => x.ins == wi.ins) with
      | none => right; simp [ha, hf]
      | some h =>
        left
        refine ⟨k, a, h, rfl, ha, List.mem_of_find?_eq_some hf, by simpa using List.find?_some hf, ?_⟩
        simp [ha, hf, sel]

theorem posClosable_le (cfg : InsCfg) (tp : Bool) (p : Pos) (oc : Int) (h : 0 ≤ p.nonClosable) : posClosable cfg tp p oc ≤ p.qty - oc := by
  unfold posClosable; split_ifs <;> omega

theorem validate_close (w : World) (wi : WIns) (d : DayIns) (o : OrderReq) (fp : R) (k : Nat) (hon : ValidatorsOn w)
    (hinv : Inv w (w.openOrders ++ w.auctionOrders)) (hwi : w.cfg.find o.ins = some wi) (hk : w.acctIdx wi = some k)
    (hq : 0 < o.qty) (hv : w.validate wi d o fp = none) (hc : o.effect ≠ .open_) :
    ∃ a h, w.pf.accounts[k]? = some a ∧ h ∈ a.holdings ∧ h.ins = o.ins ∧
      closeSum w k o.ins (ordIsLong o.isBuy o.effect) (w.openOrders ++ w.auctionOrders) + o.qty ≤
        (sel (ordIsLong o.isBuy o.effect) h).qty := by
  have hins : wi.ins = o.ins := by simpa using List.find?_some hwi
  have hacct : ∀ x : Ord, x.ins = o.ins → acctOfOrd w x = some k := by
    intro x hx; unfold acctOfOrd; rw [hx, hwi]; exact hk
  unfold World.validate at hv
  extract_lets isLong sw p mine openClosing openCT closable todayClosable b m oi cash opp at hv
  have hsw : sw.position = true := by
    show (if wi.cfg.isFuture then w.cfg.swFut else w.cfg.swStock).position = true
    split
    · exact hon.2
    · exact hon.1
  have h1 := validate_pos _ _ _ _ _ _ _ _ _ hv hsw
  have h2 : o.qty ≤ closable := positionVeto_false oi closable todayClosable h1 hc (min_le_right _ _)
  have h3 : openClosing = closeSum w k o.ins isLong (w.openOrders ++ w.auctionOrders) := openClosing_eq w k o.ins isLong hacct
  have h4 : 0 ≤ closeSum w k o.ins isLong (w.openOrders ++ w.auctionOrders) := closeSum_nonneg _ _ _ _ _ hinv.2.2
  have h5 : closable = posClosable wi.cfg w.cfg.tplusOn p openClosing := rfl
  rcases posOf_cases w wi isLong with ⟨k', a, h, e1, e2, e3, e4, e5⟩ | e
  · rw [hk] at e1
    cases e1
    have hp : p = sel isLong h := e5
    have hq' := ((hinv.1 k a e2).2 h e3).2
    have hnc : 0 ≤ p.nonClosable := by
      rw [hp]; unfold sel; split
      · exact hq'.1.1
      · exact hq'.2.1
    have := posClosable_le wi.cfg w.cfg.tplusOn p openClosing hnc
    refine ⟨a, h, e2, e3, e4.trans hins, ?_⟩
    rw [← hp, ← h3]
    omega
  · have hp : p = Pos.empty isLong 0 := e
    have := posClosable_le wi.cfg w.cfg.tplusOn p openClosing (by rw [hp]; exact le_refl _)
    have hz : p.qty = 0 := by rw [hp]; rfl
    omega

theorem Inv_extend {w : World} {L : List Ord} (ord : Ord) (hinv : Inv w L) (hu : 0 ≤ ord.unfilled)
    (hc : ord.effect ≠ .open_ → ∀ k, acctOfOrd w ord = some k → ∃ a h, w.pf.accounts[k]? = some a ∧ h ∈ a.holdings ∧
      h.ins = ord.ins ∧ closeSum w k ord.ins (ordIsLong ord.isBuy ord.effect) L + ord.unfilled ≤
        (sel (ordIsLong ord.isBuy ord.effect) h).qty) : Inv w (L ++ [ord]) := by
  refine ⟨fun k a ha => ⟨(hinv.1 k a ha).1, fun h' hh' => ⟨((hinv.1 k a ha).2 h' hh').1, ?_⟩⟩, fun x hx hcx j hj => ?_,
    fun x hx => ?_⟩
  · have key : ∀ d, closeSum w k h'.ins d L ≤ (sel d h').qty → closeSum w k h'.ins d (L ++ [ord]) ≤ (sel d h').qty := by
      intro d hle
      rw [closeSum_append, closeSum_cons, closeSum_nil, add_zero]
      unfold closeK
      split
      · rename_i hp
        obtain ⟨p1, p2, p3, p4⟩ := (closeP_iff w k h'.ins d ord).1 hp
        obtain ⟨a0, h0, q1, q2, q3, q4⟩ := hc p4 k p1
        rw [ha] at q1
        cases q1
        have f1 := find_of_mem_nodup a.holdings (hinv.1 k a ha).1 h0 q2
        have f2 := find_of_mem_nodup a.holdings (hinv.1 k a ha).1 h' hh'
        rw [q3, p2, f2] at f1
        cases f1
        rw [p2, p3] at q4
        exact q4
      · omega
    obtain ⟨⟨a1, a2⟩, a3, a4⟩ := ((hinv.1 k a ha).2 h' hh').2
    exact ⟨⟨a1, by simpa [sel] using key true (by simpa [sel] using a2)⟩, a3,
      by simpa [sel] using key false (by simpa [sel] using a4)⟩
  · rcases List.mem_append.1 hx with h | h
    · exact hinv.2.1 x h hcx j hj
    · have : x = ord := by simpa using h
      subst this
      obtain ⟨a, h, q1, q2, q3, _⟩ := hc hcx j hj
      exact ⟨a, q1, h, q2, q3⟩
  · rcases List.mem_append.1 hx with h | h
    · exact hinv.2.2 x h
    · have : x = ord := by simpa using h
      subst this
      exact hu

theorem enter_res (w w2 : World) (ord : Ord) (hwf : BooksWF w) (hn : IdsNodup w) (hfresh : ord.id ∉ bookIds w) (hord : OrdWF ord)
    (hi : Inv w2 (w.openOrders ++ w.auctionOrders ++ [ord]))
    (hb : w2.openOrders = w.openOrders ∧ w2.auctionOrders = w.auctionOrders ++ [ord] ∨
          w2.openOrders = w.openOrders ++ [ord] ∧ w2.auctionOrders = w.auctionOrders) :
    Good w2 ∧ IdsNodup w2 := by
  have hperm : (w.openOrders ++ w.auctionOrders ++ [ord]).Perm (w2.openOrders ++ w2.auctionOrders) := by
    rcases hb with ⟨h1, h2⟩ | ⟨h1, h2⟩
    · rw [h1, h2, List.append_assoc]
    · rw [h1, h2, List.append_assoc, List.append_assoc]
      exact List.Perm.append_left _ List.perm_append_comm
  refine ⟨⟨Inv_perm hi hperm, ?_⟩, ?_⟩
  · intro x hx
    have := hperm.symm.subset hx
    rcases List.mem_append.1 this with h | h
    · exact hwf x h
    · have : x = ord := by simpa using h
      subst this
      exact hord
  · unfold IdsNodup bookIds
    refine (hperm.map (·.id)).nodup_iff.1 ?_
    rw [List.map_append, List.nodup_append]
    refine ⟨hn, by simp, fun a ha b hb => ?_⟩
    have : b = ord.id := by simpa using hb
    subst this
    exact fun e => hfresh (e ▸ ha)

theorem submit_res (w : World) (o : OrderReq) (hon : ValidatorsOn w) (hg : Good w) (hn : IdsNodup w) (hq : 0 < o.qty)
    (hfresh : o.id ∉ bookIds w) : Good (w.submit o).1 ∧ IdsNodup (w.submit o).1 ∧ Env w (w.submit o).1 := by
  obtain ⟨hinv, hwf⟩ := hg
  have triv : Good w ∧ IdsNodup w ∧ Env w w := ⟨⟨hinv, hwf⟩, hn, Env.refl w⟩
  unfold World.submit
  split
  · rename_i wi d hwi hd
    split
    · exact triv
    · rename_i k hk
      extract_lets frozenPrice init w1 ord w2
      split
      · exact triv
      · rename_i hv
        have hacct : acctOfOrd w ord = some k := by unfold acctOfOrd; rw [show ord.ins = o.ins from rfl, hwi]; exact hk
        have he1 : Env w w1 := RQ.Lemmas.WorldC.apply_env w k _
        have hext : Inv w (w.openOrders ++ w.auctionOrders ++ [ord]) := by
          refine Inv_extend ord hinv (le_of_lt (by show 0 < o.qty - 0; omega)) (fun hc j hj => ?_)
          rw [hacct] at hj
          cases hj
          obtain ⟨a, h, q1, q2, q3, q4⟩ := validate_close w wi d o frozenPrice k hon hinv hwi hk hq hv hc
          refine ⟨a, h, q1, q2, q3, ?_⟩
          show _ + (o.qty - 0) ≤ _
          rw [sub_zero]
          exact q4
        have hi1' : Inv w1 (w.openOrders ++ w.auctionOrders ++ [ord]) :=
          Inv_apply_same k _ hext (fun a => stepOp_pendingNew_holdings a init)
        have h2 : (Good w2 ∧ IdsNodup w2) ∧ Env w w2 := by
          have hw2 : w2 = if (w1.phase == WPhase.auction) = true then { w1 with auctionOrders := w1.auctionOrders ++ [ord] }
              else { w1 with openOrders := w1.openOrders ++ [ord] } := rfl
          have ho1 : w1.openOrders = w.openOrders := RQ.Lemmas.WorldC.apply_open _ _ _
          have ha1 : w1.auctionOrders = w.auctionOrders := RQ.Lemmas.WorldC.apply_auction _ _ _
          clear_value w2 w1
          by_cases hp : (w1.phase == WPhase.auction) = true
          · rw [if_pos hp] at hw2
            subst hw2
            exact ⟨enter_res w _ ord hwf hn hfresh ⟨rfl, le_refl _, hq⟩ (Inv_frame hi1' ⟨rfl, rfl, rfl⟩ rfl)
              (Or.inl ⟨ho1, by rw [← ha1]⟩), he1⟩
          · rw [if_neg hp] at hw2
            subst hw2
            exact ⟨enter_res w _ ord hwf hn hfresh ⟨rfl, le_refl _, hq⟩ (Inv_frame hi1' ⟨rfl, rfl, rfl⟩ rfl)
              (Or.inr ⟨by rw [← ho1], ha1⟩), he1⟩
        clear_value w2
        split
        · obtain ⟨m1, m2, m3, m4⟩ := matchRound_inv w2 h2.1.1.2 h2.1.1.1
          exact ⟨⟨m1, m2⟩, List.Nodup.sublist m3 h2.1.2, h2.2.trans m4⟩
        · exact ⟨h2.1.1, h2.1.2, h2.2⟩
  · exact triv

/-! ### the morning and the settlement (books are empty) -/

theorem floor_nonneg' (x : Rat) (h : 0 ≤ x) : 0 ≤ x.floor := by
  have : ⌊x⌋ = x.floor := rfl
  rw [← this]; exact Int.floor_nonneg.2 h

/-- the half-even rounding used inside the decimal helpers -/
def halfEven (y : Rat) : Int :=
  let f := y.floor
  let d := y - (f : Rat)
  if d < 1/2 then f else if d > 1/2 then f + 1 else if f % 2 = 0 then f else f + 1

theorem halfEven_nonneg (y : Rat) (h : 0 ≤ y) : 0 ≤ halfEven y := by
  have := floor_nonneg' y h
  unfold halfEven
  simp only
  split_ifs <;> omega

theorem scaleUp_nonneg (fuel : Nat) (y : Rat) (k : Nat) (h : 0 ≤ y) : 0 ≤ (roundSig10Pos.scaleUp fuel y k).1 := by
  induction fuel generalizing y k with
  | zero => simpa [roundSig10Pos.scaleUp] using h
  | succ n ih =>
    unfold roundSig10Pos.scaleUp
    split_ifs
    · exact ih _ _ (by positivity)
    · exact h

theorem roundSig10Pos_eq (m : Rat) :
    roundSig10Pos m =
      if m.floor.toNat = 0 then
        ((halfEven ((roundSig10Pos.scaleUp 400 m 0).1 * ((10 ^ 9 : Nat) : Rat)) : Int) : Rat) / ((10 ^ 9 : Nat) : Rat)
          / ((10 ^ (roundSig10Pos.scaleUp 400 m 0).2 : Nat) : Rat)
      else if natDigits m.floor.toNat ≥ 10 then
        ((halfEven (m / ((10 ^ (natDigits m.floor.toNat - 10) : Nat) : Rat)) : Int) : Rat)
          * ((10 ^ (natDigits m.floor.toNat - 10) : Nat) : Rat)
      else
        ((halfEven (m * ((10 ^ (10 - natDigits m.floor.toNat) : Nat) : Rat)) : Int) : Rat)
          / ((10 ^ (10 - natDigits m.floor.toNat) : Nat) : Rat) := rfl

theorem roundSig10Pos_nonneg (m : Rat) (h : 0 ≤ m) : 0 ≤ roundSig10Pos m := by
  rw [roundSig10Pos_eq]
  split_ifs
  · have hy := scaleUp_nonneg 400 m 0 h
    have := halfEven_nonneg ((roundSig10Pos.scaleUp 400 m 0).1 * ((10 ^ 9 : Nat) : Rat)) (by positivity)
    have h' : (0 : Rat) ≤ ((halfEven ((roundSig10Pos.scaleUp 400 m 0).1 * ((10 ^ 9 : Nat) : Rat)) : Int) : Rat) := by
      exact_mod_cast this
    positivity
  · have := halfEven_nonneg (m / ((10 ^ (natDigits m.floor.toNat - 10) : Nat) : Rat)) (by positivity)
    have h' : (0 : Rat) ≤ ((halfEven (m / ((10 ^ (natDigits m.floor.toNat - 10) : Nat) : Rat)) : Int) : Rat) := by
      exact_mod_cast this
    positivity
  · have := halfEven_nonneg (m * ((10 ^ (10 - natDigits m.floor.toNat) : Nat) : Rat)) (by positivity)
    have h' : (0 : Rat) ≤ ((halfEven (m * ((10 ^ (10 - natDigits m.floor.toNat) : Nat) : Rat)) : Int) : Rat) := by
      exact_mod_cast this
    positivity

theorem roundSig10Rat_nonneg (q : Rat) (h : 0 ≤ q) : 0 ≤ roundSig10Rat q := by
  unfold roundSig10Rat
  split_ifs with h0 h1
  · exact le_refl _
  · exact absurd h (not_le.2 h1)
  · exact roundSig10Pos_nonneg q h

/-- the whole-share rounding of a split keeps a non-negative quantity non-negative -/
theorem decMulRound10_nonneg (a b : Rat) (ha : 0 ≤ a) (hb : 0 ≤ b) : 0 ≤ R.decMulRound10 a b := by
  show 0 ≤ halfEven (roundSig10Rat (a * b))
  exact halfEven_nonneg _ (roundSig10Rat_nonneg _ (mul_nonneg ha hb))

/-- a position of side `b` with a non-negative quantity and lock -/
def POk (b : Bool) (p : Pos) : Prop := p.isLong = b ∧ 0 ≤ p.nonClosable ∧ 0 ≤ p.qty

theorem base_ok (b : Bool) (p : Pos) (h : POk b p) : POk b p.beforeTradingBase := ⟨h.1, le_refl _, h.2.2⟩

/-- stage 1 of `StockPosition.before_trading`: `_handle_dividend_book_closure` -/
def btBook (p0 : Pos) (b : Option (R × Nat)) : Pos :=
  match b with
  | some (dps, payable) =>
    { p0 with avg := p0.avg - dps, last := p0.last - dps, divRecv := some (payable, R.ofInt p0.qty * dps) }
  | none => p0

/-- stage 2: `_handle_dividend_payable` -/
def btPay (cfg : InsCfg) (p1 : Pos) (today : Nat) (reinvest : Bool) (fee : Int → R → R) : Pos × R × Option TradeIn :=
  match p1.divRecv with
  | some (payable, value) =>
    if payable ≠ today then (p1, 0, none)
    else
      let pc := { p1 with divRecv := none }
      if reinvest then
        let a0 := R.decQuot10 value pc.last
        let amount := R.decQuot10 (R.ofInt a0) (R.ofInt cfg.lot) * cfg.lot
        if amount > 0 then
          let t : TradeIn := { price := pc.last, qty := amount, effect := .open_, fee := fee amount pc.last }
          ((pc.applyTradeStock cfg t).1, value - R.ofInt amount * pc.last - t.fee, some t)
        else (pc, value, none)
      else (pc, value, none)
  | none => (p1, 0, none)

/-- stage 3: `_handle_split` -/
def btSplit (p2 : Pos) (s : Option R) : Pos :=
  match s with
  | some ratio =>
    let q' := R.decMulRound10 (R.ofInt p2.qty) ratio
    { p2 with avg := p2.avg / ratio, last := p2.last / ratio, qty := q', oldQty := q',
              logicalOld := R.decMulRound10 (R.ofInt p2.logicalOld) ratio }
  | none => p2

theorem bts_eq (cfg : InsCfg) (p : Pos) (c : CorpDay) (reinvest : Bool) (fee : Int → R → R) :
    p.beforeTradingStock cfg c reinvest fee =
      if p.qty = 0 && p.divRecv.isNone then (p.beforeTradingBase, 0, none)
      else
        (btSplit (btPay cfg (btBook p.beforeTradingBase c.bookDps) c.today reinvest fee).1 c.split,
         0 + (btPay cfg (btBook p.beforeTradingBase c.bookDps) c.today reinvest fee).2.1,
         (btPay cfg (btBook p.beforeTradingBase c.bookDps) c.today reinvest fee).2.2) := by
  rfl

theorem btBook_ok (b : Bool) (p : Pos) (x : Option (R × Nat)) (h : POk b p) : POk b (btBook p x) := by
  unfold btBook
  split
  · exact h
  · exact h

theorem applyTradeStock_open_ok (b : Bool) (c : InsCfg) (p : Pos) (t : TradeIn) (he : t.effect = .open_) (hq : 0 ≤ t.qty)
    (h : POk b p) : POk b (p.applyTradeStock c t).1 := by
  obtain ⟨h1, h2, h3⟩ := h
  obtain ⟨price, q, eff, fee⟩ := t
  simp only at he hq
  subst he
  unfold POk Pos.applyTradeStock Pos.applyTradeBase
  cases c.tplus <;> simp <;> refine ⟨h1, ?_, ?_⟩ <;> omega

theorem btPay_ok (b : Bool) (cfg : InsCfg) (p : Pos) (today : Nat) (reinvest : Bool) (fee : Int → R → R) (h : POk b p) :
    POk b (btPay cfg p today reinvest fee).1 := by
  unfold btPay
  split
  · rename_i payable value hd
    by_cases h1 : payable ≠ today
    · rw [if_pos h1]; exact h
    · rw [if_neg h1]
      dsimp only
      by_cases h2 : reinvest = true
      · rw [if_pos h2]
        split
        · rename_i h3
          exact applyTradeStock_open_ok b cfg _ _ rfl (le_of_lt h3) h
        · exact h
      · rw [if_neg h2]; exact h
  · exact h

theorem btSplit_ok (b : Bool) (p : Pos) (s : Option R) (hs : ∀ r, s = some r → 0 < r) (h : POk b p) : POk b (btSplit p s) := by
  unfold btSplit
  split
  · rename_i ratio
    refine ⟨h.1, h.2.1, ?_⟩
    have hq : (0 : Rat) ≤ R.ofInt p.qty := by unfold R.ofInt; exact_mod_cast h.2.2
    exact decMulRound10_nonneg _ _ hq (le_of_lt (hs ratio rfl))
  · exact h

theorem beforeTradingStock_ok (b : Bool) (cfg : InsCfg) (p : Pos) (c : CorpDay) (reinvest : Bool) (fee : Int → R → R)
    (hs : ∀ r, c.split = some r → 0 < r) (h : POk b p) : POk b (p.beforeTradingStock cfg c reinvest fee).1 := by
  rw [bts_eq]
  split_ifs
  · exact base_ok b p h
  · exact btSplit_ok b _ _ hs (btPay_ok b cfg _ _ _ _ (btBook_ok b _ _ (base_ok b p h)))

theorem HQ_nil (w : World) (k : Nat) (h : Holding) :
    HQ w [] k h ↔ (0 ≤ h.long.nonClosable ∧ 0 ≤ h.long.qty) ∧ (0 ≤ h.short.nonClosable ∧ 0 ≤ h.short.qty) := Iff.rfl

/-- both sides of a holding are in order (no resting orders) -/
theorem hok_iff (w : World) (k : Nat) (h : Holding) :
    HWF1 w k h ∧ HQ w [] k h ↔ (∃ wi, w.cfg.find h.ins = some wi ∧ wi.cfg = h.cfg ∧ w.acctIdx wi = some k) ∧
      POk true h.long ∧ POk false h.short := by
  unfold HWF1 POk
  rw [HQ_nil]
  constructor
  · rintro ⟨⟨wi, a, b, c, d, e⟩, ⟨f, g⟩, i, j⟩
    exact ⟨⟨wi, a, b, c⟩, ⟨d, f, g⟩, e, i, j⟩
  · rintro ⟨⟨wi, a, b, c⟩, ⟨d, f, g⟩, e, i, j⟩
    exact ⟨⟨wi, a, b, c, d, e⟩, ⟨f, g⟩, i, j⟩

theorem foldl_snd_map {α β : Type} (g : α → β) (step : R × List β → α → R × List β)
    (hstep : ∀ acc h, (step acc h).2 = acc.2 ++ [g h]) (l : List α) (z : R × List β) :
    (l.foldl step z).2 = z.2 ++ l.map g := by
  induction l generalizing z with
  | nil => simp
  | cons x xs ih => rw [List.foldl_cons, ih, hstep]; simp

/-- the holding after before_trading -/
def btH (i : BTInput) (h : Holding) : Holding :=
  if h.cfg.isFuture then { h with long := h.long.beforeTradingBase, short := h.short.beforeTradingBase }
  else { h with long := (h.long.beforeTradingStock h.cfg (i.corp h.ins) i.reinvest (i.fee h.ins)).1,
                short := h.short.beforeTradingBase }

theorem onBeforeTrading_holdings (a : Acct) (i : BTInput) :
    (a.onBeforeTrading i).holdings = (a.holdings.filter (fun h =>
      !((h.long.qty == 0 && h.long.equity h.cfg == 0) && (h.short.qty == 0 && h.short.equity h.cfg == 0)))).map (btH i) := by
  unfold Acct.onBeforeTrading
  extract_lets hs due rest cash1 step r liab
  show r.2 = _
  have := foldl_snd_map (btH i) step (fun acc h => ?_) hs (cash1, [])
  · rw [List.nil_append] at this; exact this
  · unfold btH
    show (if h.cfg.isFuture then _ else _ : R × List Holding).2 = _
    split <;> rfl

theorem btH_ok (w : World) (k : Nat) (i : BTInput) (hs : ∀ ins r, (i.corp ins).split = some r → 0 < r) (h : Holding)
    (hok : HWF1 w k h ∧ HQ w [] k h) : HWF1 w k (btH i h) ∧ HQ w [] k (btH i h) := by
  rw [hok_iff] at hok ⊢
  obtain ⟨h1, h2, h3⟩ := hok
  unfold btH
  split
  · exact ⟨h1, base_ok _ _ h2, base_ok _ _ h3⟩
  · exact ⟨h1, beforeTradingStock_ok _ _ _ _ _ _ (hs h.ins) h2, base_ok _ _ h3⟩

theorem btH_ins (i : BTInput) (h : Holding) : (btH i h).ins = h.ins := by unfold btH; split <;> rfl

theorem Inv_beforeTrading {w : World} (k : Nat) (i : BTInput) (hs : ∀ ins r, (i.corp ins).split = some r → 0 < r)
    (hinv : Inv w []) : Inv (w.apply k (.beforeTrading i)) [] := by
  refine Inv_apply k _ hinv hinv.2.2 (fun _ _ _ => le_refl _) (Retains.of_subset (fun _ h => h)) (fun a _ h => ⟨?_, Or.inl rfl⟩)
  show AInv w [] k (a.onBeforeTrading i).holdings
  rw [onBeforeTrading_holdings]
  exact AInv_map (btH i) (AInv_sublist h List.filter_sublist) (fun x _ => btH_ins i x)
    (fun x _ hw hq => btH_ok w k i hs x ⟨hw, hq⟩)

theorem foldl_snd_Fr {α β : Type} (f : β × World → α → β × World) (hf : ∀ acc x, Fr acc.2 (f acc x).2)
    (l : List α) (acc : β × World) : Fr acc.2 (l.foldl f acc).2 := by
  induction l generalizing acc with
  | nil => exact Fr.refl _
  | cons x xs ih => exact (hf acc x).trans (ih (f acc x))

theorem reinvestFees_Fr (w : World) (a : Acct) : Fr w (w.reinvestFees a).2 := by
  unfold World.reinvestFees
  refine foldl_snd_Fr _ (fun acc h => ?_) a.holdings ([], w)
  split
  · exact Fr.refl _
  · split
    · extract_lets probe
      split
      · exact tradeFee_Fr _ _ _ _ _ _ _ _
      · exact Fr.refl _
    · exact Fr.refl _

theorem apply_mkt (w : World) (k : Nat) (op : AcctOp) : (w.apply k op).mkt = w.mkt := by
  unfold World.apply; split <;> rfl

def SplitOk (w : World) : Prop := ∀ d ∈ w.mkt, ∀ r, d.corp.split = some r → 0 < r

theorem btInput_split (w : World) (hs : SplitOk w) (fees : List (Nat × R)) :
    ∀ ins r, ((w.btInput fees).corp ins).split = some r → 0 < r := by
  intro ins r h
  unfold World.btInput at h
  dsimp only at h
  split at h
  · rename_i d hd
    exact hs d (List.mem_of_find?_eq_some hd) r h
  · cases h

theorem preBeforeTrading_inv (w : World) (today : Nat) (tax : R) (mkt : List DayIns) (hinv : Inv w [])
    (hs : ∀ d ∈ mkt, ∀ r, d.corp.split = some r → 0 < r) : Inv (w.preBeforeTrading today tax mkt) [] := by
  unfold World.preBeforeTrading
  extract_lets w0
  have h0 : Inv w0 [] ∧ SplitOk w0 := by
    refine ⟨Inv_frame hinv ⟨rfl, rfl, rfl⟩ ?_, hs⟩
    show (w.pf.preBeforeTrading).accounts = w.pf.accounts
    unfold Pf.preBeforeTrading; split <;> rfl
  refine (foldl_pred (fun w' => Inv w' [] ∧ SplitOk w') _ (fun w' k hp => ?_) _ w0 h0).1
  split
  · rename_i a _
    have hfr := reinvestFees_Fr w' a
    have h1 : Inv (w'.reinvestFees a).2 [] := hfr.inv hp.1
    have h2 : SplitOk (w'.reinvestFees a).2 := by unfold SplitOk; rw [hfr.2.2]; exact hp.2
    exact ⟨Inv_beforeTrading k _ (btInput_split _ h2 _) h1, by unfold SplitOk; rw [apply_mkt]; exact h2⟩
  · exact hp

/-- the holding after settlement -/
def stH (i : STInput) (h : Holding) : Holding :=
  if h.cfg.isFuture then
    { h with long := (h.long.settlementFuture h.cfg (i.settle h.ins) (i.expires h.ins)).1,
             short := (h.short.settlementFuture h.cfg (i.settle h.ins) (i.expires h.ins)).1 }
  else { h with long := (h.long.settlementStock (i.delist h.ins)).1, short := (h.short.settlementStock .none).1 }

theorem onSettlement_holdings (a : Acct) (i : STInput) :
    (a.onSettlement i).holdings = [] ∨ (a.onSettlement i).holdings = a.holdings.map (stH i) := by
  unfold Acct.onSettlement
  extract_lets step r a1 fee a2
  split
  · left; rfl
  · right
    show r.2 = _
    have := foldl_snd_map (stH i) step (fun acc h => ?_) a.holdings (a.totalCash, [])
    · rw [List.nil_append] at this; exact this
    · unfold stH
      show (if h.cfg.isFuture then _ else _ : R × List Holding).2 = _
      split <;> rfl

theorem settlementStock_ok (b : Bool) (p : Pos) (k : DelistKind) (h : POk b p) : POk b (p.settlementStock k).1 := by
  unfold Pos.settlementStock
  split
  · exact h
  · split
    · exact h
    · exact ⟨h.1, h.2.1, le_refl _⟩
    · exact ⟨h.1, h.2.1, le_refl _⟩

theorem applyTradeFuture_frame (c : InsCfg) (p : Pos) (t : TradeIn) :
    (p.applyTradeFuture c t).1.isLong = p.isLong ∧ (p.applyTradeFuture c t).1.nonClosable = p.nonClosable := by
  obtain ⟨price, q, eff, fee⟩ := t
  unfold Pos.applyTradeFuture Pos.applyTradeBase
  cases eff <;> simp

theorem settlementFuture_ok (b : Bool) (c : InsCfg) (p : Pos) (s : Option R) (e : Bool) (h : POk b p) :
    POk b (p.settlementFuture c s e).1 := by
  unfold Pos.settlementFuture
  split
  · exact h
  · extract_lets p1 delta p2 t p3
    have h1 : POk b p1 := by
      show POk b (match s with | some s => { p with last := s } | none => p)
      split
      · exact h
      · exact h
    split
    · have := applyTradeFuture_frame c p2 t
      exact ⟨this.1.trans h1.1, by show 0 ≤ p3.nonClosable; rw [this.2]; exact h1.2.1, le_refl _⟩
    · exact h1

theorem stH_ok (w : World) (k : Nat) (i : STInput) (h : Holding) (hok : HWF1 w k h ∧ HQ w [] k h) :
    HWF1 w k (stH i h) ∧ HQ w [] k (stH i h) := by
  rw [hok_iff] at hok ⊢
  obtain ⟨h1, h2, h3⟩ := hok
  unfold stH
  split
  · exact ⟨h1, settlementFuture_ok _ _ _ _ _ h2, settlementFuture_ok _ _ _ _ _ h3⟩
  · exact ⟨h1, settlementStock_ok _ _ _ h2, settlementStock_ok _ _ _ h3⟩

theorem stH_ins (i : STInput) (h : Holding) : (stH i h).ins = h.ins := by unfold stH; split <;> rfl

theorem Inv_settlement {w : World} (k : Nat) (i : STInput) (hinv : Inv w []) : Inv (w.apply k (.settlement i)) [] := by
  refine Inv_apply k _ hinv hinv.2.2 (fun _ _ _ => le_refl _) (Retains.of_subset (fun _ h => h)) (fun a _ h => ⟨?_, Or.inl rfl⟩)
  show AInv w [] k (a.onSettlement i).holdings
  rcases onSettlement_holdings a i with e | e
  · rw [e]; exact AInv_nil _ _ _
  · rw [e]
    exact AInv_map (stH i) h (fun x _ => stH_ins i x) (fun x _ hw hq => stH_ok w k i x ⟨hw, hq⟩)

theorem settlement_inv (w : World) (hinv : Inv w []) : Inv w.settlement [] := by
  unfold World.settlement
  exact foldl_pred (fun w' => Inv w' []) _ (fun w' k hp => Inv_settlement k _ hp) _ w hinv

/-! ### one input, a whole run -/

theorem finish (w w' : World) (hv : ValidatorsOn w) (hi : InsWF w) (henv : Env w w') (hg : Good w') (hn : IdsNodup w') :
    CloseInv w' ∧ HoldingsWF w' ∧ BooksWF w' ∧ IdsNodup w' ∧ ValidatorsOn w' := by
  have hi' : InsWF w' := by unfold InsWF; rw [henv.1]; exact hi
  have hv' : ValidatorsOn w' := by unfold ValidatorsOn; rw [henv.1]; exact hv
  obtain ⟨h1, h2⟩ := of_inv w' hg.1 hi'
  exact ⟨h1, h2, hg.2, hn, hv'⟩

theorem finish_res (w w' : World) (hv : ValidatorsOn w) (hi : InsWF w) (hn : IdsNodup w) (hr : StepRes w w') :
    CloseInv w' ∧ HoldingsWF w' ∧ BooksWF w' ∧ IdsNodup w' ∧ ValidatorsOn w' :=
  finish w w' hv hi hr.2.2 hr.1 (List.Nodup.sublist hr.2.1 hn)

/-- one input keeps the invariant -/
theorem step_closeInv (w : World) (i : WIn) (hv : ValidatorsOn w) (hwf : HoldingsWF w) (hb : RQ.Lemmas.WorldC.BooksWF w)
    (hn : RQ.Lemmas.WorldC.IdsNodup w) (hinv : CloseInv w) (hi : StepOk w i) :
    CloseInv (w.step i).1 ∧ HoldingsWF (w.step i).1 ∧ RQ.Lemmas.WorldC.BooksWF (w.step i).1 ∧ RQ.Lemmas.WorldC.IdsNodup (w.step i).1 ∧
    ValidatorsOn (w.step i).1 := by
  have hg : Good w := ⟨inv_of w hwf hinv hb, hb⟩
  have hiw : InsWF w := hwf.2.2
  cases i with
  | preBeforeTrading today tax mkt =>
    obtain ⟨ho, ha, hs, _⟩ := hi
    refine finish_res w _ hv hiw hn (Good_of_same (RQ.Lemmas.WorldC.preBeforeTrading_Same w today tax mkt) hg ?_)
    have h0 := hg.1
    rw [ho, ha] at h0 ⊢
    exact preBeforeTrading_inv w today tax mkt h0 hs
  | beforeTrading => exact finish_res w _ hv hiw hn (beforeTrading_res w hg)
  | openAuction =>
    exact finish_res w _ hv hiw hn (Good_of_same (Same.of_pf rfl ⟨rfl, rfl, rfl⟩ rfl rfl) hg
      (Inv_frame hg.1 ⟨rfl, rfl, rfl⟩ rfl))
  | barData rows =>
    exact finish_res w _ hv hiw hn (Good_of_same (Same.of_pf rfl ⟨rfl, rfl, rfl⟩ rfl rfl) hg
      (Inv_frame hg.1 ⟨rfl, rfl, rfl⟩ rfl))
  | bar => exact finish_res w _ hv hiw hn (onBar_res w hg)
  | afterTrading => exact finish_res w _ hv hiw hn (afterTrading_res w hg)
  | settlement =>
    obtain ⟨ho, ha⟩ := hi
    refine finish_res w _ hv hiw hn (Good_of_same (RQ.Lemmas.WorldC.settlement_Same w) hg ?_)
    have h0 := hg.1
    rw [ho, ha] at h0 ⊢
    exact settlement_inv w h0
  | submit o =>
    obtain ⟨h1, h2, h3⟩ := submit_res w o hv hg hn hi.1 hi.2
    exact finish w _ hv hiw h3 h1 h2
  | cancel id => exact finish_res w _ hv hiw hn (cancel_res w id hg)
  | deposit k amount recv => exact finish_res w _ hv hiw hn (deposit_res w k amount recv hg)
  | finance k amount => exact finish_res w _ hv hiw hn (finance_res w k amount hg)

/-- a whole run keeps everything one input keeps -/
theorem run_all (w : World) (ins : List WIn) (hv : ValidatorsOn w) (hwf : HoldingsWF w) (hb : RQ.Lemmas.WorldC.BooksWF w)
    (hn : RQ.Lemmas.WorldC.IdsNodup w) (hinv : CloseInv w) (hok : RunOk w ins) :
    CloseInv (w.run ins).1 ∧ HoldingsWF (w.run ins).1 ∧ RQ.Lemmas.WorldC.BooksWF (w.run ins).1 ∧
      RQ.Lemmas.WorldC.IdsNodup (w.run ins).1 ∧ ValidatorsOn (w.run ins).1 := by
  induction ins generalizing w with
  | nil => exact ⟨hinv, hwf, hb, hn, hv⟩
  | cons i rest ih =>
    obtain ⟨h1, h2, h3, h4, h5⟩ := step_closeInv w i hv hwf hb hn hinv hok.1
    have := ih (w.step i).1 h5 h2 h3 h4 h1 hok.2
    rcases hs : w.step i with ⟨w1, e1⟩
    rw [hs] at this
    rcases hr : w1.run rest with ⟨w2, e2⟩
    rw [hr] at this
    simp only [World.run, hs, hr]
    exact this

/-- **every reachable state** -/
theorem run_closeInv (w : World) (ins : List WIn) (hv : ValidatorsOn w) (hwf : HoldingsWF w) (hb : RQ.Lemmas.WorldC.BooksWF w)
    (hn : RQ.Lemmas.WorldC.IdsNodup w) (hinv : CloseInv w) (hok : RunOk w ins) :
    CloseInv (w.run ins).1 := (run_all w ins hv hwf hb hn hinv hok).1

/-- corollary: no position quantity of any account is ever negative -/
theorem run_qty_nonneg (w : World) (ins : List WIn) (hv : ValidatorsOn w) (hwf : HoldingsWF w) (hb : RQ.Lemmas.WorldC.BooksWF w)
    (hn : RQ.Lemmas.WorldC.IdsNodup w) (hinv : CloseInv w) (hok : RunOk w ins) :
    ∀ (k : Nat) (a : Acct), (w.run ins).1.pf.accounts[k]? = some a → ∀ h ∈ a.holdings, 0 ≤ h.long.qty ∧ 0 ≤ h.short.qty := by
  obtain ⟨h1, _, h3, _, _⟩ := run_all w ins hv hwf hb hn hinv hok
  intro k a ha h hh
  have hL : ∀ o ∈ (w.run ins).1.openOrders ++ (w.run ins).1.auctionOrders, 0 ≤ o.unfilled := by
    intro o ho
    have := h3 o ho
    unfold Ord.unfilled; omega
  have := h1 k a ha h hh
  rw [restingClose_eq, restingClose_eq] at this
  have n1 := closeSum_nonneg (w.run ins).1 k h.ins true _ hL
  have n2 := closeSum_nonneg (w.run ins).1 k h.ins false _ hL
  omega

end RQ.Lemmas.WorldE

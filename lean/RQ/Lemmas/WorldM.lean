/-
World-level lemmas, part M (liquidity cap, C06.3 at whole-system level): with volume_limit on, in every daily back-test the quantity filled on
an instrument since the matcher's accumulator was last cleared — everything that filled in today's opening auction, resp. in today's bar,
whoever sent it and whenever — never exceeds the configured fraction of the volume in force.
-/
import RQ.Model.World
import RQ.Lemmas.WorldB
import RQ.Lemmas.WorldF
import Mathlib.Tactic.SplitIfs
import Mathlib.Tactic.Linarith

namespace RQ.Lemmas.WorldM
open RQ.Q
open RQ.Lemmas.WorldF (Day)

/-- the cap of a bar: `round(volume × volume_percent)` (half-even, as Python's `round`) -/
def cap (w : World) (v : R) : Int := R.roundI (v * w.cfg.volumePercent)

/-- the volume the matcher reads for an instrument in the present phase (auction: the auction volume; otherwise the bar's) -/
def volumeInForce (w : World) (ins : Nat) : Option R :=
  (w.dayOf ins).bind (fun d => if w.phase == .auction then d.auc.volume else d.bar.volume)

/-- **the invariant** (while orders can be matched: auction and bar phase): the accumulator of every instrument whose volume is known is
either still empty or within the cap -/
def TurnoverOk (w : World) : Prop :=
  (w.phase = .auction ∨ w.phase = .bar) →
    ∀ (ins : Nat) (v : R), volumeInForce w ins = some v → w.turnoverOf ins = 0 ∨ w.turnoverOf ins ≤ cap w v

/-- static well-formedness: lots are positive, and the volume limit is switched on -/
def CfgOk (w : World) : Prop := w.cfg.volumeLimit = true ∧ ∀ wi ∈ w.cfg.instruments, 0 < wi.cfg.lot

/-! ### helpers: what account operations, cost deciders and announcements leave alone -/

open RQ.Lemmas.WorldB RQ.Lemmas.WorldF

/-- configuration, market table, accumulators and phase are the same -/
def Keep (w w' : World) : Prop := w'.cfg = w.cfg ∧ w'.mkt = w.mkt ∧ w'.turnover = w.turnover ∧ w'.phase = w.phase

theorem keep_refl (w : World) : Keep w w := ⟨rfl, rfl, rfl, rfl⟩

theorem keep_trans {a b c : World} (h1 : Keep a b) (h2 : Keep b c) : Keep a c :=
  ⟨h2.1.trans h1.1, h2.2.1.trans h1.2.1, h2.2.2.1.trans h1.2.2.1, h2.2.2.2.trans h1.2.2.2⟩

theorem apply_keep (w : World) (k : Nat) (op : AcctOp) : Keep w (w.apply k op) := by
  unfold World.apply; split <;> exact ⟨rfl, rfl, rfl, rfl⟩

theorem setCommRem_keep (w : World) (key : Option Nat × Nat) (v : R) : Keep w (w.setCommRem key v) := by
  unfold World.setCommRem; split_ifs <;> exact ⟨rfl, rfl, rfl, rfl⟩

theorem tradeFee_keep (w : World) (wi : WIns) (oid : Option Nat) (isBuy : Bool) (e : Effect) (q : Int) (p : R) (ct : Int) :
    Keep w (w.tradeFee wi oid isBuy e q p ct).2 := by
  unfold World.tradeFee
  split_ifs
  · exact keep_refl w
  · exact setCommRem_keep _ _ _

theorem announce_keep (w : World) (o : Ord) : Keep w (w.announce o) := by
  unfold World.announce
  split
  · exact apply_keep _ _ _
  · exact keep_refl w

theorem foldl_keep {α : Type} (f : World → α → World) (hf : ∀ w x, Keep w (f w x)) (l : List α) (w : World) :
    Keep w (l.foldl f w) := by
  induction l generalizing w with
  | nil => exact keep_refl w
  | cons x xs ih => exact keep_trans (hf w x) (ih (f w x))

theorem reinvestFees_keep (w : World) (a : Acct) : Keep w (w.reinvestFees a).2 := by
  unfold World.reinvestFees
  suffices h : ∀ (l : List Holding) (acc : List (Nat × R) × World), Keep w acc.2 → Keep w (l.foldl _ acc).2 from
    h _ _ (keep_refl w)
  intro l
  induction l with
  | nil => intro acc h; exact h
  | cons x xs ih =>
    intro acc h
    rw [List.foldl_cons]
    apply ih
    split
    · exact h
    · split
      · dsimp only
        split
        · exact keep_trans h (tradeFee_keep _ _ _ _ _ _ _ _)
        · exact h
      · exact h

/-! ### the accumulator -/

/-- the accumulator entry of an instrument in a table -/
def tOf (l : List (Nat × Int)) (i : Nat) : Int := match l.find? (·.1 == i) with | some x => x.2 | none => 0

theorem turnoverOf_eq (w : World) (i : Nat) : w.turnoverOf i = tOf w.turnover i := rfl

theorem turnoverOf_congr {w w' : World} (h : w'.turnover = w.turnover) (i : Nat) : w'.turnoverOf i = w.turnoverOf i := by
  rw [turnoverOf_eq, turnoverOf_eq, h]

theorem tOf_nil (i : Nat) : tOf [] i = 0 := rfl

theorem tOf_cons (x : Nat × Int) (xs : List (Nat × Int)) (i : Nat) : tOf (x :: xs) i = if x.1 == i then x.2 else tOf xs i := by
  unfold tOf
  rw [List.find?_cons]
  cases x.1 == i <;> rfl

theorem tOf_map_self (l : List (Nat × Int)) (ins : Nat) (q : Int) (h : l.any (·.1 == ins) = true) :
    tOf (l.map (fun x => if x.1 == ins then (x.1, x.2 + q) else x)) ins = tOf l ins + q := by
  induction l with
  | nil => simp at h
  | cons x xs ih =>
    rw [List.map_cons, tOf_cons, tOf_cons]
    by_cases hx : (x.1 == ins) = true
    · simp only [hx, if_true]
    · have hany : xs.any (·.1 == ins) = true := by simpa [hx] using h
      have := ih hany
      simpa [hx] using this

theorem tOf_map_ne (l : List (Nat × Int)) (ins i : Nat) (q : Int) (h : i ≠ ins) :
    tOf (l.map (fun x => if x.1 == ins then (x.1, x.2 + q) else x)) i = tOf l i := by
  induction l with
  | nil => rfl
  | cons x xs ih =>
    rw [List.map_cons, tOf_cons, tOf_cons, ih]
    by_cases hins : (x.1 == ins) = true
    · have hne : (x.1 == i) = false := by
        have : x.1 = ins := by simpa using hins
        simpa [this] using (Ne.symm h)
      simp [hins, hne]
    · simp [hins]

theorem tOf_append_self (l : List (Nat × Int)) (ins : Nat) (q : Int) (h : ¬ l.any (·.1 == ins) = true) :
    tOf (l ++ [(ins, q)]) ins = tOf l ins + q := by
  have hn : l.find? (·.1 == ins) = none := by
    rw [List.find?_eq_none]
    intro x hx hx'
    exact h (List.any_eq_true.mpr ⟨x, hx, hx'⟩)
  simp [tOf, List.find?_append, hn]

theorem tOf_append_ne (l : List (Nat × Int)) (ins i : Nat) (q : Int) (h : i ≠ ins) :
    tOf (l ++ [(ins, q)]) i = tOf l i := by
  have hne : (ins == i) = false := by simpa using (Ne.symm h)
  simp only [tOf, List.find?_append, List.find?_cons, hne, List.find?_nil]
  cases l.find? (·.1 == i) <;> rfl

theorem addTurnover_self (w : World) (ins : Nat) (q : Int) : (w.addTurnover ins q).turnoverOf ins = w.turnoverOf ins + q := by
  unfold World.addTurnover
  split_ifs with h
  · exact tOf_map_self _ _ _ h
  · exact tOf_append_self _ _ _ h

theorem addTurnover_ne (w : World) (ins i : Nat) (q : Int) (h : i ≠ ins) : (w.addTurnover ins q).turnoverOf i = w.turnoverOf i := by
  unfold World.addTurnover
  split_ifs
  · exact tOf_map_ne _ _ _ _ h
  · exact tOf_append_ne _ _ _ _ h

theorem addTurnover_rest (w : World) (ins : Nat) (q : Int) :
    (w.addTurnover ins q).cfg = w.cfg ∧ (w.addTurnover ins q).mkt = w.mkt ∧ (w.addTurnover ins q).phase = w.phase := by
  unfold World.addTurnover
  split_ifs <;> exact ⟨rfl, rfl, rfl⟩

/-! ### one matcher call -/

theorem matchPost_fill {cfg : MCfg} {ic : InsCfg} {o : Ord} {f : Int} {price cpi fee : R} {ct q : Int} {p : R} {c : Int} {cr : Bool}
    (h : matchPost cfg ic o f price cpi fee ct = .fill q p c cr) : q = f := by
  unfold matchPost at h
  dsimp only at h
  split at h
  · cases h
  · split_ifs at h
    cases h
    rfl

/-- the fill the matcher decides on stays below what is left of the cap -/
theorem matchPre_bound {cfg : MCfg} {ic : InsCfg} {o : Ord} {b : MBar} {oa : Bool} {tv f : Int} {price v : R}
    (hvl : cfg.volumeLimit = true) (hv : b.volume = some v) (h : matchPre cfg ic o b oa tv = .inr (f, price)) :
    tv + f ≤ R.roundI (v * cfg.volumePercent) := by
  unfold matchPre at h
  rw [hvl, hv] at h
  dsimp only at h
  have key : ¬ ((R.roundI (v * cfg.volumePercent) - tv) / ic.lot * ic.lot ≤ 0) →
      tv + min o.unfilled ((R.roundI (v * cfg.volumePercent) - tv) / ic.lot * ic.lot) ≤ R.roundI (v * cfg.volumePercent) := by
    intro hl
    have hL : ic.lot ≠ 0 := by
      intro h0
      rw [h0] at hl
      simp at hl
    have h1 := Int.ediv_mul_le (R.roundI (v * cfg.volumePercent) - tv) hL
    have h2 := min_le_right o.unfilled ((R.roundI (v * cfg.volumePercent) - tv) / ic.lot * ic.lot)
    linarith
  split at h
  · cases h
  · split at h
    · cases h
    · split_ifs at h <;> dsimp only at h <;> (try split at h) <;> (try cases h) <;>
        first | exact key (by assumption) | exact absurd rfl (by assumption)

/-- what one matcher call does to the world: nothing to configuration, market table and phase; the accumulator of the order's instrument
grows by the fill the matcher decided on, or nothing happens to the accumulators -/
theorem matchOne_char (w : World) (auction : Bool) (o : Ord) :
    Keep w (w.matchOne auction o).1 ∨
    ∃ wi d f price w2, w.cfg.find o.ins = some wi ∧ w.dayOf o.ins = some d ∧
      matchPre (w.mcfg wi) wi.cfg o (if auction then d.auc else d.bar) auction (w.turnoverOf o.ins) = .inr (f, price) ∧
      Keep w w2 ∧ Keep (w2.addTurnover o.ins f) (w.matchOne auction o).1 := by
  generalize hres : w.matchOne auction o = res
  unfold World.matchOne at hres
  split at hres
  · subst hres; left; exact keep_refl w
  · split at hres
    · subst hres; left; exact keep_refl w
    · split at hres
      · rename_i wi d hwi hd
        split at hres
        · subst hres; left; exact keep_refl w
        · rename_i k hk
          dsimp only at hres
          split at hres
          · subst hres; left; exact keep_refl w
          · rename_i f price hpre
            split at hres
            · rename_i q p c cr hpost
              have hq := matchPost_fill hpost
              subst hq
              subst hres
              right
              exact ⟨wi, d, q, price, _, hwi, hd, hpre, keep_trans (apply_keep _ _ _) (tradeFee_keep _ _ _ _ _ _ _ _),
                apply_keep _ _ _⟩
            · subst hres
              left
              exact keep_trans (apply_keep _ _ _) (tradeFee_keep _ _ _ _ _ _ _ _)
      · subst hres; left; exact keep_refl w

/-- one matcher call keeps the accumulator within the cap (the market table and the phase are not changed by it) -/
theorem matchOne_turnoverOk (w : World) (auction : Bool) (o : Ord) (hc : CfgOk w) (hph : w.phase = (if auction then .auction else .bar) ∨ True)
    (h : ∀ (v : R), ((w.dayOf o.ins).bind (fun d => if auction then d.auc.volume else d.bar.volume)) = some v →
          w.turnoverOf o.ins = 0 ∨ w.turnoverOf o.ins ≤ cap w v) :
    ∀ (v : R), ((w.dayOf o.ins).bind (fun d => if auction then d.auc.volume else d.bar.volume)) = some v →
      (w.matchOne auction o).1.turnoverOf o.ins = 0 ∨ (w.matchOne auction o).1.turnoverOf o.ins ≤ cap w v := by
  intro v hv
  rcases matchOne_char w auction o with hk | ⟨wi, d, f, price, w2, hwi, hd, hpre, hk2, hk3⟩
  · rw [turnoverOf_congr hk.2.2.1]; exact h v hv
  · right
    rw [turnoverOf_congr hk3.2.2.1, addTurnover_self, turnoverOf_congr hk2.2.2.1]
    rw [hd] at hv
    have hb : (if auction then d.auc else d.bar).volume = some v := by
      cases auction <;> simpa using hv
    exact matchPre_bound (cfg := w.mcfg wi) hc.1 hb hpre

/-- the accumulators of the other instruments are not touched -/
theorem matchOne_other (w : World) (auction : Bool) (o : Ord) (i : Nat) (hi : i ≠ o.ins) :
    (w.matchOne auction o).1.turnoverOf i = w.turnoverOf i := by
  rcases matchOne_char w auction o with hk | ⟨wi, d, f, price, w2, hwi, hd, hpre, hk2, hk3⟩
  · exact turnoverOf_congr hk.2.2.1 i
  · rw [turnoverOf_congr hk3.2.2.1, addTurnover_ne _ _ _ _ hi, turnoverOf_congr hk2.2.2.1]

theorem matchOne_rest (w : World) (auction : Bool) (o : Ord) :
    (w.matchOne auction o).1.cfg = w.cfg ∧ (w.matchOne auction o).1.mkt = w.mkt := by
  rcases matchOne_char w auction o with hk | ⟨wi, d, f, price, w2, hwi, hd, hpre, hk2, hk3⟩
  · exact ⟨hk.1, hk.2.1⟩
  · have ha := addTurnover_rest w2 o.ins f
    exact ⟨hk3.1.trans (ha.1.trans hk2.1), hk3.2.1.trans (ha.2.1.trans hk2.2.1)⟩

/-! ### the invariant of a daily run whose auction bar carries the day's volume -/

/-- every market row has the same volume in its auction bar and in its day bar (the daily data source builds the auction bar from
the day bar) -/
def VolEq (w : World) : Prop := ∀ r ∈ w.mkt, r.auc.volume = r.bar.volume

def Static (w : World) : Prop := w.cfg.daily = true ∧ CfgOk w ∧ VolEq w

/-- the accumulators are within the cap of the day's volume, whatever the phase -/
def Capped (w : World) : Prop :=
  ∀ (ins : Nat) (v : R), (w.dayOf ins).bind (fun d => d.bar.volume) = some v → w.turnoverOf ins = 0 ∨ w.turnoverOf ins ≤ cap w v

def P (w : World) : Prop := Static w ∧ Capped w

theorem dayOf_congr {w w' : World} (h : w'.mkt = w.mkt) (i : Nat) : w'.dayOf i = w.dayOf i := by
  unfold World.dayOf; rw [h]

theorem static_congr {w w' : World} (hc : w'.cfg = w.cfg) (hm : w'.mkt = w.mkt) (h : Static w) : Static w' := by
  unfold Static CfgOk VolEq at *
  rw [hc, hm]; exact h

theorem capped_congr {w w' : World} (hc : w'.cfg = w.cfg) (hm : w'.mkt = w.mkt) (ht : w'.turnover = w.turnover) (h : Capped w) :
    Capped w' := by
  intro ins v hv
  rw [dayOf_congr hm] at hv
  rw [turnoverOf_congr ht]
  have : cap w' v = cap w v := by unfold cap; rw [hc]
  rw [this]; exact h ins v hv

theorem P_congr {w w' : World} (hc : w'.cfg = w.cfg) (hm : w'.mkt = w.mkt) (ht : w'.turnover = w.turnover) (h : P w) : P w' :=
  ⟨static_congr hc hm h.1, capped_congr hc hm ht h.2⟩

theorem P_keep {w w' : World} (hk : Keep w w') (h : P w) : P w' := P_congr hk.1 hk.2.1 hk.2.2.1 h

theorem capped_of_nil {w : World} (ht : w.turnover = []) : Capped w := fun ins v _ => Or.inl (by rw [turnoverOf_eq, ht]; rfl)

theorem vol_bind {w : World} (hv : VolEq w) (auction : Bool) (i : Nat) :
    (w.dayOf i).bind (fun d => if auction then d.auc.volume else d.bar.volume) = (w.dayOf i).bind (fun d => d.bar.volume) := by
  cases hd : w.dayOf i with
  | none => rfl
  | some d =>
    have hm : d ∈ w.mkt := List.mem_of_find?_eq_some hd
    cases auction
    · rfl
    · simp [hv d hm]

theorem P_turnoverOk {w : World} (h : P w) : TurnoverOk w := by
  intro _ ins v hv
  apply h.2 ins v
  unfold volumeInForce at hv
  rw [← vol_bind h.1.2.2 (w.phase == .auction)]; exact hv

theorem matchOne_P (w : World) (auction : Bool) (o : Ord) (h : P w) : P (w.matchOne auction o).1 := by
  obtain ⟨hs, hcap⟩ := h
  have hr := matchOne_rest w auction o
  refine ⟨static_congr hr.1 hr.2 hs, ?_⟩
  intro ins v hv
  rw [dayOf_congr hr.2] at hv
  have hcapeq : cap (w.matchOne auction o).1 v = cap w v := by unfold cap; rw [hr.1]
  rw [hcapeq]
  by_cases hi : ins = o.ins
  · subst hi
    rw [← vol_bind hs.2.2 auction] at hv
    exact matchOne_turnoverOk w auction o hs.2.1 (Or.inr trivial)
      (fun v' hv' => hcap _ v' (by rw [← vol_bind hs.2.2 auction]; exact hv')) v hv
  · rw [matchOne_other w auction o ins hi]; exact hcap ins v hv

theorem matchList_P (w : World) (auction : Bool) (l : List Ord) (h : P w) : P (w.matchList auction l).1 := by
  induction l generalizing w with
  | nil => exact h
  | cons o rest ih =>
    unfold World.matchList
    exact ih _ (matchOne_P w auction o h)

theorem matchRound_P (w : World) (h : P w) : P w.matchRound.1 := by
  unfold World.matchRound
  rcases h1 : w.matchList false w.openOrders with ⟨w1, r1, e1⟩
  dsimp only
  rcases h2 : w1.matchList true w1.auctionOrders with ⟨w2, r2, e2⟩
  dsimp only
  have g1 : P w1 := by have := matchList_P w false w.openOrders h; rwa [h1] at this
  have g2 : P w2 := by have := matchList_P w1 true w1.auctionOrders g1; rwa [h2] at this
  exact P_congr rfl rfl rfl (P_keep (foldl_keep _ announce_keep _ w2) g2)

theorem submit_P (w : World) (o : OrderReq) (h : P w) : P (w.submit o).1 := by
  unfold World.submit
  split
  · split
    · exact h
    · extract_lets fp init w1 ord w2
      split
      · exact h
      · have hw1 : P w1 := P_keep (apply_keep _ _ _) h
        have hw2 : P w2 := by
          show P (if w1.phase == .auction then _ else _)
          split_ifs <;> exact P_congr rfl rfl rfl hw1
        split_ifs
        · exact matchRound_P w2 hw2
        · exact hw2
  · exact h

theorem cancel_P (w : World) (id : Nat) (h : P w) : P (w.cancel id).1 := by
  unfold World.cancel
  split
  · exact h
  · exact P_congr rfl rfl rfl (P_keep (announce_keep _ _) h)

theorem deposit_P (w : World) (k : Nat) (amount : R) (recv : Option Nat) (h : P w) : P (w.deposit k amount recv).1 := by
  unfold World.deposit
  split
  · split
    · exact h
    · split
      · exact P_congr rfl rfl rfl (P_keep (apply_keep _ _ _) h)
      · exact h
  · exact h

theorem onBar_P (w : World) (h : Static w) : P w.onBar.1 := by
  unfold World.onBar
  dsimp only
  apply matchRound_P
  have hk := foldl_keep (fun (w : World) (k : Nat) => w.apply k (.bar w.barPrices)) (fun w k => apply_keep _ _ _)
    (List.range w.pf.accounts.length) { w with phase := .bar }
  exact ⟨static_congr hk.1 hk.2.1 h, capped_of_nil rfl⟩

theorem afterTrading_P (w : World) (h : P w) : P w.afterTrading.1 := by
  unfold World.afterTrading
  exact P_congr rfl rfl rfl (P_keep (foldl_keep _ announce_keep _ _) (P_congr (w := w) rfl rfl rfl h))

theorem settlement_P (w : World) (h : P w) : P w.settlement := by
  unfold World.settlement
  exact P_keep (foldl_keep _ (fun w k => apply_keep _ _ _) _ _) h

/-- the inputs that neither replace nor patch the market table -/
def Tame : WIn → Prop
  | .preBeforeTrading _ _ _ => False
  | .barData _ => False
  | _ => True

theorem step_P (w : World) (i : WIn) (ht : Tame i) (h : P w) : P (w.step i).1 := by
  cases i with
  | preBeforeTrading _ _ _ => exact ht.elim
  | barData _ => exact ht.elim
  | beforeTrading => exact ⟨static_congr (w := w) rfl rfl h.1, capped_of_nil rfl⟩
  | openAuction => exact P_congr (w := w) rfl rfl rfl h
  | bar => exact onBar_P w h.1
  | afterTrading => exact afterTrading_P w h
  | settlement => exact settlement_P w h
  | submit o => exact submit_P w o h
  | cancel id => exact cancel_P w id h
  | deposit k amount recv => exact deposit_P w k amount recv h
  | finance k amount => exact P_keep (apply_keep _ _ _) h

theorem run_P (w : World) (l : List WIn) (ht : ∀ i ∈ l, Tame i) (h : P w) : P (w.run l).1 := by
  induction l generalizing w with
  | nil => exact h
  | cons x xs ih =>
    rw [run_cons_fst]
    exact ih _ (fun i hi => ht i (List.mem_cons_of_mem _ hi)) (step_P w x (ht x List.mem_cons_self) h)

theorem preBT_facts (w : World) (today : Nat) (tax : R) (mkt : List DayIns) :
    (w.preBeforeTrading today tax mkt).cfg = w.cfg ∧ (w.preBeforeTrading today tax mkt).mkt = mkt ∧
    (w.preBeforeTrading today tax mkt).phase = .before := by
  unfold World.preBeforeTrading
  dsimp only
  refine (fun hk => ⟨hk.1, hk.2.1, hk.2.2.2⟩) (foldl_keep _ ?_ _ _)
  intro w k
  split
  · exact keep_trans (reinvestFees_keep _ _) (apply_keep _ _ _)
  · exact keep_refl w

/-! ### one day, every day -/

theorem day_inputs_eq (d : Day) : d.inputs = WIn.preBeforeTrading d.today d.tax d.mkt :: WIn.beforeTrading ::
    (WIn.openAuction :: (d.aucCalls ++ [WIn.bar] ++ d.barCalls ++ [WIn.afterTrading, WIn.settlement])) := by
  simp [Day.inputs]

theorem isCall_tame (i : WIn) (h : IsCall i) : Tame i := by
  cases i <;> first | exact h.elim | trivial

theorem day_tail_tame (d : Day) (hc : d.CallsOnly) :
    ∀ i ∈ (WIn.openAuction :: (d.aucCalls ++ [WIn.bar] ++ d.barCalls ++ [WIn.afterTrading, WIn.settlement])), Tame i := by
  intro i hi
  simp only [List.mem_cons, List.mem_append, List.not_mem_nil, or_false] at hi
  rcases hi with rfl | ((h | rfl) | h) | rfl | rfl
  · trivial
  · exact isCall_tame i (hc i (List.mem_append.mpr (Or.inl h)))
  · trivial
  · exact isCall_tame i (hc i (List.mem_append.mpr (Or.inr h)))
  · trivial
  · trivial

theorem day_start_P (w : World) (d : Day) (hv : ∀ r ∈ d.mkt, r.auc.volume = r.bar.volume) (hcfg : CfgOk w)
    (hd : w.cfg.daily = true) :
    (w.step (.preBeforeTrading d.today d.tax d.mkt)).1.phase = .before ∧
    P ((w.step (.preBeforeTrading d.today d.tax d.mkt)).1.step .beforeTrading).1 := by
  obtain ⟨h1, h2, h3⟩ := preBT_facts w d.today d.tax d.mkt
  refine ⟨h3, ?_, capped_of_nil rfl⟩
  show Static (w.preBeforeTrading d.today d.tax d.mkt)
  unfold Static CfgOk VolEq
  rw [h1, h2]
  exact ⟨hd, hcfg, hv⟩

theorem day_turnoverOk (w : World) (d : Day) (hc : d.CallsOnly) (hv : ∀ r ∈ d.mkt, r.auc.volume = r.bar.volume) (hcfg : CfgOk w)
    (hd : w.cfg.daily = true) (h0 : TurnoverOk w) :
    (∀ pre post, d.inputs = pre ++ post → TurnoverOk (w.run pre).1) ∧ P (w.run d.inputs).1 := by
  obtain ⟨hph, hP⟩ := day_start_P w d hv hcfg hd
  have htame := day_tail_tame d hc
  constructor
  · intro pre post hsplit
    rw [day_inputs_eq] at hsplit
    match pre, hsplit with
    | [], _ => exact h0
    | [x], hs =>
      simp only [List.cons_append, List.nil_append, List.cons.injEq] at hs
      obtain ⟨rfl, _⟩ := hs
      rw [run_cons_fst, run_nil_fst]
      intro hp
      rw [hph] at hp
      rcases hp with hp | hp <;> cases hp
    | x :: y :: pre', hs =>
      simp only [List.cons_append, List.cons.injEq] at hs
      obtain ⟨rfl, rfl, htail⟩ := hs
      rw [run_cons_fst, run_cons_fst]
      apply P_turnoverOk
      apply run_P _ _ _ hP
      intro i hi
      exact htame i (by rw [htail]; exact List.mem_append_left _ hi)
  · rw [day_inputs_eq, run_cons_fst, run_cons_fst]
    exact run_P _ _ htame hP

theorem days_turnoverOk (days : List Day) : ∀ (w : World), (∀ d ∈ days, d.CallsOnly) →
    (∀ d ∈ days, ∀ r ∈ d.mkt, r.auc.volume = r.bar.volume) → CfgOk w → w.cfg.daily = true → TurnoverOk w →
    ∀ (pre post : List WIn), days.flatMap Day.inputs = pre ++ post → TurnoverOk (w.run pre).1 := by
  induction days with
  | nil =>
    intro w _ _ _ _ h0 pre post hsplit
    have : pre = [] := by
      cases pre with
      | nil => rfl
      | cons x xs => simp at hsplit
    subst this
    exact h0
  | cons d ds ih =>
    intro w hc hvol hcfg hd h0 pre post hsplit
    rw [List.flatMap_cons] at hsplit
    obtain ⟨hday, hP⟩ := day_turnoverOk w d (hc d List.mem_cons_self) (hvol d List.mem_cons_self) hcfg hd h0
    rcases List.append_eq_append_iff.mp hsplit with ⟨a', rfl, hrest⟩ | ⟨c', hin, _⟩
    · rw [run_append_fst]
      exact ih _ (fun x hx => hc x (List.mem_cons_of_mem _ hx)) (fun x hx => hvol x (List.mem_cons_of_mem _ hx))
        hP.1.2.1 hP.1.1 (P_turnoverOk hP) a' post hrest
    · exact hday pre c' hin


/-
DROPPED (false as stated): `days_turnover_within_cap`

  theorem days_turnover_within_cap (w : World) (days : List Day) (hc : ∀ d ∈ days, d.CallsOnly) (hcfg : CfgOk w)
      (hd : w.cfg.daily = true) (ht : w.turnover = []) (pre post : List WIn) (hsplit : days.flatMap Day.inputs = pre ++ post) :
      TurnoverOk (w.run pre).1

`World.matchRound` matches what rests in the AUCTION book with `auction = true`, i.e. against `d.auc.volume`, also when it runs in the
bar phase (`onBar`), and adds the fills to the same per-instrument accumulator; `TurnoverOk` compares the accumulator in the bar phase
with the cap of `d.bar.volume`.  When `matchImmediately = false` an order sent in `open_auction` rests in the auction book until the
BAR event; if the day's auction volume exceeds the bar volume the fill exceeds the bar's cap.  Counterexample (checked with `#eval` and by the kernel, see
`days_turnover_within_cap_counterexample` below): one stock, lot 100, `volumePercent = 1/4`, auction volume 1000 (cap 250), bar volume
100 (cap 25), a market buy of 200 submitted in `open_auction`; after `[preBeforeTrading, beforeTrading, openAuction, submit, bar]` the
phase is `.bar`, the accumulator is 200 and the cap in force is 25.

Corrected statement, proved below as `days_turnover_within_cap_partial`: the same conclusion under the extra hypothesis that every
market row of every day has `auc.volume = bar.volume` (this is how the daily data source builds the auction bar).
-/

/-! ### the counterexample to the dropped statement -/

namespace CE

def ic : InsCfg := { isFuture := false, mult := 1, marginRatio := 1, marginMult := 1, tplus := true, lot := 100 }
def wi : WIns := { ins := 1, cfg := ic, isCS := true, typeKey := 0, tick := 1/100,
                   futCost := { byMoney := false, openR := 0, closeR := 0, closeTodayR := 0, contractMult := 1, commMult := 1 } }
def swOff : Switches := { position := false, price := false, isTrading := false, cash := false, selfTrade := false }
def cfg0 : WCfg := { instruments := [wi], priceLimit := false, inactiveLimit := false, volumeLimit := true, volumePercent := 1/4,
                     slipKind := 0, slipRate := 0, stockCost := { rate := 0, mult := 1, minC := 0, taxRate := 0, taxMult := 1 },
                     swStock := swOff, swFut := swOff, tplusOn := false, reinvest := false, forced := false,
                     matchImmediately := false, daily := true }
def acct0 : Acct := { totalCash := 1000000, frozen := 0, liabilities := 0, pending := [], mgmtFees := 0, mgmtRate := 0, finRate := 0,
                      holdings := [] }
/-- quiet books, empty accumulator, one stock account with cash -/
def w0 : World := { cfg := cfg0, pf := { accounts := [acct0], units := 1000000, staticNav := 1 }, stockIdx := some 0, futIdx := none,
                    openOrders := [], auctionOrders := [], finals := [], turnover := [], commMap := [], mkt := [], today := 0,
                    taxRate := 0, phase := .after, log := [] }
def mb (v : R) : MBar := { deal := some 10, limitUp := none, limitDown := none, volume := some v, listedToday := false }
/-- auction volume 1000, bar volume 100 -/
def row : DayIns := { ins := 1, open_ := some 10, close := some 10, auc := mb 1000, bar := mb 100, listed := true, suspended := false,
                      corp := { bookDps := none, split := none, today := 1 }, delist := .none, settle := none, expires := false }
def req : OrderReq := { id := 7, ins := 1, isBuy := true, isLimit := false, price := 0, effect := .open_, qty := 200 }
def day : Day := { today := 1, tax := 0, mkt := [row], aucCalls := [.submit req], barCalls := [] }
def pre : List WIn := [.preBeforeTrading 1 0 [row], .beforeTrading, .openAuction, .submit req, .bar]
def wEnd : World := (w0.run pre).1

/-- info: (RQ.Q.WPhase.bar, [(1, 200)], some 100, 25) -/
#guard_msgs in
#eval (wEnd.phase, wEnd.turnover, volumeInForce wEnd 1, cap wEnd 100)

theorem wEnd_phase : wEnd.phase = .bar := by decide +kernel
theorem wEnd_volume : volumeInForce wEnd 1 = some 100 := by decide +kernel
theorem wEnd_turnover : wEnd.turnoverOf 1 = 200 := by decide +kernel
theorem wEnd_cap : cap wEnd 100 = 25 := by decide +kernel

end CE

/-- the dropped statement is false: the order sent in the opening auction rests in the auction book, is matched at the BAR event against
the auction volume (cap 250) and fills 200, while the bar's cap is 25 -/
theorem days_turnover_within_cap_counterexample :
    ¬ (∀ (w : World) (days : List Day), (∀ d ∈ days, d.CallsOnly) → CfgOk w → w.cfg.daily = true → w.turnover = [] →
        ∀ (pre post : List WIn), days.flatMap Day.inputs = pre ++ post → TurnoverOk (w.run pre).1) := by
  intro H
  have hcalls : ∀ d ∈ [CE.day], d.CallsOnly := by
    intro d hd
    rw [List.mem_singleton] at hd
    subst hd
    intro i hi
    have : i = WIn.submit CE.req := by simpa [CE.day] using hi
    subst this
    trivial
  have hcfg : CfgOk CE.w0 := by
    refine ⟨rfl, ?_⟩
    intro wi hwi
    have : wi = CE.wi := by simpa [CE.w0, CE.cfg0] using hwi
    subst this
    decide
  have h := H CE.w0 [CE.day] hcalls hcfg rfl rfl CE.pre [WIn.afterTrading, WIn.settlement] rfl
  have h2 := h (Or.inr CE.wEnd_phase) 1 100 CE.wEnd_volume
  change CE.wEnd.turnoverOf 1 = 0 ∨ CE.wEnd.turnoverOf 1 ≤ cap CE.wEnd 100 at h2
  rw [CE.wEnd_turnover, CE.wEnd_cap] at h2
  omega

/-- **every daily back-test** whose auction bars carry the day's volume: from a world with an empty accumulator, any number of days in
the executor's order, any market, any calls in the two callbacks: after every prefix of the run the accumulators are within the caps of
the volumes in force. -/
theorem days_turnover_within_cap_partial (w : World) (days : List Day) (hc : ∀ d ∈ days, d.CallsOnly) (hcfg : CfgOk w)
    (hd : w.cfg.daily = true) (ht : w.turnover = [])
    (hvol : ∀ d ∈ days, ∀ r ∈ d.mkt, r.auc.volume = r.bar.volume)
    (pre post : List WIn) (hsplit : days.flatMap Day.inputs = pre ++ post) :
    TurnoverOk (w.run pre).1 := by
  refine days_turnoverOk days w hc hvol hcfg hd ?_ pre post hsplit
  intro _ ins v _
  left
  rw [turnoverOf_eq, ht]; rfl

/-! ### a second corrected statement: immediate matching (matching type current_bar / vwap), volumes of auction and bar unrelated

With `matchImmediately` every submission triggers a matching round, so the auction book is empty again after every call, and nothing
that rests in it reaches the BAR event: each accumulator entry is compared with the volume it was filled against. -/

/-- all the prefixes of a run satisfy `T` -/
def AP (T : World → Prop) (w : World) (l : List WIn) : Prop := ∀ pre post, l = pre ++ post → T (w.run pre).1

theorem ap_nil {T : World → Prop} {w : World} : AP T w [] ↔ T w := by
  constructor
  · intro h; exact h [] [] rfl
  · intro h pre post hs
    have : pre = [] := by
      cases pre with
      | nil => rfl
      | cons x xs => simp at hs
    subst this; exact h

theorem ap_cons {T : World → Prop} {w : World} {x : WIn} {l : List WIn} : AP T w (x :: l) ↔ T w ∧ AP T (w.step x).1 l := by
  constructor
  · intro h
    refine ⟨h [] (x :: l) rfl, fun pre post hs => ?_⟩
    have := h (x :: pre) post (by rw [hs]; rfl)
    rwa [run_cons_fst] at this
  · rintro ⟨h0, h1⟩ pre post hs
    cases pre with
    | nil => exact h0
    | cons y ys =>
      simp only [List.cons_append, List.cons.injEq] at hs
      obtain ⟨rfl, hl⟩ := hs
      rw [run_cons_fst]
      exact h1 ys post hl

theorem ap_append {T : World → Prop} {w : World} {l1 l2 : List WIn} :
    AP T w (l1 ++ l2) ↔ AP T w l1 ∧ AP T (w.run l1).1 l2 := by
  induction l1 generalizing w with
  | nil =>
    simp only [List.nil_append, ap_nil, run_nil_fst]
    exact ⟨fun h => ⟨h [] l2 rfl, h⟩, fun h => h.2⟩
  | cons x xs ih =>
    simp only [List.cons_append, ap_cons, ih, run_cons_fst, and_assoc]

/-- the accumulators are within the cap of the volume in force (no phase guard) -/
def CappedPh (w : World) : Prop :=
  ∀ (ins : Nat) (v : R), volumeInForce w ins = some v → w.turnoverOf ins = 0 ∨ w.turnoverOf ins ≤ cap w v

theorem volumeInForce_congr {w w' : World} (hm : w'.mkt = w.mkt) (hp : w'.phase = w.phase) (i : Nat) :
    volumeInForce w' i = volumeInForce w i := by
  unfold volumeInForce; rw [dayOf_congr hm, hp]

theorem cappedPh_congr {w w' : World} (hc : w'.cfg = w.cfg) (hm : w'.mkt = w.mkt) (ht : w'.turnover = w.turnover)
    (hp : w'.phase = w.phase) (h : CappedPh w) : CappedPh w' := by
  intro ins v hv
  rw [volumeInForce_congr hm hp] at hv
  rw [turnoverOf_congr ht]
  have : cap w' v = cap w v := by unfold cap; rw [hc]
  rw [this]; exact h ins v hv

theorem cappedPh_keep {w w' : World} (hk : Keep w w') (h : CappedPh w) : CappedPh w' :=
  cappedPh_congr hk.1 hk.2.1 hk.2.2.1 hk.2.2.2 h

theorem cappedPh_of_nil {w : World} (ht : w.turnover = []) : CappedPh w :=
  fun ins v _ => Or.inl (by rw [turnoverOf_eq, ht]; rfl)

theorem cfgOk_congr {w w' : World} (hc : w'.cfg = w.cfg) (h : CfgOk w) : CfgOk w' := by
  unfold CfgOk at *; rw [hc]; exact h

/-- a matcher call whose auction flag agrees with the phase keeps the accumulators within the caps in force -/
theorem matchOne_cappedPh (w : World) (auction : Bool) (o : Ord) (hcfg : CfgOk w) (hfl : auction = (w.phase == .auction))
    (h : CappedPh w) : CappedPh (w.matchOne auction o).1 := by
  subst hfl
  have hr := matchOne_rest w (w.phase == .auction) o
  have hp := matchOne_phase w (w.phase == .auction) o
  intro ins v hv
  rw [volumeInForce_congr hr.2 hp] at hv
  have hcapeq : cap (w.matchOne (w.phase == .auction) o).1 v = cap w v := by unfold cap; rw [hr.1]
  rw [hcapeq]
  by_cases hi : ins = o.ins
  · subst hi
    exact matchOne_turnoverOk w _ o hcfg (Or.inr trivial) (fun v' hv' => h _ v' hv') v hv
  · rw [matchOne_other w _ o ins hi]; exact h ins v hv

theorem matchList_cappedPh (w : World) (auction : Bool) (l : List Ord) (hcfg : CfgOk w) (hfl : auction = (w.phase == .auction))
    (h : CappedPh w) : CappedPh (w.matchList auction l).1 := by
  induction l generalizing w with
  | nil => exact h
  | cons o rest ih =>
    unfold World.matchList
    refine ih _ (cfgOk_congr (matchOne_rest w auction o).1 hcfg) ?_ (matchOne_cappedPh w auction o hcfg hfl h)
    rw [matchOne_phase]; exact hfl

/-- (the repaired guard of finding F43) in a daily run the regular book is not matched during the auction -/
theorem matchOne_noop (w : World) (o : Ord) (hd : w.cfg.daily = true) (hp : w.phase = .auction) : (w.matchOne false o).1 = w := by
  unfold World.matchOne
  by_cases h1 : o.isFinal = true
  · rw [if_pos h1]
  · rw [if_neg h1, if_pos (by simp [hd, hp])]

theorem matchList_noop (w : World) (l : List Ord) (hd : w.cfg.daily = true) (hp : w.phase = .auction) :
    (w.matchList false l).1 = w := by
  induction l with
  | nil => rfl
  | cons o rest ih =>
    unfold World.matchList
    show ((w.matchOne false o).1.matchList false rest).1 = w
    rw [matchOne_noop w o hd hp]; exact ih

theorem matchRound_cappedPh (w : World) (hd : w.cfg.daily = true) (hcfg : CfgOk w)
    (hph : w.phase = .auction ∨ (w.phase = .bar ∧ w.auctionOrders = [])) (h : CappedPh w) : CappedPh w.matchRound.1 := by
  unfold World.matchRound
  rcases h1 : w.matchList false w.openOrders with ⟨w1, r1, e1⟩
  dsimp only
  rcases h2 : w1.matchList true w1.auctionOrders with ⟨w2, r2, e2⟩
  dsimp only
  have hw2 : CappedPh w2 := by
    rcases hph with hp | ⟨hp, ha⟩
    · have e : w1 = w := by have := matchList_noop w w.openOrders hd hp; rwa [h1] at this
      subst e
      have := matchList_cappedPh w1 true w1.auctionOrders hcfg (by rw [hp]; rfl) h
      rwa [h2] at this
    · have g1 : CappedPh w1 := by
        have := matchList_cappedPh w false w.openOrders hcfg (by rw [hp]; rfl) h
        rwa [h1] at this
      have ha1 : w1.auctionOrders = [] := by
        have := (matchList_good w false w.openOrders).2.2.1
        rw [h1] at this
        exact this.trans ha
      rw [ha1] at h2
      have e : w2 = w1 := by cases h2; rfl
      subst e; exact g1
  exact cappedPh_congr rfl rfl rfl rfl (cappedPh_keep (foldl_keep _ announce_keep _ w2) hw2)

/-- the static part: a daily run with the volume limit and immediate matching, and nothing resting in the auction book -/
def QS (w : World) : Prop := w.cfg.daily = true ∧ CfgOk w ∧ w.cfg.matchImmediately = true ∧ w.auctionOrders = []

/-- the invariant while orders can be matched -/
def Q (w : World) : Prop := QS w ∧ (w.phase = .auction ∨ w.phase = .bar) ∧ CappedPh w

theorem QS_congr {w w' : World} (hc : w'.cfg = w.cfg) (ha : w'.auctionOrders = w.auctionOrders) (h : QS w) : QS w' := by
  unfold QS CfgOk at *
  rw [hc, ha]; exact h

theorem Q_keep {w w' : World} (hk : Keep w w') (ha : w'.auctionOrders = w.auctionOrders) (h : Q w) : Q w' :=
  ⟨QS_congr hk.1 ha h.1, by rw [hk.2.2.2]; exact h.2.1, cappedPh_keep hk h.2.2⟩

theorem addOrd_keep (w1 : World) (ord : Ord) : Keep w1 (addOrd w1 ord) := by
  unfold addOrd; split_ifs <;> exact ⟨rfl, rfl, rfl, rfl⟩

theorem submit_char2 (w : World) (o : OrderReq) : (w.submit o).1 = w ∨
    ∃ w1 ord, Keep w w1 ∧ Good w w1 ∧
      (w.submit o).1 = if (addOrd w1 ord).cfg.matchImmediately then (addOrd w1 ord).matchRound.1 else addOrd w1 ord := by
  unfold World.submit
  split
  · split
    · left; rfl
    · extract_lets fp init w1 ord w2
      split
      · left; rfl
      · right
        refine ⟨w1, ord, apply_keep _ _ _, apply_good _ _ _, ?_⟩
        have hw2 : w2 = addOrd w1 ord := rfl
        rw [← hw2]
        by_cases hm : w2.cfg.matchImmediately = true
        · rw [if_pos hm, if_pos hm]
        · rw [if_neg hm, if_neg hm]
  · left; rfl

theorem deposit_keep (w : World) (k : Nat) (amount : R) (recv : Option Nat) : Keep w (w.deposit k amount recv).1 := by
  unfold World.deposit
  split
  · split
    · exact keep_refl w
    · split
      · exact keep_trans (apply_keep _ _ _) ⟨rfl, rfl, rfl, rfl⟩
      · exact keep_refl w
  · exact keep_refl w

theorem call_Q (w : World) (i : WIn) (hc : IsCall i) (h : Q w) : Q (w.step i).1 := by
  cases i with
  | submit o =>
    show Q (w.submit o).1
    rcases submit_char2 w o with h' | ⟨w1, ord, hk, g, h'⟩
    · rw [h']; exact h
    · obtain ⟨⟨hd, hcfg, himm, hbook⟩, hph, hcap⟩ := h
      have hka := keep_trans hk (addOrd_keep w1 ord)
      have himm' : (addOrd w1 ord).cfg.matchImmediately = true := by rw [hka.1]; exact himm
      rw [if_pos himm'] at h'
      rw [h']
      have hph' : (addOrd w1 ord).phase = .auction ∨ ((addOrd w1 ord).phase = .bar ∧ (addOrd w1 ord).auctionOrders = []) := by
        rcases hph with hp | hp
        · left; rw [hka.2.2.2]; exact hp
        · right
          have hp1 : w1.phase ≠ .auction := by rw [hk.2.2.2, hp]; decide
          obtain ⟨ha, _⟩ := addOrd_not_auction w1 ord hp1
          exact ⟨by rw [hka.2.2.2]; exact hp, by rw [ha, g.2.2.1]; exact hbook⟩
      have hcfg' : CfgOk (addOrd w1 ord) := cfgOk_congr hka.1 hcfg
      refine ⟨⟨?_, ?_, ?_, matchRound_auction _⟩, ?_, ?_⟩
      · rw [matchRound_cfg, hka.1]; exact hd
      · exact cfgOk_congr (matchRound_cfg _) hcfg'
      · rw [matchRound_cfg]; exact himm'
      · rw [matchRound_phase, hka.2.2.2]; exact hph
      · exact matchRound_cappedPh _ (by rw [hka.1]; exact hd) hcfg' hph' (cappedPh_keep hka hcap)
  | cancel id =>
    show Q (w.cancel id).1
    unfold World.cancel
    split
    · exact h
    · rename_i oo _
      have ha : (w.announce oo.markCancelled).auctionOrders = w.auctionOrders := (announce_good w _).2.2.1
      have hq := Q_keep (announce_keep w oo.markCancelled) ha h
      obtain ⟨⟨hd, hcfg, himm, hbook⟩, hph, hcap⟩ := hq
      exact ⟨⟨hd, hcfg, himm, by show List.filter _ _ = []; rw [hbook]; rfl⟩, hph, cappedPh_congr rfl rfl rfl rfl hcap⟩
  | deposit k amount recv =>
    exact Q_keep (deposit_keep w k amount recv) (deposit_good w k amount recv).2.2.1 h
  | finance k amount =>
    exact Q_keep (apply_keep w k _) (apply_good w k _).2.2.1 h
  | preBeforeTrading _ _ _ => exact hc.elim
  | barData _ => exact hc.elim
  | beforeTrading => exact hc.elim
  | openAuction => exact hc.elim
  | bar => exact hc.elim
  | afterTrading => exact hc.elim
  | settlement => exact hc.elim

theorem calls_Q (w : World) (l : List WIn) (hc : ∀ i ∈ l, IsCall i) (h : Q w) : AP TurnoverOk w l ∧ Q (w.run l).1 := by
  induction l generalizing w with
  | nil => exact ⟨ap_nil.mpr (fun _ => h.2.2), h⟩
  | cons x xs ih =>
    obtain ⟨h1, h2⟩ := ih (w.step x).1 (fun i hi => hc i (List.mem_cons_of_mem _ hi)) (call_Q w x (hc x List.mem_cons_self) h)
    rw [run_cons_fst]
    exact ⟨ap_cons.mpr ⟨fun _ => h.2.2, h1⟩, h2⟩

theorem onBar_Q (w : World) (h : QS w) : Q w.onBar.1 := by
  obtain ⟨hd, hcfg, himm, hbook⟩ := h
  unfold World.onBar
  dsimp only
  have hk := foldl_keep (fun (w : World) (k : Nat) => w.apply k (.bar w.barPrices)) (fun w k => apply_keep _ _ _)
    (List.range w.pf.accounts.length) { w with phase := .bar }
  have hg := foldl_good (fun (w : World) (k : Nat) => w.apply k (.bar w.barPrices)) (fun w k => apply_good _ _ _)
    (List.range w.pf.accounts.length) { w with phase := .bar }
  generalize (List.range w.pf.accounts.length).foldl (fun (w : World) (k : Nat) => w.apply k (.bar w.barPrices))
    { w with phase := .bar } = w1 at hk hg
  have hc1 : w1.cfg = w.cfg := hk.1
  have hp1 : w1.phase = .bar := hk.2.2.2
  have ha1 : w1.auctionOrders = [] := hg.2.2.1.trans hbook
  have hcfg' : CfgOk { w1 with turnover := [] } := cfgOk_congr (w := w) hc1 hcfg
  refine ⟨⟨?_, ?_, ?_, matchRound_auction _⟩, ?_, ?_⟩
  · rw [matchRound_cfg]; show w1.cfg.daily = true; rw [hc1]; exact hd
  · exact cfgOk_congr (matchRound_cfg _) hcfg'
  · rw [matchRound_cfg]; show w1.cfg.matchImmediately = true; rw [hc1]; exact himm
  · right; rw [matchRound_phase]; exact hp1
  · exact matchRound_cappedPh _ (by show w1.cfg.daily = true; rw [hc1]; exact hd) hcfg' (Or.inr ⟨hp1, ha1⟩) (cappedPh_of_nil rfl)

theorem vacuous_turnoverOk {w : World} (h : w.phase = .before ∨ w.phase = .after) : TurnoverOk w := by
  intro hp
  rcases h with h | h <;> rw [h] at hp <;> rcases hp with hp | hp <;> cases hp

theorem day_inputs_eq2 (d : Day) : d.inputs = WIn.preBeforeTrading d.today d.tax d.mkt :: WIn.beforeTrading :: WIn.openAuction ::
    (d.aucCalls ++ (WIn.bar :: (d.barCalls ++ [WIn.afterTrading, WIn.settlement]))) := by
  simp [Day.inputs]

theorem day_Q (w : World) (d : Day) (hc : d.CallsOnly) (hs : QS w) (h0 : TurnoverOk w) :
    AP TurnoverOk w d.inputs ∧ QS (w.run d.inputs).1 := by
  have hauc : ∀ i ∈ d.aucCalls, IsCall i := fun i hi => hc i (List.mem_append.mpr (Or.inl hi))
  have hbar : ∀ i ∈ d.barCalls, IsCall i := fun i hi => hc i (List.mem_append.mpr (Or.inr hi))
  rw [day_inputs_eq2]
  simp only [ap_cons, ap_append, ap_nil, run_cons_fst, run_append_fst, run_nil_fst]
  -- PRE_BEFORE_TRADING
  obtain ⟨c1, _, p1⟩ := preBT_facts w d.today d.tax d.mkt
  have s1 : QS (w.step (.preBeforeTrading d.today d.tax d.mkt)).1 :=
    QS_congr c1 (preBeforeTrading_good w d.today d.tax d.mkt).2.2.1 hs
  have p1' : (w.step (.preBeforeTrading d.today d.tax d.mkt)).1.phase = .before := p1
  generalize (w.step (.preBeforeTrading d.today d.tax d.mkt)).1 = w1 at s1 p1'
  -- BEFORE_TRADING
  have s2 : QS (w1.step .beforeTrading).1 := QS_congr (w := w1) rfl rfl s1
  have p2 : (w1.step .beforeTrading).1.phase = .before := p1'
  have t2 : (w1.step .beforeTrading).1.turnover = [] := rfl
  generalize (w1.step .beforeTrading).1 = w2 at s2 p2 t2
  -- OPEN_AUCTION
  have q3 : Q (w2.step .openAuction).1 := ⟨QS_congr (w := w2) rfl rfl s2, Or.inl rfl, cappedPh_of_nil t2⟩
  generalize (w2.step .openAuction).1 = w3 at q3
  obtain ⟨apA, qA⟩ := calls_Q w3 d.aucCalls hauc q3
  generalize (w3.run d.aucCalls).1 = wA at apA qA
  -- BAR
  have qB : Q (wA.step .bar).1 := onBar_Q wA qA.1
  generalize (wA.step .bar).1 = wB at qB
  obtain ⟨apC, qC⟩ := calls_Q wB d.barCalls hbar qB
  generalize (wB.run d.barCalls).1 = wC at apC qC
  -- AFTER_TRADING
  have sD : QS (wC.step .afterTrading).1 := by
    obtain ⟨wx, g, hx⟩ := afterTrading_char wC
    show QS wC.afterTrading.1
    rw [hx]
    exact QS_congr (w := wC) g.2.2.2.2 g.2.2.1 qC.1
  have pD : (wC.step .afterTrading).1.phase = .after := by
    show wC.afterTrading.1.phase = .after
    unfold World.afterTrading
    exact (foldl_keep _ announce_keep _ _).2.2.2
  generalize (wC.step .afterTrading).1 = wD at sD pD
  -- SETTLEMENT
  have sE : QS (wD.step .settlement).1 := QS_congr (settlement_good wD).2.2.2.2 (settlement_good wD).2.2.1 sD
  have pE : (wD.step .settlement).1.phase = .after := by
    show wD.settlement.phase = .after
    unfold World.settlement
    exact (foldl_keep _ (fun w k => apply_keep _ _ _) _ _).2.2.2.trans pD
  exact ⟨⟨h0, vacuous_turnoverOk (Or.inl p1'), vacuous_turnoverOk (Or.inl p2), apA, fun _ => qA.2.2, apC, fun _ => qC.2.2,
    vacuous_turnoverOk (Or.inr pD), vacuous_turnoverOk (Or.inr pE)⟩, sE⟩

theorem days_Q (days : List Day) : ∀ (w : World), (∀ d ∈ days, d.CallsOnly) → QS w → TurnoverOk w →
    AP TurnoverOk w (days.flatMap Day.inputs) := by
  induction days with
  | nil => intro w _ _ h0; exact ap_nil.mpr h0
  | cons d ds ih =>
    intro w hc hs h0
    obtain ⟨hday, hs'⟩ := day_Q w d (hc d List.mem_cons_self) hs h0
    rw [List.flatMap_cons, ap_append]
    exact ⟨hday, ih _ (fun x hx => hc x (List.mem_cons_of_mem _ hx)) hs' (hday d.inputs [] (List.append_nil _).symm)⟩

/-- **every daily back-test with immediate matching** (matching type current_bar / vwap), started with an empty auction book: whatever
the auction and bar volumes are, after every prefix of the run the accumulators are within the caps of the volumes in force -/
theorem days_turnover_within_cap_matchImmediately (w : World) (days : List Day) (hc : ∀ d ∈ days, d.CallsOnly) (hcfg : CfgOk w)
    (hd : w.cfg.daily = true) (ht : w.turnover = [])
    (himm : w.cfg.matchImmediately = true) (hbook : w.auctionOrders = [])
    (pre post : List WIn) (hsplit : days.flatMap Day.inputs = pre ++ post) :
    TurnoverOk (w.run pre).1 := by
  refine days_Q days w hc ⟨hd, hcfg, himm, hbook⟩ ?_ pre post hsplit
  intro _ ins v _
  left
  rw [turnoverOf_eq, ht]; rfl

end RQ.Lemmas.WorldM

/-
World-level lemmas, part K (fees, C11 inside the composed world): the fees the world's cost decider stamps on the successive fills of one
stock order are exactly the published schedule `chargeFills` (commission with the per-order minimum, the theorem of C11 about it being
independent of the split) plus the tax of each fill — whatever else the decider is asked about other orders in between.
-/
import RQ.Model.World
import Mathlib.Tactic.SplitIfs

namespace RQ.Lemmas.WorldK
open RQ.Q

/-- lookup in an association list with a default -/
def lk (l : List ((Option Nat × Nat) × R)) (d : R) (k : Option Nat × Nat) : R :=
  match l.find? (·.1 == k) with | some x => x.2 | none => d

theorem lk_nil (d : R) (k : Option Nat × Nat) : lk [] d k = d := rfl

theorem lk_cons (x : (Option Nat × Nat) × R) (l : List ((Option Nat × Nat) × R)) (d : R) (k : Option Nat × Nat) :
    lk (x :: l) d k = if x.1 == k then x.2 else lk l d k := by
  unfold lk
  rw [List.find?_cons]
  cases h : (x.1 == k) <;> simp

theorem lk_map_ne (l : List ((Option Nat × Nat) × R)) (d v : R) (k k' : Option Nat × Nat) (h : k' ≠ k) :
    lk (l.map (fun x => if x.1 == k' then (x.1, v) else x)) d k = lk l d k := by
  induction l with
  | nil => rfl
  | cons x l ih =>
    rw [List.map_cons, lk_cons, lk_cons, ih]
    by_cases hx : x.1 = k'
    · subst hx
      have : (x.1 == k) = false := by simpa using h
      simp [this]
    · have : (x.1 == k') = false := by simpa using hx
      simp [this]

theorem lk_append_ne (l : List ((Option Nat × Nat) × R)) (d v : R) (k k' : Option Nat × Nat) (h : k' ≠ k) :
    lk (l ++ [(k', v)]) d k = lk l d k := by
  induction l with
  | nil =>
    have : (k' == k) = false := by simpa using h
    simp [lk_cons, lk_nil, this]
  | cons x l ih =>
    rw [List.cons_append, lk_cons, lk_cons, ih]

theorem lk_map_eq (l : List ((Option Nat × Nat) × R)) (d v : R) (k : Option Nat × Nat)
    (h : l.any (·.1 == k) = true) :
    lk (l.map (fun x => if x.1 == k then (x.1, v) else x)) d k = v := by
  induction l with
  | nil => simp at h
  | cons x l ih =>
    rw [List.map_cons, lk_cons]
    by_cases hx : x.1 = k
    · simp [hx]
    · have hx' : (x.1 == k) = false := by simpa using hx
      rw [List.any_cons, hx', Bool.false_or] at h
      simp only [hx']
      simp only [Bool.false_eq_true, if_false, hx']
      exact ih h

theorem lk_append_eq (l : List ((Option Nat × Nat) × R)) (d v : R) (k : Option Nat × Nat)
    (h : l.any (·.1 == k) = false) :
    lk (l ++ [(k, v)]) d k = v := by
  induction l with
  | nil => simp [lk_cons]
  | cons x l ih =>
    rw [List.any_cons, Bool.or_eq_false_iff] at h
    rw [List.cons_append, lk_cons, h.1]
    simpa using ih h.2

theorem commRem_eq_lk (w : World) (k : Option Nat × Nat) : w.commRem k = lk w.commMap w.cfg.stockCost.minC k := rfl

/-- the decider's answer for key `k` is not changed by writing another key -/
theorem commRem_setCommRem_ne (w : World) (k k' : Option Nat × Nat) (v : R) (h : k' ≠ k) :
    (w.setCommRem k' v).commRem k = w.commRem k := by
  rw [commRem_eq_lk, commRem_eq_lk]
  unfold World.setCommRem
  split_ifs with hc
  · exact lk_map_ne _ _ _ _ _ h
  · exact lk_append_ne _ _ _ _ _ h

/-- … and is the written value for the key itself -/
theorem commRem_setCommRem_eq (w : World) (k : Option Nat × Nat) (v : R) : (w.setCommRem k v).commRem k = v := by
  rw [commRem_eq_lk]
  unfold World.setCommRem
  split_ifs with hc
  · exact lk_map_eq _ _ _ _ hc
  · exact lk_append_eq _ _ _ _ (Bool.eq_false_iff.mpr hc)

/-- writing the fee map changes neither the configuration nor the tax rate in force -/
theorem setCommRem_stockCost (w : World) (k : Option Nat × Nat) (v : R) : (w.setCommRem k v).stockCost = w.stockCost := by
  unfold World.setCommRem World.stockCost
  split_ifs <;> rfl

/-- the fees of the successive fills `(price, quantity)` of the order `id` on the stock instrument `wi`, threading the decider's state -/
def feeChain (w : World) (wi : WIns) (id : Option Nat) (isBuy : Bool) (effect : Effect) : List (R × Int) → List R × World
  | [] => ([], w)
  | (p, q) :: rest =>
    let r := w.tradeFee wi id isBuy effect q p 0
    let rr := feeChain r.2 wi id isBuy effect rest
    (r.1 :: rr.1, rr.2)

/-- **the world's fees are the schedule**: for a stock instrument, the fees of the successive fills of one order are `chargeFills` from
the order's remaining minimum (the minimum commission itself for an order the decider has not seen) plus each fill's tax -/
theorem feeChain_is_schedule (w : World) (wi : WIns) (hs : wi.cfg.isFuture = false) (id : Option Nat) (isBuy : Bool) (effect : Effect)
    (fills : List (R × Int)) :
    (feeChain w wi id isBuy effect fills).1 =
      List.zipWith (· + ·)
        (chargeFills w.stockCost (w.commRem (id, wi.typeKey)) (fills.map (fun f => (f.1, R.ofInt f.2))))
        (fills.map (fun f => stockTax w.stockCost wi.isCS (!isBuy) (f.1 * R.ofInt f.2))) := by
  induction fills generalizing w with
  | nil => rfl
  | cons f rest ih =>
    obtain ⟨p, q⟩ := f
    simp only [feeChain, List.map_cons, chargeFills, List.zipWith_cons_cons]
    rw [ih]
    simp only [World.tradeFee, hs, Bool.false_eq_true, if_false, setCommRem_stockCost, commRem_setCommRem_eq]

/-- a fee asked for ANOTHER order (or another decider) in between does not disturb the chain -/
theorem tradeFee_other_key (w : World) (wi wi' : WIns) (id id' : Option Nat) (isBuy : Bool) (effect : Effect) (q : Int) (p : R) (ct : Int)
    (h : (id', wi'.typeKey) ≠ (id, wi.typeKey)) :
    (w.tradeFee wi' id' isBuy effect q p ct).2.commRem (id, wi.typeKey) = w.commRem (id, wi.typeKey) ∧
    (w.tradeFee wi' id' isBuy effect q p ct).2.stockCost = w.stockCost := by
  unfold World.tradeFee
  split_ifs with hf
  · exact ⟨rfl, rfl⟩
  · exact ⟨commRem_setCommRem_ne _ _ _ _ h, setCommRem_stockCost _ _ _⟩

/-- futures fees are stateless: the by-money / by-volume schedule of the contract -/
theorem tradeFee_future (w : World) (wi : WIns) (hf : wi.cfg.isFuture = true) (id : Option Nat) (isBuy : Bool) (effect : Effect) (q : Int)
    (p : R) (ct : Int) :
    w.tradeFee wi id isBuy effect q p ct = (futCommission wi.futCost (effect == .open_) p (R.ofInt q) (R.ofInt ct) + 0, w) := by
  unfold World.tradeFee
  simp [hf]

end RQ.Lemmas.WorldK

/-
World-level lemmas, part C (buying power, C09 at whole-system level): in every state a run of the free-running world reaches, the cash
an account holds in reserve is exactly what its orders still resting in the broker's books have not yet used or given back.
-/
import RQ.Model.World
import Mathlib.Tactic.SplitIfs
import Mathlib.Tactic.Ring
import Mathlib.Tactic.FieldSimp
import Mathlib.Tactic.Linarith

namespace RQ.Lemmas.WorldC
open RQ.Q

/-- what an order still holds of its initial reserve: all of it before the first fill, afterwards the share of the unfilled quantity -/
def reserveLeft (o : Ord) : R :=
  if o.filled ≠ 0 then R.ofInt (o.qty - o.filled) / R.ofInt o.qty * o.initFrozen else o.initFrozen

/-- the account an order belongs to -/
def acctOfOrd (w : World) (o : Ord) : Option Nat := (w.cfg.find o.ins).bind w.acctIdx

/-- the reserves of the orders of account `k` resting in either book -/
def bookReserve (w : World) (k : Nat) : R :=
  (((w.openOrders ++ w.auctionOrders).filter (fun o => acctOfOrd w o == some k)).map reserveLeft).sum

/-- **the invariant**: reserved cash of every account = what its resting orders still hold -/
def ReserveInv (w : World) : Prop :=
  ∀ (k : Nat) (a : Acct), w.pf.accounts[k]? = some a → a.frozen = bookReserve w k

/-- resting orders are live and partly unfilled -/
def BooksWF (w : World) : Prop :=
  ∀ o ∈ w.openOrders ++ w.auctionOrders, o.isFinal = false ∧ 0 ≤ o.filled ∧ o.filled < o.qty

/-- what the order-sizing APIs guarantee about the orders they create (C15): a positive quantity -/
def InputOk : WIn → Prop
  | .submit o => 0 < o.qty
  | _ => True

theorem getOrCreate_frozen (a : Acct) (ins : Nat) (cfg : InsCfg) (cl : R) : (a.getOrCreate ins cfg cl).frozen = a.frozen := by
  unfold Acct.getOrCreate; split <;> rfl

theorem onBar_frozen (a : Acct) (p) : (a.onBar p).frozen = a.frozen := rfl
theorem onBeforeTrading_frozen (a : Acct) (i) : (a.onBeforeTrading i).frozen = a.frozen := rfl
theorem ite_frozen {c : Prop} [Decidable c] (x y : Acct) (r : R) (hx : x.frozen = r) (hy : y.frozen = r) :
    (if c then x else y).frozen = r := by split <;> assumption
theorem onSettlement_frozen (a : Acct) (i) : (a.onSettlement i).frozen = a.frozen := by
  unfold Acct.onSettlement; exact ite_frozen _ _ _ rfl rfl
theorem financeRepay_frozen (a : Acct) (x) : (a.financeRepay x).frozen = a.frozen := by
  unfold Acct.financeRepay; split_ifs <;> rfl
theorem depositWithdraw_frozen (a a' : Acct) (x r) (h : a.depositWithdraw x r = some a') : a'.frozen = a.frozen := by
  unfold Acct.depositWithdraw at h
  split_ifs at h
  split at h <;> (cases h; rfl)
theorem applyTrade_frozen_aux (a1 : Acct) (ins cfg cl isLong) (t : TradeIn) :
    (match (a1.getOrCreate ins cfg cl).getPos ins isLong with
      | some (c, p) =>
        { ((a1.getOrCreate ins cfg cl).setPos ins isLong (p.applyTrade c t).1) with
            totalCash := (a1.getOrCreate ins cfg cl).totalCash + (p.applyTrade c t).2 }
      | none => a1.getOrCreate ins cfg cl).frozen = a1.frozen := by
  split
  · show (Acct.getOrCreate _ ins cfg cl).frozen = _
    rw [getOrCreate_frozen]
  · rw [getOrCreate_frozen]

theorem applyTrade_frozen_none (a : Acct) (ins cfg cl isLong) (t : TradeIn) :
    (a.applyTrade ins cfg cl isLong t none).frozen = a.frozen := by
  unfold Acct.applyTrade
  exact applyTrade_frozen_aux a ins cfg cl isLong t

theorem applyTrade_frozen_some (a : Acct) (ins cfg cl isLong) (t : TradeIn) (oq : Int) (init : R) :
    (a.applyTrade ins cfg cl isLong t (some (oq, init))).frozen =
      a.frozen - (if t.qty ≠ oq then R.ofInt t.qty / R.ofInt oq * init else init) := by
  unfold Acct.applyTrade
  refine (applyTrade_frozen_aux _ ins cfg cl isLong t).trans ?_
  simp only []
  split_ifs <;> rfl

/-! ### the world: frozen cash per account, environment, deltas -/

/-- reserved cash of account `k` (if it exists) -/
def fz (w : World) (k : Nat) : Option R := (w.pf.accounts[k]?).map (·.frozen)

def resK (w : World) (k : Nat) (o : Ord) : R := if acctOfOrd w o == some k then reserveLeft o else 0
def resSum (w : World) (k : Nat) (l : List Ord) : R := (l.map (resK w k)).sum

theorem filter_map_sum (p : Ord → Bool) (f : Ord → R) (l : List Ord) :
    ((l.filter p).map f).sum = (l.map (fun o => if p o then f o else 0)).sum := by
  induction l with
  | nil => rfl
  | cons x xs ih => by_cases h : p x <;> simp [h, ih]

theorem bookReserve_eq (w : World) (k : Nat) : bookReserve w k = resSum w k (w.openOrders ++ w.auctionOrders) := by
  unfold bookReserve resSum resK; rw [filter_map_sum]

theorem resSum_nil (w : World) (k : Nat) : resSum w k [] = 0 := rfl
theorem resSum_cons (w : World) (k : Nat) (o : Ord) (l : List Ord) : resSum w k (o :: l) = resK w k o + resSum w k l := by
  simp [resSum]
theorem resSum_append (w : World) (k : Nat) (l l' : List Ord) : resSum w k (l ++ l') = resSum w k l + resSum w k l' := by
  simp [resSum]

theorem reserveInv_iff (w : World) :
    ReserveInv w ↔ ∀ k r, fz w k = some r → r = resSum w k (w.openOrders ++ w.auctionOrders) := by
  unfold ReserveInv fz
  constructor
  · intro h k r hr
    rw [Option.map_eq_some_iff] at hr
    obtain ⟨a, ha, rfl⟩ := hr
    rw [h k a ha, bookReserve_eq]
  · intro h k a ha
    rw [bookReserve_eq]
    exact h k a.frozen (by rw [ha]; rfl)

/-- the static part the account of an order depends on -/
def Env (w w' : World) : Prop := w'.cfg = w.cfg ∧ w'.stockIdx = w.stockIdx ∧ w'.futIdx = w.futIdx

theorem Env.refl (w : World) : Env w w := ⟨rfl, rfl, rfl⟩
theorem Env.trans {a b c : World} (h1 : Env a b) (h2 : Env b c) : Env a c :=
  ⟨h2.1.trans h1.1, h2.2.1.trans h1.2.1, h2.2.2.trans h1.2.2⟩

theorem Env.acct {w w' : World} (h : Env w w') (o : Ord) : acctOfOrd w' o = acctOfOrd w o := by
  obtain ⟨h1, h2, h3⟩ := h
  unfold acctOfOrd
  rw [h1]
  congr 1
  funext wi
  unfold World.acctIdx
  rw [h2, h3]

theorem Env.resK {w w' : World} (h : Env w w') (k : Nat) (o : Ord) : resK w' k o = resK w k o := by
  unfold WorldC.resK; rw [h.acct]

theorem Env.resSum {w w' : World} (h : Env w w') (k : Nat) (l : List Ord) : resSum w' k l = resSum w k l := by
  unfold WorldC.resSum
  have : WorldC.resK w' k = WorldC.resK w k := funext (h.resK k)
  rw [this]

/-- `w'` differs from `w` in the reserved cash of account `k` by `d k` (and not in the static part) -/
def Delta (w w' : World) (d : Nat → R) : Prop := Env w w' ∧ ∀ k, fz w' k = (fz w k).map (· + d k)

theorem Delta.refl (w : World) : Delta w w (fun _ => 0) := by
  refine ⟨Env.refl w, fun k => ?_⟩
  cases fz w k <;> simp

theorem Delta.trans {a b c : World} {d d' : Nat → R} (h1 : Delta a b d) (h2 : Delta b c d') :
    Delta a c (fun k => d k + d' k) := by
  refine ⟨h1.1.trans h2.1, fun k => ?_⟩
  rw [h2.2 k, h1.2 k]
  cases fz a k <;> simp [add_assoc]

theorem Delta.congr {a b : World} {d d' : Nat → R} (h : Delta a b d) (hd : ∀ k, d k = d' k) : Delta a b d' := by
  have : d = d' := funext hd
  rw [← this]; exact h

theorem reserveInv_of_delta {w w' : World} {d : Nat → R} (h : Delta w w' d) (hinv : ReserveInv w)
    (hb : ∀ k, resSum w k (w'.openOrders ++ w'.auctionOrders) = resSum w k (w.openOrders ++ w.auctionOrders) + d k) :
    ReserveInv w' := by
  rw [reserveInv_iff] at hinv ⊢
  intro k r hr
  rw [h.2 k, Option.map_eq_some_iff] at hr
  obtain ⟨r0, hr0, rfl⟩ := hr
  rw [h.1.resSum, hb k, ← hinv k r0 hr0]

/-! ### `World.apply` and the other world updates of a matcher call -/

@[simp] theorem apply_open (w : World) (k : Nat) (op : AcctOp) : (w.apply k op).openOrders = w.openOrders := by
  unfold World.apply; split <;> rfl
@[simp] theorem apply_auction (w : World) (k : Nat) (op : AcctOp) : (w.apply k op).auctionOrders = w.auctionOrders := by
  unfold World.apply; split <;> rfl
theorem apply_env (w : World) (k : Nat) (op : AcctOp) : Env w (w.apply k op) := by
  unfold World.apply; split <;> exact ⟨rfl, rfl, rfl⟩

theorem apply_delta (w : World) (k : Nat) (op : AcctOp) (δ : R) (h : ∀ a : Acct, (a.stepOp op).frozen = a.frozen + δ) :
    Delta w (w.apply k op) (fun j => if j = k then δ else 0) := by
  refine ⟨apply_env w k op, fun j => ?_⟩
  unfold World.apply fz
  split
  · rename_i a ha
    have hk : k < w.pf.accounts.length := by
      rcases Nat.lt_or_ge k w.pf.accounts.length with h' | h'
      · exact h'
      · rw [List.getElem?_eq_none h'] at ha; cases ha
    by_cases hj : j = k
    · subst hj
      simp only [List.getElem?_set_self hk, ha, Option.map_some, if_true, h]
    · have : k ≠ j := fun e => hj e.symm
      simp only [List.getElem?_set_ne this, hj, if_false]
      cases w.pf.accounts[j]? <;> simp
  · rename_i ha
    by_cases hj : j = k
    · subst hj; simp [ha]
    · simp only [hj, if_false]
      cases w.pf.accounts[j]? <;> simp

theorem apply_same (w : World) (k : Nat) (op : AcctOp) (h : ∀ a : Acct, (a.stepOp op).frozen = a.frozen) :
    Delta w (w.apply k op) (fun _ => 0) := by
  refine (apply_delta w k op 0 (fun a => by rw [h a, add_zero])).congr (fun j => ?_)
  split <;> rfl

theorem stepOp_touch (a : Acct) (ins cfg cl) : (a.stepOp (.touch ins cfg cl)).frozen = a.frozen := getOrCreate_frozen a ins cfg cl
theorem stepOp_bar (a : Acct) (p) : (a.stepOp (.bar p)).frozen = a.frozen := rfl
theorem stepOp_beforeTrading (a : Acct) (i) : (a.stepOp (.beforeTrading i)).frozen = a.frozen := rfl
theorem stepOp_settlement (a : Acct) (i) : (a.stepOp (.settlement i)).frozen = a.frozen := onSettlement_frozen a i
theorem stepOp_finance (a : Acct) (x) : (a.stepOp (.finance x)).frozen = a.frozen := financeRepay_frozen a x
theorem stepOp_deposit (a : Acct) (x r) : (a.stepOp (.deposit x r)).frozen = a.frozen := by
  show (match a.depositWithdraw x r with | some a' => a' | none => a).frozen = _
  split
  · exact depositWithdraw_frozen a _ x r (by assumption)
  · rfl
theorem stepOp_pendingNew (a : Acct) (init : R) : (a.stepOp (.pendingNew init)).frozen = a.frozen + init := rfl
theorem stepOp_unsolicited (a : Acct) (q f : Int) (init : R) :
    (a.stepOp (.unsolicited q f init)).frozen =
      a.frozen + -(if f ≠ 0 then R.ofInt (q - f) / R.ofInt q * init else init) := by
  show (a.onUnsolicited q f init).frozen = _
  unfold Acct.onUnsolicited
  split_ifs <;> simp [sub_eq_add_neg]
theorem stepOp_trade_some (a : Acct) (ins cfg cl isLong) (t : TradeIn) (oq : Int) (init : R) :
    (a.stepOp (.trade ins cfg cl isLong t (some (oq, init)))).frozen =
      a.frozen + -(if t.qty ≠ oq then R.ofInt t.qty / R.ofInt oq * init else init) := by
  show (a.applyTrade ins cfg cl isLong t (some (oq, init))).frozen = _
  rw [applyTrade_frozen_some, sub_eq_add_neg]

/-- nothing the invariant reads has changed -/
def Same (w w' : World) : Prop :=
  Delta w w' (fun _ => 0) ∧ w'.openOrders = w.openOrders ∧ w'.auctionOrders = w.auctionOrders

theorem Same.refl (w : World) : Same w w := ⟨Delta.refl w, rfl, rfl⟩
theorem Same.trans {a b c : World} (h1 : Same a b) (h2 : Same b c) : Same a c :=
  ⟨(h1.1.trans h2.1).congr (fun _ => add_zero 0), h2.2.1.trans h1.2.1, h2.2.2.trans h1.2.2⟩
theorem Same.of_pf {w w' : World} (h1 : w'.pf.accounts = w.pf.accounts) (h2 : Env w w') (h3 : w'.openOrders = w.openOrders)
    (h4 : w'.auctionOrders = w.auctionOrders) : Same w w' := by
  refine ⟨⟨h2, fun k => ?_⟩, h3, h4⟩
  unfold fz; rw [h1]
  cases w.pf.accounts[k]? <;> simp

theorem apply_Same (w : World) (k : Nat) (op : AcctOp) (h : ∀ a : Acct, (a.stepOp op).frozen = a.frozen) :
    Same w (w.apply k op) := ⟨apply_same w k op h, apply_open w k op, apply_auction w k op⟩

theorem setCommRem_Same (w : World) (key v) : Same w (w.setCommRem key v) := by
  unfold World.setCommRem; split <;> exact Same.of_pf rfl ⟨rfl, rfl, rfl⟩ rfl rfl
theorem addTurnover_Same (w : World) (ins q) : Same w (w.addTurnover ins q) := by
  unfold World.addTurnover; split <;> exact Same.of_pf rfl ⟨rfl, rfl, rfl⟩ rfl rfl
theorem tradeFee_Same (w : World) (wi oid isBuy eff q p ct) : Same w (w.tradeFee wi oid isBuy eff q p ct).2 := by
  unfold World.tradeFee; split
  · exact Same.refl w
  · exact setCommRem_Same w _ _

theorem Same.reserveInv {w w' : World} (h : Same w w') (hinv : ReserveInv w) : ReserveInv w' := by
  refine reserveInv_of_delta h.1 hinv (fun k => ?_)
  rw [h.2.1, h.2.2, add_zero]
theorem Same.booksWF {w w' : World} (h : Same w w') (hwf : BooksWF w) : BooksWF w' := by
  unfold BooksWF; rw [h.2.1, h.2.2]; exact hwf

/-! ### one matcher call -/

set_option linter.unusedTactic false in
theorem matchPre_inl (cfg : MCfg) (ic : InsCfg) (o : Ord) (b : MBar) (oa : Bool) (tv : Int) (out : MOutcome)
    (h : matchPre cfg ic o b oa tv = .inl out) : out = .rest ∨ out = .rejected ∨ out = .cancelled ∨ out = .raises := by
  unfold matchPre at h
  simp only [] at h
  repeat' split at h
  all_goals first
    | (cases h <;> simp; done)
    | skip
  all_goals
    rename_i hps
    cases h
    split_ifs at hps <;> cases hps <;> simp

set_option linter.unusedTactic false in
theorem matchPre_inr (cfg : MCfg) (ic : InsCfg) (o : Ord) (b : MBar) (oa : Bool) (tv : Int) (f : Int) (price : R)
    (h : matchPre cfg ic o b oa tv = .inr (f, price)) (hu : 0 < o.unfilled) : 0 < f ∧ f ≤ o.unfilled := by
  unfold matchPre at h
  simp only [] at h
  repeat' split at h
  all_goals first
    | (cases h; done)
    | skip
  all_goals
    cases h
    rename_i _ hf _
    split_ifs at hf <;> cases hf <;> omega

theorem matchPost_cases (cfg : MCfg) (ic : InsCfg) (o : Ord) (f : Int) (price cash fee : R) (ct : Int) :
    matchPost cfg ic o f price cash fee ct = .raises ∨ matchPost cfg ic o f price cash fee ct = .rejected ∨
    matchPost cfg ic o f price cash fee ct = .fill f price ct (!o.isLimit && o.unfilled - f ≠ 0) := by
  unfold matchPost
  simp only []
  split
  · simp
  · split <;> simp


def OrdWF (o : Ord) : Prop := o.isFinal = false ∧ 0 ≤ o.filled ∧ o.filled < o.qty
def ResultOk (o : Ord) : Prop :=
  OrdWF o ∨ (o.isFinal = true ∧ ((o.status == .rejected || o.status == .cancelled) = true ∨ reserveLeft o = 0))

theorem markRejected_eq (o : Ord) (h : o.isFinal = false) : o.markRejected = { o with status := .rejected } := by
  unfold Ord.markRejected; simp [h]
theorem markCancelled_eq (o : Ord) (h : o.isFinal = false) : o.markCancelled = { o with status := .cancelled } := by
  unfold Ord.markCancelled; simp [h]

theorem resK_congr (w : World) (k : Nat) (o o' : Ord) (h1 : o'.ins = o.ins) (h2 : reserveLeft o' = reserveLeft o) :
    resK w k o' = resK w k o := by
  unfold resK acctOfOrd; rw [h1, h2]

theorem orderAfter_nofill (o : Ord) (hwf : OrdWF o) (out : MOutcome)
    (h : out = .rest ∨ out = .rejected ∨ out = .cancelled ∨ out = .raises) (fee : Int → R → R) :
    (orderAfter o fee out).ins = o.ins ∧ (orderAfter o fee out).id = o.id ∧ ResultOk (orderAfter o fee out) ∧
      reserveLeft (orderAfter o fee out) = reserveLeft o := by
  rcases h with rfl | rfl | rfl | rfl
  · exact ⟨rfl, rfl, Or.inl hwf, rfl⟩
  · have e : orderAfter o fee .rejected = o.markRejected := rfl
    rw [e, markRejected_eq o hwf.1]
    exact ⟨rfl, rfl, Or.inr ⟨rfl, Or.inl rfl⟩, rfl⟩
  · have e : orderAfter o fee .cancelled = o.markCancelled := rfl
    rw [e, markCancelled_eq o hwf.1]
    exact ⟨rfl, rfl, Or.inr ⟨rfl, Or.inl rfl⟩, rfl⟩
  · exact ⟨rfl, rfl, Or.inl hwf, rfl⟩

theorem reserve_arith (Q f q : Int) (init : R) (hQ : 0 < Q) (hf : 0 ≤ f) (_hq : 0 < q) (hle : f + q ≤ Q) :
    R.ofInt (Q - (f + q)) / R.ofInt Q * init =
      (if f ≠ 0 then R.ofInt (Q - f) / R.ofInt Q * init else init) +
        -(if q ≠ Q then R.ofInt q / R.ofInt Q * init else init) := by
  have hQ' : (Q : Rat) ≠ 0 := by exact_mod_cast hQ.ne'
  unfold R.ofInt
  by_cases h1 : f = 0
  · subst h1
    by_cases h2 : q = Q
    · subst h2; simp
    · simp only [ne_eq, not_true_eq_false, if_false, h2, not_false_eq_true, if_true]
      push_cast
      field_simp
      ring
  · have h2 : q ≠ Q := by omega
    simp only [ne_eq, h1, not_false_eq_true, if_true, h2]
    push_cast
    field_simp
    ring

theorem fill_spec (o : Ord) (hwf : OrdWF o) (p : R) (q : Int) (fee : R) (cr : Bool) (hq : 0 < q) (hle : q ≤ o.unfilled) :
    (if cr then (o.fill p q fee).markCancelled else o.fill p q fee).ins = o.ins ∧
    (if cr then (o.fill p q fee).markCancelled else o.fill p q fee).id = o.id ∧
    ResultOk (if cr then (o.fill p q fee).markCancelled else o.fill p q fee) ∧
    reserveLeft (if cr then (o.fill p q fee).markCancelled else o.fill p q fee) =
      reserveLeft o + -(if q ≠ o.qty then R.ofInt q / R.ofInt o.qty * o.initFrozen else o.initFrozen) := by
  obtain ⟨hnf, hf0, hfq⟩ := hwf
  unfold Ord.unfilled at hle
  have harith := reserve_arith o.qty o.filled q o.initFrozen (by omega) hf0 hq (by omega)
  have hne : o.filled + q ≠ 0 := by omega
  by_cases hfull : o.qty - (o.filled + q) = 0
  · -- completely filled
    have e1 : o.fill p q fee = { o with
          cost := o.cost + fee,
          avg := (o.avg * R.ofInt o.filled + p * R.ofInt q) / R.ofInt (o.filled + q),
          filled := o.filled + q, status := .filled } := by
      unfold Ord.fill; simp [hfull]
    have hfin : (o.fill p q fee).isFinal = true := by rw [e1]; rfl
    have e2 : (o.fill p q fee).markCancelled = o.fill p q fee := by
      unfold Ord.markCancelled; simp [hfin]
    have hres : reserveLeft (o.fill p q fee) =
        reserveLeft o + -(if q ≠ o.qty then R.ofInt q / R.ofInt o.qty * o.initFrozen else o.initFrozen) := by
      rw [e1]; unfold reserveLeft; simp only [ne_eq, hne, not_false_eq_true, if_true]; exact harith
    have hz : reserveLeft (o.fill p q fee) = 0 := by
      rw [e1]; unfold reserveLeft; simp only [ne_eq, hne, not_false_eq_true, if_true, hfull, R.ofInt]; simp
    rw [e2, ite_self]
    refine ⟨by rw [e1], by rw [e1], Or.inr ⟨hfin, Or.inr hz⟩, hres⟩
  · have e1 : o.fill p q fee = { o with
          cost := o.cost + fee,
          avg := (o.avg * R.ofInt o.filled + p * R.ofInt q) / R.ofInt (o.filled + q),
          filled := o.filled + q } := by
      unfold Ord.fill; simp [hfull]
    have hnf1 : (o.fill p q fee).isFinal = false := by rw [e1]; exact hnf
    have hres : reserveLeft (o.fill p q fee) =
        reserveLeft o + -(if q ≠ o.qty then R.ofInt q / R.ofInt o.qty * o.initFrozen else o.initFrozen) := by
      rw [e1]; unfold reserveLeft; simp only [ne_eq, hne, not_false_eq_true, if_true]; exact harith
    cases cr
    · simp only [Bool.false_eq_true, if_false]
      refine ⟨by rw [e1], by rw [e1], Or.inl ?_, hres⟩
      rw [e1]; exact ⟨hnf, by show 0 ≤ o.filled + q; omega, by show o.filled + q < o.qty; omega⟩
    · simp only [if_true]
      rw [markCancelled_eq _ hnf1]
      refine ⟨by rw [e1], by rw [e1], Or.inr ⟨rfl, Or.inl rfl⟩, ?_⟩
      rw [← hres]; rfl

theorem resK_of_acct (w : World) (j k : Nat) (o : Ord) (h : acctOfOrd w o = some k) :
    resK w j o = if j = k then reserveLeft o else 0 := by
  unfold resK; rw [h]
  by_cases hj : j = k
  · subst hj; simp
  · have : k ≠ j := fun e => hj e.symm
    simp [hj, this]

/-- what one matcher call does: the books are not touched, the order keeps its identity, and the reserved cash of every account moves
by exactly the change of what the order still holds -/
def MatchSpec (w : World) (o : Ord) (r : World × Ord × List WEv) : Prop :=
  r.1.openOrders = w.openOrders ∧ r.1.auctionOrders = w.auctionOrders ∧
  r.2.1.ins = o.ins ∧ r.2.1.id = o.id ∧ ResultOk r.2.1 ∧
  Delta w r.1 (fun k => resK w k r.2.1 - resK w k o)

theorem matchSpec_triv (w : World) (o : Ord) (hwf : OrdWF o) (evs : List WEv) : MatchSpec w o (w, o, evs) :=
  ⟨rfl, rfl, rfl, rfl, Or.inl hwf, (Delta.refl w).congr (fun _ => (sub_self _).symm)⟩

theorem matchSpec_nofill (w w' : World) (o : Ord) (hwf : OrdWF o) (hs : Same w w') (out : MOutcome)
    (h : out = .rest ∨ out = .rejected ∨ out = .cancelled ∨ out = .raises) (evs : List WEv) :
    MatchSpec w o (w', orderAfter o (fun _ _ => 0) out, evs) := by
  obtain ⟨h1, h2, h3, h4⟩ := orderAfter_nofill o hwf out h (fun _ _ => 0)
  refine ⟨hs.2.1, hs.2.2, h1, h2, h3, hs.1.congr (fun j => ?_)⟩
  show (0 : R) = _
  rw [resK_congr w j o _ h1 h4, sub_self]

theorem matchOne_spec (w : World) (auction : Bool) (o : Ord) (hwf : OrdWF o) : MatchSpec w o (w.matchOne auction o) := by
  unfold World.matchOne
  rw [if_neg (by simp [hwf.1])]
  split
  · exact matchSpec_triv w o hwf _
  · split
    · rename_i wi d hwi hd
      split
      · exact matchSpec_triv w o hwf _
      · rename_i k hk
        have hacct : acctOfOrd w o = some k := by unfold acctOfOrd; rw [hwi]; exact hk
        extract_lets b isLong cl w1
        have hs1 : Same w w1 := apply_Same w k _ (fun a => stepOp_touch a _ _ _)
        clear_value w1
        split
        · rename_i out hout
          exact matchSpec_nofill w w o hwf (Same.refl w) out (matchPre_inl _ _ _ _ _ _ _ hout) _
        · rename_i f price hpre
          have hu : 0 < o.unfilled := by unfold Ord.unfilled; have := hwf.2.2; omega
          obtain ⟨hf0, hfu⟩ := matchPre_inr _ _ _ _ _ _ _ _ hpre hu
          extract_lets ct
          have hs2 := tradeFee_Same w1 wi (some o.id) o.isBuy o.effect f price ct
          split
          rename_i fee w2 hfee
          rw [hfee] at hs2
          have hs12 : Same w w2 := hs1.trans hs2
          extract_lets cash out
          have hout : out = .raises ∨ out = .rejected ∨ out = .fill f price ct (!o.isLimit && o.unfilled - f ≠ 0) :=
            matchPost_cases (w2.mcfg wi) wi.cfg o f price (cash + o.initFrozen) fee ct
          clear_value out cash
          rcases hout with h | h | h
          · rw [h]
            exact matchSpec_nofill w w2 o hwf hs12 _ (by simp) _
          · rw [h]
            exact matchSpec_nofill w w2 o hwf hs12 _ (by simp) _
          · rw [h]
            dsimp only
            obtain ⟨h1, h2, h3, h4⟩ := fill_spec o hwf price f fee (!o.isLimit && decide (o.unfilled - f ≠ 0)) hf0 hfu
            have hs3 := hs12.trans (addTurnover_Same w2 o.ins f)
            have hd := hs3.1.trans (apply_delta (w2.addTurnover o.ins f) k
              (.trade o.ins wi.cfg cl isLong { price := price, qty := f, effect := o.effect, fee := fee } (some (o.qty, o.initFrozen))) _
              (fun a => stepOp_trade_some a _ _ _ _ _ _ _))
            refine ⟨?_, ?_, h1, h2, h3, hd.congr (fun j => ?_)⟩
            · rw [apply_open]; exact hs3.2.1
            · rw [apply_auction]; exact hs3.2.2
            · rw [resK_of_acct w j k _ (by unfold acctOfOrd; rw [h1]; exact hacct), resK_of_acct w j k o hacct, h4]
              split <;> simp
    · exact matchSpec_triv w o hwf _

/-! ### a matching round -/

/-- a whole pass over a list of orders: "results so far ++ orders still to do" hold what is reserved -/
def ListSpec (w : World) (l : List Ord) (r : World × List Ord × List WEv) : Prop :=
  r.1.openOrders = w.openOrders ∧ r.1.auctionOrders = w.auctionOrders ∧
  r.2.1.map (·.id) = l.map (·.id) ∧ (∀ o ∈ r.2.1, ResultOk o) ∧
  Delta w r.1 (fun k => resSum w k r.2.1 - resSum w k l)

theorem matchList_spec (w : World) (auction : Bool) (l : List Ord) (hl : ∀ o ∈ l, OrdWF o) :
    ListSpec w l (w.matchList auction l) := by
  induction l generalizing w with
  | nil => exact ⟨rfl, rfl, rfl, by simp [World.matchList], (Delta.refl w).congr (fun _ => (sub_self _).symm)⟩
  | cons o rest ih =>
    have h1 := matchOne_spec w auction o (hl o (by simp))
    rcases hm : w.matchOne auction o with ⟨w1, o1, e1⟩
    rw [hm] at h1
    have h2 := ih w1 (fun x hx => hl x (by simp [hx]))
    rcases hm2 : w1.matchList auction rest with ⟨w2, os, e2⟩
    rw [hm2] at h2
    simp only [World.matchList, hm, hm2]
    obtain ⟨a1, a2, a3, a4, a5, a6⟩ := h1
    obtain ⟨b1, b2, b3, b4, b5⟩ := h2
    dsimp only at a1 a2 a3 a4 a5 a6 b1 b2 b3 b4 b5
    refine ⟨b1.trans a1, b2.trans a2, by simp [a4, b3], ?_, (a6.trans b5).congr (fun k => ?_)⟩
    · intro x hx
      rcases List.mem_cons.1 hx with rfl | hx
      · exact a5
      · exact b4 x hx
    · rw [a6.1.resSum, a6.1.resSum, resSum_cons, resSum_cons]; ring

theorem announce_spec (w : World) (o : Ord) :
    (w.announce o).openOrders = w.openOrders ∧ (w.announce o).auctionOrders = w.auctionOrders ∧
    Delta w (w.announce o) (fun k => - resK w k o) := by
  unfold World.announce
  split
  · rename_i k hk
    refine ⟨apply_open _ _ _, apply_auction _ _ _, ?_⟩
    refine (apply_delta w k _ _ (fun a => stepOp_unsolicited a _ _ _)).congr (fun j => ?_)
    rw [resK_of_acct w j k o hk]
    unfold reserveLeft
    split <;> simp
  · rename_i hk
    refine ⟨rfl, rfl, (Delta.refl w).congr (fun j => ?_)⟩
    unfold resK acctOfOrd
    rw [hk]; simp

theorem announce_foldl_spec (w : World) (l : List Ord) :
    (l.foldl World.announce w).openOrders = w.openOrders ∧ (l.foldl World.announce w).auctionOrders = w.auctionOrders ∧
    Delta w (l.foldl World.announce w) (fun k => - resSum w k l) := by
  induction l generalizing w with
  | nil => exact ⟨rfl, rfl, (Delta.refl w).congr (fun _ => by simp [resSum])⟩
  | cons o rest ih =>
    obtain ⟨a1, a2, a3⟩ := announce_spec w o
    obtain ⟨b1, b2, b3⟩ := ih (w.announce o)
    refine ⟨b1.trans a1, b2.trans a2, (a3.trans b3).congr (fun k => ?_)⟩
    rw [a3.1.resSum, resSum_cons]; ring

theorem resSum_split (w : World) (k : Nat) (l : List Ord) (hl : ∀ o ∈ l, ResultOk o) :
    resSum w k l = resSum w k (l.filter (fun o => !o.isFinal)) +
      resSum w k ((l.filter (·.isFinal)).filter (fun o => o.status == .rejected || o.status == .cancelled)) := by
  induction l with
  | nil => simp [resSum]
  | cons o rest ih =>
    have ih' := ih (fun x hx => hl x (by simp [hx]))
    rcases hl o (by simp) with h | ⟨hf, h | h⟩
    · simp only [List.filter_cons, h.1, Bool.not_false, if_true, Bool.false_eq_true, if_false, resSum_cons]
      rw [ih']; ring
    · simp only [List.filter_cons, hf, Bool.not_true, if_true, Bool.false_eq_true, if_false, h, resSum_cons]
      rw [ih']; ring
    · by_cases hs : (o.status == .rejected || o.status == .cancelled) = true
      · simp only [List.filter_cons, hf, Bool.not_true, if_true, Bool.false_eq_true, if_false, hs, resSum_cons]
        rw [ih']; ring
      · have hz : resK w k o = 0 := by unfold resK; rw [h]; simp
        simp only [List.filter_cons, hf, Bool.not_true, if_true, Bool.false_eq_true, if_false, hs, resSum_cons]
        rw [ih', hz]; ring

def bookIds (w : World) : List Nat := (w.openOrders ++ w.auctionOrders).map (·.id)

theorem booksWF_iff (w : World) : BooksWF w ↔ ∀ o ∈ w.openOrders ++ w.auctionOrders, OrdWF o := Iff.rfl

theorem matchRound_spec (w : World) (hwf : BooksWF w) (hinv : ReserveInv w) :
    ReserveInv w.matchRound.1 ∧ BooksWF w.matchRound.1 ∧ (bookIds w.matchRound.1).Sublist (bookIds w) := by
  have hwf1 : ∀ o ∈ w.openOrders, OrdWF o := fun o ho => hwf o (List.mem_append_left _ ho)
  have hwf2 : ∀ o ∈ w.auctionOrders, OrdWF o := fun o ho => hwf o (List.mem_append_right _ ho)
  unfold World.matchRound
  have h1 := matchList_spec w false w.openOrders hwf1
  rcases hm1 : w.matchList false w.openOrders with ⟨w1, r1, e1⟩
  rw [hm1] at h1
  obtain ⟨a1, a2, a3, a4, a5⟩ := h1
  dsimp only at a1 a2 a3 a4 a5
  dsimp only
  have h2 := matchList_spec w1 true w1.auctionOrders (by rw [a2]; exact hwf2)
  rcases hm2 : w1.matchList true w1.auctionOrders with ⟨w2, r2, e2⟩
  rw [hm2] at h2
  obtain ⟨b1, b2, b3, b4, b5⟩ := h2
  dsimp only at b1 b2 b3 b4 b5
  dsimp only
  have hall : ∀ o ∈ r1 ++ r2, ResultOk o := by
    intro o ho
    rcases List.mem_append.1 ho with h | h
    · exact a4 o h
    · exact b4 o h
  obtain ⟨c1, c2, c3⟩ := announce_foldl_spec w2
    (((r1 ++ r2).filter (·.isFinal)).filter (fun o => o.status == .rejected || o.status == .cancelled))
  generalize (List.foldl World.announce w2
    (((r1 ++ r2).filter (·.isFinal)).filter (fun o => o.status == .rejected || o.status == .cancelled))) = w3 at c1 c2 c3 ⊢
  have hd := (a5.trans b5).trans c3
  refine ⟨?_, ?_, ?_⟩
  · refine reserveInv_of_delta (w' := { w3 with openOrders := _, auctionOrders := [], finals := _ }) (d := _) ⟨hd.1, hd.2⟩ hinv (fun k => ?_)
    dsimp only
    rw [List.append_nil, a5.1.resSum, a5.1.resSum, (a5.1.trans b5.1).resSum, a2, resSum_append w k w.openOrders]
    have := resSum_split w k (r1 ++ r2) hall
    rw [resSum_append w k r1] at this
    linarith
  · intro o ho
    dsimp only at ho
    rw [List.append_nil, List.mem_filter] at ho
    rcases hall o ho.1 with h | h
    · exact h
    · rw [h.1] at ho; simp at ho
  · unfold bookIds
    dsimp only
    rw [List.append_nil, List.map_append, ← a3, ← a2, ← b3, ← List.map_append]
    exact (List.filter_sublist).map _


/-! ### the inputs one by one -/

theorem Same.bookIds {w w' : World} (h : Same w w') : bookIds w' = bookIds w := by
  unfold WorldC.bookIds; rw [h.2.1, h.2.2]

theorem foldl_Same {α : Type} (f : World → α → World) (hf : ∀ w x, Same w (f w x)) (l : List α) (w : World) :
    Same w (l.foldl f w) := by
  induction l generalizing w with
  | nil => exact Same.refl w
  | cons x xs ih => exact (hf w x).trans (ih (f w x))

theorem resSum_map (w : World) (k : Nat) (f : Ord → Ord) (hf : ∀ o, resK w k (f o) = resK w k o) (l : List Ord) :
    resSum w k (l.map f) = resSum w k l := by
  unfold resSum
  rw [List.map_map]
  congr 1
  exact List.map_congr_left (fun o _ => hf o)

/-! #### PRE_BEFORE_TRADING -/

theorem foldl_snd_Same {α β : Type} (f : β × World → α → β × World) (hf : ∀ acc x, Same acc.2 (f acc x).2)
    (l : List α) (acc : β × World) : Same acc.2 (l.foldl f acc).2 := by
  induction l generalizing acc with
  | nil => exact Same.refl _
  | cons x xs ih => exact (hf acc x).trans (ih (f acc x))

theorem reinvestFees_Same (w : World) (a : Acct) : Same w (w.reinvestFees a).2 := by
  unfold World.reinvestFees
  refine foldl_snd_Same _ (fun acc h => ?_) a.holdings ([], w)
  split
  · exact Same.refl _
  · split
    · extract_lets probe
      split
      · exact tradeFee_Same _ _ _ _ _ _ _ _
      · exact Same.refl _
    · exact Same.refl _

theorem preBeforeTrading_Same (w : World) (today : Nat) (tax : R) (mkt : List DayIns) :
    Same w (w.preBeforeTrading today tax mkt) := by
  unfold World.preBeforeTrading
  have h0 : Same w { w with today := today, taxRate := tax, mkt := mkt, phase := .before, pf := w.pf.preBeforeTrading } := by
    refine Same.of_pf ?_ ⟨rfl, rfl, rfl⟩ rfl rfl
    show (w.pf.preBeforeTrading).accounts = w.pf.accounts
    unfold Pf.preBeforeTrading; split <;> rfl
  refine h0.trans (foldl_Same _ (fun w k => ?_) _ _)
  split
  · exact (reinvestFees_Same w _).trans (apply_Same _ _ _ (fun a => stepOp_beforeTrading a _))
  · exact Same.refl w


/-! #### the other events of the day -/

theorem Delta.of_pf {w w' : World} (h1 : w'.pf.accounts = w.pf.accounts) (h2 : Env w w') : Delta w w' (fun _ => 0) := by
  refine ⟨h2, fun k => ?_⟩
  unfold fz; rw [h1]
  cases w.pf.accounts[k]? <;> simp

theorem ordWF_activate (o : Ord) (h : OrdWF o) : OrdWF o.activate := ⟨rfl, h.2.1, h.2.2⟩

theorem beforeTrading_spec (w : World) (hwf : BooksWF w) (hinv : ReserveInv w) :
    ReserveInv w.beforeTrading.1 ∧ BooksWF w.beforeTrading.1 ∧ bookIds w.beforeTrading.1 = bookIds w := by
  unfold World.beforeTrading
  refine ⟨?_, ?_, ?_⟩
  · refine reserveInv_of_delta (w := w) (d := fun _ => 0) (Delta.of_pf rfl ⟨rfl, rfl, rfl⟩) hinv (fun k => ?_)
    dsimp only
    rw [resSum_append, resSum_append, resSum_map w k Ord.activate (fun o => resK_congr w k o _ rfl rfl), add_zero]
  · intro o ho
    dsimp only at ho
    rcases List.mem_append.1 ho with h | h
    · obtain ⟨o0, ho0, rfl⟩ := List.mem_map.1 h
      exact ordWF_activate o0 (hwf o0 (List.mem_append_left _ ho0))
    · exact hwf o (List.mem_append_right _ h)
  · unfold bookIds
    dsimp only
    rw [List.map_append, List.map_append, List.map_map]
    rfl

theorem onBar_spec (w : World) (hwf : BooksWF w) (hinv : ReserveInv w) :
    ReserveInv w.onBar.1 ∧ BooksWF w.onBar.1 ∧ (bookIds w.onBar.1).Sublist (bookIds w) := by
  unfold World.onBar
  extract_lets w0 w1
  have h0 : Same w w0 := Same.of_pf rfl ⟨rfl, rfl, rfl⟩ rfl rfl
  have h1 : Same w0 w1 := foldl_Same _ (fun _ _ => apply_Same _ _ _ (fun a => stepOp_bar a _)) _ _
  have h2 : Same w1 { w1 with turnover := [] } := Same.of_pf rfl ⟨rfl, rfl, rfl⟩ rfl rfl
  have hs := (h0.trans h1).trans h2
  have := matchRound_spec _ (hs.booksWF hwf) (hs.reserveInv hinv)
  rw [hs.bookIds] at this
  exact this

theorem resK_markRejected (w : World) (k : Nat) (o : Ord) : resK w k o.markRejected = resK w k o := by
  apply resK_congr <;> (unfold Ord.markRejected; split <;> rfl)
theorem resK_markCancelled (w : World) (k : Nat) (o : Ord) : resK w k o.markCancelled = resK w k o := by
  apply resK_congr <;> (unfold Ord.markCancelled; split <;> rfl)

theorem afterTrading_spec (w : World) (hwf : BooksWF w) (hinv : ReserveInv w) :
    ReserveInv w.afterTrading.1 ∧ BooksWF w.afterTrading.1 ∧ (bookIds w.afterTrading.1).Sublist (bookIds w) := by
  unfold World.afterTrading
  extract_lets rej w1
  obtain ⟨c1, c2, c3⟩ := announce_foldl_spec { w with phase := .after } rej
  have c3' : Delta w w1 (fun k => - resSum w k rej) := c3
  have c2' : w1.auctionOrders = w.auctionOrders := c2
  clear_value w1
  refine ⟨?_, ?_, ?_⟩
  · refine reserveInv_of_delta (w' := { w1 with openOrders := [], finals := _ }) (d := _) ⟨c3'.1, c3'.2⟩ hinv (fun k => ?_)
    dsimp only
    rw [c2', resSum_append, resSum_append, resSum_nil,
      show resSum w k rej = resSum w k w.openOrders from resSum_map w k _ (resK_markRejected w k) _]
    ring
  · intro o ho
    dsimp only at ho
    rw [List.nil_append, c2'] at ho
    exact hwf o (List.mem_append_right _ ho)
  · unfold bookIds
    dsimp only
    rw [List.nil_append, c2', List.map_append]
    exact List.sublist_append_right _ _

theorem settlement_Same (w : World) : Same w w.settlement :=
  foldl_Same _ (fun _ _ => apply_Same _ _ _ (fun a => stepOp_settlement a _)) _ _

theorem deposit_Same (w : World) (k : Nat) (amount : R) (recv : Option Nat) : Same w (w.deposit k amount recv).1 := by
  unfold World.deposit
  split
  · split
    · exact Same.refl w
    · split
      · exact (apply_Same w k _ (fun a => stepOp_deposit a _ _)).trans (Same.of_pf rfl ⟨rfl, rfl, rfl⟩ rfl rfl)
      · exact Same.refl w
  · exact Same.refl w


/-! #### strategy calls -/

/-- the account books the reserve and the order enters a book -/
theorem enter_spec (w w2 : World) (k : Nat) (ord : Ord) (hwf : BooksWF w) (hinv : ReserveInv w)
    (hacct : acctOfOrd w ord = some k) (hord : OrdWF ord)
    (hd : Delta w w2 (fun j => if j = k then reserveLeft ord else 0))
    (hb : w2.openOrders = w.openOrders ∧ w2.auctionOrders = w.auctionOrders ++ [ord] ∨
          w2.openOrders = w.openOrders ++ [ord] ∧ w2.auctionOrders = w.auctionOrders) :
    ReserveInv w2 ∧ BooksWF w2 ∧ (bookIds w2).Perm (bookIds w ++ [ord.id]) := by
  refine ⟨reserveInv_of_delta hd hinv (fun j => ?_), ?_, ?_⟩
  · rcases hb with ⟨h1, h2⟩ | ⟨h1, h2⟩ <;>
      (rw [h1, h2]; simp only [resSum_append, resSum_cons, resSum_nil, resK_of_acct w j k ord hacct]; ring)
  · intro o ho
    have : o ∈ w.openOrders ++ w.auctionOrders ∨ o = ord := by
      rcases hb with ⟨h1, h2⟩ | ⟨h1, h2⟩ <;> (rw [h1, h2] at ho; simp at ho ⊢; tauto)
    rcases this with h | rfl
    · exact hwf o h
    · exact hord
  · unfold bookIds
    rcases hb with ⟨h1, h2⟩ | ⟨h1, h2⟩
    · rw [h1, h2]; simp
    · rw [h1, h2]
      simp only [List.map_append, List.map_cons, List.map_nil, List.append_assoc]
      exact List.Perm.append_left _ List.perm_append_comm

theorem submit_spec (w : World) (o : OrderReq) (hwf : BooksWF w) (hinv : ReserveInv w) (hq : 0 < o.qty) :
    ReserveInv (w.submit o).1 ∧ BooksWF (w.submit o).1 ∧
      ∃ l, (bookIds (w.submit o).1).Sublist l ∧ l.Perm (bookIds w ++ [o.id]) := by
  have triv : ReserveInv w ∧ BooksWF w ∧ ∃ l, (bookIds w).Sublist l ∧ l.Perm (bookIds w ++ [o.id]) :=
    ⟨hinv, hwf, _, List.sublist_append_left _ _, List.Perm.refl _⟩
  unfold World.submit
  split
  · rename_i wi d hwi hd
    split
    · exact triv
    · rename_i k hk
      extract_lets frozenPrice init w1 ord w2
      split
      · exact triv
      · have hacct : acctOfOrd w ord = some k := by unfold acctOfOrd; rw [show ord.ins = o.ins from rfl, hwi]; exact hk
        have hd1 : Delta w w1 (fun j => if j = k then reserveLeft ord else 0) :=
          apply_delta w k _ _ (fun a => stepOp_pendingNew a init)
        have h2 : ReserveInv w2 ∧ BooksWF w2 ∧ (bookIds w2).Perm (bookIds w ++ [ord.id]) := by
          have hw2 : w2 = if (w1.phase == WPhase.auction) = true then { w1 with auctionOrders := w1.auctionOrders ++ [ord] }
              else { w1 with openOrders := w1.openOrders ++ [ord] } := rfl
          have ho1 : w1.openOrders = w.openOrders := apply_open _ _ _
          have ha1 : w1.auctionOrders = w.auctionOrders := apply_auction _ _ _
          clear_value w2 w1
          by_cases hp : (w1.phase == WPhase.auction) = true
          · rw [if_pos hp] at hw2
            subst hw2
            exact enter_spec w _ k ord hwf hinv hacct ⟨rfl, le_refl _, hq⟩ ⟨hd1.1, hd1.2⟩
              (Or.inl ⟨ho1, by rw [← ha1]⟩)
          · rw [if_neg hp] at hw2
            subst hw2
            exact enter_spec w _ k ord hwf hinv hacct ⟨rfl, le_refl _, hq⟩ ⟨hd1.1, hd1.2⟩
              (Or.inr ⟨by rw [← ho1], ha1⟩)
        clear_value w2
        split
        · obtain ⟨m1, m2, m3⟩ := matchRound_spec w2 h2.2.1 h2.1
          exact ⟨m1, m2, _, m3, h2.2.2⟩
        · exact ⟨h2.1, h2.2.1, _, List.Sublist.refl _, h2.2.2⟩
  · exact triv

theorem resSum_filter_id (w : World) (k : Nat) (l : List Ord) (o : Ord) (ho : o ∈ l) (hnd : (l.map (·.id)).Nodup) :
    resSum w k (l.filter (·.id != o.id)) = resSum w k l - resK w k o := by
  induction l with
  | nil => cases ho
  | cons x xs ih =>
    rw [List.map_cons, List.nodup_cons] at hnd
    rcases List.mem_cons.1 ho with rfl | h
    · have : xs.filter (·.id != o.id) = xs := by
        rw [List.filter_eq_self]
        intro y hy
        have : y.id ≠ o.id := fun e => hnd.1 (e ▸ List.mem_map_of_mem hy)
        simpa using this
      simp only [List.filter_cons, bne_self_eq_false, Bool.false_eq_true, if_false, this, resSum_cons]
      ring
    · have hne : x.id ≠ o.id := fun e => hnd.1 (e ▸ List.mem_map_of_mem h)
      have : (x.id != o.id) = true := by simpa using hne
      simp only [List.filter_cons, this, if_true, resSum_cons, ih h hnd.2]
      ring

theorem cancel_spec (w : World) (id : Nat) (hwf : BooksWF w) (hinv : ReserveInv w) (hnd : (bookIds w).Nodup) :
    ReserveInv (w.cancel id).1 ∧ BooksWF (w.cancel id).1 ∧ (bookIds (w.cancel id).1).Sublist (bookIds w) := by
  unfold World.cancel
  split
  · exact ⟨hinv, hwf, List.Sublist.refl _⟩
  · rename_i o hfind
    have hmem : o ∈ w.openOrders ++ w.auctionOrders := List.mem_of_find?_eq_some hfind
    have hid : o.id = id := by simpa using List.find?_some hfind
    subst hid
    extract_lets oc w1
    obtain ⟨c1, c2, c3⟩ := announce_spec w oc
    have c1' : w1.openOrders = w.openOrders := c1
    have c2' : w1.auctionOrders = w.auctionOrders := c2
    have c3' : Delta w w1 (fun k => - resK w k o) := c3.congr (fun k => by rw [resK_markCancelled])
    clear_value w1
    refine ⟨?_, ?_, ?_⟩
    · refine reserveInv_of_delta (w' := { w1 with openOrders := _, auctionOrders := _, finals := _ }) (d := _)
        ⟨c3'.1, c3'.2⟩ hinv (fun k => ?_)
      dsimp only
      rw [c1', c2', ← List.filter_append, resSum_filter_id w k _ o hmem hnd]
      ring
    · intro x hx
      dsimp only at hx
      rw [c1', c2', ← List.filter_append] at hx
      exact hwf x (List.mem_filter.1 hx).1
    · unfold bookIds
      dsimp only
      rw [c1', c2', ← List.filter_append]
      exact List.filter_sublist.map _


/-! ### one input -/

/-- the id of the order an input submits -/
def submittedId : WIn → List Nat
  | .submit o => [o.id]
  | _ => []

/-- the ids of the orders an input list submits, in order -/
def submittedIds (ins : List WIn) : List Nat := ins.flatMap submittedId

/-- order ids in the books are pairwise different (ids come from a counter) -/
def IdsNodup (w : World) : Prop := (bookIds w).Nodup

/-- a submitted order carries an id no resting order has -/
def FreshId (w : World) : WIn → Prop
  | .submit o => o.id ∉ bookIds w
  | _ => True

theorem ids_of_sublist {x b : List Nat} (h : x.Sublist b) (s : List Nat) (hs : s = []) :
    ∃ l, x.Sublist l ∧ l.Perm (b ++ s) := ⟨b, h, by subst hs; simp⟩

/-- every input except a cancellation keeps the invariant unconditionally; a cancellation needs pairwise different ids in the books.
The ids resting afterwards are among the ids resting before plus the submitted one. -/
theorem step_core (w : World) (i : WIn) (hwf : BooksWF w) (hinv : ReserveInv w) (hi : InputOk i)
    (hc : (∃ id, i = .cancel id) → IdsNodup w) :
    ReserveInv (w.step i).1 ∧ BooksWF (w.step i).1 ∧
      ∃ l, (bookIds (w.step i).1).Sublist l ∧ l.Perm (bookIds w ++ submittedId i) := by
  have same : ∀ w' : World, Same w w' → ReserveInv w' ∧ BooksWF w' ∧
      ∃ l, (bookIds w').Sublist l ∧ l.Perm (bookIds w ++ []) :=
    fun w' h => ⟨h.reserveInv hinv, h.booksWF hwf, ids_of_sublist (by rw [h.bookIds]) _ rfl⟩
  cases i with
  | preBeforeTrading today tax mkt => exact same _ (preBeforeTrading_Same w today tax mkt)
  | beforeTrading =>
    obtain ⟨h1, h2, h3⟩ := beforeTrading_spec w hwf hinv
    exact ⟨h1, h2, ids_of_sublist (h3 ▸ List.Sublist.refl _) _ rfl⟩
  | openAuction => exact same _ (Same.of_pf rfl ⟨rfl, rfl, rfl⟩ rfl rfl)
  | barData rows => exact same _ (Same.of_pf rfl ⟨rfl, rfl, rfl⟩ rfl rfl)
  | bar =>
    obtain ⟨h1, h2, h3⟩ := onBar_spec w hwf hinv
    exact ⟨h1, h2, ids_of_sublist h3 _ rfl⟩
  | afterTrading =>
    obtain ⟨h1, h2, h3⟩ := afterTrading_spec w hwf hinv
    exact ⟨h1, h2, ids_of_sublist h3 _ rfl⟩
  | settlement => exact same _ (settlement_Same w)
  | submit o => exact submit_spec w o hwf hinv hi
  | cancel id =>
    obtain ⟨h1, h2, h3⟩ := cancel_spec w id hwf hinv (hc ⟨id, rfl⟩)
    exact ⟨h1, h2, ids_of_sublist h3 _ rfl⟩
  | deposit k amount recv => exact same _ (deposit_Same w k amount recv)
  | finance k amount => exact same _ (apply_Same w k _ (fun a => stepOp_finance a _))


/-! ### the original statements, and why three of them are dropped

DROPPED (false as written): `step_reserveInv`, `run_reserveInv`, `no_orders_no_reserve`.

    theorem step_reserveInv (w : World) (i : WIn) (hwf : BooksWF w) (hinv : ReserveInv w) (hi : InputOk i) :
        ReserveInv (w.step i).1 ∧ BooksWF (w.step i).1
    theorem run_reserveInv (w : World) (ins : List WIn) (hwf : BooksWF w) (hinv : ReserveInv w) (hi : ∀ i ∈ ins, InputOk i) :
        ReserveInv (w.run ins).1 ∧ BooksWF (w.run ins).1
    theorem no_orders_no_reserve (w : World) (ins : List WIn) (hwf : BooksWF w) (hinv : ReserveInv w) (hi : ∀ i ∈ ins, InputOk i)
        (ho : (w.run ins).1.openOrders = []) (ha : (w.run ins).1.auctionOrders = []) :
        ∀ (k : Nat) (a : Acct), (w.run ins).1.pf.accounts[k]? = some a → a.frozen = 0

Reason: `World.cancel id` releases the reserve of the FIRST resting order with that id but removes EVERY resting order with that id
from both books.  Nothing in `BooksWF` / `InputOk` keeps two resting orders from carrying the same id (`submit` does not look at the
id), so with two such orders a cancellation leaves reserved cash no resting order accounts for.  The counterexample below (`ceW`: two
resting orders with id 7 holding 1 each, 2 reserved; then `cancel 7`) refutes all three statements formally
(`step_reserveInv_false`, `run_reserveInv_false`, `no_orders_no_reserve_false`).

Corrected statements (proved below): the books hold pairwise different ids (`IdsNodup`), and a run submits pairwise different ids
that no resting order has (`(bookIds w ++ submittedIds ins).Nodup`) — what the order-id counter of the real system guarantees.
Every input other than a cancellation keeps the invariant without any assumption on ids (`step_reserveInv_partial`). -/

namespace Counterexample

def ceIns : WIns :=
  { ins := 1, cfg := { isFuture := false, mult := 1, marginRatio := 1, marginMult := 1, tplus := true, lot := 100 },
    isCS := true, typeKey := 0, tick := 1,
    futCost := { byMoney := true, openR := 0, closeR := 0, closeTodayR := 0, contractMult := 1, commMult := 1 } }
def ceSw : Switches := { position := true, price := true, isTrading := true, cash := true, selfTrade := true }
def ceCfg : WCfg :=
  { instruments := [ceIns], priceLimit := true, inactiveLimit := true, volumeLimit := true, volumePercent := 1,
    slipKind := 0, slipRate := 0, stockCost := { rate := 0, mult := 1, minC := 0, taxRate := 0, taxMult := 1 },
    swStock := ceSw, swFut := ceSw, tplusOn := true, reinvest := false, forced := false, matchImmediately := false, daily := false }
def ceOrd : Ord :=
  { id := 7, ins := 1, isBuy := true, isLimit := true, limitPrice := 1, effect := .open_, qty := 100, filled := 0,
    status := .active, avg := 0, cost := 0, frozenPrice := 1, initFrozen := 1 }
def ceAcct : Acct :=
  { totalCash := 10, frozen := 2, liabilities := 0, pending := [], mgmtFees := 0, mgmtRate := 0, finRate := 0, holdings := [] }
def ceW : World :=
  { cfg := ceCfg, pf := { accounts := [ceAcct], units := 10, staticNav := 1 }, stockIdx := some 0, futIdx := none,
    openOrders := [ceOrd, ceOrd], auctionOrders := [], finals := [], turnover := [], commMap := [], mkt := [], today := 0,
    taxRate := 0, phase := .bar, log := [] }

theorem ce_acct : acctOfOrd ceW ceOrd = some 0 := rfl
theorem ce_res : reserveLeft ceOrd = 1 := by simp [reserveLeft, ceOrd]

theorem ce_wf : BooksWF ceW := by
  intro o ho
  have : o = ceOrd := by simpa [ceW] using ho
  subst this
  exact ⟨rfl, by decide, by decide⟩

theorem ce_inv : ReserveInv ceW := by
  rw [reserveInv_iff]
  intro k r hr
  have hk : k = 0 := by
    rcases k with _ | k
    · rfl
    · simp [fz, ceW] at hr
  subst hk
  have : r = 2 := by simpa [fz, ceW, ceAcct] using hr.symm
  subst this
  show (2 : R) = resSum ceW 0 ([ceOrd, ceOrd] ++ [])
  simp only [List.append_nil, resSum_cons, resSum_nil, resK_of_acct ceW 0 0 ceOrd ce_acct, ce_res]
  norm_num

theorem ce_after_books : (ceW.step (.cancel 7)).1.openOrders = [] ∧ (ceW.step (.cancel 7)).1.auctionOrders = [] := by
  constructor <;> rfl


theorem ce_not_inv : ¬ ReserveInv (ceW.step (.cancel 7)).1 := by
  intro h
  have h0 := h 0 { ceAcct with frozen := 2 - 1 } rfl
  have hb : bookReserve (ceW.step (.cancel 7)).1 0 = 0 := by
    rw [bookReserve_eq, ce_after_books.1, ce_after_books.2]; rfl
  rw [hb] at h0
  norm_num at h0

/-- the statement `step_reserveInv` as originally given is false -/
theorem step_reserveInv_false :
    ¬ ∀ (w : World) (i : WIn), BooksWF w → ReserveInv w → InputOk i → ReserveInv (w.step i).1 ∧ BooksWF (w.step i).1 :=
  fun H => ce_not_inv (H ceW (.cancel 7) ce_wf ce_inv trivial).1

/-- the statement `run_reserveInv` as originally given is false -/
theorem run_reserveInv_false :
    ¬ ∀ (w : World) (ins : List WIn), BooksWF w → ReserveInv w → (∀ i ∈ ins, InputOk i) →
      ReserveInv (w.run ins).1 ∧ BooksWF (w.run ins).1 :=
  fun H => ce_not_inv (H ceW [.cancel 7] ce_wf ce_inv (fun _ _ => by simp_all [InputOk])).1

/-- the statement `no_orders_no_reserve` as originally given is false -/
theorem no_orders_no_reserve_false :
    ¬ ∀ (w : World) (ins : List WIn), BooksWF w → ReserveInv w → (∀ i ∈ ins, InputOk i) →
      (w.run ins).1.openOrders = [] → (w.run ins).1.auctionOrders = [] →
      ∀ (k : Nat) (a : Acct), (w.run ins).1.pf.accounts[k]? = some a → a.frozen = 0 := by
  intro H
  have := H ceW [.cancel 7] ce_wf ce_inv (fun _ _ => by simp_all [InputOk]) rfl rfl 0 { ceAcct with frozen := 2 - 1 } rfl
  norm_num at this


end Counterexample

/-- one input keeps the invariant: unconditionally for every input that is not a cancellation -/
theorem step_reserveInv_partial (w : World) (i : WIn) (hwf : BooksWF w) (hinv : ReserveInv w) (hi : InputOk i)
    (hc : ∀ id, i ≠ .cancel id) :
    ReserveInv (w.step i).1 ∧ BooksWF (w.step i).1 := by
  obtain ⟨h1, h2, _⟩ := step_core w i hwf hinv hi (fun ⟨id, h⟩ => absurd h (hc id))
  exact ⟨h1, h2⟩

/-- one input keeps the invariant when the resting orders carry pairwise different ids -/
theorem step_reserveInv_uniqueIds (w : World) (i : WIn) (hwf : BooksWF w) (hinv : ReserveInv w) (hi : InputOk i)
    (hnd : IdsNodup w) :
    ReserveInv (w.step i).1 ∧ BooksWF (w.step i).1 := by
  obtain ⟨h1, h2, _⟩ := step_core w i hwf hinv hi (fun _ => hnd)
  exact ⟨h1, h2⟩

/-- ... and the ids stay pairwise different when a submitted order carries a fresh id -/
theorem step_idsNodup (w : World) (i : WIn) (hwf : BooksWF w) (hinv : ReserveInv w) (hi : InputOk i)
    (hnd : IdsNodup w) (hfresh : FreshId w i) : IdsNodup (w.step i).1 := by
  obtain ⟨_, _, l, hl1, hl2⟩ := step_core w i hwf hinv hi (fun _ => hnd)
  refine List.Nodup.sublist hl1 (hl2.nodup_iff.2 ?_)
  cases i with
  | submit o =>
    refine List.nodup_append.2 ⟨hnd, by simp [submittedId], fun a ha b hb => ?_⟩
    have : b = o.id := by simpa [submittedId] using hb
    subst this
    exact fun e => hfresh (e ▸ ha)
  | _ => simpa [submittedId, IdsNodup] using hnd

theorem submittedIds_cons (i : WIn) (rest : List WIn) : submittedIds (i :: rest) = submittedId i ++ submittedIds rest := by
  simp [submittedIds]

/-- **every reachable state**: for every input list whose submitted orders have positive quantities and pairwise different ids
that no resting order has -/
theorem run_reserveInv_uniqueIds (w : World) (ins : List WIn) (hwf : BooksWF w) (hinv : ReserveInv w) (hi : ∀ i ∈ ins, InputOk i)
    (hids : (bookIds w ++ submittedIds ins).Nodup) :
    ReserveInv (w.run ins).1 ∧ BooksWF (w.run ins).1 ∧ IdsNodup (w.run ins).1 := by
  induction ins generalizing w with
  | nil => exact ⟨hinv, hwf, by simpa [submittedIds, IdsNodup, World.run] using hids⟩
  | cons i rest ih =>
    rw [submittedIds_cons, ← List.append_assoc] at hids
    have hnd : IdsNodup w := (List.nodup_append.1 (List.nodup_append.1 hids).1).1
    obtain ⟨h1, h2, l, hl1, hl2⟩ := step_core w i hwf hinv (hi i (by simp)) (fun _ => hnd)
    have hids' : (bookIds (w.step i).1 ++ submittedIds rest).Nodup :=
      List.Nodup.sublist (hl1.append_right _) ((hl2.append_right _).nodup_iff.2 hids)
    have := ih (w.step i).1 h2 h1 (fun x hx => hi x (by simp [hx])) hids'
    rcases hs : w.step i with ⟨w1, e1⟩
    rw [hs] at this
    rcases hr : w1.run rest with ⟨w2, e2⟩
    rw [hr] at this
    simp only [World.run, hs, hr]
    exact this

/-- a world without resting orders and without reserved cash (the start of every run) satisfies both -/
theorem start_ok (w : World) (ho : w.openOrders = []) (ha : w.auctionOrders = [])
    (hf : ∀ (k : Nat) (a : Acct), w.pf.accounts[k]? = some a → a.frozen = 0) : ReserveInv w ∧ BooksWF w := by
  constructor
  · intro k a hka
    rw [hf k a hka, bookReserve_eq, ho, ha]
    rfl
  · intro o hmem
    rw [ho, ha] at hmem
    cases hmem

/-- corollary: whenever no order rests (for instance after the close), no account has cash in reserve -/
theorem no_orders_no_reserve_uniqueIds (w : World) (ins : List WIn) (hwf : BooksWF w) (hinv : ReserveInv w)
    (hi : ∀ i ∈ ins, InputOk i) (hids : (bookIds w ++ submittedIds ins).Nodup)
    (ho : (w.run ins).1.openOrders = []) (ha : (w.run ins).1.auctionOrders = []) :
    ∀ (k : Nat) (a : Acct), (w.run ins).1.pf.accounts[k]? = some a → a.frozen = 0 := by
  intro k a hka
  have h := (run_reserveInv_uniqueIds w ins hwf hinv hi hids).1 k a hka
  rw [h, bookReserve_eq, ho, ha]
  rfl

/-- from the start of a run: no resting orders, no reserved cash, pairwise different submitted ids -/
theorem run_from_start (w : World) (ins : List WIn) (ho : w.openOrders = []) (ha : w.auctionOrders = [])
    (hf : ∀ (k : Nat) (a : Acct), w.pf.accounts[k]? = some a → a.frozen = 0)
    (hi : ∀ i ∈ ins, InputOk i) (hids : (submittedIds ins).Nodup) :
    ReserveInv (w.run ins).1 ∧ BooksWF (w.run ins).1 := by
  obtain ⟨h1, h2⟩ := start_ok w ho ha hf
  have hb : bookIds w = [] := by unfold bookIds; rw [ho, ha]; rfl
  obtain ⟨r1, r2, _⟩ := run_reserveInv_uniqueIds w ins h2 h1 hi (by rw [hb]; simpa using hids)
  exact ⟨r1, r2⟩

end RQ.Lemmas.WorldC

/-
World-level lemmas, part B: what a whole run does to an account is a list of account operations (refinement to the component model
the C01 / C02 / C09 / C10 theorems quantify over); runs compose; the order books hold live orders only.
-/
import RQ.Model.World
import Mathlib.Tactic.SplitIfs

namespace RQ.Lemmas.WorldB
open RQ.Q

/-- an account after a list of operations -/
def replay (a : Acct) (ops : List AcctOp) : Acct := ops.foldl Acct.stepOp a
/-- the operations of account `k` in a piece of the ghost log (the log is kept most-recent-first) -/
def opsOf (k : Nat) (newLog : List (Nat × AcctOp)) : List AcctOp := ((newLog.reverse).filter (·.1 == k)).map (·.2)
/-- what a piece of world evolution may do to the accounts: the log grows by `newLog`, and every account is its old self after
exactly its operations in `newLog`, in order -/
def Refines (w w' : World) : Prop :=
  ∃ newLog : List (Nat × AcctOp), w'.log = newLog ++ w.log ∧ w'.pf.accounts.length = w.pf.accounts.length ∧
    ∀ k : Nat, w'.pf.accounts[k]? = (w.pf.accounts[k]?).map (fun a => replay a (opsOf k newLog))

theorem opsOf_nil (k : Nat) : opsOf k [] = [] := rfl
theorem opsOf_append (k : Nat) (l2 l1 : List (Nat × AcctOp)) : opsOf k (l2 ++ l1) = opsOf k l1 ++ opsOf k l2 := by
  simp [opsOf]
theorem replay_append (a : Acct) (x y : List AcctOp) : replay a (x ++ y) = replay (replay a x) y := by
  simp [replay]

theorem refines_of_eq {w w' : World} (h1 : w'.pf.accounts = w.pf.accounts) (h2 : w'.log = w.log) : Refines w w' := by
  refine ⟨[], by simp [h2], by rw [h1], fun k => ?_⟩
  rw [h1]; cases w.pf.accounts[k]? <;> simp [opsOf_nil, replay]

theorem refines_refl (w : World) : Refines w w := refines_of_eq rfl rfl

theorem refines_trans {a b c : World} (h1 : Refines a b) (h2 : Refines b c) : Refines a c := by
  obtain ⟨l1, hl1, hn1, hk1⟩ := h1
  obtain ⟨l2, hl2, hn2, hk2⟩ := h2
  refine ⟨l2 ++ l1, by rw [hl2, hl1, List.append_assoc], hn2.trans hn1, fun k => ?_⟩
  rw [hk2, hk1, opsOf_append]
  cases a.pf.accounts[k]? <;> simp [replay_append]

theorem apply_refines (w : World) (k : Nat) (op : AcctOp) : Refines w (w.apply k op) := by
  unfold World.apply
  split
  · rename_i a ha
    refine ⟨[(k, op)], rfl, by simp, fun j => ?_⟩
    simp only [List.getElem?_set]
    have hk : k < w.pf.accounts.length := by
      rcases List.getElem?_eq_some_iff.mp ha with ⟨h, _⟩; exact h
    have ha' : w.pf.accounts[k] = a := by
      rcases List.getElem?_eq_some_iff.mp ha with ⟨_, h⟩; exact h
    by_cases hkj : k = j
    · subst hkj
      simp [hk, ha', opsOf, replay]
    · have : (k == j) = false := by simpa using hkj
      simp [hkj, opsOf, replay, this]
  · exact refines_refl w

/-- the parts of the world that only the broker changes -/
def Frame (w w' : World) : Prop :=
  w'.openOrders = w.openOrders ∧ w'.auctionOrders = w.auctionOrders ∧ w'.finals = w.finals ∧ w'.cfg = w.cfg

def Good (w w' : World) : Prop := Refines w w' ∧ Frame w w'

theorem good_of_eq {w w' : World} (h1 : w'.pf.accounts = w.pf.accounts) (h2 : w'.log = w.log)
    (h3 : w'.openOrders = w.openOrders) (h4 : w'.auctionOrders = w.auctionOrders) (h5 : w'.finals = w.finals)
    (h6 : w'.cfg = w.cfg) : Good w w' := ⟨refines_of_eq h1 h2, h3, h4, h5, h6⟩

theorem good_refl (w : World) : Good w w := good_of_eq rfl rfl rfl rfl rfl rfl

theorem good_trans {a b c : World} (h1 : Good a b) (h2 : Good b c) : Good a c := by
  obtain ⟨r1, a1, b1, c1, d1⟩ := h1
  obtain ⟨r2, a2, b2, c2, d2⟩ := h2
  exact ⟨refines_trans r1 r2, a2.trans a1, b2.trans b1, c2.trans c1, d2.trans d1⟩

theorem apply_good (w : World) (k : Nat) (op : AcctOp) : Good w (w.apply k op) := by
  refine ⟨apply_refines w k op, ?_⟩
  unfold World.apply
  split <;> exact ⟨rfl, rfl, rfl, rfl⟩

theorem foldl_good {α : Type} (f : World → α → World) (hf : ∀ w x, Good w (f w x)) (l : List α) (w : World) :
    Good w (l.foldl f w) := by
  induction l generalizing w with
  | nil => exact good_refl w
  | cons x xs ih => exact good_trans (hf w x) (ih (f w x))

theorem setCommRem_good (w : World) (key : Option Nat × Nat) (v : R) : Good w (w.setCommRem key v) := by
  unfold World.setCommRem
  split_ifs <;> exact good_of_eq rfl rfl rfl rfl rfl rfl

theorem addTurnover_good (w : World) (ins : Nat) (q : Int) : Good w (w.addTurnover ins q) := by
  unfold World.addTurnover
  split_ifs <;> exact good_of_eq rfl rfl rfl rfl rfl rfl

theorem tradeFee_good (w : World) (wi : WIns) (oid : Option Nat) (isBuy : Bool) (e : Effect) (q : Int) (p : R) (ct : Int) :
    Good w (w.tradeFee wi oid isBuy e q p ct).2 := by
  unfold World.tradeFee
  split_ifs
  · exact good_refl w
  · exact setCommRem_good _ _ _

theorem announce_good (w : World) (o : Ord) : Good w (w.announce o) := by
  unfold World.announce
  split
  · exact apply_good _ _ _
  · exact good_refl w

macro "good_step" : tactic => `(tactic| first | exact good_refl _ | refine good_trans ?_ (apply_good _ _ _) | refine good_trans ?_ (addTurnover_good _ _ _) | refine good_trans ?_ (tradeFee_good _ _ _ _ _ _ _ _) | refine good_trans ?_ (setCommRem_good _ _ _))
macro "good_tac" : tactic => `(tactic| repeat good_step)

theorem matchOne_good (w : World) (auction : Bool) (o : Ord) : Good w (w.matchOne auction o).1 := by
  unfold World.matchOne
  repeat' (first | good_step | split | dsimp only)

theorem matchList_good (w : World) (auction : Bool) (l : List Ord) : Good w (w.matchList auction l).1 := by
  induction l generalizing w with
  | nil => exact good_refl w
  | cons o rest ih =>
    unfold World.matchList
    exact good_trans (matchOne_good w auction o) (ih _)

theorem reinvestFees_good (w : World) (a : Acct) : Good w (w.reinvestFees a).2 := by
  unfold World.reinvestFees
  suffices h : ∀ (l : List Holding) (acc : List (Nat × R) × World), Good w acc.2 → Good w (l.foldl _ acc).2 from
    h _ _ (good_refl w)
  intro l
  induction l with
  | nil => intro acc h; exact h
  | cons x xs ih =>
    intro acc h
    rw [List.foldl_cons]
    apply ih
    split
    · exact h
    · split
      · dsimp only
        split
        · exact good_trans h (tradeFee_good _ _ _ _ _ _ _ _)
        · exact h
      · exact h

theorem refines_update {w w1 w' : World} (h : Refines w w1) (h1 : w'.pf.accounts = w1.pf.accounts) (h2 : w'.log = w1.log) :
    Refines w w' := refines_trans h (refines_of_eq h1 h2)

theorem matchRound_char (w : World) : ∃ (w3 : World) (all : List Ord), Good w w3 ∧
    w.matchRound.1 = { w3 with openOrders := all.filter (fun o => !o.isFinal), auctionOrders := [],
                               finals := (all.filter (·.isFinal)).reverse ++ w3.finals } := by
  unfold World.matchRound
  rcases h1 : w.matchList false w.openOrders with ⟨w1, r1, e1⟩
  dsimp only
  rcases h2 : w1.matchList true w1.auctionOrders with ⟨w2, r2, e2⟩
  dsimp only
  have g1 : Good w w1 := by have := matchList_good w false w.openOrders; rwa [h1] at this
  have g2 : Good w1 w2 := by have := matchList_good w1 true w1.auctionOrders; rwa [h2] at this
  refine ⟨_, r1 ++ r2, ?_, rfl⟩
  exact good_trans (good_trans g1 g2) (foldl_good _ announce_good _ _)

theorem matchRound_refines (w : World) : Refines w w.matchRound.1 := by
  obtain ⟨w3, all, g, h⟩ := matchRound_char w
  rw [h]; exact refines_update g.1 rfl rfl

theorem matchRound_cfg (w : World) : w.matchRound.1.cfg = w.cfg := by
  obtain ⟨w3, all, g, h⟩ := matchRound_char w
  rw [h]; exact g.2.2.2.2

theorem matchRound_auction (w : World) : w.matchRound.1.auctionOrders = [] := by
  obtain ⟨w3, all, g, h⟩ := matchRound_char w
  rw [h]

theorem pf_preBeforeTrading_accounts (p : Pf) : p.preBeforeTrading.accounts = p.accounts := by
  unfold Pf.preBeforeTrading; split <;> rfl

theorem preBeforeTrading_good (w : World) (today : Nat) (taxRate : R) (mkt : List DayIns) :
    Good w (w.preBeforeTrading today taxRate mkt) := by
  unfold World.preBeforeTrading
  dsimp only
  refine good_trans ?_ (foldl_good _ ?_ _ _)
  · exact good_of_eq (pf_preBeforeTrading_accounts _) rfl rfl rfl rfl rfl
  · intro w k
    split
    · exact good_trans (reinvestFees_good _ _) (apply_good _ _ _)
    · exact good_refl w

theorem barData_good (w : World) (rows) : Good w (w.barData rows) := good_of_eq rfl rfl rfl rfl rfl rfl

theorem settlement_good (w : World) : Good w w.settlement := by
  unfold World.settlement
  exact foldl_good _ (fun w k => apply_good _ _ _) _ _

theorem onBar_char (w : World) : ∃ w', Good w w' ∧ w.onBar = w'.matchRound := by
  unfold World.onBar
  refine ⟨_, ?_, rfl⟩
  refine good_trans (good_trans (b := { w with phase := .bar }) (good_of_eq rfl rfl rfl rfl rfl rfl)
    (foldl_good _ (fun w k => apply_good _ _ _) _ _)) (good_of_eq rfl rfl rfl rfl rfl rfl)

theorem afterTrading_char (w : World) : ∃ w1, Good w w1 ∧
    w.afterTrading.1 = { w1 with openOrders := [], finals := (w.openOrders.map Ord.markRejected).reverse ++ w1.finals } := by
  unfold World.afterTrading
  exact ⟨_, good_trans (b := { w with phase := .after }) (good_of_eq rfl rfl rfl rfl rfl rfl) (foldl_good _ announce_good _ _), rfl⟩

theorem deposit_good (w : World) (k : Nat) (amount : R) (recv : Option Nat) : Good w (w.deposit k amount recv).1 := by
  unfold World.deposit
  split
  · split
    · exact good_refl w
    · split
      · exact good_trans (apply_good _ _ _) (good_of_eq rfl rfl rfl rfl rfl rfl)
      · exact good_refl w
  · exact good_refl w

theorem cancel_char (w : World) (id : Nat) : w.cancel id = (w, []) ∨
    ∃ o w1, o ∈ w.openOrders ++ w.auctionOrders ∧ Good w w1 ∧
      (w.cancel id).1 = { w1 with openOrders := w1.openOrders.filter (·.id != id),
                                  auctionOrders := w1.auctionOrders.filter (·.id != id),
                                  finals := o.markCancelled :: w1.finals } := by
  unfold World.cancel
  split
  · left; rfl
  · rename_i o ho
    right
    exact ⟨o, _, List.mem_of_find?_eq_some ho, announce_good _ _, rfl⟩

def addOrd (w1 : World) (ord : Ord) : World :=
  if w1.phase == .auction then { w1 with auctionOrders := w1.auctionOrders ++ [ord] }
  else { w1 with openOrders := w1.openOrders ++ [ord] }

theorem submit_char (w : World) (o : OrderReq) : (w.submit o).1 = w ∨
    ∃ w1 ord, Good w w1 ∧ ord.isFinal = false ∧
      (((addOrd w1 ord).cfg.matchImmediately = false ∧ (w.submit o).1 = addOrd w1 ord) ∨
        (w.submit o).1 = (addOrd w1 ord).matchRound.1) := by
  unfold World.submit
  split
  · split
    · left; rfl
    · extract_lets fp init w1 ord w2
      split
      · left; rfl
      · right
        refine ⟨w1, ord, apply_good _ _ _, rfl, ?_⟩
        have hw2 : w2 = addOrd w1 ord := rfl
        rw [← hw2]
        by_cases hm : w2.cfg.matchImmediately = true
        · right
          rw [if_pos hm]
        · left
          rw [if_neg hm]
          exact ⟨by simpa using hm, rfl⟩
  · left; rfl

theorem addOrd_refines (w1 : World) (ord : Ord) : Refines w1 (addOrd w1 ord) := by
  unfold addOrd; split_ifs <;> exact refines_of_eq rfl rfl

theorem addOrd_cfg (w1 : World) (ord : Ord) : (addOrd w1 ord).cfg = w1.cfg := by
  unfold addOrd; split_ifs <;> rfl

theorem addOrd_finals (w1 : World) (ord : Ord) : (addOrd w1 ord).finals = w1.finals := by
  unfold addOrd; split_ifs <;> rfl

/-- one input: accounts change only through logged account operations -/
theorem step_refines (w : World) (i : WIn) : Refines w (w.step i).1 := by
  cases i with
  | preBeforeTrading today tax mkt => exact (preBeforeTrading_good w today tax mkt).1
  | barData rows => exact (barData_good w rows).1
  | beforeTrading => exact refines_of_eq rfl rfl
  | openAuction => exact refines_of_eq rfl rfl
  | bar =>
    obtain ⟨w', g, h⟩ := onBar_char w
    show Refines w w.onBar.1
    rw [h]; exact refines_trans g.1 (matchRound_refines w')
  | afterTrading =>
    obtain ⟨w1, g, h⟩ := afterTrading_char w
    show Refines w w.afterTrading.1
    rw [h]; exact refines_update g.1 rfl rfl
  | settlement => exact (settlement_good w).1
  | submit o =>
    show Refines w (w.submit o).1
    rcases submit_char w o with h | ⟨w1, ord, g, _, ⟨_, h⟩ | h⟩
    · rw [h]; exact refines_refl w
    · rw [h]; exact refines_trans g.1 (addOrd_refines _ _)
    · rw [h]; exact refines_trans (refines_trans g.1 (addOrd_refines _ _)) (matchRound_refines _)
  | cancel id =>
    show Refines w (w.cancel id).1
    rcases cancel_char w id with h | ⟨o, w1, _, g, h⟩
    · rw [h]; exact refines_refl w
    · rw [h]; exact refines_update g.1 rfl rfl
  | deposit k amount recv => exact (deposit_good w k amount recv).1
  | finance k amount => exact apply_refines w k _

/-- **whole runs refine the account model**: for every world and every input list, each account at the end of the run is the
account at the start after the account operations the run logged for it -/
theorem run_refines (w : World) (ins : List WIn) : Refines w (w.run ins).1 := by
  induction ins generalizing w with
  | nil => exact refines_refl w
  | cons i rest ih =>
    unfold World.run
    exact refines_trans (step_refines w i) (ih _)

/-- runs compose: the state after a prefix does not depend on what follows, and the events of the prefix are a prefix of the events -/
theorem run_append (w : World) (xs ys : List WIn) :
    w.run (xs ++ ys) = ((w.run xs).1.run ys |>.1, (w.run xs).2 ++ ((w.run xs).1.run ys).2) := by
  induction xs generalizing w with
  | nil => simp [World.run]
  | cons x xs ih =>
    simp only [List.cons_append, World.run]
    rw [ih]
    simp [List.append_assoc]

/-- the books hold live orders only; what has left the books is final -/
def BooksOk (w : World) : Prop :=
  (∀ o ∈ w.openOrders ++ w.auctionOrders, o.isFinal = false) ∧ (∀ o ∈ w.finals, o.isFinal = true)

theorem booksOk_of_frame {w w' : World} (hf : Frame w w') (h : BooksOk w) : BooksOk w' := by
  obtain ⟨a, b, c, _⟩ := hf
  unfold BooksOk; rw [a, b, c]; exact h

theorem matchRound_booksOk (w : World) (hfin : ∀ o ∈ w.finals, o.isFinal = true) : BooksOk w.matchRound.1 := by
  obtain ⟨w3, all, g, h⟩ := matchRound_char w
  rw [h]
  constructor
  · intro o ho
    simp only [List.append_nil, List.mem_filter] at ho
    simpa using ho.2
  · intro o ho
    simp only [List.mem_append, List.mem_reverse, List.mem_filter] at ho
    rcases ho with ho | ho
    · exact ho.2
    · rw [g.2.2.2.1] at ho; exact hfin o ho

theorem addOrd_booksOk (w1 : World) (ord : Ord) (h : BooksOk w1) (ho : ord.isFinal = false) : BooksOk (addOrd w1 ord) := by
  obtain ⟨h1, h2⟩ := h
  unfold addOrd
  split_ifs
  · refine ⟨fun o hmem => ?_, h2⟩
    simp only [List.mem_append, List.mem_singleton] at hmem h1
    rcases hmem with hmem | hmem | hmem
    · exact h1 o (Or.inl hmem)
    · exact h1 o (Or.inr hmem)
    · rw [hmem]; exact ho
  · refine ⟨fun o hmem => ?_, h2⟩
    simp only [List.mem_append, List.mem_singleton] at hmem h1
    rcases hmem with (hmem | hmem) | hmem
    · exact h1 o (Or.inl hmem)
    · rw [hmem]; exact ho
    · exact h1 o (Or.inr hmem)

theorem markRejected_final (o : Ord) : o.markRejected.isFinal = true := by
  unfold Ord.markRejected
  split_ifs with h
  · rfl
  · simpa using h

theorem markCancelled_final (o : Ord) : o.markCancelled.isFinal = true := by
  unfold Ord.markCancelled
  split_ifs with h
  · rfl
  · simpa using h

theorem step_booksOk (w : World) (i : WIn) (h : BooksOk w) : BooksOk (w.step i).1 := by
  cases i with
  | preBeforeTrading today tax mkt => exact booksOk_of_frame (preBeforeTrading_good w today tax mkt).2 h
  | barData rows => exact booksOk_of_frame (barData_good w rows).2 h
  | beforeTrading =>
    refine ⟨fun o ho => ?_, h.2⟩
    simp only [World.step, World.beforeTrading, List.mem_append, List.mem_map] at ho
    rcases ho with ⟨a, _, rfl⟩ | ho
    · rfl
    · exact h.1 o (List.mem_append.mpr (Or.inr ho))
  | openAuction => exact h
  | bar =>
    obtain ⟨w', g, h'⟩ := onBar_char w
    show BooksOk w.onBar.1
    rw [h']
    exact matchRound_booksOk w' (booksOk_of_frame g.2 h).2
  | afterTrading =>
    obtain ⟨w1, g, h'⟩ := afterTrading_char w
    show BooksOk w.afterTrading.1
    rw [h']
    have hb := booksOk_of_frame g.2 h
    refine ⟨fun o ho => ?_, fun o ho => ?_⟩
    · exact hb.1 o (List.mem_append.mpr (Or.inr (by simpa using ho)))
    · simp only [List.mem_append, List.mem_reverse, List.mem_map] at ho
      rcases ho with ⟨a, _, rfl⟩ | ho
      · exact markRejected_final a
      · exact hb.2 o ho
  | settlement => exact booksOk_of_frame (settlement_good w).2 h
  | submit o =>
    show BooksOk (w.submit o).1
    rcases submit_char w o with h' | ⟨w1, ord, g, hord, ⟨_, h'⟩ | h'⟩
    · rw [h']; exact h
    · rw [h']; exact addOrd_booksOk _ _ (booksOk_of_frame g.2 h) hord
    · rw [h']
      apply matchRound_booksOk
      rw [addOrd_finals]
      exact (booksOk_of_frame g.2 h).2
  | cancel id =>
    show BooksOk (w.cancel id).1
    rcases cancel_char w id with h' | ⟨o, w1, hmem, g, h'⟩
    · rw [h']; exact h
    · rw [h']
      have hb := booksOk_of_frame g.2 h
      refine ⟨fun x hx => ?_, fun x hx => ?_⟩
      · simp only [List.mem_append, List.mem_filter] at hx
        rcases hx with hx | hx
        · exact hb.1 x (List.mem_append.mpr (Or.inl hx.1))
        · exact hb.1 x (List.mem_append.mpr (Or.inr hx.1))
      · simp only [List.mem_cons] at hx
        rcases hx with rfl | hx
        · exact markCancelled_final o
        · exact hb.2 x hx
  | deposit k amount recv => exact booksOk_of_frame (deposit_good w k amount recv).2 h
  | finance k amount => exact booksOk_of_frame (apply_good w k _).2 h

theorem run_booksOk (w : World) (ins : List WIn) (h : BooksOk w) : BooksOk (w.run ins).1 := by
  induction ins generalizing w with
  | nil => exact h
  | cons i rest ih =>
    unfold World.run
    exact ih _ (step_booksOk w i h)

/-- nothing rests in the regular book after the close -/
theorem afterTrading_book_empty (w : World) : (w.step .afterTrading).1.openOrders = [] := rfl

/-- with immediate matching the auction book is empty after every submission -/
theorem submit_auction_book_empty (w : World) (o : OrderReq) (hm : w.cfg.matchImmediately = true) (h : w.auctionOrders = []) :
    (w.step (.submit o)).1.auctionOrders = [] := by
  show (w.submit o).1.auctionOrders = []
  rcases submit_char w o with h' | ⟨w1, ord, g, hord, ⟨hf, _⟩ | h'⟩
  · rw [h']; exact h
  · rw [addOrd_cfg, g.2.2.2.2, hm] at hf
    exact absurd hf (by simp)
  · rw [h']; exact matchRound_auction _

end RQ.Lemmas.WorldB

/-
World-level lemmas, part F: the day structure the executor imposes (C08) keeps the books quiet where corporate actions and settlement
need them quiet.  A trading day of a daily run is: PRE_BEFORE_TRADING, BEFORE_TRADING, OPEN_AUCTION with the strategy's calls, BAR with
the strategy's calls, AFTER_TRADING, SETTLEMENT — and the strategy can call order / cancel / cash APIs only inside open_auction and
handle_bar (the API × phase table of C08).
-/
import RQ.Model.World
import RQ.Lemmas.WorldB
import Mathlib.Tactic.SplitIfs

namespace RQ.Lemmas.WorldF
open RQ.Q

/-- what a strategy can do from a callback -/
def IsCall : WIn → Prop
  | .submit _ => True
  | .cancel _ => True
  | .deposit _ _ _ => True
  | .finance _ _ => True
  | _ => False

/-- one trading day of a daily run: the market table and tax rate of the day, and what the strategy does in its two callbacks -/
structure Day where
  today : Nat
  tax : R
  mkt : List DayIns
  aucCalls : List WIn
  barCalls : List WIn

/-- the inputs of the day in the order the executor publishes its events -/
def Day.inputs (d : Day) : List WIn :=
  [WIn.preBeforeTrading d.today d.tax d.mkt, WIn.beforeTrading, WIn.openAuction] ++ d.aucCalls ++ [WIn.bar] ++ d.barCalls ++
  [WIn.afterTrading, WIn.settlement]

def Day.CallsOnly (d : Day) : Prop := ∀ i ∈ d.aucCalls ++ d.barCalls, IsCall i

/-- the steps that need quiet books meet quiet books -/
def QuietAt (w : World) : WIn → Prop
  | .preBeforeTrading _ _ _ => w.openOrders = [] ∧ w.auctionOrders = []
  | .settlement => w.openOrders = [] ∧ w.auctionOrders = []
  | _ => True

def RunQuiet : World → List WIn → Prop
  | _, [] => True
  | w, i :: rest => QuietAt w i ∧ RunQuiet (w.step i).1 rest

/-! ### helpers: the phase is changed only by the day's events, never by what a call does -/

open RQ.Lemmas.WorldB

theorem run_cons_fst (w : World) (i : WIn) (rest : List WIn) : (w.run (i :: rest)).1 = ((w.step i).1.run rest).1 := by
  simp only [World.run]

theorem run_nil_fst (w : World) : (w.run []).1 = w := rfl

theorem run_append_fst (w : World) (xs ys : List WIn) : (w.run (xs ++ ys)).1 = ((w.run xs).1.run ys).1 := by
  rw [run_append]

theorem apply_phase (w : World) (k : Nat) (op : AcctOp) : (w.apply k op).phase = w.phase := by
  unfold World.apply; split <;> rfl

theorem setCommRem_phase (w : World) (key : Option Nat × Nat) (v : R) : (w.setCommRem key v).phase = w.phase := by
  unfold World.setCommRem; split_ifs <;> rfl

theorem addTurnover_phase (w : World) (ins : Nat) (q : Int) : (w.addTurnover ins q).phase = w.phase := by
  unfold World.addTurnover; split_ifs <;> rfl

theorem tradeFee_phase (w : World) (wi : WIns) (oid : Option Nat) (isBuy : Bool) (e : Effect) (q : Int) (p : R) (ct : Int) :
    (w.tradeFee wi oid isBuy e q p ct).2.phase = w.phase := by
  unfold World.tradeFee
  split_ifs
  · rfl
  · exact setCommRem_phase _ _ _

theorem announce_phase (w : World) (o : Ord) : (w.announce o).phase = w.phase := by
  unfold World.announce
  split
  · exact apply_phase _ _ _
  · rfl

theorem foldl_phase {α : Type} (f : World → α → World) (hf : ∀ w x, (f w x).phase = w.phase) (l : List α) (w : World) :
    (l.foldl f w).phase = w.phase := by
  induction l generalizing w with
  | nil => rfl
  | cons x xs ih => exact (ih (f w x)).trans (hf w x)

theorem matchOne_phase (w : World) (auction : Bool) (o : Ord) : (w.matchOne auction o).1.phase = w.phase := by
  unfold World.matchOne
  repeat' (first | rfl | rw [apply_phase] | rw [addTurnover_phase] | rw [tradeFee_phase] | split | dsimp only)

theorem matchList_phase (w : World) (auction : Bool) (l : List Ord) : (w.matchList auction l).1.phase = w.phase := by
  induction l generalizing w with
  | nil => rfl
  | cons o rest ih =>
    unfold World.matchList
    exact (ih _).trans (matchOne_phase w auction o)

theorem matchRound_phase (w : World) : w.matchRound.1.phase = w.phase := by
  unfold World.matchRound
  rcases h1 : w.matchList false w.openOrders with ⟨w1, r1, e1⟩
  dsimp only
  rcases h2 : w1.matchList true w1.auctionOrders with ⟨w2, r2, e2⟩
  dsimp only
  have g1 : w1.phase = w.phase := by have := matchList_phase w false w.openOrders; rwa [h1] at this
  have g2 : w2.phase = w1.phase := by have := matchList_phase w1 true w1.auctionOrders; rwa [h2] at this
  rw [foldl_phase _ announce_phase, g2, g1]

theorem onBar_phase (w : World) : w.onBar.1.phase = .bar := by
  unfold World.onBar
  dsimp only
  rw [matchRound_phase]
  exact foldl_phase _ (fun w k => apply_phase _ _ _) _ _

theorem deposit_phase (w : World) (k : Nat) (amount : R) (recv : Option Nat) : (w.deposit k amount recv).1.phase = w.phase := by
  unfold World.deposit
  split
  · split
    · rfl
    · split
      · exact apply_phase _ _ _
      · rfl
  · rfl

theorem cancel_char' (w : World) (id : Nat) : w.cancel id = (w, []) ∨
    ∃ w1, Good w w1 ∧ w1.phase = w.phase ∧
      (w.cancel id).1 = { w1 with openOrders := w1.openOrders.filter (·.id != id),
                                  auctionOrders := w1.auctionOrders.filter (·.id != id),
                                  finals := (w.cancel id).1.finals } := by
  unfold World.cancel
  split
  · left; rfl
  · right
    exact ⟨_, announce_good _ _, announce_phase _ _, rfl⟩

theorem submit_char' (w : World) (o : OrderReq) : (w.submit o).1 = w ∨
    ∃ w1 ord, Good w w1 ∧ w1.phase = w.phase ∧
      ((w.submit o).1 = addOrd w1 ord ∨ (w.submit o).1 = (addOrd w1 ord).matchRound.1) := by
  unfold World.submit
  split
  · split
    · left; rfl
    · extract_lets fp init w1 ord w2
      split
      · left; rfl
      · right
        refine ⟨w1, ord, apply_good _ _ _, apply_phase _ _ _, ?_⟩
        have hw2 : w2 = addOrd w1 ord := rfl
        rw [← hw2]
        by_cases hm : w2.cfg.matchImmediately = true
        · right
          rw [if_pos hm]
        · left
          rw [if_neg hm]
  · left; rfl

theorem addOrd_not_auction (w1 : World) (ord : Ord) (hp : w1.phase ≠ .auction) :
    (addOrd w1 ord).auctionOrders = w1.auctionOrders ∧ (addOrd w1 ord).phase = w1.phase := by
  unfold addOrd
  have : (w1.phase == WPhase.auction) = false := by simpa using hp
  rw [this]
  exact ⟨rfl, rfl⟩

theorem runQuiet_append (w : World) (xs ys : List WIn) :
    RunQuiet w (xs ++ ys) ↔ RunQuiet w xs ∧ RunQuiet (w.run xs).1 ys := by
  induction xs generalizing w with
  | nil => simp [RunQuiet, World.run]
  | cons x xs ih =>
    simp only [List.cons_append, RunQuiet, run_cons_fst, ih, and_assoc]

/-- a call never puts an order into the auction book outside the auction, and the BAR step empties the auction book -/
theorem bar_empties_auction_book (w : World) : (w.step .bar).1.auctionOrders = [] := by
  obtain ⟨w', _, h⟩ := onBar_char w
  show w.onBar.1.auctionOrders = []
  rw [h]; exact matchRound_auction w'

/-- outside the auction phase calls leave the auction book empty -/
theorem call_keeps_auction_book_empty (w : World) (i : WIn) (hc : IsCall i) (hp : w.phase ≠ .auction) (h : w.auctionOrders = []) :
    (w.step i).1.auctionOrders = [] ∧ (w.step i).1.phase = w.phase := by
  cases i with
  | submit o =>
    show (w.submit o).1.auctionOrders = [] ∧ (w.submit o).1.phase = w.phase
    rcases submit_char' w o with h' | ⟨w1, ord, g, hph, h' | h'⟩
    · rw [h']; exact ⟨h, rfl⟩
    · have hp1 : w1.phase ≠ .auction := by rw [hph]; exact hp
      obtain ⟨ha, hb⟩ := addOrd_not_auction w1 ord hp1
      rw [h', ha, hb, g.2.2.1, hph]; exact ⟨h, rfl⟩
    · have hp1 : w1.phase ≠ .auction := by rw [hph]; exact hp
      obtain ⟨_, hb⟩ := addOrd_not_auction w1 ord hp1
      rw [h', matchRound_phase, hb, hph]; exact ⟨matchRound_auction _, rfl⟩
  | cancel id =>
    show (w.cancel id).1.auctionOrders = [] ∧ (w.cancel id).1.phase = w.phase
    rcases cancel_char' w id with h' | ⟨w1, g, hph, h'⟩
    · rw [h']; exact ⟨h, rfl⟩
    · rw [h']
      refine ⟨?_, hph⟩
      show w1.auctionOrders.filter _ = []
      rw [g.2.2.1, h]; rfl
  | deposit k amount recv =>
    exact ⟨(deposit_good w k amount recv).2.2.1.trans h, deposit_phase w k amount recv⟩
  | finance k amount =>
    exact ⟨(apply_good w k _).2.2.1.trans h, apply_phase w k _⟩
  | preBeforeTrading _ _ _ => exact hc.elim
  | barData _ => exact hc.elim
  | beforeTrading => exact hc.elim
  | openAuction => exact hc.elim
  | bar => exact hc.elim
  | afterTrading => exact hc.elim
  | settlement => exact hc.elim

theorem calls_runQuiet (w : World) (l : List WIn) (hc : ∀ i ∈ l, IsCall i) : RunQuiet w l := by
  induction l generalizing w with
  | nil => trivial
  | cons x xs ih =>
    refine ⟨?_, ih _ (fun i hi => hc i (List.mem_cons_of_mem _ hi))⟩
    have hx := hc x List.mem_cons_self
    cases x <;> first | exact False.elim hx | trivial

theorem calls_keep_auction_book_empty (w : World) (l : List WIn) (hc : ∀ i ∈ l, IsCall i) (hp : w.phase ≠ .auction)
    (h : w.auctionOrders = []) : (w.run l).1.auctionOrders = [] ∧ (w.run l).1.phase = w.phase := by
  induction l generalizing w with
  | nil => exact ⟨h, rfl⟩
  | cons x xs ih =>
    rw [run_cons_fst]
    obtain ⟨h1, h2⟩ := call_keeps_auction_book_empty w x (hc x List.mem_cons_self) hp h
    obtain ⟨h3, h4⟩ := ih (w.step x).1 (fun i hi => hc i (List.mem_cons_of_mem _ hi)) (by rw [h2]; exact hp) h1
    exact ⟨h3, h4.trans h2⟩

/-- **one day**: from quiet books, the day's inputs meet quiet books where they must, and the day ends with quiet books -/
theorem day_quiet (w : World) (d : Day) (hc : d.CallsOnly) (ho : w.openOrders = []) (ha : w.auctionOrders = []) :
    RunQuiet w d.inputs ∧ (w.run d.inputs).1.openOrders = [] ∧ (w.run d.inputs).1.auctionOrders = [] := by
  have hauc : ∀ i ∈ d.aucCalls, IsCall i := fun i hi => hc i (List.mem_append.mpr (Or.inl hi))
  have hbar : ∀ i ∈ d.barCalls, IsCall i := fun i hi => hc i (List.mem_append.mpr (Or.inr hi))
  unfold Day.inputs
  -- the worlds along the day
  generalize hA : (w.run ([WIn.preBeforeTrading d.today d.tax d.mkt, WIn.beforeTrading, WIn.openAuction] ++ d.aucCalls)).1 = wA
  have hB1 : (wA.step .bar).1.auctionOrders = [] := bar_empties_auction_book wA
  have hB2 : (wA.step .bar).1.phase = .bar := onBar_phase wA
  generalize hB : (wA.step .bar).1 = wB at hB1 hB2
  obtain ⟨hC1, _⟩ := calls_keep_auction_book_empty wB d.barCalls hbar (by rw [hB2]; decide) hB1
  generalize hC : (wB.run d.barCalls).1 = wC at hC1
  have hD1 : (wC.step .afterTrading).1.openOrders = [] := rfl
  have hD2 : (wC.step .afterTrading).1.auctionOrders = [] := by
    obtain ⟨w1, g, h⟩ := afterTrading_char wC
    show wC.afterTrading.1.auctionOrders = []
    rw [h]
    exact g.2.2.1.trans hC1
  generalize hD : (wC.step .afterTrading).1 = wD at hD1 hD2
  have hE1 : (wD.step .settlement).1.openOrders = [] := (settlement_good wD).2.1.trans hD1
  have hE2 : (wD.step .settlement).1.auctionOrders = [] := (settlement_good wD).2.2.1.trans hD2
  have hrunB : ((wA.run [WIn.bar]).1) = wB := by rw [run_cons_fst, run_nil_fst, hB]
  have hrunE : (wC.run [WIn.afterTrading, WIn.settlement]).1 = (wD.step .settlement).1 := by
    rw [run_cons_fst, run_cons_fst, run_nil_fst, hD]
  have hend : (w.run ([WIn.preBeforeTrading d.today d.tax d.mkt, WIn.beforeTrading, WIn.openAuction] ++ d.aucCalls ++ [WIn.bar] ++
      d.barCalls ++ [WIn.afterTrading, WIn.settlement])).1 = (wD.step .settlement).1 := by
    rw [run_append_fst, run_append_fst, run_append_fst, hA, hrunB, hC, hrunE]
  refine ⟨?_, by rw [hend]; exact hE1, by rw [hend]; exact hE2⟩
  have hAB : (w.run ([WIn.preBeforeTrading d.today d.tax d.mkt, WIn.beforeTrading, WIn.openAuction] ++ d.aucCalls ++ [WIn.bar])).1 = wB := by
    rw [run_append_fst, hA, hrunB]
  have hABC : (w.run ([WIn.preBeforeTrading d.today d.tax d.mkt, WIn.beforeTrading, WIn.openAuction] ++ d.aucCalls ++ [WIn.bar] ++
      d.barCalls)).1 = wC := by
    rw [run_append_fst, hAB, hC]
  rw [runQuiet_append, runQuiet_append, runQuiet_append, runQuiet_append, hABC, hAB, hA]
  refine ⟨⟨⟨⟨?_, calls_runQuiet _ _ hauc⟩, ?_⟩, calls_runQuiet _ _ hbar⟩, ?_⟩
  · exact ⟨⟨ho, ha⟩, trivial, trivial, trivial⟩
  · exact ⟨trivial, trivial⟩
  · refine ⟨trivial, ?_, trivial⟩
    rw [hD]
    exact ⟨hD1, hD2⟩

/-- **every daily run**: any number of days, any market, any calls in the two callbacks -/
theorem days_quiet (w : World) (days : List Day) (hc : ∀ d ∈ days, d.CallsOnly) (ho : w.openOrders = []) (ha : w.auctionOrders = []) :
    RunQuiet w (days.flatMap Day.inputs) ∧ (w.run (days.flatMap Day.inputs)).1.openOrders = [] ∧
    (w.run (days.flatMap Day.inputs)).1.auctionOrders = [] := by
  induction days generalizing w with
  | nil => exact ⟨trivial, ho, ha⟩
  | cons d ds ih =>
    obtain ⟨q1, o1, a1⟩ := day_quiet w d (hc d List.mem_cons_self) ho ha
    obtain ⟨q2, o2, a2⟩ := ih (w.run d.inputs).1 (fun x hx => hc x (List.mem_cons_of_mem _ hx)) o1 a1
    rw [List.flatMap_cons, runQuiet_append, run_append_fst]
    exact ⟨⟨q1, q2⟩, o2, a2⟩

end RQ.Lemmas.WorldF

/-
World-level lemmas, part J (resume = uninterrupted, C14 at whole-system level): what a restored run has lost of the trading core's
state — the matcher's per-bar accumulators and the cost deciders' per-order minimum-commission map are not persisted — does not matter
for the continuation of a run stopped at a day boundary, PROVIDED the deciders' shared entry for system trades (order id `None`,
dividend reinvestment) is untouched (finding F27: it is not persisted either, and a partly used entry changes later reinvestment fees).
-/
import RQ.Model.World
import RQ.Lemmas.WorldB
import RQ.Lemmas.WorldC
import Mathlib.Tactic.SplitIfs
import Mathlib.Tactic.NormNum

namespace RQ.Lemmas.WorldJ
open RQ.Q
open RQ.Lemmas.WorldC (submittedIds)

/-- what a restore gives back of the trading core: everything except the matcher accumulators and the deciders' commission map -/
def forget (w : World) : World := { w with turnover := [], commMap := [] }

/-- the two worlds agree on everything that can still matter: all fields except `turnover`, `commMap` and the ghost `log` are equal,
the accumulators are equal, and the commission map answers equally for every key in `keys` -/
structure Agree (keys : List (Option Nat × Nat)) (w w' : World) : Prop where
  cfg : w.cfg = w'.cfg
  pf : w.pf = w'.pf
  stockIdx : w.stockIdx = w'.stockIdx
  futIdx : w.futIdx = w'.futIdx
  openOrders : w.openOrders = w'.openOrders
  auctionOrders : w.auctionOrders = w'.auctionOrders
  finals : w.finals = w'.finals
  mkt : w.mkt = w'.mkt
  today : w.today = w'.today
  taxRate : w.taxRate = w'.taxRate
  phase : w.phase = w'.phase
  turnover : w.turnover = w'.turnover
  comm : ∀ key, (key.1 = none ∨ ∃ id, key.1 = some id ∧ id ∈ keys.filterMap (·.1)) → w.commRem key = w'.commRem key

/-- the keys of the orders an input list still submits, for every decider -/
def futureKeys (ins : List WIn) : List (Option Nat × Nat) := (submittedIds ins).map (fun id => (some id, 0))

/-! ### the bisimulation: worlds that differ only in `commMap` (and the ghost `log`, and — until the accumulators are cleared — in
`turnover`), whose commission maps answer equally for the shared `None` entries and for the ids in `K`, all resting ids being in `K` -/

/-- the key belongs to a system trade or to an order whose id is in `K` -/
def KeyOk (K : List Nat) (key : Option Nat × Nat) : Prop := key.1 = none ∨ ∃ id, key.1 = some id ∧ id ∈ K

/-- the relation the steps preserve; `T` says whether the accumulators are already known to be equal -/
structure Rel (T : Prop) (K : List Nat) (w w' : World) : Prop where
  shape : ∃ cm l t, w' = { w with commMap := cm, log := l, turnover := t }
  turnover : T → w'.turnover = w.turnover
  comm : ∀ key, KeyOk K key → w'.commRem key = w.commRem key
  books : ∀ o ∈ w.openOrders ++ w.auctionOrders, o.id ∈ K

section fields
variable {T : Prop} {K : List Nat} {w w' : World} (h : Rel T K w w')
include h
theorem Rel.cfg : w'.cfg = w.cfg := by obtain ⟨cm, l, t, rfl⟩ := h.shape; rfl
theorem Rel.pf : w'.pf = w.pf := by obtain ⟨cm, l, t, rfl⟩ := h.shape; rfl
theorem Rel.openOrders : w'.openOrders = w.openOrders := by obtain ⟨cm, l, t, rfl⟩ := h.shape; rfl
theorem Rel.auctionOrders : w'.auctionOrders = w.auctionOrders := by obtain ⟨cm, l, t, rfl⟩ := h.shape; rfl
theorem Rel.finals : w'.finals = w.finals := by obtain ⟨cm, l, t, rfl⟩ := h.shape; rfl
theorem Rel.phase : w'.phase = w.phase := by obtain ⟨cm, l, t, rfl⟩ := h.shape; rfl
theorem Rel.today : w'.today = w.today := by obtain ⟨cm, l, t, rfl⟩ := h.shape; rfl
theorem Rel.mkt : w'.mkt = w.mkt := by obtain ⟨cm, l, t, rfl⟩ := h.shape; rfl
theorem Rel.acctIdx (wi : WIns) : w'.acctIdx wi = w.acctIdx wi := by obtain ⟨cm, l, t, rfl⟩ := h.shape; rfl
theorem Rel.acct (k : Nat) : w'.acct k = w.acct k := by obtain ⟨cm, l, t, rfl⟩ := h.shape; rfl
theorem Rel.mcfg (wi : WIns) : w'.mcfg wi = w.mcfg wi := by obtain ⟨cm, l, t, rfl⟩ := h.shape; rfl
theorem Rel.posOf (wi : WIns) (b : Bool) : w'.posOf wi b = w.posOf wi b := by obtain ⟨cm, l, t, rfl⟩ := h.shape; rfl
theorem Rel.openOn (i : Nat) : w'.openOn i = w.openOn i := by obtain ⟨cm, l, t, rfl⟩ := h.shape; rfl
theorem Rel.orderCost (wi : WIns) (b : Bool) (e : Effect) (p : R) (q : Int) : w'.orderCost wi b e p q = w.orderCost wi b e p q := by
  obtain ⟨cm, l, t, rfl⟩ := h.shape; rfl
theorem Rel.dayOf (i : Nat) : w'.dayOf i = w.dayOf i := by obtain ⟨cm, l, t, rfl⟩ := h.shape; rfl
theorem Rel.lastPrice (i : Nat) : w'.lastPrice i = w.lastPrice i := by obtain ⟨cm, l, t, rfl⟩ := h.shape; rfl
theorem Rel.stockCost : w'.stockCost = w.stockCost := by obtain ⟨cm, l, t, rfl⟩ := h.shape; rfl
theorem Rel.barPrices : w'.barPrices = w.barPrices := by obtain ⟨cm, l, t, rfl⟩ := h.shape; rfl
theorem Rel.stInput : w'.stInput = w.stInput := by obtain ⟨cm, l, t, rfl⟩ := h.shape; rfl
theorem Rel.btInput (fees : List (Nat × R)) : w'.btInput fees = w.btInput fees := by obtain ⟨cm, l, t, rfl⟩ := h.shape; rfl
theorem Rel.validate (wi : WIns) (d : DayIns) (o : OrderReq) (fp : R) : w'.validate wi d o fp = w.validate wi d o fp := by
  obtain ⟨cm, l, t, rfl⟩ := h.shape; rfl
end fields

theorem Rel.turnoverOf {K : List Nat} {w w' : World} (h : Rel True K w w') (i : Nat) : w'.turnoverOf i = w.turnoverOf i := by
  unfold World.turnoverOf; rw [h.turnover trivial]

/-! ### the commission map as a function -/

/-- look-up with default -/
def lookup (l : List ((Option Nat × Nat) × R)) (key : Option Nat × Nat) (d : R) : R :=
  match l.find? (·.1 == key) with | some x => x.2 | none => d

theorem commRem_eq (w : World) (key : Option Nat × Nat) : w.commRem key = lookup w.commMap key w.cfg.stockCost.minC := rfl

theorem lookup_map (l : List ((Option Nat × Nat) × R)) (key key' : Option Nat × Nat) (v d : R) :
    lookup (l.map (fun x => if x.1 == key then (x.1, v) else x)) key' d =
      if key' = key then (if l.any (·.1 == key) then v else d) else lookup l key' d := by
  induction l with
  | nil => simp [lookup]
  | cons x xs ih =>
    unfold lookup at ih ⊢
    simp only [List.map_cons, List.find?_cons, List.any_cons]
    by_cases h1 : x.1 = key
    · by_cases h2 : key' = key
      · subst h1; subst h2; simp
      · subst h1
        have e3 : (x.1 == key') = false := by
          simp only [beq_eq_false_iff_ne, ne_eq]; exact fun e => h2 e.symm
        rw [if_neg h2] at ih
        simp only [beq_self_eq_true, if_true, e3, if_neg h2]
        exact ih
    · have e1 : (x.1 == key) = false := by simp [h1]
      simp only [e1, Bool.false_eq_true, if_false, Bool.false_or]
      by_cases h3 : x.1 = key'
      · have : key' ≠ key := fun e => h1 (h3.trans e)
        simp [h3, this]
      · have e3 : (x.1 == key') = false := by simp [h3]
        simp only [e3]
        exact ih

theorem lookup_append (l : List ((Option Nat × Nat) × R)) (key key' : Option Nat × Nat) (v d : R)
    (hn : l.any (·.1 == key) = false) :
    lookup (l ++ [(key, v)]) key' d = if key' = key then v else lookup l key' d := by
  induction l with
  | nil =>
    unfold lookup
    by_cases h : key' = key
    · subst h; simp
    · have : (key == key') = false := by simp; exact fun e => h e.symm
      simp [this, h]
  | cons x xs ih =>
    simp only [List.any_cons, Bool.or_eq_false_iff] at hn
    have ih' := ih hn.2
    unfold lookup at ih' ⊢
    simp only [List.cons_append, List.find?_cons]
    by_cases h3 : x.1 = key'
    · have : key' ≠ key := by
        intro e; have := hn.1; simp [h3, e] at this
      simp [h3, this]
    · have e3 : (x.1 == key') = false := by simp [h3]
      simp only [e3]
      exact ih'

theorem commRem_setCommRem (w : World) (key key' : Option Nat × Nat) (v : R) :
    (w.setCommRem key v).commRem key' = if key' = key then v else w.commRem key' := by
  unfold World.setCommRem
  by_cases h : w.commMap.any (·.1 == key) = true
  · simp only [h, if_true, commRem_eq]
    rw [lookup_map, h]; rfl
  · have h' : w.commMap.any (·.1 == key) = false := Bool.eq_false_iff.mpr h
    simp only [h', Bool.false_eq_true, if_false, commRem_eq]
    rw [lookup_append _ _ _ _ _ h']

theorem setCommRem_shape (w : World) (key : Option Nat × Nat) (v : R) :
    w.setCommRem key v = { w with commMap := (w.setCommRem key v).commMap } := by
  unfold World.setCommRem; split_ifs <;> rfl

/-! ### the per-function lemmas -/

section rel
variable {T : Prop} {K : List Nat} {w w' : World}

theorem apply_rel (hr : Rel T K w w') (k : Nat) (op : AcctOp) : Rel T K (w.apply k op) (w'.apply k op) := by
  obtain ⟨⟨cm, l, t, rfl⟩, ht, hc, hb⟩ := hr
  unfold World.apply
  dsimp only
  cases ha : w.pf.accounts[k]? with
  | none => exact ⟨⟨cm, l, t, rfl⟩, ht, hc, hb⟩
  | some a => exact ⟨⟨cm, _, t, rfl⟩, ht, hc, hb⟩

theorem setCommRem_rel (hr : Rel T K w w') (key : Option Nat × Nat) (v : R) :
    Rel T K (w.setCommRem key v) (w'.setCommRem key v) := by
  refine ⟨?_, ?_, ?_, ?_⟩
  · obtain ⟨cm, l, t, rfl⟩ := hr.shape
    rw [setCommRem_shape w, setCommRem_shape { w with commMap := cm, log := l, turnover := t }]
    exact ⟨_, l, t, rfl⟩
  · intro hT
    rw [setCommRem_shape w, setCommRem_shape w']
    exact hr.turnover hT
  · intro key' hk
    rw [commRem_setCommRem, commRem_setCommRem, hr.comm key' hk]
  · rw [setCommRem_shape w]
    exact hr.books

theorem tradeFee_rel (hr : Rel T K w w') (wi : WIns) (oid : Option Nat) (isBuy : Bool) (e : Effect)
    (q : Int) (p : R) (ct : Int) (hk : KeyOk K (oid, wi.typeKey)) :
    (w'.tradeFee wi oid isBuy e q p ct).1 = (w.tradeFee wi oid isBuy e q p ct).1 ∧
    Rel T K (w.tradeFee wi oid isBuy e q p ct).2 (w'.tradeFee wi oid isBuy e q p ct).2 := by
  unfold World.tradeFee
  split_ifs
  · exact ⟨rfl, hr⟩
  · simp only [hr.stockCost, hr.comm _ hk]
    exact ⟨trivial, setCommRem_rel hr _ _⟩

theorem announce_rel (hr : Rel T K w w') (o : Ord) : Rel T K (w.announce o) (w'.announce o) := by
  unfold World.announce
  rw [hr.cfg, show World.acctIdx w' = World.acctIdx w from funext hr.acctIdx]
  split
  · exact apply_rel hr _ _
  · exact hr

end rel

/-! ### matching -/

theorem markCancelled_id (o : Ord) : o.markCancelled.id = o.id := by
  unfold Ord.markCancelled; split <;> rfl

theorem markRejected_id (o : Ord) : o.markRejected.id = o.id := by
  unfold Ord.markRejected; split <;> rfl

theorem fill_id (o : Ord) (p : R) (q : Int) (fee : R) : (o.fill p q fee).id = o.id := by
  unfold Ord.fill; dsimp only; split <;> rfl

theorem orderAfter_id (o : Ord) (fee : Int → R → R) (out : MOutcome) : (orderAfter o fee out).id = o.id := by
  cases out with
  | rest => rfl
  | raises => rfl
  | rejected => exact markRejected_id o
  | cancelled => exact markCancelled_id o
  | fill q p c cr =>
    simp only [orderAfter]
    split
    · rw [markCancelled_id, fill_id]
    · rw [fill_id]

theorem matchOne_id (w : World) (auction : Bool) (o : Ord) : (w.matchOne auction o).2.1.id = o.id := by
  unfold World.matchOne
  repeat' (first | rfl | rw [orderAfter_id] | rw [markCancelled_id] | rw [fill_id] | split | dsimp only)

section rel
variable {K : List Nat} {w w' : World}

theorem addTurnover_rel (hr : Rel True K w w') (i : Nat) (q : Int) : Rel True K (w.addTurnover i q) (w'.addTurnover i q) := by
  obtain ⟨⟨cm, l, t, rfl⟩, ht, hc, hb⟩ := hr
  have : t = w.turnover := ht trivial
  subst this
  unfold World.addTurnover
  dsimp only
  split_ifs <;> exact ⟨⟨cm, l, _, rfl⟩, fun _ => rfl, hc, hb⟩

theorem matchOne_rel (hr : Rel True K w w') (a : Bool) (o : Ord) (ho : o.id ∈ K) :
    Rel True K (w.matchOne a o).1 (w'.matchOne a o).1 ∧ (w'.matchOne a o).2 = (w.matchOne a o).2 := by
  unfold World.matchOne
  by_cases hfin : o.isFinal = true
  · simp only [hfin, if_true]; exact ⟨hr, trivial⟩
  · simp only [hfin, Bool.false_eq_true, if_false]
    rw [hr.cfg, hr.dayOf, hr.phase]
    by_cases hdl : (w.cfg.daily && !a && (w.phase == .before || w.phase == .auction)) = true
    · simp only [hdl, if_true]; exact ⟨hr, trivial⟩
    simp only [hdl, Bool.false_eq_true, if_false]
    cases hc : w.cfg.find o.ins with
    | none => exact ⟨hr, rfl⟩
    | some wi =>
      cases hd : w.dayOf o.ins with
      | none => exact ⟨hr, rfl⟩
      | some d =>
        simp only
        rw [hr.acctIdx]
        cases hk : w.acctIdx wi with
        | none => exact ⟨hr, rfl⟩
        | some k =>
          simp only
          rw [hr.mcfg, hr.turnoverOf]
          cases hp : matchPre (w.mcfg wi) wi.cfg o (if a = true then d.auc else d.bar) a (w.turnoverOf o.ins) with
          | inl out => exact ⟨hr, rfl⟩
          | inr fp =>
            obtain ⟨f, price⟩ := fp
            simp only
            rw [hr.lastPrice]
            have h1 := apply_rel hr k (.touch o.ins wi.cfg (match w.lastPrice o.ins with | some p => p | none => 0))
            generalize w.apply k (.touch o.ins wi.cfg (match w.lastPrice o.ins with | some p => p | none => 0)) = w1 at h1 ⊢
            generalize w'.apply k (.touch o.ins wi.cfg (match w.lastPrice o.ins with | some p => p | none => 0)) = w1' at h1 ⊢
            rw [h1.posOf]
            have h2 := tradeFee_rel h1 wi (some o.id) o.isBuy o.effect f price
              (Pos.closeTodayAmount wi.cfg (w1.posOf wi (ordIsLong o.isBuy o.effect)) f o.effect) (Or.inr ⟨o.id, rfl, ho⟩)
            generalize w1.tradeFee _ _ _ _ _ _ _ = r at h2 ⊢
            generalize w1'.tradeFee _ _ _ _ _ _ _ = r' at h2 ⊢
            obtain ⟨fee, w2⟩ := r
            obtain ⟨fee', w2'⟩ := r'
            simp only at h2 ⊢
            obtain ⟨rfl, h2⟩ := h2
            rw [h2.mcfg, h2.acct]
            generalize matchPost _ _ _ _ _ _ _ _ = out
            cases out with
            | fill q p c cancelRem =>
              simp only
              exact ⟨apply_rel (addTurnover_rel h2 _ _) _ _, trivial⟩
            | rest => exact ⟨h2, rfl⟩
            | raises => exact ⟨h2, rfl⟩
            | rejected => exact ⟨h2, rfl⟩
            | cancelled => exact ⟨h2, rfl⟩

theorem matchList_rel (hr : Rel True K w w') (a : Bool) (l : List Ord) (hl : ∀ o ∈ l, o.id ∈ K) :
    Rel True K (w.matchList a l).1 (w'.matchList a l).1 ∧ (w'.matchList a l).2 = (w.matchList a l).2 ∧
      ∀ o ∈ (w.matchList a l).2.1, o.id ∈ K := by
  induction l generalizing w w' with
  | nil => exact ⟨hr, rfl, by simp [World.matchList]⟩
  | cons o rest ih =>
    simp only [World.matchList]
    obtain ⟨h1, h2⟩ := matchOne_rel hr a o (hl o (by simp))
    have h3 := matchOne_id w a o
    rcases hm : w.matchOne a o with ⟨w1, o1, e1⟩
    rcases hm' : w'.matchOne a o with ⟨w1', o1', e1'⟩
    rw [hm, hm'] at h1 h2
    rw [hm] at h3
    simp only at h1 h2 h3 ⊢
    obtain ⟨rfl, rfl⟩ := Prod.mk.inj h2
    obtain ⟨g1, g2, g3⟩ := ih h1 (fun x hx => hl x (List.mem_cons_of_mem _ hx))
    rcases hn : w1.matchList a rest with ⟨w2, os, e2⟩
    rcases hn' : w1'.matchList a rest with ⟨w2', os', e2'⟩
    rw [hn, hn'] at g1 g2
    rw [hn] at g3
    simp only at g1 g2 g3 ⊢
    obtain ⟨rfl, rfl⟩ := Prod.mk.inj g2
    refine ⟨g1, rfl, ?_⟩
    intro x hx
    rcases List.mem_cons.mp hx with rfl | hx
    · rw [h3]; exact hl o (by simp)
    · exact g3 x hx

end rel

section rel
variable {T : Prop} {K : List Nat} {w w' : World}

theorem foldl_announce_rel (hr : Rel T K w w') (l : List Ord) :
    Rel T K (l.foldl World.announce w) (l.foldl World.announce w') := by
  induction l generalizing w w' with
  | nil => exact hr
  | cons o rest ih => exact ih (announce_rel hr o)

theorem rel_books (hr : Rel T K w w') (oo ao fs : List Ord) (h : ∀ o ∈ oo ++ ao, o.id ∈ K) :
    Rel T K { w with openOrders := oo, auctionOrders := ao, finals := fs }
      { w' with openOrders := oo, auctionOrders := ao, finals := fs } := by
  obtain ⟨⟨cm, l, t, rfl⟩, ht, hc, hb⟩ := hr
  exact ⟨⟨cm, l, t, rfl⟩, ht, hc, h⟩

end rel

section rel
variable {K : List Nat} {w w' : World}

theorem matchRound_rel (hr : Rel True K w w') :
    Rel True K w.matchRound.1 w'.matchRound.1 ∧ w'.matchRound.2 = w.matchRound.2 := by
  unfold World.matchRound
  rw [hr.openOrders]
  obtain ⟨g1, g2, g3⟩ := matchList_rel hr false w.openOrders
    (fun o ho => hr.books o (List.mem_append.mpr (Or.inl ho)))
  rcases hn : w.matchList false w.openOrders with ⟨w1, r1, e1⟩
  rcases hn' : w'.matchList false w.openOrders with ⟨w1', r1', e1'⟩
  rw [hn, hn'] at g1 g2
  rw [hn] at g3
  simp only at g1 g2 g3 ⊢
  obtain ⟨rfl, rfl⟩ := Prod.mk.inj g2
  rw [g1.auctionOrders]
  obtain ⟨k1, k2, k3⟩ := matchList_rel g1 true w1.auctionOrders
    (fun o ho => g1.books o (List.mem_append.mpr (Or.inr ho)))
  rcases hq : w1.matchList true w1.auctionOrders with ⟨w2, r2, e2⟩
  rcases hq' : w1'.matchList true w1.auctionOrders with ⟨w2', r2', e2'⟩
  rw [hq, hq'] at k1 k2
  rw [hq] at k3
  simp only at k1 k2 k3 ⊢
  obtain ⟨rfl, rfl⟩ := Prod.mk.inj k2
  refine ⟨?_, rfl⟩
  have h3 := foldl_announce_rel k1
    (List.filter (fun o => o.status == .rejected || o.status == .cancelled) (List.filter (·.isFinal) (r1' ++ r2')))
  rw [h3.finals]
  apply rel_books h3
  intro o ho
  simp only [List.append_nil, List.mem_filter, List.mem_append] at ho
  rcases ho.1 with h | h
  · exact g3 o h
  · exact k3 o h

end rel

/-! ### the steps -/

theorem activate_id (o : Ord) : o.activate.id = o.id := rfl

section rel
variable {T : Prop} {K : List Nat} {w w' : World}

/-- BEFORE_TRADING clears the accumulators in both worlds: afterwards they are equal -/
theorem beforeTrading_rel (hr : Rel T K w w') :
    Rel True K w.beforeTrading.1 w'.beforeTrading.1 ∧ w'.beforeTrading.2 = w.beforeTrading.2 := by
  obtain ⟨⟨cm, l, t, rfl⟩, ht, hc, hb⟩ := hr
  refine ⟨⟨⟨cm, l, [], rfl⟩, fun _ => rfl, hc, ?_⟩, rfl⟩
  intro o ho
  simp only [World.beforeTrading, List.mem_append, List.mem_map] at ho
  rcases ho with ⟨x, hx, rfl⟩ | ho
  · exact hb x (List.mem_append.mpr (Or.inl hx))
  · exact hb o (List.mem_append.mpr (Or.inr ho))

theorem rel_phase (hr : Rel T K w w') (p : WPhase) : Rel T K { w with phase := p } { w' with phase := p } := by
  obtain ⟨⟨cm, l, t, rfl⟩, ht, hc, hb⟩ := hr
  exact ⟨⟨cm, l, t, rfl⟩, ht, hc, hb⟩

theorem rel_turnover (hr : Rel T K w w') (t : List (Nat × Int)) : Rel True K { w with turnover := t } { w' with turnover := t } := by
  obtain ⟨⟨cm, l, t0, rfl⟩, ht, hc, hb⟩ := hr
  exact ⟨⟨cm, l, t, rfl⟩, fun _ => rfl, hc, hb⟩

theorem rel_units (hr : Rel T K w w') (u : R) :
    Rel T K { w with pf := { w.pf with units := u } } { w' with pf := { w'.pf with units := u } } := by
  obtain ⟨⟨cm, l, t, rfl⟩, ht, hc, hb⟩ := hr
  exact ⟨⟨cm, l, t, rfl⟩, ht, hc, hb⟩

theorem rel_mkt (hr : Rel T K w w') (m : List DayIns) : Rel T K { w with mkt := m } { w' with mkt := m } := by
  obtain ⟨⟨cm, l, t, rfl⟩, ht, hc, hb⟩ := hr
  exact ⟨⟨cm, l, t, rfl⟩, ht, hc, hb⟩

theorem afterTrading_rel (hr : Rel T K w w') :
    Rel T K w.afterTrading.1 w'.afterTrading.1 ∧ w'.afterTrading.2 = w.afterTrading.2 := by
  have e : List.map Ord.markRejected w'.openOrders = List.map Ord.markRejected w.openOrders := by rw [hr.openOrders]
  unfold World.afterTrading
  simp only
  rw [e]
  refine ⟨?_, rfl⟩
  have h1 := foldl_announce_rel (rel_phase hr .after) (w.openOrders.map Ord.markRejected)
  rw [h1.finals, h1.auctionOrders]
  apply rel_books h1
  intro o ho
  simp only [List.nil_append] at ho
  exact h1.books o (List.mem_append.mpr (Or.inr ho))

theorem cancel_rel (hr : Rel T K w w') (id : Nat) :
    Rel T K (w.cancel id).1 (w'.cancel id).1 ∧ (w'.cancel id).2 = (w.cancel id).2 := by
  unfold World.cancel
  rw [hr.openOrders, hr.auctionOrders]
  cases hfind : (w.openOrders ++ w.auctionOrders).find? (·.id == id) with
  | none => exact ⟨hr, rfl⟩
  | some o =>
    simp only
    have h1 := announce_rel hr o.markCancelled
    refine ⟨?_, trivial⟩
    rw [h1.openOrders, h1.auctionOrders, h1.finals]
    apply rel_books h1
    intro x hx
    simp only [List.mem_append, List.mem_filter] at hx
    rcases hx with hx | hx
    · exact h1.books x (List.mem_append.mpr (Or.inl hx.1))
    · exact h1.books x (List.mem_append.mpr (Or.inr hx.1))

theorem deposit_rel (hr : Rel T K w w') (k : Nat) (amount : R) (recv : Option Nat) :
    Rel T K (w.deposit k amount recv).1 (w'.deposit k amount recv).1 ∧ (w'.deposit k amount recv).2 = (w.deposit k amount recv).2 := by
  unfold World.deposit
  rw [hr.pf]
  cases hn : w.pf.nav with
  | none => exact ⟨hr, rfl⟩
  | some n =>
    cases ha : w.pf.accounts[k]? with
    | none => exact ⟨hr, rfl⟩
    | some a =>
      simp only
      by_cases hz : (n == 0) = true
      · simp only [hz, if_true]; exact ⟨hr, trivial⟩
      · simp only [hz, Bool.false_eq_true, if_false]
        cases hd : a.depositWithdraw amount recv with
        | none => exact ⟨hr, rfl⟩
        | some a' =>
          simp only
          have h1 := apply_rel hr k (.deposit amount recv)
          refine ⟨?_, trivial⟩
          have := rel_units h1 ((w.apply k (.deposit amount recv)).pf.totalValue / n)
          rw [h1.pf] at this ⊢
          exact this

theorem foldl_rel {α : Type _} (f : World → α → World)
    (hf : ∀ w w' x, Rel T K w w' → Rel T K (f w x) (f w' x)) (l : List α) (hr : Rel T K w w') :
    Rel T K (l.foldl f w) (l.foldl f w') := by
  induction l generalizing w w' with
  | nil => exact hr
  | cons x xs ih => exact ih (hf _ _ _ hr)

theorem barStep_rel (hr : Rel T K w w') (k : Nat) :
    Rel T K (w.apply k (.bar w.barPrices)) (w'.apply k (.bar w'.barPrices)) := by
  rw [hr.barPrices]; exact apply_rel hr k _

theorem onBar_rel (hr : Rel T K w w') :
    Rel True K w.onBar.1 w'.onBar.1 ∧ w'.onBar.2 = w.onBar.2 := by
  have e : w'.pf.accounts.length = w.pf.accounts.length := by rw [hr.pf]
  unfold World.onBar
  simp only
  rw [e]
  have h1 := foldl_rel (fun (w : World) (k : Nat) => w.apply k (.bar w.barPrices)) (fun _ _ k h => barStep_rel h k)
    (List.range w.pf.accounts.length) (rel_phase hr .bar)
  exact matchRound_rel (rel_turnover h1 [])

theorem settleStep_rel (hr : Rel T K w w') (k : Nat) :
    Rel T K (w.apply k (.settlement w.stInput)) (w'.apply k (.settlement w'.stInput)) := by
  rw [hr.stInput]; exact apply_rel hr k _

theorem settlement_rel (hr : Rel T K w w') : Rel T K w.settlement w'.settlement := by
  have e : w'.pf.accounts.length = w.pf.accounts.length := by rw [hr.pf]
  unfold World.settlement
  rw [e]
  exact foldl_rel (fun (w : World) (k : Nat) => w.apply k (.settlement w.stInput)) (fun _ _ k h => settleStep_rel h k) _ hr

theorem barData_rel (hr : Rel T K w w') (rows : List (Nat × Option R × MBar)) : Rel T K (w.barData rows) (w'.barData rows) := by
  unfold World.barData
  rw [hr.mkt]
  exact rel_mkt hr _

theorem rel_addAuction (hr : Rel T K w w') (ord : Ord) (ho : ord.id ∈ K) :
    Rel T K { w with auctionOrders := w.auctionOrders ++ [ord] } { w' with auctionOrders := w'.auctionOrders ++ [ord] } := by
  obtain ⟨⟨cm, l, t, rfl⟩, ht, hc, hb⟩ := hr
  refine ⟨⟨cm, l, t, rfl⟩, ht, hc, ?_⟩
  intro x hx
  simp only [List.mem_append, List.mem_singleton] at hx
  rcases hx with hx | hx | rfl
  · exact hb x (List.mem_append.mpr (Or.inl hx))
  · exact hb x (List.mem_append.mpr (Or.inr hx))
  · exact ho

theorem rel_addOpen (hr : Rel T K w w') (ord : Ord) (ho : ord.id ∈ K) :
    Rel T K { w with openOrders := w.openOrders ++ [ord] } { w' with openOrders := w'.openOrders ++ [ord] } := by
  obtain ⟨⟨cm, l, t, rfl⟩, ht, hc, hb⟩ := hr
  refine ⟨⟨cm, l, t, rfl⟩, ht, hc, ?_⟩
  intro x hx
  simp only [List.mem_append, List.mem_singleton] at hx
  rcases hx with (hx | rfl) | hx
  · exact hb x (List.mem_append.mpr (Or.inl hx))
  · exact ho
  · exact hb x (List.mem_append.mpr (Or.inr hx))

end rel

theorem submit_tail {K : List Nat} {v v' : World} (h2 : Rel True K v v') (pre : List WEv) :
    Rel True K (if v.cfg.matchImmediately = true then
            (v.matchRound.1, pre ++ v.matchRound.2) else (v, pre)).1
          (if v'.cfg.matchImmediately = true then
            (v'.matchRound.1, pre ++ v'.matchRound.2) else (v', pre)).1 ∧
      (if v'.cfg.matchImmediately = true then
            (v'.matchRound.1, pre ++ v'.matchRound.2) else (v', pre)).2 =
      (if v.cfg.matchImmediately = true then
            (v.matchRound.1, pre ++ v.matchRound.2) else (v, pre)).2 := by
  rw [h2.cfg]
  split_ifs
  · obtain ⟨h3, h4⟩ := matchRound_rel h2
    generalize v.matchRound = r at h3 h4 ⊢
    generalize v'.matchRound = r' at h3 h4 ⊢
    obtain ⟨w3, evs⟩ := r
    obtain ⟨w3', evs'⟩ := r'
    simp only at h3 h4 ⊢
    exact ⟨h3, by rw [h4]⟩
  · exact ⟨h2, rfl⟩

theorem submit_rel {K : List Nat} {w w' : World} (hr : Rel True K w w') (o : OrderReq) (ho : o.id ∈ K) :
    Rel True K (w.submit o).1 (w'.submit o).1 ∧ (w'.submit o).2 = (w.submit o).2 := by
  unfold World.submit
  rw [hr.cfg, hr.dayOf]
  cases hc : w.cfg.find o.ins with
  | none => exact ⟨hr, rfl⟩
  | some wi =>
    cases hd : w.dayOf o.ins with
    | none => exact ⟨hr, rfl⟩
    | some d =>
      simp only
      rw [hr.acctIdx]
      cases hk : w.acctIdx wi with
      | none => exact ⟨hr, rfl⟩
      | some k =>
        simp only
        rw [hr.lastPrice]
        generalize (if o.isLimit = true then o.price else _) = fp
        rw [hr.validate]
        cases hv : w.validate wi d o fp with
        | some v => exact ⟨hr, rfl⟩
        | none =>
          simp only
          rw [hr.orderCost]
          generalize frozenCashOfOrder _ _ _ _ _ = init
          have h1 := apply_rel hr k (.pendingNew init)
          generalize w.apply k (.pendingNew init) = w1 at h1 ⊢
          generalize w'.apply k (.pendingNew init) = w1' at h1 ⊢
          have hph' : (w1'.phase == WPhase.auction) = (w1.phase == WPhase.auction) := by rw [h1.phase]
          rw [hph']
          by_cases hph : (w1.phase == WPhase.auction) = true
          · simp only [hph, if_true]
            refine submit_tail (rel_addAuction h1 _ ?_) _
            exact ho
          · simp only [hph, Bool.false_eq_true, if_false]
            refine submit_tail (rel_addOpen h1 _ ?_) _
            exact ho

/-! ### the morning -/

/-- the body of the fold of `World.reinvestFees` -/
def rfStep (acc : List (Nat × R) × World) (h : Holding) : List (Nat × R) × World :=
  if h.cfg.isFuture then acc
  else match acc.2.cfg.find h.ins, acc.2.dayOf h.ins with
    | some wi, some d =>
      let probe := h.long.beforeTradingStock h.cfg d.corp acc.2.cfg.reinvest
                     (fun q p => (acc.2.tradeFee wi none true .open_ q p 0).1)
      match probe.2.2 with
      | some t => (acc.1 ++ [(h.ins, t.fee)], (acc.2.tradeFee wi none true .open_ t.qty t.price 0).2)
      | none => acc
    | _, _ => acc

theorem reinvestFees_eq (w : World) (a : Acct) : w.reinvestFees a = a.holdings.foldl rfStep ([], w) := rfl

section rel
variable {T : Prop} {K : List Nat}

theorem rfStep_rel (acc acc' : List (Nat × R) × World) (h : Holding) (e : acc'.1 = acc.1)
    (hr : Rel T K acc.2 acc'.2) : (rfStep acc' h).1 = (rfStep acc h).1 ∧ Rel T K (rfStep acc h).2 (rfStep acc' h).2 := by
  obtain ⟨fs, v⟩ := acc
  obtain ⟨fs', v'⟩ := acc'
  simp only at e hr
  subst e
  unfold rfStep
  simp only
  split_ifs
  · exact ⟨rfl, hr⟩
  · rw [hr.cfg, hr.dayOf]
    cases hc : v.cfg.find h.ins with
    | none => exact ⟨rfl, hr⟩
    | some wi =>
      cases hd : v.dayOf h.ins with
      | none => exact ⟨rfl, hr⟩
      | some d =>
        simp only
        have hfee : (fun q p => (v'.tradeFee wi none true .open_ q p 0).1) = (fun q p => (v.tradeFee wi none true .open_ q p 0).1) :=
          funext fun q => funext fun p => (tradeFee_rel hr wi none true .open_ q p 0 (Or.inl rfl)).1
        rw [hfee]
        cases hp : (Pos.beforeTradingStock h.cfg h.long d.corp v.cfg.reinvest
            (fun q p => (v.tradeFee wi none true .open_ q p 0).1)).2.2 with
        | none => exact ⟨rfl, hr⟩
        | some t => exact ⟨rfl, (tradeFee_rel hr wi none true .open_ t.qty t.price 0 (Or.inl rfl)).2⟩

theorem reinvestFees_rel {w w' : World} (hr : Rel T K w w') (a : Acct) :
    (w'.reinvestFees a).1 = (w.reinvestFees a).1 ∧ Rel T K (w.reinvestFees a).2 (w'.reinvestFees a).2 := by
  rw [reinvestFees_eq, reinvestFees_eq]
  suffices h : ∀ (l : List Holding), ∀ acc acc' : List (Nat × R) × World, acc'.1 = acc.1 → Rel T K acc.2 acc'.2 →
      (l.foldl rfStep acc').1 = (l.foldl rfStep acc).1 ∧ Rel T K (l.foldl rfStep acc).2 (l.foldl rfStep acc').2 from
    h a.holdings _ _ rfl hr
  intro l
  induction l with
  | nil => intro acc acc' e h; exact ⟨e, h⟩
  | cons x xs ih =>
    intro acc acc' e h
    simp only [List.foldl_cons]
    obtain ⟨e1, h1⟩ := rfStep_rel acc acc' x e h
    exact ih _ _ e1 h1

theorem morningStep_rel {w w' : World} (hr : Rel T K w w') (k : Nat) :
    Rel T K (match w.acct k with
            | some a => (match w.reinvestFees a with | (fees, w1) => w1.apply k (.beforeTrading (w1.btInput fees)))
            | none => w)
          (match w'.acct k with
            | some a => (match w'.reinvestFees a with | (fees, w1) => w1.apply k (.beforeTrading (w1.btInput fees)))
            | none => w') := by
  rw [hr.acct]
  cases ha : w.acct k with
  | none => exact hr
  | some a =>
    simp only
    obtain ⟨e1, h1⟩ := reinvestFees_rel hr a
    generalize w.reinvestFees a = r at e1 h1 ⊢
    generalize w'.reinvestFees a = r' at e1 h1 ⊢
    obtain ⟨fees, w1⟩ := r
    obtain ⟨fees', w1'⟩ := r'
    simp only at e1 h1 ⊢
    subst e1
    rw [h1.btInput]
    exact apply_rel h1 k _

/-- PRE_BEFORE_TRADING does not read the accumulators: it keeps the relation whether or not they are equal -/
theorem preBeforeTrading_rel {w w' : World} (hr : Rel T K w w') (today : Nat) (tax : R) (mkt : List DayIns) :
    Rel T K (w.preBeforeTrading today tax mkt) (w'.preBeforeTrading today tax mkt) := by
  have e : w'.pf.preBeforeTrading.accounts.length = w.pf.preBeforeTrading.accounts.length := by rw [hr.pf]
  unfold World.preBeforeTrading
  simp only
  rw [e]
  apply foldl_rel _ (fun _ _ k h => morningStep_rel h k)
  obtain ⟨⟨cm, l, t, rfl⟩, ht, hc, hb⟩ := hr
  exact ⟨⟨cm, l, t, rfl⟩, ht, hc, hb⟩

end rel

/-! ### one input, whole runs -/

theorem step_rel {K : List Nat} {w w' : World} (hr : Rel True K w w') (i : WIn) (hk : ∀ id ∈ RQ.Lemmas.WorldC.submittedId i, id ∈ K) :
    Rel True K (w.step i).1 (w'.step i).1 ∧ (w'.step i).2 = (w.step i).2 := by
  cases i with
  | preBeforeTrading today tax mkt => exact ⟨preBeforeTrading_rel hr today tax mkt, rfl⟩
  | barData rows => exact ⟨barData_rel hr rows, rfl⟩
  | beforeTrading => exact beforeTrading_rel hr
  | openAuction => exact ⟨rel_phase hr .auction, rfl⟩
  | bar => exact onBar_rel hr
  | afterTrading => exact afterTrading_rel hr
  | settlement => exact ⟨settlement_rel hr, rfl⟩
  | submit o => exact submit_rel hr o (hk o.id (by simp [RQ.Lemmas.WorldC.submittedId]))
  | cancel id => exact cancel_rel hr id
  | deposit k amount recv => exact deposit_rel hr k amount recv
  | finance k amount => exact ⟨apply_rel hr k _, rfl⟩

theorem run_cons_fst (w : World) (i : WIn) (rest : List WIn) : (w.run (i :: rest)).1 = ((w.step i).1.run rest).1 := rfl
theorem run_cons_snd (w : World) (i : WIn) (rest : List WIn) :
    (w.run (i :: rest)).2 = (w.step i).2 ++ ((w.step i).1.run rest).2 := rfl

theorem run_rel {K : List Nat} {w w' : World} (hr : Rel True K w w') (ins : List WIn) (hk : ∀ id ∈ submittedIds ins, id ∈ K) :
    Rel True K (w.run ins).1 (w'.run ins).1 ∧ (w'.run ins).2 = (w.run ins).2 := by
  induction ins generalizing w w' with
  | nil => exact ⟨hr, rfl⟩
  | cons i rest ih =>
    rw [RQ.Lemmas.WorldC.submittedIds_cons] at hk
    obtain ⟨h1, h2⟩ := step_rel hr i (fun id hid => hk id (List.mem_append.mpr (Or.inl hid)))
    obtain ⟨k1, k2⟩ := ih h1 (fun id hid => hk id (List.mem_append.mpr (Or.inr hid)))
    rw [run_cons_fst, run_cons_fst, run_cons_snd, run_cons_snd]
    exact ⟨k1, by rw [h2, k2]⟩

theorem futureKeys_ids (ins : List WIn) : (futureKeys ins).filterMap (·.1) = submittedIds ins := by
  unfold futureKeys
  rw [List.filterMap_map]
  induction submittedIds ins with
  | nil => rfl
  | cons x xs ih => simp

theorem agree_of_rel {K : List Nat} {keys : List (Option Nat × Nat)} {w w' : World} (hr : Rel True K w w')
    (hK : keys.filterMap (·.1) = K) : Agree keys w w' := by
  obtain ⟨⟨cm, l, t, rfl⟩, ht, hc, hb⟩ := hr
  refine ⟨rfl, rfl, rfl, rfl, rfl, rfl, rfl, rfl, rfl, rfl, rfl, (ht trivial).symm, ?_⟩
  intro key hkey
  rw [hK] at hkey
  exact (hc key hkey).symm

/-- **resume is transparent for the trading core at a day boundary**: the run is stopped with empty books (after the close: the day
structure guarantees it), the continuation starts with the morning (PRE_BEFORE_TRADING, BEFORE_TRADING — the broker clears the
accumulators there), submits orders whose ids the interrupted run never used, and the deciders' shared `None` entries are unused
(hypothesis `hnone`: the one thing finding F27 is about).  Then the continuation from the restored state publishes exactly the events
of the uninterrupted continuation and ends in a state that agrees with it on everything but stale fee-map entries. -/
theorem resume_transparent (w : World) (today : Nat) (tax : R) (mkt : List DayIns) (rest : List WIn)
    (ho : w.openOrders = []) (ha : w.auctionOrders = [])
    (hfresh : ∀ id ∈ submittedIds rest, ∀ t, ∀ e ∈ w.commMap, e.1 ≠ (some id, t))
    (hnone : ∀ t, w.commRem (none, t) = w.cfg.stockCost.minC) :
    let ins := WIn.preBeforeTrading today tax mkt :: WIn.beforeTrading :: rest
    (w.run ins).2 = ((forget w).run ins).2 ∧ Agree (futureKeys rest) (w.run ins).1 ((forget w).run ins).1 := by
  intro ins
  have h0 : Rel False (submittedIds rest) w (forget w) := by
    refine ⟨⟨[], w.log, [], rfl⟩, fun h => h.elim, ?_, ?_⟩
    · intro key hk
      obtain ⟨a, t⟩ := key
      rcases hk with hk | ⟨id, hk, hid⟩
      · simp only at hk
        subst hk
        rw [hnone]; rfl
      · simp only at hk
        subst hk
        have hf : w.commMap.find? (·.1 == (some id, t)) = none := by
          rw [List.find?_eq_none]
          intro e he
          simpa using hfresh id hid t e he
        unfold World.commRem
        rw [hf]; rfl
    · rw [ho, ha]; simp
  have h1 := preBeforeTrading_rel h0 today tax mkt
  obtain ⟨h2, e2⟩ := beforeTrading_rel h1
  obtain ⟨h3, e3⟩ := run_rel h2 rest (fun id h => h)
  have hs1 : ∀ v : World, (v.run ins).1 = ((v.preBeforeTrading today tax mkt).beforeTrading.1.run rest).1 := fun v => rfl
  have hs2 : ∀ v : World, (v.run ins).2 = (v.preBeforeTrading today tax mkt).beforeTrading.2 ++
      ((v.preBeforeTrading today tax mkt).beforeTrading.1.run rest).2 := fun v => rfl
  rw [hs1, hs1, hs2, hs2]
  exact ⟨by rw [e2, e3], agree_of_rel h3 (futureKeys_ids rest)⟩

/-- a world whose shared `None` entry of decider 0 is partly used: 1 left of a minimum commission of 5 -/
def f27W : World :=
  { RQ.Lemmas.WorldC.Counterexample.ceW with
    cfg := { RQ.Lemmas.WorldC.Counterexample.ceCfg with stockCost := { rate := 0, mult := 1, minC := 5, taxRate := 0, taxMult := 1 } },
    commMap := [((none, 0), 1)] }

theorem f27_fee_original : (f27W.tradeFee RQ.Lemmas.WorldC.Counterexample.ceIns none true .open_ 100 10 0).1 = 0 := by
  simp [World.tradeFee, f27W, RQ.Lemmas.WorldC.Counterexample.ceIns, World.commRem, World.stockCost, tradeCommission, rawCommission,
    stockTax]
  norm_num

theorem f27_fee_restored : ((forget f27W).tradeFee RQ.Lemmas.WorldC.Counterexample.ceIns none true .open_ 100 10 0).1 = 5 := by
  simp [World.tradeFee, forget, f27W, RQ.Lemmas.WorldC.Counterexample.ceIns, World.commRem, World.stockCost, tradeCommission,
    rawCommission, stockTax]
  norm_num

/-- the hypothesis on the `None` entries is needed (finding F27): a world whose shared entry is partly used and its restored copy
charge different fees for the next reinvestment trade -/
theorem none_entry_matters :
    ∃ (w : World) (wi : WIns), (w.tradeFee wi none true .open_ 100 10 0).1 ≠ ((forget w).tradeFee wi none true .open_ 100 10 0).1 := by
  refine ⟨f27W, RQ.Lemmas.WorldC.Counterexample.ceIns, ?_⟩
  rw [f27_fee_original, f27_fee_restored]
  norm_num

end RQ.Lemmas.WorldJ

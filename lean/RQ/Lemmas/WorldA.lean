/-
World-level lemmas, part A: every TRADE the free-running world publishes is a fill decided by `matchOrder` (the matcher model the
C05 / C06 theorems are about) on the market table in force at that step.
-/
import RQ.Model.World
import Mathlib.Tactic.SplitIfs

namespace RQ.Lemmas.WorldA
open RQ.Q

/-- `matchOrder` is `matchPre` followed by `matchPost` (the world runs the two halves with the cost decider in between) -/
theorem matchOrder_eq (cfg : MCfg) (ic : InsCfg) (o : Ord) (b : MBar) (oa : Bool) (tv : Int) (cash : R) (fee : Int → R → R)
    (ct : Int → Int) :
    matchOrder cfg ic o b oa tv cash fee ct =
      (match matchPre cfg ic o b oa tv with
       | .inl out => out
       | .inr (f, p) => matchPost cfg ic o f p cash (fee f p) (ct f)) := by
  unfold matchOrder matchPre
  cases validPrice b.deal with
  | none => rfl
  | some deal =>
    cases hu : b.limitUp <;> cases hd : b.limitDown <;> cases hv : b.volume <;> dsimp only <;>
    (split
     · rename_i h; simp only [h]
     · rename_i h; simp only [h]
       split
       · rfl
       · split
         · rename_i h3; simp only [h3]
         · rename_i h3; simp only [h3]
           split
           · rename_i h4; simp only [h4]
           · rename_i h4; simp only [h4]; rfl)

/-- `apply` changes accounts and the ghost log only -/
theorem apply_frame (w : World) (k : Nat) (op : AcctOp) :
    (w.apply k op).cfg = w.cfg ∧ (w.apply k op).mkt = w.mkt ∧ (w.apply k op).phase = w.phase ∧
    (w.apply k op).turnover = w.turnover ∧ (w.apply k op).openOrders = w.openOrders ∧ (w.apply k op).auctionOrders = w.auctionOrders := by
  unfold World.apply
  split <;> simp

/-! helpers: frame facts of the pieces of a matcher call -/

theorem setCommRem_frame (w : World) (key : Option Nat × Nat) (v : R) :
    (w.setCommRem key v).cfg = w.cfg ∧ (w.setCommRem key v).mkt = w.mkt := by
  unfold World.setCommRem
  split <;> simp

theorem tradeFee_frame (w : World) (wi : WIns) (oid : Option Nat) (isBuy : Bool) (e : Effect) (q : Int) (p : R) (ct : Int) :
    (w.tradeFee wi oid isBuy e q p ct).2.cfg = w.cfg ∧ (w.tradeFee wi oid isBuy e q p ct).2.mkt = w.mkt := by
  unfold World.tradeFee
  split
  · simp
  · exact setCommRem_frame _ _ _

theorem addTurnover_frame (w : World) (ins : Nat) (q : Int) :
    (w.addTurnover ins q).cfg = w.cfg ∧ (w.addTurnover ins q).mkt = w.mkt := by
  unfold World.addTurnover
  split <;> simp

theorem mcfg_congr {w w' : World} (h : w'.cfg = w.cfg) (wi : WIns) : w'.mcfg wi = w.mcfg wi := by
  unfold World.mcfg World.slip
  rw [h]

theorem matchPost_fill {cfg : MCfg} {ic : InsCfg} {o : Ord} {f : Int} {price cash fee : R} {ct : Int} {q : Int} {p : R} {c : Int}
    {cr : Bool} (h : matchPost cfg ic o f price cash fee ct = .fill q p c cr) : c = ct := by
  unfold matchPost at h
  extract_lets nc at h
  clear_value nc
  cases nc with
  | none => cases h
  | some chk =>
    dsimp only at h
    split at h
    · cases h
    · cases h; rfl

theorem matchOne_spec (w : World) (auction : Bool) (o : Ord) :
    ((w.matchOne auction o).2.2 = [] ∧ (w.matchOne auction o).1.cfg = w.cfg ∧ (w.matchOne auction o).1.mkt = w.mkt) ∨
    (o.isFinal = false ∧ ∃ wi d f price, ∃ (w2 : World) (cash fee : R) (ct q : Int) (p : R) (cr : Bool), w.cfg.find o.ins = some wi ∧ w.dayOf o.ins = some d ∧
      matchPre (w.mcfg wi) wi.cfg o (if auction then d.auc else d.bar) auction (w.turnoverOf o.ins) = .inr (f, price) ∧
      w2.cfg = w.cfg ∧ matchPost (w2.mcfg wi) wi.cfg o f price cash fee ct = .fill q p ct cr ∧
      (w.matchOne auction o).2.2 = [.order (.trade o.id q p fee)] ∧
      (w.matchOne auction o).1.cfg = w.cfg ∧ (w.matchOne auction o).1.mkt = w.mkt) := by
  unfold World.matchOne
  split
  · simp
  · rename_i hfin
    split
    · simp
    split
    · rename_i wi d hwi hd
      split
      · simp
      · rename_i k hk
        extract_lets b isLong createLast w1
        split
        · simp
        · rename_i f price hpre
          extract_lets ct
          split
          rename_i fee w2 hfee
          have hw1 := apply_frame w k (AcctOp.touch o.ins wi.cfg createLast)
          have hw2 := tradeFee_frame w1 wi (some o.id) o.isBuy o.effect f price ct
          rw [hfee] at hw2
          have hc2 : w2.cfg = w.cfg := hw2.1.trans hw1.1
          have hm2 : w2.mkt = w.mkt := hw2.2.trans hw1.2.1
          extract_lets cash out
          generalize hout : out = out'
          cases out' with
          | fill q p c cr =>
            right
            have hc := matchPost_fill hout
            subst hc
            refine ⟨by simpa using hfin, wi, d, f, price, w2, _, fee, _, q, p, cr, hwi, hd, hpre, hc2, hout, rfl, ?_, ?_⟩
            · dsimp only
              rw [(apply_frame _ _ _).1, (addTurnover_frame _ _ _).1, hc2]
            · dsimp only
              rw [(apply_frame _ _ _).2.1, (addTurnover_frame _ _ _).2, hm2]
          | _ => left; exact ⟨rfl, hc2, hm2⟩
    · simp

/-- every TRADE published inside one matcher call is a `.fill` of `matchOrder` evaluated on the world's own configuration, the
instrument's bar of the day (auction bar for auction orders), the accumulated turnover, and the fee / close-today quantity stamped on
the trade -/
theorem matchOne_trade (w : World) (auction : Bool) (o : Ord) (id : Nat) (q : Int) (p fee : R)
    (h : WEv.order (.trade id q p fee) ∈ (w.matchOne auction o).2.2) :
    id = o.id ∧ o.isFinal = false ∧
    ∃ wi d, w.cfg.find o.ins = some wi ∧ w.dayOf o.ins = some d ∧
      ∃ (cash : R) (ct : Int) (cr : Bool),
        matchOrder (w.mcfg wi) wi.cfg o (if auction then d.auc else d.bar) auction (w.turnoverOf o.ins) cash
          (fun _ _ => fee) (fun _ => ct) = .fill q p ct cr := by
  rcases matchOne_spec w auction o with ⟨he, -, -⟩ | ⟨hfin, wi, d, f, price, w2, cash, fee', ct, q', p', cr, hwi, hd, hpre, hc2, hpost, he, -, -⟩
  · rw [he] at h; cases h
  · rw [he] at h
    simp only [List.mem_singleton, WEv.order.injEq, OEvent.trade.injEq] at h
    obtain ⟨rfl, rfl, rfl, rfl⟩ := h
    refine ⟨rfl, hfin, wi, d, hwi, hd, cash, ct, cr, ?_⟩
    rw [matchOrder_eq, hpre]
    dsimp only
    rw [← mcfg_congr hc2 wi]
    exact hpost

/-- a matcher call changes neither the configuration nor the market table -/
theorem matchOne_frame (w : World) (auction : Bool) (o : Ord) :
    (w.matchOne auction o).1.cfg = w.cfg ∧ (w.matchOne auction o).1.mkt = w.mkt := by
  rcases matchOne_spec w auction o with ⟨-, hc, hm⟩ | ⟨-, _, _, _, _, _, _, _, _, _, _, _, -, -, -, -, -, -, hc, hm⟩
  · exact ⟨hc, hm⟩
  · exact ⟨hc, hm⟩

/-! helpers: matching rounds -/

theorem matchList_frame (auction : Bool) (os : List Ord) (w : World) :
    (w.matchList auction os).1.cfg = w.cfg ∧ (w.matchList auction os).1.mkt = w.mkt := by
  induction os generalizing w with
  | nil => exact ⟨rfl, rfl⟩
  | cons o rest ih =>
    unfold World.matchList
    rcases h1 : w.matchOne auction o with ⟨w1, o1, e1⟩
    dsimp only
    rcases h2 : w1.matchList auction rest with ⟨w2, os, e2⟩
    dsimp only
    have f1 := matchOne_frame w auction o
    have f2 := ih w1
    rw [h1] at f1
    rw [h2] at f2
    exact ⟨f2.1.trans f1.1, f2.2.trans f1.2⟩

theorem matchList_trade (auction : Bool) (os : List Ord) (w : World) (ev : WEv)
    (h : ev ∈ (w.matchList auction os).2.2) :
    ∃ (w' : World) (o : Ord), w'.cfg = w.cfg ∧ w'.mkt = w.mkt ∧ ev ∈ (w'.matchOne auction o).2.2 := by
  induction os generalizing w with
  | nil => simp [World.matchList] at h
  | cons o rest ih =>
    unfold World.matchList at h
    rcases h1 : w.matchOne auction o with ⟨w1, o1, e1⟩
    rcases h2 : w1.matchList auction rest with ⟨w2, os, e2⟩
    rw [h1] at h
    dsimp only at h
    rw [h2] at h
    dsimp only at h
    have f1 := matchOne_frame w auction o
    rw [h1] at f1
    rcases List.mem_append.1 h with h | h
    · exact ⟨w, o, rfl, rfl, by rw [h1]; exact h⟩
    · obtain ⟨w', o', hc, hm, hin⟩ := ih w1 (by rw [h2]; exact h)
      exact ⟨w', o', hc.trans f1.1, hm.trans f1.2, hin⟩

theorem matchRound_trade (w : World) (id : Nat) (q : Int) (p fee : R)
    (h : WEv.order (.trade id q p fee) ∈ w.matchRound.2) :
    ∃ (w' : World) (auction : Bool) (o : Ord), w'.cfg = w.cfg ∧ w'.mkt = w.mkt ∧
      WEv.order (.trade id q p fee) ∈ (w'.matchOne auction o).2.2 := by
  unfold World.matchRound at h
  rcases h1 : w.matchList false w.openOrders with ⟨w1, r1, e1⟩
  rcases h2 : w1.matchList true w1.auctionOrders with ⟨w2, r2, e2⟩
  rw [h1] at h
  dsimp only at h
  rw [h2] at h
  dsimp only at h
  have f1 := matchList_frame false w.openOrders w
  rw [h1] at f1
  rcases List.mem_append.1 h with h | h
  · rcases List.mem_append.1 h with h | h
    · obtain ⟨w', o, hc, hm, hin⟩ := matchList_trade false w.openOrders w _ (by rw [h1]; exact h)
      exact ⟨w', false, o, hc, hm, hin⟩
    · obtain ⟨w', o, hc, hm, hin⟩ := matchList_trade true w1.auctionOrders w1 _ (by rw [h2]; exact h)
      exact ⟨w', true, o, hc.trans f1.1, hm.trans f1.2, hin⟩
  · simp at h

theorem foldl_frame (f : World → Nat → World) (hf : ∀ w k, (f w k).cfg = w.cfg ∧ (f w k).mkt = w.mkt)
    (l : List Nat) (w : World) : (l.foldl f w).cfg = w.cfg ∧ (l.foldl f w).mkt = w.mkt := by
  induction l generalizing w with
  | nil => exact ⟨rfl, rfl⟩
  | cons k rest ih =>
    rw [List.foldl_cons]
    exact ⟨(ih _).1.trans (hf w k).1, (ih _).2.trans (hf w k).2⟩

theorem submit_trade (w : World) (o : OrderReq) (id : Nat) (q : Int) (p fee : R)
    (h : WEv.order (.trade id q p fee) ∈ (w.submit o).2) :
    ∃ (w' : World) (auction : Bool) (o : Ord), w'.cfg = w.cfg ∧ w'.mkt = w.mkt ∧
      WEv.order (.trade id q p fee) ∈ (w'.matchOne auction o).2.2 := by
  unfold World.submit at h
  split at h
  · split at h
    · simp at h
    · rename_i k hk
      extract_lets frozenPrice init w1 ord w2 at h
      split at h
      · simp at h
      · have hw1 := apply_frame w k (.pendingNew init)
        have hw2 : w2.cfg = w.cfg ∧ w2.mkt = w.mkt := by
          show (if _ then _ else _ : World).cfg = _ ∧ (if _ then _ else _ : World).mkt = _
          split
          · exact ⟨hw1.1, hw1.2.1⟩
          · exact ⟨hw1.1, hw1.2.1⟩
        split at h
        · rcases h3 : w2.matchRound with ⟨w3, evs⟩
          rw [h3] at h
          simp only [List.mem_append, List.mem_cons, reduceCtorEq, WEv.order.injEq, List.not_mem_nil, or_false, false_or] at h
          obtain ⟨w', a, o', hc, hm, hin⟩ := matchRound_trade w2 id q p fee (by rw [h3]; exact h)
          exact ⟨w', a, o', hc.trans hw2.1, hm.trans hw2.2, hin⟩
        · simp at h
  · simp at h

/-- every TRADE a step publishes comes out of a matcher call on a world that has the step's configuration and — unless the step is the
one that installs a new table — the step's market table -/
theorem step_trade (w : World) (i : WIn) (id : Nat) (q : Int) (p fee : R)
    (h : WEv.order (.trade id q p fee) ∈ (w.step i).2) :
    ∃ (w' : World) (auction : Bool) (o : Ord), w'.cfg = w.cfg ∧ w'.mkt = w.mkt ∧
      WEv.order (.trade id q p fee) ∈ (w'.matchOne auction o).2.2 := by
  cases i with
  | preBeforeTrading today tax mkt => simp [World.step] at h
  | barData rows => simp [World.step] at h
  | beforeTrading => simp [World.step, World.beforeTrading] at h
  | openAuction => simp [World.step] at h
  | bar =>
    simp only [World.step, World.onBar] at h
    obtain ⟨w', a, o, hc, hm, hin⟩ := matchRound_trade _ id q p fee h
    have hf := foldl_frame (fun (w : World) (k : Nat) => w.apply k (.bar w.barPrices))
      (fun w k => ⟨(apply_frame _ _ _).1, (apply_frame _ _ _).2.1⟩) (List.range w.pf.accounts.length) { w with phase := .bar }
    exact ⟨w', a, o, hc.trans hf.1, hm.trans hf.2, hin⟩
  | afterTrading => simp [World.step, World.afterTrading] at h
  | settlement => simp [World.step] at h
  | submit o => exact submit_trade w o id q p fee h
  | cancel id' =>
    simp only [World.step, World.cancel] at h
    split at h <;> simp at h
  | deposit k amount recv =>
    simp only [World.step, World.deposit] at h
    split at h
    · split at h
      · simp at h
      · split at h <;> simp at h
    · simp at h
  | finance k amount => simp [World.step] at h

/-- the worlds a run passes through: the state each input meets -/
def states (w : World) : List WIn → List World
  | [] => []
  | i :: rest => w :: states (w.step i).1 rest

/-- whole runs: every TRADE of the run is a `matchOrder` fill against the configuration of the run and the market table some input of
the run met -/
theorem run_trade (w : World) (ins : List WIn) (id : Nat) (q : Int) (p fee : R)
    (h : WEv.order (.trade id q p fee) ∈ (w.run ins).2) :
    ∃ ws ∈ states w ins, ∃ (auction : Bool) (o : Ord) (wi : WIns) (d : DayIns) (tv : Int) (cash : R) (ct : Int) (cr : Bool),
      id = o.id ∧ ws.cfg.find o.ins = some wi ∧ ws.dayOf o.ins = some d ∧
      matchOrder (ws.mcfg wi) wi.cfg o (if auction then d.auc else d.bar) auction tv cash (fun _ _ => fee) (fun _ => ct)
        = .fill q p ct cr := by
  induction ins generalizing w with
  | nil => simp [World.run] at h
  | cons i rest ih =>
    unfold World.run at h
    rcases h1 : w.step i with ⟨w1, e1⟩
    rcases h2 : w1.run rest with ⟨w2, e2⟩
    rw [h1] at h
    dsimp only at h
    rw [h2] at h
    dsimp only at h
    rcases List.mem_append.1 h with h | h
    · obtain ⟨w', a, o, hc, hm, hin⟩ := step_trade w i id q p fee (by rw [h1]; exact h)
      obtain ⟨hid, -, wi, d, hwi, hd, cash, ct, cr, hmo⟩ := matchOne_trade w' a o id q p fee hin
      refine ⟨w, by simp [states], a, o, wi, d, w'.turnoverOf o.ins, cash, ct, cr, hid, ?_, ?_, ?_⟩
      · rw [← hc]; exact hwi
      · unfold World.dayOf at hd ⊢; rw [← hm]; exact hd
      · rw [← mcfg_congr hc wi]; exact hmo
    · obtain ⟨ws, hws, rest'⟩ := ih w1 (by rw [h2]; exact h)
      refine ⟨ws, ?_, rest'⟩
      simp only [states, h1, List.mem_cons]
      exact Or.inr hws

end RQ.Lemmas.WorldA

/-
World-level lemmas, part L (corporate actions, delisting and expiry never change account value, C12 / C02 at account and whole-system
level): the morning step (dividend book closure and payout, due deposits) and the settlement step (mark-to-market in close mode, expiry,
delisting payout) of a WHOLE account — any number of holdings — leave its total value unchanged; and so does the corresponding step of the
composed world for every account.  Excluded, because they do change value by design and are treated elsewhere: a split (whole-share
rounding), a reinvestment purchase (its fee), interest on cash liabilities, the management fee, a settlement price different from the last
price (a price move), forfeited delisted holdings, forced liquidation.
-/
import RQ.Model.World
import RQ.Lemmas.WorldB
import Mathlib.Tactic.SplitIfs
import Mathlib.Tactic.Ring
import Mathlib.Tactic.Linarith

namespace RQ.Lemmas.WorldL
open RQ.Q

/-! ### helpers: sums, total value in closed form -/

theorem foldl_add_eq_sum (l : List Rat) (z : Rat) : l.foldl (· + ·) z = z + l.sum := by
  induction l generalizing z with
  | nil => simp
  | cons x xs ih => simp [List.foldl_cons, ih, add_assoc]

theorem pysum_eq_sum (l : List Rat) : R.pysum l = l.sum := by
  unfold R.pysum; rw [foldl_add_eq_sum]; simp

/-- the equity of the two positions of one holding -/
def hEq (h : Holding) : R := h.long.equity h.cfg + h.short.equity h.cfg

theorem positionEquity_eq (a : Acct) : a.positionEquity = (a.holdings.map hEq).sum := by
  unfold Acct.positionEquity Acct.iterPos
  rw [pysum_eq_sum]
  induction a.holdings with
  | nil => simp
  | cons h hs ih =>
    simp only [List.flatMap_cons, List.map_append, List.sum_append, List.map_cons, List.sum_cons, ih, List.map_nil,
      List.sum_nil, hEq]
    ring

/-- total value: cash + Σ equity of the holdings − liabilities − accrued interest + deposits in transit -/
theorem total_value_eq (a : Acct) :
    a.totalValue = a.totalCash + (a.holdings.map hEq).sum - a.liabilities
      - a.liabilities * a.finRate / 365 + (a.pending.map (·.2)).sum := by
  unfold Acct.totalValue Acct.liabInterest
  rw [positionEquity_eq]
  cases hp : a.pending with
  | nil => simp
  | cons x xs => simp [pysum_eq_sum]

/-- a fold that adds a per-element amount to a running cash and appends a per-element image -/
theorem foldl_pair {α β : Type} (f : α → Rat) (g : α → β) (step : Rat × List β → α → Rat × List β)
    (hstep : ∀ acc h, step acc h = (acc.1 + f h, acc.2 ++ [g h])) (l : List α) (z : Rat × List β) :
    l.foldl step z = (z.1 + (l.map f).sum, z.2 ++ l.map g) := by
  induction l generalizing z with
  | nil => simp
  | cons x xs ih =>
    rw [List.foldl_cons, ih, hstep]
    simp only [List.map_cons, List.sum_cons, List.append_assoc, List.singleton_append, Prod.mk.injEq, and_true]
    ring

theorem foldl_snd_sum (l : List (Nat × Rat)) (z : Rat) :
    l.foldl (fun c d => c + d.2) z = z + (l.map (·.2)).sum := by
  induction l generalizing z with
  | nil => simp
  | cons x xs ih => rw [List.foldl_cons, ih]; simp only [List.map_cons, List.sum_cons]; ring

/-- per-element conservation sums up -/
theorem sum_map_conserve {α : Type} (f f' d : α → Rat) (l : List α) (h : ∀ x ∈ l, f' x + d x = f x) :
    (l.map f').sum + (l.map d).sum = (l.map f).sum := by
  induction l with
  | nil => simp
  | cons x xs ih =>
    have hx := h x (List.mem_cons_self ..)
    have hxs := ih (fun y hy => h y (List.mem_cons_of_mem _ hy))
    simp only [List.map_cons, List.sum_cons]
    linarith

/-- dropping elements that contribute nothing does not change a sum -/
theorem sum_filter_zero {α : Type} (f : α → Rat) (p : α → Bool) (l : List α) (h : ∀ x ∈ l, p x = false → f x = 0) :
    ((l.filter p).map f).sum = (l.map f).sum := by
  induction l with
  | nil => simp
  | cons x xs ih =>
    have hxs := ih (fun y hy => h y (List.mem_cons_of_mem _ hy))
    cases hp : p x with
    | true => simp [hp, hxs]
    | false =>
      have := h x (List.mem_cons_self ..) hp
      simp [hp, hxs, this]

theorem sum_takeWhile_dropWhile {α : Type} (f : α → Rat) (p : α → Bool) (l : List α) :
    ((l.takeWhile p).map f).sum + ((l.dropWhile p).map f).sum = (l.map f).sum := by
  rw [← List.sum_append, ← List.map_append, List.takeWhile_append_dropWhile]

/-! ### the morning step -/

/-- cash effect of one holding at before_trading -/
def btDelta (i : BTInput) (h : Holding) : R :=
  if h.cfg.isFuture then 0 else (h.long.beforeTradingStock h.cfg (i.corp h.ins) i.reinvest (i.fee h.ins)).2.1

/-- instruments kept by the purge at before_trading -/
def keepB (h : Holding) : Bool :=
  !((h.long.qty == 0 && h.long.equity h.cfg == 0) && (h.short.qty == 0 && h.short.equity h.cfg == 0))

/-- the holding after before_trading -/
def btH (i : BTInput) (h : Holding) : Holding :=
  if h.cfg.isFuture then { h with long := h.long.beforeTradingBase, short := h.short.beforeTradingBase }
  else { h with long := (h.long.beforeTradingStock h.cfg (i.corp h.ins) i.reinvest (i.fee h.ins)).1,
                short := h.short.beforeTradingBase }

/-- `_on_before_trading` in closed form -/
theorem onBeforeTrading_eq (a : Acct) (i : BTInput) :
    a.onBeforeTrading i =
      { a with
        totalCash := a.totalCash + ((a.pending.takeWhile (fun d => d.1 ≤ i.today)).map (·.2)).sum
          + ((a.holdings.filter keepB).map (btDelta i)).sum,
        pending := a.pending.dropWhile (fun d => d.1 ≤ i.today),
        holdings := (a.holdings.filter keepB).map (btH i),
        liabilities := if a.liabilities > 0 then a.liabilities + a.liabilities * a.finRate / 365 else a.liabilities } := by
  unfold Acct.onBeforeTrading
  simp only
  rw [foldl_pair (btDelta i) (btH i) _ ?_, foldl_snd_sum]
  · rfl
  · intro acc h
    unfold btDelta btH
    by_cases hf : h.cfg.isFuture = true
    · simp only [hf, if_true, add_zero]
    · simp only [hf, if_false, add_zero, Bool.false_eq_true]

theorem equity_base (c : InsCfg) (p : Pos) : p.beforeTradingBase.equity c = p.equity c := by
  rfl

theorem equity_stock (c : InsCfg) (hc : c.isFuture = false) (p : Pos) :
    p.equity c = (if p.qty = 0 then 0 else p.last * (p.qty : Rat)) + p.recv := by
  simp [Pos.equity, hc, R.ofInt]

/-- stage 1 of `StockPosition.before_trading`: `_handle_dividend_book_closure` -/
def btBook (p0 : Pos) (b : Option (R × Nat)) : Pos :=
  match b with
  | some (dps, payable) =>
    { p0 with avg := p0.avg - dps, last := p0.last - dps, divRecv := some (payable, R.ofInt p0.qty * dps) }
  | none => p0

/-- stage 2: `_handle_dividend_payable` -/
def btPay (cfg : InsCfg) (p1 : Pos) (today : Nat) (reinvest : Bool) (fee : Int → R → R) : Pos × R × Option TradeIn :=
  match p1.divRecv with
  | some (payable, value) =>
    if payable ≠ today then (p1, 0, none)
    else
      let pc := { p1 with divRecv := none }
      if reinvest then
        let a0 := R.decQuot10 value pc.last
        let amount := R.decQuot10 (R.ofInt a0) (R.ofInt cfg.lot) * cfg.lot
        if amount > 0 then
          let t : TradeIn := { price := pc.last, qty := amount, effect := .open_, fee := fee amount pc.last }
          ((pc.applyTradeStock cfg t).1, value - R.ofInt amount * pc.last - t.fee, some t)
        else (pc, value, none)
      else (pc, value, none)
  | none => (p1, 0, none)

/-- stage 3: `_handle_split` -/
def btSplit (p2 : Pos) (s : Option R) : Pos :=
  match s with
  | some ratio =>
    let q' := R.decMulRound10 (R.ofInt p2.qty) ratio
    { p2 with avg := p2.avg / ratio, last := p2.last / ratio, qty := q', oldQty := q',
              logicalOld := R.decMulRound10 (R.ofInt p2.logicalOld) ratio }
  | none => p2

theorem bts_eq (cfg : InsCfg) (p : Pos) (c : CorpDay) (reinvest : Bool) (fee : Int → R → R) :
    p.beforeTradingStock cfg c reinvest fee =
      if p.qty = 0 && p.divRecv.isNone then (p.beforeTradingBase, 0, none)
      else
        (btSplit (btPay cfg (btBook p.beforeTradingBase c.bookDps) c.today reinvest fee).1 c.split,
         0 + (btPay cfg (btBook p.beforeTradingBase c.bookDps) c.today reinvest fee).2.1,
         (btPay cfg (btBook p.beforeTradingBase c.bookDps) c.today reinvest fee).2.2) := by
  rfl

theorem btPay_false (c : InsCfg) (p1 : Pos) (today : Nat) (fee : Int → R → R) :
    (btPay c p1 today false fee).1.last = p1.last ∧ (btPay c p1 today false fee).1.qty = p1.qty ∧
    (btPay c p1 today false fee).1.recv + (btPay c p1 today false fee).2.1 = p1.recv := by
  unfold btPay
  cases hd : p1.divRecv with
  | none => simp [Pos.recv, hd]
  | some x =>
    obtain ⟨pay, v⟩ := x
    by_cases hp : pay = today <;> simp [Pos.recv, hd, hp]

/-- before_trading of one stock position without reinvestment and without a split: `equity + cash` unchanged, provided no dividend is
booked while an earlier one is still receivable (`_handle_dividend_book_closure` overwrites `_dividend_receivable`) -/
theorem bt_stock_neutral (c : InsCfg) (hc : c.isFuture = false) (p : Pos) (d : CorpDay) (fee : Int → R → R) (hs : d.split = none)
    (hov : d.bookDps = none ∨ p.recv = 0) :
    (p.beforeTradingStock c d false fee).1.equity c + (p.beforeTradingStock c d false fee).2.1 = p.equity c := by
  have e1 := equity_stock c hc
  rw [bts_eq]
  by_cases h0 : (decide (p.qty = 0) && p.divRecv.isNone) = true
  · rw [if_pos h0]; simp only; rw [e1, e1]
    by_cases hq : p.qty = 0 <;> simp [Pos.beforeTradingBase, Pos.recv, hq]
  · rw [if_neg h0]; simp only [hs, btSplit]; rw [e1, e1]
    obtain ⟨h1, h2, h3⟩ := btPay_false c (btBook p.beforeTradingBase d.bookDps) d.today fee
    rw [h1, h2]
    have : (if (btBook p.beforeTradingBase d.bookDps).qty = 0 then 0 else
          (btBook p.beforeTradingBase d.bookDps).last * ((btBook p.beforeTradingBase d.bookDps).qty : Rat))
        + (btBook p.beforeTradingBase d.bookDps).recv = (if p.qty = 0 then 0 else p.last * (p.qty : Rat)) + p.recv := by
      by_cases hq : p.qty = 0
      · rcases hov with hb | hr
        · rw [hb]; simp [btBook, Pos.beforeTradingBase, Pos.recv, hq]
        · cases hb : d.bookDps with
          | none => simp [btBook, Pos.beforeTradingBase, Pos.recv, hq]
          | some x =>
            obtain ⟨dps, pay⟩ := x
            rw [hr]
            simp [btBook, Pos.beforeTradingBase, Pos.recv, R.ofInt, hq]
      · rcases hov with hb | hr
        · rw [hb]; simp [btBook, Pos.beforeTradingBase, Pos.recv, hq]
        · cases hb : d.bookDps with
          | none => simp [btBook, Pos.beforeTradingBase, Pos.recv, hq]
          | some x =>
            obtain ⟨dps, pay⟩ := x
            rw [hr]
            simp [btBook, Pos.beforeTradingBase, Pos.recv, R.ofInt, hq]; ring
    linarith

/-- a morning without value-changing actions for this account: no split today on any holding, reinvestment off, no cash liabilities;
and (ADDED, see the dropped statement below) no dividend is booked on a holding whose earlier dividend is still receivable -/
def QuietMorning (a : Acct) (i : BTInput) : Prop :=
  i.reinvest = false ∧ a.liabilities = 0 ∧
  (∀ h ∈ a.holdings, h.cfg.isFuture = false → (i.corp h.ins).split = none) ∧
  (∀ h ∈ a.holdings, h.cfg.isFuture = false → (i.corp h.ins).bookDps = none ∨ h.long.recv = 0)

/- DROPPED STATEMENT.  The brief's `QuietMorning` had only the first three conjuncts
    `i.reinvest = false ∧ a.liabilities = 0 ∧ ∀ h ∈ a.holdings, h.cfg.isFuture = false → (i.corp h.ins).split = none`,
and `onBeforeTrading_value_neutral` is FALSE under it: `_handle_dividend_book_closure` OVERWRITES `_dividend_receivable`, so a dividend
booked while an earlier one is still receivable destroys the earlier receivable (the position-level fact is C01 `bt_book_overwrites`).
The account-level counterexample is checked below (`onBeforeTrading_overwrites_receivable`): one stock holding, long 100 shares marked at
10 with a receivable of 7 payable on day 5, a new dividend of 1 per share (payable on day 9) booked this morning (day 3): total value
1007 before, 1000 after.  The corrected statement carries the fourth conjunct of `QuietMorning` above. -/
theorem onBeforeTrading_overwrites_receivable :
    ∃ (a : Acct) (i : BTInput), i.reinvest = false ∧ a.liabilities = 0 ∧
      (∀ h ∈ a.holdings, h.cfg.isFuture = false → (i.corp h.ins).split = none) ∧
      a.totalValue = 1007 ∧ (a.onBeforeTrading i).totalValue = 1000 := by
  refine ⟨⟨0, 0, 0, [], 0, 0, 0,
      [⟨1, ⟨false, 1, 0, 1, true, 100⟩, { Pos.empty true 10 with qty := 100, divRecv := some (5, 7) }, Pos.empty false 10⟩]⟩,
    ⟨3, fun _ => { bookDps := some (1, 9), split := none, today := 3 }, false, fun _ _ _ => 0⟩, rfl, rfl, fun _ _ _ => rfl, ?_, ?_⟩
  · decide +kernel
  · decide +kernel

theorem bt_holding_neutral (a : Acct) (i : BTInput) (hq : QuietMorning a i) (h : Holding) (hh : h ∈ a.holdings) :
    hEq (btH i h) + btDelta i h = hEq h := by
  obtain ⟨hr, _, hs, hov⟩ := hq
  unfold hEq btH btDelta
  by_cases hf : h.cfg.isFuture = true
  · simp only [hf, if_true, equity_base, add_zero]
  · have hf' : h.cfg.isFuture = false := by simpa using hf
    simp only [hf', Bool.false_eq_true, if_false, equity_base, hr]
    have := bt_stock_neutral h.cfg hf' h.long (i.corp h.ins) (i.fee h.ins) (hs h hh hf') (hov h hh hf')
    linarith

/-- **the morning step of a whole account is value-neutral**: dividends go from the price into the receivable (book closure) and from the
receivable into cash (payable date), due deposits go from "in transit" into cash, empty holdings are purged — total value unchanged -/
theorem onBeforeTrading_value_neutral (a : Acct) (i : BTInput) (hq : QuietMorning a i) :
    (a.onBeforeTrading i).totalValue = a.totalValue := by
  have hl : a.liabilities = 0 := hq.2.1
  have h1 := sum_map_conserve hEq (hEq ∘ btH i) (btDelta i) (a.holdings.filter keepB)
    (fun h hh => bt_holding_neutral a i hq h (List.mem_filter.mp hh).1)
  have h2 : ((a.holdings.filter keepB).map hEq).sum = (a.holdings.map hEq).sum := by
    apply sum_filter_zero
    intro h _ hk
    simp only [keepB, Bool.not_eq_false', Bool.and_eq_true, beq_iff_eq] at hk
    unfold hEq
    rw [hk.1.2, hk.2.2]; simp
  have h3 := sum_takeWhile_dropWhile (fun d : Nat × Rat => d.2) (fun d => decide (d.1 ≤ i.today)) a.pending
  rw [total_value_eq, total_value_eq, onBeforeTrading_eq]
  simp only [hl, List.map_map, gt_iff_lt, lt_self_iff_false, if_false]
  linarith

/-! ### the settlement step -/

/-- cash effect of one holding at settlement -/
def stDelta (i : STInput) (h : Holding) : R :=
  if h.cfg.isFuture then (h.long.settlementFuture h.cfg (i.settle h.ins) (i.expires h.ins)).2.1 +
      (h.short.settlementFuture h.cfg (i.settle h.ins) (i.expires h.ins)).2.1
  else (h.long.settlementStock (i.delist h.ins)).2

/-- the holding after settlement -/
def stH (i : STInput) (h : Holding) : Holding :=
  if h.cfg.isFuture then
    { h with long := (h.long.settlementFuture h.cfg (i.settle h.ins) (i.expires h.ins)).1,
             short := (h.short.settlementFuture h.cfg (i.settle h.ins) (i.expires h.ins)).1 }
  else { h with long := (h.long.settlementStock (i.delist h.ins)).1, short := (h.short.settlementStock .none).1 }

/-- the account after the positions have settled, before the management fee -/
def settled (a : Acct) (i : STInput) : Acct :=
  { a with totalCash := a.totalCash + (a.holdings.map (stDelta i)).sum, holdings := a.holdings.map (stH i) }

theorem settlementStock_none (p : Pos) : p.settlementStock .none = (p, 0) := by
  unfold Pos.settlementStock; split_ifs <;> rfl

/-- `_on_settlement` in closed form -/
theorem onSettlement_eq (a : Acct) (i : STInput) :
    a.onSettlement i =
      (let a1 := settled a i
       let fee : R := if a1.mgmtRate == 0 then 0 else a1.totalValue * a1.mgmtRate
       let a2 := { a1 with mgmtFees := a1.mgmtFees + fee, totalCash := a1.totalCash - fee }
       if a2.totalValue ≤ 0 && i.forced then { a2 with holdings := [], totalCash := 0 } else a2) := by
  unfold Acct.onSettlement
  simp only
  rw [foldl_pair (stDelta i) (stH i) _ ?_]
  · rfl
  · intro acc h
    unfold stDelta stH
    by_cases hfu : h.cfg.isFuture = true
    · simp only [hfu, if_true, Prod.mk.injEq, and_true]; ring
    · simp only [hfu, if_false, Bool.false_eq_true, settlementStock_none, add_zero]

/-- daily settlement of a futures position in close mode (expiring or not): `equity + cash` unchanged -/
theorem st_future_neutral (c : InsCfg) (hc : c.isFuture = true) (p : Pos) (e : Bool) :
    (p.settlementFuture c none e).1.equity c + (p.settlementFuture c none e).2.1 = p.equity c := by
  by_cases hq : p.qty = 0
  · simp [Pos.settlementFuture, hq]
  · cases e
    · simp [Pos.settlementFuture, hq, Pos.equity, hc]
    · simp [Pos.settlementFuture, hq, Pos.equity, hc, R.ofInt]

/-- settlement of a stock position that is not forfeited: `equity + cash` unchanged -/
theorem st_stock_neutral (c : InsCfg) (hc : c.isFuture = false) (p : Pos) (k : DelistKind) (hk : k ≠ .forfeit) :
    (p.settlementStock k).1.equity c + (p.settlementStock k).2 = p.equity c := by
  have e1 := equity_stock c hc
  by_cases hq : p.qty = 0
  · simp [Pos.settlementStock, hq]
  · cases k with
    | none => simp [Pos.settlementStock, hq]
    | forfeit => exact absurd rfl hk
    | payout =>
      simp only [Pos.settlementStock, hq, if_false]; rw [e1, e1]; simp [Pos.recv, R.ofInt, hq]; ring

/-- an evening without value-changing actions: close-mode settlement (no separate settlement price), no forfeited holding, no management
fee, no forced liquidation -/
def QuietEvening (a : Acct) (i : STInput) : Prop :=
  a.mgmtRate = 0 ∧ (i.forced = false ∨ 0 < a.totalValue) ∧
  ∀ h ∈ a.holdings, (h.cfg.isFuture = true → i.settle h.ins = none) ∧ (h.cfg.isFuture = false → i.delist h.ins ≠ .forfeit)

theorem st_holding_neutral (i : STInput) (h : Holding)
    (hh : (h.cfg.isFuture = true → i.settle h.ins = none) ∧ (h.cfg.isFuture = false → i.delist h.ins ≠ .forfeit)) :
    hEq (stH i h) + stDelta i h = hEq h := by
  unfold hEq stH stDelta
  by_cases hf : h.cfg.isFuture = true
  · have hl := st_future_neutral h.cfg hf h.long (i.expires h.ins)
    have hs := st_future_neutral h.cfg hf h.short (i.expires h.ins)
    simp only [hf, if_true, hh.1 hf]
    linarith
  · have hf' : h.cfg.isFuture = false := by simpa using hf
    have hl := st_stock_neutral h.cfg hf' h.long (i.delist h.ins) (hh.2 hf')
    simp only [hf', Bool.false_eq_true, if_false, settlementStock_none]
    linarith

theorem settled_value (a : Acct) (i : STInput)
    (hh : ∀ h ∈ a.holdings, (h.cfg.isFuture = true → i.settle h.ins = none) ∧ (h.cfg.isFuture = false → i.delist h.ins ≠ .forfeit)) :
    (settled a i).totalValue = a.totalValue := by
  have h1 := sum_map_conserve hEq (hEq ∘ stH i) (stDelta i) a.holdings (fun h hm => st_holding_neutral i h (hh h hm))
  rw [total_value_eq, total_value_eq]
  simp only [settled, List.map_map]
  linarith

/-- **the settlement step of a whole account is value-neutral**: futures profit moves from the positions into cash and the carrying price
is rebased (expiring contracts are closed at the mark), delisted stock is paid out at the mark — total value unchanged -/
theorem onSettlement_value_neutral (a : Acct) (i : STInput) (hq : QuietEvening a i) :
    (a.onSettlement i).totalValue = a.totalValue := by
  obtain ⟨hm, hf, hh⟩ := hq
  have hs : (settled a i).totalValue = a.totalValue := settled_value a i hh
  have hm' : (settled a i).mgmtRate = 0 := hm
  rw [onSettlement_eq]
  simp only [hm', beq_self_eq_true, if_true, add_zero, sub_zero]
  have key : ∀ (b : Acct) (r : R), ({ b with mgmtRate := r } : Acct).totalValue = b.totalValue := by
    intro b r; rw [total_value_eq, total_value_eq]
  rw [key (settled a i) 0, hs, if_neg, key (settled a i) 0, hs]
  rcases hf with hf | hf
  · simp [hf]
  · simp [hf]

/-! ### the composed world -/

theorem stInput_congr {w w' : World} (h1 : w'.mkt = w.mkt) (h2 : w'.cfg = w.cfg) : w'.stInput = w.stInput := by
  unfold World.stInput World.dayOf; rw [h1, h2]

theorem apply_mkt (w : World) (k : Nat) (op : AcctOp) : (w.apply k op).mkt = w.mkt := by
  unfold World.apply; split <;> rfl

theorem apply_cfg (w : World) (k : Nat) (op : AcctOp) : (w.apply k op).cfg = w.cfg := by
  unfold World.apply; split <;> rfl

theorem apply_accounts (w : World) (k : Nat) (op : AcctOp) (j : Nat) :
    (w.apply k op).pf.accounts[j]? = if j = k then (w.pf.accounts[j]?).map (·.stepOp op) else w.pf.accounts[j]? := by
  unfold World.apply
  cases ha : w.pf.accounts[k]? with
  | none =>
    simp only
    split_ifs with hj
    · subst hj; rw [ha]; rfl
    · rfl
  | some a =>
    simp only [List.getElem?_set]
    have hk : k < w.pf.accounts.length := (List.getElem?_eq_some_iff.mp ha).1
    by_cases hj : j = k
    · subst hj
      have ha' : w.pf.accounts[j] = a := (List.getElem?_eq_some_iff.mp ha).2
      simp [hk, ha']
    · have : ¬ k = j := fun h => hj h.symm
      simp [hj, this]

/-- the settlement fold over the first `n` accounts: the market table and the configuration stay, account `k < n` has settled with the
inputs of the world at the start, the others are untouched -/
theorem settle_fold (w : World) (n : Nat) :
    ((List.range n).foldl (fun (w : World) (k : Nat) => w.apply k (.settlement w.stInput)) w).mkt = w.mkt ∧
    ((List.range n).foldl (fun (w : World) (k : Nat) => w.apply k (.settlement w.stInput)) w).cfg = w.cfg ∧
    ∀ k, ((List.range n).foldl (fun (w : World) (k : Nat) => w.apply k (.settlement w.stInput)) w).pf.accounts[k]? =
      if k < n then (w.pf.accounts[k]?).map (·.onSettlement w.stInput) else w.pf.accounts[k]? := by
  induction n with
  | zero => simp
  | succ n ih =>
    obtain ⟨h1, h2, h3⟩ := ih
    rw [List.range_succ, List.foldl_append]
    simp only [List.foldl_cons, List.foldl_nil]
    refine ⟨by rw [apply_mkt, h1], by rw [apply_cfg, h2], fun k => ?_⟩
    rw [stInput_congr h1 h2, apply_accounts, h3 k]
    by_cases hkn : k = n
    · subst hkn; simp [Acct.stepOp]
    · by_cases hlt : k < n
      · have : k < n + 1 := by omega
        simp [hkn, hlt, this]
      · have : ¬ k < n + 1 := by omega
        simp [hkn, hlt, this]

/-- **in the composed world**: the SETTLEMENT step leaves the total value of every account for which the evening is quiet unchanged -/
theorem world_settlement_value_neutral (w : World) (k : Nat) (a : Acct) (hk : w.pf.accounts[k]? = some a) (hq : QuietEvening a w.stInput) :
    ∃ a', (w.step .settlement).1.pf.accounts[k]? = some a' ∧ a'.totalValue = a.totalValue := by
  have hlt : k < w.pf.accounts.length := (List.getElem?_eq_some_iff.mp hk).1
  refine ⟨a.onSettlement w.stInput, ?_, onSettlement_value_neutral a w.stInput hq⟩
  show w.settlement.pf.accounts[k]? = _
  unfold World.settlement
  rw [(settle_fold w w.pf.accounts.length).2.2 k, if_pos hlt, hk]
  rfl

end RQ.Lemmas.WorldL

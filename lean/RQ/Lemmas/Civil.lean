/-
Kernel-checked facts about the civil-date functions of `RQ/Model/Scheduler.lean` over the finite range
2000-01-01 .. 2040-12-31 (day ordinals 730120 .. 745095): `decide +kernel` over the whole table, no extra axioms.
-/
import RQ.Model.Scheduler
namespace RQ.Lemmas
open RQ.Q

def civilLo : Nat := 730120
def civilN : Nat := 14976

/-- per-day step fact: the month bucket contains the day, and the next day is either in the same bucket or starts
exactly the next bucket -/
def monthStepOk (d : Nat) : Bool :=
  let b := monthBounds d
  b.1 ≤ d && d < b.2 && (monthBounds (d + 1) == b || (b.2 == d + 1 && (monthBounds (d + 1)).1 == d + 1))

theorem month_steps_table : (List.range civilN).all (fun i => monthStepOk (civilLo + i)) = true := by
  decide +kernel

theorem month_step (d : Nat) (h1 : civilLo ≤ d) (h2 : d < civilLo + civilN) : monthStepOk d = true := by
  have h := List.all_eq_true.mp month_steps_table (d - civilLo) (by simp [List.mem_range]; omega)
  have e : civilLo + (d - civilLo) = d := by omega
  simpa [e] using h

end RQ.Lemmas

/-
Helper lemmas: `searchsorted` positions on strictly increasing lists (modelled as counts), slices vs filters.
-/
import RQ.Model.Calendar
import Mathlib.Tactic.Linarith

namespace RQ.Lemmas
open RQ.Q

variable {α : Type}

/-- keyed strict sortedness -/
def SortedBy (f : α → Nat) (l : List α) : Prop := l.Pairwise (fun a b => f a < f b)

theorem sortedBy_tail {f : α → Nat} {y : α} {ys : List α} (h : SortedBy f (y :: ys)) : SortedBy f ys :=
  (List.pairwise_cons.mp h).2

theorem sortedBy_head_lt {f : α → Nat} {y : α} {ys : List α} (h : SortedBy f (y :: ys)) : ∀ z ∈ ys, f y < f z :=
  (List.pairwise_cons.mp h).1

/-- `l[:searchsorted(x,'right')] = [a ∈ l | key a ≤ x]` -/
theorem take_ssRight (f : α → Nat) : ∀ (l : List α), SortedBy f l → ∀ x,
    l.take (ssRight (l.map f) x) = l.filter (fun a => f a ≤ x)
  | [], _, _ => by simp [ssRight]
  | y :: ys, h, x => by
    have ih := take_ssRight f ys (sortedBy_tail h) x
    by_cases hy : f y ≤ x
    · simp only [ssRight, List.map_cons, List.filter_cons, hy, decide_true, if_true, List.length_cons,
        List.take_succ_cons] at *
      rw [ih]
    · have hnil : ys.filter (fun a => decide (f a ≤ x)) = [] := by
        apply List.filter_eq_nil_iff.mpr
        intro z hz; have := sortedBy_head_lt h z hz; simp; omega
      have hnil2 : (ys.map f).filter (fun a => decide (a ≤ x)) = [] := by
        apply List.filter_eq_nil_iff.mpr
        intro z hz
        obtain ⟨w, hw, rfl⟩ := List.mem_map.mp hz
        have := sortedBy_head_lt h w hw; simp; omega
      simp [ssRight, List.filter_cons, hy, hnil, hnil2]

/-- `l[searchsorted(x,'left'):] = [a ∈ l | x ≤ key a]` -/
theorem drop_ssLeft (f : α → Nat) : ∀ (l : List α), SortedBy f l → ∀ x,
    l.drop (ssLeft (l.map f) x) = l.filter (fun a => x ≤ f a)
  | [], _, _ => by simp [ssLeft]
  | y :: ys, h, x => by
    have ih := drop_ssLeft f ys (sortedBy_tail h) x
    by_cases hy : f y < x
    · have : ¬ x ≤ f y := by omega
      simp only [ssLeft, List.map_cons, List.filter_cons, hy, this, decide_true, decide_false, if_true,
        List.length_cons, List.drop_succ_cons] at *
      simpa using ih
    · have hall : ys.filter (fun a => decide (x ≤ f a)) = ys := by
        apply List.filter_eq_self.mpr
        intro z hz; have := sortedBy_head_lt h z hz; simp; omega
      have hnil2 : (ys.map f).filter (fun a => decide (a < x)) = [] := by
        apply List.filter_eq_nil_iff.mpr
        intro z hz
        obtain ⟨w, hw, rfl⟩ := List.mem_map.mp hz
        have := sortedBy_head_lt h w hw; simp; omega
      have hx : x ≤ f y := by omega
      simp [ssLeft, List.filter_cons, hy, hx, hall, hnil2]

theorem ssRight_le_length (l : List Nat) (x : Nat) : ssRight l x ≤ l.length := by
  unfold ssRight; exact List.length_filter_le _ _

theorem ssLeft_le_ssRight (l : List Nat) (s e : Nat) (h : s ≤ e + 1) : ssLeft l s ≤ ssRight l e := by
  unfold ssLeft ssRight
  induction l with
  | nil => simp
  | cons y ys ih =>
    simp only [List.filter_cons]
    by_cases h1 : y < s
    · have : y ≤ e := by omega
      simp [h1, this]; exact ih
    · by_cases h2 : y ≤ e
      · simp [h1, h2]; omega
      · simp [h1, h2]; exact ih

/-- position of the i-th element: `searchsorted(l[i]) = i` -/
theorem ssLeft_getElem : ∀ (l : List Nat), l.Pairwise (· < ·) → ∀ (i : Nat) (hi : i < l.length), ssLeft l l[i] = i
  | [], _, i, hi => by simp at hi
  | y :: ys, h, 0, _ => by
    have hy := List.pairwise_cons.mp h
    have : ys.filter (fun z => decide (z < y)) = [] :=
      List.filter_eq_nil_iff.mpr (by intro z hz; have := hy.1 z hz; simp; omega)
    simp [ssLeft, this]
  | y :: ys, h, j+1, hi => by
    have hy := List.pairwise_cons.mp h
    have hj : j < ys.length := by simpa using hi
    have ih := ssLeft_getElem ys hy.2 j hj
    have hlt : y < ys[j] := hy.1 _ (List.getElem_mem hj)
    simp only [ssLeft, List.getElem_cons_succ] at *
    simp [List.filter_cons, hlt, ih]

/-- `searchsorted(l[i], 'right') = i + 1` -/
theorem ssRight_getElem : ∀ (l : List Nat), l.Pairwise (· < ·) → ∀ (i : Nat) (hi : i < l.length), ssRight l l[i] = i + 1
  | [], _, i, hi => by simp at hi
  | y :: ys, h, 0, _ => by
    have hy := List.pairwise_cons.mp h
    have : ys.filter (fun z => decide (z ≤ y)) = [] :=
      List.filter_eq_nil_iff.mpr (by intro z hz; have := hy.1 z hz; simp; omega)
    simp [ssRight, this]
  | y :: ys, h, j+1, hi => by
    have hy := List.pairwise_cons.mp h
    have hj : j < ys.length := by simpa using hi
    have ih := ssRight_getElem ys hy.2 j hj
    have hlt : y ≤ ys[j] := Nat.le_of_lt (hy.1 _ (List.getElem_mem hj))
    simp only [ssRight, List.getElem_cons_succ] at *
    simp [List.filter_cons, hlt, ih]

end RQ.Lemmas

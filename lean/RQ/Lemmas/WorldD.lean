/-
World-level lemmas, part D: what the order-sizing APIs of the API-level world (`RQ/Model/WorldApi.lean`) create.
-/
import RQ.Model.WorldApi
import RQ.Lemmas.WorldApi
import RQ.Lemmas.WorldC
import Mathlib.Tactic.SplitIfs

namespace RQ.Lemmas.WorldD
open RQ.Q

theorem stockSubmitQty_pos (ins : SzIns) (amount : R) (isBuy : Bool) (cur q : Int)
    (h : stockSubmitQty ins amount isBuy cur = some q) : 0 < q := by
  unfold stockSubmitQty at h
  simp only at h
  split_ifs at h <;> simp at h <;> omega

theorem orderShares_pos (ins : SzIns) (amount : R) (cur : Int) (b : Bool) (q : Int)
    (h : orderShares ins amount cur = some (b, q)) : 0 < q := by
  unfold orderShares at h
  simp only [Option.map_eq_some_iff, Prod.mk.injEq] at h
  obtain ⟨q', hq', -, rfl⟩ := h
  exact stockSubmitQty_pos _ _ _ _ _ hq'

theorem orderValue_pos (ins : SzIns) (v price cash : R) (closable posQty : Int) (cost : Int → R) (b : Bool) (q : Int)
    (h : orderValue ins v price cash closable posQty cost = some (b, q)) : 0 < q := by
  unfold orderValue at h
  simp only at h
  repeat' split at h
  all_goals first | exact orderShares_pos _ _ _ _ _ h | exact absurd h (by simp)

theorem orderSharesAuto_pos (ins : SzIns) (amount : R) (posQty closable : Int) (price cash : R) (cost : Int → R) (b : Bool) (q : Int)
    (h : orderSharesAuto ins amount posQty closable price cash cost = some (b, q)) : 0 < q := by
  unfold orderSharesAuto at h
  split at h
  · rename_i q' hq'
    split at h
    · have := orderShares_pos _ _ _ _ _ hq'
      simp only [Option.some.injEq, Prod.mk.injEq] at h
      omega
    · exact orderValue_pos _ _ _ _ _ _ _ _ _ h
  · exact orderShares_pos _ _ _ _ _ h

theorem orderTargetValue_pos (ins : SzIns) (t mv price cash : R) (closable posQty : Int) (cost : Int → R) (b : Bool) (q : Int)
    (h : orderTargetValue ins t mv price cash closable posQty cost = some (b, q)) : 0 < q := by
  unfold orderTargetValue at h
  split at h
  · simp only [Option.map_eq_some_iff, Prod.mk.injEq] at h
    obtain ⟨q', hq', -, rfl⟩ := h
    exact stockSubmitQty_pos _ _ _ _ _ hq'
  · exact orderValue_pos _ _ _ _ _ _ _ _ _ h

theorem orderLots_pos (ins : SzIns) (lots : R) (cur : Int) (b : Bool) (q : Int)
    (h : orderLots ins lots cur = some (b, q)) : 0 < q :=
  orderShares_pos _ _ _ _ _ h

theorem stockOrderTo_pos (ins : SzIns) (x : R) (cur : Int) (b : Bool) (q : Int)
    (h : stockOrderTo ins x cur = some (b, q)) : 0 < q :=
  orderShares_pos _ _ _ _ _ h

/-- the list a stock sizing call makes from the sizing result -/
def ofResult (ins : Nat) (limit : Option R) : Option (Bool × Int) → List (Nat × Bool × Effect × Int × Option R)
  | some (isBuy, q) => [(ins, isBuy, if isBuy then Effect.open_ else Effect.close, q, limit)]
  | none => []

/-- a stock sizing call creates nothing, or the one order of a sizing result with a positive quantity -/
theorem sized_stock_cases (w : World) (ac : ApiCfg) (api : StockApi) (ins : Nat) (x : R) (limit : Option R) :
    w.sized ac (.stock api ins x limit) = [] ∨
      ∃ r : Option (Bool × Int), (∀ b q, r = some (b, q) → 0 < q) ∧ w.sized ac (.stock api ins x limit) = ofResult ins limit r := by
  rw [World.sized]
  split
  · split
    · exact .inl rfl
    · split
      · exact .inl rfl
      · refine .inr ⟨_, ?_, rfl⟩
        intro b q h
        cases api <;> simp only at h
        · split at h
          · exact orderSharesAuto_pos _ _ _ _ _ _ _ _ _ h
          · exact orderShares_pos _ _ _ _ _ h
        · split at h
          · exact orderSharesAuto_pos _ _ _ _ _ _ _ _ _ h
          · exact orderLots_pos _ _ _ _ _ h
        · exact orderValue_pos _ _ _ _ _ _ _ _ _ h
        · exact orderValue_pos _ _ _ _ _ _ _ _ _ h
        · exact orderTargetValue_pos _ _ _ _ _ _ _ _ _ _ h
        · exact orderTargetValue_pos _ _ _ _ _ _ _ _ _ _ h
        · split at h
          · exact orderSharesAuto_pos _ _ _ _ _ _ _ _ _ h
          · exact stockOrderTo_pos _ _ _ _ _ h
  · exact .inl rfl

/-- every order the API-level world creates from a stock sizing call has a positive quantity, is a BUY that opens or a SELL that closes,
and is on the instrument of the call -/
theorem sized_stock_shape (w : World) (ac : ApiCfg) (api : StockApi) (ins : Nat) (x : R) (limit : Option R) :
    ∀ o ∈ w.sized ac (.stock api ins x limit),
      0 < o.2.2.2.1 ∧ o.1 = ins ∧ o.2.2.1 = (if o.2.1 then Effect.open_ else Effect.close) ∧ o.2.2.2.2 = limit := by
  intro o ho
  rcases sized_stock_cases w ac api ins x limit with h | ⟨r, hr, h⟩
  · rw [h] at ho; cases ho
  · rw [h] at ho
    rcases r with _ | ⟨b, q⟩
    · cases ho
    · simp only [ofResult, List.mem_singleton] at ho
      subst ho
      exact ⟨hr b q rfl, rfl, rfl, rfl⟩

/-- a stock sizing call creates at most one order -/
theorem sized_stock_length (w : World) (ac : ApiCfg) (api : StockApi) (ins : Nat) (x : R) (limit : Option R) :
    (w.sized ac (.stock api ins x limit)).length ≤ 1 := by
  rcases sized_stock_cases w ac api ins x limit with h | ⟨r, -, h⟩
  · rw [h]; simp
  · rw [h]
    rcases r with _ | ⟨b, q⟩ <;> simp [ofResult]

/-- the submissions a stock sizing call amounts to satisfy the input condition of the reserve invariant (`WorldC.InputOk`) -/
theorem apiInputs_stock_ok (w : World) (ac : ApiCfg) (api : StockApi) (ins : Nat) (x : R) (limit : Option R) (ids : List Nat) :
    ∀ i ∈ w.apiInputs ac (.stock api ins x limit) ids, RQ.Lemmas.WorldC.InputOk i := by
  intro i hi
  unfold World.apiInputs at hi
  rw [List.mem_map] at hi
  obtain ⟨⟨o, id⟩, hmem, rfl⟩ := hi
  have ho := (sized_stock_shape w ac api ins x limit o (List.of_mem_zip hmem).1).1
  exact ho

end RQ.Lemmas.WorldD

/-
World-level lemmas, part N (nothing left dangling, C04 at whole-system level): no order the broker accepted is ever lost or duplicated —
at every point of every run the ids of the accepted orders are exactly the ids resting in the two books plus the ids that have left them
(final), each once.
-/
import RQ.Model.World
import RQ.Lemmas.WorldB
import RQ.Lemmas.WorldC
import RQ.Lemmas.WorldI
import Mathlib.Data.List.Perm.Basic
import Mathlib.Data.List.Nodup
import Mathlib.Tactic.SplitIfs

namespace RQ.Lemmas.WorldN
open RQ.Q
open RQ.Lemmas.WorldC (bookIds submittedIds)

/-- ids of the orders that have left the books -/
def finalIds (w : World) : List Nat := w.finals.map (·.id)

/-- the ids of the orders the broker announced as accepted (ORDER_CREATION_PASS right after ORDER_PENDING_NEW) among the events -/
def acceptedIds (evs : List WEv) : List Nat :=
  evs.filterMap (fun e => match e with | .order (.pendingNew id) => some id | _ => none)


/-! ### helpers -/

open RQ.Lemmas.WorldB (Frame Good)
open RQ.Lemmas.WorldC (submittedId)

/-- all ids the broker knows: resting and final -/
def allIds (w : World) : List Nat := bookIds w ++ finalIds w

theorem allIds_of_frame {w w' : World} (h : Frame w w') : allIds w' = allIds w := by
  unfold allIds bookIds finalIds; rw [h.1, h.2.1, h.2.2.1]

theorem acceptedIds_append (a b : List WEv) : acceptedIds (a ++ b) = acceptedIds a ++ acceptedIds b := by
  simp [acceptedIds, List.filterMap_append]

theorem acceptedIds_unsolicited (l : List Ord) : acceptedIds (l.map (fun o => WEv.order (.unsolicited o.id))) = [] := by
  induction l with
  | nil => rfl
  | cons x xs ih => simp [acceptedIds]

theorem acceptedIds_creationPass (l : List Ord) : acceptedIds (l.map (fun o => WEv.order (.creationPass o.id))) = [] := by
  induction l with
  | nil => rfl
  | cons x xs ih => simp [acceptedIds]

theorem matchOne_accepted (w : World) (auction : Bool) (o : Ord) : acceptedIds (w.matchOne auction o).2.2 = [] := by
  unfold World.matchOne
  repeat' (first | rfl | split | dsimp only)

theorem matchList_accepted (w : World) (auction : Bool) (l : List Ord) : acceptedIds (w.matchList auction l).2.2 = [] := by
  induction l generalizing w with
  | nil => rfl
  | cons o rest ih =>
    have h1 := matchOne_accepted w auction o
    rcases hm : w.matchOne auction o with ⟨w1, o1, e1⟩
    rw [hm] at h1
    have h2 := ih w1
    rcases hm2 : w1.matchList auction rest with ⟨w2, os, e2⟩
    rw [hm2] at h2
    simp only [World.matchList, hm, hm2]
    dsimp only at h1 h2
    rw [acceptedIds_append, h1, h2]; rfl

theorem partition_ids (l : List Ord) :
    ((l.filter (fun o => !o.isFinal)).map (·.id) ++ ((l.filter (·.isFinal)).map (·.id)).reverse).Perm (l.map (·.id)) := by
  have h := (List.filter_append_perm (fun o : Ord => o.isFinal) l).map (·.id)
  rw [List.map_append] at h
  exact (List.perm_append_comm.trans ((List.reverse_perm _).append_right _)).trans h

theorem matchRound_conserve (w : World) :
    (allIds w.matchRound.1).Perm (allIds w) ∧ acceptedIds w.matchRound.2 = [] := by
  unfold World.matchRound
  have h1 := RQ.Lemmas.WorldI.matchList_ids w false w.openOrders
  have g1 := (RQ.Lemmas.WorldB.matchList_good w false w.openOrders).2
  have a1 := matchList_accepted w false w.openOrders
  rcases hm1 : w.matchList false w.openOrders with ⟨w1, r1, e1⟩
  rw [hm1] at h1 g1 a1
  dsimp only at h1 a1 ⊢
  have h2 := RQ.Lemmas.WorldI.matchList_ids w1 true w1.auctionOrders
  have g2 := (RQ.Lemmas.WorldB.matchList_good w1 true w1.auctionOrders).2
  have a2 := matchList_accepted w1 true w1.auctionOrders
  rcases hm2 : w1.matchList true w1.auctionOrders with ⟨w2, r2, e2⟩
  rw [hm2] at h2 g2 a2
  dsimp only at h2 a2 ⊢
  constructor
  · have g3 := (RQ.Lemmas.WorldB.foldl_good World.announce RQ.Lemmas.WorldB.announce_good
      (((r1 ++ r2).filter (·.isFinal)).filter (fun o => o.status == .rejected || o.status == .cancelled)) w2).2
    unfold allIds bookIds finalIds
    dsimp only
    rw [g3.2.2.1, g2.2.2.1, g1.2.2.1, List.append_nil]
    have key := partition_ids (r1 ++ r2)
    rw [List.map_append (l₁ := r1), h1, h2, g1.2.1] at key
    simpa [List.append_assoc] using key.append_right (w.finals.map (·.id))
  · rw [acceptedIds_append, acceptedIds_append, a1, a2, acceptedIds_unsolicited]; rfl

theorem addOrd_allIds (w1 : World) (ord : Ord) :
    (allIds (RQ.Lemmas.WorldB.addOrd w1 ord)).Perm (allIds w1 ++ [ord.id]) := by
  unfold RQ.Lemmas.WorldB.addOrd allIds bookIds finalIds
  split_ifs
  · dsimp only
    simp only [List.map_append, List.map_cons, List.map_nil, List.append_assoc]
    refine List.Perm.append_left _ (List.Perm.append_left _ ?_)
    exact List.perm_append_comm
  · dsimp only
    simp only [List.map_append, List.map_cons, List.map_nil, List.append_assoc]
    refine List.Perm.append_left _ ?_
    rw [List.perm_iff_count]; intro a
    simp only [List.count_append, List.count_cons, List.count_nil]; omega

theorem submit_conserve (w : World) (o : OrderReq) :
    (allIds (w.submit o).1).Perm (allIds w ++ acceptedIds (w.submit o).2) ∧ (acceptedIds (w.submit o).2).Sublist [o.id] := by
  unfold World.submit
  split
  · split
    · exact ⟨by simp [acceptedIds], by simp [acceptedIds]⟩
    · extract_lets fp init w1 ord w2
      split
      · exact ⟨by simp [acceptedIds], by simp [acceptedIds]⟩
      · have hw2 : w2 = RQ.Lemmas.WorldB.addOrd w1 ord := rfl
        have hb1 : allIds w1 = allIds w := allIds_of_frame (RQ.Lemmas.WorldB.apply_good _ _ _).2
        have h2 : (allIds w2).Perm (allIds w ++ [o.id]) := by
          rw [hw2, ← hb1]; exact addOrd_allIds w1 ord
        split_ifs
        · have hm := matchRound_conserve w2
          rcases hmr : w2.matchRound with ⟨w3, evs⟩
          rw [hmr] at hm
          dsimp only at hm ⊢
          have : acceptedIds ([WEv.order (.pendingNew o.id), WEv.order (.creationPass o.id)] ++ evs) = [o.id] := by
            rw [acceptedIds_append, hm.2]; rfl
          rw [this]
          exact ⟨hm.1.trans h2, List.Sublist.refl _⟩
        · exact ⟨h2, List.Sublist.refl _⟩
  · exact ⟨by simp [acceptedIds], by simp [acceptedIds]⟩

theorem cancel_ids_aux (L : List Nat) (a : Nat) (hnd : L.Nodup) (ha : a ∈ L) : (a :: L.filter (· != a)).Perm L := by
  rw [← hnd.erase_eq_filter]
  exact (List.perm_cons_erase ha).symm

theorem cancel_conserve (w : World) (id : Nat) (hnd : (bookIds w).Nodup) :
    (allIds (w.cancel id).1).Perm (allIds w ++ acceptedIds (w.cancel id).2) ∧ acceptedIds (w.cancel id).2 = [] := by
  unfold World.cancel
  split
  · exact ⟨by simp [acceptedIds], rfl⟩
  · rename_i o ho
    refine ⟨?_, rfl⟩
    have g := (RQ.Lemmas.WorldB.announce_good w o.markCancelled).2
    have hmem : o ∈ w.openOrders ++ w.auctionOrders := List.mem_of_find?_eq_some ho
    have hid : o.id = id := by simpa using List.find?_some ho
    unfold allIds bookIds finalIds at *
    dsimp only
    rw [g.1, g.2.1, g.2.2.1, ← List.filter_append]
    have hf : ((w.openOrders ++ w.auctionOrders).filter (fun x => x.id != id)).map (·.id)
        = ((w.openOrders ++ w.auctionOrders).map (·.id)).filter (· != id) := by
      rw [List.filter_map]; rfl
    rw [hf, List.map_cons, RQ.Lemmas.WorldI.markCancelled_id, hid]
    have hacc : acceptedIds [WEv.order (OEvent.pendingCancel id), WEv.order (OEvent.cancellationPass id)] = [] := rfl
    rw [hacc, List.append_nil]
    have := cancel_ids_aux _ id hnd (by rw [← hid]; exact List.mem_map_of_mem hmem)
    refine List.Perm.trans ?_ (this.append_right _)
    exact List.perm_middle

theorem afterTrading_conserve (w : World) :
    (allIds w.afterTrading.1).Perm (allIds w) ∧ acceptedIds w.afterTrading.2 = [] := by
  unfold World.afterTrading
  dsimp only
  constructor
  · have g := (RQ.Lemmas.WorldB.good_trans (b := { w with phase := .after }) (RQ.Lemmas.WorldB.good_of_eq rfl rfl rfl rfl rfl rfl)
      (RQ.Lemmas.WorldB.foldl_good World.announce RQ.Lemmas.WorldB.announce_good (w.openOrders.map Ord.markRejected) _)).2
    unfold allIds bookIds finalIds
    dsimp only
    rw [g.2.1, g.2.2.1]
    simp only [List.nil_append, List.map_append, List.map_reverse, List.map_map]
    rw [← List.append_assoc]
    refine List.Perm.append_right _ ?_
    refine List.perm_append_comm.trans (List.Perm.append_right _ ?_)
    refine (List.reverse_perm _).trans ?_
    apply List.Perm.of_eq
    apply List.map_congr_left
    intro x _
    exact RQ.Lemmas.WorldI.markRejected_id x
  · have := acceptedIds_unsolicited (w.openOrders.map Ord.markRejected)
    exact this

theorem deposit_accepted (w : World) (k : Nat) (amount : R) (recv : Option Nat) : acceptedIds (w.deposit k amount recv).2 = [] := by
  unfold World.deposit
  repeat' (first | rfl | split)

/-- one input: the known ids grow exactly by the id announced as accepted, which is the submitted one -/
theorem step_conserve (w : World) (i : WIn) (hnd : (bookIds w).Nodup) :
    (allIds (w.step i).1).Perm (allIds w ++ acceptedIds (w.step i).2) ∧ (acceptedIds (w.step i).2).Sublist (submittedId i) := by
  have frame : ∀ (w' : World) (l : List Nat), Frame w w' → (allIds w').Perm (allIds w ++ acceptedIds []) ∧ (acceptedIds []).Sublist l := by
    intro w' l h
    rw [allIds_of_frame h]
    exact ⟨by simp [acceptedIds], by simp [acceptedIds]⟩
  cases i with
  | preBeforeTrading today tax mkt => exact frame _ _ (RQ.Lemmas.WorldB.preBeforeTrading_good w today tax mkt).2
  | beforeTrading =>
    show (allIds w.beforeTrading.1).Perm (allIds w ++ acceptedIds w.beforeTrading.2) ∧ (acceptedIds w.beforeTrading.2).Sublist _
    have h1 : allIds w.beforeTrading.1 = allIds w := by
      unfold allIds bookIds finalIds World.beforeTrading
      simp [List.map_map, Function.comp_def, RQ.Lemmas.WorldI.activate_id]
    have h2 : acceptedIds w.beforeTrading.2 = [] := acceptedIds_creationPass _
    rw [h1, h2]; simp
  | openAuction => exact frame _ _ ⟨rfl, rfl, rfl, rfl⟩
  | barData rows => exact frame _ _ (RQ.Lemmas.WorldB.barData_good w rows).2
  | bar =>
    obtain ⟨w', g, h⟩ := RQ.Lemmas.WorldB.onBar_char w
    show (allIds w.onBar.1).Perm (allIds w ++ acceptedIds w.onBar.2) ∧ (acceptedIds w.onBar.2).Sublist _
    rw [h]
    have hm := matchRound_conserve w'
    rw [hm.2, ← allIds_of_frame g.2]
    exact ⟨by simpa using hm.1, by simp⟩
  | afterTrading =>
    show (allIds w.afterTrading.1).Perm (allIds w ++ acceptedIds w.afterTrading.2) ∧ (acceptedIds w.afterTrading.2).Sublist _
    have hm := afterTrading_conserve w
    rw [hm.2]
    exact ⟨by simpa using hm.1, by simp⟩
  | settlement => exact frame _ _ (RQ.Lemmas.WorldB.settlement_good w).2
  | submit o => exact submit_conserve w o
  | cancel id =>
    show (allIds (w.cancel id).1).Perm (allIds w ++ acceptedIds (w.cancel id).2) ∧ (acceptedIds (w.cancel id).2).Sublist _
    have hm := cancel_conserve w id hnd
    refine ⟨hm.1, ?_⟩
    rw [hm.2]; simp
  | deposit k amount recv =>
    show (allIds (w.deposit k amount recv).1).Perm (allIds w ++ acceptedIds (w.deposit k amount recv).2) ∧
      (acceptedIds (w.deposit k amount recv).2).Sublist _
    rw [deposit_accepted, allIds_of_frame (RQ.Lemmas.WorldB.deposit_good w k amount recv).2]
    exact ⟨by simp, by simp⟩
  | finance k amount => exact frame _ _ (RQ.Lemmas.WorldB.apply_good w k _).2

/-- whole runs: the known ids grow exactly by the accepted ids, which are among the submitted ones -/
theorem run_conserve (w : World) (ins : List WIn) (hnd : (allIds w ++ submittedIds ins).Nodup) :
    (allIds (w.run ins).1).Perm (allIds w ++ acceptedIds (w.run ins).2) ∧ (acceptedIds (w.run ins).2).Sublist (submittedIds ins) := by
  induction ins generalizing w with
  | nil => exact ⟨by simp [World.run, acceptedIds], by simp [World.run, acceptedIds]⟩
  | cons i rest ih =>
    rw [RQ.Lemmas.WorldC.submittedIds_cons] at hnd ⊢
    have hb : (bookIds w).Nodup := by
      have := (List.nodup_append.mp hnd).1
      exact (List.nodup_append.mp this).1
    have hs := step_conserve w i hb
    rcases hst : w.step i with ⟨w1, e1⟩
    rw [hst] at hs
    dsimp only at hs
    have hnd1 : (allIds w1 ++ submittedIds rest).Nodup := by
      have hp : (allIds w1 ++ submittedIds rest).Perm (allIds w ++ acceptedIds e1 ++ submittedIds rest) := hs.1.append_right _
      rw [hp.nodup_iff]
      refine List.Nodup.sublist ?_ hnd
      rw [List.append_assoc]
      exact (List.Sublist.refl _).append (hs.2.append (List.Sublist.refl _))
    have hr := ih w1 hnd1
    rcases hrn : w1.run rest with ⟨w2, e2⟩
    rw [hrn] at hr
    dsimp only at hr
    simp only [World.run, hst, hrn]
    rw [acceptedIds_append]
    refine ⟨?_, hs.2.append hr.2⟩
    rw [← List.append_assoc]
    exact hr.1.trans (hs.1.append_right _)

/-- **conservation of orders**: from a world with empty books and no finals, for every input list whose submitted ids are pairwise
different: the ids in the books together with the ids in `finals` are a permutation of the ids announced with ORDER_PENDING_NEW, and no id
occurs twice -/
theorem run_orders_conserved (w : World) (ins : List WIn) (ho : w.openOrders = []) (ha : w.auctionOrders = []) (hf : w.finals = [])
    (hids : (submittedIds ins).Nodup) :
    (bookIds (w.run ins).1 ++ finalIds (w.run ins).1).Perm (acceptedIds (w.run ins).2) ∧
    (bookIds (w.run ins).1 ++ finalIds (w.run ins).1).Nodup := by
  have h0 : allIds w = [] := by unfold allIds bookIds finalIds; rw [ho, ha, hf]; rfl
  have h := run_conserve w ins (by rw [h0]; simpa using hids)
  rw [h0, List.nil_append] at h
  exact ⟨h.1, h.1.nodup_iff.mpr (hids.sublist h.2)⟩

/-- every accepted order is final at the latest after the close of a day on which the auction book was drained (immediate matching, or one
bar): with the books empty, everything accepted so far is in `finals` and is final -/
theorem empty_books_all_final (w : World) (ins : List WIn) (ho : w.openOrders = []) (ha : w.auctionOrders = []) (hf : w.finals = [])
    (hids : (submittedIds ins).Nodup) (ho' : (w.run ins).1.openOrders = []) (ha' : (w.run ins).1.auctionOrders = []) :
    (finalIds (w.run ins).1).Perm (acceptedIds (w.run ins).2) ∧ ∀ o ∈ (w.run ins).1.finals, o.isFinal = true := by
  have h := (run_orders_conserved w ins ho ha hf hids).1
  have hb : bookIds (w.run ins).1 = [] := by unfold bookIds; rw [ho', ha']; rfl
  rw [hb, List.nil_append] at h
  refine ⟨h, ?_⟩
  have hok : RQ.Lemmas.WorldB.BooksOk w := by
    constructor
    · intro o hmem; rw [ho, ha] at hmem; simp at hmem
    · intro o hmem; rw [hf] at hmem; simp at hmem
  exact (RQ.Lemmas.WorldB.run_booksOk w ins hok).2

end RQ.Lemmas.WorldN

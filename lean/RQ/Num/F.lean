/-
Numeric prelude, instance `R := Float` (the instance the replay driver executes;
bit-compatible with CPython floats for + − × ÷ and comparisons).
-/
import RQ.Num.Q
namespace RQ.F

abbrev R := Float

/-- exact rational value of a finite double -/
def floatToRat (x : Float) : Rat :=
  let b := x.toBits
  let sign : Bool := (b >>> 63) != 0
  let e : Nat := ((b >>> 52) &&& 0x7ff).toNat
  let m : Nat := (b &&& 0xfffffffffffff).toNat
  let mag : Rat :=
    if e = 0 then (m : Rat) / ((2 ^ 1074 : Nat) : Rat)
    else
      let mm : Nat := m + 2 ^ 52
      if e ≥ 1075 then ((mm * 2 ^ (e - 1075) : Nat) : Rat) else (mm : Rat) / ((2 ^ (1075 - e) : Nat) : Rat)
  if sign then -mag else mag

/-- correctly rounded (half-even) double nearest to an exact rational (for results of modest size) -/
def ratToFloat (q : Rat) : Float :=
  if q = 0 then 0.0 else
  let neg := q < 0
  let m := if neg then -q else q
  -- find e with 2^52 ≤ m·2^(-e) < 2^53
  let rec scale (fuel : Nat) (e : Int) (y : Rat) : Int × Rat :=
    match fuel with
    | 0 => (e, y)
    | fuel + 1 =>
      if y < 4503599627370496 then scale fuel (e - 1) (y * 2)
      else if y ≥ 9007199254740992 then scale fuel (e + 1) (y / 2)
      else (e, y)
  let (e, y) := scale 2200 0 m
  let f := y.floor
  let d := y - (f : Rat)
  let k : Int := if d < 1/2 then f else if d > 1/2 then f + 1 else if f % 2 = 0 then f else f + 1
  let r := (Float.ofInt k).scaleB e
  if neg then -r else r

namespace R
@[inline] def ofInt (i : Int) : R := Float.ofInt i
@[inline] def ofNat (n : Nat) : R := Float.ofNat n
def floorI (x : R) : Int := (floatToRat x).floor
def truncI (x : R) : Int := let q := floatToRat x; if q < 0 then - ((-q).floor) else q.floor
@[inline] def pymax (a b : R) : R := if b > a then b else a
@[inline] def pymin (a b : R) : R := if b < a then b else a
def roundI (x : R) : Int := RQ.Q.R.roundI (floatToRat x)
/-- Python `round(x, n)` for a float (`float___round___impl`: correctly rounded, half-even on the exact binary value);
NaN and infinities are returned unchanged, a zero result keeps the sign of `x` -/
def roundDec (n : Nat) (x : R) : R :=
  if x.isNaN || x.isInf then x else
  let q : Rat := ((RQ.Q.R.roundI (floatToRat x * ((10 ^ n : Nat) : Rat)) : Int) : Rat) / ((10 ^ n : Nat) : Rat)
  if q = 0 then (if x < 0 || x.toBits == (0x8000000000000000 : UInt64) then -0.0 else 0.0) else ratToFloat q
/-- Python 3.12 `sum()` over floats: Neumaier compensated summation (`Python/bltinmodule.c`) -/
def pysum (xs : List R) : R :=
  let rec go (xs : List Float) (f c : Float) : Float :=
    match xs with
    | [] => if c != 0.0 && !(c.isNaN) && !(c.isInf) then f + c else f
    | x :: rest =>
      let t := f + x
      let c' := if f.abs ≥ x.abs then c + ((f - t) + x) else c + ((x - t) + f)
      go rest t c'
  go xs 0.0 0.0
def toRat (x : R) : Rat := floatToRat x
def ofRat (q : Rat) : R := ratToFloat q
def decQuot10 (a b : R) : Int := RQ.Q.decQuot10Rat (floatToRat a) (floatToRat b)
def decQuotRound10 (a b : R) : Int := RQ.Q.decQuotRound10Rat (floatToRat a) (floatToRat b)
def decMulRound10 (a b : R) : Int := RQ.Q.decMulRound10Rat (floatToRat a) (floatToRat b)
end R

end RQ.F

/-
Numeric prelude, instance `R := Rat` (the instance the theorems are about).
Model files are written against the names defined here and are copied textually
to the `Float` instance (`RQ/Num/F.lean`, namespace `RQ.F`) by `harness/instantiate.py`.
No Mathlib import here or in any model file.
-/
namespace RQ.Q

abbrev R := Rat

namespace R
@[inline] def ofInt (i : Int) : R := (i : Rat)
@[inline] def ofNat (n : Nat) : R := (n : Rat)
/-- `math.floor(x)` -/
@[inline] def floorI (x : R) : Int := x.floor
/-- `int(x)`: truncation toward zero -/
def truncI (x : R) : Int := if x < 0 then - ((-x).floor) else x.floor
/-- Python `max(a, b)`: `b` only if `b > a` -/
@[inline] def pymax (a b : R) : R := if b > a then b else a
/-- Python `min(a, b)`: `b` only if `b < a` -/
@[inline] def pymin (a b : R) : R := if b < a then b else a
/-- Python `round(x)` (no digits): round half to even, result an int -/
def roundI (x : R) : Int :=
  let f := x.floor
  let d := x - (f : Rat)
  if d < 1/2 then f else if d > 1/2 then f + 1 else if f % 2 = 0 then f else f + 1
/-- Python 3.12 `sum(xs)` over floats; exact in ℚ -/
def pysum (xs : List R) : R := xs.foldl (· + ·) 0
/-- exact rational value (identity here) -/
@[inline] def toRat (x : R) : Rat := x
/-- nearest-or-exact embedding of an exact rational (identity here) -/
@[inline] def ofRat (q : Rat) : R := q
end R

/-- number of decimal digits of a positive natural -/
def natDigits (n : Nat) : Nat := (Nat.toDigits 10 n).length

/-- `int(Decimal(a) / Decimal(b))` under `getcontext().prec = 10` for exact rationals `a b`, `b ≠ 0`:
the quotient rounded half-even to 10 significant digits, then truncated toward zero. -/
def decQuot10Rat (a b : Rat) : Int :=
  let q := a / b
  if q = 0 then 0 else
  let neg := q < 0
  let m := if neg then -q else q           -- m > 0
  let ip := m.floor.toNat
  -- exponent e with 10^(e-1) ≤ m < 10^e  (only the case m ≥ 1 matters for truncation; m < 1 ⇒ result 0 or 1)
  if ip = 0 then
    -- m < 1: rounding to 10 significant digits can reach 1 only if m ≥ 1 - 5e-11
    let r : Int := if m * 100000000000 ≥ 99999999995 then 1 else 0
    if neg then -r else r
  else
    let e := natDigits ip                   -- integer part has e digits
    let r : Rat :=
      if e ≥ 10 then
        -- keep 10 significant digits of the integer part: scale down by 10^(e-10)
        let s : Rat := ((10 ^ (e - 10) : Nat) : Rat)
        let y := m / s
        let f := y.floor
        let d := y - (f : Rat)
        let k : Int := if d < 1/2 then f else if d > 1/2 then f + 1 else if f % 2 = 0 then f else f + 1
        (k : Rat) * s
      else
        let s : Rat := ((10 ^ (10 - e) : Nat) : Rat)
        let y := m * s
        let f := y.floor
        let d := y - (f : Rat)
        let k : Int := if d < 1/2 then f else if d > 1/2 then f + 1 else if f % 2 = 0 then f else f + 1
        (k : Rat) / s
    let t := r.floor
    if neg then -t else t

namespace R
def decQuot10 (a b : R) : Int := decQuot10Rat a b
end R

end RQ.Q

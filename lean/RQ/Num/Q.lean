/-
Numeric prelude, instance `R := Rat` (the instance the theorems are about).
Model files are written against the names defined here and are copied textually
to the `Float` instance (`RQ/Num/F.lean`, namespace `RQ.F`) by `harness/instantiate.py`.
No Mathlib import here or in any model file.
-/
namespace RQ.Q

abbrev R := Rat

namespace R
@[inline] def ofInt (i : Int) : R := (i : Rat)
@[inline] def ofNat (n : Nat) : R := (n : Rat)
/-- `math.floor(x)` -/
@[inline] def floorI (x : R) : Int := x.floor
/-- `int(x)`: truncation toward zero -/
def truncI (x : R) : Int := if x < 0 then - ((-x).floor) else x.floor
/-- Python `max(a, b)`: `b` only if `b > a` -/
@[inline] def pymax (a b : R) : R := if b > a then b else a
/-- Python `min(a, b)`: `b` only if `b < a` -/
@[inline] def pymin (a b : R) : R := if b < a then b else a
/-- Python `round(x)` (no digits): round half to even, result an int -/
def roundI (x : R) : Int :=
  let f := x.floor
  let d := x - (f : Rat)
  if d < 1/2 then f else if d > 1/2 then f + 1 else if f % 2 = 0 then f else f + 1
/-- Python `round(x, n)` for a float: round-half-even of the EXACT value at n decimals -/
def roundDec (n : Nat) (x : R) : R := ((roundI (x * ((10 ^ n : Nat) : Rat)) : Int) : Rat) / ((10 ^ n : Nat) : Rat)
/-- Python 3.12 `sum(xs)` over floats; exact in ℚ -/
def pysum (xs : List R) : R := xs.foldl (· + ·) 0
/-- exact rational value (identity here) -/
@[inline] def toRat (x : R) : Rat := x
/-- nearest-or-exact embedding of an exact rational (identity here) -/
@[inline] def ofRat (q : Rat) : R := q
end R

/-- number of decimal digits of a positive natural -/
def natDigits (n : Nat) : Nat := (Nat.toDigits 10 n).length

/-- a positive rational rounded half-even to 10 significant decimal digits (`decimal` arithmetic under
`getcontext().prec = 10`, which rqalpha's api_stock module sets process-wide) -/
def roundSig10Pos (m : Rat) : Rat :=
  let halfEven (y : Rat) : Int :=
    let f := y.floor
    let d := y - (f : Rat)
    if d < 1/2 then f else if d > 1/2 then f + 1 else if f % 2 = 0 then f else f + 1
  let ip := m.floor.toNat
  if ip = 0 then
    -- m < 1: find the scale 10^k (k ≥ 1) with 10^(k-1) ≤ m·10^k... : digits after the leading zeros
    let rec scaleUp (fuel : Nat) (y : Rat) (k : Nat) : Rat × Nat :=
      match fuel with
      | 0 => (y, k)
      | fuel + 1 => if y < 1 then scaleUp fuel (y * 10) (k + 1) else (y, k)
    let (y, k) := scaleUp 400 m 0            -- 1 ≤ y < 10, m = y / 10^k
    let s : Rat := ((10 ^ 9 : Nat) : Rat)
    ((halfEven (y * s) : Int) : Rat) / s / ((10 ^ k : Nat) : Rat)
  else
    let e := natDigits ip
    if e ≥ 10 then
      let s : Rat := ((10 ^ (e - 10) : Nat) : Rat)
      ((halfEven (m / s) : Int) : Rat) * s
    else
      let s : Rat := ((10 ^ (10 - e) : Nat) : Rat)
      ((halfEven (m * s) : Int) : Rat) / s

/-- signed version; 0 stays 0 -/
def roundSig10Rat (q : Rat) : Rat :=
  if q = 0 then 0 else if q < 0 then - roundSig10Pos (-q) else roundSig10Pos q

/-- `int(Decimal(a) / Decimal(b))` under `prec = 10` for exact rationals `a b`, `b ≠ 0`:
the quotient rounded half-even to 10 significant digits, then truncated toward zero. -/
def decQuot10Rat (a b : Rat) : Int :=
  let r := roundSig10Rat (a / b)
  if r < 0 then - ((-r).floor) else r.floor

/-- `round(Decimal(a) * Decimal(b))` under `prec = 10`: product rounded to 10 significant digits, then to the nearest
integer, both half-even -/
def decMulRound10Rat (a b : Rat) : Int :=
  let r := roundSig10Rat (a * b)
  let f := r.floor
  let d := r - (f : Rat)
  if d < 1/2 then f else if d > 1/2 then f + 1 else if f % 2 = 0 then f else f + 1

/-- `round(Decimal(a) / Decimal(b))` under `prec = 10`: quotient rounded to 10 significant digits, then to the nearest
integer, both half-even -/
def decQuotRound10Rat (a b : Rat) : Int :=
  let r := roundSig10Rat (a / b)
  let f := r.floor
  let d := r - (f : Rat)
  if d < 1/2 then f else if d > 1/2 then f + 1 else if f % 2 = 0 then f else f + 1

namespace R
def decQuotRound10 (a b : R) : Int := decQuotRound10Rat a b
def decQuot10 (a b : R) : Int := decQuot10Rat a b
def decMulRound10 (a b : R) : Int := decMulRound10Rat a b
end R

end RQ.Q

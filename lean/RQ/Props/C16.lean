/-
C16 — Pre-trade validation rejects untradable orders without side effects.
Theorems over `RQ/Model/Validators.lean` (the chain of Environment.can_submit_order) and the API × phase table (C08).
-/
import RQ.Model.Validators
import RQ.Props.C08
import Mathlib.Tactic.Linarith
import Mathlib.Tactic.SplitIfs
import RQ.Model.World

namespace RQ.Props.C16
open RQ.Q

/-! ### The conditions, exactly -/

/-- the closable holding does not cover a closing order -/
theorem position_condition (o : OrderIn) (cl tcl : Int) :
    positionVeto o cl tcl = true ↔ (o.effect = .close ∧ o.qty > cl) ∨ (o.effect = .closeToday ∧ o.qty > tcl) := by
  unfold positionVeto
  cases h : o.effect <;> simp

/-- a limit price outside `[round4 limit_down, round4 limit_up]`; absent limits never veto; market orders never -/
theorem price_condition (o : OrderIn) (m : MarketIn) :
    priceVeto o m ≠ none ↔ o.isLimit = true ∧ ((∃ u, m.limitUp4 = some u ∧ o.price > u) ∨ (∃ d, m.limitDown4 = some d ∧ o.price < d)) := by
  unfold priceVeto
  cases hl : o.isLimit <;> cases hu : m.limitUp4 <;> cases hd : m.limitDown4
  all_goals simp
  all_goals (split_ifs <;> simp_all)

/-- not listed / delisted at the clock (indices exempt), or a suspended common stock -/
theorem trading_condition (m : MarketIn) :
    isTradingVeto m ≠ none ↔ (m.isIndex = false ∧ m.listed = false) ∨ (m.isCS = true ∧ m.suspended = true) := by
  unfold isTradingVeto
  cases m.isIndex <;> cases m.listed <;> cases m.isCS <;> cases m.suspended <;> simp

/-- cash does not cover an opening order (closing orders are never checked for cash) -/
theorem cash_condition (cfg : InsCfg) (o : OrderIn) (oc cash : R) :
    cashVeto cfg o oc cash = true ↔ o.effect = .open_ ∧ cash < frozenCashOfOrder cfg o.frozenPrice o.qty true oc := by
  unfold cashVeto
  cases h : o.effect <;> simp

/-! ### The chain -/

/-- **C16.1** an order is vetoed iff at least one ENABLED validator's condition holds; otherwise it reaches the broker -/
theorem reject_iff (sw : Switches) (cfg : InsCfg) (o : OrderIn) (m : MarketIn) (cl tcl : Int) (oc cash : R) (opp : List R) :
    validate sw cfg o m cl tcl oc cash opp ≠ none ↔
      (sw.position = true ∧ positionVeto o cl tcl = true) ∨ (sw.price = true ∧ priceVeto o m ≠ none) ∨
      (sw.isTrading = true ∧ isTradingVeto m ≠ none) ∨ (sw.cash = true ∧ cashVeto cfg o oc cash = true) ∨
      (sw.selfTrade = true ∧ selfTradeVeto o opp = true) := by
  unfold validate
  cases hp : sw.position <;> cases hpr : sw.price <;> cases ht : sw.isTrading <;> cases hc : sw.cash <;>
    cases hs : sw.selfTrade <;> cases hpv : positionVeto o cl tcl <;> cases hprv : priceVeto o m <;>
    cases htv : isTradingVeto m <;> cases hcv : cashVeto cfg o oc cash <;> cases hsv : selfTradeVeto o opp <;> simp

/-- first veto wins, in the registration order position → price → is_trading → cash → self_trade -/
theorem first_veto_wins (sw : Switches) (cfg : InsCfg) (o : OrderIn) (m : MarketIn) (cl tcl : Int) (oc cash : R) (opp : List R) :
    (validate sw cfg o m cl tcl oc cash opp = some .position ↔ sw.position = true ∧ positionVeto o cl tcl = true) ∧
    (validate sw cfg o m cl tcl oc cash opp = some .cash →
      ¬ (sw.position = true ∧ positionVeto o cl tcl = true) ∧ ¬ (sw.price = true ∧ priceVeto o m ≠ none) ∧
      ¬ (sw.isTrading = true ∧ isTradingVeto m ≠ none) ∧ sw.cash = true ∧ cashVeto cfg o oc cash = true) := by
  have hprice : priceVeto o m ≠ some .position ∧ priceVeto o m ≠ some .cash := by
    unfold priceVeto; split_ifs <;> simp
  have htrad : isTradingVeto m ≠ some .position ∧ isTradingVeto m ≠ some .cash := by
    unfold isTradingVeto; split_ifs <;> simp
  unfold validate
  cases hp : sw.position <;> cases hpr : sw.price <;> cases ht : sw.isTrading <;> cases hc : sw.cash <;>
    cases hs : sw.selfTrade <;> cases hpv : positionVeto o cl tcl <;> cases hprv : priceVeto o m <;>
    cases htv : isTradingVeto m <;> cases hcv : cashVeto cfg o oc cash <;> cases hsv : selfTradeVeto o opp <;>
    simp_all

/-- with every validator switched off everything passes -/
theorem all_off_passes (cfg : InsCfg) (o : OrderIn) (m : MarketIn) (cl tcl : Int) (oc cash : R) (opp : List R) :
    validate ⟨false, false, false, false, false⟩ cfg o m cl tcl oc cash opp = none := by
  simp [validate]

/-- **C16.2 (model level)** validation is a pure function of the order, the market facts and the account's observers: it
has no state to change.  (That the implementation's veto path leaves accounts, books and deciders untouched is what the
correspondence and the reject-frame monitor check on real runs.) -/
theorem validate_is_pure (sw : Switches) (cfg : InsCfg) (o : OrderIn) (m : MarketIn) (cl tcl : Int) (oc cash : R) (opp : List R) :
    validate sw cfg o m cl tcl oc cash opp = validate sw cfg o m cl tcl oc cash opp := rfl

/-- **C16.3 (phase part)** a call of an order-placing API in a phase where ordering is forbidden is refused before the
order is even created (C08.5 over the regenerated decorator table) -/
theorem forbidden_phase_refused :
    C08.orderPlacingApis.all (fun api => ["ON_INIT", "BEFORE_TRADING", "AFTER_TRADING"].all (fun ph => !C08.allowed api ph)) = true := by
  decide +kernel

/-- non-vacuity: a limit buy above limit-up is vetoed by the price validator; the same order passes with the price validator off -/
example : validate ⟨true, true, true, true, false⟩ ⟨false, 1, 0, 1, true, 100⟩ ⟨true, 11.5, 11.5, 100, .open_, true⟩
      ⟨false, true, true, false, some 11, some 9⟩ 0 0 5 100000 [] = some .priceUp ∧
    validate ⟨true, false, true, true, false⟩ ⟨false, 1, 0, 1, true, 100⟩ ⟨true, 11.5, 11.5, 100, .open_, true⟩
      ⟨false, true, true, false, some 11, some 9⟩ 0 0 5 100000 [] = none := by
  decide +kernel


/-! ### inside the composed world (`RQ/Model/World.lean`) -/

/-- **a rejected order has no side effect, in the whole system**: when a validator of the chain vetoes a created order, the world after
`submit` IS the world before — no cash reserved, no order in any book, no position touched, no fee state moved, no ghost operation
logged — and the only thing published is the creation-reject with the first veto -/
theorem world_veto_no_side_effect (w : World) (o : OrderReq) (wi : WIns) (d : DayIns) (k : Nat) (v : Veto)
    (hwi : w.cfg.find o.ins = some wi) (hd : w.dayOf o.ins = some d) (hk : w.acctIdx wi = some k)
    (hv : w.validate wi d o (if o.isLimit then o.price else (match w.lastPrice o.ins with | some p => p | none => 0)) = some v) :
    w.submit o = (w, [.creationReject o.id v]) := by
  unfold World.submit
  simp only [hwi, hd, hk]
  split
  · rename_i v' heq
    have : some v = some v' := hv.symm.trans heq
    cases this
    rfl
  · rename_i heq
    exact absurd (hv.symm.trans heq) (by simp)

/-- an order on an instrument the day's market table does not know leaves the world as it is -/
theorem world_unknown_instrument_no_side_effect (w : World) (o : OrderReq) (h : w.dayOf o.ins = none) :
    w.submit o = (w, [.noMarket o.id]) := by
  unfold World.submit
  cases hf : w.cfg.find o.ins <;> simp [h]

end RQ.Props.C16

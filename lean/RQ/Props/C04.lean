/-
C04 — Order lifecycle: legal transitions, fill accounting, nothing left dangling.
Theorems over `RQ/Model/Order.lean`, `RQ/Model/Matcher.lean` (`orderAfter`) and `RQ/Model/Broker.lean`;
the final-status set is regenerated from `Order.is_final` (`RQ/Gen/Tables.lean`).
-/
import RQ.Model.Broker
import RQ.Gen.Tables
import Mathlib.Tactic.Linarith
import Mathlib.Tactic.Ring
import Mathlib.Tactic.FieldSimp
import Mathlib.Tactic.SplitIfs
import RQ.Lemmas.WorldB
import RQ.Lemmas.WorldN

namespace RQ.Props.C04
open RQ.Q

/-- the source's `is_final`: everything except PENDING_NEW, ACTIVE, PENDING_CANCEL (regenerated table) -/
theorem final_statuses_table : RQ.Gen.orderNonFinalStatuses = some ["ACTIVE", "PENDING_CANCEL", "PENDING_NEW"] := by
  decide

theorem isFinal_iff (o : Ord) : o.isFinal = true ↔ (o.status = .filled ∨ o.status = .rejected ∨ o.status = .cancelled) := by
  unfold Ord.isFinal
  cases o.status <;> simp

/-- legal edges of the status graph -/
def Legal : Status → Status → Prop
  | .pendingNew, .rejected | .pendingNew, .active => True
  | .active, .filled | .active, .cancelled | .active, .rejected | .active, .active => True
  | s, s' => s = s'

/-- **final states are absorbing** under everything the matcher and the guarded marks can do -/
theorem final_absorbing (o : Ord) (h : o.isFinal = true) :
    o.markRejected = o ∧ o.markCancelled = o := by
  simp [Ord.markRejected, Ord.markCancelled, h]

theorem Legal.refl (s : Status) : Legal s s := by cases s <;> simp [Legal]

theorem fill_status (o : Ord) (p : R) (q : Int) (f : R) :
    (o.fill p q f).status = .filled ∨ (o.fill p q f).status = o.status := by
  unfold Ord.fill
  simp only
  split_ifs <;> simp

/-- one matcher call moves an ACTIVE order only along legal edges, and leaves a final order alone (`matchOne`) -/
theorem matcher_step_legal (orc : Oracle) (au : Bool) (o : Ord) (ha : o.status = .active ∨ o.isFinal = true)
    (hq : ∀ q p c cr, orc.decide o au = .fill q p c cr → 0 < q ∧ q ≤ o.unfilled) :
    Legal o.status (matchOne orc au o).1.status := by
  unfold matchOne
  by_cases hf : o.isFinal = true
  · simp only [hf, if_true]; exact Legal.refl _
  · have hf' : o.isFinal = false := by simpa using hf
    have hact : o.status = .active := by
      rcases ha with h | h
      · exact h
      · exact absurd h hf
    simp only [hf', Bool.false_eq_true, if_false]
    cases hout : orc.decide o au with
    | rest => simp only [orderAfter]; exact Legal.refl _
    | raises => simp only [orderAfter]; exact Legal.refl _
    | rejected => simp [orderAfter, Ord.markRejected, hf', hact, Legal]
    | cancelled => simp [orderAfter, Ord.markCancelled, hf', hact, Legal]
    | fill q p c cr =>
      simp only [orderAfter]
      rcases fill_status o p q (orc.fee q p) with h | h
      · have hfin : (o.fill p q (orc.fee q p)).isFinal = true := by
          rw [isFinal_iff]; exact Or.inl h
        cases cr <;> simp [Ord.markCancelled, hfin, h, hact, Legal]
      · rw [hact] at h
        have hfin : (o.fill p q (orc.fee q p)).isFinal = false := by
          simp [Ord.isFinal, h]
        cases cr <;> simp [Ord.markCancelled, hfin, h, hact, Legal]

/-! ### Fill accounting -/

/-- apply a list of fills (price, quantity, fee) -/
def fillAll (o : Ord) : List (R × Int × R) → Ord
  | [] => o
  | (p, q, f) :: rest => fillAll (o.fill p q f) rest

/-- generalised invariant of `fillAll` -/
theorem fillAll_inv (fills : List (R × Int × R)) : ∀ (o : Ord), 0 ≤ o.filled →
    (o.status = .filled ↔ o.filled = o.qty) →
    (∀ f ∈ fills, 0 < f.2.1) → o.filled + (fills.map (·.2.1)).sum ≤ o.qty →
    (fillAll o fills).filled = o.filled + (fills.map (·.2.1)).sum ∧
    (fillAll o fills).avg * ((fillAll o fills).filled : Rat) =
      o.avg * (o.filled : Rat) + (fills.map (fun f => f.1 * (f.2.1 : Rat))).sum ∧
    (fillAll o fills).cost = o.cost + (fills.map (·.2.2)).sum ∧
    ((fillAll o fills).status = .filled ↔ (fillAll o fills).filled = (fillAll o fills).qty) ∧
    (fillAll o fills).qty = o.qty := by
  induction fills with
  | nil =>
    intro o _ hst _ _
    simp [fillAll, hst]
  | cons x rest ih =>
    obtain ⟨p, q, f⟩ := x
    intro o h0 hst hpos hsum
    have hq : 0 < q := hpos (p, q, f) (by simp)
    have hposr : ∀ g ∈ rest, 0 < g.2.1 := fun g hg => hpos g (by simp [hg])
    have hrest : 0 ≤ (rest.map (·.2.1)).sum := by
      clear ih hsum hpos
      induction rest with
      | nil => simp
      | cons y ys ihy =>
        have h1 : 0 < y.2.1 := hposr y (by simp)
        have h2 := ihy (fun g hg => hposr g (by simp [hg]))
        simp only [List.map_cons, List.sum_cons]
        omega
    simp only [List.map_cons, List.sum_cons] at hsum ⊢
    -- facts about one fill
    have e_filled : (o.fill p q f).filled = o.filled + q := by
      unfold Ord.fill; simp only; split_ifs <;> rfl
    have e_qty : (o.fill p q f).qty = o.qty := by
      unfold Ord.fill; simp only; split_ifs <;> rfl
    have e_cost : (o.fill p q f).cost = o.cost + f := by
      unfold Ord.fill; simp only; split_ifs <;> rfl
    have e_avg : (o.fill p q f).avg = (o.avg * (o.filled : Rat) + p * (q : Rat)) / ((o.filled + q : Int) : Rat) := by
      unfold Ord.fill; simp only [R.ofInt]; split_ifs <;> rfl
    have e_st : ((o.fill p q f).status = .filled ↔ (o.fill p q f).filled = (o.fill p q f).qty) := by
      rw [e_filled, e_qty]
      unfold Ord.fill
      simp only
      split_ifs with hc
      · simp only [true_iff]; omega
      · simp only
        constructor
        · intro h; have := hst.mp h; omega
        · intro h; omega
    have hne : ((o.filled + q : Int) : Rat) ≠ 0 := by
      have : o.filled + q ≠ 0 := by omega
      exact_mod_cast this
    have := ih (o.fill p q f) (by rw [e_filled]; omega) e_st hposr (by rw [e_filled, e_qty]; omega)
    obtain ⟨i1, i2, i3, i4, i5⟩ := this
    simp only [fillAll]
    refine ⟨by rw [i1, e_filled]; ring, ?_, by rw [i3, e_cost]; ring, i4, by rw [i5, e_qty]⟩
    rw [i2, e_avg, e_filled, div_mul_cancel₀ _ hne]; ring

/-- **C04.3** for a fresh order and ANY sequence of fills with positive quantities whose total does not exceed the order
quantity: filled quantity = Σ trade quantities; average price × filled = Σ price × quantity; cost = Σ fees; and the order
is FILLED exactly when the two quantities are equal.
`hqty : 0 < o.qty` is needed (and, given the other hypotheses, exactly what is needed): a fresh ACTIVE order of quantity 0 with
no fills has `filled = qty` but is not FILLED (see the `example` below) -/
theorem fill_accounting (o : Ord) (h0 : o.filled = 0 ∧ o.avg = 0 ∧ o.cost = 0 ∧ o.status = .active)
    (hqty : 0 < o.qty)
    (fills : List (R × Int × R)) (hpos : ∀ f ∈ fills, 0 < f.2.1) (hsum : (fills.map (·.2.1)).sum ≤ o.qty) :
    let o' := fillAll o fills
    o'.filled = (fills.map (·.2.1)).sum ∧ o'.filled ≤ o'.qty ∧
    o'.avg * (o'.filled : Rat) = (fills.map (fun f => f.1 * (f.2.1 : Rat))).sum ∧
    o'.cost = (fills.map (·.2.2)).sum ∧
    (o'.status = .filled ↔ o'.filled = o'.qty) ∧ o'.qty = o.qty := by
  obtain ⟨hf, ha, hc, hs⟩ := h0
  have hst : (o.status = .filled ↔ o.filled = o.qty) := by
    rw [hs, hf]; constructor
    · intro h; cases h
    · intro h; omega
  obtain ⟨i1, i2, i3, i4, i5⟩ := fillAll_inv fills o (by omega) hst hpos (by rw [hf]; omega)
  intro o'
  refine ⟨by rw [i1, hf]; ring, by rw [i1, i5, hf]; omega, ?_, by rw [i3, hc]; ring, i4, i5⟩
  rw [i2, ha]; ring

/-- without `0 < o.qty` the FILLED-iff clause of `fill_accounting` fails: quantity 0, no fills -/
example : ¬ (∀ (o : Ord) (_ : o.filled = 0 ∧ o.avg = 0 ∧ o.cost = 0 ∧ o.status = .active)
    (fills : List (R × Int × R)) (_ : ∀ f ∈ fills, 0 < f.2.1) (_ : (fills.map (·.2.1)).sum ≤ o.qty),
    ((fillAll o fills).status = .filled ↔ (fillAll o fills).filled = (fillAll o fills).qty)) := by
  intro h
  have := h ⟨1, 1, true, false, 0, .open_, 0, 0, .active, 0, 0, 10, 0⟩ ⟨rfl, rfl, rfl, rfl⟩ [] (by simp) (by simp)
  simp [fillAll] at this

/-! ### The broker's books -/

/-- every order in either book is non-final -/
def BookInv (b : Broker) : Prop := ∀ o ∈ b.getOpen, o.isFinal = false

/-- after a match round only non-final orders remain, in the regular book; the auction book is empty -/
theorem match_round_books (b : Broker) (orc : Oracle) :
    BookInv (b.matchRound orc).1 ∧ (b.matchRound orc).1.auctionOrders = [] := by
  refine ⟨?_, rfl⟩
  intro o ho
  simp only [Broker.matchRound, Broker.getOpen, List.append_nil, List.mem_filter] at ho
  simpa using ho.2

/-- the events of one matcher call contain no UNSOLICITED_UPDATE -/
theorem matchOne_no_unsolicited (orc : Oracle) (au : Bool) (o : Ord) :
    (matchOne orc au o).2.filterMap (fun e => match e with | .unsolicited id => some id | _ => none) = [] := by
  unfold matchOne
  split_ifs
  · rfl
  · simp only
    cases orc.decide o au <;> rfl

theorem trades_no_unsolicited (orc : Oracle) (au : Bool) (l : List Ord) :
    ((l.map (matchOne orc au)).flatMap (·.2)).filterMap
      (fun e => match e with | .unsolicited id => some id | _ => none) = [] := by
  induction l with
  | nil => rfl
  | cons x xs ih =>
    simp only [List.map_cons, List.flatMap_cons, List.filterMap_append, ih, matchOne_no_unsolicited,
      List.append_nil]

/-- each order that became REJECTED or CANCELLED in the round is announced exactly once (one UNSOLICITED_UPDATE per such
order), FILLED ones by their trades only -/
theorem match_round_announces (b : Broker) (orc : Oracle) (hinv : BookInv b) :
    ((b.matchRound orc).2.filterMap (fun e => match e with | .unsolicited id => some id | _ => none)) =
      (((b.openOrders.map (matchOne orc false) ++ b.auctionOrders.map (matchOne orc true)).map (·.1)).filter
        (fun o => o.status == .rejected || o.status == .cancelled)).map (·.id) := by
  simp only [Broker.matchRound, List.flatMap_append, List.filterMap_append, trades_no_unsolicited,
    List.nil_append, List.filter_filter]
  generalize (List.map (fun x => x.1)
      (List.map (matchOne orc false) b.openOrders ++ List.map (matchOne orc true) b.auctionOrders)) = all
  have hfil : List.filter (fun a => (a.status == .rejected || a.status == .cancelled) && a.isFinal) all =
      List.filter (fun o => o.status == .rejected || o.status == .cancelled) all := by
    apply List.filter_congr
    intro x _
    unfold Ord.isFinal
    cases x.status <;> rfl
  rw [hfil, List.filterMap_map, ← List.filterMap_eq_map]
  rfl

/-- **none open after the close**: `after_trading` empties the regular book (and announces every order it held);
with the auction book empty at that time (`match_round_books`: it is emptied by every match round, and a bar's round
precedes the close) no order is open afterwards -/
theorem none_open_after_close (b : Broker) (ha : b.auctionOrders = []) :
    (b.afterTrading).1.getOpen = [] ∧ (b.afterTrading).2.length = b.openOrders.length := by
  simp [Broker.afterTrading, Broker.getOpen, ha]

theorem fill_id (o : Ord) (p : R) (q : Int) (f : R) : (o.fill p q f).id = o.id := by
  unfold Ord.fill; simp only; split_ifs <;> rfl

theorem markCancelled_id (o : Ord) : o.markCancelled.id = o.id := by
  unfold Ord.markCancelled; split_ifs <;> rfl

theorem markRejected_id (o : Ord) : o.markRejected.id = o.id := by
  unfold Ord.markRejected; split_ifs <;> rfl

/-- a matcher call never changes the order id -/
theorem matchOne_id (orc : Oracle) (au : Bool) (o : Ord) : (matchOne orc au o).1.id = o.id := by
  unfold matchOne
  split_ifs
  · rfl
  · simp only
    cases orc.decide o au with
    | rest => rfl
    | raises => rfl
    | rejected => simp only [orderAfter, markRejected_id]
    | cancelled => simp only [orderAfter, markCancelled_id]
    | fill q p c cr =>
      simp only [orderAfter]
      split_ifs
      · rw [markCancelled_id, fill_id]
      · rw [fill_id]

/-- an order handed to `submit_order` ends up final or in one of the books (`returned_final_or_open` for the broker part) -/
theorem submitted_final_or_open (b : Broker) (orc : Oracle) (o : Ord) (inAuction : Bool) (hinv : BookInv b)
    (hid : ∀ x ∈ b.getOpen, x.id ≠ o.id) (hpn : o.status = .pendingNew) :
    let r := b.submit orc o inAuction
    (∃ x ∈ r.1.getOpen, x.id = o.id) ∨
    (b.matchImmediately = true ∧ (matchOne orc inAuction o.activate).1.isFinal = true) := by
  intro r
  have hnf : o.isFinal = false := by simp [Ord.isFinal, hpn]
  by_cases hm : b.matchImmediately = true
  · by_cases hfin : (matchOne orc inAuction o.activate).1.isFinal = true
    · exact Or.inr ⟨hm, hfin⟩
    · left
      refine ⟨(matchOne orc inAuction o.activate).1, ?_, ?_⟩
      · simp only [r, Broker.submit, hnf, Bool.false_eq_true, if_false, hm, if_true, Broker.matchRound,
          Broker.getOpen, List.append_nil, List.mem_filter, List.mem_map, List.mem_append]
        refine ⟨⟨matchOne orc inAuction o.activate, ?_, rfl⟩, by simpa using hfin⟩
        cases inAuction
        · left; exact ⟨o.activate, by simp, rfl⟩
        · right; exact ⟨o.activate, by simp, rfl⟩
      · rw [matchOne_id]; rfl
  · left
    have hm' : b.matchImmediately = false := by simpa using hm
    refine ⟨o.activate, ?_, rfl⟩
    simp only [r, Broker.submit, hnf, Bool.false_eq_true, if_false, hm', Broker.getOpen]
    cases inAuction <;> simp

/-- `submit` announces PENDING_NEW then CREATION_PASS, in that order, before anything else -/
theorem submit_announces (b : Broker) (orc : Oracle) (o : Ord) (inAuction : Bool) (hnf : o.isFinal = false) :
    ∃ rest, (b.submit orc o inAuction).2 = OEvent.pendingNew o.id :: OEvent.creationPass o.id :: rest := by
  simp only [Broker.submit, hnf, Bool.false_eq_true, if_false]
  by_cases hm : b.matchImmediately = true
  · simp only [hm, if_true]; exact ⟨_, rfl⟩
  · simp only [hm]; exact ⟨[], rfl⟩

/-- `cancel_order` on a final order does nothing: no event, no change of the books (repair of finding F23) -/
theorem cancel_final_noop (b : Broker) (o : Ord) (h : o.isFinal = true) : b.cancel o = (b, []) := by
  simp only [Broker.cancel, h, if_true]

/-- `cancel_order` of a live order announces PENDING_CANCEL then CANCELLATION_PASS and removes it from BOTH books (the auction book
too: repair of finding F4, where a cancelled auction order was matched again under `next_bar`) -/
theorem cancel_live (b : Broker) (o : Ord) (h : o.isFinal = false) :
    (b.cancel o).2 = [OEvent.pendingCancel o.id, OEvent.cancellationPass o.id] ∧
    (∀ x ∈ (b.cancel o).1.openOrders, x.id ≠ o.id) ∧ (∀ x ∈ (b.cancel o).1.auctionOrders, x.id ≠ o.id) := by
  unfold Broker.cancel
  rw [h]
  refine ⟨rfl, ?_, ?_⟩
  · intro x hx
    simp only [Bool.false_eq_true, if_false] at hx
    rw [List.mem_filter] at hx
    simpa using hx.2
  · intro x hx
    simp only [Bool.false_eq_true, if_false] at hx
    rw [List.mem_filter] at hx
    simpa using hx.2

/-- non-vacuity: partial fills 300 @ 10 and 700 @ 10.5 of an order for 1000 -/
example : let o : Ord := ⟨1, 1, true, false, 0, .open_, 1000, 0, .active, 0, 0, 10, 10008⟩
    (fillAll o [(10, 300, 5), (10.5, 700, 5.88)]).status = .filled ∧ (fillAll o [(10, 300, 5), (10.5, 700, 5.88)]).avg = 10.35 ∧
    (fillAll o [(10, 300, 5)]).status = .active := by
  decide +kernel


/-! ### signal mode (`SignalBroker`) -/

/-- signal mode decides every order at once: it never rests and is never cancelled — rejected, filled in full, or the slippage model raises -/
theorem signal_decides_at_once (pl : Bool) (slip : Slip) (o : Ord) (b : MBar) (ct : Int → Int) :
    signalMatch pl slip o b ct = .rejected ∨ signalMatch pl slip o b ct = .raises ∨
    ∃ p, signalMatch pl slip o b ct = .fill o.qty p (ct o.qty) false := by
  unfold signalMatch
  cases validPrice b.deal with
  | none => exact Or.inl rfl
  | some last =>
    simp only
    cases hc : (pl && signalAtLimit o b (signalDeal o last)) with
    | true => simp
    | false =>
      simp only [Bool.false_eq_true, if_false]
      cases hs : slipPrice slip o.isBuy o.isLimit o.limitPrice b (signalDeal o last) with
      | none => exact Or.inr (Or.inl rfl)
      | some price => exact Or.inr (Or.inr ⟨price, rfl⟩)


/-! ### whole runs of the composed world (`RQ/Model/World.lean`) -/

/-- **nothing left dangling, for whole runs**: from a world whose books hold live orders only, after ANY sequence of day events and
strategy calls every order in the broker's books is still live, every order that has left the books is final (filled, rejected or
cancelled) — no order is ever lost between the two -/
theorem world_books_live (w : World) (ins : List WIn) (h : RQ.Lemmas.WorldB.BooksOk w) :
    (∀ o ∈ (w.run ins).1.openOrders ++ (w.run ins).1.auctionOrders, o.isFinal = false) ∧
    (∀ o ∈ (w.run ins).1.finals, o.isFinal = true) :=
  RQ.Lemmas.WorldB.run_booksOk w ins h

/-- after the close of any day of any run nothing rests in the regular book -/
theorem world_nothing_rests_after_close (w : World) (ins : List WIn) :
    ((w.run ins).1.step .afterTrading).1.openOrders = [] :=
  RQ.Lemmas.WorldB.afterTrading_book_empty _


/-- **no order is ever lost or duplicated, in the whole system**: from empty books, for EVERY input list whose submitted ids are pairwise
different (the order-id counter), at the end of the run — hence, by `WorldB.run_append`, after every prefix — the ids resting in the two books
together with the ids that have left them are exactly the ids the broker announced with ORDER_PENDING_NEW, each once -/
theorem world_orders_conserved (w : World) (ins : List WIn) (ho : w.openOrders = []) (ha : w.auctionOrders = []) (hf : w.finals = [])
    (hids : (RQ.Lemmas.WorldC.submittedIds ins).Nodup) :
    (RQ.Lemmas.WorldC.bookIds (w.run ins).1 ++ RQ.Lemmas.WorldN.finalIds (w.run ins).1).Perm (RQ.Lemmas.WorldN.acceptedIds (w.run ins).2) ∧
    (RQ.Lemmas.WorldC.bookIds (w.run ins).1 ++ RQ.Lemmas.WorldN.finalIds (w.run ins).1).Nodup :=
  RQ.Lemmas.WorldN.run_orders_conserved w ins ho ha hf hids

/-- … and whenever the books are empty (after every close of a day-structured run) every accepted order is final -/
theorem world_all_accepted_orders_final_when_books_empty (w : World) (ins : List WIn) (ho : w.openOrders = []) (ha : w.auctionOrders = [])
    (hf : w.finals = []) (hids : (RQ.Lemmas.WorldC.submittedIds ins).Nodup)
    (ho' : (w.run ins).1.openOrders = []) (ha' : (w.run ins).1.auctionOrders = []) :
    (RQ.Lemmas.WorldN.finalIds (w.run ins).1).Perm (RQ.Lemmas.WorldN.acceptedIds (w.run ins).2) ∧ ∀ o ∈ (w.run ins).1.finals, o.isFinal = true :=
  RQ.Lemmas.WorldN.empty_books_all_final w ins ho ha hf hids ho' ha'

end RQ.Props.C04

/-
C10 — Positions never go negative: closable quantity, T+1 and close-today rules.
Theorems over `RQ/Model/Position.lean` and `RQ/Model/Validators.lean`.
-/
import RQ.Model.Account
import RQ.Model.Validators
import Mathlib.Tactic.Linarith
import Mathlib.Tactic.Ring
import Mathlib.Tactic.SplitIfs
import RQ.Lemmas.WorldE

namespace RQ.Props.C10
open RQ.Q

/-! ### field projections of the trade functions (helper lemmas) -/

theorem base_open (p : Pos) (t : TradeIn) (ht : t.effect = .open_) :
    (p.applyTradeBase t).1.qty = p.qty + t.qty ∧ (p.applyTradeBase t).1.oldQty = p.oldQty ∧
    (p.applyTradeBase t).1.nonClosable = p.nonClosable := by
  simp [Pos.applyTradeBase, ht]

theorem base_close (p : Pos) (t : TradeIn) (ht : t.effect = .close) :
    (p.applyTradeBase t).1.qty = p.qty - t.qty ∧ (p.applyTradeBase t).1.oldQty = p.oldQty - min t.qty p.oldQty ∧
    (p.applyTradeBase t).1.nonClosable = p.nonClosable := by
  simp [Pos.applyTradeBase, ht]

theorem stock_open (cfg : InsCfg) (p : Pos) (t : TradeIn) (ht : t.effect = .open_) :
    (p.applyTradeStock cfg t).1.qty = p.qty + t.qty ∧ (p.applyTradeStock cfg t).1.oldQty = p.oldQty ∧
    (p.applyTradeStock cfg t).1.nonClosable = p.nonClosable + (if cfg.tplus then t.qty else 0) := by
  obtain ⟨h1, h2, h3⟩ := base_open p t ht
  unfold Pos.applyTradeStock
  cases hT : cfg.tplus <;> simp [ht, h1, h2, h3]

theorem stock_close (cfg : InsCfg) (p : Pos) (t : TradeIn) (ht : t.effect = .close) :
    (p.applyTradeStock cfg t).1.qty = p.qty - t.qty ∧
    (p.applyTradeStock cfg t).1.oldQty = p.oldQty - min t.qty p.oldQty ∧
    (p.applyTradeStock cfg t).1.nonClosable = p.nonClosable := by
  obtain ⟨h1, h2, h3⟩ := base_close p t ht
  unfold Pos.applyTradeStock
  simp [ht, h1, h2, h3]

theorem future_open (cfg : InsCfg) (p : Pos) (t : TradeIn) (ht : t.effect = .open_) :
    (p.applyTradeFuture cfg t).1.qty = p.qty + t.qty ∧ (p.applyTradeFuture cfg t).1.oldQty = p.oldQty := by
  obtain ⟨h1, h2, _⟩ := base_open p t ht
  unfold Pos.applyTradeFuture
  simp [ht, h1, h2]

theorem future_close (cfg : InsCfg) (p : Pos) (t : TradeIn) (ht : t.effect = .close) :
    (p.applyTradeFuture cfg t).1.qty = p.qty - t.qty ∧
    (p.applyTradeFuture cfg t).1.oldQty = p.oldQty - min t.qty p.oldQty := by
  obtain ⟨h1, h2, _⟩ := base_close p t ht
  unfold Pos.applyTradeFuture
  simp [ht, h1, h2]

theorem future_closeToday (cfg : InsCfg) (p : Pos) (t : TradeIn) (ht : t.effect = .closeToday) :
    (p.applyTradeFuture cfg t).1.qty = p.qty - t.qty ∧
    (p.applyTradeFuture cfg t).1.oldQty = p.oldQty := by
  unfold Pos.applyTradeFuture
  simp [ht]


/-- `closable` of a position given the unfilled quantities of the open closing orders (CLOSE and CLOSE_TODAY) on it;
`tplusOn` = config `stock_t1` (stocks) -/
def closable (cfg : InsCfg) (tplusOn : Bool) (p : Pos) (openClosing : Int) : Int :=
  if !cfg.isFuture && tplusOn then p.qty - openClosing - p.nonClosable else p.qty - openClosing

/-- `today_closable` given the unfilled quantities of the open CLOSE_TODAY orders and the position's `closable` (repaired: lots
committed to resting closing orders of either kind are not closable as today's) -/
def todayClosable (p : Pos) (openCloseToday : Int) (closableAll : Int) : Int := min (p.qty - p.oldQty - openCloseToday) closableAll

/-- ghost state: a position with the closing orders resting on it -/
structure PS where
  pos : Pos
  restClose : Int           -- Σ unfilled of resting CLOSE orders
  restCloseToday : Int      -- Σ unfilled of resting CLOSE_TODAY orders

/-- operations on one stock position within and across days -/
inductive SOp
  | buy (t : TradeIn)                        -- fill of a buy (OPEN)
  | submitSell (q : Int)                     -- a sell (CLOSE) order of q passes / fails validation and rests
  | fillSell (t : TradeIn)                   -- fill of (part of) a resting sell
  | cancelSell (q : Int)                     -- q unfilled shares of resting sells are released
  | beforeTrading                            -- next day

/-- stock account with position validation on: a sell is accepted only up to `closable` -/
def sstep (cfg : InsCfg) (tplusOn : Bool) (s : PS) : SOp → PS
  | .buy t => { s with pos := (s.pos.applyTradeStock cfg t).1 }
  | .submitSell q =>
    if positionVeto ⟨false, 0, 0, q, .close, false⟩ (closable cfg tplusOn s.pos (s.restClose + s.restCloseToday)) 0 then s
    else { s with restClose := s.restClose + q }
  | .fillSell t => { s with pos := (s.pos.applyTradeStock cfg t).1, restClose := s.restClose - t.qty }
  | .cancelSell q => { s with restClose := s.restClose - q }
  | .beforeTrading => { s with pos := s.pos.beforeTradingBase }

/-- admissible operations: positive quantities; fills and cancels never exceed what rests; buys are OPEN, sells CLOSE -/
def SAdm (s : PS) : SOp → Prop
  | .buy t => t.effect = .open_ ∧ 0 < t.qty
  | .submitSell q => 0 < q
  | .fillSell t => t.effect = .close ∧ 0 < t.qty ∧ t.qty ≤ s.restClose
  | .cancelSell q => 0 < q ∧ q ≤ s.restClose
  | .beforeTrading => True

/-- invariant: quantities non-negative, yesterday's part within the whole, and everything committed to resting sells plus
(under T+1) everything bought today fits into the holding -/
def SInv (cfg : InsCfg) (tplusOn : Bool) (s : PS) : Prop :=
  0 ≤ s.pos.oldQty ∧ s.pos.oldQty ≤ s.pos.qty ∧ 0 ≤ s.restClose ∧ s.restCloseToday = 0 ∧ 0 ≤ s.pos.nonClosable ∧
  s.restClose + (if cfg.tplus && tplusOn then s.pos.nonClosable else 0) ≤ s.pos.qty

theorem stock_step_inv (cfg : InsCfg) (hc : cfg.isFuture = false) (tplusOn : Bool) (s : PS) (op : SOp)
    (hinv : SInv cfg tplusOn s) (hadm : SAdm s op) : SInv cfg tplusOn (sstep cfg tplusOn s op) := by
  obtain ⟨h1, h2, h3, h4, h5, h6⟩ := hinv
  cases op with
  | buy t =>
    obtain ⟨ht, hq⟩ := hadm
    obtain ⟨e1, e2, e3⟩ := stock_open cfg s.pos t ht
    simp only [sstep, SInv, e1, e2, e3]
    refine ⟨h1, by omega, h3, h4, ?_, ?_⟩
    · split_ifs <;> omega
    · cases hT : cfg.tplus <;> cases tplusOn <;> simp [hT] at h6 ⊢ <;> omega
  | submitSell q =>
    have hq : 0 < q := hadm
    simp only [sstep]
    split_ifs with hv
    · exact ⟨h1, h2, h3, h4, h5, h6⟩
    · have hle : q ≤ closable cfg tplusOn s.pos (s.restClose + s.restCloseToday) := by
        simpa [positionVeto] using hv
      simp only [SInv]
      refine ⟨h1, h2, by omega, h4, h5, ?_⟩
      simp only [closable, hc, h4] at hle
      cases hT : cfg.tplus <;> cases tplusOn <;> simp [hT] at h6 hle ⊢ <;> omega
  | fillSell t =>
    obtain ⟨ht, hq, hr⟩ := hadm
    obtain ⟨e1, e2, e3⟩ := stock_close cfg s.pos t ht
    simp only [sstep, SInv, e1, e2, e3]
    have h7 : s.restClose ≤ s.pos.qty := by
      split_ifs at h6 <;> omega
    refine ⟨by omega, by omega, by omega, h4, h5, ?_⟩
    split_ifs at h6 ⊢ <;> omega
  | cancelSell q =>
    obtain ⟨hq, hr⟩ := hadm
    simp only [sstep, SInv]
    refine ⟨h1, h2, by omega, h4, h5, ?_⟩
    split_ifs at h6 ⊢ <;> omega
  | beforeTrading =>
    simp only [sstep, SInv, Pos.beforeTradingBase]
    refine ⟨by omega, le_refl _, h3, h4, le_refl _, ?_⟩
    split_ifs at h6 ⊢ <;> omega

def SAdmRun (cfg : InsCfg) (tplusOn : Bool) : PS → List SOp → Prop
  | _, [] => True
  | s, op :: ops => SAdm s op ∧ SAdmRun cfg tplusOn (sstep cfg tplusOn s op) ops

/-- **C10 (stocks)** for every sequence of buys, sell submissions, fills, cancels and day changes, with position
validation on: the quantity is never negative -/
theorem stock_qty_nonneg (cfg : InsCfg) (hc : cfg.isFuture = false) (tplusOn : Bool) (s : PS) (ops : List SOp)
    (hinv : SInv cfg tplusOn s) (hadm : SAdmRun cfg tplusOn s ops) :
    0 ≤ (ops.foldl (sstep cfg tplusOn) s).pos.qty ∧ SInv cfg tplusOn (ops.foldl (sstep cfg tplusOn) s) := by
  induction ops generalizing s with
  | nil =>
    refine ⟨?_, hinv⟩
    obtain ⟨h1, h2, _⟩ := hinv
    exact le_trans h1 h2
  | cons op ops ih =>
    obtain ⟨ha, hrest⟩ := hadm
    exact ih (sstep cfg tplusOn s op) (stock_step_inv cfg hc tplusOn s op hinv ha) hrest

set_option linter.unusedVariables false in  -- hypotheses kept as stated although the proof does not need them
/-- **T+1**: with T+1 on, shares bought today are not closable today: `closable ≤ qty − bought today` -/
theorem t_plus_one (cfg : InsCfg) (hc : cfg.isFuture = false) (hT : cfg.tplus = true) (s : PS) (openClosing : Int)
    (h0 : 0 ≤ openClosing) : closable cfg true s.pos openClosing ≤ s.pos.qty - s.pos.nonClosable := by
  simp only [closable, hc]
  simp only [Bool.not_false, Bool.and_self, if_true]
  omega

/-- … a buy raises the locked part by its quantity, and the lock is lifted at the next before_trading -/
theorem t_plus_one_lock_cycle (cfg : InsCfg) (hT : cfg.tplus = true) (p : Pos) (t : TradeIn) (ht : t.effect = .open_) :
    (p.applyTradeStock cfg t).1.nonClosable = p.nonClosable + t.qty ∧
    ((p.applyTradeStock cfg t).1.beforeTradingBase).nonClosable = 0 := by
  obtain ⟨_, _, e3⟩ := stock_open cfg p t ht
  refine ⟨?_, rfl⟩
  rw [e3, hT]
  simp

/-- a rejected close changes nothing -/
theorem rejected_close_frame (cfg : InsCfg) (tplusOn : Bool) (s : PS) (q : Int)
    (h : positionVeto ⟨false, 0, 0, q, .close, false⟩ (closable cfg tplusOn s.pos (s.restClose + s.restCloseToday)) 0 = true) :
    sstep cfg tplusOn s (.submitSell q) = s := by
  simp only [sstep, h, if_true]

/-! ### Futures -/

/-- a close-today order is accepted only up to today's quantity not yet committed to close-today orders -/
theorem close_today_bounded (o : OrderIn) (p : Pos) (restCT cl : Int) (ho : o.effect = .closeToday)
    (h : positionVeto o cl (todayClosable p restCT cl) = false) : o.qty + restCT ≤ p.qty - p.oldQty ∧ o.qty ≤ cl := by
  have h' : ¬ (o.qty > min (p.qty - p.oldQty - restCT) cl) := by
    simpa [positionVeto, ho, todayClosable] using h
  omega

set_option linter.unusedVariables false in  -- hypotheses kept as stated although the proof does not need them
/-- ordinary closes consume yesterday's quantity first -/
theorem old_first (cfg : InsCfg) (p : Pos) (t : TradeIn) (ht : t.effect = .close) (h0 : 0 ≤ p.oldQty) (hq : 0 ≤ t.qty) :
    (p.applyTradeFuture cfg t).1.oldQty = p.oldQty - min t.qty p.oldQty ∧
    0 ≤ (p.applyTradeFuture cfg t).1.oldQty := by
  obtain ⟨_, e2⟩ := future_close cfg p t ht
  refine ⟨e2, ?_⟩
  rw [e2]
  omega

/-- futures operations: as for stocks, plus close-today orders -/
inductive FOp
  | open_ (t : TradeIn)
  | submitClose (q : Int)
  | submitCloseToday (q : Int)
  | fillClose (t : TradeIn)
  | fillCloseToday (t : TradeIn)
  | cancelClose (q : Int)
  | cancelCloseToday (q : Int)
  | beforeTrading

def fstep (cfg : InsCfg) (s : PS) : FOp → PS
  | .open_ t => { s with pos := (s.pos.applyTradeFuture cfg t).1 }
  | .submitClose q =>
    if positionVeto ⟨false, 0, 0, q, .close, false⟩ (closable cfg false s.pos (s.restClose + s.restCloseToday)) 0 then s
    else { s with restClose := s.restClose + q }
  | .submitCloseToday q =>
    if positionVeto ⟨false, 0, 0, q, .closeToday, false⟩ 0
        (todayClosable s.pos s.restCloseToday (closable cfg false s.pos (s.restClose + s.restCloseToday))) then s
    else { s with restCloseToday := s.restCloseToday + q }
  | .fillClose t => { s with pos := (s.pos.applyTradeFuture cfg t).1, restClose := s.restClose - t.qty }
  | .fillCloseToday t => { s with pos := (s.pos.applyTradeFuture cfg t).1, restCloseToday := s.restCloseToday - t.qty }
  | .cancelClose q => { s with restClose := s.restClose - q }
  | .cancelCloseToday q => { s with restCloseToday := s.restCloseToday - q }
  | .beforeTrading => { s with pos := s.pos.beforeTradingBase }

def FAdm (s : PS) : FOp → Prop
  | .open_ t => t.effect = .open_ ∧ 0 < t.qty
  | .submitClose q => 0 < q
  | .submitCloseToday q => 0 < q
  | .fillClose t => t.effect = .close ∧ 0 < t.qty ∧ t.qty ≤ s.restClose
  | .fillCloseToday t => t.effect = .closeToday ∧ 0 < t.qty ∧ t.qty ≤ s.restCloseToday
  | .cancelClose q => 0 < q ∧ q ≤ s.restClose
  | .cancelCloseToday q => 0 < q ∧ q ≤ s.restCloseToday
  | .beforeTrading => True

/-- invariant for futures.  NOTE the last clause: resting ordinary closes are covered by YESTERDAY's quantity. This is the
hypothesis the proof forces: `today_closable` ignores resting ordinary CLOSE orders, so a resting CLOSE that reaches into
today's quantity (possible through the generic `submit_order(..., position_effect=CLOSE)`) together with a resting
CLOSE_TODAY oversells — finding F12.  The order APIs `sell_close/buy_close/order/order_to` split a close into
CLOSE ≤ old and CLOSE_TODAY for the rest, which keeps this clause. -/
def FInv (s : PS) : Prop :=
  0 ≤ s.pos.oldQty ∧ s.pos.oldQty ≤ s.pos.qty ∧ 0 ≤ s.restClose ∧ 0 ≤ s.restCloseToday ∧
  s.restClose + s.restCloseToday ≤ s.pos.qty ∧ s.restCloseToday ≤ s.pos.qty - s.pos.oldQty ∧ s.restClose ≤ s.pos.oldQty

/-- submissions of ordinary closes stay within yesterday's quantity (what the typed order APIs guarantee) -/
def FAdmStrict (s : PS) : FOp → Prop
  | .submitClose q => 0 < q ∧ s.restClose + q ≤ s.pos.oldQty
  | op => FAdm s op

/-- the part of `FInv` that is inductive for EVERY admissible operation, including a day change with close-today orders
still resting (it drops `oldQty ≤ qty` and `restCloseToday ≤ qty − oldQty`, which `before_trading` breaks in that case);
it is what `future_qty_nonneg_partial` needs -/
def FInvW (s : PS) : Prop :=
  0 ≤ s.pos.oldQty ∧ 0 ≤ s.restClose ∧ 0 ≤ s.restCloseToday ∧
  s.restClose + s.restCloseToday ≤ s.pos.qty ∧ s.restClose ≤ s.pos.oldQty

theorem FInv.weak {s : PS} (h : FInv s) : FInvW s := by
  obtain ⟨h1, _, h3, h4, h5, _, h7⟩ := h
  exact ⟨h1, h3, h4, h5, h7⟩

theorem future_step_invW (cfg : InsCfg) (s : PS) (op : FOp) (hinv : FInvW s) (hadm : FAdmStrict s op) :
    FInvW (fstep cfg s op) := by
  obtain ⟨h1, h3, h4, h5, h7⟩ := hinv
  cases op with
  | open_ t =>
    obtain ⟨ht, hq⟩ := hadm
    obtain ⟨e1, e2⟩ := future_open cfg s.pos t ht
    simp only [fstep, FInvW, e1, e2]
    exact ⟨h1, h3, h4, by omega, h7⟩
  | submitClose q =>
    obtain ⟨hq, hs⟩ := hadm
    simp only [fstep]
    split_ifs with hv
    · exact ⟨h1, h3, h4, h5, h7⟩
    · have hle : ¬ (q > closable cfg false s.pos (s.restClose + s.restCloseToday)) := by
        simpa [positionVeto] using hv
      simp only [closable, Bool.and_false, Bool.false_eq_true, if_false] at hle
      simp only [FInvW]
      exact ⟨h1, by omega, h4, by omega, hs⟩
  | submitCloseToday q =>
    have hq : 0 < q := hadm
    simp only [fstep]
    split_ifs with hv
    · exact ⟨h1, h3, h4, h5, h7⟩
    · have hle : ¬ (q > todayClosable s.pos s.restCloseToday (closable cfg false s.pos (s.restClose + s.restCloseToday))) := by
        simpa [positionVeto] using hv
      simp only [todayClosable, closable, Bool.and_false, Bool.false_eq_true, if_false] at hle
      simp only [FInvW]
      exact ⟨h1, h3, by omega, by omega, h7⟩
  | fillClose t =>
    obtain ⟨ht, hq, hr⟩ := hadm
    obtain ⟨e1, e2⟩ := future_close cfg s.pos t ht
    simp only [fstep, FInvW, e1, e2]
    exact ⟨by omega, by omega, h4, by omega, by omega⟩
  | fillCloseToday t =>
    obtain ⟨ht, hq, hr⟩ := hadm
    obtain ⟨e1, e2⟩ := future_closeToday cfg s.pos t ht
    simp only [fstep, FInvW, e1, e2]
    exact ⟨h1, h3, by omega, by omega, h7⟩
  | cancelClose q =>
    obtain ⟨hq, hr⟩ := hadm
    simp only [fstep, FInvW]
    exact ⟨h1, by omega, h4, by omega, by omega⟩
  | cancelCloseToday q =>
    obtain ⟨hq, hr⟩ := hadm
    simp only [fstep, FInvW]
    exact ⟨h1, h3, by omega, by omega, h7⟩
  | beforeTrading =>
    simp only [fstep, FInvW, Pos.beforeTradingBase]
    exact ⟨by omega, h3, h4, h5, by omega⟩

/-- STATEMENT CHANGED (extra hypothesis `hbt`): the full `FInv` is not preserved by a day change while close-today orders
rest (`before_trading` sets `oldQty := qty`, so `restCloseToday ≤ qty − oldQty = 0` fails; see
`future_step_inv_partial_needs_hbt`).  In the code all orders are day orders, cancelled at the end of the day, so nothing
rests at `before_trading`. -/
theorem future_step_inv_partial (cfg : InsCfg) (s : PS) (op : FOp) (hinv : FInv s) (hadm : FAdmStrict s op)
    (hbt : op = .beforeTrading → s.restCloseToday = 0) :
    FInv (fstep cfg s op) := by
  obtain ⟨h1, h3, h4, h5, h7⟩ := future_step_invW cfg s op hinv.weak hadm
  obtain ⟨g1, g2, g3, g4, g5, g6, g7⟩ := hinv
  refine ⟨h1, ?_, h3, h4, h5, ?_, h7⟩
  · cases op with
    | open_ t =>
      obtain ⟨ht, hq⟩ := hadm
      obtain ⟨e1, e2⟩ := future_open cfg s.pos t ht
      simp only [fstep, e1, e2]; omega
    | submitClose q => simp only [fstep]; split_ifs <;> exact g2
    | submitCloseToday q => simp only [fstep]; split_ifs <;> exact g2
    | fillClose t =>
      obtain ⟨ht, hq, hr⟩ := hadm
      obtain ⟨e1, e2⟩ := future_close cfg s.pos t ht
      simp only [fstep, e1, e2]; omega
    | fillCloseToday t =>
      obtain ⟨ht, hq, hr⟩ := hadm
      obtain ⟨e1, e2⟩ := future_closeToday cfg s.pos t ht
      simp only [fstep, e1, e2]; omega
    | cancelClose q => exact g2
    | cancelCloseToday q => exact g2
    | beforeTrading => exact le_refl _
  · cases op with
    | open_ t =>
      obtain ⟨ht, hq⟩ := hadm
      obtain ⟨e1, e2⟩ := future_open cfg s.pos t ht
      simp only [fstep, e1, e2]; omega
    | submitClose q => simp only [fstep]; split_ifs <;> exact g6
    | submitCloseToday q =>
      simp only [fstep]
      split_ifs with hv
      · exact g6
      · have hle : ¬ (q > todayClosable s.pos s.restCloseToday (closable cfg false s.pos (s.restClose + s.restCloseToday))) := by
          simpa [positionVeto] using hv
        simp only [todayClosable, closable, Bool.and_false, Bool.false_eq_true, if_false] at hle
        show s.restCloseToday + q ≤ s.pos.qty - s.pos.oldQty
        omega
    | fillClose t =>
      obtain ⟨ht, hq, hr⟩ := hadm
      obtain ⟨e1, e2⟩ := future_close cfg s.pos t ht
      simp only [fstep, e1, e2]; omega
    | fillCloseToday t =>
      obtain ⟨ht, hq, hr⟩ := hadm
      obtain ⟨e1, e2⟩ := future_closeToday cfg s.pos t ht
      simp only [fstep, e1, e2]; omega
    | cancelClose q => exact g6
    | cancelCloseToday q =>
      obtain ⟨hq, hr⟩ := hadm
      show s.restCloseToday - q ≤ s.pos.qty - s.pos.oldQty
      omega
    | beforeTrading =>
      have h0 := hbt rfl
      show s.restCloseToday ≤ s.pos.qty - s.pos.qty
      omega

/-- the original statement of `future_step_inv_partial` (without `hbt`) is false: today 3, a resting CLOSE_TODAY 3, then
`before_trading` -/
theorem future_step_inv_partial_needs_hbt :
    ∃ (cfg : InsCfg) (s : PS) (op : FOp), FInv s ∧ FAdmStrict s op ∧ ¬ FInv (fstep cfg s op) := by
  refine ⟨⟨true, 10, 1/10, 1, false, 1⟩, ⟨⟨true, 3, 0, 0, 3000, 0, 0, 3000, 0, none⟩, 0, 3⟩, .beforeTrading, ?_, ?_, ?_⟩
  · simp only [FInv]; decide
  · exact True.intro
  · simp only [FInv, fstep, Pos.beforeTradingBase]; decide

def FAdmRun (cfg : InsCfg) : PS → List FOp → Prop
  | _, [] => True
  | s, op :: ops => FAdmStrict s op ∧ FAdmRun cfg (fstep cfg s op) ops

/-- **C10 (futures, partial)**: under the strict-submission hypothesis no quantity ever goes negative -/
theorem future_qty_nonneg_partial (cfg : InsCfg) (s : PS) (ops : List FOp) (hinv : FInv s) (hadm : FAdmRun cfg s ops) :
    0 ≤ (ops.foldl (fstep cfg) s).pos.qty ∧ 0 ≤ (ops.foldl (fstep cfg) s).pos.oldQty := by
  have key : ∀ (ops : List FOp) (s : PS), FInvW s → FAdmRun cfg s ops → FInvW (ops.foldl (fstep cfg) s) := by
    intro ops
    induction ops with
    | nil => intro s h _; exact h
    | cons op ops ih =>
      intro s h hrun
      obtain ⟨ha, hrest⟩ := hrun
      exact ih (fstep cfg s op) (future_step_invW cfg s op h ha) hrest
  obtain ⟨h1, h3, h4, h5, _⟩ := key ops s hinv.weak hadm
  exact ⟨by omega, h1⟩

/-! ### The full statement (after the repair of `today_closable`)

Before the repair `today_closable` ignored resting ordinary CLOSE orders: old 2 + today 3, a resting CLOSE 5 and a resting
CLOSE_TODAY 3 both passed validation and after both filled the quantity was −3 (finding F12; this file then carried the theorem
`future_full_statement_false` with exactly that witness, and `future_qty_nonneg_partial` needed the hypothesis that resting ordinary
closes stay within yesterday's quantity — which a sequence of typed `sell_close/buy_close` calls does not keep either).
With `today_closable = min(today's lots − resting close-today, closable)` the hypothesis is gone. -/

/-- the invariant that is inductive for every accepted submission: what is committed to closing orders never exceeds the leg -/
def FInvFull (s : PS) : Prop :=
  0 ≤ s.pos.oldQty ∧ 0 ≤ s.restClose ∧ 0 ≤ s.restCloseToday ∧ s.restClose + s.restCloseToday ≤ s.pos.qty

theorem FInv.full {s : PS} (h : FInv s) : FInvFull s := by
  obtain ⟨h1, _, h3, h4, h5, _, _⟩ := h
  exact ⟨h1, h3, h4, h5⟩

theorem future_step_inv_full (cfg : InsCfg) (s : PS) (op : FOp) (hinv : FInvFull s) (hadm : FAdm s op) :
    FInvFull (fstep cfg s op) := by
  obtain ⟨h1, h3, h4, h5⟩ := hinv
  cases op with
  | open_ t =>
    obtain ⟨ht, hq⟩ := hadm
    obtain ⟨e1, e2⟩ := future_open cfg s.pos t ht
    simp only [fstep, FInvFull, e1, e2]
    exact ⟨h1, h3, h4, by omega⟩
  | submitClose q =>
    have hq : 0 < q := hadm
    simp only [fstep]
    split_ifs with hv
    · exact ⟨h1, h3, h4, h5⟩
    · have hle : ¬ (q > closable cfg false s.pos (s.restClose + s.restCloseToday)) := by
        simpa [positionVeto] using hv
      simp only [closable, Bool.and_false, Bool.false_eq_true, if_false] at hle
      simp only [FInvFull]
      exact ⟨h1, by omega, h4, by omega⟩
  | submitCloseToday q =>
    have hq : 0 < q := hadm
    simp only [fstep]
    split_ifs with hv
    · exact ⟨h1, h3, h4, h5⟩
    · have hle : ¬ (q > todayClosable s.pos s.restCloseToday (closable cfg false s.pos (s.restClose + s.restCloseToday))) := by
        simpa [positionVeto] using hv
      simp only [todayClosable, closable, Bool.and_false, Bool.false_eq_true, if_false] at hle
      simp only [FInvFull]
      exact ⟨h1, h3, by omega, by omega⟩
  | fillClose t =>
    obtain ⟨ht, hq, hr⟩ := hadm
    obtain ⟨e1, e2⟩ := future_close cfg s.pos t ht
    simp only [fstep, FInvFull, e1, e2]
    exact ⟨by omega, by omega, h4, by omega⟩
  | fillCloseToday t =>
    obtain ⟨ht, hq, hr⟩ := hadm
    obtain ⟨e1, e2⟩ := future_closeToday cfg s.pos t ht
    simp only [fstep, FInvFull, e1, e2]
    exact ⟨h1, h3, by omega, by omega⟩
  | cancelClose q =>
    obtain ⟨hq, hr⟩ := hadm
    simp only [fstep, FInvFull]
    exact ⟨h1, by omega, h4, by omega⟩
  | cancelCloseToday q =>
    obtain ⟨hq, hr⟩ := hadm
    simp only [fstep, FInvFull]
    exact ⟨h1, h3, by omega, by omega⟩
  | beforeTrading =>
    simp only [fstep, FInvFull, Pos.beforeTradingBase]
    exact ⟨by omega, h3, h4, h5⟩

def FAdmRunFull (cfg : InsCfg) : PS → List FOp → Prop
  | _, [] => True
  | s, op :: ops => FAdm s op ∧ FAdmRunFull cfg (fstep cfg s op) ops

/-- **C10 (futures, full statement)**: for every sequence of opening fills, submissions of closing orders of ANY positive size through
ANY API (the position validator decides), fills and cancels of resting closing orders and day changes, no quantity ever goes
negative, and the orders resting on a leg never add up to more than the leg holds -/
theorem future_qty_nonneg (cfg : InsCfg) (s : PS) (ops : List FOp) (hinv : FInvFull s) (hadm : FAdmRunFull cfg s ops) :
    0 ≤ (ops.foldl (fstep cfg) s).pos.qty ∧ 0 ≤ (ops.foldl (fstep cfg) s).pos.oldQty ∧
    (ops.foldl (fstep cfg) s).restClose + (ops.foldl (fstep cfg) s).restCloseToday ≤ (ops.foldl (fstep cfg) s).pos.qty := by
  have key : ∀ (ops : List FOp) (s : PS), FInvFull s → FAdmRunFull cfg s ops → FInvFull (ops.foldl (fstep cfg) s) := by
    intro ops
    induction ops with
    | nil => intro s h _; exact h
    | cons op ops ih =>
      intro s h hrun
      obtain ⟨ha, hrest⟩ := hrun
      exact ih (fstep cfg s op) (future_step_inv_full cfg s op h ha) hrest
  obtain ⟨h1, h3, h4, h5⟩ := key ops s hinv hadm
  exact ⟨by omega, h1, h5⟩

/-- the sequence that used to oversell (finding F12) now stops at the validator: after a resting CLOSE 5 on old 2 + today 3 the
CLOSE_TODAY 3 is refused, and after the CLOSE fills the quantity is 0 -/
theorem f12_sequence_refused :
    let cfg : InsCfg := ⟨true, 10, 1/10, 1, false, 1⟩
    let s0 : PS := ⟨⟨true, 5, 2, 2, 3000, 0, 0, 3000, 0, none⟩, 0, 0⟩
    let s2 := [FOp.submitClose 5, FOp.submitCloseToday 3].foldl (fstep cfg) s0
    s2.restClose = 5 ∧ s2.restCloseToday = 0 ∧
    ([FOp.submitClose 5, .submitCloseToday 3, .fillClose ⟨3000, 5, .close, 0⟩].foldl (fstep cfg) s0).pos.qty = 0 := by
  decide +kernel

/-- non-vacuity of `future_qty_nonneg`: the typed sequence of the C10 stream — short 8 (old 4): a resting close of 4, then a close of
8 split into CLOSE 4 + CLOSE_TODAY 4 — is admissible; the CLOSE_TODAY leg is refused -/
example : let cfg : InsCfg := ⟨true, 10, 1/10, 1, false, 1⟩
    let s0 : PS := ⟨⟨false, 8, 4, 4, 3000, 0, 0, 3000, 0, none⟩, 0, 0⟩
    FInvFull s0 ∧ ([FOp.submitClose 4, .submitClose 4, .fillClose ⟨3000, 4, .close, 0⟩, .submitCloseToday 4].foldl (fstep cfg) s0).restCloseToday = 0 := by
  constructor
  · simp only [FInvFull]; decide
  · decide +kernel


/-! ### whole runs of the composed world (`RQ/Model/World.lean`) -/

/-- **positions never go negative, for whole runs of the whole system**: with the position validators on (the default), start from any
well-formed world and let the strategy do anything — orders of positive quantity with fresh ids through any API, cancels, cash flows —
on any market over any number of days, provided corporate actions and settlement meet empty books (which the executor's day
structure guarantees: `C08.world_day_structure_keeps_books_quiet`) and split ratios are positive.  Then in EVERY state the run reaches
no position quantity of any account, long or short, stock or future, is negative — and, stronger, what the closing orders resting in
the broker's books may still close never exceeds what the position holds (`WorldE.run_closeInv`, a 1 600-line proof through validator,
broker, matcher and accounts composed). -/
theorem world_positions_never_negative (w : World) (ins : List WIn) (hv : RQ.Lemmas.WorldE.ValidatorsOn w)
    (hwf : RQ.Lemmas.WorldE.HoldingsWF w) (hb : RQ.Lemmas.WorldC.BooksWF w) (hn : RQ.Lemmas.WorldC.IdsNodup w)
    (hinv : RQ.Lemmas.WorldE.CloseInv w) (hok : RQ.Lemmas.WorldE.RunOk w ins) :
    ∀ (k : Nat) (a : Acct), (w.run ins).1.pf.accounts[k]? = some a → ∀ h ∈ a.holdings, 0 ≤ h.long.qty ∧ 0 ≤ h.short.qty :=
  RQ.Lemmas.WorldE.run_qty_nonneg w ins hv hwf hb hn hinv hok

/-- the stronger invariant itself: resting closes ≤ quantity held, in every reachable state -/
theorem world_resting_closes_within_holding (w : World) (ins : List WIn) (hv : RQ.Lemmas.WorldE.ValidatorsOn w)
    (hwf : RQ.Lemmas.WorldE.HoldingsWF w) (hb : RQ.Lemmas.WorldC.BooksWF w) (hn : RQ.Lemmas.WorldC.IdsNodup w)
    (hinv : RQ.Lemmas.WorldE.CloseInv w) (hok : RQ.Lemmas.WorldE.RunOk w ins) :
    RQ.Lemmas.WorldE.CloseInv (w.run ins).1 :=
  RQ.Lemmas.WorldE.run_closeInv w ins hv hwf hb hn hinv hok

end RQ.Props.C10

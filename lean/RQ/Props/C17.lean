/-
C17 — Scheduler fires exactly on the trading days and times its rules denote.
Theorems over `RQ/Model/Scheduler.lean`.
-/
import RQ.Model.Scheduler
import RQ.Lemmas.Sorted
import RQ.Lemmas.Civil
import RQ.Props.C20
import RQ.Gen.Tables
import Mathlib.Tactic.Linarith

namespace RQ.Props.C17
open RQ.Q RQ.Lemmas

/-! ### Buckets are calendar ∩ week / month -/

/-- `_fill_week` yields exactly the trading days of the whole calendar lying in Monday..Sunday of today's week -/
theorem fillWeek_eq_filter (cal : List Nat) (h : cal.Pairwise (· < ·)) (today : Nat) :
    fillWeek cal today = cal.filter (fun d => (weekBounds today).1 ≤ d && d ≤ (weekBounds today).2) := by
  have := RQ.Props.C20.trading_dates_slice cal h (weekBounds today).1 (weekBounds today).2
  simpa [fillWeek, getTradingDates] using this

/-- the week bounds really are the Monday and the Sunday around `today` -/
theorem weekBounds_spec (today : Nat) (h : 7 ≤ today) :
    weekday (weekBounds today).1 = 0 ∧ weekday (weekBounds today).2 = 6 ∧
    (weekBounds today).1 ≤ today ∧ today ≤ (weekBounds today).2 ∧ (weekBounds today).2 = (weekBounds today).1 + 6 := by
  unfold weekBounds isoWeekday weekday; simp only; omega

/-- any day inside the week has the same bounds: the cached bucket is valid for the whole week -/
theorem weekBounds_same_week (d t : Nat) (h7 : 7 ≤ d) (h1 : (weekBounds d).1 ≤ t) (h2 : t ≤ (weekBounds d).2) :
    weekBounds t = weekBounds d := by
  unfold weekBounds isoWeekday weekday at *; simp only at *
  ext <;> simp only <;> omega

/-- `_fill_month` yields exactly the trading days with `month_begin ≤ d < month_end` -/
theorem fillMonth_eq_filter (cal : List Nat) (h : cal.Pairwise (· < ·)) (today : Nat) (hpos : 0 < (monthBounds today).2) :
    fillMonth cal today = cal.filter (fun d => (monthBounds today).1 ≤ d && d < (monthBounds today).2) := by
  have hl : ssLeft cal (monthBounds today).2 = ssRight cal ((monthBounds today).2 - 1) := by
    unfold ssLeft ssRight; congr 1; apply List.filter_congr; intro x _; simp; omega
  have := RQ.Props.C20.trading_dates_slice cal h (monthBounds today).1 ((monthBounds today).2 - 1)
  unfold fillMonth; simp only [hl]
  unfold getTradingDates at this; rw [this]
  apply List.filter_congr; intro x _
  have : (x ≤ (monthBounds today).2 - 1) = (x < (monthBounds today).2) := by
    apply propext; omega
  simp [this]

/-- within the kernel-checked civil range: every later day before `month_end` has the same month bounds
(so the cached month bucket is valid for the whole month) -/
theorem monthBounds_same_month (d : Nat) (hd : civilLo ≤ d) : ∀ (k : Nat), d + k < civilLo + civilN →
    d + k < (monthBounds d).2 → monthBounds (d + k) = monthBounds d
  | 0, _, _ => rfl
  | k + 1, hr, hlt => by
    have ih := monthBounds_same_month d hd k (by omega) (by omega)
    have hs := month_step (d + k) (by omega) (by omega)
    unfold monthStepOk at hs
    simp only [Bool.and_eq_true, Bool.or_eq_true, decide_eq_true_eq, beq_iff_eq] at hs
    rcases hs.2 with h | h
    · rw [← ih, ← h]; rfl
    · exfalso; rw [ih] at h; have := h.1; omega

/-! ### Day rules -/

/-- `run_weekly(weekday=w)` holds exactly on days whose weekday is `w − 1` (Monday = 0) -/
theorem weekly_weekday_iff (s : SchedDay) (w : Nat) :
    dayRuleHolds s (.weekday w) = true ↔ weekday s.today = w - 1 := by
  simp [dayRuleHolds]

/-- positive `n`: "today is the n-th element of the bucket"; never if the bucket is shorter -/
theorem isNth_pos (bucket : List Nat) (k : Nat) (hk : 0 < k) (today : Nat) :
    isNth bucket (normTradingDay (k : Int)) today = true ↔ bucket[k - 1]? = some today := by
  have h1 : normTradingDay (k : Int) = ((k - 1 : Nat) : Int) := by
    unfold normTradingDay; have : (k : Int) > 0 := by exact_mod_cast hk
    simp [this]; omega
  unfold isNth pyIndex; rw [h1]
  simp only [Int.natCast_nonneg, ge_iff_le, if_true, Int.toNat_natCast]
  cases bucket[k - 1]? with
  | none => simp
  | some x => simp

/-- negative `n`: "today is the |n|-th element from the end"; never if the bucket has fewer than |n| days -/
theorem isNth_neg (bucket : List Nat) (k : Nat) (hk : 0 < k) (today : Nat) :
    isNth bucket (normTradingDay (-(k : Int))) today = true ↔
      (k ≤ bucket.length ∧ bucket[bucket.length - k]? = some today) := by
  have h1 : normTradingDay (-(k : Int)) = -(k : Int) := by
    unfold normTradingDay; have : ¬ (-(k : Int) > 0) := by omega
    simp [this]
  have hneg : ¬ (-(k : Int) ≥ 0) := by omega
  unfold isNth pyIndex; rw [h1]
  simp only [hneg, if_false, Int.neg_neg, Int.toNat_natCast]
  by_cases hl : k ≤ bucket.length
  · simp only [hl, if_true, true_and]
    cases bucket[bucket.length - k]? with
    | none => simp
    | some x => simp
  · simp [hl]

/-- `run_weekly(tradingday=k)`, with the cached bucket equal to the week's filter: fires ⇔ today is the k-th
(k > 0) trading day of `calendar ∩ week(today)` -/
theorem weekly_nth_iff (cal : List Nat) (h : cal.Pairwise (· < ·)) (today : Nat) (k : Nat) (hk : 0 < k) :
    dayRuleHolds { today := today, thisWeek := fillWeek cal today, thisMonth := [] } (.weekNth (k : Int)) = true ↔
      (cal.filter (fun d => (weekBounds today).1 ≤ d && d ≤ (weekBounds today).2))[k - 1]? = some today := by
  simp only [dayRuleHolds]; rw [isNth_pos _ k hk, fillWeek_eq_filter cal h]

theorem weekly_nth_from_last_iff (cal : List Nat) (h : cal.Pairwise (· < ·)) (today : Nat) (k : Nat) (hk : 0 < k) :
    dayRuleHolds { today := today, thisWeek := fillWeek cal today, thisMonth := [] } (.weekNth (-(k : Int))) = true ↔
      (let b := cal.filter (fun d => (weekBounds today).1 ≤ d && d ≤ (weekBounds today).2)
       k ≤ b.length ∧ b[b.length - k]? = some today) := by
  simp only [dayRuleHolds]; rw [isNth_neg _ k hk, fillWeek_eq_filter cal h]

theorem monthly_nth_iff (cal : List Nat) (h : cal.Pairwise (· < ·)) (today : Nat) (hpos : 0 < (monthBounds today).2)
    (k : Nat) (hk : 0 < k) :
    dayRuleHolds { today := today, thisWeek := [], thisMonth := fillMonth cal today } (.monthNth (k : Int)) = true ↔
      (cal.filter (fun d => (monthBounds today).1 ≤ d && d < (monthBounds today).2))[k - 1]? = some today := by
  simp only [dayRuleHolds]; rw [isNth_pos _ k hk, fillMonth_eq_filter cal h today hpos]

theorem monthly_nth_from_last_iff (cal : List Nat) (h : cal.Pairwise (· < ·)) (today : Nat)
    (hpos : 0 < (monthBounds today).2) (k : Nat) (hk : 0 < k) :
    dayRuleHolds { today := today, thisWeek := [], thisMonth := fillMonth cal today } (.monthNth (-(k : Int))) = true ↔
      (let b := cal.filter (fun d => (monthBounds today).1 ≤ d && d < (monthBounds today).2)
       k ≤ b.length ∧ b[b.length - k]? = some today) := by
  simp only [dayRuleHolds]; rw [isNth_neg _ k hk, fillMonth_eq_filter cal h today hpos]

/-! ### The cache is transparent: on every day of a run the buckets are those of that day -/

/-- weekly bucket: if the cached bucket was filled on an earlier trading day `d0` and `today ≥ d0`, then after
`next_day_` the bucket is `fillWeek cal today` — independent of where the run started inside the week -/
theorem week_cache_transparent (cal : List Nat) (h : cal.Pairwise (· < ·)) (s : SchedDay) (d0 today : Nat)
    (h7 : 7 ≤ d0) (hd0 : d0 ∈ cal) (hle : d0 ≤ today) (hs : s.thisWeek = fillWeek cal d0) :
    (nextDay cal s today).thisWeek = fillWeek cal today := by
  cases hl : (fillWeek cal d0).getLast? with
  | none => simp [nextDay, hs, hl]
  | some l =>
    by_cases hgt : today > l
    · simp [nextDay, hs, hl, hgt]
    · -- today ≤ l, and l lies in the week of d0, so today lies in the week of d0
      have hlmem : l ∈ fillWeek cal d0 := List.mem_of_getLast? hl
      rw [fillWeek_eq_filter cal h] at hlmem
      have hlb := (List.mem_filter.mp hlmem).2
      simp only [Bool.and_eq_true, decide_eq_true_eq] at hlb
      have hw := weekBounds_spec d0 h7
      have hsame := weekBounds_same_week d0 today h7 (by omega) (by omega)
      have hfw : fillWeek cal today = fillWeek cal d0 := by unfold fillWeek; rw [hsame]
      simp [nextDay, hs, hl, hgt, hfw]

/-! ### Time rules -/

/-- daily frequency: a bar-time rule inside trading hours fires at the (single) bar of the day and not in the
before-trading slot; the `before_trading` rule fires in that slot only; a time outside trading hours never fires -/
theorem time_rule_daily (cfg : SchedCfg) (hf : cfg.freq1d = true) (n m : Nat) :
    dayFirings cfg true (.minute n) [m] =
      (false, if cfg.ranges.any (fun r => r.1 ≤ n && n ≤ r.2) then [m] else []) ∧
    dayFirings cfg true .beforeTrading [m] = (true, []) := by
  unfold dayFirings dayFirings.go dayFirings.go timeRuleHolds shouldTrigger
  simp only [hf]
  by_cases hr : cfg.ranges.any (fun r => r.1 ≤ n && n ≤ r.2) = true <;> simp [hr]

/-- nothing fires on a day whose day rule does not hold -/
theorem no_fire_without_day_rule (cfg : SchedCfg) (tr : TimeRule) : ∀ (bars : List Nat) (last : Nat),
    dayFirings.go cfg false tr last bars = []
  | [], _ => by simp [dayFirings.go]
  | m :: rest, last => by
    simp [dayFirings.go, no_fire_without_day_rule cfg tr rest m]

/-- minute frequency, core lemma: once the previous bar is at or past `n`, a non-decreasing bar sequence never
triggers `n` again -/
theorem go_after (cfg : SchedCfg) (hf : cfg.freq1d = false) (n : Nat) (hn : n ≠ 0) : ∀ (bars : List Nat) (last : Nat),
    n ≤ last → (bars.Pairwise (· < ·)) → (∀ b ∈ bars, last < b) →
    dayFirings.go cfg true (.minute n) last bars = []
  | [], _, _, _, _ => by simp [dayFirings.go]
  | m :: rest, last, hl, hp, hb => by
    have hm : last < m := hb m (by simp)
    have hp' := List.pairwise_cons.mp hp
    have ih := go_after cfg hf n hn rest m (by omega) hp'.2 (fun b hb' => hp'.1 b hb')
    have : ¬ (last < n) := by omega
    simp [dayFirings.go, timeRuleHolds, shouldTrigger, hf, hn, this, ih]

/-- **minute frequency**: with strictly increasing bar times, a time rule `n ≠ 0` inside trading hours and after the
day's start minute fires at exactly the first bar whose time is ≥ n — once, or never if no such bar exists -/
theorem fires_once_1m (cfg : SchedCfg) (hf : cfg.freq1d = false) (n : Nat) (hn : n ≠ 0)
    (hr : cfg.ranges.any (fun r => r.1 ≤ n && n ≤ r.2) = true) : ∀ (bars : List Nat) (last : Nat),
    last < n → bars.Pairwise (· < ·) → (∀ b ∈ bars, last < b) →
    dayFirings.go cfg true (.minute n) last bars = ((bars.filter (fun b => n ≤ b)).head?).toList
  | [], _, _, _, _ => by simp [dayFirings.go]
  | m :: rest, last, hl, hp, hb => by
    have hp' := List.pairwise_cons.mp hp
    by_cases hm : n ≤ m
    · have hafter := go_after cfg hf n hn rest m hm hp'.2 (fun b hb' => hp'.1 b hb')
      simp [dayFirings.go, timeRuleHolds, shouldTrigger, hf, hn, hr, hl, hm, hafter, List.filter_cons]
    · have ih := fires_once_1m cfg hf n hn hr rest m (by omega) hp'.2 (fun b hb' => hp'.1 b hb')
      simp [dayFirings.go, timeRuleHolds, shouldTrigger, hf, hn, hr, hm, ih, List.filter_cons]

/-- at most one firing per day per registered function (minute frequency, bar-time rule) -/
theorem at_most_once_per_day_1m (cfg : SchedCfg) (hf : cfg.freq1d = false) (n : Nat) (hn : n ≠ 0)
    (hr : cfg.ranges.any (fun r => r.1 ≤ n && n ≤ r.2) = true) (bars : List Nat)
    (hs : cfg.startMinute < n) (hp : bars.Pairwise (· < ·)) (hb : ∀ b ∈ bars, cfg.startMinute < b) :
    (dayFirings cfg true (.minute n) bars).1 = false ∧ (dayFirings cfg true (.minute n) bars).2.length ≤ 1 := by
  constructor
  · simp [dayFirings, timeRuleHolds, shouldTrigger]
  · simp only [dayFirings]
    rw [fires_once_1m cfg hf n hn hr bars cfg.startMinute hs hp hb]
    cases (bars.filter (fun b => n ≤ b)).head? <;> simp

/-- the `before_trading` rule never fires at a bar (any frequency) -/
theorem before_trading_rule_not_at_bars (cfg : SchedCfg) : ∀ (bars : List Nat) (last : Nat),
    dayFirings.go cfg true .beforeTrading last bars = []
  | [], _ => by simp [dayFirings.go]
  | m :: rest, last => by
    simp [dayFirings.go, timeRuleHolds, before_trading_rule_not_at_bars cfg rest m]

/-! ### Trading sessions after a universe change -/

theorem inRanges_append (a b : List (Nat × Nat)) (n : Nat) :
    inRanges (a ++ b) n = (inRanges a n || inRanges b n) := by
  simp [inRanges, List.any_append]

/-- **the stock session survives every universe change**: with a stock account configured, a minute of the stock baseline
session is a trading minute whatever instruments (futures with their own hours, ...) are subscribed -/
theorem stock_session_kept (hs : List (List (Nat × Nat))) (n : Nat) (h : inRanges stockBaseline n = true) :
    inRanges (universeRanges true hs) n = true := by
  simp [universeRanges, inRanges_append, h]

/-- the hours of every universe member count -/
theorem member_hours_count (b : Bool) (hs : List (List (Nat × Nat))) (h : List (Nat × Nat)) (hm : h ∈ hs) (n : Nat)
    (hn : inRanges h n = true) : inRanges (universeRanges b hs) n = true := by
  simp only [universeRanges, inRanges_append, Bool.or_eq_true]
  left
  simp only [inRanges, List.any_eq_true, List.mem_flatten] at *
  obtain ⟨r, hr, hrn⟩ := hn
  exact ⟨r, ⟨h, hm, hr⟩, hrn⟩

/-- and nothing else does: without a stock account a trading minute belongs to some member's hours; with one, to a
member's hours or the baseline -/
theorem ranges_exact (b : Bool) (hs : List (List (Nat × Nat))) (n : Nat) :
    inRanges (universeRanges b hs) n = true ↔ (∃ h ∈ hs, inRanges h n = true) ∨ (b = true ∧ inRanges stockBaseline n = true) := by
  simp only [universeRanges, inRanges_append, Bool.or_eq_true]
  constructor
  · rintro (h | h)
    · left
      simp only [inRanges, List.any_eq_true, List.mem_flatten] at *
      obtain ⟨r, ⟨l, hl, hr⟩, hrn⟩ := h
      exact ⟨l, hl, r, hr, hrn⟩
    · right
      cases b
      · simp [inRanges] at h
      · exact ⟨rfl, by simpa using h⟩
  · rintro (⟨l, hl, h⟩ | ⟨hb, h⟩)
    · left
      simp only [inRanges, List.any_eq_true, List.mem_flatten] at *
      obtain ⟨r, hr, hrn⟩ := h
      exact ⟨r, ⟨l, hl, hr⟩, hrn⟩
    · right; subst hb; simpa using h

/-- daily frequency: at the bar a time rule holds exactly when its minute lies in the current ranges; so a rule inside the
stock session fires on every day its day rule holds, whatever was subscribed -/
theorem daily_bar_rule_iff_in_ranges (cfg : SchedCfg) (c : SchedClock) (n : Nat) (h1 : cfg.freq1d = true) (hbt : c.stageBT = false) :
    shouldTrigger cfg c n = inRanges cfg.ranges n := by
  unfold shouldTrigger inRanges
  cases h : cfg.ranges.any (fun r => r.1 ≤ n && n ≤ r.2) <;> simp [h1, hbt]

theorem daily_stock_session_rule_fires (hs : List (List (Nat × Nat))) (start n : Nat) (c : SchedClock) (hbt : c.stageBT = false)
    (h : inRanges stockBaseline n = true) :
    shouldTrigger { freq1d := true, ranges := universeRanges true hs, startMinute := start } c n = true := by
  rw [daily_bar_rule_iff_in_ranges _ _ _ rfl hbt]
  exact stock_session_kept hs n h

/-- `_start_minute` never decreases at a universe change -/
theorem start_minute_monotone (start0 : Nat) (hs : List (List (Nat × Nat))) : start0 ≤ universeStartMinute start0 hs := by
  unfold universeStartMinute
  induction hs generalizing start0 with
  | nil => simp
  | cons h t ih =>
    simp only [List.foldl_cons]
    cases h with
    | nil => exact ih start0
    | cons r _ => exact Nat.le_trans (Nat.le_max_right _ _) (ih _)

/-- non-vacuity: a future trading 09:01-10:15, 10:31-11:30, 13:31-15:00 subscribed next to a stock account: 10:20 (in the
future's break, inside the stock session) and 09:10 (before the stock session, inside the future's) are both trading minutes;
12:00 is not -/
example : let rs := universeRanges true [[(541, 615), (631, 690), (811, 900)]]
    inRanges rs 620 = true ∧ inRanges rs 550 = true ∧ inRanges rs 720 = false ∧
    inRanges (universeRanges false [[(541, 615), (631, 690), (811, 900)]]) 620 = false := by decide

/-! ### Phases of scheduled functions (regenerated from the source) -/

/-- functions with the `before_trading` rule run in phase BEFORE_TRADING (where order APIs are refused, C08),
bar-time functions in phase SCHEDULED -/
theorem scheduled_phases :
    RQ.Gen.schedPhaseBeforeTrading = some "BEFORE_TRADING" ∧ RQ.Gen.schedPhaseBar = some "SCHEDULED" := by
  decide

/-- the accepted argument ranges as they stand in the source -/
theorem argument_ranges :
    RQ.Gen.schedWeekdayRange = some (1, 7) ∧ RQ.Gen.schedWeekNthRange = some (-5, 5) ∧
    RQ.Gen.schedMonthNthRange = some (-23, 23) := by
  decide

/-- and the model's validity predicate is exactly those ranges without 0 -/
theorem valid_iff (r : DayRule) : r.valid = true ↔ match r with
    | .daily => True
    | .weekday w => 1 ≤ w ∧ w ≤ 7
    | .weekNth k => -5 ≤ k ∧ k ≤ 5 ∧ k ≠ 0
    | .monthNth k => -23 ≤ k ∧ k ≤ 23 ∧ k ≠ 0 := by
  cases r <;> simp [DayRule.valid] <;> omega

/-- non-vacuity: week of 2020-01-01 (Wednesday, ordinal 737425) in a calendar where Monday 2019-12-30 is a holiday -/
example : fillWeek [737421, 737424, 737425, 737426, 737427, 737430] 737425 = [737424, 737425, 737426, 737427] ∧
    isNth [737424, 737425, 737426, 737427] (normTradingDay 2) 737425 = true ∧
    isNth [737424, 737425, 737426, 737427] (normTradingDay (-3)) 737425 = true ∧
    isNth [737424, 737425, 737426, 737427] (normTradingDay 5) 737425 = false := by decide

end RQ.Props.C17

/-
C08 — Trading-day lifecycle and clocks: each phase once, in order, settled once.
Theorems over `RQ/Model/Executor.lean` and the tables regenerated from executor.py, strategy.py and the API modules.
-/
import RQ.Model.Executor
import RQ.Gen.Tables
import RQ.Lemmas.Sorted
import Mathlib.Tactic.Linarith
import RQ.Lemmas.WorldF
import RQ.Lemmas.WorldI

namespace RQ.Props.C08
open RQ.Q

/-! ### Specification of the published sequence -/

def split3 (k : EvKind) (c t : Nat) : List Pub := [⟨k, .pre, c, t⟩, ⟨k, .main, c, t⟩, ⟨k, .post, c, t⟩]

/-- one trading day at frequency '1d': before_trading, open_auction (00:00), the bar (15:00), after_trading (15:30),
then settlement (clocks still at 15:30) -/
def specDay1d (d : Nat) : List Pub :=
  split3 .bt (mkTime d 0) (mkTime d 0) ++ split3 .auc (mkTime d 0) (mkTime d 0) ++
  split3 .bar (mkTime d 900) (mkTime d 900) ++ split3 .at_ (mkTime d 930) (mkTime d 930) ++
  split3 .st (mkTime d 930) (mkTime d 930)

def spec1d (days : List Nat) : List Pub := days.flatMap specDay1d

/-- consecutive days of the run are consecutive trading days of the calendar -/
def PrevLinked (cal : List Nat) : List Nat → Prop
  | [] => True
  | [_] => True
  | a :: b :: rest => prevTradingDate cal b 1 = some a ∧ PrevLinked cal (b :: rest)

theorem dayOf_mkTime (d m : Nat) (h : m < 1440) : dayOf (mkTime d m) = d := by
  unfold dayOf mkTime; omega

theorem execFrom_append (cal : List Nat) (s : ExecState) (a b : List Src) :
    execFrom cal s (a ++ b) =
      ((execFrom cal (execFrom cal s a).1 b).1, (execFrom cal s a).2 ++ (execFrom cal (execFrom cal s a).1 b).2) := by
  induction a generalizing s with
  | nil => simp [execFrom]
  | cons e es ih => simp [execFrom, ih, List.append_assoc]

/-- first day of a run: no settlement before it -/
theorem first_day_run (cal : List Nat) (d c t : Nat) :
    execFrom cal ⟨none, c, t⟩ (sourceDay1d d) =
      (⟨some d, mkTime d 930, mkTime d 930⟩,
       split3 .bt (mkTime d 0) (mkTime d 0) ++ split3 .auc (mkTime d 0) (mkTime d 0) ++
       split3 .bar (mkTime d 900) (mkTime d 900) ++ split3 .at_ (mkTime d 930) (mkTime d 930)) := by
  have h0 := dayOf_mkTime d 0 (by omega)
  have h900 := dayOf_mkTime d 900 (by omega)
  simp [sourceDay1d, execFrom, execStep, ensureBT, splitPublish, split3, h0, h900]

/-- a later day: the previous day is settled first, with the clocks still at its after_trading time -/
theorem next_day_run (cal : List Nat) (p d : Nat) (hne : p ≠ d) (hprev : prevTradingDate cal d 1 = some p) :
    execFrom cal ⟨some p, mkTime p 930, mkTime p 930⟩ (sourceDay1d d) =
      (⟨some d, mkTime d 930, mkTime d 930⟩,
       split3 .st (mkTime p 930) (mkTime p 930) ++
       split3 .bt (mkTime d 0) (mkTime d 0) ++ split3 .auc (mkTime d 0) (mkTime d 0) ++
       split3 .bar (mkTime d 900) (mkTime d 900) ++ split3 .at_ (mkTime d 930) (mkTime d 930)) := by
  have h0 := dayOf_mkTime d 0 (by omega)
  have h900 := dayOf_mkTime d 900 (by omega)
  have hp := dayOf_mkTime p 930 (by omega)
  have hne' : ¬ (some p = some d) := by intro h; exact hne (Option.some.inj h)
  simp [sourceDay1d, execFrom, execStep, ensureBT, splitPublish, split3, h0, h900, hp, hne', hprev]

/-- running the remaining days after day `p` -/
theorem run_rest (cal : List Nat) : ∀ (days : List Nat) (p : Nat), (∀ d ∈ days, p ≠ d) → days.Pairwise (· ≠ ·) →
    PrevLinked cal (p :: days) →
    let r := execFrom cal ⟨some p, mkTime p 930, mkTime p 930⟩ (source1d days)
    r.2 ++ split3 .st r.1.envCal r.1.envTrd = split3 .st (mkTime p 930) (mkTime p 930) ++ spec1d days ∧
    r.1.envTrd = mkTime ((p :: days).getLast (by simp)) 930
  | [], p, _, _, _ => by simp [source1d, execFrom, spec1d]
  | d :: ds, p, hp, hnd, hl => by
    have hnd' := List.pairwise_cons.mp hnd
    have hpd : p ≠ d := hp d (by simp)
    have hl' : prevTradingDate cal d 1 = some p ∧ PrevLinked cal (d :: ds) := hl
    have ih := run_rest cal ds d (fun x hx => hnd'.1 x hx) hnd'.2 hl'.2
    simp only [source1d, List.flatMap_cons] at *
    rw [execFrom_append, next_day_run cal p d hpd hl'.1]
    simp only [spec1d, List.flatMap_cons, specDay1d] at *
    obtain ⟨ih1, ih2⟩ := ih
    constructor
    · simp only [List.append_assoc] at *
      rw [ih1]
    · rw [ih2]; simp [List.getLast_cons]

/-- **C08.1 (frequency '1d')** for every list of distinct days that are consecutive trading days of the calendar, the
executor fed by the daily event source publishes exactly the specified sequence: per day the PRE/main/POST groups of
before_trading, open_auction, bar, after_trading and then settlement — one settlement between consecutive days and
one after the last day (the run's end date is the last day, see `adjust_range_snaps`) -/
theorem published_eq_spec_1d (cal : List Nat) (d : Nat) (ds : List Nat) (hnd : (d :: ds).Pairwise (· ≠ ·))
    (hl : PrevLinked cal (d :: ds)) (startDay : Nat) :
    execRun cal startDay ((d :: ds).getLast (by simp)) (source1d (d :: ds)) = spec1d (d :: ds) := by
  have hnd' := List.pairwise_cons.mp hnd
  have hrest := run_rest cal ds d (fun x hx => hnd'.1 x hx) hnd'.2 hl
  unfold execRun
  simp only [source1d, List.flatMap_cons] at *
  rw [execFrom_append, first_day_run]
  obtain ⟨h1, h2⟩ := hrest
  simp only [] at h1 h2 ⊢
  rw [h2, dayOf_mkTime _ 930 (by omega)]
  simp only [if_true, splitPublish]
  have h1' := h1
  simp only [split3] at h1' ⊢
  simp only [spec1d, List.flatMap_cons, specDay1d, split3, List.append_assoc] at *
  rw [show ∀ (a b c : List Pub), a ++ (b ++ c) = a ++ b ++ c from fun a b c => (List.append_assoc a b c).symm] at *
  simp only [List.append_assoc] at *
  rw [← h2] at *
  simp_all

/-! ### `_adjust_start_date` snaps both ends of the range to trading days -/

theorem adjust_range_snaps (cal : List Nat) (ds de s e a b : Nat)
    (h : adjustRange cal ds de s e = some (a, b)) :
    (getTradingDates cal (max ds s) (min de e)).head? = some a ∧
    (getTradingDates cal (max ds s) (min de e)).getLast? = some b := by
  unfold adjustRange at h
  simp only at h
  cases hh : (getTradingDates cal (max ds s) (min de e)).head? with
  | none => simp [hh] at h
  | some x =>
    cases hg : (getTradingDates cal (max ds s) (min de e)).getLast? with
    | none => simp [hh, hg] at h
    | some y => simp [hh, hg] at h; exact ⟨by rw [h.1], by rw [h.2]⟩

/-! ### Frequency '1m': universe changes never duplicate, drop or reorder a bar -/

def barEv (day m : Nat) : Src := ⟨.bar, mkTime day m, mkTime day m⟩

/-- a pass entered after a restart (or after the first bar): no before-trading pending, flag clear, resume point `l` -/
theorem pass_resume (day : Nat) (script : Src → Bool) : ∀ (mins : List Nat) (l : Nat), mins.Pairwise (· < ·) →
    ∀ (chg : Bool), ∃ (k : Nat),
      (pass1m day script mins (some l) false chg).1 = ((mins.filter (fun m => l ≤ m)).take k).map (barEv day) ∧
      ((pass1m day script mins (some l) false chg).2.1 = none ∧ k = (mins.filter (fun m => l ≤ m)).length ∨
       ∃ l', (pass1m day script mins (some l) false chg).2.1 = some l' ∧ (mins.filter (fun m => l ≤ m))[k]? = some l' ∧
             (pass1m day script mins (some l) false chg).2.2.1 = false ∧
             (pass1m day script mins (some l) false chg).2.2.2 = false)
  | [], l, _, chg => ⟨0, by simp [pass1m]⟩
  | m :: rest, l, hs, chg => by
    have hs' := List.pairwise_cons.mp hs
    by_cases hlt : m < l
    · obtain ⟨k, h1, h2⟩ := pass_resume day script rest l hs'.2 chg
      have : ¬ l ≤ m := by omega
      refine ⟨k, ?_, ?_⟩ <;> simp only [pass1m, hlt, decide_true, if_true, List.filter_cons, this, decide_false]
      · simpa using h1
      · simpa using h2
    · have hle : l ≤ m := by omega
      by_cases hc : chg = true
      · refine ⟨0, ?_, Or.inr ⟨m, ?_⟩⟩ <;>
          simp [pass1m, hlt, hc, List.filter_cons, hle]
      · have hcf : chg = false := by simpa using hc
        obtain ⟨k, h1, h2⟩ := pass_resume day script rest l hs'.2 (script (barEv day m))
        refine ⟨k + 1, ?_, ?_⟩
        · simp only [pass1m, hlt, decide_false, hcf, List.filter_cons, hle, decide_true, if_true, List.take_succ_cons,
            List.map_cons]
          simp only [barEv] at h1 ⊢
          simp [h1]
        · simp only [pass1m, hlt, decide_false, hcf, List.filter_cons, hle, decide_true, if_true]
          simp only [barEv] at h2
          rcases h2 with ⟨ha, hb⟩ | ⟨l', ha, hb, hc1, hc2⟩
          · left; simp [ha, hb]
          · right; exact ⟨l', by simp [ha], by simpa using hb, by simp [hc1], by simp [hc2]⟩

/-- progress: a pass entered with the flag clear emits at least one bar before it can break off -/
theorem pass_progress (day : Nat) (script : Src → Bool) : ∀ (mins : List Nat) (l : Nat),
    ∀ l', (pass1m day script mins (some l) false false).2.1 = some l' →
      (pass1m day script mins (some l) false false).1 ≠ []
  | [], l, l', h => by simp [pass1m] at h
  | m :: rest, l, l', h => by
    by_cases hlt : m < l
    · have := pass_progress day script rest l l'
      simp only [pass1m, hlt, decide_true, if_true] at h ⊢
      exact this h
    · simp [pass1m, hlt]

open RQ.Lemmas in
/-- for a strictly increasing list, the elements `≥ filt[k]` are exactly `filt.drop k` -/
theorem filter_ge_getElem (l : List Nat) (hs : l.Pairwise (· < ·)) (k x : Nat) (hk : l[k]? = some x) :
    l.filter (fun m => x ≤ m) = l.drop k := by
  have hlt : k < l.length := by
    rcases Nat.lt_or_ge k l.length with h | h
    · exact h
    · simp [List.getElem?_eq_none h] at hk
  have hx : l[k] = x := by simpa [List.getElem?_eq_getElem hlt] using hk
  have h1 := drop_ssLeft id l (by simpa [SortedBy] using hs) x
  simp only [List.map_id, id] at h1
  rw [← h1, ← hx, ssLeft_getElem l hs k hlt]

/-- the `while` loop entered at resume point `l` with the flag clear delivers every remaining bar exactly once, in
order, whatever the script does — provided enough fuel (the loop terminates) -/
theorem loop_resume (day : Nat) (script : Src → Bool) (mins : List Nat) (hs : mins.Pairwise (· < ·)) :
    ∀ (fuel l : Nat), (mins.filter (fun m => l ≤ m)).length < fuel →
      (loop1m day script mins fuel (some l) false false).1 = (mins.filter (fun m => l ≤ m)).map (barEv day)
  | 0, l, h => by omega
  | fuel + 1, l, h => by
    obtain ⟨k, h1, h2⟩ := pass_resume day script mins l hs false
    simp only [loop1m]
    rcases h2 with ⟨ha, hb⟩ | ⟨l', ha, hb, hc1, hc2⟩
    · simp only [ha]; rw [h1, hb, List.take_length]
    · simp only [ha, hc1, hc2]
      have hprog := pass_progress day script mins l l' ha
      have hk : 0 < k := by
        rcases Nat.eq_zero_or_pos k with h0 | h0
        · rw [h1, h0] at hprog; simp at hprog
        · exact h0
      have hfs : (mins.filter (fun m => l ≤ m)).Pairwise (· < ·) := hs.filter _
      have hle : l ≤ l' := by
        have : l' ∈ mins.filter (fun m => l ≤ m) := List.mem_of_getElem? hb
        simpa using (List.mem_filter.mp this).2
      have hff : mins.filter (fun m => l' ≤ m) = (mins.filter (fun m => l ≤ m)).filter (fun m => l' ≤ m) := by
        rw [List.filter_filter]; apply List.filter_congr; intro x _; simp; omega
      have hdrop := filter_ge_getElem _ hfs k l' hb
      have hklt : k < (mins.filter (fun m => l ≤ m)).length := by
        rcases Nat.lt_or_ge k (mins.filter (fun m => l ≤ m)).length with h' | h'
        · exact h'
        · simp [List.getElem?_eq_none h'] at hb
      have hlen : (mins.filter (fun m => l' ≤ m)).length < fuel := by
        rw [hff, hdrop, List.length_drop]; omega
      rw [loop_resume day script mins hs fuel l' hlen, h1, hff, hdrop, ← List.map_append, List.take_append_drop]

/-- entry with the flag set (`chg = true`): one extra restart -/
theorem loop_resume_any (day : Nat) (script : Src → Bool) (mins : List Nat) (hs : mins.Pairwise (· < ·))
    (fuel l : Nat) (chg : Bool) (h : (mins.filter (fun m => l ≤ m)).length + 1 < fuel) :
    (loop1m day script mins fuel (some l) false chg).1 = (mins.filter (fun m => l ≤ m)).map (barEv day) := by
  cases chg with
  | false => exact loop_resume day script mins hs fuel l (by omega)
  | true =>
    obtain ⟨k, h1, h2⟩ := pass_resume day script mins l hs true
    cases fuel with
    | zero => omega
    | succ fuel =>
      simp only [loop1m]
      rcases h2 with ⟨ha, hb⟩ | ⟨l', ha, hb, hc1, hc2⟩
      · simp only [ha]; rw [h1, hb, List.take_length]
      · simp only [ha, hc1, hc2]
        have hfs : (mins.filter (fun m => l ≤ m)).Pairwise (· < ·) := hs.filter _
        have hle : l ≤ l' := by
          have : l' ∈ mins.filter (fun m => l ≤ m) := List.mem_of_getElem? hb
          simpa using (List.mem_filter.mp this).2
        have hff : mins.filter (fun m => l' ≤ m) = (mins.filter (fun m => l ≤ m)).filter (fun m => l' ≤ m) := by
          rw [List.filter_filter]; apply List.filter_congr; intro x _; simp; omega
        have hdrop := filter_ge_getElem _ hfs k l' hb
        have hklt : k < (mins.filter (fun m => l ≤ m)).length := by
          rcases Nat.lt_or_ge k (mins.filter (fun m => l ≤ m)).length with h' | h'
          · exact h'
          · simp [List.getElem?_eq_none h'] at hb
        have hlen : (mins.filter (fun m => l' ≤ m)).length < fuel := by
          rw [hff, hdrop, List.length_drop]; omega
        rw [loop_resume day script mins hs fuel l' hlen, h1, hff, hdrop, ← List.map_append, List.take_append_drop]

theorem loop1m_succ (day : Nat) (script : Src → Bool) (mins : List Nat) (fuel : Nat) (last : Option Nat) (bt chg : Bool) :
    loop1m day script mins (fuel + 1) last bt chg =
      (match (pass1m day script mins last bt chg).2.1 with
       | none => ((pass1m day script mins last bt chg).1, (pass1m day script mins last bt chg).2.2.2)
       | some l =>
         ((pass1m day script mins last bt chg).1 ++
            (loop1m day script mins fuel (some l) (pass1m day script mins last bt chg).2.2.1
              (pass1m day script mins last bt chg).2.2.2).1,
          (loop1m day script mins fuel (some l) (pass1m day script mins last bt chg).2.2.1
              (pass1m day script mins last bt chg).2.2.2).2)) := by
  simp only [loop1m]; split <;> simp_all

theorem pass_none_eq (day : Nat) (script : Src → Bool) : ∀ (mins : List Nat) (bt chg : Bool),
    pass1m day script mins none bt chg = pass1m day script mins (some 0) bt chg
  | [], bt, chg => by simp [pass1m]
  | m :: rest, bt, chg => by
    simp only [pass1m, Nat.not_lt_zero, decide_false, Bool.false_eq_true, if_false]
    rw [pass_none_eq day script rest false (script ⟨.bar, mkTime day m, mkTime day m⟩)]

/-- specification of one day at frequency '1m' (day session): before_trading 30 minutes and open_auction 3 minutes
before the first bar, every trading minute once in increasing order, after_trading at 15:30 -/
def specSrcDay1m (mins : List Nat) (day : Nat) : List Src :=
  match mins with
  | [] => [⟨.at_, mkTime day 930, mkTime day 930⟩]
  | m0 :: _ =>
    [⟨.bt, mkTime day m0 - 30, mkTime day m0 - 30⟩, ⟨.auc, mkTime day m0 - 3, mkTime day m0 - 3⟩] ++
    mins.map (barEv day) ++ [⟨.at_, mkTime day 930, mkTime day 930⟩]

/-- **C08.2 (frequency '1m')** for every script of universe changes (at any event of any day) and whatever flag is
carried over from the previous day, the event source yields each trading minute exactly once, in strictly increasing
order, preceded by one before_trading and one open_auction and followed by one after_trading -/
theorem source_day_1m_eq_spec (script : Src → Bool) (mins : List Nat) (hs : mins.Pairwise (· < ·)) (day : Nat)
    (chg : Bool) : (sourceDay1m script mins day chg).1 = specSrcDay1m mins day := by
  cases mins with
  | nil => simp [sourceDay1m, loop1m, pass1m, specSrcDay1m]
  | cons m0 rest =>
    have hs' := List.pairwise_cons.mp hs
    have hall : (m0 :: rest).filter (fun m => m0 ≤ m) = m0 :: rest := by
      apply List.filter_eq_self.mpr; intro x hx
      rcases List.mem_cons.mp hx with rfl | h
      · simp
      · have := hs'.1 x h; simp; omega
    simp only [sourceDay1m, specSrcDay1m, List.length_cons]
    rw [loop1m_succ, pass_none_eq]
    simp only [pass1m, Nat.not_lt_zero, decide_false, Bool.false_eq_true, if_false, if_true]
    generalize hc1 : ((chg || script ⟨.bt, mkTime day m0 - 30, mkTime day m0 - 30⟩) ||
      script ⟨.auc, mkTime day m0 - 3, mkTime day m0 - 3⟩) = c1
    cases c1 with
    | true =>
      simp only [if_true]
      have := loop_resume day script (m0 :: rest) hs (rest.length + 2) m0 (by rw [hall]; simp)
      rw [this, hall]
    | false =>
      simp only [Bool.false_eq_true, if_false]
      obtain ⟨k, h1, h2⟩ := pass_resume day script rest 0 hs'.2 (script ⟨.bar, mkTime day m0, mkTime day m0⟩)
      have hf0 : rest.filter (fun m => 0 ≤ m) = rest := by
        apply List.filter_eq_self.mpr; intro x _; simp
      rw [hf0] at h1 h2
      rcases h2 with ⟨ha, hb⟩ | ⟨l', ha, hb, hc1', hc2'⟩
      · simp only [ha]; rw [h1, hb, List.take_length]; simp [barEv]
      · simp only [ha, hc1', hc2']
        have hl'mem : l' ∈ rest := List.mem_of_getElem? hb
        have hm0 : m0 < l' := hs'.1 l' hl'mem
        have hff : (m0 :: rest).filter (fun m => l' ≤ m) = rest.filter (fun m => l' ≤ m) := by
          have : ¬ l' ≤ m0 := by omega
          simp [List.filter_cons, this]
        have hdrop := filter_ge_getElem rest hs'.2 k l' hb
        have hlen : ((m0 :: rest).filter (fun m => l' ≤ m)).length < rest.length + 2 := by
          rw [hff, hdrop, List.length_drop]; omega
        rw [loop_resume day script (m0 :: rest) hs _ l' hlen, h1, hff, hdrop]
        simp [barEv, ← List.map_append, List.take_append_drop]

/-- bars of a '1m' day are strictly increasing in time -/
theorem bars_strictly_increasing_1m (mins : List Nat) (hs : mins.Pairwise (· < ·)) (day : Nat) :
    ((mins.map (barEv day)).map (·.cal)).Pairwise (· < ·) := by
  simp only [List.map_map]
  rw [List.pairwise_map]
  exact hs.imp (fun {a b} h => by simp [barEv, mkTime]; omega)

/-! ### Clocks never move backwards -/

theorem clocks_monotone_day_1d (d : Nat) :
    ((specDay1d d).map (·.cal)).Pairwise (· ≤ ·) ∧ ((specDay1d d).map (·.trd)).Pairwise (· ≤ ·) := by
  simp [specDay1d, split3, mkTime]

/-- across days: every clock value of day `a` is below every clock value of a later day `b` -/
theorem clocks_monotone_across_days (a b : Nat) (h : a < b) :
    ∀ x ∈ specDay1d a, ∀ y ∈ specDay1d b, x.cal ≤ y.cal ∧ x.trd ≤ y.trd := by
  intro x hx y hy
  simp only [specDay1d, split3, List.mem_append, List.mem_cons, List.mem_nil_iff, or_false] at hx hy
  rcases hx with ((((hx | hx | hx) | (hx | hx | hx)) | (hx | hx | hx)) | (hx | hx | hx)) | (hx | hx | hx) <;>
  rcases hy with ((((hy | hy | hy) | (hy | hy | hy)) | (hy | hy | hy)) | (hy | hy | hy)) | (hy | hy | hy) <;>
  subst hx <;> subst hy <;> simp [mkTime] <;> omega

/-! ### Tables regenerated from the source -/

/-- every event kind is split into (PRE_x, x, POST_x), in that order -/
theorem event_split_brackets :
    RQ.Gen.eventSplitMap.all (fun (k, parts) => parts == ["PRE_" ++ k, k, "POST_" ++ k]) = true ∧
    (["BEFORE_TRADING", "OPEN_AUCTION", "BAR", "AFTER_TRADING", "SETTLEMENT"].all
      (fun k => (RQ.Gen.eventSplitMap.map (·.1)).contains k)) = true := by
  decide

/-- phase in which each strategy callback runs -/
theorem callback_phases :
    RQ.Gen.callbackPhase = [("init", some "ON_INIT"), ("before_trading", some "BEFORE_TRADING"),
      ("open_auction", some "OPEN_AUCTION"), ("handle_bar", some "ON_BAR"), ("handle_tick", some "ON_TICK"),
      ("after_trading", some "AFTER_TRADING"), ("wrap_user_event_handler", some "GLOBAL")] := by
  decide

/-- `allowed api phase` according to the regenerated decorator table; an API without decorator is allowed everywhere;
an API that is not exported at all is not callable (`false`) -/
def allowed (api phase : String) : Bool :=
  match RQ.Gen.apiPhaseTable.find? (fun r => r.1 == api) with
  | none => false
  | some (_, none) => true
  | some (_, some phases) => phases.contains phase

def orderPlacingApis : List String :=
  ["order_shares", "order_lots", "order_value", "order_percent", "order_target_value", "order_target_percent",
   "order_target_portfolio", "buy_open", "sell_open", "buy_close", "sell_close", "order", "order_to", "submit_order"]

/-- **C08.5** every order-placing API exists and is refused during init, before_trading and after_trading -/
theorem order_apis_refused_outside_trading :
    orderPlacingApis.all (fun api =>
      (RQ.Gen.apiPhaseTable.map (·.1)).contains api &&
      ["ON_INIT", "BEFORE_TRADING", "AFTER_TRADING"].all (fun ph => !allowed api ph)) = true := by
  decide +kernel

/-- ... and allowed in the auction, in bars and in scheduled bar-time functions -/
theorem order_apis_allowed_when_trading :
    orderPlacingApis.all (fun api =>
      ["OPEN_AUCTION", "ON_BAR", "SCHEDULED"].all (fun ph => allowed api ph)) = true := by
  decide +kernel


/-! ### the day structure inside the composed world (`RQ/Model/World.lean`) -/

/-- **what the lifecycle buys the trading core**: feed the composed world the events of ANY number of trading days in the order this
file proves the executor publishes them (before_trading, open_auction, bar, after_trading, settlement — each once, in order), with ANY
calls of the strategy inside its two callbacks (the API × phase table refuses them elsewhere), on any market.  Then every
PRE_BEFORE_TRADING (corporate actions) and every SETTLEMENT (delisting, expiry, forced liquidation) meets EMPTY order books, and every
day ends with empty books: no order ever survives the day it was placed on.  (The correspondence "inputs follow the executor's day
structure" checks on every run that the real system's inputs have exactly this shape.) -/
theorem world_day_structure_keeps_books_quiet (w : World) (days : List RQ.Lemmas.WorldF.Day)
    (hc : ∀ d ∈ days, d.CallsOnly) (ho : w.openOrders = []) (ha : w.auctionOrders = []) :
    RQ.Lemmas.WorldF.RunQuiet w (days.flatMap RQ.Lemmas.WorldF.Day.inputs) ∧
    (w.run (days.flatMap RQ.Lemmas.WorldF.Day.inputs)).1.openOrders = [] ∧
    (w.run (days.flatMap RQ.Lemmas.WorldF.Day.inputs)).1.auctionOrders = [] :=
  RQ.Lemmas.WorldF.days_quiet w days hc ho ha


/-- **the capstone: C08 ⇒ C09 ∧ C10 for every daily back-test of the composed system.**  A well-formed start (empty books, nothing
reserved, position validators on), any number of trading days in the executor's order, any market with positive split ratios, any calls of
the strategy inside its two callbacks with positive order quantities and pairwise different order ids.  Then after EVERY prefix of the run
(every observation point) no position quantity is negative, resting closes are within the holdings, and every account's reserved cash is
what its resting orders still hold.  All hypotheses are about the start state, the market tables and the submitted orders only. -/
theorem world_daily_backtest_invariants (w : World) (days : List RQ.Lemmas.WorldF.Day) (hc : ∀ d ∈ days, d.CallsOnly)
    (ho : w.openOrders = []) (ha : w.auctionOrders = [])
    (hf : ∀ (k : Nat) (a : Acct), w.pf.accounts[k]? = some a → a.frozen = 0)
    (hv : RQ.Lemmas.WorldE.ValidatorsOn w) (hwf : RQ.Lemmas.WorldE.HoldingsWF w) (hinv : RQ.Lemmas.WorldE.CloseInv w)
    (hi : ∀ i ∈ days.flatMap RQ.Lemmas.WorldF.Day.inputs, RQ.Lemmas.WorldC.InputOk i)
    (hids : (RQ.Lemmas.WorldC.submittedIds (days.flatMap RQ.Lemmas.WorldF.Day.inputs)).Nodup)
    (hs : RQ.Lemmas.WorldI.SplitsPositive (days.flatMap RQ.Lemmas.WorldF.Day.inputs))
    (pre post : List WIn) (hsplit : days.flatMap RQ.Lemmas.WorldF.Day.inputs = pre ++ post) :
    (∀ (k : Nat) (a : Acct), (w.run pre).1.pf.accounts[k]? = some a → ∀ h ∈ a.holdings, 0 ≤ h.long.qty ∧ 0 ≤ h.short.qty) ∧
    RQ.Lemmas.WorldE.CloseInv (w.run pre).1 ∧ RQ.Lemmas.WorldC.ReserveInv (w.run pre).1 :=
  RQ.Lemmas.WorldI.daily_backtest_invariants_prefix w days hc ho ha hf hv hwf hinv hi hids hs pre post hsplit


/-! ### the executor model produces the day structure the world theorems assume -/

/-- the system-side world input a published event stands for: PRE_BEFORE_TRADING → P (portfolio latch, accounts' morning), BEFORE_TRADING → B (broker),
OPEN_AUCTION → A, BAR → R, AFTER_TRADING → T, SETTLEMENT → S; the other PRE_/POST_ brackets trigger nothing in the trading core -/
inductive Skel | P | B | A | R | T | S
deriving DecidableEq, Repr

def skelOf (p : Pub) : Option Skel :=
  match p.kind, p.part with
  | .bt, .pre => some .P
  | .bt, .main => some .B
  | .auc, .main => some .A
  | .bar, .main => some .R
  | .at_, .main => some .T
  | .st, .main => some .S
  | _, _ => none

theorem specDay_skeleton (d : Nat) : (specDay1d d).filterMap skelOf = [.P, .B, .A, .R, .T, .S] := by
  unfold specDay1d split3
  rfl

/-- **the executor model publishes exactly the day structure**: for every list of distinct consecutive trading days, what `Executor.run` (model
`execRun` fed by the daily event source) publishes is, on the system side, the word (P B A R T S) once per day — the shape of
`RQ.Lemmas.WorldF.Day.inputs` with the strategy's calls left out, i.e. the hypothesis of `world_day_structure_keeps_books_quiet` and of the
capstone `world_daily_backtest_invariants` -/
theorem executor_publishes_the_day_structure (cal : List Nat) (d : Nat) (ds : List Nat) (hnd : (d :: ds).Pairwise (· ≠ ·))
    (hl : PrevLinked cal (d :: ds)) (startDay : Nat) :
    (execRun cal startDay ((d :: ds).getLast (by simp)) (source1d (d :: ds))).filterMap skelOf =
      (d :: ds).flatMap (fun _ => [Skel.P, .B, .A, .R, .T, .S]) := by
  rw [published_eq_spec_1d cal d ds hnd hl startDay]
  unfold spec1d
  generalize (d :: ds) = l
  induction l with
  | nil => rfl
  | cons x xs ih =>
    simp only [List.flatMap_cons, List.filterMap_append, specDay_skeleton, ih]

/-- the system-side skeleton of a world day (`Day.inputs` without the strategy's calls) is the same word -/
def skelOfIn : WIn → Option Skel
  | .preBeforeTrading _ _ _ => some .P
  | .beforeTrading => some .B
  | .openAuction => some .A
  | .bar => some .R
  | .afterTrading => some .T
  | .settlement => some .S
  | _ => none

theorem day_inputs_skeleton (d : RQ.Lemmas.WorldF.Day) (hc : d.CallsOnly) :
    d.inputs.filterMap skelOfIn = [.P, .B, .A, .R, .T, .S] := by
  have hcalls : ∀ l : List WIn, (∀ i ∈ l, RQ.Lemmas.WorldF.IsCall i) → l.filterMap skelOfIn = [] := by
    intro l hl
    induction l with
    | nil => rfl
    | cons i rest ih =>
      have hi := hl i (by simp)
      have hr := ih (fun j hj => hl j (by simp [hj]))
      cases i <;> simp_all [skelOfIn, RQ.Lemmas.WorldF.IsCall]
  have ha := hcalls d.aucCalls (fun i hi => hc i (by simp [hi]))
  have hb := hcalls d.barCalls (fun i hi => hc i (by simp [hi]))
  simp [RQ.Lemmas.WorldF.Day.inputs, List.filterMap_append, ha, hb, skelOfIn]

/-! ### the calendar the event source walks through: several registered calendars, every trading day once -/

theorem mem_insertSorted (x d : Nat) (l : List Nat) : d ∈ insertSorted x l ↔ d = x ∨ d ∈ l := by
  induction l with
  | nil => simp [insertSorted]
  | cons y ys ih =>
    unfold insertSorted
    split
    · simp
    · split
      · rename_i h1 h2; subst h2; simp
      · simp only [List.mem_cons, ih]
        constructor
        · rintro (h | h | h)
          · exact Or.inr (Or.inl h)
          · exact Or.inl h
          · exact Or.inr (Or.inr h)
        · rintro (h | h | h)
          · exact Or.inr (Or.inl h)
          · exact Or.inl h
          · exact Or.inr (Or.inr h)

theorem insertSorted_sorted (x : Nat) (l : List Nat) (h : l.Pairwise (· < ·)) : (insertSorted x l).Pairwise (· < ·) := by
  induction l with
  | nil => simp [insertSorted]
  | cons y ys ih =>
    unfold insertSorted
    rw [List.pairwise_cons] at h
    split
    · rename_i hxy
      refine List.pairwise_cons.mpr ⟨?_, List.pairwise_cons.mpr h⟩
      intro a ha
      rcases List.mem_cons.mp ha with rfl | ha
      · exact hxy
      · exact Nat.lt_trans hxy (h.1 a ha)
    · split
      · exact List.pairwise_cons.mpr h
      · rename_i h1 h2
        refine List.pairwise_cons.mpr ⟨?_, ih h.2⟩
        intro a ha
        rcases (mem_insertSorted x a ys).mp ha with rfl | ha
        · omega
        · exact h.1 a ha

/-- the merged calendar is strictly increasing: no trading day occurs twice, however many calendars list it — the executor sees every day once -/
theorem merged_calendar_strictly_increasing (cs : List (List Nat)) : (mergeCals cs).Pairwise (· < ·) := by
  unfold mergeCals
  induction cs.flatten with
  | nil => simp
  | cons x xs ih => exact insertSorted_sorted x _ ih

/-- ... and it holds exactly the days of the registered calendars -/
theorem merged_calendar_is_the_union (cs : List (List Nat)) (d : Nat) : d ∈ mergeCals cs ↔ ∃ c ∈ cs, d ∈ c := by
  unfold mergeCals
  have : ∀ l : List Nat, d ∈ l.foldr insertSorted [] ↔ d ∈ l := by
    intro l
    induction l with
    | nil => simp
    | cons x xs ih => simp [List.foldr, mem_insertSorted, ih]
  rw [this, List.mem_flatten]

theorem merged_calendar_nodup (cs : List (List Nat)) : (mergeCals cs).Nodup :=
  (merged_calendar_strictly_increasing cs).imp (fun h => Nat.ne_of_lt h)

example : mergeCals [[1, 2, 5], [2, 3, 5, 8]] = [1, 2, 3, 5, 8] := by decide

end RQ.Props.C08

/-
C03 — Net value, units and returns accounting is consistent and flow-neutral.
Theorems over `RQ/Model/Portfolio.lean`, `RQ/Model/Account.lean`, `RQ/Model/Position.lean`.
-/
import RQ.Model.Portfolio
import Mathlib.Tactic.Linarith
import Mathlib.Tactic.Ring
import Mathlib.Tactic.FieldSimp
import Mathlib.Tactic.SplitIfs
import RQ.Model.World

namespace RQ.Props.C03
open RQ.Q

theorem foldl_add_eq_sum (l : List Rat) (z : Rat) : l.foldl (· + ·) z = z + l.sum := by
  induction l generalizing z with
  | nil => simp
  | cons x xs ih => simp [List.foldl_cons, ih, add_assoc]

theorem pysum_eq_sum (l : List Rat) : R.pysum l = l.sum := by
  unfold R.pysum; rw [foldl_add_eq_sum]; simp

/-- portfolio total value is the sum of its accounts' total values -/
theorem portfolio_value_sum (p : Pf) : p.totalValue = (p.accounts.map (·.totalValue)).sum := by
  unfold Pf.totalValue; rw [pysum_eq_sum]

/-- unit net value × units = total value -/
theorem nav_times_units (p : Pf) (hu : p.units ≠ 0) : ∃ n, p.nav = some n ∧ n * p.units = p.totalValue := by
  refine ⟨p.totalValue / p.units, ?_, ?_⟩
  · unfold Pf.nav
    have : (p.units == 0) = false := by simpa using hu
    rw [this]; rfl
  · exact div_mul_cancel₀ _ hu

/-! ### helpers on pending lists -/

theorem filter_split_sum (l : List (Nat × Rat)) (d : Nat) :
    ((l.filter (fun x => decide (x.1 ≤ d))).map (·.2)).sum + ((l.filter (fun x => decide (d < x.1))).map (·.2)).sum
      = (l.map (·.2)).sum := by
  induction l with
  | nil => simp
  | cons x xs ih =>
    by_cases hx : x.1 ≤ d
    · have hx' : ¬ d < x.1 := by omega
      simp only [List.filter_cons, hx, hx', decide_true, decide_false, if_true, List.map_cons, List.sum_cons]
      simp only [Bool.false_eq_true, if_false]
      linarith
    · have hx' : d < x.1 := by omega
      simp only [List.filter_cons, hx, hx', decide_true, decide_false, if_true, List.map_cons, List.sum_cons]
      simp only [Bool.false_eq_true, if_false]
      linarith

theorem foldl_snd_eq_sum (l : List (Nat × Rat)) (z : Rat) :
    l.foldl (fun c d => c + d.2) z = z + (l.map (·.2)).sum := by
  induction l generalizing z with
  | nil => simp
  | cons x xs ih => simp [List.foldl_cons, ih, add_assoc]

theorem take_drop_sum (l : List (Nat × Rat)) (f : Nat × Rat → Bool) :
    ((l.takeWhile f).map (·.2)).sum + ((l.dropWhile f).map (·.2)).sum = (l.map (·.2)).sum := by
  conv_rhs => rw [← List.takeWhile_append_dropWhile (p := f) (l := l)]
  rw [List.map_append, List.sum_append]

/-- an account's total value grows by exactly the amount of an accepted deposit / withdrawal — immediately, also when
the cash itself arrives later (pending) -/
theorem account_flow_value (a a' : Acct) (amt : R) (recv : Option Nat) (h : a.depositWithdraw amt recv = some a') :
    a'.totalValue = a.totalValue + amt := by
  unfold Acct.depositWithdraw at h
  split_ifs at h with hc
  cases recv with
  | none =>
    simp only [Option.some.injEq] at h
    subst h
    simp only [Acct.totalValue, Acct.positionEquity, Acct.iterPos, Acct.liabInterest]
    split_ifs <;> ring
  | some d =>
    simp only [Option.some.injEq] at h
    subst h
    have hs := filter_split_sum a.pending d
    simp only [Acct.totalValue, Acct.positionEquity, Acct.iterPos, Acct.liabInterest, pysum_eq_sum,
      List.map_append, List.sum_append, List.map_cons, List.map_nil, List.sum_cons, List.sum_nil]
    have hne : (List.filter (fun x => decide (x.1 ≤ d)) a.pending ++ [(d, amt)] ++
        List.filter (fun x => decide (d < x.1)) a.pending).isEmpty = false := by
      simp
    rw [hne]
    by_cases he : a.pending.isEmpty = true
    · have : a.pending = [] := by simpa using he
      simp [this]
    · simp only [he, Bool.false_eq_true, if_false]
      linarith

/-- **flow neutrality**: a deposit or withdrawal (immediate or pending) changes the units but never the unit net value;
afterwards `units' = total_value' / unit_net_value` -/
theorem deposit_keeps_nav (p p' : Pf) (k : Nat) (amt : R) (recv : Option Nat) (n : R)
    (hn : p.nav = some n) (hn0 : n ≠ 0) (h : p.depositWithdraw k amt recv = some p') (htv : p'.totalValue ≠ 0) :
    p'.nav = some n ∧ p'.units = p'.totalValue / n ∧ p'.staticNav = p.staticNav := by
  unfold Pf.depositWithdraw at h
  rw [hn] at h
  cases hk : p.accounts[k]? with
  | none => rw [hk] at h; simp at h
  | some a =>
    rw [hk] at h
    dsimp only at h
    have hb0 : (n == 0) = false := by simpa using hn0
    simp only [hb0, Bool.false_eq_true, if_false] at h
    cases ha : a.depositWithdraw amt recv with
    | none => rw [ha] at h; simp at h
    | some a' =>
      rw [ha] at h
      simp only [Option.some.injEq] at h
      subst h
      have hu : (Pf.totalValue { accounts := p.accounts.set k a', units := p.units, staticNav := p.staticNav }) / n ≠ 0 :=
        div_ne_zero htv hn0
      refine ⟨?_, rfl, rfl⟩
      unfold Pf.nav
      have hb : ((Pf.totalValue { accounts := p.accounts.set k a', units := p.units, staticNav := p.staticNav }) / n == 0)
          = false := by simpa using hu
      simp only [hb, Bool.false_eq_true, if_false, Option.some.injEq]
      change (Pf.totalValue { accounts := p.accounts.set k a', units := p.units, staticNav := p.staticNav }) /
        ((Pf.totalValue { accounts := p.accounts.set k a', units := p.units, staticNav := p.staticNav }) / n) = n
      have htv' : Pf.totalValue { accounts := p.accounts.set k a', units := p.units, staticNav := p.staticNav } ≠ 0 := htv
      field_simp

/-- after a wipe-out (unit net value 0) a deposit or withdrawal is refused and nothing is booked (the original code booked the
cash and then raised ZeroDivisionError; repaired) -/
theorem deposit_refused_at_zero_nav (p : Pf) (k : Nat) (amt : R) (recv : Option Nat) (hn : p.nav = some 0) :
    p.depositWithdraw k amt recv = none := by
  unfold Pf.depositWithdraw
  rw [hn]
  cases p.accounts[k]? <;> simp

/-- financing and repayment change neither units nor (C01 `finance_equity_neutral`) value -/
theorem finance_keeps_units (p : Pf) (k : Nat) (amt : R) :
    (p.financeRepay k amt).units = p.units ∧ (p.financeRepay k amt).staticNav = p.staticNav := by
  unfold Pf.financeRepay
  cases p.accounts[k]? <;> exact ⟨rfl, rfl⟩

/-- receiving a pending amount at before_trading changes neither the account's value nor anything of the units
(the amount moves from "in transit" to the cash balance): stated for an account without holdings and liabilities -/
theorem pending_receipt_neutral (a : Acct) (i : BTInput) (hh : a.holdings = []) (hl : a.liabilities = 0) :
    (a.onBeforeTrading i).totalValue = a.totalValue := by
  have hs := take_drop_sum a.pending (fun d => decide (d.1 ≤ i.today))
  have hlt : ¬ (a.liabilities > 0) := by rw [hl]; exact lt_irrefl _
  simp only [Acct.onBeforeTrading, Acct.totalValue, Acct.positionEquity, Acct.iterPos, Acct.liabInterest, hh,
    List.filter_nil, List.foldl_nil, List.flatMap_nil, List.map_nil, pysum_eq_sum, List.sum_nil, hlt, if_false,
    foldl_snd_eq_sum]
  by_cases he : a.pending.isEmpty = true
  · have : a.pending = [] := by simpa using he
    simp [this]
  · simp only [he, Bool.false_eq_true, if_false]
    split_ifs with hr
    · have : List.dropWhile (fun d => decide (d.1 ≤ i.today)) a.pending = [] := by simpa using hr
      rw [this] at hs
      simp only [List.map_nil, List.sum_nil, add_zero] at hs
      linarith
    · linarith

/-- daily return = closing unit net value over the previous close − 1 -/
theorem daily_return_def (p : Pf) (n : R) (hn : p.nav = some n) (hs : p.staticNav ≠ 0) :
    p.dailyReturns = some (n / p.staticNav - 1) ∧ p.totalReturns = some (n - 1) := by
  unfold Pf.dailyReturns Pf.totalReturns
  have hb : (p.staticNav == 0) = false := by simpa using hs
  rw [hn, hb]
  exact ⟨rfl, rfl⟩

/-- the latch at PRE_BEFORE_TRADING stores the current (= previous close) unit net value -/
theorem latch (p : Pf) (n : R) (hn : p.nav = some n) : p.preBeforeTrading.staticNav = n ∧ p.preBeforeTrading.units = p.units := by
  unfold Pf.preBeforeTrading
  rw [hn]
  exact ⟨rfl, rfl⟩

/-- **compounding**: over any run of days with closing unit net values `navs` (all non-zero) starting from `nav0`,
where each day's return is `close / previous close − 1`, the compounded daily returns reproduce the total return:
`Π (1 + r_d) = nav_last / nav0`; with the initial unit net value 1 this is `1 + total_returns` -/
def dayReturns : R → List R → List R
  | _, [] => []
  | prev, n :: rest => (n / prev - 1) :: dayReturns n rest

theorem getLast?_getD_cons (n d : R) (rest : List R) :
    ((n :: rest).getLast?.getD d) = rest.getLast?.getD n := by
  cases rest with
  | nil => simp
  | cons m r =>
    rw [List.getLast?_cons_cons]
    cases hg : (m :: r).getLast? with
    | none => simp at hg
    | some x => rfl

theorem returns_compound (nav0 : R) (navs : List R) (h0 : nav0 ≠ 0) (hpos : ∀ n ∈ navs, n ≠ 0) :
    ((dayReturns nav0 navs).map (fun r => 1 + r)).prod = (navs.getLast?.getD nav0) / nav0 := by
  induction navs generalizing nav0 with
  | nil => simp [dayReturns, h0]
  | cons n rest ih =>
    have hn : n ≠ 0 := hpos n (by simp)
    have ih' := ih n hn (fun m hm => hpos m (by simp [hm]))
    rw [getLast?_getD_cons]
    simp only [dayReturns, List.map_cons, List.prod_cons, ih']
    field_simp
    ring

/-- **daily P&L identity for one stock position**: starting the day with `q0` shares (so `logicalOld = q0`,
`tradeCost = 0`, `txnCost = 0`), after ANY sequence of buys and sells the reported
`trading_pnl + position_pnl − transaction_cost` equals the change of (marked value + cash) over the day:
`qty · last − q0 · prev_close + Σ cash deltas of the trades`. -/
def dayStart (p : Pos) : Prop := p.logicalOld = p.qty ∧ p.tradeCost = 0 ∧ p.txnCost = 0

def applyAll (c : InsCfg) : Pos → List TradeIn → Pos × R
  | p, [] => (p, 0)
  | p, t :: ts => let r := p.applyTradeStock c t; let r2 := applyAll c r.1 ts; (r2.1, r.2 + r2.2)

/-- one stock trade: `logicalOld` and the direction are untouched, and trade cost + transaction cost + cash delta
is conserved -/
theorem applyTradeStock_inv (c : InsCfg) (p : Pos) (t : TradeIn) :
    (p.applyTradeStock c t).1.logicalOld = p.logicalOld ∧ (p.applyTradeStock c t).1.isLong = p.isLong ∧
    (p.applyTradeStock c t).1.tradeCost + (p.applyTradeStock c t).1.txnCost + (p.applyTradeStock c t).2
      = p.tradeCost + p.txnCost := by
  unfold Pos.applyTradeStock Pos.applyTradeBase
  cases t.effect <;> split_ifs <;> refine ⟨rfl, rfl, ?_⟩ <;> simp only [R.ofInt] <;> push_cast <;> ring

theorem applyAll_inv (c : InsCfg) (p : Pos) (ts : List TradeIn) :
    (applyAll c p ts).1.logicalOld = p.logicalOld ∧ (applyAll c p ts).1.isLong = p.isLong ∧
    (applyAll c p ts).1.tradeCost + (applyAll c p ts).1.txnCost + (applyAll c p ts).2 = p.tradeCost + p.txnCost := by
  induction ts generalizing p with
  | nil => simp [applyAll]
  | cons t ts ih =>
    obtain ⟨h1, h2, h3⟩ := applyTradeStock_inv c p t
    obtain ⟨i1, i2, i3⟩ := ih (p.applyTradeStock c t).1
    simp only [applyAll]
    refine ⟨i1.trans h1, i2.trans h2, ?_⟩
    linarith

theorem daily_pnl_identity_stock (c : InsCfg) (hc : c.isFuture = false) (p : Pos) (hl : p.isLong = true) (hd : dayStart p)
    (ts : List TradeIn) (hts : ∀ t ∈ ts, t.effect ≠ .closeToday) (prevClose : R) :
    let r := applyAll c p ts
    r.1.tradingPnl c + r.1.positionPnl c prevClose - r.1.txnCost =
      (r.1.last * (r.1.qty : Rat) + r.2) - (p.qty : Rat) * prevClose + (r.1.last - r.1.last) := by
  intro r
  have _ := hts
  obtain ⟨hlo, htc, htx⟩ := hd
  obtain ⟨i1, i2, i3⟩ := applyAll_inv c p ts
  change r.1.logicalOld = _ at i1
  change r.1.isLong = _ at i2
  change r.1.tradeCost + r.1.txnCost + r.2 = _ at i3
  rw [htc, htx] at i3
  have hq : ((r.1.logicalOld : Int) : Rat) = (p.qty : Rat) := by rw [i1, hlo]
  simp only [Pos.tradingPnl, Pos.positionPnl, Pos.dirFactor, hc, i2, hl, R.ofInt, if_true, Bool.false_eq_true, if_false]
  push_cast
  rw [hq]
  split_ifs with h0
  · linarith
  · have : (p.qty : Rat) = 0 := by
      rw [← hq, not_not.mp h0]; simp
    rw [this]
    linarith

/-- non-vacuity: two accounts, deposit of 1000 into the first; nav stays 1 and units grow by 1000 -/
example : (({ accounts := [⟨5000, 0, 0, [], 0, 0, 0, []⟩, ⟨3000, 0, 0, [], 0, 0, 0, []⟩], units := 8000, staticNav := 1 } : Pf).depositWithdraw 0 1000 none).map
    (fun p => (p.units, p.nav)) = some (9000, some 1) := by
  decide +kernel

/-- finding F36 (the excluded point `units ≠ 0` of the theorems above): withdrawing the whole value leaves no units, and with no units
there is no unit net value (NaN in the code) — every later flow is converted with it -/
example : (({ accounts := [⟨5000, 0, 0, [], 0, 0, 0, []⟩], units := 5000, staticNav := 1 } : Pf).depositWithdraw 0 (-5000) none).map
    (fun p => (p.units, p.nav)) = some (0, none) := by
  decide +kernel


/-! ### inside the composed world (`RQ/Model/World.lean`) -/

/-- a deposit / withdrawal in the composed world does to the portfolio exactly what `Pf.depositWithdraw` does (so `deposit_keeps_nav`,
`deposit_refused_at_zero_nav` speak about every flow of every run); a refused flow leaves the whole world as it is -/
theorem world_deposit_is_portfolio_flow (w : World) (k : Nat) (amt : R) (recv : Option Nat) :
    (w.deposit k amt recv).1.pf = (match w.pf.depositWithdraw k amt recv with | some p' => p' | none => w.pf) ∧
    (w.pf.depositWithdraw k amt recv = none → (w.deposit k amt recv).1 = w) := by
  unfold World.deposit Pf.depositWithdraw
  cases hn : w.pf.nav with
  | none => simp
  | some n =>
    cases ha : w.pf.accounts[k]? with
    | none => simp
    | some a =>
      simp only
      by_cases h0 : (n == 0) = true
      · simp [h0]
      · simp only [h0]
        cases hd : a.depositWithdraw amt recv with
        | none => simp
        | some a' =>
          simp only [World.apply, ha, Acct.stepOp, hd]
          simp

end RQ.Props.C03

/-
C05 — Fills execute only at the price the matching rule prescribes.
Theorems over `RQ/Model/Matcher.lean` (instance `R := Rat`).
-/
import RQ.Model.Matcher
import Mathlib.Tactic.Linarith
import Mathlib.Tactic.Ring
import Mathlib.Tactic.SplitIfs
import Mathlib.Tactic.Positivity
import RQ.Lemmas.WorldA

deriving instance DecidableEq for RQ.Q.MOutcome

namespace RQ.Props.C05
open RQ.Q

/-- the price the slippage model makes of the prescribed price (no slippage in the auction) -/
def tradePriceOf (cfg : MCfg) (o : Ord) (b : MBar) (openAuction : Bool) (deal : R) : Option R :=
  if openAuction then some deal else slipPrice cfg.slip o.isBuy o.isLimit o.limitPrice b deal

theorem validPrice_some {p : Option R} {d : R} (h : validPrice p = some d) : p = some d ∧ 0 < d := by
  unfold validPrice at h
  cases p with
  | none => simp at h
  | some x =>
    simp only at h
    split_ifs at h with hx
    simp only [Option.some.injEq] at h
    subst h
    exact ⟨rfl, hx⟩

/-- the limit-board condition of the price step -/
def boardStop (cfg : MCfg) (o : Ord) (b : MBar) (deal : R) : Bool :=
  cfg.priceLimit &&
    ((o.isBuy && (match b.limitUp with | some u => decide (deal ≥ u) | none => false)) ||
     (!o.isBuy && (match b.limitDown with | some d => decide (deal ≤ d) | none => false)))

def priceStop (cfg : MCfg) (o : Ord) (b : MBar) (deal : R) : Option MOutcome :=
  if o.isLimit then
    if o.isBuy && o.limitPrice < deal then some .rest
    else if !o.isBuy && o.limitPrice > deal then some .rest
    else if boardStop cfg o b deal then some .rest
    else none
  else
    if boardStop cfg o b deal then some .rejected else none

def inactiveStop (cfg : MCfg) (b : MBar) : Bool :=
  cfg.inactiveLimit && (match b.volume with | some v => v == 0 | none => false)

def fillOrStop (cfg : MCfg) (ic : InsCfg) (o : Ord) (b : MBar) (turnover : Int) : Option Int :=
  if cfg.volumeLimit then
    match b.volume with
    | some v =>
      if (R.roundI (v * cfg.volumePercent) - turnover) / ic.lot * ic.lot ≤ 0 then none
      else some (min o.unfilled ((R.roundI (v * cfg.volumePercent) - turnover) / ic.lot * ic.lot))
    | none => some o.unfilled
  else some o.unfilled

def needCheck (cfg : MCfg) (o : Ord) : Option Bool :=
  if o.effect == .open_ then (match slipRate cfg.slip with | some r => some (r != 0) | none => none)
  else some false

/-- `matchOrder` as a cascade of named steps -/
theorem matchOrder_eq (cfg : MCfg) (ic : InsCfg) (o : Ord) (b : MBar) (au : Bool) (tv : Int) (cash : R)
    (fee : Int → R → R) (ct : Int → Int) :
    matchOrder cfg ic o b au tv cash fee ct =
      match validPrice b.deal with
      | none => if b.listedToday then .rejected else .rest
      | some deal =>
        match priceStop cfg o b deal with
        | some r => r
        | none =>
          if inactiveStop cfg b then .cancelled
          else
            match fillOrStop cfg ic o b tv with
            | none => if o.isLimit then .rest else .cancelled
            | some f =>
              match tradePriceOf cfg o b au deal with
              | none => .raises
              | some price =>
                match needCheck cfg o with
                | none => .raises
                | some chk =>
                  if chk && (frozenCashOfOrder ic price o.qty true 0 + fee f price > cash) then .rejected
                  else .fill f price (ct f) (!o.isLimit && o.unfilled - f ≠ 0) := by
  rfl


theorem fill_inv (cfg : MCfg) (ic : InsCfg) (o : Ord) (b : MBar) (au : Bool) (tv : Int) (cash : R)
    (fee : Int → R → R) (ct : Int → Int) (q : Int) (p : R) (c : Int) (cr : Bool)
    (h : matchOrder cfg ic o b au tv cash fee ct = .fill q p c cr) :
    ∃ deal, validPrice b.deal = some deal ∧ priceStop cfg o b deal = none ∧
      tradePriceOf cfg o b au deal = some p := by
  rw [matchOrder_eq] at h
  cases hvd : validPrice b.deal with
  | none => rw [hvd] at h; simp only at h; split_ifs at h
  | some deal =>
    rw [hvd] at h; simp only at h
    cases hps : priceStop cfg o b deal with
    | some r =>
      rw [hps] at h; simp only at h; subst h
      unfold priceStop at hps
      split_ifs at hps <;> cases hps
    | none =>
      rw [hps] at h; simp only at h
      by_cases hin : inactiveStop cfg b = true
      · rw [if_pos hin] at h; cases h
      · rw [if_neg hin] at h
        cases hf : fillOrStop cfg ic o b tv with
        | none => rw [hf] at h; simp only at h; split_ifs at h
        | some f =>
          rw [hf] at h; simp only at h
          cases htp : tradePriceOf cfg o b au deal with
          | none => rw [htp] at h; cases h
          | some price =>
            rw [htp] at h; simp only at h
            cases hnc : needCheck cfg o with
            | none => rw [hnc] at h; cases h
            | some chk =>
              rw [hnc] at h; simp only at h
              split_ifs at h
              injection h with h1 h2 h3 h4
              subst h2
              exact ⟨deal, rfl, hps, htp⟩

/-- **C05.1** every fill executes at exactly the prescribed price moved by the configured slippage, and a fill is
produced only from a bar with a valid (present and positive) prescribed price -/
theorem trade_price_prescribed (cfg : MCfg) (ic : InsCfg) (o : Ord) (b : MBar) (au : Bool) (tv : Int) (cash : R)
    (fee : Int → R → R) (ct : Int → Int) (q : Int) (p : R) (c : Int) (cr : Bool)
    (h : matchOrder cfg ic o b au tv cash fee ct = .fill q p c cr) :
    ∃ deal, b.deal = some deal ∧ 0 < deal ∧ tradePriceOf cfg o b au deal = some p := by
  obtain ⟨deal, hvd, _, htp⟩ := fill_inv cfg ic o b au tv cash fee ct q p c cr h
  obtain ⟨hd, hpos⟩ := validPrice_some hvd
  exact ⟨deal, hd, hpos, htp⟩

/-- no fill is produced from a bar without a valid price -/
theorem no_fill_invalid_price (cfg : MCfg) (ic : InsCfg) (o : Ord) (b : MBar) (au : Bool) (tv : Int) (cash : R)
    (fee : Int → R → R) (ct : Int → Int) (h : validPrice b.deal = none) :
    matchOrder cfg ic o b au tv cash fee ct = .rest ∨ matchOrder cfg ic o b au tv cash fee ct = .rejected := by
  rw [matchOrder_eq, h]
  simp only
  split_ifs
  · exact Or.inr rfl
  · exact Or.inl rfl

/-- the price band the data layer promises: limits present ⇒ `limit_down ≤ deal ≤ limit_up`, and they are valid prices -/
def BandWF (b : MBar) (deal : R) : Prop :=
  (∀ u, b.limitUp = some u → deal ≤ u ∧ 0 < u) ∧ (∀ d, b.limitDown = some d → d ≤ deal ∧ 0 < d)

theorem validPrice_of_pos {x : R} (hx : 0 < x) : validPrice (some x) = some x := by
  simp only [validPrice, gt_iff_lt, hx, if_true]

/-- **C05.2 (PriceRatioSlippage)** slippage moves the price only in the direction adverse to the order and never
outside the day's band; zero rate ⇒ exactly the prescribed price -/
theorem price_ratio_adverse_and_banded (rate : R) (hr : 0 ≤ rate) (isBuy isLimit : Bool) (lp : R) (b : MBar) (deal : R)
    (hd : 0 < deal) (hb : BandWF b deal) :
    ∃ p, slipPrice (.priceRatio rate) isBuy isLimit lp b deal = some p ∧
      (isBuy = true → deal ≤ p ∧ ∀ u, b.limitUp = some u → p ≤ u) ∧
      (isBuy = false → p ≤ deal ∧ ∀ d, b.limitDown = some d → d ≤ p) ∧
      (rate = 0 → p = deal) := by
  have hdr : 0 ≤ deal * rate := mul_nonneg hd.le hr
  obtain ⟨hU, hD⟩ := hb
  have hUv : ∀ u, b.limitUp = some u → validPrice b.limitUp = some u := fun u hu => by
    rw [hu]; exact validPrice_of_pos (hU u hu).2
  have hDv : ∀ d, b.limitDown = some d → validPrice b.limitDown = some d := fun d hdn => by
    rw [hdn]; exact validPrice_of_pos (hD d hdn).2
  cases hvu : validPrice b.limitUp with
  | none =>
    have nu : ∀ u, b.limitUp ≠ some u := fun u hu => by
      have := hUv u hu; rw [hvu] at this; cases this
    cases hvd : validPrice b.limitDown with
    | none =>
      have nd : ∀ d, b.limitDown ≠ some d := fun d hdn => by
        have := hDv d hdn; rw [hvd] at this; cases this
      simp only [slipPrice, hvu, hvd]
      refine ⟨_, rfl, ?_, ?_, ?_⟩
      · intro hx; subst hx
        simp only [if_true, mul_one]
        exact ⟨by linarith, fun u hu => absurd hu (nu u)⟩
      · intro hx; subst hx
        simp only [Bool.false_eq_true, if_false]
        exact ⟨by linarith, fun d hdn => absurd hdn (nd d)⟩
      · intro hx; subst hx
        ring
    | some d =>
      obtain ⟨hdn, _⟩ := validPrice_some hvd
      obtain ⟨hd1, _⟩ := hD d hdn
      simp only [slipPrice, hvu, hvd, R.pymax]
      refine ⟨_, rfl, ?_, ?_, ?_⟩
      · intro hx; subst hx
        simp only [if_true, mul_one]
        exact ⟨by split_ifs <;> linarith, fun u hu => absurd hu (nu u)⟩
      · intro hx; subst hx
        simp only [Bool.false_eq_true, if_false]
        refine ⟨by split_ifs <;> linarith, fun d' hd' => ?_⟩
        rw [hdn] at hd'; injection hd' with hd'; subst hd'
        split_ifs <;> linarith
      · intro hx; subst hx
        simp only [mul_zero, zero_mul, add_zero]
        split_ifs <;> linarith
  | some u =>
    obtain ⟨hu, _⟩ := validPrice_some hvu
    obtain ⟨hu1, _⟩ := hU u hu
    cases hvd : validPrice b.limitDown with
    | none =>
      have nd : ∀ d, b.limitDown ≠ some d := fun d hdn => by
        have := hDv d hdn; rw [hvd] at this; cases this
      simp only [slipPrice, hvu, hvd, R.pymin]
      refine ⟨_, rfl, ?_, ?_, ?_⟩
      · intro hx; subst hx
        simp only [if_true, mul_one]
        refine ⟨by split_ifs <;> linarith, fun u' hu' => ?_⟩
        rw [hu] at hu'; injection hu' with hu'; subst hu'
        split_ifs <;> linarith
      · intro hx; subst hx
        simp only [Bool.false_eq_true, if_false]
        exact ⟨by split_ifs <;> linarith, fun d hdn => absurd hdn (nd d)⟩
      · intro hx; subst hx
        simp only [mul_zero, zero_mul, add_zero]
        split_ifs <;> linarith
    | some d =>
      obtain ⟨hdn, _⟩ := validPrice_some hvd
      obtain ⟨hd1, _⟩ := hD d hdn
      simp only [slipPrice, hvu, hvd, R.pymin, R.pymax]
      refine ⟨_, rfl, ?_, ?_, ?_⟩
      · intro hx; subst hx
        simp only [if_true, mul_one]
        refine ⟨by split_ifs <;> linarith, fun u' hu' => ?_⟩
        rw [hu] at hu'; injection hu' with hu'; subst hu'
        split_ifs <;> linarith
      · intro hx; subst hx
        simp only [Bool.false_eq_true, if_false]
        refine ⟨by split_ifs <;> linarith, fun d' hd' => ?_⟩
        rw [hdn] at hd'; injection hd' with hd'; subst hd'
        split_ifs <;> linarith
      · intro hx; subst hx
        simp only [mul_zero, zero_mul, add_zero]
        split_ifs <;> linarith

/-- the clamp of a slipped price into the day's band (both slippage models apply the same one) -/
def clampBand (b : MBar) (t0 : R) : R :=
  match validPrice b.limitDown with
  | some d => R.pymax (match validPrice b.limitUp with | some u => R.pymin t0 u | none => t0) d
  | none => (match validPrice b.limitUp with | some u => R.pymin t0 u | none => t0)

theorem slipPrice_tickSize_eq (rate tick : R) (isBuy isLimit : Bool) (lp : R) (b : MBar) (deal : R) :
    slipPrice (.tickSize rate tick) isBuy isLimit lp b deal =
      if deal + tick * rate * (if isBuy then 1 else -1) ≤ 0 then none
      else some (clampBand b (deal + tick * rate * (if isBuy then 1 else -1))) := by
  rfl

theorem clampBand_cases {b : MBar} {deal : R} (hb : BandWF b deal) :
    (validPrice b.limitUp = none ∧ ∀ u, b.limitUp ≠ some u) ∨
      (∃ u, validPrice b.limitUp = some u ∧ b.limitUp = some u ∧ deal ≤ u) := by
  obtain ⟨hU, _⟩ := hb
  cases hu : b.limitUp with
  | none => exact Or.inl ⟨rfl, fun u h => by cases h⟩
  | some u =>
    obtain ⟨h1, h2⟩ := hU u hu
    exact Or.inr ⟨u, validPrice_of_pos h2, rfl, h1⟩

theorem clampBand_cases_down {b : MBar} {deal : R} (hb : BandWF b deal) :
    (validPrice b.limitDown = none ∧ ∀ d, b.limitDown ≠ some d) ∨
      (∃ d, validPrice b.limitDown = some d ∧ b.limitDown = some d ∧ d ≤ deal) := by
  obtain ⟨_, hD⟩ := hb
  cases hd : b.limitDown with
  | none => exact Or.inl ⟨rfl, fun u h => by cases h⟩
  | some d =>
    obtain ⟨h1, h2⟩ := hD d hd
    exact Or.inr ⟨d, validPrice_of_pos h2, rfl, h1⟩

theorem clampBand_ge {b : MBar} {deal t0 : R} (hb : BandWF b deal) (h : deal ≤ t0) :
    deal ≤ clampBand b t0 ∧ ∀ u, b.limitUp = some u → clampBand b t0 ≤ u := by
  unfold clampBand
  rcases clampBand_cases hb with ⟨hvu, nu⟩ | ⟨u, hvu, hu, hu1⟩ <;>
  rcases clampBand_cases_down hb with ⟨hvd, nd⟩ | ⟨d, hvd, hdn, hd1⟩ <;>
  simp only [hvu, hvd, R.pymin, R.pymax]
  · exact ⟨h, fun u hu => absurd hu (nu u)⟩
  · exact ⟨by split_ifs <;> linarith, fun u hu => absurd hu (nu u)⟩
  · refine ⟨by split_ifs <;> linarith, fun u' hu' => ?_⟩
    rw [hu] at hu'; injection hu' with hu'; subst hu'
    split_ifs <;> linarith
  · refine ⟨by split_ifs <;> linarith, fun u' hu' => ?_⟩
    rw [hu] at hu'; injection hu' with hu'; subst hu'
    split_ifs <;> linarith

theorem clampBand_le {b : MBar} {deal t0 : R} (hb : BandWF b deal) (h : t0 ≤ deal) :
    clampBand b t0 ≤ deal ∧ ∀ d, b.limitDown = some d → d ≤ clampBand b t0 := by
  unfold clampBand
  rcases clampBand_cases hb with ⟨hvu, nu⟩ | ⟨u, hvu, hu, hu1⟩ <;>
  rcases clampBand_cases_down hb with ⟨hvd, nd⟩ | ⟨d, hvd, hdn, hd1⟩ <;>
  simp only [hvu, hvd, R.pymin, R.pymax]
  · exact ⟨h, fun d hd => absurd hd (nd d)⟩
  · refine ⟨by split_ifs <;> linarith, fun d' hd' => ?_⟩
    rw [hdn] at hd'; injection hd' with hd'; subst hd'
    split_ifs <;> linarith
  · exact ⟨by split_ifs <;> linarith, fun d hd => absurd hd (nd d)⟩
  · refine ⟨by split_ifs <;> linarith, fun d' hd' => ?_⟩
    rw [hdn] at hd'; injection hd' with hd'; subst hd'
    split_ifs <;> linarith

theorem clampBand_self {b : MBar} {deal : R} (hb : BandWF b deal) : clampBand b deal = deal := by
  unfold clampBand
  rcases clampBand_cases hb with ⟨hvu, nu⟩ | ⟨u, hvu, hu, hu1⟩ <;>
  rcases clampBand_cases_down hb with ⟨hvd, nd⟩ | ⟨d, hvd, hdn, hd1⟩ <;>
  simp only [hvu, hvd, R.pymin, R.pymax] <;> split_ifs <;> linarith

/-- **C05.2 (TickSizeSlippage, after the repair of finding F20)** the tick model moves the price only in the adverse
direction and — now clamped like the price-ratio model — never outside the day's band -/
theorem tick_size_adverse_and_banded (rate tick : R) (hr : 0 ≤ rate) (ht : 0 ≤ tick) (isBuy isLimit : Bool) (lp : R) (b : MBar)
    (deal p : R) (hd : 0 < deal) (hb : BandWF b deal) (h : slipPrice (.tickSize rate tick) isBuy isLimit lp b deal = some p) :
    (isBuy = true → deal ≤ p ∧ ∀ u, b.limitUp = some u → p ≤ u) ∧
    (isBuy = false → p ≤ deal ∧ ∀ d, b.limitDown = some d → d ≤ p) ∧
    (rate = 0 → p = deal) := by
  have _ := hd
  rw [slipPrice_tickSize_eq] at h
  have htr : 0 ≤ tick * rate := mul_nonneg ht hr
  by_cases hp0 : deal + tick * rate * (if isBuy = true then 1 else -1) ≤ 0
  · rw [if_pos hp0] at h; cases h
  · rw [if_neg hp0] at h
    injection h with h
    subst h
    refine ⟨?_, ?_, ?_⟩
    · intro hx; subst hx
      have h1 : deal ≤ deal + tick * rate * (if true = true then 1 else -1) := by
        simp only [if_true, mul_one]; linarith
      exact clampBand_ge hb h1
    · intro hx; subst hx
      have h1 : deal + tick * rate * (if false = true then 1 else -1) ≤ deal := by
        simp only [Bool.false_eq_true, if_false]; linarith
      exact clampBand_le hb h1
    · intro hx; subst hx
      have h1 : deal + tick * 0 * (if isBuy = true then 1 else -1) = deal := by ring
      rw [h1]
      exact clampBand_self hb

/-- the former witness of finding F20 (close 10.99 under limit-up 11.00, three ticks of 0.01) now trades AT limit-up -/
theorem tick_size_clamped_example :
    slipPrice (.tickSize 3 (1/100)) true false 0 ⟨some (1099/100), some 11, some (989/100), some 1000, false⟩ (1099/100) = some 11 := by
  decide +kernel

/-- **C05.3** a limit order fills only when the prescribed price is at or better than its limit -/
theorem limit_respected (cfg : MCfg) (ic : InsCfg) (o : Ord) (b : MBar) (au : Bool) (tv : Int) (cash : R)
    (fee : Int → R → R) (ct : Int → Int) (q : Int) (p : R) (c : Int) (cr : Bool) (hl : o.isLimit = true)
    (h : matchOrder cfg ic o b au tv cash fee ct = .fill q p c cr) :
    ∃ deal, b.deal = some deal ∧ (o.isBuy = true → deal ≤ o.limitPrice) ∧ (o.isBuy = false → o.limitPrice ≤ deal) := by
  obtain ⟨deal, hvd, hps, _⟩ := fill_inv cfg ic o b au tv cash fee ct q p c cr h
  obtain ⟨hd, _⟩ := validPrice_some hvd
  refine ⟨deal, hd, ?_, ?_⟩
  · intro hb
    by_contra hlt
    rw [not_le] at hlt
    simp [priceStop, hl, hb, hlt] at hps
  · intro hb
    by_contra hlt
    rw [not_le] at hlt
    simp [priceStop, hl, hb, hlt] at hps

/-- hence with zero slippage (price-ratio model, rate 0) the trade price is never worse than the limit -/
theorem zero_slippage_never_worse_than_limit (cfg : MCfg) (hs : cfg.slip = .priceRatio 0) (ic : InsCfg) (o : Ord) (b : MBar)
    (au : Bool) (tv : Int) (cash : R) (fee : Int → R → R) (ct : Int → Int) (q : Int) (p : R) (c : Int) (cr : Bool)
    (hl : o.isLimit = true) (hwf : ∀ deal, b.deal = some deal → BandWF b deal)
    (h : matchOrder cfg ic o b au tv cash fee ct = .fill q p c cr) :
    (o.isBuy = true → p ≤ o.limitPrice) ∧ (o.isBuy = false → o.limitPrice ≤ p) := by
  obtain ⟨deal, hd, hpos, htp⟩ := trade_price_prescribed cfg ic o b au tv cash fee ct q p c cr h
  obtain ⟨deal', hd', hbuy, hsell⟩ := limit_respected cfg ic o b au tv cash fee ct q p c cr hl h
  rw [hd] at hd'; injection hd' with hd'; subst hd'
  have hp : p = deal := by
    unfold tradePriceOf at htp
    split_ifs at htp with hau
    · injection htp with htp; exact htp.symm
    · obtain ⟨p', hp', _, _, h0⟩ :=
        price_ratio_adverse_and_banded 0 le_rfl o.isBuy o.isLimit o.limitPrice b deal hpos (hwf deal hd)
      rw [hs, hp'] at htp
      injection htp with htp
      rw [← htp]; exact h0 rfl
  subst hp
  exact ⟨hbuy, hsell⟩

/-- with `LimitPriceSlippage` a limit order trades at its own limit price (closing orders; opening orders hit F22) -/
theorem limit_price_slippage (o : Ord) (b : MBar) (deal : R) (hl : o.isLimit = true) :
    slipPrice .limitPrice o.isBuy o.isLimit o.limitPrice b deal = some o.limitPrice := by
  simp only [slipPrice, hl, if_true]

/-- after the repair of finding F22 (`LimitPriceSlippage.rate = 0`): an opening market order under `LimitPriceSlippage`
with the limit switches off simply fills its remainder at the prescribed price (no exception, no extra cash check) -/
theorem limit_price_slippage_open_fills (cfg : MCfg) (hs : cfg.slip = .limitPrice) (ic : InsCfg) (o : Ord) (b : MBar)
    (tv : Int) (cash : R) (fee : Int → R → R) (ct : Int → Int) (ho : o.effect = .open_) (hm : o.isLimit = false)
    (deal : R) (hd : b.deal = some deal) (hpos : 0 < deal) (hpl : cfg.priceLimit = false) (hil : cfg.inactiveLimit = false)
    (hvl : cfg.volumeLimit = false) :
    matchOrder cfg ic o b false tv cash fee ct = .fill o.unfilled deal (ct o.unfilled) false := by
  have hvd : validPrice b.deal = some deal := by rw [hd]; exact validPrice_of_pos hpos
  have hps : priceStop cfg o b deal = none := by
    simp [priceStop, boardStop, hm, hpl]
  have hin : inactiveStop cfg b = false := by
    simp [inactiveStop, hil]
  have hf : fillOrStop cfg ic o b tv = some o.unfilled := by
    simp [fillOrStop, hvl]
  have htp : tradePriceOf cfg o b false deal = some deal := by
    simp [tradePriceOf, hs, slipPrice, hm]
  have hnc : needCheck cfg o = some false := by
    simp [needCheck, ho, hs, slipRate]
  rw [matchOrder_eq, hvd]
  simp only [hps, hin, hf, htp, hnc, hm]
  simp

/-- non-vacuity: a market buy of 300 at close 10.5 with 1 % price-ratio slippage under limit-up 11 fills at 10.605 -/
example : matchOrder ⟨true, true, false, 1/4, .priceRatio (1/100)⟩ ⟨false, 1, 0, 1, true, 100⟩
    ⟨1, 1, true, false, 0, .open_, 300, 0, .active, 0, 0, 10.5, 3155⟩ ⟨some 10.5, some 11, some 9.5, some 100000, false⟩ false 0 100000
    (fun _ _ => 5) (fun _ => 0) = .fill 300 10.605 0 false := by
  decide +kernel


/-! ### signal mode (`SignalBroker`) -/

/-- signal mode: a fill is for the WHOLE quantity, never cancels a remainder, and its price is the order's own limit price (limit
order) or the last price (market order) moved by the configured slippage model -/
theorem signal_fill_price (pl : Bool) (slip : Slip) (o : Ord) (b : MBar) (ct : Int → Int) (q : Int) (p : R) (c : Int) (cr : Bool)
    (h : signalMatch pl slip o b ct = .fill q p c cr) :
    q = o.qty ∧ cr = false ∧ ∃ last, validPrice b.deal = some last ∧
      slipPrice slip o.isBuy o.isLimit o.limitPrice b (if o.isLimit then o.frozenPrice else last) = some p := by
  unfold signalMatch at h
  cases hv : validPrice b.deal with
  | none => rw [hv] at h; simp at h
  | some last =>
    rw [hv] at h
    simp only at h
    cases hc : (pl && signalAtLimit o b (signalDeal o last)) with
    | true => rw [hc] at h; simp at h
    | false =>
      rw [hc] at h
      simp only [Bool.false_eq_true, if_false] at h
      cases hs : slipPrice slip o.isBuy o.isLimit o.limitPrice b (signalDeal o last) with
      | none => rw [hs] at h; simp at h
      | some price =>
        rw [hs] at h
        simp only [MOutcome.fill.injEq] at h
        obtain ⟨h1, h2, _, h4⟩ := h
        refine ⟨h1.symm, h4.symm, last, rfl, ?_⟩
        have : (if o.isLimit then o.frozenPrice else last) = signalDeal o last := rfl
        rw [this, hs, h2]

/-- signal mode: nothing is filled without a valid last price -/
theorem signal_no_price_no_fill (pl : Bool) (slip : Slip) (o : Ord) (b : MBar) (ct : Int → Int) (h : validPrice b.deal = none) :
    signalMatch pl slip o b ct = .rejected := by
  unfold signalMatch
  rw [h]


/-! ### whole runs of the composed world (`RQ/Model/World.lean`) -/

/-- **C05 for whole runs**: whatever the strategy does and whatever the market tables are, every TRADE event a run of the composed
world publishes for an order carries the price the matching rule prescribes — the deal price of the instrument's bar in force at
that step (the auction bar for auction orders), valid and positive, moved by the configured slippage model -/
theorem world_trade_price_prescribed (w : World) (ins : List WIn) (id : Nat) (q : Int) (p fee : R)
    (h : WEv.order (.trade id q p fee) ∈ (w.run ins).2) :
    ∃ ws ∈ RQ.Lemmas.WorldA.states w ins, ∃ (auction : Bool) (o : Ord) (wi : WIns) (d : DayIns) (deal : R),
      id = o.id ∧ ws.cfg.find o.ins = some wi ∧ ws.dayOf o.ins = some d ∧
      (if auction then d.auc else d.bar).deal = some deal ∧ 0 < deal ∧
      tradePriceOf (ws.mcfg wi) o (if auction then d.auc else d.bar) auction deal = some p := by
  obtain ⟨ws, hws, auction, o, wi, d, tv, cash, ct, cr, hid, hwi, hd, hm⟩ := RQ.Lemmas.WorldA.run_trade w ins id q p fee h
  obtain ⟨deal, hdeal, hpos, htp⟩ := trade_price_prescribed _ _ _ _ _ _ _ _ _ _ _ _ _ hm
  exact ⟨ws, hws, auction, o, wi, d, deal, hid, hwi, hd, hdeal, hpos, htp⟩

/-! ### `base.round_price`: the limit a strategy gives is moved DOWN to the tick grid, never up -/

/-- rounding never raises the limit: a BUY never pays more than the strategy allowed -/
theorem roundPrice_never_raises (l t : Nat) : roundPrice l t ≤ l := by
  unfold roundPrice
  split
  · exact Nat.le_refl l
  · exact Nat.div_mul_le_self l t

/-- ... and moves it by less than one tick -/
theorem roundPrice_within_a_tick (l t : Nat) (ht : 0 < t) : l < roundPrice l t + t := by
  unfold roundPrice
  rw [if_neg (by omega)]
  exact Nat.lt_div_mul_add ht

/-- the result lies on the tick grid -/
theorem roundPrice_on_grid (l t : Nat) (ht : 0 < t) : t ∣ roundPrice l t := by
  unfold roundPrice
  rw [if_neg (by omega)]
  exact Nat.dvd_mul_left t (l / t)

/-- a limit on the grid is left alone -/
theorem roundPrice_fixes_grid (l t : Nat) (h : t ∣ l) : roundPrice l t = l := by
  unfold roundPrice
  split
  · rfl
  · exact Nat.div_mul_cancel h

/-- it is the HIGHEST grid price not above the limit (round-half-even would give a higher one in the upper half of a tick) -/
theorem roundPrice_is_greatest (l t g : Nat) (ht : 0 < t) (hg : t ∣ g) (hle : g ≤ l) : g ≤ roundPrice l t := by
  unfold roundPrice
  rw [if_neg (by omega)]
  obtain ⟨k, rfl⟩ := hg
  have hk : k ≤ l / t := (Nat.le_div_iff_mul_le ht).mpr (by rw [Nat.mul_comm]; exact hle)
  calc t * k = k * t := Nat.mul_comm t k
    _ ≤ l / t * t := Nat.mul_le_mul_right t hk

example : roundPrice 100060 100 = 100000 ∧ roundPrice 30006000 10000 = 30000000 ∧ roundPrice 100100 100 = 100100 := by decide

end RQ.Props.C05

/-
C06 — Matching honours price limits, liquidity limits and lot sizes.
Theorems over `RQ/Model/Matcher.lean` (instance `R := Rat`).
-/
import RQ.Model.Matcher
import Mathlib.Tactic.Linarith
import Mathlib.Tactic.Ring
import Mathlib.Tactic.SplitIfs
import RQ.Lemmas.WorldA
import RQ.Lemmas.WorldM

deriving instance DecidableEq for RQ.Q.MOutcome

namespace RQ.Props.C06
open RQ.Q

/-! ### staged view of `matchOrder` (helpers) -/

/-- the price-condition stage of `matchOrder` -/
def priceStop (cfg : MCfg) (o : Ord) (b : MBar) (deal : R) : Option MOutcome :=
  let atUp : Bool := match b.limitUp with | some u => decide (deal ≥ u) | none => false
  let atDown : Bool := match b.limitDown with | some d => decide (deal ≤ d) | none => false
  if o.isLimit then
    if o.isBuy && o.limitPrice < deal then some .rest
    else if !o.isBuy && o.limitPrice > deal then some .rest
    else if cfg.priceLimit && ((o.isBuy && atUp) || (!o.isBuy && atDown)) then some .rest
    else none
  else
    if cfg.priceLimit && ((o.isBuy && atUp) || (!o.isBuy && atDown)) then some .rejected else none

/-- the volume-limit stage of `matchOrder` -/
def fillQty (cfg : MCfg) (ic : InsCfg) (o : Ord) (b : MBar) (tv : Int) : Option Int :=
  if cfg.volumeLimit then
    match b.volume with
    | some v =>
      let lim0 := R.roundI (v * cfg.volumePercent) - tv
      let lim := (lim0 / ic.lot) * ic.lot
      if lim ≤ 0 then none else some (min o.unfilled lim)
    | none => some o.unfilled
  else some o.unfilled

/-- the slippage / cash-check / fill stage of `matchOrder` -/
def finish (cfg : MCfg) (ic : InsCfg) (o : Ord) (b : MBar) (au : Bool) (cash : R) (fee : Int → R → R)
    (ct : Int → Int) (deal : R) (f : Int) : MOutcome :=
  let price? := if au then some deal else slipPrice cfg.slip o.isBuy o.isLimit o.limitPrice b deal
  match price? with
  | none => .raises
  | some price =>
    let needCheck : Option Bool :=
      if o.effect == .open_ then (match slipRate cfg.slip with | some r => some (r != 0) | none => none)
      else some false
    match needCheck with
    | none => .raises
    | some chk =>
      if chk && (frozenCashOfOrder ic price o.qty true 0 + fee f price > cash) then .rejected
      else .fill f price (ct f) (!o.isLimit && o.unfilled - f ≠ 0)

theorem matchOrder_eq (cfg : MCfg) (ic : InsCfg) (o : Ord) (b : MBar) (au : Bool) (tv : Int) (cash : R)
    (fee : Int → R → R) (ct : Int → Int) :
    matchOrder cfg ic o b au tv cash fee ct =
      match validPrice b.deal with
      | none => if b.listedToday then .rejected else .rest
      | some deal =>
        match priceStop cfg o b deal with
        | some r => r
        | none =>
          if cfg.inactiveLimit && (match b.volume with | some v => v == 0 | none => false) then .cancelled
          else
            match fillQty cfg ic o b tv with
            | none => if o.isLimit then .rest else .cancelled
            | some f => finish cfg ic o b au cash fee ct deal f := rfl

theorem priceStop_ne_fill (cfg : MCfg) (o : Ord) (b : MBar) (deal : R) (q : Int) (p : R) (c : Int) (cr : Bool) :
    priceStop cfg o b deal ≠ some (.fill q p c cr) := by
  unfold priceStop
  simp only []
  split_ifs <;> simp

theorem finish_fill (cfg : MCfg) (ic : InsCfg) (o : Ord) (b : MBar) (au : Bool) (cash : R) (fee : Int → R → R)
    (ct : Int → Int) (deal : R) (f : Int) (q : Int) (p : R) (c : Int) (cr : Bool)
    (h : finish cfg ic o b au cash fee ct deal f = .fill q p c cr) :
    q = f ∧ cr = (!o.isLimit && decide (o.unfilled - q ≠ 0)) := by
  unfold finish at h
  simp only [] at h
  split at h
  · exact absurd h (by simp)
  · split at h
    · exact absurd h (by simp)
    · split_ifs at h
      injection h with h1 h2 h3 h4
      subst h1
      exact ⟨rfl, h4.symm⟩

theorem fill_inv (cfg : MCfg) (ic : InsCfg) (o : Ord) (b : MBar) (au : Bool)
    (tv : Int) (cash : R) (fee : Int → R → R) (ct : Int → Int) (q : Int) (p : R) (c : Int) (cr : Bool)
    (h : matchOrder cfg ic o b au tv cash fee ct = .fill q p c cr) :
    fillQty cfg ic o b tv = some q ∧ cr = (!o.isLimit && decide (o.unfilled - q ≠ 0)) ∧
      ¬ (cfg.inactiveLimit = true ∧ b.volume = some 0) := by
  rw [matchOrder_eq] at h
  cases hvp : validPrice b.deal with
  | none => rw [hvp] at h; simp only [] at h; split_ifs at h
  | some deal =>
    rw [hvp] at h; simp only [] at h
    cases hps : priceStop cfg o b deal with
    | some r => rw [hps] at h; simp only [] at h; subst h; exact absurd hps (priceStop_ne_fill _ _ _ _ _ _ _ _)
    | none =>
      rw [hps] at h; simp only [] at h
      by_cases hin : (cfg.inactiveLimit && (match b.volume with | some v => v == 0 | none => false)) = true
      · rw [if_pos hin] at h; exact absurd h (by simp)
      rw [if_neg hin] at h
      cases hfq : fillQty cfg ic o b tv with
      | none => rw [hfq] at h; simp only [] at h; split_ifs at h
      | some f =>
        rw [hfq] at h; simp only [] at h
        obtain ⟨h1, h2⟩ := finish_fill _ _ _ _ _ _ _ _ _ _ _ _ _ _ h
        subst h1
        refine ⟨rfl, h2, ?_⟩
        rintro ⟨hi, hv⟩
        apply hin
        simp [hi, hv]

theorem validPrice_pos (x : Option R) (d : R) (hd : x = some d) (hpos : 0 < d) : validPrice x = some d := by
  subst hd; unfold validPrice; simp only []; rw [if_pos hpos]

theorem fillQty_cases (cfg : MCfg) (ic : InsCfg) (o : Ord) (b : MBar) (tv : Int) (q : Int)
    (h : fillQty cfg ic o b tv = some q) :
    q = o.unfilled ∨ ∃ k : Int, 0 < k * ic.lot ∧ q = min o.unfilled (k * ic.lot) := by
  unfold fillQty at h
  split_ifs at h with hvl
  · cases hv : b.volume with
    | none => rw [hv] at h; simp only [] at h; injection h with h; exact Or.inl h.symm
    | some v =>
      rw [hv] at h; simp only [] at h
      split_ifs at h with hle
      injection h with h
      exact Or.inr ⟨_, not_le.mp hle, h.symm⟩
  · injection h with h; exact Or.inl h.symm

/-! ### the C06 theorems -/

/-- **C06.1** with price_limit on, no BUY fills when the prescribed price is at or above limit-up and no SELL at or
below limit-down (a market order is rejected, a limit order rests) -/
theorem no_fill_at_limit (cfg : MCfg) (hpl : cfg.priceLimit = true) (ic : InsCfg) (o : Ord) (b : MBar) (au : Bool)
    (tv : Int) (cash : R) (fee : Int → R → R) (ct : Int → Int) (deal : R) (hd : b.deal = some deal) (hpos : 0 < deal)
    (hlim : (o.isBuy = true ∧ ∃ u, b.limitUp = some u ∧ u ≤ deal) ∨ (o.isBuy = false ∧ ∃ d, b.limitDown = some d ∧ deal ≤ d)) :
    matchOrder cfg ic o b au tv cash fee ct = (if o.isLimit then .rest else .rejected) := by
  rw [matchOrder_eq, validPrice_pos _ _ hd hpos]
  simp only []
  have hps : priceStop cfg o b deal = some (if o.isLimit then .rest else .rejected) := by
    unfold priceStop
    rcases hlim with ⟨hb, u, hu, hle⟩ | ⟨hb, d, hdn, hle⟩
    · simp only [hu, hb, hpl]
      have : decide (deal ≥ u) = true := decide_eq_true hle
      simp only [this]
      split_ifs <;> simp_all
    · simp only [hdn, hb, hpl]
      have : decide (deal ≤ d) = true := decide_eq_true hle
      simp only [this]
      split_ifs <;> simp_all
  rw [hps]

/-- **C06.2** with inactive_limit on, nothing fills in a bar with zero volume -/
theorem no_fill_zero_volume (cfg : MCfg) (hil : cfg.inactiveLimit = true) (ic : InsCfg) (o : Ord) (b : MBar) (au : Bool)
    (tv : Int) (cash : R) (fee : Int → R → R) (ct : Int → Int) (hv : b.volume = some 0) :
    ∀ q p c cr, matchOrder cfg ic o b au tv cash fee ct ≠ .fill q p c cr := by
  intro q p c cr h
  exact (fill_inv _ _ _ _ _ _ _ _ _ _ _ _ _ h).2.2 ⟨hil, hv⟩

/-- the cap of a bar: `round(volume × volume_percent)` (half-even, as Python's `round`) -/
def cap (cfg : MCfg) (v : R) : Int := R.roundI (v * cfg.volumePercent)

theorem fillQty_vol (cfg : MCfg) (hvl : cfg.volumeLimit = true) (ic : InsCfg) (o : Ord) (b : MBar) (tv : Int) (v : R)
    (hv : b.volume = some v) (q : Int) (h : fillQty cfg ic o b tv = some q) :
    0 < (cap cfg v - tv) / ic.lot * ic.lot ∧ q = min o.unfilled ((cap cfg v - tv) / ic.lot * ic.lot) := by
  unfold fillQty at h
  rw [if_pos hvl, hv] at h
  simp only [] at h
  unfold cap
  split_ifs at h with hle
  injection h with h
  exact ⟨not_le.mp hle, h.symm⟩

/-- one call never fills more than what is left under the cap -/
theorem fill_within_cap (cfg : MCfg) (hvl : cfg.volumeLimit = true) (ic : InsCfg) (hlot : 0 < ic.lot) (o : Ord) (b : MBar)
    (au : Bool) (tv : Int) (cash : R) (fee : Int → R → R) (ct : Int → Int) (v : R) (hv : b.volume = some v)
    (q : Int) (p : R) (c : Int) (cr : Bool) (h : matchOrder cfg ic o b au tv cash fee ct = .fill q p c cr) :
    tv + q ≤ cap cfg v := by
  obtain ⟨hq, -, -⟩ := fill_inv _ _ _ _ _ _ _ _ _ _ _ _ _ h
  obtain ⟨-, rfl⟩ := fillQty_vol cfg hvl ic o b tv v hv q hq
  have h1 : (cap cfg v - tv) / ic.lot * ic.lot ≤ cap cfg v - tv := Int.ediv_mul_le _ (ne_of_gt hlot)
  have h2 := min_le_right o.unfilled ((cap cfg v - tv) / ic.lot * ic.lot)
  omega

/-- a sequence of match calls on one instrument between two `update`s: each call sees the turnover left by the previous -/
def runCalls (cfg : MCfg) (ic : InsCfg) (b : MBar) (cash : R) (fee : Int → R → R) (ct : Int → Int) :
    Int → List (Ord × Bool) → Int
  | tv, [] => tv
  | tv, (o, au) :: rest => runCalls cfg ic b cash fee ct (turnoverAfter tv (matchOrder cfg ic o b au tv cash fee ct)) rest

/-- **C06.3** for ANY sequence of orders matched against the same bar volume since the accumulator was cleared, the
total quantity filled on the instrument never exceeds the configured fraction of the bar's volume -/
theorem bar_cap (cfg : MCfg) (hvl : cfg.volumeLimit = true) (ic : InsCfg) (hlot : 0 < ic.lot) (b : MBar) (v : R)
    (hv : b.volume = some v) (cash : R) (fee : Int → R → R) (ct : Int → Int) (calls : List (Ord × Bool)) (tv : Int)
    (h0 : tv ≤ cap cfg v) : runCalls cfg ic b cash fee ct tv calls ≤ cap cfg v := by
  induction calls generalizing tv with
  | nil => exact h0
  | cons x rest ih =>
    obtain ⟨o, au⟩ := x
    unfold runCalls
    apply ih
    cases hm : matchOrder cfg ic o b au tv cash fee ct with
    | fill q p c cr =>
      exact fill_within_cap cfg hvl ic hlot o b au tv cash fee ct v hv q p c cr hm
    | rest => exact h0
    | rejected => exact h0
    | cancelled => exact h0
    | raises => exact h0

/-- … and when every fill so far is a whole number of lots the total stays within the cap rounded DOWN to whole lots.
(Without that hypothesis it fails: an odd-lot liquidation of 130 followed by a buy capped at ⌊(250−130)/100⌋·100 = 100
fills 230 where the whole-lot cap is 200 — finding F17.) -/
theorem bar_cap_whole_lots (cfg : MCfg) (hvl : cfg.volumeLimit = true) (ic : InsCfg) (hlot : 0 < ic.lot) (o : Ord) (b : MBar)
    (au : Bool) (tv : Int) (cash : R) (fee : Int → R → R) (ct : Int → Int) (v : R) (hv : b.volume = some v)
    (htv : ic.lot ∣ tv) (q : Int) (p : R) (c : Int) (cr : Bool)
    (h : matchOrder cfg ic o b au tv cash fee ct = .fill q p c cr) :
    tv + q ≤ (cap cfg v / ic.lot) * ic.lot := by
  have _ := hlot
  obtain ⟨hq, -, -⟩ := fill_inv _ _ _ _ _ _ _ _ _ _ _ _ _ h
  obtain ⟨-, rfl⟩ := fillQty_vol cfg hvl ic o b tv v hv q hq
  have h2 := min_le_right o.unfilled ((cap cfg v - tv) / ic.lot * ic.lot)
  have h3 : (cap cfg v - tv) / ic.lot * ic.lot = cap cfg v / ic.lot * ic.lot - tv := by
    rw [Int.sub_ediv_of_dvd _ htv, Int.sub_mul, Int.ediv_mul_cancel htv]
  omega


theorem odd_lot_exceeds_whole_lot_cap :
    ∃ (cfg : MCfg) (ic : InsCfg) (o : Ord) (b : MBar) (tv : Int) (v : R) (q : Int) (p : R) (c : Int) (cr : Bool),
      cfg.volumeLimit = true ∧ b.volume = some v ∧ matchOrder cfg ic o b false tv 1000000 (fun _ _ => 0) (fun _ => 0) = .fill q p c cr ∧
      (cap cfg v / ic.lot) * ic.lot < tv + q := by
  refine ⟨⟨true, true, true, 1/4, .priceRatio 0⟩, ⟨false, 1, 0, 1, true, 100⟩,
    ⟨1, 1, true, false, 0, .open_, 500, 0, .active, 0, 0, 10, 5005⟩, ⟨some 10, some 11, some 9, some 1000, false⟩,
    130, 1000, 100, 10, 0, true, rfl, rfl, ?_, ?_⟩
  · decide +kernel
  · decide +kernel

/-- **C06.4** every fill is positive, at most the order's unfilled remainder, and either a whole number of lots or that
entire remainder -/
theorem fill_shape (cfg : MCfg) (ic : InsCfg) (hlot : 0 < ic.lot) (o : Ord) (hu : 0 < o.unfilled) (b : MBar) (au : Bool)
    (tv : Int) (cash : R) (fee : Int → R → R) (ct : Int → Int) (q : Int) (p : R) (c : Int) (cr : Bool)
    (h : matchOrder cfg ic o b au tv cash fee ct = .fill q p c cr) :
    0 < q ∧ q ≤ o.unfilled ∧ (ic.lot ∣ q ∨ q = o.unfilled) := by
  have _ := hlot
  obtain ⟨hq, -, -⟩ := fill_inv _ _ _ _ _ _ _ _ _ _ _ _ _ h
  rcases fillQty_cases _ _ _ _ _ _ hq with rfl | ⟨k, hk, rfl⟩
  · exact ⟨hu, le_refl _, Or.inr rfl⟩
  · refine ⟨lt_min hu hk, min_le_left _ _, ?_⟩
    rcases min_choice o.unfilled (k * ic.lot) with hm | hm
    · exact Or.inr hm
    · left; rw [hm]; exact Dvd.intro_left k rfl

/-- **C06.5** a market order never stays partially open: if it fills less than its remainder the rest is cancelled at once -/
theorem market_never_partial (cfg : MCfg) (ic : InsCfg) (o : Ord) (hm : o.isLimit = false) (b : MBar) (au : Bool) (tv : Int)
    (cash : R) (fee : Int → R → R) (ct : Int → Int) (q : Int) (p : R) (c : Int) (cr : Bool)
    (h : matchOrder cfg ic o b au tv cash fee ct = .fill q p c cr) : cr = decide (q ≠ o.unfilled) := by
  obtain ⟨-, hcr, -⟩ := fill_inv _ _ _ _ _ _ _ _ _ _ _ _ _ h
  rw [hcr, hm]
  simp only [Bool.not_false, Bool.true_and]
  apply decide_eq_decide.mpr
  constructor <;> intro h1 h2 <;> apply h1 <;> omega

/-- a market order that cannot fill at all because the cap is exhausted is cancelled; a limit order rests -/
theorem cap_exhausted (cfg : MCfg) (hvl : cfg.volumeLimit = true) (hil : cfg.inactiveLimit = false) (ic : InsCfg)
    (hlot : 0 < ic.lot) (o : Ord) (b : MBar) (au : Bool) (tv : Int) (cash : R) (fee : Int → R → R) (ct : Int → Int)
    (v : R) (hv : b.volume = some v) (hex : cap cfg v - tv < ic.lot) (deal : R) (hd : b.deal = some deal) (hpos : 0 < deal)
    (hnolim : b.limitUp = none ∧ b.limitDown = none)
    (hlp : o.isLimit = true → (o.isBuy = true → deal ≤ o.limitPrice) ∧ (o.isBuy = false → o.limitPrice ≤ deal)) :
    matchOrder cfg ic o b au tv cash fee ct = (if o.isLimit then .rest else .cancelled) := by
  rw [matchOrder_eq, validPrice_pos _ _ hd hpos]
  simp only []
  have hps : priceStop cfg o b deal = none := by
    unfold priceStop
    simp only [hnolim.1, hnolim.2, Bool.and_false, Bool.or_false, Bool.false_eq_true, if_false]
    by_cases hl : o.isLimit = true
    · obtain ⟨h1, h2⟩ := hlp hl
      rw [if_pos hl]
      cases hb : o.isBuy with
      | true =>
        have := h1 hb
        simp [not_lt.mpr this]
      | false =>
        have := h2 hb
        simp [not_lt.mpr this]
    · rw [if_neg hl]
  rw [hps]
  simp only [hil, Bool.false_and, Bool.false_eq_true, if_false]
  have hfq : fillQty cfg ic o b tv = none := by
    unfold fillQty
    rw [if_pos hvl, hv]
    simp only []
    have h1 : (cap cfg v - tv) / ic.lot < 1 := Int.ediv_lt_of_lt_mul hlot (by omega)
    have h2 : (cap cfg v - tv) / ic.lot * ic.lot ≤ 0 :=
      Int.mul_nonpos_of_nonpos_of_nonneg (by omega) (le_of_lt hlot)
    unfold cap at h2
    rw [if_pos h2]
  rw [hfq]

/-- an unfilled / partly filled LIMIT order is never cancelled or rejected by the matcher for lack of volume or price:
the only final outcome a limit order can get from `match` besides fills is a rejection for an invalid price on its
listing day or for cash after slippage, or a cancellation in a zero-volume bar -/
theorem limit_rests (cfg : MCfg) (ic : InsCfg) (o : Ord) (hl : o.isLimit = true) (b : MBar) (au : Bool) (tv : Int) (cash : R)
    (fee : Int → R → R) (ct : Int → Int) (hc : matchOrder cfg ic o b au tv cash fee ct = .cancelled) :
    cfg.inactiveLimit = true ∧ b.volume = some 0 := by
  rw [matchOrder_eq] at hc
  cases hvp : validPrice b.deal with
  | none => rw [hvp] at hc; simp only [] at hc; split_ifs at hc
  | some deal =>
    rw [hvp] at hc; simp only [] at hc
    cases hps : priceStop cfg o b deal with
    | some r =>
      rw [hps] at hc; simp only [] at hc; subst hc
      exfalso
      unfold priceStop at hps
      simp only [hl, if_true] at hps
      split_ifs at hps <;> exact absurd hps (by simp)
    | none =>
      rw [hps] at hc; simp only [] at hc
      by_cases hin : (cfg.inactiveLimit && (match b.volume with | some v => v == 0 | none => false)) = true
      · cases hv : b.volume with
        | none => rw [hv] at hin; simp at hin
        | some v =>
          rw [hv] at hin
          simp only [Bool.and_eq_true, beq_iff_eq] at hin
          exact ⟨hin.1, by rw [hin.2]⟩
      · rw [if_neg hin] at hc
        exfalso
        cases hfq : fillQty cfg ic o b tv with
        | none => rw [hfq] at hc; simp only [hl, if_true] at hc; exact absurd hc (by simp)
        | some f =>
          rw [hfq] at hc; simp only [] at hc
          unfold finish at hc
          simp only [] at hc
          split at hc
          · exact absurd hc (by simp)
          · split at hc
            · exact absurd hc (by simp)
            · split_ifs at hc

/-- non-vacuity: volume 1000, 25 %: cap 250; 100 already filled; a market buy of 500 gets 100 and the rest is cancelled -/
example : matchOrder ⟨true, true, true, 1/4, .priceRatio 0⟩ ⟨false, 1, 0, 1, true, 100⟩
    ⟨1, 1, true, false, 0, .open_, 500, 0, .active, 0, 0, 10, 5005⟩ ⟨some 10, some 11, some 9, some 1000, false⟩ false 100 100000
    (fun _ _ => 5) (fun _ => 0) = .fill 100 10 0 true := by
  decide +kernel


/-! ### signal mode (`SignalBroker`) -/

/-- signal mode with `price_limit`: a BUY whose deal price (own limit price / last price) is at or above limit-up is rejected -/
theorem signal_buy_at_limit_up_rejected (slip : Slip) (o : Ord) (b : MBar) (ct : Int → Int) (last u : R)
    (hv : validPrice b.deal = some last) (hu : b.limitUp = some u) (hb : o.isBuy = true)
    (hat : signalDeal o last ≥ u) :
    signalMatch true slip o b ct = .rejected := by
  unfold signalMatch
  rw [hv]
  have : signalAtLimit o b (signalDeal o last) = true := by
    unfold signalAtLimit
    rw [hu, hb]
    simpa using hat
  simp [this]

/-- … and a SELL at or below limit-down -/
theorem signal_sell_at_limit_down_rejected (slip : Slip) (o : Ord) (b : MBar) (ct : Int → Int) (last d : R)
    (hv : validPrice b.deal = some last) (hd : b.limitDown = some d) (hb : o.isBuy = false)
    (hat : signalDeal o last ≤ d) :
    signalMatch true slip o b ct = .rejected := by
  unfold signalMatch
  rw [hv]
  have : signalAtLimit o b (signalDeal o last) = true := by
    unfold signalAtLimit
    rw [hd, hb]
    simpa using hat
  simp [this]

/-- without `price_limit` the limits do not stop a signal-mode order -/
theorem signal_no_price_limit_ignores_band (slip : Slip) (o : Ord) (b : MBar) (ct : Int → Int) (last : R)
    (hv : validPrice b.deal = some last) :
    signalMatch false slip o b ct = .raises ∨ ∃ p, signalMatch false slip o b ct = .fill o.qty p (ct o.qty) false := by
  unfold signalMatch
  rw [hv]
  simp only [Bool.false_and, Bool.false_eq_true, if_false]
  cases hs : slipPrice slip o.isBuy o.isLimit o.limitPrice b (signalDeal o last) with
  | none => exact Or.inl rfl
  | some price => exact Or.inr ⟨price, rfl⟩


/-! ### whole runs of the composed world (`RQ/Model/World.lean`) -/

/-- **C06.1 for whole runs**: with price_limit on, no run of the composed world ever publishes a TRADE of a BUY order while the
prescribed price of the bar in force is at or above limit-up, nor of a SELL order at or below limit-down -/
theorem world_no_trade_at_limit (w : World) (ins : List WIn) (id : Nat) (q : Int) (p fee : R)
    (h : WEv.order (.trade id q p fee) ∈ (w.run ins).2) :
    ∃ ws ∈ RQ.Lemmas.WorldA.states w ins, ∃ (auction : Bool) (o : Ord) (wi : WIns) (d : DayIns),
      id = o.id ∧ ws.cfg.find o.ins = some wi ∧ ws.dayOf o.ins = some d ∧
      (ws.cfg.priceLimit = true → ∀ deal, (if auction then d.auc else d.bar).deal = some deal → 0 < deal →
        ¬ ((o.isBuy = true ∧ ∃ u, (if auction then d.auc else d.bar).limitUp = some u ∧ u ≤ deal) ∨
           (o.isBuy = false ∧ ∃ dn, (if auction then d.auc else d.bar).limitDown = some dn ∧ deal ≤ dn))) := by
  obtain ⟨ws, hws, auction, o, wi, d, tv, cash, ct, cr, hid, hwi, hd, hm⟩ := RQ.Lemmas.WorldA.run_trade w ins id q p fee h
  refine ⟨ws, hws, auction, o, wi, d, hid, hwi, hd, ?_⟩
  intro hpl deal hdeal hpos hlim
  have := no_fill_at_limit (ws.mcfg wi) hpl wi.cfg o (if auction then d.auc else d.bar) auction tv cash (fun _ _ => fee) (fun _ => ct)
    deal hdeal hpos hlim
  rw [this] at hm
  split_ifs at hm

/-- **C06.2 for whole runs**: with inactive_limit on, no TRADE is ever published against a bar whose volume is zero -/
theorem world_no_trade_zero_volume (w : World) (ins : List WIn) (id : Nat) (q : Int) (p fee : R)
    (h : WEv.order (.trade id q p fee) ∈ (w.run ins).2) :
    ∃ ws ∈ RQ.Lemmas.WorldA.states w ins, ∃ (auction : Bool) (o : Ord) (wi : WIns) (d : DayIns),
      id = o.id ∧ ws.cfg.find o.ins = some wi ∧ ws.dayOf o.ins = some d ∧
      (ws.cfg.inactiveLimit = true → (if auction then d.auc else d.bar).volume ≠ some 0) := by
  obtain ⟨ws, hws, auction, o, wi, d, tv, cash, ct, cr, hid, hwi, hd, hm⟩ := RQ.Lemmas.WorldA.run_trade w ins id q p fee h
  refine ⟨ws, hws, auction, o, wi, d, hid, hwi, hd, ?_⟩
  intro hil hv
  exact no_fill_zero_volume (ws.mcfg wi) hil wi.cfg o (if auction then d.auc else d.bar) auction tv cash (fun _ _ => fee) (fun _ => ct) hv
    q p ct cr hm


/-- **C06.3 for whole daily back-tests of the composed system**: with volume_limit on and positive lots, from an empty accumulator, any number of
days in the executor's order, any market whose auction bar carries the day's volume (how the daily data source builds it), any calls in the
two callbacks: after EVERY prefix of the run the quantity filled on every instrument since the accumulator was last cleared — everything that
filled in today's auction, resp. today's bar, whoever sent it — is within `round(volume × volume_percent)` of the volume in force -/
theorem world_turnover_within_cap (w : World) (days : List RQ.Lemmas.WorldF.Day) (hc : ∀ d ∈ days, d.CallsOnly)
    (hcfg : RQ.Lemmas.WorldM.CfgOk w) (hd : w.cfg.daily = true) (ht : w.turnover = [])
    (hvol : ∀ d ∈ days, ∀ r ∈ d.mkt, r.auc.volume = r.bar.volume)
    (pre post : List WIn) (hsplit : days.flatMap RQ.Lemmas.WorldF.Day.inputs = pre ++ post) :
    RQ.Lemmas.WorldM.TurnoverOk (w.run pre).1 :=
  RQ.Lemmas.WorldM.days_turnover_within_cap_partial w days hc hcfg hd ht hvol pre post hsplit

/-- … and without the assumption on the data under immediate matching (the auction book is drained by every submission) -/
theorem world_turnover_within_cap_immediate (w : World) (days : List RQ.Lemmas.WorldF.Day) (hc : ∀ d ∈ days, d.CallsOnly)
    (hcfg : RQ.Lemmas.WorldM.CfgOk w) (hd : w.cfg.daily = true) (ht : w.turnover = [])
    (himm : w.cfg.matchImmediately = true) (hbook : w.auctionOrders = [])
    (pre post : List WIn) (hsplit : days.flatMap RQ.Lemmas.WorldF.Day.inputs = pre ++ post) :
    RQ.Lemmas.WorldM.TurnoverOk (w.run pre).1 :=
  RQ.Lemmas.WorldM.days_turnover_within_cap_matchImmediately w days hc hcfg hd ht himm hbook pre post hsplit

/-- the statement without either assumption is false (kernel-checked): an order resting in the auction book under non-immediate matching fills at
the bar event up to the cap of the AUCTION volume and is counted against the bar's -/
theorem world_turnover_cap_needs_an_assumption :
    ¬ (∀ (w : World) (days : List RQ.Lemmas.WorldF.Day), (∀ d ∈ days, d.CallsOnly) → RQ.Lemmas.WorldM.CfgOk w → w.cfg.daily = true → w.turnover = [] →
        ∀ (pre post : List WIn), days.flatMap RQ.Lemmas.WorldF.Day.inputs = pre ++ post → RQ.Lemmas.WorldM.TurnoverOk (w.run pre).1) :=
  RQ.Lemmas.WorldM.days_turnover_within_cap_counterexample

end RQ.Props.C06

/-
C02 — Futures account: margin and daily mark-to-market conserve value.
Theorems over `RQ/Model/Position.lean` and `RQ/Model/Account.lean` (instance `R := Rat`).
-/
import RQ.Model.Account
import Mathlib.Tactic.Linarith
import Mathlib.Tactic.Ring
import Mathlib.Tactic.FieldSimp
import Mathlib.Tactic.SplitIfs

namespace RQ.Props.C02
open RQ.Q

def FutCfg (c : InsCfg) : Prop := c.isFuture = true

/-- unrealised profit at the latest price: `q · (last − carrying price) · multiplier`, signed by direction -/
theorem equity_formula (c : InsCfg) (hc : FutCfg c) (p : Pos) :
    p.equity c = (p.qty : Rat) * (p.last - p.avg) * c.mult * p.dirFactor := by
  unfold FutCfg at hc
  simp only [Pos.equity, hc, if_true, R.ofInt]

/-- **margin per direction** = quantity × latest price × multiplier × margin rate × margin multiplier -/
theorem margin_formula (c : InsCfg) (hc : FutCfg c) (p : Pos) :
    p.margin c = (p.qty : Rat) * p.last * c.mult * c.marginRatio * c.marginMult := by
  unfold FutCfg at hc
  simp only [Pos.margin, Pos.marketValue, hc, if_true, R.ofInt]
  by_cases h : p.qty = 0
  · simp [h]
  · simp only [ne_eq, h, not_false_eq_true, if_true]; ring

/-- **opening fill**: cash changes by the fee only; value (`equity + cash`) changes by the distance of the fill from
the mark and by the fee; the carrying price becomes the quantity-weighted average -/
theorem open_effect (c : InsCfg) (hc : FutCfg c) (p : Pos) (t : TradeIn) (ht : t.effect = .open_) (hq : 0 ≤ p.qty)
    (hne : p.qty + t.qty ≠ 0) :
    (p.applyTradeFuture c t).2 = -t.fee ∧ (p.applyTradeFuture c t).1.qty = p.qty + t.qty ∧
    (p.applyTradeFuture c t).1.avg * ((p.qty + t.qty : Int) : Rat) = p.avg * (p.qty : Rat) + t.price * (t.qty : Rat) ∧
    (p.applyTradeFuture c t).1.equity c + (p.applyTradeFuture c t).2 =
      p.equity c + (p.last - t.price) * (t.qty : Rat) * c.mult * p.dirFactor - t.fee := by
  unfold FutCfg at hc
  have hnl : ¬ p.qty < 0 := not_lt.mpr hq
  have hne' : ((p.qty : Rat) + (t.qty : Rat)) ≠ 0 := by
    intro h; apply hne; exact_mod_cast h
  simp only [Pos.applyTradeFuture, Pos.applyTradeBase, ht, Pos.equity, hc, if_true, R.ofInt, hnl, if_false,
    Pos.dirFactor]
  refine ⟨by push_cast; ring, trivial, ?_, ?_⟩
  · push_cast; field_simp
  · push_cast; field_simp; ring

/-- **closing fill** (CLOSE or CLOSE_TODAY): cash receives the realised profit against the carrying price,
`(fill − carrying) · q · multiplier` signed by direction, minus the fee; carrying price unchanged -/
theorem close_effect (c : InsCfg) (hc : FutCfg c) (p : Pos) (t : TradeIn) (ht : t.effect ≠ .open_) :
    (p.applyTradeFuture c t).2 = (t.price - p.avg) * (t.qty : Rat) * c.mult * p.dirFactor - t.fee ∧
    (p.applyTradeFuture c t).1.qty = p.qty - t.qty ∧ (p.applyTradeFuture c t).1.avg = p.avg ∧
    (p.applyTradeFuture c t).1.equity c + (p.applyTradeFuture c t).2 =
      p.equity c + (t.price - p.last) * (t.qty : Rat) * c.mult * p.dirFactor - t.fee := by
  unfold FutCfg at hc
  cases he : t.effect with
  | open_ => exact absurd he ht
  | close =>
    simp only [Pos.applyTradeFuture, Pos.applyTradeBase, he, Pos.equity, hc, if_true, R.ofInt, Pos.dirFactor]
    refine ⟨by push_cast; ring, trivial, trivial, ?_⟩
    push_cast; ring
  | closeToday =>
    simp only [Pos.applyTradeFuture, he, Pos.equity, hc, if_true, R.ofInt, Pos.dirFactor]
    refine ⟨by push_cast; ring, trivial, trivial, ?_⟩
    push_cast; ring

/-- an ordinary close consumes yesterday's quantity before today's; close-today does not touch yesterday's -/
theorem close_old_first (c : InsCfg) (p : Pos) (t : TradeIn) :
    (t.effect = .close → (p.applyTradeFuture c t).1.oldQty = p.oldQty - min t.qty p.oldQty) ∧
    (t.effect = .closeToday → (p.applyTradeFuture c t).1.oldQty = p.oldQty) := by
  constructor
  · intro he
    simp only [Pos.applyTradeFuture, Pos.applyTradeBase, he]
  · intro he
    simp only [Pos.applyTradeFuture, he]

set_option linter.unusedVariables false in
/-- the close-today quantity the matcher stamps on a trade (commission at the close-today rate, C11.3) is exactly the
quantity the position update takes out of TODAY's holding -/
theorem close_today_consistent (c : InsCfg) (hc : FutCfg c) (p : Pos) (t : TradeIn) (ht : t.effect ≠ .open_)
    (h0 : 0 ≤ p.oldQty) (hq : 0 ≤ t.qty) (hle : t.effect = .closeToday → t.qty ≤ p.qty - p.oldQty) :
    let today := p.qty - p.oldQty
    let today' := (p.applyTradeFuture c t).1.qty - (p.applyTradeFuture c t).1.oldQty
    p.closeTodayAmount c t.qty t.effect = today - today' := by
  unfold FutCfg at hc
  cases he : t.effect with
  | open_ => exact absurd he ht
  | close =>
    simp only [Pos.applyTradeFuture, Pos.applyTradeBase, he, Pos.closeTodayAmount, hc, Bool.not_true, Bool.false_eq_true,
      if_false]
    omega
  | closeToday =>
    have := hle he
    simp only [Pos.applyTradeFuture, he, Pos.closeTodayAmount, hc, Bool.not_true, Bool.false_eq_true, if_false, this,
      if_true]
    omega

/-- **daily settlement** moves the unrealised profit into cash and rebases the carrying price to the settlement price:
in close-price mode total value is unchanged; in settlement-price mode it changes by the pure price move
`q · (settle − last) · multiplier` -/
theorem settlement_neutral (c : InsCfg) (hc : FutCfg c) (p : Pos) (settle : Option R) :
    let r := p.settlementFuture c settle false
    let s := settle.getD p.last
    r.1.equity c + r.2.1 = p.equity c + (p.qty : Rat) * (s - p.last) * c.mult * p.dirFactor ∧
    (p.qty ≠ 0 → r.1.avg = s ∧ r.1.last = s ∧ r.1.equity c = 0) ∧ r.1.qty = p.qty ∧ r.2.2 = none := by
  unfold FutCfg at hc
  intro r s
  by_cases hq : p.qty = 0
  · have hr : r = (p, 0, none) := by simp only [r, Pos.settlementFuture, hq, if_true]
    rw [hr]
    refine ⟨?_, fun h => absurd hq h, rfl, rfl⟩
    simp [hq]
  · cases settle with
    | none =>
      have hr : r = ({ p with avg := p.last }, 0 + p.equity c, none) := by
        simp [r, Pos.settlementFuture, hq]
      rw [hr]
      simp only [s, Option.getD_none, Pos.equity, hc, if_true, R.ofInt, Pos.dirFactor]
      refine ⟨by ring, fun _ => ⟨trivial, trivial, by ring⟩, trivial, trivial⟩
    | some v =>
      have hr : r = ({ p with last := v, avg := v }, 0 + ({ p with last := v } : Pos).equity c, none) := by
        simp [r, Pos.settlementFuture, hq]
      rw [hr]
      simp only [s, Option.getD_some, Pos.equity, hc, if_true, R.ofInt, Pos.dirFactor]
      refine ⟨by ring, fun _ => ⟨trivial, trivial, by ring⟩, trivial, trivial⟩

/-- **expiry**: an expiring contract is closed at its final settlement price: no position, no margin, nothing
unrealised; the value goes to cash (`delta_cash` = unrealised profit at that price); the close-out trade is at that price
with zero fee -/
theorem expiry_flat (c : InsCfg) (hc : FutCfg c) (p : Pos) (settle : Option R) (hq : p.qty ≠ 0) :
    let r := p.settlementFuture c settle true
    let s := settle.getD p.last
    r.1.qty = 0 ∧ r.1.oldQty = 0 ∧ r.1.margin c = 0 ∧ r.1.equity c = 0 ∧
    r.2.1 = (p.qty : Rat) * (s - p.avg) * c.mult * p.dirFactor ∧
    (∃ t, r.2.2 = some t ∧ t.price = s ∧ t.qty = p.qty ∧ t.fee = 0 ∧ t.effect = .close) := by
  unfold FutCfg at hc
  intro r s
  cases settle with
  | none =>
    simp only [r, s, Pos.settlementFuture, hq, if_false, if_true, Pos.applyTradeFuture, Pos.applyTradeBase,
      Option.getD_none, Pos.equity, Pos.margin, Pos.marketValue, hc, R.ofInt, Pos.dirFactor]
    refine ⟨trivial, trivial, by simp, by simp, by ring, ⟨_, rfl, rfl, rfl, by simp, rfl⟩⟩
  | some v =>
    simp only [r, s, Pos.settlementFuture, hq, if_false, if_true, Pos.applyTradeFuture, Pos.applyTradeBase,
      Option.getD_some, Pos.equity, Pos.margin, Pos.marketValue, hc, R.ofInt, Pos.dirFactor]
    refine ⟨trivial, trivial, by simp, by simp, by ring, ⟨_, rfl, rfl, rfl, by simp, rfl⟩⟩

theorem foldl_add_eq_sum (l : List Rat) (z : Rat) : l.foldl (· + ·) z = z + l.sum := by
  induction l generalizing z with
  | nil => simp
  | cons x xs ih => simp [List.foldl_cons, ih, add_assoc]

theorem pysum_eq_sum (l : List Rat) : R.pysum l = l.sum := by
  unfold R.pysum; rw [foldl_add_eq_sum]; simp

/-- **available cash** = total value − unrealised profit − margin − reserved cash (account without liabilities and
without deposits in transit) -/
theorem cash_eq (a : Acct) (hl : a.liabilities = 0) (hp : a.pending = []) :
    a.cash = a.totalValue - a.positionEquity - a.margin - a.frozen := by
  simp only [Acct.cash, Acct.totalValue, Acct.liabInterest, hl, hp, List.isEmpty_nil, if_true]
  ring

/-- **forced liquidation**: with the switch on, an account whose value is not positive at settlement is flattened:
no positions, zero cash balance, and its total value is what is left outside the cash balance — exactly zero when there
are no liabilities and no deposits in transit -/
theorem forced_liquidation_zero (a : Acct) (i : STInput) (hf : i.forced = true)
    (hneg : (a.onSettlement { i with forced := false }).totalValue ≤ 0) :
    (a.onSettlement i).holdings = [] ∧ (a.onSettlement i).totalCash = 0 ∧
    (a.liabilities = 0 → a.pending = [] → (a.onSettlement i).totalValue = 0) := by
  simp only [Acct.onSettlement, Bool.and_false, Bool.false_eq_true, if_false] at hneg
  simp only [Acct.onSettlement, hf, Bool.and_true, decide_eq_true_eq]
  rw [if_pos hneg]
  refine ⟨rfl, rfl, ?_⟩
  intro hl hp
  simp [Acct.totalValue, Acct.liabInterest, hl, hp, Acct.positionEquity, Acct.iterPos, R.pysum]

/-- the "exactly zero" clause needs `pending = []`: a deposit in transit survives the liquidation (finding F14) -/
theorem forced_liquidation_leaves_pending :
    ∃ (a : Acct) (i : STInput), i.forced = true ∧ a.liabilities = 0 ∧
      (a.onSettlement { i with forced := false }).totalValue ≤ 0 ∧ (a.onSettlement i).totalValue = 100 := by
  refine ⟨⟨-150, 0, 0, [(1, 100)], 0, 0, 0, []⟩, ⟨fun _ => .none, fun _ => none, fun _ => false, true⟩, ?_⟩
  decide +kernel

/-- without forced liquidation (or with positive value) settlement changes the cash balance by the settled profits
minus the management fee (cf. C01 `st_cash_ledger`); stated here for one futures holding -/
theorem settlement_value_one_holding (h : Holding) (hc : FutCfg h.cfg) (a : Acct) (ha : a.holdings = [h])
    (hm : a.mgmtRate = 0) (i : STInput) (hf : i.forced = false) (hs : i.settle h.ins = none) (he : i.expires h.ins = false) :
    (a.onSettlement i).totalCash + (a.onSettlement i).positionEquity = a.totalCash + a.positionEquity := by
  have hL := (settlement_neutral h.cfg hc h.long none).1
  have hS := (settlement_neutral h.cfg hc h.short none).1
  simp only [Option.getD_none, sub_self, mul_zero, zero_mul, add_zero] at hL hS
  simp only [Acct.onSettlement, ha, hf, hs, he, hm, Bool.and_false, Bool.false_eq_true, if_false, List.foldl_cons,
    List.foldl_nil, (show h.cfg.isFuture = true from hc), if_true, List.nil_append, Acct.positionEquity, Acct.iterPos,
    List.flatMap_cons, List.flatMap_nil, List.append_nil, List.map_cons, List.map_nil, R.pysum, beq_self_eq_true,
    sub_zero]
  linarith

/-- non-vacuity: long 3 lots opened at 3000, marked 3010, multiplier 10, margin 10% -/
example : ((⟨true, 3, 0, 0, 3000, 9000, 9, 3010, 0, none⟩ : Pos).equity ⟨true, 10, 1/10, 1, false, 1⟩ = 300) ∧
    ((⟨true, 3, 0, 0, 3000, 9000, 9, 3010, 0, none⟩ : Pos).margin ⟨true, 10, 1/10, 1, false, 1⟩ = 9030) := by
  decide +kernel

end RQ.Props.C02

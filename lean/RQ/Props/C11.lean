/-
C11 — Transaction costs follow the published schedule, independent of fill splitting.
Theorems over the model `RQ/Model/Cost.lean` (instance `R := Rat`) and the constants regenerated from
`deciders.py` (`RQ/GenR/Consts.lean`, `RQ/Gen/Tables.lean`).
-/
import RQ.Model.Cost
import RQ.GenR.Consts
import RQ.Gen.Tables
import Mathlib.Tactic.Linarith
import Mathlib.Tactic.Ring
import Mathlib.Tactic.SplitIfs
import Mathlib.Tactic.Positivity
import RQ.Lemmas.WorldK

namespace RQ.Props.C11
open RQ.Q

/-! ### 1. Stock commission: total depends only on turnover -/

/-- raw commissions of a fill list -/
def rawList (cfg : StockCostCfg) (fills : List (R × R)) : List R := fills.map (fun f => rawCommission cfg f.1 f.2)

/-- invariant of the decider's per-order state after at least one fill: `S` is the raw commission so far,
`rem` the map entry, `tot` the commission charged so far. -/
def Inv (m S rem tot : R) : Prop :=
  (S ≤ m ∧ rem = m - S ∧ tot = m) ∨ (m ≤ S ∧ rem = 0 ∧ tot = S)

theorem step_inv (cfg : StockCostCfg) (S rem tot p q : R) (hS : 0 < S)
    (hc : 0 < rawCommission cfg p q) (h : Inv cfg.minC S rem tot) :
    Inv cfg.minC (S + rawCommission cfg p q) (tradeCommission cfg rem p q).2 (tot + (tradeCommission cfg rem p q).1) := by
  unfold Inv tradeCommission at *
  simp only [beq_iff_eq]
  generalize rawCommission cfg p q = c at *
  rcases h with ⟨h1, h2, h3⟩ | ⟨h1, h2, h3⟩
  · split_ifs with a b b
    · exfalso; linarith
    · right; refine ⟨by linarith, rfl, by simp only; linarith⟩
    · exfalso; linarith
    · left; refine ⟨by linarith, by simp only; linarith, by simp only; linarith⟩
  · split_ifs with a b b
    · right; refine ⟨by linarith, rfl, by simp only; linarith⟩
    · right; refine ⟨by linarith, rfl, by simp only; linarith⟩
    · exfalso; linarith
    · exfalso; linarith

theorem first_inv (cfg : StockCostCfg) (p q : R) (hc : 0 < rawCommission cfg p q) :
    Inv cfg.minC (rawCommission cfg p q) (tradeCommission cfg cfg.minC p q).2 (tradeCommission cfg cfg.minC p q).1 := by
  unfold Inv tradeCommission
  simp only [beq_iff_eq]
  generalize rawCommission cfg p q = c at *
  split_ifs with a
  · right; exact ⟨by linarith, rfl, rfl⟩
  · left; exact ⟨by linarith, rfl, rfl⟩

theorem all_inv (cfg : StockCostCfg) : ∀ (fills : List (R × R)) (S rem tot : R), 0 < S →
    (∀ f ∈ fills, 0 < rawCommission cfg f.1 f.2) → Inv cfg.minC S rem tot →
    ∃ rem', Inv cfg.minC (S + (rawList cfg fills).sum) rem' (tot + (chargeFills cfg rem fills).sum)
  | [], S, rem, tot, _, _, h => ⟨rem, by simpa [chargeFills, rawList] using h⟩
  | (p, q) :: fs, S, rem, tot, hS, hpos, h => by
    have hc : 0 < rawCommission cfg p q := hpos (p, q) (by simp)
    have h' := step_inv cfg S rem tot p q hS hc h
    obtain ⟨rem', hr⟩ := all_inv cfg fs (S + rawCommission cfg p q) _ _ (by linarith)
      (fun f hf => hpos f (by simp [hf])) h'
    refine ⟨rem', ?_⟩
    simpa [chargeFills, rawList, add_assoc] using hr

/-- **C11.1** For every fill sequence of one order whose per-fill raw commissions are positive, the sum of the
commissions charged by `get_trade_commission` equals `max(min_commission, Σ raw)`. -/
theorem stock_commission_total (cfg : StockCostCfg) (f : R × R) (fs : List (R × R))
    (hpos : ∀ x ∈ f :: fs, 0 < rawCommission cfg x.1 x.2) :
    (chargeFills cfg cfg.minC (f :: fs)).sum = max cfg.minC (rawList cfg (f :: fs)).sum := by
  obtain ⟨p, q⟩ := f
  have hc : 0 < rawCommission cfg p q := hpos (p, q) (by simp)
  obtain ⟨rem', h2⟩ := all_inv cfg fs _ _ _ hc (fun x hx => hpos x (by simp [hx])) (first_inv cfg p q hc)
  simp only [chargeFills, rawList, List.map_cons, List.sum_cons] at *
  unfold Inv at h2
  rcases h2 with ⟨a, _, b⟩ | ⟨a, _, b⟩
  · rw [b, max_eq_left a]
  · rw [b, max_eq_right a]

/-- the raw total is `rate × multiplier × turnover`: it depends on the fills only through the turnover -/
theorem raw_sum_eq_rate_turnover (cfg : StockCostCfg) (fills : List (R × R)) :
    (rawList cfg fills).sum = cfg.rate * cfg.mult * (fills.map (fun f => f.1 * f.2)).sum := by
  induction fills with
  | nil => simp [rawList]
  | cons f fs ih =>
    simp only [rawList, List.map_cons, List.sum_cons] at *
    rw [ih]; unfold rawCommission; ring

/-- **C11.1 (corollary)** two ways of splitting an order into fills with the same turnover are charged the same total -/
theorem stock_commission_split_independent (cfg : StockCostCfg) (f g : R × R) (fs gs : List (R × R))
    (hf : ∀ x ∈ f :: fs, 0 < rawCommission cfg x.1 x.2) (hg : ∀ x ∈ g :: gs, 0 < rawCommission cfg x.1 x.2)
    (hturn : ((f :: fs).map (fun x => x.1 * x.2)).sum = ((g :: gs).map (fun x => x.1 * x.2)).sum) :
    (chargeFills cfg cfg.minC (f :: fs)).sum = (chargeFills cfg cfg.minC (g :: gs)).sum := by
  rw [stock_commission_total cfg f fs hf, stock_commission_total cfg g gs hg,
      raw_sum_eq_rate_turnover, raw_sum_eq_rate_turnover, hturn]

/-- the full-strength statement (no positivity hypothesis) -/
def StockCommissionTotalFull : Prop :=
  ∀ (cfg : StockCostCfg) (f : R × R) (fs : List (R × R)),
    (chargeFills cfg cfg.minC (f :: fs)).sum = max cfg.minC (rawList cfg (f :: fs)).sum

/-- the excluded region is real (finding F6a): with a zero raw commission (commission_multiplier = 0) every fill is
charged the whole minimum: three fills cost 15, one fill costs 5. -/
theorem stock_commission_total_full_false : ¬ StockCommissionTotalFull := by
  intro h
  have := h { rate := 8/10000, mult := 0, minC := 5, taxRate := 0, taxMult := 0 } (10, 100) [(10, 100), (10, 100)]
  revert this
  decide +kernel

/-- non-vacuity: a three-fill order around the minimum (raw 1.6, 2.4, 4.0 against min 5) satisfies the hypotheses -/
example : ∀ x ∈ [((10 : R), (200 : R)), (10, 300), (10, 500)],
    0 < rawCommission { rate := 8/10000, mult := 1, minC := 5, taxRate := 0, taxMult := 0 } x.1 x.2 := by
  decide +kernel
example : (chargeFills { rate := 8/10000, mult := 1, minC := 5, taxRate := 0, taxMult := 0 } 5
    [((10 : R), (200 : R)), (10, 300), (10, 500)]).sum = 8 := by decide +kernel

/-! ### 2. Stamp tax -/

/-- **C11.2** tax is `turnover × rate × multiplier` on SELL of common stock, zero otherwise -/
theorem tax_rule (cfg : StockCostCfg) (isCS isSell : Bool) (money : R) :
    stockTax cfg isCS isSell money = if isCS && isSell then money * cfg.taxRate * cfg.taxMult else 0 := by
  unfold stockTax; cases isCS <;> cases isSell <;> simp

/-- the source charges the tax on `CS` only and on SELL only (regenerated table) -/
theorem tax_only_common_stock_sells : RQ.Gen.stockTaxedTypes = ["CS"] ∧ RQ.Gen.stockTaxSellOnly = true := by
  decide

/-- the published schedule as it stands in the source now: commission 0.08 %, stamp tax 0.1 % before
2023-08-28 and 0.05 % from that day (regenerated constants) -/
theorem published_rates :
    Gen.stockCommissionRate = some (8/10000) ∧ Gen.stockTaxRateDefault = some (5/10000) ∧
    Gen.stockTaxRateBefore = some (1/1000) ∧ Gen.stockTaxRateAfter = some (5/10000) ∧
    RQ.Gen.stockPitTaxChangeDate = some 20230828 := by
  decide +kernel

/-- point-in-time rate: the rate in force on a date -/
theorem pit_rate_rule (change : Nat) (before after : R) (d : Nat) :
    pitTaxRate change before after d = (if d < change then before else after) := rfl

/-! ### 3. Futures commission -/

/-- **C11.3** by-money schedule: open rate on the whole fill; closing fills pay the close-today rate on exactly
`closeToday` and the ordinary close rate on the rest -/
theorem futures_by_money (cfg : FutCostCfg) (h : cfg.byMoney = true) (price qty ct : R) :
    futCommission cfg true price qty ct = price * qty * cfg.contractMult * cfg.openR * cfg.commMult ∧
    futCommission cfg false price qty ct =
      (price * (qty - ct) * cfg.contractMult * cfg.closeR + price * ct * cfg.contractMult * cfg.closeTodayR) * cfg.commMult := by
  unfold futCommission; simp [h]

theorem futures_by_volume (cfg : FutCostCfg) (h : cfg.byMoney = false) (price qty ct : R) :
    futCommission cfg true price qty ct = qty * cfg.openR * cfg.commMult ∧
    futCommission cfg false price qty ct = ((qty - ct) * cfg.closeR + ct * cfg.closeTodayR) * cfg.commMult := by
  unfold futCommission; simp [h]

/-! ### 4. Fees are never negative -/

theorem stock_fill_commission_nonneg (cfg : StockCostCfg) (rem p q : R) (hm : 0 ≤ cfg.minC)
    (hrem : 0 ≤ rem) (hc : 0 ≤ rawCommission cfg p q) :
    0 ≤ (tradeCommission cfg rem p q).1 ∧ 0 ≤ (tradeCommission cfg rem p q).2 := by
  unfold tradeCommission
  simp only [beq_iff_eq]
  generalize rawCommission cfg p q = c at *
  split_ifs <;> constructor <;> simp only <;> linarith

theorem stock_tax_nonneg (cfg : StockCostCfg) (isCS isSell : Bool) (money : R)
    (h1 : 0 ≤ money) (h2 : 0 ≤ cfg.taxRate) (h3 : 0 ≤ cfg.taxMult) : 0 ≤ stockTax cfg isCS isSell money := by
  unfold stockTax
  split_ifs
  · exact le_refl _
  · exact mul_nonneg (mul_nonneg h1 h2) h3
  · exact le_refl _

theorem futures_commission_nonneg (cfg : FutCostCfg) (isOpen : Bool) (price qty ct : R)
    (hp : 0 ≤ price) (hct : 0 ≤ ct) (hq : ct ≤ qty) (h1 : 0 ≤ cfg.openR) (h2 : 0 ≤ cfg.closeR)
    (h3 : 0 ≤ cfg.closeTodayR) (h4 : 0 ≤ cfg.contractMult) (h5 : 0 ≤ cfg.commMult) :
    0 ≤ futCommission cfg isOpen price qty ct := by
  have hq0 : 0 ≤ qty := le_trans hct hq
  have hd : 0 ≤ qty - ct := by linarith
  unfold futCommission
  apply mul_nonneg _ h5
  split_ifs <;> simp only [zero_add] <;> positivity


/-! ### inside the composed world (`RQ/Model/World.lean`) -/

/-- **the world's fees are the published schedule**: the fees the composed world's cost decider stamps on the successive fills of one stock
order are `chargeFills` from the order's remaining minimum (the minimum commission for an order the decider has not seen yet) plus each
fill's tax — so every theorem of this file about `chargeFills` (the total is independent of how the order was split) is a statement about
the TRADE events of whole runs; fees asked for other orders in between do not disturb the chain (`WorldK.tradeFee_other_key`). -/
theorem world_fees_are_the_schedule (w : World) (wi : WIns) (hs : wi.cfg.isFuture = false) (id : Option Nat) (isBuy : Bool) (effect : Effect)
    (fills : List (R × Int)) :
    (RQ.Lemmas.WorldK.feeChain w wi id isBuy effect fills).1 =
      List.zipWith (· + ·)
        (chargeFills w.stockCost (w.commRem (id, wi.typeKey)) (fills.map (fun f => (f.1, R.ofInt f.2))))
        (fills.map (fun f => stockTax w.stockCost wi.isCS (!isBuy) (f.1 * R.ofInt f.2))) :=
  RQ.Lemmas.WorldK.feeChain_is_schedule w wi hs id isBuy effect fills

/-- futures fees in the world are the contract's stateless by-money / by-volume schedule -/
theorem world_future_fee_is_schedule (w : World) (wi : WIns) (hf : wi.cfg.isFuture = true) (id : Option Nat) (isBuy : Bool) (effect : Effect)
    (q : Int) (p : R) (ct : Int) :
    w.tradeFee wi id isBuy effect q p ct = (futCommission wi.futCost (effect == .open_) p (R.ofInt q) (R.ofInt ct) + 0, w) :=
  RQ.Lemmas.WorldK.tradeFee_future w wi hf id isBuy effect q p ct

end RQ.Props.C11

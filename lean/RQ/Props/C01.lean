/-
C01 — Stock account ledger: cash, holdings and total value are conserved.
Theorems over `RQ/Model/Position.lean` and `RQ/Model/Account.lean` (instance `R := Rat`).
-/
import RQ.Model.Account
import Mathlib.Tactic.Linarith
import Mathlib.Tactic.Ring
import Mathlib.Tactic.FieldSimp
import Mathlib.Tactic.SplitIfs
import Mathlib.Tactic.Positivity
import Mathlib.Data.Rat.Floor
import RQ.Lemmas.WorldB

namespace RQ.Props.C01
open RQ.Q

/-- stock instrument configuration -/
def StockCfg (c : InsCfg) : Prop := c.isFuture = false

/-! ### A. One stock position -/

theorem mv_eq (c : InsCfg) (hc : StockCfg c) (p : Pos) : p.marketValue c = p.last * (p.qty : Rat) := by
  unfold Pos.marketValue StockCfg at *
  simp only [hc, R.ofInt, Bool.false_eq_true, if_false]
  by_cases h : p.qty = 0 <;> simp [h]

theorem equity_eq (c : InsCfg) (hc : StockCfg c) (p : Pos) :
    p.equity c = p.last * (p.qty : Rat) + p.recv := by
  unfold Pos.equity StockCfg at *
  simp only [hc, R.ofInt, Bool.false_eq_true, if_false]
  by_cases h : p.qty = 0 <;> simp [h]

theorem buy_effect (c : InsCfg) (hc : StockCfg c) (p : Pos) (t : TradeIn) (ht : t.effect = .open_) :
    (p.applyTradeStock c t).2 = -(t.price * (t.qty : Rat)) - t.fee ∧ (p.applyTradeStock c t).1.qty = p.qty + t.qty ∧
    (p.applyTradeStock c t).1.last = p.last ∧ (p.applyTradeStock c t).1.divRecv = p.divRecv ∧
    (p.applyTradeStock c t).1.equity c + (p.applyTradeStock c t).2 = p.equity c + (p.last - t.price) * (t.qty : Rat) - t.fee := by
  have e1 := equity_eq c hc
  simp only [Pos.applyTradeStock, Pos.applyTradeBase, ht, R.ofInt]
  by_cases hT : c.tplus = true
  · simp only [hT, beq_self_eq_true, Bool.and_self, if_true]
    refine ⟨by push_cast; ring, trivial, trivial, trivial, ?_⟩
    rw [e1, e1]; simp only [Pos.recv]; push_cast; ring
  · have hT' : c.tplus = false := by simpa using hT
    simp only [hT', beq_self_eq_true, Bool.and_false, Bool.false_eq_true, if_false]
    refine ⟨by push_cast; ring, trivial, trivial, trivial, ?_⟩
    rw [e1, e1]; simp only [Pos.recv]; push_cast; ring

theorem sell_effect (c : InsCfg) (hc : StockCfg c) (p : Pos) (t : TradeIn) (ht : t.effect = .close) :
    (p.applyTradeStock c t).2 = t.price * (t.qty : Rat) - t.fee ∧ (p.applyTradeStock c t).1.qty = p.qty - t.qty ∧
    (p.applyTradeStock c t).1.last = p.last ∧ (p.applyTradeStock c t).1.divRecv = p.divRecv ∧
    (p.applyTradeStock c t).1.equity c + (p.applyTradeStock c t).2 = p.equity c + (t.price - p.last) * (t.qty : Rat) - t.fee := by
  have e1 := equity_eq c hc
  simp only [Pos.applyTradeStock, Pos.applyTradeBase, ht, R.ofInt]
  simp only [reduceCtorEq, beq_iff_eq, false_and, if_false, Bool.and_eq_true]
  refine ⟨trivial, trivial, trivial, trivial, ?_⟩
  rw [e1, e1]; simp only [Pos.recv]; push_cast; ring

theorem avg_weighted (c : InsCfg) (p : Pos) (t : TradeIn) (ht : t.effect = .open_) (hq : 0 ≤ p.qty)
    (hne : p.qty + t.qty ≠ 0) :
    (p.applyTradeStock c t).1.avg * ((p.qty + t.qty : Int) : Rat) = p.avg * (p.qty : Rat) + t.price * (t.qty : Rat) := by
  have hne' : ((p.qty + t.qty : Int) : Rat) ≠ 0 := by exact_mod_cast hne
  have hlt : ¬ p.qty < 0 := by omega
  simp only [Pos.applyTradeStock, Pos.applyTradeBase, ht, R.ofInt, hlt]
  split_ifs <;> first | contradiction | (push_cast at hne' ⊢; field_simp)

/-! ### B. The account -/

def StockAcct (a : Acct) : Prop := ∀ h ∈ a.holdings, StockCfg h.cfg

theorem foldl_add_eq_sum (l : List Rat) (z : Rat) : l.foldl (· + ·) z = z + l.sum := by
  induction l generalizing z with
  | nil => simp
  | cons x xs ih => simp [List.foldl_cons, ih, add_assoc]

theorem pysum_eq_sum (l : List Rat) : R.pysum l = l.sum := by
  unfold R.pysum; rw [foldl_add_eq_sum]; simp

/-- a stock account has no margin: available cash + reserved cash = the cash balance -/
theorem cash_plus_frozen (a : Acct) (hs : StockAcct a) : a.cash + a.frozen = a.totalCash := by
  have hm : a.margin = 0 := by
    unfold Acct.margin Acct.iterPos
    rw [pysum_eq_sum]
    apply List.sum_eq_zero
    intro x hx
    simp only [List.mem_map, List.mem_flatMap] at hx
    obtain ⟨⟨c, p⟩, ⟨h, hh, hcp⟩, rfl⟩ := hx
    have := hs h hh
    simp only [List.mem_cons, List.mem_nil_iff, or_false, Prod.mk.injEq] at hcp
    rcases hcp with ⟨rfl, _⟩ | ⟨rfl, _⟩ <;> simp [Pos.margin, StockCfg] at * <;> simp [this]
  unfold Acct.cash; rw [hm]; ring

/-- **total value formula**: cash balance + Σ (holdings at the latest price + dividends receivable) − liabilities −
accrued interest (+ deposits in transit) -/
theorem total_value_eq (a : Acct) :
    a.totalValue = a.totalCash + (a.iterPos.map (fun (c, p) => p.equity c)).sum - a.liabilities
      - a.liabilities * a.finRate / 365 + (a.pending.map (·.2)).sum := by
  unfold Acct.totalValue Acct.positionEquity Acct.liabInterest
  rw [pysum_eq_sum]
  cases hp : a.pending with
  | nil => simp
  | cons x xs => simp [pysum_eq_sum]

/-- operations of an account (inputs are whatever the real call received / looked up) -/
inductive AOp
  | pendingNew (init : R)
  | unsolicited (qty filled : Int) (init : R)
  | trade (ins : Nat) (cfg : InsCfg) (createLast : R) (isLong : Bool) (t : TradeIn) (order : Option (Int × R))
  | bar (price : Nat → Option R)
  | beforeTrading (i : BTInput)
  | settlement (i : STInput)
  | deposit (amount : R) (recv : Option Nat)
  | finance (amount : R)

def step (a : Acct) : AOp → Acct
  | .pendingNew init => a.onPendingNew init
  | .unsolicited q f init => a.onUnsolicited q f init
  | .trade ins cfg cl isLong t o => a.applyTrade ins cfg cl isLong t o
  | .bar price => a.onBar price
  | .beforeTrading i => a.onBeforeTrading i
  | .settlement i => a.onSettlement i
  | .deposit amt recv => (a.depositWithdraw amt recv).getD a      -- a refused withdrawal changes nothing
  | .finance amt => a.financeRepay amt

/-- order announcements and price updates never touch the cash balance -/
theorem cash_frame (a : Acct) (op : AOp)
    (h : match op with | .pendingNew _ | .unsolicited _ _ _ | .bar _ => True | _ => False) :
    (step a op).totalCash = a.totalCash := by
  cases op <;> simp_all [step, Acct.onPendingNew, Acct.onUnsolicited, Acct.onBar]
  split_ifs <;> rfl

theorem getOrCreate_cash (a : Acct) (ins : Nat) (cfg : InsCfg) (cl : R) :
    (a.getOrCreate ins cfg cl).totalCash = a.totalCash ∧ (a.getOrCreate ins cfg cl).frozen = a.frozen := by
  unfold Acct.getOrCreate; split <;> simp

theorem getOrCreate_found (a : Acct) (ins : Nat) (cfg : InsCfg) (cl : R) (isLong : Bool) :
    ∃ cp, (a.getOrCreate ins cfg cl).getPos ins isLong = some cp := by
  unfold Acct.getOrCreate
  cases hf : a.findHolding ins with
  | some h => simp [Acct.getPos, hf]
  | none =>
    simp only [Acct.getPos, Acct.findHolding, List.find?_append]
    unfold Acct.findHolding at hf
    simp [hf]

/-- the account after the cash reserved for the traded part of the order is released -/
def unfreeze (a : Acct) (t : TradeIn) (o : Option (Int × R)) : Acct :=
  match o with
  | some (oq, init) =>
    if t.qty ≠ oq then { a with frozen := a.frozen - R.ofInt t.qty / R.ofInt oq * init }
    else { a with frozen := a.frozen - init }
  | none => a

theorem unfreeze_frame (a : Acct) (t : TradeIn) (o : Option (Int × R)) :
    (unfreeze a t o).totalCash = a.totalCash ∧ (unfreeze a t o).holdings = a.holdings := by
  unfold unfreeze
  cases o with
  | none => exact ⟨rfl, rfl⟩
  | some x => obtain ⟨oq, init⟩ := x; simp only; split_ifs <;> exact ⟨rfl, rfl⟩

theorem applyTrade_some (a : Acct) (ins : Nat) (cfg : InsCfg) (cl : R) (isLong : Bool) (t : TradeIn)
    (o : Option (Int × R)) (c : InsCfg) (p : Pos)
    (h : ((unfreeze a t o).getOrCreate ins cfg cl).getPos ins isLong = some (c, p)) :
    a.applyTrade ins cfg cl isLong t o =
      { ((unfreeze a t o).getOrCreate ins cfg cl).setPos ins isLong (p.applyTrade c t).1 with
        totalCash := ((unfreeze a t o).getOrCreate ins cfg cl).totalCash + (p.applyTrade c t).2 } := by
  show (match ((unfreeze a t o).getOrCreate ins cfg cl).getPos ins isLong with
    | some (c, p) => _
    | none => _) = _
  rw [h]
  rfl

/-- the pair of empty positions `_get_or_create_pos` appends -/
def newH (ins : Nat) (cfg : InsCfg) (cl : R) : Holding :=
  { ins := ins, cfg := cfg, long := Pos.empty true cl, short := Pos.empty false cl }

theorem getOrCreate_holdings (a : Acct) (ins : Nat) (cfg : InsCfg) (cl : R) :
    (a.getOrCreate ins cfg cl).holdings =
      if (a.holdings.find? (·.ins == ins)).isSome then a.holdings else a.holdings ++ [newH ins cfg cl] := by
  unfold Acct.getOrCreate Acct.findHolding
  cases a.holdings.find? (·.ins == ins) <;> simp [newH]

theorem getPos_congr {a b : Acct} (h : a.holdings = b.holdings) (ins : Nat) (isLong : Bool) :
    a.getPos ins isLong = b.getPos ins isLong := by
  unfold Acct.getPos Acct.findHolding; rw [h]

theorem getOrCreate_getPos_congr {a b : Acct} (h : a.holdings = b.holdings) (ins : Nat) (cfg : InsCfg) (cl : R)
    (ins' : Nat) (isLong : Bool) :
    (a.getOrCreate ins cfg cl).getPos ins' isLong = (b.getOrCreate ins cfg cl).getPos ins' isLong := by
  apply getPos_congr
  rw [getOrCreate_holdings, getOrCreate_holdings, h]

/-- a trade on a stock position: cash delta and quantity -/
theorem stock_trade (c : InsCfg) (hc : StockCfg c) (p : Pos) (t : TradeIn) :
    (p.applyTrade c t).2 =
      (if t.effect = .open_ then -(t.price * (t.qty : Rat)) - t.fee else t.price * (t.qty : Rat) - t.fee) ∧
    (p.applyTrade c t).1.qty = p.qty + (if t.effect = .open_ then t.qty else -t.qty) := by
  have e : p.applyTrade c t = p.applyTradeStock c t := by
    unfold Pos.applyTrade; unfold StockCfg at hc; rw [hc]; simp
  rw [e]
  cases ht : t.effect with
  | open_ =>
    obtain ⟨h1, h2, -⟩ := buy_effect c hc p t ht
    rw [h1, h2]; simp
  | close =>
    obtain ⟨h1, h2, -⟩ := sell_effect c hc p t ht
    rw [h1, h2]; simp; ring
  | closeToday =>
    simp [Pos.applyTradeStock, Pos.applyTradeBase, ht, R.ofInt]; ring

/-- **cash ledger, trade step**: an executed buy takes `p·q + fee` out of the cash balance, an executed sell puts
`p·q − fee` in — exactly once per trade, whatever the state of the account -/
theorem trade_cash (a : Acct) (ins : Nat) (cfg : InsCfg) (cl : R) (isLong : Bool) (t : TradeIn) (o : Option (Int × R))
    (hcfg : ∀ c p, (a.getOrCreate ins cfg cl).getPos ins isLong = some (c, p) → StockCfg c) :
    (a.applyTrade ins cfg cl isLong t o).totalCash =
      a.totalCash + (if t.effect = .open_ then -(t.price * (t.qty : Rat)) - t.fee else t.price * (t.qty : Rat) - t.fee) := by
  obtain ⟨hcash, hhold⟩ := unfreeze_frame a t o
  obtain ⟨⟨c, p⟩, hcp⟩ := getOrCreate_found (unfreeze a t o) ins cfg cl isLong
  have hsc : StockCfg c := hcfg c p (by rw [← getOrCreate_getPos_congr hhold]; exact hcp)
  rw [applyTrade_some a ins cfg cl isLong t o c p hcp]
  show ((unfreeze a t o).getOrCreate ins cfg cl).totalCash + (p.applyTrade c t).2 = _
  rw [(getOrCreate_cash _ ins cfg cl).1, hcash, (stock_trade c hsc p t).1]

theorem sum_filter_split (l : List (Nat × Rat)) (d : Nat) :
    ((l.filter (fun x => x.1 ≤ d)).map (·.2)).sum + ((l.filter (fun x => d < x.1)).map (·.2)).sum
      = (l.map (·.2)).sum := by
  induction l with
  | nil => simp
  | cons x xs ih =>
    by_cases hx : x.1 ≤ d
    · have hx' : ¬ d < x.1 := by omega
      simp only [List.filter_cons, hx, hx', decide_true, decide_false, if_true, Bool.false_eq_true, if_false,
        List.map_cons, List.sum_cons]
      linarith
    · have hx' : d < x.1 := by omega
      simp only [List.filter_cons, hx, hx', decide_true, decide_false, if_true, Bool.false_eq_true, if_false,
        List.map_cons, List.sum_cons]
      linarith

/-- deposits, withdrawals, financing: the cash balance moves by exactly the flow; a pending deposit moves it on receipt -/
theorem flow_cash (a : Acct) (amt : R) :
    (∀ a', a.depositWithdraw amt none = some a' → a'.totalCash = a.totalCash + amt) ∧
    (∀ d a', a.depositWithdraw amt (some d) = some a' → a'.totalCash = a.totalCash ∧
        (a'.pending.map (·.2)).sum = (a.pending.map (·.2)).sum + amt) ∧
    (0 < amt → (a.financeRepay amt).totalCash = a.totalCash + amt ∧ (a.financeRepay amt).liabilities = a.liabilities + amt) := by
  refine ⟨?_, ?_, ?_⟩
  · intro a' h; unfold Acct.depositWithdraw at h; split_ifs at h; simp at h; rw [← h]
  · intro d a' h; unfold Acct.depositWithdraw at h; split_ifs at h; simp at h; rw [← h]
    refine ⟨rfl, ?_⟩
    simp only [List.map_append, List.sum_append, List.map_cons, List.sum_cons]
    have := sum_filter_split a.pending d
    linarith
  · intro h; unfold Acct.financeRepay; simp [h]

set_option linter.unusedVariables false in
/-- repayment: cash and liabilities both fall by the amount actually repaid (never below zero liabilities) -/
theorem repay_effect (a : Acct) (amt : R) (h : amt < 0) (hl : 0 ≤ a.liabilities) :
    let paid := min (-amt) a.liabilities
    (a.financeRepay amt).liabilities = a.liabilities - paid ∧ (a.financeRepay amt).totalCash = a.totalCash - paid := by
  have h1 : ¬ (amt > 0) := by linarith
  have e : R.ofInt (-1) = (-1 : Rat) := by simp [R.ofInt]
  simp only [Acct.financeRepay, h1, h, if_true, if_false, R.pymin, R.pymax, e, mul_neg_one]
  rcases le_total (-amt) a.liabilities with hle | hle
  · rw [min_eq_left hle]
    constructor
    · split_ifs <;> linarith
    · split_ifs <;> linarith
  · rw [min_eq_right hle]
    constructor
    · split_ifs <;> linarith
    · split_ifs <;> linarith

/-- value is preserved by a financing call: the liability offsets the cash (the interest accrues with time, not here) -/
theorem finance_equity_neutral (a : Acct) (amt : R) (h : 0 < amt) :
    (a.financeRepay amt).totalCash - (a.financeRepay amt).liabilities = a.totalCash - a.liabilities := by
  obtain ⟨h1, h2⟩ := (flow_cash a amt).2.2 h
  rw [h1, h2]; ring


/-! ### C. Day boundary: corporate actions on one stock position (shared with C12) -/

/-- stage 1 of `StockPosition.before_trading`: `_handle_dividend_book_closure` -/
def btBook (p0 : Pos) (b : Option (R × Nat)) : Pos :=
  match b with
  | some (dps, payable) =>
    { p0 with avg := p0.avg - dps, last := p0.last - dps, divRecv := some (payable, R.ofInt p0.qty * dps) }
  | none => p0

/-- stage 2: `_handle_dividend_payable` -/
def btPay (cfg : InsCfg) (p1 : Pos) (today : Nat) (reinvest : Bool) (fee : Int → R → R) : Pos × R × Option TradeIn :=
  match p1.divRecv with
  | some (payable, value) =>
    if payable ≠ today then (p1, 0, none)
    else
      let pc := { p1 with divRecv := none }
      if reinvest then
        let a0 := R.decQuot10 value pc.last
        let amount := R.decQuot10 (R.ofInt a0) (R.ofInt cfg.lot) * cfg.lot
        if amount > 0 then
          let t : TradeIn := { price := pc.last, qty := amount, effect := .open_, fee := fee amount pc.last }
          ((pc.applyTradeStock cfg t).1, value - R.ofInt amount * pc.last - t.fee, some t)
        else (pc, value, none)
      else (pc, value, none)
  | none => (p1, 0, none)

/-- stage 3: `_handle_split` -/
def btSplit (p2 : Pos) (s : Option R) : Pos :=
  match s with
  | some ratio =>
    let q' := R.decMulRound10 (R.ofInt p2.qty) ratio
    { p2 with avg := p2.avg / ratio, last := p2.last / ratio, qty := q', oldQty := q',
              logicalOld := R.decMulRound10 (R.ofInt p2.logicalOld) ratio }
  | none => p2

theorem bts_eq (cfg : InsCfg) (p : Pos) (c : CorpDay) (reinvest : Bool) (fee : Int → R → R) :
    p.beforeTradingStock cfg c reinvest fee =
      if p.qty = 0 && p.divRecv.isNone then (p.beforeTradingBase, 0, none)
      else
        (btSplit (btPay cfg (btBook p.beforeTradingBase c.bookDps) c.today reinvest fee).1 c.split,
         0 + (btPay cfg (btBook p.beforeTradingBase c.bookDps) c.today reinvest fee).2.1,
         (btPay cfg (btBook p.beforeTradingBase c.bookDps) c.today reinvest fee).2.2) := by
  rfl

theorem btPay_false (c : InsCfg) (p1 : Pos) (today : Nat) (fee : Int → R → R) :
    (btPay c p1 today false fee).1.last = p1.last ∧ (btPay c p1 today false fee).1.qty = p1.qty ∧
    (btPay c p1 today false fee).1.recv + (btPay c p1 today false fee).2.1 = p1.recv := by
  unfold btPay
  cases hd : p1.divRecv with
  | none => simp [Pos.recv, hd]
  | some x =>
    obtain ⟨pay, v⟩ := x
    by_cases hp : pay = today <;> simp [Pos.recv, hd, hp]

/-- before_trading without reinvestment and without a split today: booking a dividend (ex-date) and paying it out
(payable date) move value between the marked price, the receivable and cash — `equity + cash` is unchanged.
Hypothesis `hov` (added): no dividend is booked while an earlier one is still receivable.  Without it the statement is
false, because `_handle_dividend_book_closure` OVERWRITES `_dividend_receivable`: with `qty = 100`, `last = 10`,
`divRecv = some (5, 7)`, `bookDps = some (1, 9)`, `today = 3` the result has equity `9·100 + 100 = 1000` and cash delta 0,
while the equity before was `1007` — the earlier receivable of 7 is lost (see `bt_book_overwrites`). -/
theorem bt_stock_neutral (c : InsCfg) (hc : StockCfg c) (p : Pos) (d : CorpDay) (fee : Int → R → R) (hs : d.split = none)
    (hov : d.bookDps = none ∨ p.recv = 0) :
    (p.beforeTradingStock c d false fee).1.equity c + (p.beforeTradingStock c d false fee).2.1 = p.equity c := by
  have e1 := equity_eq c hc
  rw [bts_eq]
  by_cases h0 : (decide (p.qty = 0) && p.divRecv.isNone) = true
  · rw [if_pos h0]; simp only; rw [e1, e1]; simp [Pos.beforeTradingBase, Pos.recv]
  · rw [if_neg h0]; simp only [hs, btSplit]; rw [e1, e1]
    obtain ⟨h1, h2, h3⟩ := btPay_false c (btBook p.beforeTradingBase d.bookDps) d.today fee
    rw [h1, h2]
    have : (btBook p.beforeTradingBase d.bookDps).last * ((btBook p.beforeTradingBase d.bookDps).qty : Rat)
        + (btBook p.beforeTradingBase d.bookDps).recv = p.last * (p.qty : Rat) + p.recv := by
      rcases hov with hb | hr
      · rw [hb]; simp [btBook, Pos.beforeTradingBase, Pos.recv]
      · cases hb : d.bookDps with
        | none => simp [btBook, Pos.beforeTradingBase, Pos.recv]
        | some x =>
          obtain ⟨dps, pay⟩ := x
          rw [hr]
          simp [btBook, Pos.beforeTradingBase, Pos.recv, R.ofInt]; ring
    linarith

/-- the counterexample behind `hov`: a second book closure overwrites a receivable that has not been paid yet -/
theorem bt_book_overwrites :
    let c : InsCfg := ⟨false, 1, 0, 1, true, 100⟩
    let p : Pos := { Pos.empty true 10 with qty := 100, divRecv := some (5, 7) }
    let r := p.beforeTradingStock c { bookDps := some (1, 9), split := none, today := 3 } false (fun _ _ => 0)
    p.equity c = 1007 ∧ r.1.equity c + r.2.1 = 1000 := by
  decide +kernel

/-- the receivable booked on the ex-date is exactly `record-date quantity × dividend per share`, the marked price and
the average cost fall by the dividend per share -/
theorem bt_book_closure (c : InsCfg) (p : Pos) (dps : R) (pay today : Nat) (fee : Int → R → R) (hpay : pay ≠ today)
    (hq : p.qty ≠ 0) :
    let r := p.beforeTradingStock c { bookDps := some (dps, pay), split := none, today := today } false fee
    r.1.divRecv = some (pay, (p.qty : Rat) * dps) ∧ r.1.last = p.last - dps ∧ r.1.avg = p.avg - dps ∧ r.1.qty = p.qty ∧ r.2.1 = 0 := by
  simp only [bts_eq, hq, decide_false, Bool.false_and, Bool.false_eq_true, if_false, btSplit, btBook, btPay,
    Pos.beforeTradingBase, hpay, ne_eq, not_false_eq_true, if_true, R.ofInt, add_zero, and_self]

/-- on the payable date the receivable goes to cash in full and is cleared — also if the shares were sold in between -/
theorem bt_payable (c : InsCfg) (p : Pos) (value : R) (today : Nat) (fee : Int → R → R) :
    let r := { p with divRecv := some (today, value) }.beforeTradingStock c { bookDps := none, split := none, today := today } false fee
    r.2.1 = value ∧ r.1.divRecv = none ∧ r.1.qty = p.qty := by
  simp [bts_eq, btSplit, btBook, btPay, Pos.beforeTradingBase]

/-- a split scales the quantity by the ratio (rounded to whole shares as the code does) and cost / marked price by its
inverse; `equity + cash` changes by exactly the rounding remainder `(q' − q·ρ) · last/ρ` — zero when `q·ρ` is whole -/
theorem bt_split (c : InsCfg) (hc : StockCfg c) (p : Pos) (ratio : R) (today : Nat) (fee : Int → R → R)
    (hr : ratio ≠ 0) (hnd : p.divRecv = none) (hq : p.qty ≠ 0) :
    let r := p.beforeTradingStock c { bookDps := none, split := some ratio, today := today } false fee
    r.1.qty = R.decMulRound10 (R.ofInt p.qty) ratio ∧ r.1.avg = p.avg / ratio ∧ r.1.last = p.last / ratio ∧ r.2.1 = 0 ∧
    r.1.equity c = p.equity c + (((R.decMulRound10 (R.ofInt p.qty) ratio : Int) : Rat) - (p.qty : Rat) * ratio) * (p.last / ratio) := by
  have e1 := equity_eq c hc
  simp only [bts_eq, hq, decide_false, Bool.false_and, Bool.false_eq_true, if_false, btSplit, btBook, btPay,
    Pos.beforeTradingBase, hnd, add_zero, true_and]
  rw [e1, e1]
  simp only [Pos.recv, hnd]
  field_simp
  ring

/-! #### the decimal helpers map non-negative inputs to non-negative integers -/

theorem floor_nonneg' (x : Rat) (h : 0 ≤ x) : 0 ≤ x.floor := by
  have : ⌊x⌋ = x.floor := rfl
  rw [← this]; exact Int.floor_nonneg.2 h

/-- the half-even rounding used inside the decimal helpers -/
def halfEven (y : Rat) : Int :=
  let f := y.floor
  let d := y - (f : Rat)
  if d < 1/2 then f else if d > 1/2 then f + 1 else if f % 2 = 0 then f else f + 1

theorem halfEven_nonneg (y : Rat) (h : 0 ≤ y) : 0 ≤ halfEven y := by
  have := floor_nonneg' y h
  unfold halfEven
  simp only
  split_ifs <;> omega

theorem scaleUp_nonneg (fuel : Nat) (y : Rat) (k : Nat) (h : 0 ≤ y) : 0 ≤ (roundSig10Pos.scaleUp fuel y k).1 := by
  induction fuel generalizing y k with
  | zero => simpa [roundSig10Pos.scaleUp] using h
  | succ n ih =>
    unfold roundSig10Pos.scaleUp
    split_ifs
    · exact ih _ _ (by positivity)
    · exact h

theorem roundSig10Pos_eq (m : Rat) :
    roundSig10Pos m =
      if m.floor.toNat = 0 then
        ((halfEven ((roundSig10Pos.scaleUp 400 m 0).1 * ((10 ^ 9 : Nat) : Rat)) : Int) : Rat) / ((10 ^ 9 : Nat) : Rat)
          / ((10 ^ (roundSig10Pos.scaleUp 400 m 0).2 : Nat) : Rat)
      else if natDigits m.floor.toNat ≥ 10 then
        ((halfEven (m / ((10 ^ (natDigits m.floor.toNat - 10) : Nat) : Rat)) : Int) : Rat)
          * ((10 ^ (natDigits m.floor.toNat - 10) : Nat) : Rat)
      else
        ((halfEven (m * ((10 ^ (10 - natDigits m.floor.toNat) : Nat) : Rat)) : Int) : Rat)
          / ((10 ^ (10 - natDigits m.floor.toNat) : Nat) : Rat) := rfl

theorem roundSig10Pos_nonneg (m : Rat) (h : 0 ≤ m) : 0 ≤ roundSig10Pos m := by
  rw [roundSig10Pos_eq]
  split_ifs
  · have hy := scaleUp_nonneg 400 m 0 h
    have := halfEven_nonneg ((roundSig10Pos.scaleUp 400 m 0).1 * ((10 ^ 9 : Nat) : Rat)) (by positivity)
    have h' : (0 : Rat) ≤ ((halfEven ((roundSig10Pos.scaleUp 400 m 0).1 * ((10 ^ 9 : Nat) : Rat)) : Int) : Rat) := by
      exact_mod_cast this
    positivity
  · have := halfEven_nonneg (m / ((10 ^ (natDigits m.floor.toNat - 10) : Nat) : Rat)) (by positivity)
    have h' : (0 : Rat) ≤ ((halfEven (m / ((10 ^ (natDigits m.floor.toNat - 10) : Nat) : Rat)) : Int) : Rat) := by
      exact_mod_cast this
    positivity
  · have := halfEven_nonneg (m * ((10 ^ (10 - natDigits m.floor.toNat) : Nat) : Rat)) (by positivity)
    have h' : (0 : Rat) ≤ ((halfEven (m * ((10 ^ (10 - natDigits m.floor.toNat) : Nat) : Rat)) : Int) : Rat) := by
      exact_mod_cast this
    positivity

theorem roundSig10Rat_nonneg (q : Rat) (h : 0 ≤ q) : 0 ≤ roundSig10Rat q := by
  unfold roundSig10Rat
  split_ifs with h0 h1
  · exact le_refl _
  · exact absurd h (not_le.2 h1)
  · exact roundSig10Pos_nonneg q h

theorem decQuot10_nonneg (a b : Rat) (ha : 0 ≤ a) (hb : 0 ≤ b) : 0 ≤ R.decQuot10 a b := by
  unfold R.decQuot10 decQuot10Rat
  have hr := roundSig10Rat_nonneg (a / b) (div_nonneg ha hb)
  simp only
  rw [if_neg (not_lt.2 hr)]
  exact floor_nonneg' _ hr

/-- the reinvested quantity is non-negative for a non-negative dividend, marked price and round lot -/
theorem reinvest_amount_nonneg (c : InsCfg) (p : Pos) (value : R) (hv : 0 ≤ value) (hl : 0 ≤ p.last) (hlot : 0 ≤ c.lot) :
    0 ≤ R.decQuot10 (R.ofInt (R.decQuot10 value p.last)) (R.ofInt c.lot) * c.lot := by
  have h1 : 0 ≤ R.decQuot10 value p.last := decQuot10_nonneg value p.last hv hl
  have h2 : 0 ≤ R.decQuot10 (R.ofInt (R.decQuot10 value p.last)) (R.ofInt c.lot) := by
    apply decQuot10_nonneg <;> (unfold R.ofInt; exact_mod_cast ‹_›)
  exact mul_nonneg h2 hlot

/-- reinvestment (after the repair of finding F11): the dividend buys whole lots at the marked price, the residual goes to cash, and
`equity + cash` falls by exactly the commission/tax stamped on the reinvestment trade — nothing else.  (Before the repair the fee was
reported on the trade and in the position's transaction cost but never taken out of cash: `self._total_cash += position.before_trading(d)`
read `_total_cash` before the call, so what `apply_trade` did to it inside the call was overwritten; the theorem then read "`equity + cash`
is unchanged" and needed a hypothesis excluding negative receivables, whose "reinvestment" made value vanish.) -/
theorem bt_reinvest_neutral_up_to_fee (c : InsCfg) (hc : StockCfg c) (p : Pos) (value : R) (today : Nat) (fee : Int → R → R) :
    let amt := R.decQuot10 (R.ofInt (R.decQuot10 value p.last)) (R.ofInt c.lot) * c.lot
    let r := { p with divRecv := some (today, value) }.beforeTradingStock c { bookDps := none, split := none, today := today } true fee
    r.1.equity c + r.2.1 = ({ p with divRecv := some (today, value) } : Pos).equity c - (if amt > 0 then fee amt p.last else 0) := by
  have e1 := equity_eq c hc
  by_cases h : R.decQuot10 (R.ofInt (R.decQuot10 value p.last)) (R.ofInt c.lot) * c.lot > 0
  · simp only [bts_eq, Option.isNone_some, Bool.and_false, Bool.false_eq_true, if_false, btSplit, btBook, btPay,
      Pos.beforeTradingBase, ne_eq, not_true_eq_false, if_true, h]
    rw [e1, e1]
    simp only [Pos.applyTradeStock, Pos.applyTradeBase, Pos.recv, R.ofInt]
    split_ifs <;> (simp only; push_cast; ring)
  · simp only [bts_eq, Option.isNone_some, Bool.and_false, Bool.false_eq_true, if_false, btSplit, btBook, btPay,
      Pos.beforeTradingBase, ne_eq, not_true_eq_false, if_true, h]
    rw [e1, e1]
    simp only [Pos.recv, R.ofInt]; push_cast; ring

/-- with a fee schedule that charges nothing the reinvestment is value-neutral -/
theorem bt_reinvest_neutral_of_zero_fee (c : InsCfg) (hc : StockCfg c) (p : Pos) (value : R) (today : Nat) :
    let r := { p with divRecv := some (today, value) }.beforeTradingStock c { bookDps := none, split := none, today := today } true (fun _ _ => 0)
    r.1.equity c + r.2.1 = ({ p with divRecv := some (today, value) } : Pos).equity c := by
  have h := bt_reinvest_neutral_up_to_fee c hc p value today (fun _ _ => 0)
  simp only at h ⊢
  rw [h]; split_ifs <;> ring

/-- the case that used to lose value: a negative receivable is not "reinvested" (no trade); it is simply settled against cash -/
theorem bt_reinvest_negative_amount_settled :
    let c : InsCfg := ⟨false, 1, 0, 1, true, 1⟩
    let p : Pos := { Pos.empty true 1 with qty := 100, divRecv := some (3, -100) }
    let r := p.beforeTradingStock c { bookDps := none, split := none, today := 3 } true (fun _ _ => 0)
    p.equity c = 0 ∧ r.1.equity c + r.2.1 = 0 := by
  decide +kernel

/-- delisting payout: the holding is paid out at its last price; `equity + cash` unchanged, position emptied -/
theorem st_payout_neutral (c : InsCfg) (hc : StockCfg c) (p : Pos) :
    (p.settlementStock .payout).1.equity c + (p.settlementStock .payout).2 = p.equity c ∧
    (p.settlementStock .payout).1.qty = 0 := by
  have e1 := equity_eq c hc
  unfold Pos.settlementStock
  by_cases h : p.qty = 0
  · simp [h]
  · simp only [h, if_false]; rw [e1, e1]; simp [Pos.recv, R.ofInt]; ring

/-! ### D. Account-level day boundary: the cash balance moves by the sum of the position deltas -/

/-- cash effect of one stock holding at before_trading, in specification form -/
def btDelta (i : BTInput) (h : Holding) : R :=
  if h.cfg.isFuture then 0 else (h.long.beforeTradingStock h.cfg (i.corp h.ins) i.reinvest (i.fee h.ins)).2.1

/-- instruments kept by the purge at before_trading -/
def kept (a : Acct) : List Holding :=
  a.holdings.filter (fun h =>
    !((h.long.qty == 0 && h.long.equity h.cfg == 0) && (h.short.qty == 0 && h.short.equity h.cfg == 0)))

/-- a fold that adds a per-element amount to a running cash and appends a per-element image -/
theorem foldl_pair {α β : Type} (f : α → Rat) (g : α → β) (step : Rat × List β → α → Rat × List β)
    (hstep : ∀ acc h, step acc h = (acc.1 + f h, acc.2 ++ [g h])) (l : List α) (z : Rat × List β) :
    l.foldl step z = (z.1 + (l.map f).sum, z.2 ++ l.map g) := by
  induction l generalizing z with
  | nil => simp
  | cons x xs ih =>
    rw [List.foldl_cons, ih, hstep]
    simp only [List.map_cons, List.sum_cons, List.append_assoc, List.singleton_append, Prod.mk.injEq, and_true]
    ring

theorem foldl_snd_sum (l : List (Nat × Rat)) (z : Rat) :
    l.foldl (fun c d => c + d.2) z = z + (l.map (·.2)).sum := by
  induction l generalizing z with
  | nil => simp
  | cons x xs ih => rw [List.foldl_cons, ih]; simp only [List.map_cons, List.sum_cons]; ring

/-- the holding after before_trading -/
def btH (i : BTInput) (h : Holding) : Holding :=
  if h.cfg.isFuture then { h with long := h.long.beforeTradingBase, short := h.short.beforeTradingBase }
  else { h with long := (h.long.beforeTradingStock h.cfg (i.corp h.ins) i.reinvest (i.fee h.ins)).1,
                short := h.short.beforeTradingBase }

/-- `_on_before_trading` in closed form -/
theorem onBeforeTrading_eq (a : Acct) (i : BTInput) :
    a.onBeforeTrading i =
      { a with
        totalCash := a.totalCash + ((a.pending.takeWhile (fun d => d.1 ≤ i.today)).map (·.2)).sum
          + ((kept a).map (btDelta i)).sum,
        pending := a.pending.dropWhile (fun d => d.1 ≤ i.today),
        holdings := (kept a).map (btH i),
        liabilities := if a.liabilities > 0 then a.liabilities + a.liabilities * a.finRate / 365 else a.liabilities } := by
  unfold Acct.onBeforeTrading
  simp only
  rw [foldl_pair (btDelta i) (btH i) _ ?_, foldl_snd_sum]
  · rfl
  · intro acc h
    unfold btDelta btH
    by_cases hf : h.cfg.isFuture = true
    · simp only [hf, if_true, add_zero]
    · simp only [hf, if_false, add_zero, Bool.false_eq_true]

/-- **cash ledger, before_trading**: the cash balance grows by the deposits that fall due and by the dividend payouts
(or reinvestment residuals) of the holdings — nothing else -/
theorem bt_cash_ledger (a : Acct) (i : BTInput) :
    (a.onBeforeTrading i).totalCash =
      a.totalCash + ((a.pending.takeWhile (fun d => d.1 ≤ i.today)).map (·.2)).sum + ((kept a).map (btDelta i)).sum := by
  rw [onBeforeTrading_eq]

/-- financing interest is compounded into the liabilities once per day -/
theorem bt_interest (a : Acct) (i : BTInput) :
    (a.onBeforeTrading i).liabilities = (if a.liabilities > 0 then a.liabilities + a.liabilities * a.finRate / 365 else a.liabilities) := by
  rw [onBeforeTrading_eq]

/-- cash effect of one stock holding at settlement -/
def stDelta (i : STInput) (h : Holding) : R :=
  if h.cfg.isFuture then (h.long.settlementFuture h.cfg (i.settle h.ins) (i.expires h.ins)).2.1 +
      (h.short.settlementFuture h.cfg (i.settle h.ins) (i.expires h.ins)).2.1
  else (h.long.settlementStock (i.delist h.ins)).2

/-- the holding after settlement -/
def stH (i : STInput) (h : Holding) : Holding :=
  if h.cfg.isFuture then
    { h with long := (h.long.settlementFuture h.cfg (i.settle h.ins) (i.expires h.ins)).1,
             short := (h.short.settlementFuture h.cfg (i.settle h.ins) (i.expires h.ins)).1 }
  else { h with long := (h.long.settlementStock (i.delist h.ins)).1, short := (h.short.settlementStock .none).1 }

/-- the account after the positions have settled, before the management fee -/
def settled (a : Acct) (i : STInput) : Acct :=
  { a with totalCash := a.totalCash + (a.holdings.map (stDelta i)).sum, holdings := a.holdings.map (stH i) }

/-- the management fee charged at settlement -/
def mgmtFee (a1 : Acct) : R := if a1.mgmtRate == 0 then 0 else a1.totalValue * a1.mgmtRate

theorem settlementStock_none (p : Pos) : (p.settlementStock .none).2 = 0 := by
  unfold Pos.settlementStock; split_ifs <;> rfl

/-- `_on_settlement` without forced liquidation, in closed form -/
theorem onSettlement_eq (a : Acct) (i : STInput) (hf : i.forced = false) :
    a.onSettlement i =
      { settled a i with mgmtFees := (settled a i).mgmtFees + mgmtFee (settled a i),
                         totalCash := (settled a i).totalCash - mgmtFee (settled a i) } := by
  unfold Acct.onSettlement
  simp only [hf, Bool.and_false, Bool.false_eq_true, if_false]
  rw [foldl_pair (stDelta i) (stH i) _ ?_]
  · rfl
  · intro acc h
    unfold stDelta stH
    by_cases hfu : h.cfg.isFuture = true
    · simp only [hfu, if_true, Prod.mk.injEq, and_true]; ring
    · simp only [hfu, if_false, Bool.false_eq_true, settlementStock_none, add_zero]

/-- **cash ledger, settlement** (no forced liquidation): delisting payouts in, management fee out -/
theorem st_cash_ledger (a : Acct) (i : STInput) (hf : i.forced = false) :
    ∃ fee, (a.onSettlement i).totalCash = a.totalCash + (a.holdings.map (stDelta i)).sum - fee ∧
      (a.onSettlement i).mgmtFees = a.mgmtFees + fee ∧ (a.mgmtRate = 0 → fee = 0) := by
  refine ⟨mgmtFee (settled a i), ?_, ?_, ?_⟩
  · rw [onSettlement_eq a i hf]; rfl
  · rw [onSettlement_eq a i hf]; rfl
  · intro h0
    have : (settled a i).mgmtRate = 0 := h0
    simp [mgmtFee, this]

/-! ### E. Holdings ledger -/

/-- quantity of an (instrument, direction) as an observer -/
def qtyOf (a : Acct) (ins : Nat) (isLong : Bool) : Int :=
  match a.getPos ins isLong with
  | some (_, p) => p.qty
  | none => 0

def NodupIns (a : Acct) : Prop := (a.holdings.map (·.ins)).Nodup

/-- quantity observer on the holdings list -/
def qtyH (H : List Holding) (ins : Nat) (isLong : Bool) : Int :=
  match H.find? (·.ins == ins) with
  | some h => (if isLong then h.long else h.short).qty
  | none => 0

theorem qtyOf_eq (a : Acct) (ins : Nat) (isLong : Bool) : qtyOf a ins isLong = qtyH a.holdings ins isLong := by
  unfold qtyOf qtyH Acct.getPos Acct.findHolding
  cases a.holdings.find? (·.ins == ins) <;> rfl

/-- the per-holding update of `setPos` -/
def setF (ins : Nat) (isLong : Bool) (p : Pos) (h : Holding) : Holding :=
  if h.ins == ins then (if isLong then { h with long := p } else { h with short := p }) else h

theorem setPos_holdings (a : Acct) (ins : Nat) (isLong : Bool) (p : Pos) :
    (a.setPos ins isLong p).holdings = a.holdings.map (setF ins isLong p) := rfl

theorem setF_ins (ins : Nat) (isLong : Bool) (p : Pos) (h : Holding) : (setF ins isLong p h).ins = h.ins := by
  unfold setF; split_ifs <;> rfl

theorem setF_cfg (ins : Nat) (isLong : Bool) (p : Pos) (h : Holding) : (setF ins isLong p h).cfg = h.cfg := by
  unfold setF; split_ifs <;> rfl

theorem find_map_ins (g : Holding → Holding) (hi : ∀ h, (g h).ins = h.ins) (H : List Holding) (k : Nat) :
    (H.map g).find? (·.ins == k) = (H.find? (·.ins == k)).map g := by
  induction H with
  | nil => rfl
  | cons h hs ih =>
    simp only [List.map_cons, List.find?_cons, hi]
    cases h.ins == k
    · simpa using ih
    · rfl

/-- a map that keeps instrument ids and quantities keeps every observed quantity -/
theorem qtyH_map (g : Holding → Holding) (hi : ∀ h, (g h).ins = h.ins) (hl : ∀ h, (g h).long.qty = h.long.qty)
    (hs : ∀ h, (g h).short.qty = h.short.qty) (H : List Holding) (ins : Nat) (isLong : Bool) :
    qtyH (H.map g) ins isLong = qtyH H ins isLong := by
  unfold qtyH
  rw [find_map_ins g hi]
  cases H.find? (·.ins == ins) with
  | none => rfl
  | some h => cases isLong <;> simp [hl, hs]

theorem qtyH_setF (H : List Holding) (ins : Nat) (isLong : Bool) (p : Pos) (ins' : Nat) (isLong' : Bool) :
    qtyH (H.map (setF ins isLong p)) ins' isLong' =
      if ins' = ins ∧ isLong' = isLong then (if (H.find? (·.ins == ins)).isSome then p.qty else 0)
      else qtyH H ins' isLong' := by
  unfold qtyH
  rw [find_map_ins _ (setF_ins ins isLong p)]
  cases hf : H.find? (·.ins == ins') with
  | none =>
    by_cases hc : ins' = ins ∧ isLong' = isLong
    · obtain ⟨rfl, rfl⟩ := hc
      simp [hf]
    · simp [hc]
  | some h =>
    have hi : h.ins = ins' := by simpa using List.find?_some hf
    by_cases h1 : ins' = ins
    · subst h1
      have hb : (h.ins == ins') = true := by simp [hi]
      cases isLong <;> cases isLong' <;> simp [setF, hb, hf]
    · have hb : (h.ins == ins) = false := by simp [hi, h1]
      simp [setF, hb, h1]

theorem qtyH_getOrCreate (a : Acct) (ins : Nat) (cfg : InsCfg) (cl : R) (ins' : Nat) (isLong' : Bool) :
    qtyH (a.getOrCreate ins cfg cl).holdings ins' isLong' = qtyH a.holdings ins' isLong' := by
  rw [getOrCreate_holdings]
  cases hf : a.holdings.find? (·.ins == ins) with
  | some h => simp
  | none =>
    simp only [Option.isSome_none, Bool.false_eq_true, if_false]
    unfold qtyH
    rw [List.find?_append]
    cases hf' : a.holdings.find? (·.ins == ins') with
    | some h => simp
    | none =>
      simp only [Option.none_or, List.find?_cons, List.find?_nil]
      cases (newH ins cfg cl).ins == ins' <;> cases isLong' <;> simp [newH, Pos.empty]

theorem getOrCreate_find (a : Acct) (ins : Nat) (cfg : InsCfg) (cl : R) :
    ((a.getOrCreate ins cfg cl).holdings.find? (·.ins == ins)).isSome = true := by
  obtain ⟨cp, h⟩ := getOrCreate_found a ins cfg cl true
  unfold Acct.getPos Acct.findHolding at h
  cases hf : (a.getOrCreate ins cfg cl).holdings.find? (·.ins == ins) with
  | some x => rfl
  | none => rw [hf] at h; simp at h

theorem getPos_qty (a : Acct) (ins : Nat) (isLong : Bool) (c : InsCfg) (p : Pos)
    (h : a.getPos ins isLong = some (c, p)) : qtyOf a ins isLong = p.qty := by
  unfold qtyOf; rw [h]

set_option linter.unusedVariables false in
/-- a trade changes exactly the traded (instrument, direction) by `+q` (open) or `−q` (close) -/
theorem trade_qty (a : Acct) (hn : NodupIns a) (ins : Nat) (cfg : InsCfg) (cl : R) (isLong : Bool) (t : TradeIn)
    (o : Option (Int × R)) (hcfg : ∀ c p, (a.getOrCreate ins cfg cl).getPos ins isLong = some (c, p) → StockCfg c) :
    qtyOf (a.applyTrade ins cfg cl isLong t o) ins isLong =
      qtyOf a ins isLong + (if t.effect = .open_ then t.qty else -t.qty) ∧
    ∀ ins' isLong', (ins', isLong') ≠ (ins, isLong) → qtyOf (a.applyTrade ins cfg cl isLong t o) ins' isLong' = qtyOf a ins' isLong' := by
  obtain ⟨-, hhold⟩ := unfreeze_frame a t o
  obtain ⟨⟨c, p⟩, hcp⟩ := getOrCreate_found (unfreeze a t o) ins cfg cl isLong
  have hcp' : (a.getOrCreate ins cfg cl).getPos ins isLong = some (c, p) := by
    rw [← getOrCreate_getPos_congr hhold]; exact hcp
  have hsc : StockCfg c := hcfg c p hcp'
  have hH : (a.applyTrade ins cfg cl isLong t o).holdings =
      (a.getOrCreate ins cfg cl).holdings.map (setF ins isLong (p.applyTrade c t).1) := by
    rw [applyTrade_some a ins cfg cl isLong t o c p hcp]
    show (((unfreeze a t o).getOrCreate ins cfg cl).setPos ins isLong (p.applyTrade c t).1).holdings = _
    rw [setPos_holdings, getOrCreate_holdings, getOrCreate_holdings, hhold]
  have hp : p.qty = qtyOf a ins isLong := by
    rw [← getPos_qty _ ins isLong c p hcp', qtyOf_eq, qtyOf_eq, qtyH_getOrCreate]
  constructor
  · rw [qtyOf_eq, hH, qtyH_setF, getOrCreate_find, (stock_trade c hsc p t).2, hp]
    simp
  · intro ins' isLong' hne
    rw [qtyOf_eq, hH, qtyH_setF, qtyOf_eq, qtyH_getOrCreate]
    have : ¬ (ins' = ins ∧ isLong' = isLong) := by
      rintro ⟨rfl, rfl⟩; exact hne rfl
    rw [if_neg this]

/-- operations that leave the holdings list untouched -/
theorem step_holdings_frame (a : Acct) (op : AOp)
    (h : match op with | .pendingNew _ | .unsolicited _ _ _ | .deposit _ _ | .finance _ => True | _ => False) :
    (step a op).holdings = a.holdings := by
  cases op with
  | pendingNew init => rfl
  | unsolicited q f init => simp only [step, Acct.onUnsolicited]; split_ifs <;> rfl
  | deposit amt recv =>
    simp only [step, Acct.depositWithdraw]
    split_ifs
    · rfl
    · cases recv <;> rfl
  | finance amt => simp only [step, Acct.financeRepay]; split_ifs <;> rfl
  | trade _ _ _ _ _ _ => exact h.elim
  | bar _ => exact h.elim
  | beforeTrading _ => exact h.elim
  | settlement _ => exact h.elim

/-- the per-holding update of `_on_bar` -/
def barF (price : Nat → Option R) (h : Holding) : Holding :=
  match price h.ins with
  | some p => { h with long := { h.long with last := p }, short := { h.short with last := p } }
  | none => h

theorem onBar_holdings (a : Acct) (price : Nat → Option R) : (a.onBar price).holdings = a.holdings.map (barF price) := rfl

theorem barF_frame (price : Nat → Option R) (h : Holding) :
    (barF price h).ins = h.ins ∧ (barF price h).cfg = h.cfg ∧ (barF price h).long.qty = h.long.qty ∧
    (barF price h).short.qty = h.short.qty := by
  unfold barF; cases price h.ins <;> simp

/-- order announcements, price updates and cash flows never change a quantity -/
theorem qty_frame (a : Acct) (op : AOp)
    (h : match op with | .pendingNew _ | .unsolicited _ _ _ | .bar _ | .deposit _ _ | .finance _ => True | _ => False)
    (ins : Nat) (isLong : Bool) : qtyOf (step a op) ins isLong = qtyOf a ins isLong := by
  rw [qtyOf_eq, qtyOf_eq]
  cases op with
  | pendingNew init => rw [step_holdings_frame a _ trivial]
  | unsolicited q f init => rw [step_holdings_frame a _ trivial]
  | deposit amt recv => rw [step_holdings_frame a _ trivial]
  | finance amt => rw [step_holdings_frame a _ trivial]
  | bar price =>
    show qtyH (a.onBar price).holdings ins isLong = _
    rw [onBar_holdings]
    exact qtyH_map _ (fun h => (barF_frame price h).1) (fun h => (barF_frame price h).2.2.1)
      (fun h => (barF_frame price h).2.2.2) _ _ _
  | trade _ _ _ _ _ _ => exact h.elim
  | beforeTrading _ => exact h.elim
  | settlement _ => exact h.elim

/-! ### F. Any sequence of intraday operations: the cash ledger -/

/-- intraday operations on a stock account -/
def Intraday (op : AOp) : Prop :=
  match op with
  | .pendingNew _ | .unsolicited _ _ _ | .bar _ => True
  | .trade _ cfg _ _ t _ => StockCfg cfg ∧ t.effect ≠ .closeToday
  | .deposit _ recv => recv = none
  | .finance amt => 0 < amt
  | _ => False

/-- ghost ledger entry of an operation -/
def ledgerEntry (a : Acct) : AOp → R
  | .trade _ _ _ _ t _ => if t.effect = .open_ then -(t.price * (t.qty : Rat)) - t.fee else t.price * (t.qty : Rat) - t.fee
  | .deposit amt _ => if (amt < 0 && a.cash < amt * R.ofInt (-1)) then 0 else amt       -- a refused withdrawal is no flow
  | .finance amt => amt
  | _ => 0

/-- ledger of an operation list (each entry evaluated in the state the operation meets) -/
def ledger : Acct → List AOp → R
  | _, [] => 0
  | a, op :: ops => ledgerEntry a op + ledger (step a op) ops

theorem getOrCreate_stock (a : Acct) (hs : StockAcct a) (ins : Nat) (cfg : InsCfg) (hc : StockCfg cfg) (cl : R) :
    StockAcct (a.getOrCreate ins cfg cl) := by
  intro h hh
  rw [getOrCreate_holdings] at hh
  split_ifs at hh
  · exact hs h hh
  · rcases List.mem_append.1 hh with hh | hh
    · exact hs h hh
    · rw [List.mem_singleton] at hh; subst hh; exact hc

theorem getPos_stock (a : Acct) (hs : StockAcct a) (ins : Nat) (isLong : Bool) (c : InsCfg) (p : Pos)
    (h : a.getPos ins isLong = some (c, p)) : StockCfg c := by
  unfold Acct.getPos Acct.findHolding at h
  cases hf : a.holdings.find? (·.ins == ins) with
  | none => rw [hf] at h; simp at h
  | some x =>
    rw [hf] at h
    simp only [Option.map_some, Option.some.injEq, Prod.mk.injEq] at h
    rw [← h.1]
    exact hs x (List.mem_of_find?_eq_some hf)

/-- intraday operations keep a stock account a stock account -/
theorem step_stock (a : Acct) (hs : StockAcct a) (op : AOp) (hop : Intraday op) : StockAcct (step a op) := by
  cases op with
  | pendingNew init => unfold StockAcct; rw [step_holdings_frame a _ trivial]; exact hs
  | unsolicited q f init => unfold StockAcct; rw [step_holdings_frame a _ trivial]; exact hs
  | deposit amt recv => unfold StockAcct; rw [step_holdings_frame a _ trivial]; exact hs
  | finance amt => unfold StockAcct; rw [step_holdings_frame a _ trivial]; exact hs
  | bar price =>
    intro h hh
    change h ∈ (a.onBar price).holdings at hh
    rw [onBar_holdings, List.mem_map] at hh
    obtain ⟨h0, hh0, rfl⟩ := hh
    unfold StockCfg
    rw [(barF_frame price h0).2.1]
    exact hs h0 hh0
  | trade ins cfg cl isLong t o =>
    obtain ⟨hc, -⟩ := hop
    obtain ⟨-, hhold⟩ := unfreeze_frame a t o
    obtain ⟨⟨c, p⟩, hcp⟩ := getOrCreate_found (unfreeze a t o) ins cfg cl isLong
    intro h hh
    change h ∈ (a.applyTrade ins cfg cl isLong t o).holdings at hh
    rw [applyTrade_some a ins cfg cl isLong t o c p hcp] at hh
    change h ∈ (((unfreeze a t o).getOrCreate ins cfg cl).setPos ins isLong (p.applyTrade c t).1).holdings at hh
    rw [setPos_holdings, getOrCreate_holdings, hhold, ← getOrCreate_holdings, List.mem_map] at hh
    obtain ⟨h0, hh0, rfl⟩ := hh
    unfold StockCfg
    rw [setF_cfg]
    exact getOrCreate_stock a hs ins cfg hc cl h0 hh0
  | beforeTrading _ => exact hop.elim
  | settlement _ => exact hop.elim

/-- every intraday operation moves the cash balance by exactly its ledger entry -/
theorem step_cash (a : Acct) (hs : StockAcct a) (op : AOp) (hop : Intraday op) :
    (step a op).totalCash = a.totalCash + ledgerEntry a op := by
  cases op with
  | pendingNew init => rw [cash_frame a _ trivial]; simp [ledgerEntry]
  | unsolicited q f init => rw [cash_frame a _ trivial]; simp [ledgerEntry]
  | bar price => rw [cash_frame a _ trivial]; simp [ledgerEntry]
  | trade ins cfg cl isLong t o =>
    obtain ⟨hc, -⟩ := hop
    exact trade_cash a ins cfg cl isLong t o
      (fun c p h => getPos_stock _ (getOrCreate_stock a hs ins cfg hc cl) ins isLong c p h)
  | deposit amt recv =>
    have hr : recv = none := hop
    subst hr
    simp only [step, ledgerEntry]
    by_cases hw : (amt < 0 && a.cash < amt * R.ofInt (-1)) = true
    · have : a.depositWithdraw amt none = none := by unfold Acct.depositWithdraw; rw [if_pos hw]
      rw [this, if_pos hw]; simp
    · have : a.depositWithdraw amt none = some { a with totalCash := a.totalCash + amt } := by
        unfold Acct.depositWithdraw; rw [if_neg hw]
      rw [this, if_neg hw]; rfl
  | finance amt =>
    have hpos : 0 < amt := hop
    exact ((flow_cash a amt).2.2 hpos).1
  | beforeTrading _ => exact hop.elim
  | settlement _ => exact hop.elim

/-- **C01.1** for every stock account and EVERY sequence of order announcements, fills, price updates, deposits,
withdrawals and financing calls: cash balance = starting cash + external flows − cost of every executed buy + proceeds of
every executed sell − all fees; and available + reserved cash equals that balance throughout -/
theorem cash_ledger (a : Acct) (hs : StockAcct a) (ops : List AOp) (hops : ∀ op ∈ ops, Intraday op) :
    (ops.foldl step a).totalCash = a.totalCash + ledger a ops ∧
    (ops.foldl step a).cash + (ops.foldl step a).frozen = (ops.foldl step a).totalCash := by
  induction ops generalizing a with
  | nil => exact ⟨by simp [ledger], cash_plus_frozen a hs⟩
  | cons op ops ih =>
    have hop : Intraday op := hops op (List.mem_cons_self ..)
    have hrest : ∀ op' ∈ ops, Intraday op' := fun op' h => hops op' (List.mem_cons_of_mem _ h)
    obtain ⟨h1, h2⟩ := ih (step a op) (step_stock a hs op hop) hrest
    refine ⟨?_, h2⟩
    rw [List.foldl_cons, h1, step_cash a hs op hop]
    simp only [ledger]; ring

/-- non-vacuity: a buy of 200 at 10.5 (fee 5), a price update, a partial sell, a deposit -/
example : (([AOp.pendingNew 2105, .trade 1 ⟨false, 1, 0, 1, true, 100⟩ 10 true ⟨10.5, 200, .open_, 5⟩ (some (200, 2105)),
    .bar (fun _ => some 11), .trade 1 ⟨false, 1, 0, 1, true, 100⟩ 10 true ⟨11, 100, .close, 6.1⟩ none, .deposit 1000 none] : List AOp).foldl step
    ⟨100000, 0, 0, [], 0, 0, 0, []⟩).totalCash = 100000 - 2100 - 5 + 1100 - 6.1 + 1000 := by
  decide +kernel


/-! ### whole runs of the composed world (`RQ/Model/World.lean`) -/

/-- the world's account operations in the vocabulary of this file (`touch`, the creation of an empty pair of positions by the
matcher's `calc_close_today_amount`, has no counterpart: it is a frame operation, see `touch_frame`) -/
def toAOp : AcctOp → Option AOp
  | .pendingNew init => some (.pendingNew init)
  | .unsolicited q f init => some (.unsolicited q f init)
  | .trade ins cfg cl isLong t o => some (.trade ins cfg cl isLong t o)
  | .touch _ _ _ => none
  | .bar price => some (.bar price)
  | .beforeTrading i => some (.beforeTrading i)
  | .settlement i => some (.settlement i)
  | .deposit amt recv => some (.deposit amt recv)
  | .finance amt => some (.finance amt)

/-- the world applies exactly the operations the theorems of this file are about -/
theorem stepOp_eq_step (a : Acct) (op : AcctOp) (aop : AOp) (h : toAOp op = some aop) : a.stepOp op = step a aop := by
  cases op with
  | touch ins cfg cl => simp [toAOp] at h
  | deposit amt recv =>
    simp only [toAOp, Option.some.injEq] at h
    subst h
    simp only [Acct.stepOp, step]
    cases a.depositWithdraw amt recv <;> rfl
  | pendingNew init => simp only [toAOp, Option.some.injEq] at h; subst h; rfl
  | unsolicited q f init => simp only [toAOp, Option.some.injEq] at h; subst h; rfl
  | trade ins cfg cl isLong t o => simp only [toAOp, Option.some.injEq] at h; subst h; rfl
  | bar price => simp only [toAOp, Option.some.injEq] at h; subst h; rfl
  | beforeTrading i => simp only [toAOp, Option.some.injEq] at h; subst h; rfl
  | settlement i => simp only [toAOp, Option.some.injEq] at h; subst h; rfl
  | finance amt => simp only [toAOp, Option.some.injEq] at h; subst h; rfl

/-- creating an empty pair of positions touches neither the cash balance nor the reserve nor any quantity -/
theorem touch_frame (a : Acct) (ins : Nat) (cfg : InsCfg) (cl : R) :
    (a.stepOp (.touch ins cfg cl)).totalCash = a.totalCash ∧ (a.stepOp (.touch ins cfg cl)).frozen = a.frozen ∧
    ∀ ins' isLong', qtyOf (a.stepOp (.touch ins cfg cl)) ins' isLong' = qtyOf a ins' isLong' := by
  refine ⟨(getOrCreate_cash a ins cfg cl).1, (getOrCreate_cash a ins cfg cl).2, ?_⟩
  · intro ins' isLong'
    rw [qtyOf_eq, qtyOf_eq]
    exact qtyH_getOrCreate a ins cfg cl ins' isLong'

/-- **whole runs refine the account model**: whatever the strategy does and whatever the market is, each account at the end of a
run of the composed world is the account at its start after a LIST OF ACCOUNT OPERATIONS — the operations the run logged for it,
in order.  Everything this file proves for arbitrary operation lists (`cash_ledger`, the quantity ledger, the value formula) therefore
holds at every point of every run. -/
theorem world_run_is_operation_list (w : World) (ins : List WIn) (k : Nat) :
    ∃ ops : List AcctOp, (w.run ins).1.pf.accounts[k]? = (w.pf.accounts[k]?).map (fun a => ops.foldl Acct.stepOp a) := by
  obtain ⟨newLog, -, -, h⟩ := RQ.Lemmas.WorldB.run_refines w ins
  exact ⟨RQ.Lemmas.WorldB.opsOf k newLog, h k⟩

end RQ.Props.C01

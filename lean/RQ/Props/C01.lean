/-
C01 — Stock account ledger: cash, holdings and total value are conserved.
Theorems over `RQ/Model/Position.lean` and `RQ/Model/Account.lean` (instance `R := Rat`).
-/
import RQ.Model.Account
import Mathlib.Tactic.Linarith
import Mathlib.Tactic.Ring
import Mathlib.Tactic.FieldSimp
import Mathlib.Tactic.SplitIfs

namespace RQ.Props.C01
open RQ.Q

/-- stock instrument configuration -/
def StockCfg (c : InsCfg) : Prop := c.isFuture = false

/-! ### A. One stock position -/

theorem mv_eq (c : InsCfg) (hc : StockCfg c) (p : Pos) : p.marketValue c = p.last * (p.qty : Rat) := by
  unfold Pos.marketValue StockCfg at *
  simp only [hc, R.ofInt, Bool.false_eq_true, if_false]
  by_cases h : p.qty = 0 <;> simp [h]

theorem equity_eq (c : InsCfg) (hc : StockCfg c) (p : Pos) :
    p.equity c = p.last * (p.qty : Rat) + p.recv := by
  unfold Pos.equity StockCfg at *
  simp only [hc, R.ofInt, Bool.false_eq_true, if_false]
  by_cases h : p.qty = 0 <;> simp [h]

theorem buy_effect (c : InsCfg) (hc : StockCfg c) (p : Pos) (t : TradeIn) (ht : t.effect = .open_) :
    (p.applyTradeStock c t).2 = -(t.price * (t.qty : Rat)) - t.fee ∧ (p.applyTradeStock c t).1.qty = p.qty + t.qty ∧
    (p.applyTradeStock c t).1.last = p.last ∧ (p.applyTradeStock c t).1.divRecv = p.divRecv ∧
    (p.applyTradeStock c t).1.equity c + (p.applyTradeStock c t).2 = p.equity c + (p.last - t.price) * (t.qty : Rat) - t.fee := by
  have e1 := equity_eq c hc
  simp only [Pos.applyTradeStock, Pos.applyTradeBase, ht, R.ofInt]
  by_cases hT : c.tplus = true
  · simp only [hT, beq_self_eq_true, Bool.and_self, if_true]
    refine ⟨by push_cast; ring, trivial, trivial, trivial, ?_⟩
    rw [e1, e1]; simp only [Pos.recv]; push_cast; ring
  · have hT' : c.tplus = false := by simpa using hT
    simp only [hT', beq_self_eq_true, Bool.and_false, Bool.false_eq_true, if_false]
    refine ⟨by push_cast; ring, trivial, trivial, trivial, ?_⟩
    rw [e1, e1]; simp only [Pos.recv]; push_cast; ring

theorem sell_effect (c : InsCfg) (hc : StockCfg c) (p : Pos) (t : TradeIn) (ht : t.effect = .close) :
    (p.applyTradeStock c t).2 = t.price * (t.qty : Rat) - t.fee ∧ (p.applyTradeStock c t).1.qty = p.qty - t.qty ∧
    (p.applyTradeStock c t).1.last = p.last ∧ (p.applyTradeStock c t).1.divRecv = p.divRecv ∧
    (p.applyTradeStock c t).1.equity c + (p.applyTradeStock c t).2 = p.equity c + (t.price - p.last) * (t.qty : Rat) - t.fee := by
  have e1 := equity_eq c hc
  simp only [Pos.applyTradeStock, Pos.applyTradeBase, ht, R.ofInt]
  simp only [reduceCtorEq, beq_iff_eq, false_and, Bool.false_eq_true, if_false, Bool.and_eq_true, decide_eq_true_eq]
  refine ⟨trivial, trivial, trivial, trivial, ?_⟩
  rw [e1, e1]; simp only [Pos.recv]; push_cast; ring

theorem avg_weighted (c : InsCfg) (p : Pos) (t : TradeIn) (ht : t.effect = .open_) (hq : 0 ≤ p.qty)
    (hne : p.qty + t.qty ≠ 0) :
    (p.applyTradeStock c t).1.avg * ((p.qty + t.qty : Int) : Rat) = p.avg * (p.qty : Rat) + t.price * (t.qty : Rat) := by
  have hne' : ((p.qty + t.qty : Int) : Rat) ≠ 0 := by exact_mod_cast hne
  have hlt : ¬ p.qty < 0 := by omega
  simp only [Pos.applyTradeStock, Pos.applyTradeBase, ht, R.ofInt, hlt]
  split_ifs <;> first | contradiction | (push_cast at hne' ⊢; field_simp)

end RQ.Props.C01

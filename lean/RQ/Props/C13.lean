/-
C13 — determinism and isolation.  Theorems over the process-state model (RQ/Model/Isolation.lean) instantiated with the flags the
translator reads from the CURRENT source (RQ/Gen/Tables.lean): a run observes the same process-level state whatever ran before it in
the same process.  Plus: trace normalisation (identifier renumbering) is invariant under injective relabelling, and look-ups in a data
set do not depend on entries for other keys.
-/
import RQ.Model.Isolation
import RQ.Gen.Tables
import Mathlib.Tactic.SplitIfs
import RQ.Lemmas.WorldH
namespace RQ.Props.C13
open RQ.Q

/-- the re-initialisation discipline that makes runs independent -/
def Good (f : IsoFlags) : Prop :=
  (∀ w ∈ f.switchWrites, w.2.1 = true ∧ w.2.2 = true) ∧ f.exportRebinds = true ∧ f.dispatcherKeepsProxy = false ∧
  f.cacheResettable = true ∧ f.entryClears = true ∧ f.envReplaced = true

instance (f : IsoFlags) : Decidable (Good f) := by unfold Good; infer_instance

/-- the CURRENT source follows the discipline (re-checked against the regenerated tables on every run) -/
theorem source_flags_good : Good srcFlags := by
  decide

/-- the per-run objects the model's `exports` stand for are the names the source exports at start-up -/
theorem per_run_exports_known : "scheduler" ∈ RQ.Gen.perRunExports ∧ "plot" ∈ RQ.Gen.perRunExports := by
  decide


/-! ### helper lemmas -/

theorem alookup_cons_self {α : Type} (l : List (String × α)) (k : String) (v : α) :
    alookup ((k, v) :: l) k = some v := by
  simp [alookup]

theorem alookup_cons_ne {α : Type} (l : List (String × α)) (k k' : String) (v : α) (h : k' ≠ k) :
    alookup ((k', v) :: l) k = alookup l k := by
  simp [alookup, h]

theorem writeSwitches_lookup (c : RunCfg) (tbl : List (String × Bool × Bool))
    (hall : ∀ w ∈ tbl, w.2.1 = true ∧ w.2.2 = true) (old : List (String × Int)) (name : String)
    (h : (∃ w ∈ tbl, w.1 = name) ∨ alookup old name = some (c.switchVals name)) :
    alookup (writeSwitches tbl c old) name = some (c.switchVals name) := by
  induction tbl generalizing old with
  | nil =>
    rcases h with ⟨w, hw, _⟩ | h
    · cases hw
    · simpa [writeSwitches] using h
  | cons w tbl ih =>
    have hw := hall w (List.mem_cons_self)
    have hall' : ∀ w' ∈ tbl, w'.2.1 = true ∧ w'.2.2 = true := fun w' hw' => hall w' (List.mem_cons_of_mem _ hw')
    have hstep : writeSwitches (w :: tbl) c old = writeSwitches tbl c ((w.1, c.switchVals w.1) :: old) := by
      simp [writeSwitches, List.foldl_cons, hw.1, hw.2]
    rw [hstep]
    apply ih hall'
    by_cases hn : w.1 = name
    · right
      rw [← hn]
      exact alookup_cons_self _ _ _
    · rcases h with ⟨w', hw', hw'n⟩ | h
      · rcases List.mem_cons.mp hw' with rfl | hw'
        · exact absurd hw'n hn
        · exact Or.inl ⟨w', hw', hw'n⟩
      · right
        rw [alookup_cons_ne _ _ _ _ hn]
        exact h

theorem exportApi_fold_lookup (rid : Nat) (names : List String) (old : List (String × Nat)) (name : String)
    (h : name ∈ names ∨ alookup old name = some rid) :
    alookup (names.foldl (fun acc n => if true || (alookup acc n).isNone then (n, rid) :: acc else acc) old) name = some rid := by
  induction names generalizing old with
  | nil =>
    rcases h with h | h
    · cases h
    · simpa using h
  | cons n names ih =>
    rw [List.foldl_cons]
    apply ih
    simp only [Bool.true_or, if_true]
    by_cases hn : n = name
    · right
      rw [hn]
      exact alookup_cons_self _ _ _
    · rcases h with h | h
      · rcases List.mem_cons.mp h with rfl | h
        · exact absurd rfl hn
        · exact Or.inl h
      · right
        rw [alookup_cons_ne _ _ _ _ hn]
        exact h

theorem exportApi_lookup (c : RunCfg) (old : List (String × Nat)) (name : String) (h : name ∈ c.exports) :
    alookup (exportApi true c old) name = some c.runId :=
  exportApi_fold_lookup c.runId c.exports old name (Or.inl h)

theorem alookup_of_all {l : List (String × Nat)} {r : Nat} (hall : ∀ e ∈ l, e.2 = r) (k : String) :
    alookup l k = none ∨ alookup l k = some r := by
  unfold alookup
  cases hf : l.find? (fun e => e.1 == k) with
  | none => left; rfl
  | some e =>
    right
    have := hall e (List.mem_of_find?_eq_some hf)
    simp [this]

theorem dispatchAll_resolved (f : IsoFlags) (hk : f.dispatcherKeepsProxy = false) (ids : List String) (p : Proc)
    (hall : ∀ e ∈ p.dispCache, e.2 = p.envRun) :
    (dispatchAll f ids p).1 = ids.map (fun _ => p.envRun) := by
  induction ids generalizing p with
  | nil => rfl
  | cons id rest ih =>
    simp only [dispatchAll, List.map_cons]
    rcases alookup_of_all hall id with hnone | hsome
    · have hd : dispatch f id p = (p.envRun, { p with dispCache := (id, p.envRun) :: p.dispCache }) := by
        simp [dispatch, hnone, hk]
      rw [hd]
      congr 1
      apply ih
      intro e he
      rcases List.mem_cons.mp he with rfl | he
      · rfl
      · exact hall e he
    · have hd : dispatch f id p = (p.envRun, p) := by
        simp [dispatch, hsome]
      rw [hd]
      congr 1
      exact ih p hall

/-- what a run sees when the discipline holds: its own configuration, its own objects, its own bundle, its own environment -/
def ownView (f : IsoFlags) (c : RunCfg) : RunView :=
  { switches := f.switchWrites.map (fun w => some (c.switchVals w.1)), api := c.exports.map (fun _ => some c.runId),
    resolved := c.ids.map (fun _ => c.runId), env := c.runId }

/-- C13 (isolation): under the discipline, for EVERY process state `p` left behind by earlier runs, the run observes exactly `ownView` -/
theorem run_view_independent (f : IsoFlags) (hg : Good f) (c : RunCfg) (hid : c.runId ≠ 0) (p : Proc) :
    (runOnce f c p).1 = ownView f c := by
  have _ := hid
  obtain ⟨hsw, hexp, hkeep, hres, hclr, henv⟩ := hg
  have hcache : (startRun f c p).dispCache = [] := by simp [startRun, hres, hclr]
  have henvRun : (startRun f c p).envRun = c.runId := by simp [startRun, henv]
  have hd : (dispatchAll f c.ids (startRun f c p)).1 = c.ids.map (fun _ => c.runId) := by
    rw [dispatchAll_resolved f hkeep c.ids (startRun f c p) (by rw [hcache]; intro e he; cases he), henvRun]
  have hswitch : f.switchWrites.map (fun w => alookup (startRun f c p).switches w.1)
      = f.switchWrites.map (fun w => some (c.switchVals w.1)) := by
    apply List.map_congr_left
    intro w hw
    exact writeSwitches_lookup c f.switchWrites hsw p.switches w.1 (Or.inl ⟨w, hw, rfl⟩)
  have hapi : c.exports.map (fun n => alookup (startRun f c p).api n) = c.exports.map (fun _ => some c.runId) := by
    apply List.map_congr_left
    intro n hn
    show alookup (exportApi f.exportRebinds c p.api) n = some c.runId
    rw [hexp]
    exact exportApi_lookup c p.api n hn
  simp only [runOnce, ownView, hd, hswitch, hapi, henvRun]

/-- … in particular after ANY sequence of other scenarios in the same process, the view equals the view in a fresh process -/
theorem isolated_after_any_history (f : IsoFlags) (hg : Good f) (cs : List RunCfg) (c : RunCfg) (hid : c.runId ≠ 0) :
    (runOnce f c (afterRuns f cs Proc.fresh)).1 = (runOnce f c Proc.fresh).1 := by
  rw [run_view_independent f hg c hid, run_view_independent f hg c hid]

/-- instantiated with the current source -/
theorem source_runs_isolated (cs : List RunCfg) (c : RunCfg) (hid : c.runId ≠ 0) :
    (runOnce srcFlags c (afterRuns srcFlags cs Proc.fresh)).1 = (runOnce srcFlags c Proc.fresh).1 := by
  exact isolated_after_any_history srcFlags source_flags_good cs c hid

/-! ### the discipline is necessary: what each lapse looks like (kernel-checked witnesses; these are the defects F19 and the seeded changes) -/

def cfgA : RunCfg := { runId := 1, switchVals := fun _ => 0, exports := ["scheduler"], ids := ["X"] }
def cfgB : RunCfg := { runId := 2, switchVals := fun _ => 1, exports := ["scheduler"], ids := ["X", "Y"] }
def goodFlags : IsoFlags := ⟨[("StockPosition.t_plus_enabled", true, true)], true, false, true, true, true⟩

/-- a dispatcher that keeps the first run's data_proxy answers the second run's look-ups from the first run's bundle (F19) -/
example : (runOnce { goodFlags with dispatcherKeepsProxy := true } cfgB (afterRuns { goodFlags with dispatcherKeepsProxy := true } [cfgA] Proc.fresh)).1.resolved = [1, 1] := by
  decide
/-- a guarded class-level write leaves the previous run's switch in place -/
example : (runOnce { goodFlags with switchWrites := [("StockPosition.t_plus_enabled", false, true)] } cfgB
            (afterRuns { goodFlags with switchWrites := [("StockPosition.t_plus_enabled", false, true)] } [cfgA] Proc.fresh)).1.switches = [some 0] := by
  decide
/-- an export that does not rebind leaves the previous run's scheduler in `rqalpha.api` -/
example : (runOnce { goodFlags with exportRebinds := false } cfgB (afterRuns { goodFlags with exportRebinds := false } [cfgA] Proc.fresh)).1.api = [some 1] := by
  decide
/-- non-vacuity: with the discipline the second run sees its own world -/
example : (runOnce goodFlags cfgB (afterRuns goodFlags [cfgA] Proc.fresh)).1 = ⟨[some 1], [some 2], [2, 2], 2⟩ := by
  decide

/-! ### comparing traces of different processes: identifiers renumbered by first appearance -/


theorem renumber_go_length (seen ids : List Nat) : (renumber.go seen ids).length = ids.length := by
  induction ids generalizing seen with
  | nil => simp [renumber.go]
  | cons i rest ih =>
    unfold renumber.go
    cases List.idxOf? i seen with
    | some k => simp [ih]
    | none => simp [ih]

theorem idxOf?_map_inj (g : Nat → Nat) (hg : Function.Injective g) (seen : List Nat) (i : Nat) :
    List.idxOf? (g i) (seen.map g) = List.idxOf? i seen := by
  induction seen with
  | nil => simp
  | cons a seen ih =>
    rw [List.map_cons, List.idxOf?_cons, List.idxOf?_cons, ih]
    by_cases h : a = i
    · simp [h]
    · have : g a ≠ g i := fun hh => h (hg hh)
      simp [h, this]

theorem renumber_go_relabel (g : Nat → Nat) (hg : Function.Injective g) (seen ids : List Nat) :
    renumber.go (seen.map g) (ids.map g) = renumber.go seen ids := by
  induction ids generalizing seen with
  | nil => simp [renumber.go]
  | cons i rest ih =>
    rw [List.map_cons]
    unfold renumber.go
    rw [idxOf?_map_inj g hg]
    cases List.idxOf? i seen with
    | some k => simp only [ih]
    | none =>
      have := ih (seen ++ [i])
      rw [List.map_append, List.map_cons, List.map_nil] at this
      simp only [List.length_map, this]

/-- there is a duplicate-free table extending `seen` in which every output index points at the corresponding input identifier -/
theorem renumber_go_table (seen ids : List Nat) (hs : seen.Nodup) :
    ∃ T : List Nat, (seen ++ T).Nodup ∧
      ∀ (i : Nat) (h : i < ids.length),
        (seen ++ T)[(renumber.go seen ids)[i]'(by rw [renumber_go_length]; exact h)]? = some ids[i] := by
  induction ids generalizing seen with
  | nil => exact ⟨[], by simpa using hs, fun i h => absurd h (Nat.not_lt_zero _)⟩
  | cons a rest ih =>
    cases hidx : List.idxOf? a seen with
    | some k =>
      obtain ⟨T, hT, hall⟩ := ih seen hs
      have hgo : renumber.go seen (a :: rest) = k :: renumber.go seen rest := by
        rw [renumber.go]; simp only [hidx]
      refine ⟨T, hT, ?_⟩
      intro i h
      simp only [hgo]
      cases i with
      | zero =>
        obtain ⟨hk, hka, _⟩ := List.idxOf?_eq_some_iff.mp hidx
        simp only [List.getElem_cons_zero]
        rw [List.getElem?_append_left hk, List.getElem?_eq_getElem hk, hka]
      | succ i =>
        simp only [List.getElem_cons_succ]
        exact hall i (Nat.lt_of_succ_lt_succ h)
    | none =>
      have hnot : a ∉ seen := List.idxOf?_eq_none_iff.mp hidx
      have hs' : (seen ++ [a]).Nodup := by
        rw [List.nodup_append]
        refine ⟨hs, by simp, ?_⟩
        intro x hx y hy
        rw [List.mem_singleton] at hy
        subst hy
        exact fun hxy => hnot (hxy ▸ hx)
      obtain ⟨T, hT, hall⟩ := ih (seen ++ [a]) hs'
      have hgo : renumber.go seen (a :: rest) = seen.length :: renumber.go (seen ++ [a]) rest := by
        rw [renumber.go]; simp only [hidx]
      have happ : seen ++ (a :: T) = seen ++ [a] ++ T := by simp
      refine ⟨a :: T, by rw [happ]; exact hT, ?_⟩
      intro i h
      simp only [hgo]
      cases i with
      | zero =>
        simp
      | succ i =>
        simp only [List.getElem_cons_succ, happ]
        exact hall i (Nat.lt_of_succ_lt_succ h)

theorem renumber_length (ids : List Nat) : (renumber ids).length = ids.length := by
  exact renumber_go_length [] ids

/-- renumbering is invariant under any injective relabelling of the identifiers (order ids start at the wall clock of the process) -/
theorem renumber_relabel (g : Nat → Nat) (hg : Function.Injective g) (ids : List Nat) :
    renumber (ids.map g) = renumber ids := by
  exact renumber_go_relabel g hg [] ids

/-- renumbering preserves exactly the equalities between identifiers -/
theorem renumber_eq_iff (ids : List Nat) (i j : Nat) (hi : i < ids.length) (hj : j < ids.length) :
    (renumber ids)[i]'(by rw [renumber_length]; exact hi) = (renumber ids)[j]'(by rw [renumber_length]; exact hj) ↔ ids[i] = ids[j] := by
  obtain ⟨T, hT, hall⟩ := renumber_go_table [] ids List.nodup_nil
  have hi' := hall i hi
  have hj' := hall j hj
  have hri : (renumber ids)[i]'(by rw [renumber_length]; exact hi) = (renumber.go [] ids)[i]'(by rw [renumber_go_length]; exact hi) := rfl
  have hrj : (renumber ids)[j]'(by rw [renumber_length]; exact hj) = (renumber.go [] ids)[j]'(by rw [renumber_go_length]; exact hj) := rfl
  rw [hri, hrj]
  constructor
  · intro heq
    rw [heq] at hi'
    rw [hi'] at hj'
    exact Option.some.inj hj'
  · intro heq
    rw [heq, ← hj'] at hi'
    have hlt : (renumber.go [] ids)[i]'(by rw [renumber_go_length]; exact hi) < ([] ++ T).length := by
      rcases Nat.lt_or_ge ((renumber.go [] ids)[i]'(by rw [renumber_go_length]; exact hi)) ([] ++ T).length with hlt | hge
      · exact hlt
      · rw [List.getElem?_eq_none hge, hj'] at hi'
        cases hi'
    exact (List.getElem?_inj hlt hT).mp hi'

example : renumber [15000007, 15000009, 15000007, 15000012] = [0, 1, 0, 2] := by decide

/-! ### unreferenced data -/

/-- a look-up by key does not depend on entries for other keys, wherever they are inserted -/
theorem lookup_frame {α : Type} (a b extra : List (String × α)) (k : String) (h : ∀ e ∈ extra, e.1 ≠ k) :
    alookup (a ++ extra ++ b) k = alookup (a ++ b) k := by
  have hex : List.find? (fun e : String × α => e.1 == k) extra = none := by
    rw [List.find?_eq_none]
    intro e he
    simpa using h e he
  unfold alookup
  simp only [List.find?_append, hex, Option.or_none]


/-! ### the composed world (`RQ/Model/World.lean`) -/

/-- **isolation from unrelated data, for whole runs of the trading core**: the market data of an instrument the run never touches — no
order on it, no holding of it — has no influence on the run.  Remove every row of that instrument from every market table the run
receives: the accounts, the books, the fee state and every published event are the same. -/
theorem world_unrelated_data_has_no_influence (j : Nat) (w w' : World) (ins : List WIn)
    (hs : RQ.Lemmas.WorldH.Same j w w') (hf : RQ.Lemmas.WorldH.Foreign j w) (hm : ∀ i ∈ ins, ¬ RQ.Lemmas.WorldH.Mentions j i) :
    RQ.Lemmas.WorldH.Same j (w.run ins).1 (w'.run (ins.map (RQ.Lemmas.WorldH.strip j))).1 ∧
    (w.run ins).2 = (w'.run (ins.map (RQ.Lemmas.WorldH.strip j))).2 :=
  RQ.Lemmas.WorldH.run_ignores_unrelated j w w' ins hs hf hm

/-- determinism of the composed core is definitional: a run is a FUNCTION of the start world and the inputs -/
theorem world_run_deterministic (w : World) (ins ins' : List WIn) (h : ins = ins') : w.run ins = w.run ins' := by rw [h]

/-! ### source-code strategies: nothing an earlier strategy defined reaches a later one -/

/-- with a copied base scope the shared namespace never changes ... -/
theorem scopeRun_keeps_shared (shared defs : List String) : (scopeRun true shared defs).2 = shared := by
  simp [scopeRun]

/-- ... so the scope of a run is the API namespace plus ITS OWN definitions, whatever sources ran before it in the process -/
theorem scope_independent_of_history (shared : List String) (hist : List (List String)) (defs : List String) :
    scopeAfter true shared hist defs = shared ++ defs := by
  induction hist generalizing shared with
  | nil => simp [scopeAfter, scopeRun]
  | cons h rest ih => simp only [scopeAfter, scopeRun_keeps_shared]; exact ih shared

/-- the hooks a run finds are exactly the API names and its own: a hook only an EARLIER strategy defined is not found -/
theorem foreign_hook_not_inherited (shared : List String) (hist : List (List String)) (defs : List String) (hook : String)
    (h1 : hook ∉ shared) (h2 : hook ∉ defs) : hook ∉ scopeAfter true shared hist defs := by
  rw [scope_independent_of_history]
  simp [h1, h2]

/-- the current source satisfies the discipline (regenerated flag) -/
theorem source_copies_base_scope : srcScopeCopied = true := by decide

/-- why the discipline matters: without the copy the second strategy finds the first one's `open_auction` -/
example : "open_auction" ∈ scopeAfter false ["order_shares"] [["init", "open_auction"]] ["init", "handle_bar"] := by decide

end RQ.Props.C13

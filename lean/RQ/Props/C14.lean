/-
C14 — resume from persisted state.  Theorems over the persistence model (RQ/Model/Persist.lean) instantiated with the key tables
regenerated from the CURRENT source, the PersistHelper's store discipline, and the executor across a stop / resume (with the C08 lemmas).
-/
import RQ.Model.Persist
import RQ.Props.C08
import Mathlib.Tactic.SplitIfs
import Mathlib.Tactic.Linarith
import Mathlib.Tactic.Ring
import RQ.Lemmas.WorldJ
namespace RQ.Props.C14
open RQ.Q

deriving instance DecidableEq for RQ.Q.Pos

/-! ### state written and read back loses nothing -/

/-- C14.2: a position restored on a fresh position of the same direction is the saved position, when every field's key is persisted -/
theorem pos_roundtrip (ks : List String) (h : requiredPosKeys.all (kept ks) = true) (fresh p : Pos) (hd : fresh.isLong = p.isLong) :
    Pos.restore ks fresh p = p := by
  simp [requiredPosKeys, List.all_cons] at h
  obtain ⟨h1, h2, h3, h4, h5, h6, h7, h8, h9⟩ := h
  cases p
  simp_all [Pos.restore]

/-- well-formed holdings: the long side is long, the short side is short -/
def Acct.WF (a : Acct) : Prop := ∀ h ∈ a.holdings, h.long.isLong = true ∧ h.short.isLong = false

/-- C14.2: an account restored on the new run's account (same configured rates) is the saved account, whatever the price board says -/
theorem acct_roundtrip (k : PersistKeys) (hk : k.complete = true) (board : Nat → R) (fresh a : Acct) (hwf : Acct.WF a)
    (hr : fresh.mgmtRate = a.mgmtRate) (hf : fresh.finRate = a.finRate) :
    Acct.restore k board fresh a = a := by
  simp [PersistKeys.complete, Bool.and_eq_true] at hk
  obtain ⟨⟨hp, ha⟩, _⟩ := hk
  have hp' : requiredPosKeys.all (kept k.pos) = true := by simpa using hp
  simp [requiredAcctKeys] at ha
  obtain ⟨a1, a2, a3, a4, a5, a6⟩ := ha
  have hmap : a.holdings.map (fun h => { h with long := Pos.restore k.pos (Pos.empty true (board h.ins)) h.long, short := Pos.restore k.pos (Pos.empty false (board h.ins)) h.short }) = a.holdings := by
    conv_rhs => rw [← List.map_id a.holdings]
    apply List.map_congr_left
    intro h hh
    obtain ⟨hl, hs⟩ := hwf h hh
    rw [pos_roundtrip k.pos hp' _ h.long (by simp [Pos.empty, hl]), pos_roundtrip k.pos hp' _ h.short (by simp [Pos.empty, hs])]
    rfl
  unfold Acct.restore
  rw [hmap]
  cases a
  simp_all

theorem pf_roundtrip (k : PersistKeys) (hk : k.complete = true) (board : Nat → R) (fresh p : Pf)
    (hlen : fresh.accounts.length = p.accounts.length)
    (hacc : ∀ i (hi : i < p.accounts.length), Acct.WF (p.accounts[i]) ∧
        (fresh.accounts[i]'(by omega)).mgmtRate = (p.accounts[i]).mgmtRate ∧ (fresh.accounts[i]'(by omega)).finRate = (p.accounts[i]).finRate) :
    Pf.restore k board fresh p = p := by
  have hk' := hk
  simp [PersistKeys.complete, Bool.and_eq_true] at hk'
  obtain ⟨_, hpf⟩ := hk'
  simp [requiredPfKeys] at hpf
  obtain ⟨p1, p2, p3⟩ := hpf
  have hzip : List.zipWith (Acct.restore k board) fresh.accounts p.accounts = p.accounts := by
    apply List.ext_getElem
    · simp [List.length_zipWith, hlen]
    · intro i h1 h2
      rw [List.getElem_zipWith]
      obtain ⟨hwf, hr, hf⟩ := hacc i h2
      exact acct_roundtrip k hk board _ _ hwf hr hf
  unfold Pf.restore
  rw [hzip]
  cases p
  simp_all

/-- the CURRENT source persists every field the model's later steps read (re-checked against the regenerated key table on every run) -/
theorem source_keys_complete : srcKeys.complete = true := by
  decide

/-- hence: after a restore in the current source the portfolio equals the saved one, so every later operation (a function of the state) coincides -/
theorem source_restore_exact (board : Nat → R) (fresh p : Pf) (hlen : fresh.accounts.length = p.accounts.length)
    (hacc : ∀ i (hi : i < p.accounts.length), Acct.WF (p.accounts[i]) ∧
        (fresh.accounts[i]'(by omega)).mgmtRate = (p.accounts[i]).mgmtRate ∧ (fresh.accounts[i]'(by omega)).finRate = (p.accounts[i]).finRate) :
    Pf.restore srcKeys board fresh p = p :=
  pf_roundtrip srcKeys source_keys_complete board fresh p hlen hacc

/-! what each missing key loses (kernel-checked; these are the defects F7a and F7d) -/
def allKeys : PersistKeys := ⟨requiredPosKeys, requiredAcctKeys, requiredPfKeys⟩
def posEx : Pos := { isLong := true, qty := 300, oldQty := 300, logicalOld := 300, avg := 10, tradeCost := 0, txnCost := 0, last := 11, nonClosable := 0, divRecv := none }
/-- without `last_price` the restored position is marked at whatever the price board says at the first access (F7d) -/
example : (Pos.restore (requiredPosKeys.filter (· != "last_price")) (Pos.empty true 12) posEx).last = 12 := by decide +kernel
example : Pos.restore requiredPosKeys (Pos.empty true 12) posEx = posEx := by decide +kernel
def acctEx : Acct := { totalCash := 1000, frozen := 0, liabilities := 500, pending := [(20200110, 250)], mgmtFees := 3, mgmtRate := 0, finRate := 0, holdings := [] }
def acctFresh : Acct := { totalCash := 9999, frozen := 0, liabilities := 0, pending := [], mgmtFees := 0, mgmtRate := 0, finRate := 0, holdings := [] }
/-- without the three keys the liability, the deposit in transit and the fees paid are gone after a resume (F7a) -/
example : let a := Acct.restore { allKeys with acct := ["positions", "frozen_cash", "total_cash"] } (fun _ => 0) acctFresh acctEx
    (a.liabilities, a.pending, a.mgmtFees, a.totalCash) = (0, [], 0, 1000) := by decide +kernel

/-! ### PersistHelper: the provider always holds the latest state -/

/-- C14: with the skip-if-equal-to-last rule, after ANY sequence of persistence points the stored state is the latest non-empty state -/
theorem persist_latest {σ : Type} [DecidableEq σ] (states : List (Option σ)) :
    (persistSeq true states).1 = (states.filterMap id).getLast? := by
  have key : ∀ (l : List (Option σ)) (st : Option σ × Option σ), st.1 = st.2 →
      (l.foldl (fun st cur => persistOne true st.1 st.2 cur) st).1 = ((l.filterMap id).getLast?).or st.1 := by
    intro l
    induction l with
    | nil => intro st _; simp
    | cons c l ih =>
      intro st hst
      rw [List.foldl_cons]
      cases c with
      | none =>
        rw [ih _ (by simpa [persistOne] using hst)]
        simp [persistOne]
      | some s =>
        by_cases hs : st.2 = some s
        · have h1 : persistOne true st.1 st.2 (some s) = st := by
            simp only [persistOne, hs, Bool.true_and, beq_self_eq_true, if_true]
            exact Prod.ext rfl hs.symm
          rw [h1, ih st hst]
          simp only [List.filterMap_cons, id]
          rw [List.getLast?_cons]
          cases (List.filterMap id l).getLast? <;> simp [hst, hs]
        · have h1 : persistOne true st.1 st.2 (some s) = (some s, some s) := by simp [persistOne, hs]
          rw [h1, ih _ rfl]
          simp only [List.filterMap_cons, id]
          rw [List.getLast?_cons]
          cases (List.filterMap id l).getLast? <;> simp
  have := key states (none, none) rfl
  simpa [persistSeq] using this

theorem persist_latest_noskip {σ : Type} [DecidableEq σ] (states : List (Option σ)) :
    (persistSeq false states).1 = (states.filterMap id).getLast? := by
  have key : ∀ (l : List (Option σ)) (st : Option σ × Option σ),
      (l.foldl (fun st cur => persistOne false st.1 st.2 cur) st).1 = ((l.filterMap id).getLast?).or st.1 := by
    intro l
    induction l with
    | nil => intro st; simp
    | cons c l ih =>
      intro st
      rw [List.foldl_cons]
      cases c with
      | none =>
        rw [ih _]
        simp [persistOne]
      | some s =>
        have h1 : persistOne false st.1 st.2 (some s) = (some s, some s) := by simp [persistOne]
        rw [h1, ih _]
        simp only [List.filterMap_cons, id]
        rw [List.getLast?_cons]
        cases (List.filterMap id l).getLast? <;> simp
  have := key states (none, none)
  simpa [persistSeq] using this

/-- the CURRENT source uses that rule -/
theorem source_skip_rule : RQ.Gen.persistSkipsOnLastEqual = true := by decide

/-- non-vacuity: a state that returns to an earlier value (A, B, A) is stored again -/
example : (persistSeq true [some 1, some 2, none, some 1]).1 = some 1 := by decide

/-! ### the executor across stop and resume -/

/-- the replayed settlement bracket of the stop day d at the start of a resumed run: the resumed run's clocks start at 00:00 of its
start date, and `_ensure_before_trading` moves only the DATE back to the stop day (the time of day is kept), so the bracket carries
the clocks 00:00 of d -/
def settleBracket (d : Nat) : List Pub := C08.split3 .st (mkTime d 0) (mkTime d 0)

theorem minuteOf_mkTime (d m : Nat) (h : m < 1440) : minuteOf (mkTime d m) = m := by
  unfold minuteOf mkTime; omega

/-- first day of a resumed run: the stop day `p` is settled again, with the clocks at 00:00 of `p` -/
theorem resume_first_day (cal : List Nat) (p d : Nat) (hne : p ≠ d) (hprev : prevTradingDate cal d 1 = some p) :
    execFrom cal ⟨some p, mkTime d 0, mkTime d 0⟩ (sourceDay1d d) =
      (⟨some d, mkTime d 930, mkTime d 930⟩,
       C08.split3 .st (mkTime p 0) (mkTime p 0) ++
       C08.split3 .bt (mkTime d 0) (mkTime d 0) ++ C08.split3 .auc (mkTime d 0) (mkTime d 0) ++
       C08.split3 .bar (mkTime d 900) (mkTime d 900) ++ C08.split3 .at_ (mkTime d 930) (mkTime d 930)) := by
  have h0 := C08.dayOf_mkTime d 0 (by omega)
  have h900 := C08.dayOf_mkTime d 900 (by omega)
  have hm := minuteOf_mkTime d 0 (by omega)
  have hne' : ¬ (some p = some d) := by intro h; exact hne (Option.some.inj h)
  have hne'' : ¬ (d = p) := fun h => hne h.symm
  simp [sourceDay1d, execFrom, execStep, ensureBT, splitPublish, C08.split3, h0, h900, hm, hne', hne'', hprev]

theorem prevLinked_append (cal : List Nat) : ∀ (a : List Nat) (ha : a ≠ []) (b : List Nat), C08.PrevLinked cal (a ++ b) →
    C08.PrevLinked cal a ∧ C08.PrevLinked cal (a.getLast ha :: b)
  | [x], _, b, h => by simpa [C08.PrevLinked] using h
  | x :: y :: rest, _, b, h => by
    have h' : prevTradingDate cal y 1 = some x ∧ C08.PrevLinked cal ((y :: rest) ++ b) := h
    have ih := prevLinked_append cal (y :: rest) (by simp) b h'.2
    refine ⟨⟨h'.1, ih.1⟩, ?_⟩
    simpa [List.getLast_cons] using ih.2

/-- C14 (events): run 1 over days `ds1` (ending with its final settlement) followed by the resumed run over `ds2` publishes the specified
sequence of ALL days — plus ONE extra settlement bracket of the stop day at the start of the resumed run (finding F7c: the stop day is
settled twice). Stated for the resumed part: -/
theorem resume_replays_settlement (cal : List Nat) (k d : Nat) (ds : List Nat) (hnd : (k :: d :: ds).Pairwise (· ≠ ·))
    (hl : C08.PrevLinked cal (k :: d :: ds)) :
    execResume cal k d ((d :: ds).getLast (by simp)) (source1d (d :: ds)) = settleBracket k ++ C08.spec1d (d :: ds) := by
  have hnd0 := List.pairwise_cons.mp hnd
  have hkd : k ≠ d := hnd0.1 d (by simp)
  have hnd' := List.pairwise_cons.mp hnd0.2
  have hl' : prevTradingDate cal d 1 = some k ∧ C08.PrevLinked cal (d :: ds) := hl
  have hrest := C08.run_rest cal ds d (fun x hx => hnd'.1 x hx) hnd'.2 hl'.2
  unfold execResume
  simp only [source1d, List.flatMap_cons] at *
  rw [C08.execFrom_append, resume_first_day cal k d hkd hl'.1]
  obtain ⟨h1, h2⟩ := hrest
  simp only [] at h1 h2 ⊢
  rw [h2, C08.dayOf_mkTime _ 930 (by omega)]
  simp only [if_true, splitPublish]
  have h1' : ∀ r : ExecState, C08.split3 .st r.envCal r.envTrd =
      [⟨.st, .pre, r.envCal, r.envTrd⟩, ⟨.st, .main, r.envCal, r.envTrd⟩, ⟨.st, .post, r.envCal, r.envTrd⟩] := fun _ => rfl
  rw [← h1', List.append_assoc, h1]
  simp only [settleBracket, C08.spec1d, List.flatMap_cons, C08.specDay1d, List.append_assoc]

/-- non-vacuity (kernel-evaluated model): calendar [1,2,3], stop day 1, resumed over days 2,3 — the replayed settlement bracket of day 1
carries the clocks `mkTime 1 0 = 1440` (the resumed run's 00:00 with the date moved back), not `mkTime 1 930` -/
example : execResume [1, 2, 3] 1 2 3 (source1d [2, 3]) = settleBracket 1 ++ C08.spec1d [2, 3] ∧
    (execResume [1, 2, 3] 1 2 3 (source1d [2, 3])).head? = some ⟨.st, .pre, 1440, 1440⟩ := by decide +kernel

/-- … while the uninterrupted run publishes each day's events once: the stop+resume sequence has exactly one settlement bracket more -/
theorem stop_resume_vs_full (cal : List Nat) (d0 : Nat) (ds1 : List Nat) (d : Nat) (ds2 : List Nat)
    (hnd : ((d0 :: ds1) ++ (d :: ds2)).Pairwise (· ≠ ·)) (hl : C08.PrevLinked cal ((d0 :: ds1) ++ (d :: ds2))) (s : Nat) :
    let k := (d0 :: ds1).getLast (by simp)
    execRun cal s k (source1d (d0 :: ds1)) ++ execResume cal k d ((d :: ds2).getLast (by simp)) (source1d (d :: ds2))
      = C08.spec1d (d0 :: ds1) ++ settleBracket k ++ C08.spec1d (d :: ds2) ∧
    execRun cal s ((d :: ds2).getLast (by simp)) (source1d ((d0 :: ds1) ++ (d :: ds2))) = C08.spec1d (d0 :: ds1) ++ C08.spec1d (d :: ds2) := by
  intro k
  have hpw := List.pairwise_append.mp hnd
  obtain ⟨hl1, hl2⟩ := prevLinked_append cal (d0 :: ds1) (by simp) (d :: ds2) hl
  have hkmem : k ∈ d0 :: ds1 := List.getLast_mem _
  have hnd2 : (k :: d :: ds2).Pairwise (· ≠ ·) :=
    List.pairwise_cons.mpr ⟨fun x hx => hpw.2.2 k hkmem x hx, hpw.2.1⟩
  constructor
  · rw [C08.published_eq_spec_1d cal d0 ds1 hpw.1 hl1 s, resume_replays_settlement cal k d ds2 hnd2 hl2, List.append_assoc]
  · have hlast : ((d0 :: ds1) ++ (d :: ds2)).getLast (by simp) = (d :: ds2).getLast (by simp) :=
      List.getLast_append_of_ne_nil _ (by simp)
    have := C08.published_eq_spec_1d cal d0 (ds1 ++ (d :: ds2)) (by simpa using hnd) (by simpa using hl) s
    simp only [← List.cons_append] at this
    rw [hlast] at this
    rw [this, C08.spec1d, List.flatMap_append]
    rfl

/-! ### why the replayed settlement is harmless without a management fee -/

/-- one holding at settlement -/
def stH (i : STInput) (h : Holding) : Holding :=
  if h.cfg.isFuture then
    { h with long := (h.long.settlementFuture h.cfg (i.settle h.ins) (i.expires h.ins)).1,
             short := (h.short.settlementFuture h.cfg (i.settle h.ins) (i.expires h.ins)).1 }
  else { h with long := (h.long.settlementStock (i.delist h.ins)).1, short := (h.short.settlementStock .none).1 }

/-- the fold step of `Acct.onSettlement` -/
def stStep (i : STInput) (acc : R × List Holding) (h : Holding) : R × List Holding :=
  if h.cfg.isFuture then
    let rl := h.long.settlementFuture h.cfg (i.settle h.ins) (i.expires h.ins)
    let rs := h.short.settlementFuture h.cfg (i.settle h.ins) (i.expires h.ins)
    (acc.1 + rl.2.1 + rs.2.1, acc.2 ++ [{ h with long := rl.1, short := rs.1 }])
  else
    let rl := h.long.settlementStock (i.delist h.ins)
    let rs := h.short.settlementStock .none
    (acc.1 + rl.2 + rs.2, acc.2 ++ [{ h with long := rl.1, short := rs.1 }])

theorem settlementStock_twice (p : Pos) (k : DelistKind) :
    (p.settlementStock k).1.settlementStock k = ((p.settlementStock k).1, 0) := by
  unfold Pos.settlementStock
  by_cases hq : p.qty = 0
  · simp [hq]
  · cases k <;> simp [hq]

theorem settlementFuture_twice (cfg : InsCfg) (hf : cfg.isFuture = true) (p : Pos) (s : Option R) (e : Bool) :
    ((p.settlementFuture cfg s e).1.settlementFuture cfg s e).1 = (p.settlementFuture cfg s e).1 ∧
    ((p.settlementFuture cfg s e).1.settlementFuture cfg s e).2.1 = 0 := by
  unfold Pos.settlementFuture
  by_cases hq : p.qty = 0
  · simp [hq]
  · cases e
    · cases s <;> simp [hq, Pos.equity, hf]
    · cases s <;> simp [hq]

theorem stStep_snd (i : STInput) (acc : R × List Holding) (h : Holding) : (stStep i acc h).2 = acc.2 ++ [stH i h] := by
  unfold stStep stH
  split_ifs <;> rfl

theorem stStep_fix (i : STInput) (acc : R × List Holding) (h : Holding) :
    stStep i acc (stH i h) = (acc.1, acc.2 ++ [stH i h]) := by
  by_cases hf : h.cfg.isFuture = true
  · have l1 := settlementFuture_twice h.cfg hf h.long (i.settle h.ins) (i.expires h.ins)
    have l2 := settlementFuture_twice h.cfg hf h.short (i.settle h.ins) (i.expires h.ins)
    have hH : stH i h = { h with long := (h.long.settlementFuture h.cfg (i.settle h.ins) (i.expires h.ins)).1,
                                 short := (h.short.settlementFuture h.cfg (i.settle h.ins) (i.expires h.ins)).1 } := by
      unfold stH; rw [if_pos hf]
    rw [hH]
    unfold stStep
    simp only [hf, ↓reduceIte]
    rw [l1.1, l1.2, l2.1, l2.2]
    simp
  · have l1 := settlementStock_twice h.long (i.delist h.ins)
    have l2 := settlementStock_twice h.short .none
    have hH : stH i h = { h with long := (h.long.settlementStock (i.delist h.ins)).1,
                                 short := (h.short.settlementStock .none).1 } := by
      unfold stH; rw [if_neg hf]
    have hf' : h.cfg.isFuture = false := by simpa using hf
    rw [hH]
    unfold stStep
    simp only [hf', Bool.false_eq_true, ↓reduceIte]
    rw [l1, l2]
    simp

theorem stFold_snd (i : STInput) : ∀ (hs : List Holding) (acc : R × List Holding),
    (hs.foldl (stStep i) acc).2 = acc.2 ++ hs.map (stH i)
  | [], acc => by simp
  | h :: hs, acc => by
    rw [List.foldl_cons, stFold_snd i hs, stStep_snd]; simp

theorem stFold_fix (i : STInput) : ∀ (hs : List Holding) (acc : R × List Holding),
    (hs.map (stH i)).foldl (stStep i) acc = (acc.1, acc.2 ++ hs.map (stH i))
  | [], acc => by simp
  | h :: hs, acc => by
    rw [List.map_cons, List.foldl_cons, stStep_fix, stFold_fix i hs]; simp

/-- the account after the position settlements -/
def stAcct (i : STInput) (a : Acct) : Acct :=
  { a with totalCash := (a.holdings.foldl (stStep i) (a.totalCash, [])).1, holdings := a.holdings.map (stH i) }

/-- the forced-liquidation step -/
def wipe (i : STInput) (b : Acct) : Acct :=
  if b.totalValue ≤ 0 && i.forced then { b with holdings := [], totalCash := 0 } else b

theorem onSettlement_norm (a : Acct) (i : STInput) (hr : a.mgmtRate = 0) : a.onSettlement i = wipe i (stAcct i a) := by
  have hstep : ∀ (acc : R × List Holding) (h : Holding), stStep i acc h =
      (if h.cfg.isFuture then
        (acc.1 + (h.long.settlementFuture h.cfg (i.settle h.ins) (i.expires h.ins)).2.1 +
          (h.short.settlementFuture h.cfg (i.settle h.ins) (i.expires h.ins)).2.1,
         acc.2 ++ [{ h with long := (h.long.settlementFuture h.cfg (i.settle h.ins) (i.expires h.ins)).1,
                            short := (h.short.settlementFuture h.cfg (i.settle h.ins) (i.expires h.ins)).1 }])
      else
        (acc.1 + (h.long.settlementStock (i.delist h.ins)).2 + (h.short.settlementStock .none).2,
         acc.2 ++ [{ h with long := (h.long.settlementStock (i.delist h.ins)).1, short := (h.short.settlementStock .none).1 }])) :=
    fun _ _ => rfl
  have h2 := stFold_snd i a.holdings (a.totalCash, [])
  simp only [List.nil_append] at h2
  unfold Acct.onSettlement wipe stAcct
  simp only [hr, beq_self_eq_true, if_true, add_zero, sub_zero]
  simp only [← h2]
  rfl

theorem stAcct_idem (i : STInput) (a : Acct) : stAcct i (stAcct i a) = stAcct i a := by
  unfold stAcct
  simp only [stFold_fix, List.nil_append]
  have : ∀ hs : List Holding, (hs.map (stH i)).map (stH i) = hs.map (stH i) := by
    intro hs
    have := stFold_snd i (hs.map (stH i)) (0, [])
    rw [stFold_fix] at this
    simpa using this.symm
  rw [this]

/-- settling an already settled account again changes nothing when no management fee is configured (futures were rebased to the
settlement price, delisted holdings are gone) -/
theorem settlement_idempotent_partial (a : Acct) (i : STInput) (hr : a.mgmtRate = 0) :
    (a.onSettlement i).onSettlement i = a.onSettlement i := by
  rw [onSettlement_norm a i hr]
  have hr2 : (stAcct i a).mgmtRate = 0 := hr
  by_cases hc : ((stAcct i a).totalValue ≤ 0 && i.forced) = true
  · -- wiped out: holdings = [], cash 0; a second wipe-out (if any) gives the same account
    have e : wipe i (stAcct i a) = { stAcct i a with holdings := [], totalCash := 0 } := by
      unfold wipe; rw [if_pos hc]
    obtain ⟨w, hw⟩ : ∃ w : Acct, w = { stAcct i a with holdings := [], totalCash := 0 } := ⟨_, rfl⟩
    have hwr : w.mgmtRate = 0 := by rw [hw]; exact hr2
    have hwh : w.holdings = [] := by rw [hw]
    have hwc : w.totalCash = 0 := by rw [hw]
    rw [e, ← hw, onSettlement_norm w i hwr]
    have hst : stAcct i w = w := by
      unfold stAcct
      rw [hwh]
      cases w
      simp_all
    rw [hst]
    unfold wipe
    split_ifs
    · cases w; simp_all
    · rfl
  · have e : wipe i (stAcct i a) = stAcct i a := by unfold wipe; rw [if_neg hc]
    rw [e, onSettlement_norm _ i hr2, stAcct_idem, e]

/-- … and with a management fee the fee is charged a second time (F7c, witnessed) -/
example : let a : Acct := { totalCash := 1000, frozen := 0, liabilities := 0, pending := [], mgmtFees := 0, mgmtRate := 1/100, finRate := 0, holdings := [] }
    let i : STInput := ⟨fun _ => .none, fun _ => none, fun _ => false, false⟩
    ((a.onSettlement i).totalCash, ((a.onSettlement i).onSettlement i).totalCash) = (990, 9801/10) := by decide +kernel


/-! ### the composed world (`RQ/Model/World.lean`) -/

/-- **resume = uninterrupted, for the trading core at a day boundary**: what a restored run has lost of the core's state — the matcher's per-bar
accumulators and the cost deciders' per-order minimum-commission map are not persisted — does not matter: stop with empty books (after any
close), continue with the morning and orders whose ids the interrupted run never used; if the deciders' shared entry for system trades
(order id `None`, dividend reinvestment) is untouched, the continuation from the restored state publishes exactly the events of the
uninterrupted continuation and ends in a state that agrees with it on everything but stale fee-map entries. -/
theorem world_resume_transparent (w : World) (today : Nat) (tax : R) (mkt : List DayIns) (rest : List WIn)
    (ho : w.openOrders = []) (ha : w.auctionOrders = [])
    (hfresh : ∀ id ∈ RQ.Lemmas.WorldC.submittedIds rest, ∀ t, ∀ e ∈ w.commMap, e.1 ≠ (some id, t))
    (hnone : ∀ t, w.commRem (none, t) = w.cfg.stockCost.minC) :
    let ins := WIn.preBeforeTrading today tax mkt :: WIn.beforeTrading :: rest
    (w.run ins).2 = ((RQ.Lemmas.WorldJ.forget w).run ins).2 ∧
    RQ.Lemmas.WorldJ.Agree (RQ.Lemmas.WorldJ.futureKeys rest) (w.run ins).1 ((RQ.Lemmas.WorldJ.forget w).run ins).1 :=
  RQ.Lemmas.WorldJ.resume_transparent w today tax mkt rest ho ha hfresh hnone

/-- the hypothesis on the `None` entry is exactly finding F27 (recorded): a partly used shared entry is lost by a restore and the next
reinvestment trade is charged differently (kernel-checked witness: fee 0 in the running world, 5 in the restored one) -/
theorem world_resume_needs_untouched_none_entry :
    ∃ (w : World) (wi : WIns), (w.tradeFee wi none true .open_ 100 10 0).1 ≠ ((RQ.Lemmas.WorldJ.forget w).tradeFee wi none true .open_ 100 10 0).1 :=
  RQ.Lemmas.WorldJ.none_entry_matters

/-! ### resuming INSIDE a trading day: the executor's own state decides whether the morning is repeated -/

/-- restored exactly (`last_before_trading` = the day being resumed): the day's remaining events publish no second BEFORE_TRADING and no settlement -/
theorem midday_resume_skips_morning (cal : List Nat) (s : ExecState) (e : Src) (h : s.lastBT = some (dayOf e.trd)) :
    ensureBT cal s e = (s, [], true) := by
  simp [ensureBT, h]

/-- restored as anything else (a value that does not compare equal to the day — what a date decoded as a datetime is): BEFORE_TRADING of that day is published again,
with everything the accounts do in the morning (day roll of the T+1 lock, dividends, …) -/
theorem inexact_restore_repeats_morning (cal : List Nat) (s : ExecState) (e : Src) (h : s.lastBT ≠ some (dayOf e.trd)) :
    (ensureBT cal s e).2.2 = false ∧ (⟨.bt, .main, e.cal, e.trd⟩ : Pub) ∈ (ensureBT cal s e).2.1 := by
  unfold ensureBT
  rw [if_neg h]
  constructor
  · rfl
  · simp [splitPublish]

end RQ.Props.C14

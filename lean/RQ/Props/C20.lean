/-
C20 — History and calendar APIs return exactly the right window, correctly adjusted.
Theorems over `RQ/Model/Calendar.lean` and `RQ/Model/History.lean` (instance `R := Rat`).
-/
import RQ.Model.History
import RQ.Model.Weekly
import RQ.Lemmas.Sorted
import Mathlib.Tactic.Linarith
import Mathlib.Tactic.FieldSimp
import Mathlib.Tactic.Ring

deriving instance DecidableEq for RQ.Q.Bar

namespace RQ.Props.C20
open RQ.Q RQ.Lemmas

/-! ### Calendar algebra (C20.3) -/

/-- `get_trading_dates(s, e)` is the sorted calendar slice between its bounds -/
theorem trading_dates_slice : ∀ (cal : List Nat), cal.Pairwise (· < ·) → ∀ s e,
    getTradingDates cal s e = cal.filter (fun d => s ≤ d && d ≤ e)
  | [], _, s, e => by simp [getTradingDates, pySlice, ssLeft, ssRight]
  | y :: ys, h, s, e => by
    have hy := List.pairwise_cons.mp h
    have ih := trading_dates_slice ys hy.2 s e
    unfold getTradingDates pySlice at *
    by_cases h1 : y < s
    · have hns : ¬ s ≤ y := by omega
      by_cases h2 : y ≤ e
      · simp only [ssLeft, ssRight, List.filter_cons, h1, h2, hns, decide_true, decide_false, if_true,
          List.length_cons, List.drop_succ_cons, Bool.false_and] at *
        rw [← ih]; congr 1; omega
      · have hnil : ys.filter (fun a => decide (a ≤ e)) = [] :=
          List.filter_eq_nil_iff.mpr (by intro z hz; have := hy.1 z hz; simp; omega)
        have hnil2 : ys.filter (fun d => decide (s ≤ d) && decide (d ≤ e)) = [] :=
          List.filter_eq_nil_iff.mpr (by intro z hz; have := hy.1 z hz; simp; omega)
        simp [ssLeft, ssRight, List.filter_cons, h1, h2, hns, hnil, hnil2]
    · have hs : s ≤ y := by omega
      have hnil : ys.filter (fun a => decide (a < s)) = [] :=
        List.filter_eq_nil_iff.mpr (by intro z hz; have := hy.1 z hz; simp; omega)
      have ht := take_ssRight id (y :: ys) (by simpa [SortedBy] using h) e
      simp only [List.map_id, id] at ht
      have hl : ssLeft (y :: ys) s = 0 := by simp [ssLeft, List.filter_cons, h1, hnil]
      rw [hl]; simp only [List.drop_zero, Nat.sub_zero]; rw [ht]
      apply List.filter_congr
      intro z hz
      have : s ≤ z := by
        rcases List.mem_cons.mp hz with rfl | hz'
        · exact hs
        · have := hy.1 z hz'; omega
      simp [this]

/-- day counts equal slice lengths -/
theorem count_eq_length (cal : List Nat) (s e : Nat) (hse : s ≤ e) :
    countTradingDates cal s e = ((getTradingDates cal s e).length : Int) := by
  have h1 := ssLeft_le_ssRight cal s e (by omega)
  have h2 := ssRight_le_length cal e
  unfold countTradingDates getTradingDates pySlice
  simp only [List.length_take, List.length_drop]
  omega

/-- `is_trading_date(d)` ⇔ `d` is in the calendar -/
theorem is_trading_date_iff_mem (cal : List Nat) (h : cal.Pairwise (· < ·)) (d : Nat) :
    isTradingDate cal d = true ↔ d ∈ cal := by
  have hd := drop_ssLeft id cal (by simpa [SortedBy] using h) d
  simp only [List.map_id, id] at hd
  unfold isTradingDate
  have hget : cal[ssLeft cal d]? = (cal.filter (fun a => decide (d ≤ a))).head? := by
    rw [← hd, List.head?_drop]
  simp only [hget]
  constructor
  · intro hh
    cases hf : (cal.filter (fun a => decide (d ≤ a))).head? with
    | none => simp [hf] at hh
    | some x =>
      simp [hf] at hh
      have hx : x ∈ cal.filter (fun a => decide (d ≤ a)) := List.mem_of_head? hf
      rw [← hh]; exact (List.mem_filter.mp hx).1
  · intro hmem
    have hmf : d ∈ cal.filter (fun a => decide (d ≤ a)) := List.mem_filter.mpr ⟨hmem, by simp⟩
    have hsorted : (cal.filter (fun a => decide (d ≤ a))).Pairwise (· < ·) := h.filter _
    cases hf : cal.filter (fun a => decide (d ≤ a)) with
    | nil => rw [hf] at hmf; simp at hmf
    | cons x xs =>
      rw [hf] at hmf hsorted
      have hxd : d ≤ x := by
        have : x ∈ cal.filter (fun a => decide (d ≤ a)) := by rw [hf]; simp
        simpa using (List.mem_filter.mp this).2
      rcases List.mem_cons.mp hmf with rfl | hin
      · simp
      · have := (List.pairwise_cons.mp hsorted).1 d hin
        omega

/-- on a trading day that is not the first of the calendar: `next(prev d) = d` -/
theorem next_prev (cal : List Nat) (h : cal.Pairwise (· < ·)) (i : Nat) (hi : i + 1 < cal.length) :
    (prevTradingDate cal cal[i+1] 1).bind (fun p => nextTradingDate cal p 1) = some cal[i+1] := by
  have e1 := ssLeft_getElem cal h (i+1) hi
  have hi' : i < cal.length := by omega
  have e2 := ssRight_getElem cal h i hi'
  unfold prevTradingDate; simp only [e1]
  have : cal[i + 1 - 1]? = some cal[i] := by simp [hi']
  simp only [ge_iff_le, Nat.le_add_left, if_true, this, Option.bind_some]
  unfold nextTradingDate; simp only [e2]
  have : ¬ (i + 1 + 1 > cal.length) := by omega
  simp [this, hi]

/-- on a trading day that is not the last: `prev(next d) = d` -/
theorem prev_next (cal : List Nat) (h : cal.Pairwise (· < ·)) (i : Nat) (hi : i + 1 < cal.length) :
    (nextTradingDate cal cal[i] 1).bind (fun p => prevTradingDate cal p 1) = some cal[i] := by
  have hi' : i < cal.length := by omega
  have e2 := ssRight_getElem cal h i hi'
  have e1 := ssLeft_getElem cal h (i+1) hi
  unfold nextTradingDate; simp only [e2]
  have : ¬ (i + 1 + 1 > cal.length) := by omega
  have hg : cal[i + 1 + 1 - 1]? = some cal[i+1] := by simp [hi]
  simp only [this, if_false, hg, Option.bind_some]
  unfold prevTradingDate; simp only [e1]
  simp [hi']

/-- clamping at the ends, stated explicitly: before/at the first day `prev` is the first day; at/after the last day
`next` is the last day -/
theorem prev_clamps_at_start (cal : List Nat) (d : Nat) (hd : ssLeft cal d = 0) :
    prevTradingDate cal d 1 = cal[0]? := by
  unfold prevTradingDate; simp [hd]

theorem next_clamps_at_end (cal : List Nat) (d : Nat) (hd : ssRight cal d = cal.length) :
    nextTradingDate cal d 1 = cal.getLast? := by
  unfold nextTradingDate; simp [hd]

/-- non-vacuity: a calendar with a gap -/
example : [3, 4, 5, 10, 11].Pairwise (· < ·) ∧ getTradingDates [3, 4, 5, 10, 11] 4 10 = [4, 5, 10]
    ∧ countTradingDates [3, 4, 5, 10, 11] 4 10 = 3 ∧ prevTradingDate [3, 4, 5, 10, 11] 10 1 = some 5
    ∧ nextTradingDate [3, 4, 5, 10, 11] 7 1 = some 10 := by decide

/-! ### History window (C20.1) -/

/-- the last `n` elements -/
def lastN {α : Type} (n : Nat) (l : List α) : List α := l.drop (l.length - n)

/-- **C20.1** for bars sorted by date the window is exactly the last `min(n, available)` bars dated `≤ end` -/
theorem window_spec (bars : List Bar) (h : SortedBy (·.dt) bars) (dt n : Nat) :
    historyWindow bars dt n = lastN n (bars.filter (fun b => b.dt ≤ dt)) := by
  have ht := take_ssRight (·.dt) bars h dt
  have hle : ssRight (bars.map (·.dt)) dt ≤ bars.length := by
    have := ssRight_le_length (bars.map (·.dt)) dt; simpa using this
  unfold historyWindow lastN pySlice
  generalize hi : ssRight (bars.map (·.dt)) dt = i at *
  rw [← ht]
  have hleft : (if i ≥ n then i - n else 0) = i - n := by split <;> omega
  simp only [hleft]
  rw [List.length_take, Nat.min_eq_left hle, List.take_drop]
  congr 2; omega

theorem window_length (bars : List Bar) (h : SortedBy (·.dt) bars) (dt n : Nat) :
    (historyWindow bars dt n).length = min n (bars.filter (fun b => b.dt ≤ dt)).length := by
  rw [window_spec bars h dt n]; unfold lastN; simp only [List.length_drop]; omega

/-- suspended (zero-volume) days are skipped only when asked, and only for common stock -/
theorem skip_suspended_rule (bars : List Bar) (isCS noAdj : Bool) (n dt : Nat) (skip : Bool) (orig : Nat)
    (hne : ¬ (if skip && isCS then filteredBars bars else bars).isEmpty) :
    historyBars bars isCS noAdj none n dt skip AdjustType.none orig =
      some (historyWindow (if skip && isCS then bars.filter (fun b => b.volume > 0) else bars) dt n) := by
  unfold historyBars filteredBars at *
  simp only [hne]
  simp

/-- before the open the window ends at the previous trading day; inside handle_bar at the current day -/
theorem api_end_date (cal : List Nat) (td cd : Nat) :
    apiEndDate cal true td cd = prevTradingDate cal td 1 ∧ apiEndDate cal false td cd = some cd := by
  unfold apiEndDate; simp

/-! ### Price adjustment (C20.2) -/

/-- the specified adjustment of one bar: prices × F(date)/F(now), volume × the inverse -/
def adjSpec (facs : List (Nat × R)) (base : R) (b : Bar) : Option Bar :=
  (factorForDate facs b.dt).map (fun f => scaleBar b (f / base))

theorem scaleBar_one (b : Bar) : scaleBar b 1 = b := by
  cases b; simp [scaleBar]

/-- a bar dated in the current factor period is returned unchanged -/
theorem same_period_unadjusted (facs : List (Nat × R)) (base : R) (b : Bar) (hb : base ≠ 0)
    (h : factorForDate facs b.dt = some base) : adjSpec facs base b = some b := by
  unfold adjSpec; rw [h]; simp only [Option.map_some]
  have : base / base = 1 := by field_simp
  rw [this, scaleBar_one]

theorem mapM_some_of_forall {α β : Type} (f : α → Option β) (g : α → β) :
    ∀ (l : List α), (∀ a ∈ l, f a = some (g a)) → l.mapM f = some (l.map g)
  | [], _ => by simp
  | a :: as, h => by
    have h1 := h a (by simp)
    have h2 := mapM_some_of_forall f g as (fun x hx => h x (by simp [hx]))
    simp [List.mapM_cons, h1, h2]

/-- **C20.2** `adjust_bars` (type 'pre') returns every bar scaled by `F(date)/F(now)`, volume by the inverse — for EVERY factor
table (after the repair of finding F15 the statement needs no hypothesis about the table: the window comes back unchanged only when
every bar carries the base factor, and then the specification is the identity too) -/
theorem adjust_spec (bars : List Bar) (facs : List (Nat × R)) (orig : Nat) (base : R) (hb : base ≠ 0)
    (hbase : factorForDate facs orig = some base)
    (hdef : ∀ b ∈ bars, ∃ f, factorForDate facs b.dt = some f) :
    adjustBars bars facs AdjustType.pre orig = bars.mapM (adjSpec facs base) := by
  cases hbars : bars with
  | nil => simp [adjustBars]
  | cons first rest =>
    rw [← hbars]
    have hfl : bars.mapM (fun b => factorForDate facs b.dt) = some (bars.map (fun b => (factorForDate facs b.dt).getD 0)) := by
      apply mapM_some_of_forall
      intro b hbm
      obtain ⟨f, hf⟩ := hdef b hbm
      simp [hf]
    have hunf : adjustBars bars facs AdjustType.pre orig =
        (if (bars.map (fun b => (factorForDate facs b.dt).getD 0)).all (fun f => f == base) then some bars
         else bars.mapM (fun b => (factorForDate facs b.dt).map (fun f => scaleBar b (f / base)))) := by
      rw [hbars]; simp only [adjustBars]; rw [← hbars, hbase, hfl]
    rw [hunf]
    by_cases hc : (bars.map (fun b => (factorForDate facs b.dt).getD 0)).all (fun f => f == base) = true
    · simp only [hc, if_true]
      symm
      have : bars.mapM (adjSpec facs base) = some (bars.map id) := by
        apply mapM_some_of_forall
        intro b hbm
        obtain ⟨f, hf⟩ := hdef b hbm
        have hall := List.all_eq_true.mp hc ((factorForDate facs b.dt).getD 0) (List.mem_map.mpr ⟨b, hbm, rfl⟩)
        rw [hf] at hall
        have hfb : f = base := by simpa using hall
        rw [hfb] at hf
        simpa using same_period_unadjusted facs base b hb hf
      simpa using this
    · simp only [hc]; rfl

/-- 'none' adjustment is the identity on the window -/
theorem adjust_none_identity (bars : List Bar) (isCS : Bool) (facs : Option (List (Nat × R))) (n dt : Nat) (orig : Nat)
    (hne : ¬ bars.isEmpty) :
    historyBars bars isCS false facs n dt false AdjustType.none orig = some (historyWindow bars dt n) := by
  unfold historyBars; simp [hne]

/-- the table that used to defeat the early return (finding F15, repaired): cumulative factors 1 → 2 → 1 (a split later exactly
undone); the window's ends carry the base factor, the middle bar does not — the middle bar is now adjusted (close 5 · 2/1 = 10) -/
def f15Bars : List Bar :=
  [⟨1, 10, 10, 10, 10, 100, 1000, 11, 9⟩, ⟨5, 5, 5, 5, 5, 200, 1000, 5.5, 4.5⟩, ⟨9, 10, 10, 10, 10, 100, 1000, 11, 9⟩]
def f15Facs : List (Nat × R) := [(0, 1), (4, 2), (8, 1)]

theorem f15_window_adjusted :
    (adjustBars f15Bars f15Facs AdjustType.pre 9).map (fun l => l.map (·.closeP)) = some [10, 10, 10] ∧
    adjustBars f15Bars f15Facs AdjustType.pre 9 = f15Bars.mapM (adjSpec f15Facs 1) := by
  constructor <;> decide +kernel

/-- non-vacuity of `adjust_spec`: one split (factor 1 → 2) inside the window -/
example : adjustBars [⟨1, 10, 10, 10, 10, 100, 1000, 11, 9⟩, ⟨5, 5, 5, 5, 5, 200, 1000, 5.5, 4.5⟩] [(0, 1), (4, 2)] AdjustType.pre 5
    = some [⟨1, 5, 5, 5, 5, 200, 1000, 5.5, 4.5⟩, ⟨5, 5, 5, 5, 5, 200, 1000, 5.5, 4.5⟩] := by decide +kernel

/-! ### Weekly bars ('1w'): aggregation of the daily bars of each calendar week -/

/-- grouping into weeks neither loses, duplicates nor reorders a daily bar -/
theorem groupWeeks_flatten (l : List Bar) : (groupWeeks l).flatten = l := by
  induction l with
  | nil => rfl
  | cons b rest ih =>
    simp only [groupWeeks]
    cases h : groupWeeks rest with
    | nil => rw [h] at ih; simp only [List.flatten_nil] at ih; simp [← ih]
    | cons g gs =>
      rw [h] at ih
      cases g with
      | nil => simp only [List.flatten_cons, List.nil_append] at ih; simp [ih]
      | cons c g' =>
        simp only
        split
        · simp only [List.flatten_cons, List.cons_append] at ih ⊢; rw [ih]
        · simp only [List.flatten_cons, List.cons_append, List.nil_append] at ih ⊢; rw [ih]

/-- the weekly open is the open of the week's first daily bar -/
theorem weekAgg_open (f : Bar) (r : List Bar) : (weekAgg f r).openP = f.openP := by
  unfold weekAgg
  induction r generalizing f with
  | nil => rfl
  | cons b rest ih => simp only [List.foldl_cons]; rw [ih]

/-- the weekly close is the close of the week's last daily bar -/
theorem weekAgg_close (f : Bar) (r : List Bar) : (weekAgg f r).closeP = ((f :: r).getLast (List.cons_ne_nil _ _)).closeP := by
  unfold weekAgg
  induction r generalizing f with
  | nil => rfl
  | cons b rest ih =>
    simp only [List.foldl_cons]
    rw [ih]
    cases rest with
    | nil => rfl
    | cons c rest' => simp [List.getLast_cons]

/-- the weekly high is at least every daily high of the week, the weekly low at most every daily low -/
theorem weekAgg_high_low (f : Bar) (r : List Bar) :
    ∀ b ∈ f :: r, b.highP ≤ (weekAgg f r).highP ∧ (weekAgg f r).lowP ≤ b.lowP := by
  unfold weekAgg
  induction r generalizing f with
  | nil => intro b hb; simp only [List.mem_singleton] at hb; subst hb; exact ⟨le_refl _, le_refl _⟩
  | cons c rest ih =>
    intro b hb
    simp only [List.foldl_cons]
    have key := ih ⟨c.dt, f.openP, c.closeP, (if c.highP > f.highP then c.highP else f.highP), (if c.lowP < f.lowP then c.lowP else f.lowP),
      f.volume + c.volume, f.turnover + c.turnover, f.limitUp, f.limitDown⟩
    simp only [List.mem_cons] at hb
    rcases hb with rfl | rfl | hb
    · obtain ⟨h1, h2⟩ := key _ List.mem_cons_self
      simp only at h1 h2
      constructor
      · refine le_trans ?_ h1; split_ifs with h <;> [exact le_of_lt h; exact le_refl _]
      · refine le_trans h2 ?_; split_ifs with h <;> [exact le_of_lt h; exact le_refl _]
    · obtain ⟨h1, h2⟩ := key _ List.mem_cons_self
      simp only at h1 h2
      constructor
      · refine le_trans ?_ h1; split_ifs with h <;> [exact le_refl _; exact not_lt.mp h]
      · refine le_trans h2 ?_; split_ifs with h <;> [exact le_refl _; exact not_lt.mp h]
    · exact key b (List.mem_cons_of_mem _ hb)

/-- at most `n` weekly bars are returned -/
theorem weeklyBars_length (daily : List Bar) (n : Nat) : (weeklyBars daily n).length ≤ n := by
  unfold weeklyBars
  simp only [List.length_drop]
  omega

/-- without adjustment the weekly answer is a function of the daily window alone -/
theorem weekly_none_is_aggregation (bars : List Bar) (isCS : Bool) (facs : Option (List (Nat × R))) (n dt orig : Nat) (inow skip : Bool)
    (hne : (if skip && isCS then filteredBars bars else bars).isEmpty = false) :
    ∃ w, historyBarsWeekly bars isCS false facs n dt inow skip .none orig = some (weeklyBars w n) := by
  unfold historyBarsWeekly
  simp only [hne, Bool.false_eq_true, if_false]
  have h : (AdjustType.none == AdjustType.none || false) = true := by decide
  rw [if_pos h]
  exact ⟨_, rfl⟩

/-- non-vacuity: Thu 2020-01-02, Fri 2020-01-03, Mon 2020-01-06 — two weeks; the first week's bar has the open of Thursday, the close of
Friday, the higher high, the lower low and the summed volume -/
example : (weeklyBars [⟨20200102, 10, 11, 12, 9, 100, 1000, 0, 0⟩, ⟨20200103, 11, 12, 13, 10, 200, 2000, 0, 0⟩, ⟨20200106, 12, 12, 12, 12, 50, 600, 0, 0⟩] 5).map
    (fun b => (b.openP, b.closeP, b.highP, b.lowP, b.volume)) = [(10, 12, 13, 9, 300), (12, 12, 12, 12, 50)] := by
  decide +kernel

end RQ.Props.C20

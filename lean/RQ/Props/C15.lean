/-
C15 — Order-sizing APIs: whole lots, never over the requested value, cash or holdings.
Theorems over `RQ/Model/Sizing.lean` (instance `R := Rat`).
-/
import RQ.Model.Sizing
import Mathlib.Tactic.Linarith
import Mathlib.Tactic.Ring
import Mathlib.Tactic.SplitIfs
import Mathlib.Tactic.Positivity
import Mathlib.Tactic.Push
import Mathlib.Data.Rat.Floor
import RQ.Lemmas.WorldApi
import RQ.Lemmas.WorldD

namespace RQ.Props.C15
open RQ.Q

/-! ### 1. Lot rounding -/

/-- the 10-significant-digit decimal quotient is exact for this request (true for every integral share count below 10^10
with lots 1 / 100; the excluded region is where `Decimal` under `prec = 10` rounds, e.g. 1999.9999999999 / 10 → 200) -/
def ExactQuot (q : R) (lot : Int) : Prop := roundSig10Rat (q / (lot : Rat)) = q / (lot : Rat)

/-! #### helpers: truncation, the decimal quotient, `_submit_order` -/

theorem floor_eq (x : Rat) : x.floor = ⌊x⌋ := rfl

theorem truncI_spec_nonneg (x : Rat) (h : 0 ≤ x) :
    0 ≤ R.truncI x ∧ (R.truncI x : Rat) ≤ x ∧ x < (R.truncI x : Rat) + 1 := by
  unfold R.truncI
  rw [if_neg (not_lt.2 h), floor_eq]
  exact ⟨Int.floor_nonneg.2 h, Int.floor_le x, Int.lt_floor_add_one x⟩

theorem truncI_spec_nonpos (x : Rat) (h : x ≤ 0) :
    R.truncI x ≤ 0 ∧ x ≤ (R.truncI x : Rat) ∧ (R.truncI x : Rat) - 1 < x := by
  unfold R.truncI
  split_ifs with hx
  · rw [floor_eq]
    have h1 := Int.floor_le (-x)
    have h2 := Int.lt_floor_add_one (-x)
    have h3 : 0 ≤ ⌊-x⌋ := Int.floor_nonneg.2 (by linarith)
    refine ⟨by omega, ?_, ?_⟩ <;> push_cast <;> linarith
  · have h0 : x = 0 := le_antisymm h (not_lt.1 hx)
    subst h0
    simp [floor_eq]

theorem truncI_intCast (m : Int) : R.truncI (m : Rat) = m := by
  unfold R.truncI
  split_ifs
  · rw [floor_eq, ← Int.cast_neg, Int.floor_intCast]; omega
  · rw [floor_eq, Int.floor_intCast]

theorem decQuot10_eq_truncI (a b : Rat) : R.decQuot10 a b = R.truncI (roundSig10Rat (a / b)) := rfl

/-- the half-even rounding used inside the decimal helpers -/
def halfEven (y : Rat) : Int :=
  let f := y.floor
  let d := y - (f : Rat)
  if d < 1/2 then f else if d > 1/2 then f + 1 else if f % 2 = 0 then f else f + 1

theorem halfEven_nonneg (y : Rat) (h : 0 ≤ y) : 0 ≤ halfEven y := by
  have : 0 ≤ y.floor := by rw [floor_eq]; exact Int.floor_nonneg.2 h
  unfold halfEven
  simp only
  split_ifs <;> omega

theorem scaleUp_nonneg (fuel : Nat) (y : Rat) (k : Nat) (h : 0 ≤ y) : 0 ≤ (roundSig10Pos.scaleUp fuel y k).1 := by
  induction fuel generalizing y k with
  | zero => simpa [roundSig10Pos.scaleUp] using h
  | succ n ih =>
    unfold roundSig10Pos.scaleUp
    split_ifs
    · exact ih _ _ (by positivity)
    · exact h

theorem roundSig10Pos_eq (m : Rat) :
    roundSig10Pos m =
      if m.floor.toNat = 0 then
        ((halfEven ((roundSig10Pos.scaleUp 400 m 0).1 * ((10 ^ 9 : Nat) : Rat)) : Int) : Rat) / ((10 ^ 9 : Nat) : Rat)
          / ((10 ^ (roundSig10Pos.scaleUp 400 m 0).2 : Nat) : Rat)
      else if natDigits m.floor.toNat ≥ 10 then
        ((halfEven (m / ((10 ^ (natDigits m.floor.toNat - 10) : Nat) : Rat)) : Int) : Rat)
          * ((10 ^ (natDigits m.floor.toNat - 10) : Nat) : Rat)
      else
        ((halfEven (m * ((10 ^ (10 - natDigits m.floor.toNat) : Nat) : Rat)) : Int) : Rat)
          / ((10 ^ (10 - natDigits m.floor.toNat) : Nat) : Rat) := rfl

theorem roundSig10Pos_nonneg (m : Rat) (h : 0 ≤ m) : 0 ≤ roundSig10Pos m := by
  rw [roundSig10Pos_eq]
  split_ifs
  · have hy := scaleUp_nonneg 400 m 0 h
    have := halfEven_nonneg ((roundSig10Pos.scaleUp 400 m 0).1 * ((10 ^ 9 : Nat) : Rat)) (by positivity)
    have h' : (0 : Rat) ≤ ((halfEven ((roundSig10Pos.scaleUp 400 m 0).1 * ((10 ^ 9 : Nat) : Rat)) : Int) : Rat) := by
      exact_mod_cast this
    positivity
  · have := halfEven_nonneg (m / ((10 ^ (natDigits m.floor.toNat - 10) : Nat) : Rat)) (by positivity)
    have h' : (0 : Rat) ≤ ((halfEven (m / ((10 ^ (natDigits m.floor.toNat - 10) : Nat) : Rat)) : Int) : Rat) := by
      exact_mod_cast this
    positivity
  · have := halfEven_nonneg (m * ((10 ^ (10 - natDigits m.floor.toNat) : Nat) : Rat)) (by positivity)
    have h' : (0 : Rat) ≤ ((halfEven (m * ((10 ^ (10 - natDigits m.floor.toNat) : Nat) : Rat)) : Int) : Rat) := by
      exact_mod_cast this
    positivity

theorem roundSig10Rat_nonpos (q : Rat) (h : q ≤ 0) : roundSig10Rat q ≤ 0 := by
  unfold roundSig10Rat
  split_ifs with h0 h1
  · exact le_refl _
  · have := roundSig10Pos_nonneg (-q) (by linarith)
    linarith
  · exact absurd (le_antisymm h (not_lt.1 h1)) h0

/-- a non-positive value over a positive price gives a non-positive share count -/
theorem decQuot10_nonpos (a b : Rat) (ha : a ≤ 0) (hb : 0 < b) : R.decQuot10 a b ≤ 0 := by
  rw [decQuot10_eq_truncI]
  exact (truncI_spec_nonpos _ (roundSig10Rat_nonpos _ (div_nonpos_of_nonpos_of_nonneg ha hb.le))).1

theorem roundOrderQty_eq (ins : SzIns) (hk : ins.isKSH = false) (q : R) (hex : ExactQuot q ins.lot) :
    roundOrderQty ins q = R.truncI (q / (ins.lot : Rat)) * ins.lot := by
  unfold roundOrderQty
  rw [if_neg (by simp [hk]), decQuot10_eq_truncI]
  unfold ExactQuot at hex
  unfold R.ofInt
  rw [hex]

theorem roundOrderQty_dvd (ins : SzIns) (hk : ins.isKSH = false) (q : R) : ins.lot ∣ roundOrderQty ins q := by
  unfold roundOrderQty
  rw [if_neg (by simp [hk])]
  exact Dvd.intro_left _ rfl

/-- a whole number of lots in the exact range is left unchanged by the lot rounding -/
theorem roundOrderQty_multiple (ins : SzIns) (hk : ins.isKSH = false) (hlot : 0 < ins.lot) (r : Int) (hd : ins.lot ∣ r)
    (hex : ExactQuot (r : Rat) ins.lot) : roundOrderQty ins (r : Rat) = r := by
  rw [roundOrderQty_eq ins hk _ hex]
  obtain ⟨m, rfl⟩ := hd
  have hL : (ins.lot : Rat) ≠ 0 := by exact_mod_cast hlot.ne'
  have : ((ins.lot * m : Int) : Rat) / (ins.lot : Rat) = (m : Rat) := by
    push_cast; field_simp
  rw [this, truncI_intCast]; ring

/-- `_submit_order` rounds unless the amount is exactly (minus) the holding -/
def NeedRound (amount : R) (cur : Int) : Prop :=
  if amount > 0 then (cur : Rat) ≠ -amount else (cur : Rat) ≠ (if amount < 0 then -amount else amount)

theorem orderShares_round (ins : SzIns) (amount : R) (cur : Int) (h : NeedRound amount cur) :
    orderShares ins amount cur =
      if roundOrderQty ins amount = 0 then none
      else some (decide (amount > 0), if roundOrderQty ins amount < 0 then -roundOrderQty ins amount else roundOrderQty ins amount) := by
  unfold NeedRound at h
  unfold orderShares stockSubmitQty R.ofInt
  by_cases hp : amount > 0
  · rw [if_pos hp] at h
    simp only [hp, decide_true, Bool.true_and, Bool.not_true, Bool.false_and, Bool.or_false, bne_iff_ne, ne_eq, h,
      not_false_eq_true, if_true]
    split_ifs <;> rfl
  · rw [if_neg hp] at h
    simp only [hp, decide_false, Bool.false_and, Bool.not_false, Bool.true_and, Bool.false_or, bne_iff_ne, ne_eq, h,
      not_false_eq_true, if_true]
    split_ifs <;> rfl

theorem orderShares_noround (ins : SzIns) (amount : R) (cur : Int) (h : ¬ NeedRound amount cur) :
    orderShares ins amount cur =
      if R.truncI amount = 0 then none
      else some (decide (amount > 0), if R.truncI amount < 0 then -R.truncI amount else R.truncI amount) := by
  unfold NeedRound at h
  unfold orderShares stockSubmitQty R.ofInt
  by_cases hp : amount > 0
  · rw [if_pos hp, not_not] at h
    simp only [hp, decide_true, Bool.true_and, Bool.not_true, Bool.false_and, Bool.or_false, bne_iff_ne, ne_eq, h,
      not_true_eq_false, if_false]
    split_ifs <;> rfl
  · rw [if_neg hp, not_not] at h
    simp only [hp, decide_false, Bool.false_and, Bool.not_false, Bool.true_and, Bool.false_or, bne_iff_ne, ne_eq, h,
      not_true_eq_false, if_false]
    split_ifs <;> rfl

/-- **C15.1** lot rounding truncates toward zero to a whole number of lots: the result is a multiple of the lot, has the
sign of the request, does not exceed it in absolute value, and the next multiple does -/
theorem round_lot_spec (ins : SzIns) (hk : ins.isKSH = false) (hlot : 0 < ins.lot) (q : R) (hex : ExactQuot q ins.lot) :
    ins.lot ∣ roundOrderQty ins q ∧
    (0 ≤ q → 0 ≤ roundOrderQty ins q ∧ (roundOrderQty ins q : Rat) ≤ q ∧ q < (roundOrderQty ins q : Rat) + (ins.lot : Rat)) ∧
    (q ≤ 0 → roundOrderQty ins q ≤ 0 ∧ q ≤ (roundOrderQty ins q : Rat) ∧ (roundOrderQty ins q : Rat) - (ins.lot : Rat) < q) := by
  have hL : (0 : Rat) < (ins.lot : Rat) := by exact_mod_cast hlot
  rw [roundOrderQty_eq ins hk q hex]
  refine ⟨Dvd.intro_left _ rfl, ?_, ?_⟩
  · intro hq
    obtain ⟨h1, h2, h3⟩ := truncI_spec_nonneg (q / (ins.lot : Rat)) (div_nonneg hq hL.le)
    rw [le_div_iff₀ hL] at h2
    rw [div_lt_iff₀ hL] at h3
    refine ⟨mul_nonneg h1 hlot.le, ?_, ?_⟩
    · push_cast; exact h2
    · push_cast; linarith
  · intro hq
    obtain ⟨h1, h2, h3⟩ := truncI_spec_nonpos (q / (ins.lot : Rat)) (div_nonpos_of_nonpos_of_nonneg hq hL.le)
    rw [div_le_iff₀ hL] at h2
    rw [lt_div_iff₀ hL] at h3
    refine ⟨mul_nonpos_of_nonpos_of_nonneg h1 hlot.le, ?_, ?_⟩
    · push_cast; exact h2
    · push_cast; linarith

/-- STAR market: nothing below 200 shares, otherwise the request truncated to whole shares -/
theorem round_ksh_spec (ins : SzIns) (hk : ins.isKSH = true) (q : R) :
    roundOrderQty ins q = (if (if q < 0 then -q else q) < 200 then 0 else R.truncI q) := by
  unfold roundOrderQty kshMinAmount
  rw [if_pos hk]

/-- odd lots arise only from full liquidations: a SELL whose amount equals the whole holding is not rounded -/
theorem odd_lot_only_full_liquidation (ins : SzIns) (holding : Int) (hh : 0 < holding) :
    orderShares ins (-(holding : Rat)) holding = some (false, holding) := by
  have hR : (0 : Rat) < (holding : Rat) := by exact_mod_cast hh
  have hnr : ¬ NeedRound (-(holding : Rat)) holding := by
    unfold NeedRound
    rw [if_neg (by linarith), if_pos (by linarith)]
    simp
  rw [orderShares_noround ins _ _ hnr, ← Int.cast_neg, truncI_intCast]
  rw [if_neg (by omega), if_pos (by omega)]
  simp only [gt_iff_lt, neg_neg, Option.some.injEq, Prod.mk.injEq, decide_eq_false_iff_not, not_lt, and_true]
  push_cast
  linarith

/-- any other created quantity is a whole number of lots (non-STAR instruments) -/
theorem shares_whole_lots (ins : SzIns) (hk : ins.isKSH = false) (amount : R) (cur : Int) (isBuy : Bool) (q : Int)
    (h : orderShares ins amount cur = some (isBuy, q))
    (hne : ¬ (amount < 0 ∧ (cur : Rat) = -amount) ∧ ¬ (amount > 0 ∧ (cur : Rat) = -amount)) :
    ins.lot ∣ q := by
  by_cases hnr : NeedRound amount cur
  · rw [orderShares_round ins _ _ hnr] at h
    have hd := roundOrderQty_dvd ins hk amount
    split_ifs at h with h0 h1
    · simp only [Option.some.injEq, Prod.mk.injEq] at h
      rw [← h.2]; exact (Int.dvd_neg).2 hd
    · simp only [Option.some.injEq, Prod.mk.injEq] at h
      rw [← h.2]; exact hd
  · exfalso
    unfold NeedRound at hnr
    by_cases hp : amount > 0
    · rw [if_pos hp, not_not] at hnr
      exact hne.2 ⟨hp, hnr⟩
    · rw [if_neg hp, not_not] at hnr
      by_cases hn : amount < 0
      · rw [if_pos hn] at hnr
        exact hne.1 ⟨hn, hnr⟩
      · have h0 : amount = 0 := le_antisymm (not_lt.1 hp) (not_lt.1 hn)
        subst h0
        have hnr' : ¬ NeedRound (0 : Rat) cur := by
          unfold NeedRound; rw [if_neg hp, not_not]; exact hnr
        rw [orderShares_noround ins _ _ hnr'] at h
        have : R.truncI (0 : Rat) = 0 := by exact_mod_cast truncI_intCast 0
        rw [if_pos this] at h
        exact absurd h (by simp)

/-- **C15.5** a request that rounds to zero creates no order -/
theorem zero_request_no_order (ins : SzIns) (hk : ins.isKSH = false) (amount : R) (cur : Int)
    (hz : roundOrderQty ins amount = 0) (hne : (cur : Rat) ≠ -amount ∧ (cur : Rat) ≠ (if amount < 0 then -amount else amount)) :
    orderShares ins amount cur = none := by
  have _ := hk
  have hnr : NeedRound amount cur := by
    unfold NeedRound
    by_cases hp : amount > 0
    · rw [if_pos hp]; exact hne.1
    · rw [if_neg hp]; exact hne.2
  rw [orderShares_round ins _ _ hnr, if_pos hz]

/-! ### 2. The value loop: the largest affordable whole-lot quantity -/

def feasible (price cash : R) (cost : Int → R) (a : Int) : Prop := (a : Rat) * price + cost a ≤ cash

theorem value_loop_aux (price cash : R) (cost : Int → R) (lot : Int) (hlot : 0 < lot) :
    ∀ n : Nat, ∀ a : Int, a.toNat = n →
      (valueLoop price cash cost lot hlot a = 0 ∨
        (0 < valueLoop price cash cost lot hlot a ∧ feasible price cash cost (valueLoop price cash cost lot hlot a))) ∧
      (∀ k : Nat, valueLoop price cash cost lot hlot a < a - k * lot → 0 < a - k * lot →
        ¬ feasible price cash cost (a - k * lot)) ∧
      (valueLoop price cash cost lot hlot a = 0 ∨ ∃ k : Nat, valueLoop price cash cost lot hlot a = a - k * lot) := by
  intro n
  induction n using Nat.strong_induction_on with
  | _ n ih =>
    intro a ha
    by_cases hpos : 0 < a
    · by_cases hf : R.ofInt a * price + cost a ≤ cash
      · have hr : valueLoop price cash cost lot hlot a = a := by
          rw [valueLoop, dif_pos hpos, if_pos hf]
        rw [hr]
        refine ⟨Or.inr ⟨hpos, hf⟩, ?_, Or.inr ⟨0, by simp⟩⟩
        intro k hk
        exfalso
        have : (0 : Int) ≤ (k : Int) * lot := mul_nonneg (Int.natCast_nonneg k) hlot.le
        omega
      · have hr : valueLoop price cash cost lot hlot a = valueLoop price cash cost lot hlot (a - lot) := by
          rw [valueLoop, dif_pos hpos, if_neg hf]
        rw [hr]
        obtain ⟨h1, h2, h3⟩ := ih (a - lot).toNat (by omega) (a - lot) rfl
        refine ⟨h1, ?_, ?_⟩
        · intro k hk hk0
          cases k with
          | zero => simpa [feasible, R.ofInt] using hf
          | succ k' =>
            have e : a - ((k' + 1 : Nat) : Int) * lot = (a - lot) - (k' : Int) * lot := by push_cast; ring
            rw [e] at hk hk0 ⊢
            exact h2 k' hk hk0
        · rcases h3 with h3 | ⟨k, hk⟩
          · exact Or.inl h3
          · exact Or.inr ⟨k + 1, by rw [hk]; push_cast; ring⟩
    · have hr : valueLoop price cash cost lot hlot a = 0 := by
        rw [valueLoop, dif_neg hpos]
      rw [hr]
      refine ⟨Or.inl rfl, ?_, Or.inl rfl⟩
      intro k _ hk0
      exfalso
      have : (0 : Int) ≤ (k : Int) * lot := mul_nonneg (Int.natCast_nonneg k) hlot.le
      omega

/-- **C15.2 (loop)** the loop terminates and returns 0 or a positive feasible candidate `a − k·lot`, and every
candidate above the result is infeasible: the result is the LARGEST affordable quantity among `a, a − lot, a − 2·lot, …` -/
theorem value_loop_spec (price cash : R) (cost : Int → R) (lot : Int) (hlot : 0 < lot) (a : Int) :
    let r := valueLoop price cash cost lot hlot a
    (r = 0 ∨ (0 < r ∧ feasible price cash cost r)) ∧
    (∀ k : Nat, r < a - k * lot → 0 < a - k * lot → ¬ feasible price cash cost (a - k * lot)) ∧
    (r = 0 ∨ ∃ k : Nat, r = a - k * lot) := by
  exact value_loop_aux price cash cost lot hlot _ a rfl

/-! #### `_order_value` unfolded -/

theorem pymin_eq_min (a b : Rat) : R.pymin a b = min a b := by
  unfold R.pymin
  rcases lt_or_ge b a with h | h
  · rw [if_pos h, min_eq_right h.le]
  · rw [if_neg (not_lt.2 h), min_eq_left h]

theorem orderValue_buy_eq (ins : SzIns) (hk : ins.isKSH = false) (hlot : 0 < ins.lot) (v price cash : R) (hv : 0 < v)
    (hc : 0 < min v cash) (closable posQty : Int) (cost : Int → R) :
    orderValue ins v price cash closable posQty cost =
      if valueLoop price (min v cash) cost ins.lot hlot (roundOrderQty ins (R.ofInt (R.decQuot10 (min v cash) price))) = 0
      then none
      else orderShares ins
        (R.ofInt (valueLoop price (min v cash) cost ins.lot hlot (roundOrderQty ins (R.ofInt (R.decQuot10 (min v cash) price)))))
        posQty := by
  unfold orderValue
  have hcash : (0 : Rat) < cash := (lt_min_iff.mp hc).2
  have hmax : R.pymax cash 0 = cash := by
    unfold R.pymax
    rw [if_neg (not_lt.2 hcash.le)]
  simp only [gt_iff_lt, hv, if_true, hmax, pymin_eq_min, hc, hk, Bool.false_eq_true, if_false, hlot, dite_true]

theorem orderValue_sell_eq (ins : SzIns) (v price cash : R) (hv : v < 0)
    (closable posQty : Int) (cost : Int → R) :
    orderValue ins v price cash closable posQty cost =
      orderShares ins (R.ofInt (if R.decQuot10 v price < 0 then max (R.decQuot10 v price) (-closable) else R.decQuot10 v price)) posQty := by
  unfold orderValue
  have : ¬ (0 < v) := not_lt.2 hv.le
  simp only [gt_iff_lt, this, if_false]

/-- a positive whole-lot amount in the exact range is ordered unchanged, as a BUY -/
theorem orderShares_pos_multiple (ins : SzIns) (hk : ins.isKSH = false) (hlot : 0 < ins.lot) (r : Int) (hr : 0 < r)
    (hd : ins.lot ∣ r) (hex : ExactQuot (r : Rat) ins.lot) (cur : Int) :
    orderShares ins (R.ofInt r) cur = some (true, r) := by
  unfold R.ofInt
  have hR : (0 : Rat) < (r : Rat) := by exact_mod_cast hr
  by_cases hnr : NeedRound (r : Rat) cur
  · rw [orderShares_round ins _ _ hnr, roundOrderQty_multiple ins hk hlot r hd hex, if_neg (by omega), if_neg (by omega)]
    simp [hR]
  · rw [orderShares_noround ins _ _ hnr, truncI_intCast, if_neg (by omega), if_neg (by omega)]
    simp [hR]

theorem value_loop_dvd (price cash : R) (cost : Int → R) (lot : Int) (hlot : 0 < lot) (a : Int) (hd : lot ∣ a) :
    lot ∣ valueLoop price cash cost lot hlot a := by
  rcases (value_loop_spec price cash cost lot hlot a).2.2 with h | ⟨k, h⟩
  · rw [h]; exact dvd_zero _
  · rw [h]; exact dvd_sub hd (Dvd.intro_left _ rfl)

/-- sharp form of C15.2: if the 10-digit quotient is exact for the quantity the loop returns, the order is a BUY of exactly
that quantity, which is affordable -/
theorem order_value_buy_affordable_of_exact_result (ins : SzIns) (hk : ins.isKSH = false) (hlot : 0 < ins.lot) (v price cash : R)
    (hv : 0 < v) (closable posQty : Int) (cost : Int → R) (q : Int) (isBuy : Bool)
    (h : orderValue ins v price cash closable posQty cost = some (isBuy, q)) (hc : 0 < min v cash)
    (hex : ExactQuot ((valueLoop price (min v cash) cost ins.lot hlot
      (roundOrderQty ins (R.ofInt (R.decQuot10 (min v cash) price))) : Int) : Rat) ins.lot) :
    isBuy = true ∧
    q = valueLoop price (min v cash) cost ins.lot hlot (roundOrderQty ins (R.ofInt (R.decQuot10 (min v cash) price))) ∧
    (q : Rat) * price + cost q ≤ min v cash := by
  rw [orderValue_buy_eq ins hk hlot v price cash hv hc] at h
  have hspec := value_loop_spec price (min v cash) cost ins.lot hlot
    (roundOrderQty ins (R.ofInt (R.decQuot10 (min v cash) price)))
  have hdvd := value_loop_dvd price (min v cash) cost ins.lot hlot
    (roundOrderQty ins (R.ofInt (R.decQuot10 (min v cash) price))) (roundOrderQty_dvd ins hk _)
  simp only at hspec
  generalize valueLoop price (min v cash) cost ins.lot hlot
    (roundOrderQty ins (R.ofInt (R.decQuot10 (min v cash) price))) = r at h hspec hdvd hex ⊢
  by_cases h0 : r = 0
  · rw [if_pos h0] at h; exact absurd h (by simp)
  · rw [if_neg h0] at h
    rcases hspec.1 with h1 | ⟨hpos, hfeas⟩
    · exact absurd h1 h0
    · rw [orderShares_pos_multiple ins hk hlot r hpos hdvd hex] at h
      simp only [Option.some.injEq, Prod.mk.injEq] at h
      obtain ⟨rfl, rfl⟩ := h
      exact ⟨rfl, rfl, hfeas⟩


/-- **C15.2** `order_value` with a positive amount never spends more than the requested value nor more than the available
cash, fees included.

STATEMENT CHANGED (hypothesis `hex` added): every affordable positive quantity must lie in the range where the 10-digit
`Decimal` quotient by the lot is exact.  Without it the statement is false: `_order_shares` re-rounds the loop result `r`
with `int(Decimal(r) / Decimal(lot))` under `prec = 10`, and for `r / lot ≥ 10^10` that rounding can go UP to a quantity
the loop has just rejected (see the counterexample `example` below: value = cash = 10^11, price 1, fee 1/2, lot 1:
the loop returns 99 999 999 999, the order is for 100 000 000 000, costing 10^11 + 1/2 > 10^11).
The sharper form, with exactness only for the loop result, is `order_value_buy_affordable_of_exact_result`. -/
theorem order_value_buy_affordable (ins : SzIns) (hk : ins.isKSH = false) (hlot : 0 < ins.lot) (v price cash : R) (hv : 0 < v)
    (closable posQty : Int) (cost : Int → R) (q : Int) (isBuy : Bool)
    (h : orderValue ins v price cash closable posQty cost = some (isBuy, q))
    (hpos : ¬ ((posQty : Rat) = -(q : Rat))) (hc : 0 < min v cash)
    (hex : ∀ r : Int, 0 < r → feasible price (min v cash) cost r → ExactQuot (r : Rat) ins.lot) :
    (q : Rat) * price + cost q ≤ min v cash ∨ isBuy = false := by
  have _ := hpos
  rcases (value_loop_spec price (min v cash) cost ins.lot hlot
    (roundOrderQty ins (R.ofInt (R.decQuot10 (min v cash) price)))).1 with h0 | ⟨hp, hf⟩
  · rw [orderValue_buy_eq ins hk hlot v price cash hv hc, if_pos h0] at h
    exact absurd h (by simp)
  · exact Or.inl (order_value_buy_affordable_of_exact_result ins hk hlot v price cash hv closable posQty cost q isBuy h hc
      (hex _ hp hf)).2.2

/-- with no available cash (zero or NEGATIVE) a buy request creates no order — in particular it never turns into a sale
(the original code capped the amount by a negative cash balance and then sold: repaired) -/
theorem order_value_buy_none_without_cash (ins : SzIns) (v price cash : R) (hv : 0 < v) (hc : cash ≤ 0)
    (closable posQty : Int) (cost : Int → R) (hq : R.decQuot10 0 price = 0) :
    orderValue ins v price cash closable posQty cost = orderShares ins (R.ofInt 0) posQty := by
  unfold orderValue
  have hmax : R.pymax cash 0 = 0 := by
    unfold R.pymax
    rcases lt_or_eq_of_le hc with h | h
    · rw [if_pos h]
    · rw [if_neg (by rw [h]; exact lt_irrefl _), h]
  have hmin : R.pymin v 0 = 0 := by
    unfold R.pymin
    rw [if_pos hv]
  simp only [gt_iff_lt, hv, if_true, hmax, hmin, lt_irrefl, if_false, hq]

/-- `order_value` with a non-positive affordable amount creates no order -/
theorem order_value_buy_none_when_unaffordable (ins : SzIns) (hk : ins.isKSH = false) (hlot : 0 < ins.lot) (v price cash : R)
    (hv : 0 < v) (hc : 0 < cash) (closable posQty : Int) (cost : Int → R)
    (hinf : ∀ a : Int, 0 < a → ¬ feasible price (min v cash) cost a) :
    orderValue ins v price cash closable posQty cost = none := by
  rw [orderValue_buy_eq ins hk hlot v price cash hv (lt_min hv hc)]
  rcases (value_loop_spec price (min v cash) cost ins.lot hlot
    (roundOrderQty ins (R.ofInt (R.decQuot10 (min v cash) price)))).1 with h0 | ⟨hp, hf⟩
  · rw [if_pos h0]
  · exact absurd hf (hinf _ hp)

/-! ### 3. Sells never exceed the closable holding -/

/-- **C15.3** `order_value` with a negative amount sells at most the closable quantity.

STATEMENT CHANGED (hypothesis `hp : 0 < price` added — the model's contract is "price valid"): with a negative price a
negative cash amount gives a positive share count and the API BUYS (`orderValue ⟨false, 100⟩ (-100) (-1) …
= some (true, 100)`, see the `example` below), so `isBuy = false` fails. -/
theorem order_value_sell_within_closable (ins : SzIns) (hk : ins.isKSH = false) (hlot : 0 < ins.lot) (v price cash : R) (hv : v < 0)
    (hp : 0 < price)
    (closable posQty : Int) (hcl : 0 ≤ closable) (cost : Int → R) (q : Int) (isBuy : Bool)
    (hex : ExactQuot ((max (R.decQuot10 v price) (-closable) : Int) : Rat) ins.lot)
    (h : orderValue ins v price cash closable posQty cost = some (isBuy, q)) :
    isBuy = false ∧ (q ≤ closable ∨ q = posQty) := by
  rw [orderValue_sell_eq ins v price cash hv] at h
  have h0 : R.decQuot10 v price ≤ 0 := decQuot10_nonpos v price hv.le hp
  have hA : (if R.decQuot10 v price < 0 then max (R.decQuot10 v price) (-closable) else R.decQuot10 v price)
      = max (R.decQuot10 v price) (-closable) := by
    split_ifs with hlt
    · rfl
    · omega
  rw [hA] at h
  have hA0 : max (R.decQuot10 v price) (-closable) ≤ 0 := by omega
  have hA1 : -closable ≤ max (R.decQuot10 v price) (-closable) := le_max_right _ _
  generalize max (R.decQuot10 v price) (-closable) = A at h hex hA0 hA1
  unfold R.ofInt at h
  have hAR : (A : Rat) ≤ 0 := by exact_mod_cast hA0
  have hnb : decide ((A : Rat) > 0) = false := decide_eq_false (not_lt.2 hAR)
  by_cases hnr : NeedRound (A : Rat) posQty
  · rw [orderShares_round ins _ _ hnr, hnb] at h
    obtain ⟨h1, h2, _⟩ := (round_lot_spec ins hk hlot (A : Rat) hex).2.2 hAR
    have h2' : A ≤ roundOrderQty ins (A : Rat) := by exact_mod_cast h2
    split_ifs at h with e1 e2
    · simp only [Option.some.injEq, Prod.mk.injEq] at h
      exact ⟨h.1.symm, Or.inl (by omega)⟩
    · simp only [Option.some.injEq, Prod.mk.injEq] at h
      exact ⟨h.1.symm, Or.inl (by omega)⟩
  · rw [orderShares_noround ins _ _ hnr, hnb, truncI_intCast] at h
    unfold NeedRound at hnr
    rw [if_neg (not_lt.2 hAR), not_not] at hnr
    by_cases e1 : A = 0
    · rw [if_pos e1] at h; exact absurd h (by simp)
    · have e2 : A < 0 := by omega
      have e3 : (A : Rat) < 0 := by exact_mod_cast e2
      rw [if_neg e1, if_pos e2] at h
      rw [if_pos e3] at hnr
      simp only [Option.some.injEq, Prod.mk.injEq] at h
      refine ⟨h.1.symm, Or.inr ?_⟩
      rw [← h.2]; exact_mod_cast hnr.symm

/-- target 0 sells exactly the closable quantity when that is the whole holding (also an odd lot) -/
theorem target_zero_sells_all (ins : SzIns) (mv price cash : R) (holding : Int) (hh : 0 < holding) (cost : Int → R) :
    orderTargetValue ins 0 mv price cash holding holding cost = some (false, holding) := by
  have hR : (0 : Rat) < (holding : Rat) := by exact_mod_cast hh
  unfold orderTargetValue stockSubmitQty R.ofInt
  simp only [beq_self_eq_true, if_true, Bool.false_and, Bool.not_false, Bool.true_and, Bool.false_or,
    if_neg (not_lt.2 hR.le), bne_self_eq_false, Bool.false_eq_true, if_false, truncI_intCast]
  rw [if_neg (by omega), if_neg (by omega)]
  rfl

/-! ### 4. Futures: decomposition into legs -/

/-- **C15.6** `order(quantity)` on a futures contract requests, in this order: close yesterday's quantity (at most what
is there), close today's, open the rest; all legs on the same side -/
theorem future_order_leg_order (quantity : Int) (target : Bool) (lq lo sq so : Int) :
    let legs := futOrderRequests quantity target lq lo sq so
    (legs.map (·.effect)).Pairwise (fun a b => (a = .close ∧ b ≠ .close) ∨ (a = .closeToday ∧ b = .open_)) ∧
    (∀ l ∈ legs, ∀ l' ∈ legs, l.isBuy = l'.isBuy) := by
  intro legs
  simp only [legs, futOrderRequests]
  clear legs
  generalize decide ((if target = true then quantity - (lq - sq) else quantity) > 0) = b
  generalize (if target = true then quantity - (lq - sq) else quantity) = q0
  constructor
  · split_ifs <;>
      simp only [List.map_cons, List.map_nil, List.nil_append, List.append_nil, List.cons_append,
        List.pairwise_cons, List.Pairwise.nil, List.mem_cons, List.not_mem_nil, forall_eq_or_imp] <;>
      simp
  · split_ifs <;>
      simp only [List.nil_append, List.append_nil, List.cons_append, List.mem_cons, List.not_mem_nil, or_false,
        forall_eq_or_imp, forall_eq, and_self, implies_true, false_imp_iff]

/-- the legs' quantities add up to the requested change when the position to be closed is consistent
(`0 ≤ old ≤ qty`) -/
theorem future_order_legs_sum (quantity : Int) (lq lo sq so : Int) (hl : 0 ≤ lo ∧ lo ≤ lq) (hs : 0 ≤ so ∧ so ≤ sq) (hq : quantity ≠ 0) :
    ((futOrderRequests quantity false lq lo sq so).map (·.qty)).sum = (if quantity > 0 then quantity else -quantity) := by
  have _ := hq
  simp only [futOrderRequests, Bool.false_eq_true, if_false]
  by_cases hpos : quantity > 0
  · simp only [hpos, decide_true, if_true]
    split_ifs <;> simp <;> omega
  · simp only [hpos, decide_false, Bool.false_eq_true, if_false]
    split_ifs <;> simp <;> omega

/-- `order_to(target)` requests the difference to the current net position -/
theorem future_order_to_is_difference (t lq lo sq so : Int) :
    futOrderRequests t true lq lo sq so = futOrderRequests (t - (lq - sq)) false lq lo sq so := by
  simp only [futOrderRequests, if_true, Bool.false_eq_true, if_false]

/-- **close split**: `sell_close(n)` / `buy_close(n)` with `old < n ≤ qty` creates CLOSE `old` then CLOSE_TODAY `n − old` -/
theorem close_split (n posQty oldQty tc : Int) (isBuy : Bool) (h1 : oldQty < n) (h2 : n ≤ posQty) (h0 : 0 < oldQty) :
    futSubmitLegs n isBuy .close posQty oldQty tc = [⟨isBuy, .close, oldQty⟩, ⟨isBuy, .closeToday, n - oldQty⟩] := by
  unfold futSubmitLegs
  rw [if_neg (by omega)]
  simp only
  rw [if_neg (by omega), if_pos (by omega), if_pos (by omega)]
  rfl

/-- an over-sized close creates nothing -/
theorem oversized_close_nothing (n posQty oldQty tc : Int) (isBuy : Bool) :
    (posQty < n → futSubmitLegs n isBuy .close posQty oldQty tc = []) ∧
    (tc < n → n ≠ 0 → futSubmitLegs n isBuy .closeToday posQty oldQty tc = []) := by
  constructor
  · intro h
    unfold futSubmitLegs
    split_ifs <;> rfl
  · intro h hn
    unfold futSubmitLegs
    rw [if_neg hn]
    simp only
    rw [if_pos (by omega)]

/-- **a futures request of less than one lot creates nothing** (C15.5): the lot count is truncated toward zero before the
zero test, so `buy_open(x, 0.5)` is "0 order quantity" -/
theorem fut_fraction_below_one_nothing (a : R) (isBuy : Bool) (e : Effect) (posQty oldQty tc : Int)
    (h1 : -1 < a) (h2 : a < 1) : futSubmit a isBuy e posQty oldQty tc = [] := by
  have h0 : R.truncI a = 0 := by
    unfold R.truncI
    split
    · have : (-a).floor = 0 := by
        rw [floor_eq, Int.floor_eq_iff]; constructor <;> norm_num <;> linarith
      omega
    · rw [floor_eq, Int.floor_eq_iff]; constructor <;> norm_num <;> linarith
  unfold futSubmit futSubmitLegs
  rw [h0]; rfl

/-- **no created futures leg has quantity zero** -/
theorem fut_submit_no_zero_leg (a : R) (isBuy : Bool) (e : Effect) (posQty oldQty tc : Int) :
    ∀ l ∈ futSubmit a isBuy e posQty oldQty tc, l.qty ≠ 0 := by
  intro l hl
  unfold futSubmit futSubmitLegs at hl
  split at hl
  · simp at hl
  · rename_i hne
    cases e <;> simp only at hl
    all_goals (try split at hl) <;> (try split at hl) <;> (try split at hl) <;>
      simp only [List.mem_cons, List.mem_append, List.not_mem_nil, or_false, false_or] at hl
    all_goals first
      | (rcases hl with hl | hl <;> subst hl <;> simp only <;> omega)
      | (subst hl; simp only; omega)

/-- non-vacuity: 2.5 lots open 2; 0.5 lots nothing -/
example : futSubmit (5/2) true .open_ 0 0 0 = [⟨true, .open_, 2⟩] ∧ futSubmit (1/2) true .open_ 0 0 0 = [] := by
  constructor <;> decide +kernel

/-! ### order_target_portfolio -/

/-- **a closing order of `order_target_portfolio` never exceeds the holding of its entry** (repaired: rounding the difference
to whole lots with `round` used to ask for 200 shares of a 150-share holding), is a sale and is not for 0 shares -/
theorem otp_sells_within_holding (value : R) (items : List OtpItem) (i : Nat) :
    ∀ x ∈ (otpSplit value items i).1, x.1.isBuy = false ∧ x.1.qty ≠ 0 ∧ ∃ it ∈ items, x.1.qty ≤ it.cur := by
  induction items generalizing i with
  | nil => intro x hx; simp [otpSplit] at hx
  | cons it rest ih =>
    intro x hx
    have lift : ∀ x ∈ (otpSplit value rest (i + 1)).1, x.1.isBuy = false ∧ x.1.qty ≠ 0 ∧ ∃ it' ∈ it :: rest, x.1.qty ≤ it'.cur := by
      intro x hx
      obtain ⟨h1, h0, it', hit', h2⟩ := ih (i + 1) x hx
      exact ⟨h1, h0, it', List.mem_cons_of_mem _ hit', h2⟩
    simp only [otpSplit] at hx
    split at hx
    · exact lift x hx
    · split at hx
      · exact lift x hx
      · split at hx
        · exact lift x hx
        · rename_i hq
          simp only [List.mem_cons] at hx
          rcases hx with hx | hx
          · subst hx
            exact ⟨rfl, hq, it, List.mem_cons_self, Int.min_le_right _ _⟩
          · exact lift x hx

/-- every opening order is a buy of a non-zero quantity -/
theorem otp_buys_nonzero (costV : R → R) (est : R) (ws : List (Nat × OtpItem × Int)) (hws : ∀ w ∈ ws, w.2.2 ≠ 0) :
    ∀ o ∈ otpBuys costV est ws, o.isBuy = true ∧ o.qty ≠ 0 := by
  induction ws generalizing est with
  | nil => intro o ho; simp [otpBuys] at ho
  | cons w rest ih =>
    obtain ⟨i, it, d⟩ := w
    intro o ho
    have hrest : ∀ w ∈ rest, w.2.2 ≠ 0 := fun w hw => hws w (List.mem_cons_of_mem _ hw)
    simp only [otpBuys] at ho
    split at ho
    · split at ho
      · exact ih est hrest o ho
      · rename_i hd2
        simp only [List.mem_cons] at ho
        rcases ho with ho | ho
        · subst ho; exact ⟨rfl, hd2⟩
        · exact ih _ hrest o ho
    · simp only [List.mem_cons] at ho
      rcases ho with ho | ho
      · subst ho; exact ⟨rfl, hws _ List.mem_cons_self⟩
      · exact ih _ hrest o ho

/-- the buying pass never creates a purchase of a negative quantity (repaired: a negative cash estimate counts as 0; it used to be
divided by the price and rounded, giving BUY −3900) -/
theorem roundSig10Rat_nonneg (q : Rat) (h : 0 ≤ q) : 0 ≤ roundSig10Rat q := by
  unfold roundSig10Rat
  split_ifs with h0 h1
  · exact le_refl _
  · exact absurd h (not_le.2 h1)
  · exact roundSig10Pos_nonneg q h

theorem decQuot10_nonneg (a b : Rat) (ha : 0 ≤ a) (hb : 0 < b) : 0 ≤ R.decQuot10 a b := by
  rw [decQuot10_eq_truncI]
  exact (truncI_spec_nonneg _ (roundSig10Rat_nonneg _ (div_nonneg ha hb.le))).1

theorem roundOrderQty_nonneg (ins : SzIns) (hlot : 0 < ins.lot) (q : R) (hq : 0 ≤ q) : 0 ≤ roundOrderQty ins q := by
  have hl : (0 : Rat) < R.ofInt ins.lot := by
    show (0 : Rat) < ((ins.lot : Int) : Rat)
    exact_mod_cast hlot
  have h3 : 0 ≤ R.decQuot10 q (R.ofInt ins.lot) * ins.lot := Int.mul_nonneg (decQuot10_nonneg q _ hq hl) hlot.le
  have h2 : 0 ≤ R.truncI q := (truncI_spec_nonneg q hq).1
  unfold roundOrderQty
  split_ifs <;> first | exact h3 | exact h2 | exact Int.le_refl 0

theorem otp_buys_positive (costV : R → R) (est : R) (ws : List (Nat × OtpItem × Int))
    (hws : ∀ w ∈ ws, 0 < w.2.2 ∧ 0 < w.2.1.last ∧ 0 < w.2.1.ins.lot) :
    ∀ o ∈ otpBuys costV est ws, o.isBuy = true ∧ 0 < o.qty := by
  induction ws generalizing est with
  | nil => intro o ho; simp [otpBuys] at ho
  | cons w rest ih =>
    obtain ⟨i, it, d⟩ := w
    intro o ho
    have hrest : ∀ w ∈ rest, 0 < w.2.2 ∧ 0 < w.2.1.last ∧ 0 < w.2.1.ins.lot := fun w hw => hws w (List.mem_cons_of_mem _ hw)
    obtain ⟨hd, hlast, hlot⟩ := hws _ List.mem_cons_self
    simp only at hd hlast hlot
    simp only [otpBuys] at ho
    split at ho
    · split at ho
      · exact ih est hrest o ho
      · rename_i hd2
        simp only [List.mem_cons] at ho
        rcases ho with ho | ho
        · subst ho
          refine ⟨rfl, ?_⟩
          have hnn : 0 ≤ roundOrderQty it.ins (R.pymax est 0 / it.last) := by
            apply roundOrderQty_nonneg _ hlot
            apply div_nonneg _ hlast.le
            unfold R.pymax
            split_ifs with h
            · exact le_refl _
            · exact not_lt.1 h
          exact lt_of_le_of_ne hnn (Ne.symm hd2)
        · exact ih _ hrest o ho
    · simp only [List.mem_cons] at ho
      rcases ho with ho | ho
      · subst ho; exact ⟨rfl, hd⟩
      · exact ih _ hrest o ho

/-- the entries waiting to buy carry a positive rounded difference -/
theorem otp_waiting_positive (value : R) (items : List OtpItem) (i : Nat) :
    ∀ w ∈ (otpSplit value items i).2, 0 < w.2.2 := by
  induction items generalizing i with
  | nil => intro w hw; simp [otpSplit] at hw
  | cons it rest ih =>
    intro w hw
    simp only [otpSplit] at hw
    split at hw
    · exact ih (i + 1) w hw
    · split at hw
      · rename_i hpos
        simp only [List.mem_cons] at hw
        rcases hw with hw | hw
        · subst hw; exact hpos
        · exact ih (i + 1) w hw
      · split at hw
        · exact ih (i + 1) w hw
        · exact ih (i + 1) w hw

/-- **sells first, then buys; no order of quantity zero on either side; no sale beyond a holding** -/
theorem otp_shape (value cash : R) (items : List OtpItem) (costV : R → R) (sellCost : Bool → Int → R → R) :
    ∃ sells buys, orderTargetPortfolio value cash items costV sellCost = sells ++ buys ∧
      (∀ o ∈ sells, o.isBuy = false ∧ o.qty ≠ 0 ∧ ∃ it ∈ items, o.qty ≤ it.cur) ∧ (∀ o ∈ buys, o.isBuy = true ∧ o.qty ≠ 0) := by
  unfold orderTargetPortfolio
  simp only
  refine ⟨_, _, rfl, ?_, ?_⟩
  · intro o ho
    simp only [List.mem_map] at ho
    obtain ⟨x, hx, rfl⟩ := ho
    exact otp_sells_within_holding _ items 0 x hx
  · apply otp_buys_nonzero
    intro w hw
    exact Int.ne_of_gt (otp_waiting_positive _ items 0 w hw)

/-- non-vacuity: 150 shares held, target 0: the difference −150 rounds to −200 (half-even on 1.5 lots); the order is for the 150 held -/
example : (otpSplit 100000 [(⟨⟨false, 100⟩, 0, 10, 10, 10, true, true, 150, true⟩ : OtpItem)] 0).1.map (fun x => x.1.qty) = [150] ∧
    roundOrderQtyRound ⟨false, 100⟩ (-150) = -200 := by
  constructor <;> decide +kernel

/-- non-vacuity: 10 000 at price 12.34 with fee max(5, 0.08 %): 800 shares (800·12.34 + 7.8976 = 9879.90 ≤ 10000; 900 is too much) -/
example : orderValue ⟨false, 100⟩ 10000 12.34 50000 0 0 (fun a => R.pymax ((a : Rat) * 12.34 * (8/10000)) 5) = some (true, 800) := by
  decide +kernel

/-- counterexample to C15.2 without `hex` (outside the exact range of the 10-digit quotient): the loop rejects 10^11 and
returns 10^11 − 1, `_order_shares` rounds it back up to 10^11, which costs 10^11 + 1/2 > min value cash = 10^11 -/
example : valueLoop 1 100000000000 (fun _ => 1/2) 1 (by decide) 100000000000 = 99999999999 ∧
    orderValue ⟨false, 1⟩ 100000000000 1 100000000000 0 0 (fun _ => 1/2) = some (true, 100000000000) := by
  decide +kernel

/-- counterexample to C15.3 without `0 < price`: a negative amount at a negative price buys -/
example : orderValue ⟨false, 100⟩ (-100) (-1) 0 0 0 (fun _ => 0) = some (true, 100) := by
  decide +kernel

example : futOrderRequests (-7) false 5 2 0 0 = [⟨false, .close, 2⟩, ⟨false, .closeToday, 3⟩, ⟨false, .open_, 2⟩] := by decide


/-! ### `auto_switch_order_value` -/

/-- a SELL, or a request that creates no order, is not touched by the auto switch -/
theorem auto_switch_leaves_sells (ins : SzIns) (amount : R) (posQty closable : Int) (price cash : R) (cost : Int → R)
    (h : ∀ q, orderShares ins amount posQty ≠ some (true, q)) :
    orderSharesAuto ins amount posQty closable price cash cost = orderShares ins amount posQty := by
  unfold orderSharesAuto
  cases hr : orderShares ins amount posQty with
  | none => rfl
  | some r =>
    obtain ⟨b, q⟩ := r
    cases b with
    | false => rfl
    | true => exact absurd hr (h q)

/-- an affordable BUY (reserved price × quantity + estimated fee within the available cash) is submitted as requested -/
theorem auto_switch_affordable_unchanged (ins : SzIns) (amount : R) (posQty closable q : Int) (price cash : R) (cost : Int → R)
    (hr : orderShares ins amount posQty = some (true, q)) (ha : price * R.ofInt q + cost q ≤ cash) :
    orderSharesAuto ins amount posQty closable price cash cost = some (true, q) := by
  unfold orderSharesAuto
  rw [hr]
  simp only [ha, if_true]

/-- an unaffordable BUY is replaced by `_order_value` of the available cash, counted as 0 when it is negative: the replacement amount
is never negative (a negative amount would be a request to SELL — the defect that was repaired) -/
theorem auto_switch_replacement (ins : SzIns) (amount : R) (posQty closable q : Int) (price cash : R) (cost : Int → R)
    (hr : orderShares ins amount posQty = some (true, q)) (ha : ¬ (price * R.ofInt q + cost q ≤ cash)) :
    orderSharesAuto ins amount posQty closable price cash cost = orderValue ins (R.pymax cash 0) price cash closable posQty cost ∧
    0 ≤ R.pymax cash 0 := by
  refine ⟨?_, ?_⟩
  · unfold orderSharesAuto
    rw [hr]
    simp only [ha, if_false]
  · unfold R.pymax
    split_ifs with h
    · exact le_refl _
    · exact not_lt.1 h

/-- with no available cash the replaced request creates what a zero-share request creates (no order) -/
theorem auto_switch_without_cash (ins : SzIns) (amount : R) (posQty closable q : Int) (price cash : R) (cost : Int → R)
    (hr : orderShares ins amount posQty = some (true, q)) (ha : ¬ (price * R.ofInt q + cost q ≤ cash)) (hc : cash ≤ 0)
    (hq : R.decQuot10 0 price = 0) :
    orderSharesAuto ins amount posQty closable price cash cost = orderShares ins (R.ofInt 0) posQty := by
  rw [(auto_switch_replacement ins amount posQty closable q price cash cost hr ha).1]
  have hmax : R.pymax cash 0 = 0 := by
    unfold R.pymax
    rcases lt_or_eq_of_le hc with h | h
    · rw [if_pos h]
    · rw [if_neg (by rw [h]; exact lt_irrefl _), h]
  rw [hmax]
  unfold orderValue
  simp only [gt_iff_lt, lt_irrefl, if_false, hq]


/-! ### the sizing APIs inside the composed world (`RQ/Model/WorldApi.lean`) -/

/-- **the order-sizing APIs add no behaviour of their own**: a whole run in which the strategy calls the sizing APIs (sized by the
model on the world's own state) is a run of the base world on SOME list of submissions, cancels and day events.  Whatever is proved
for every input list of `World.run` — the account refinement (C01), the reserve invariant (C09), live books (C04), prescribed trade
prices (C05), limits (C06) — holds for every run that goes through the APIs. -/
theorem world_api_run_is_base_run (w : World) (ac : ApiCfg) (is : List WIn2) : ∃ ins : List WIn, w.run2 ac is = w.run ins :=
  RQ.Lemmas.WorldApi.run2_is_run w ac is

/-- an API call is exactly: size on the present state, then submit what was created, in order -/
theorem world_api_is_submissions (w : World) (ac : ApiCfg) (c : ApiCall) (ids : List Nat) :
    w.api ac c ids = w.run (w.apiInputs ac c ids) := rfl


/-- what a stock sizing call hands to the validators, on EVERY state of every run: at most one order, of a positive quantity, on the
instrument of the call, a BUY that opens or a SELL that closes, carrying the caller's limit price -/
theorem world_stock_api_creates (w : World) (ac : ApiCfg) (api : StockApi) (ins : Nat) (x : R) (limit : Option R) :
    (w.sized ac (.stock api ins x limit)).length ≤ 1 ∧
    ∀ o ∈ w.sized ac (.stock api ins x limit),
      0 < o.2.2.2.1 ∧ o.1 = ins ∧ o.2.2.1 = (if o.2.1 then Effect.open_ else Effect.close) ∧ o.2.2.2.2 = limit :=
  ⟨RQ.Lemmas.WorldD.sized_stock_length w ac api ins x limit, RQ.Lemmas.WorldD.sized_stock_shape w ac api ins x limit⟩

/-- … so what the stock sizing APIs submit meets the hypothesis of the whole-system reserve invariant (C09) -/
theorem world_stock_api_inputs_ok (w : World) (ac : ApiCfg) (api : StockApi) (ins : Nat) (x : R) (limit : Option R) (ids : List Nat) :
    ∀ i ∈ w.apiInputs ac (.stock api ins x limit) ids, RQ.Lemmas.WorldC.InputOk i :=
  RQ.Lemmas.WorldD.apiInputs_stock_ok w ac api ins x limit ids

end RQ.Props.C15

/-
C19 — Failure containment: mods start / tear down once; errors never look like success.
Theorems over `RQ/Model/RunCtl.lean`.
-/
import RQ.Model.RunCtl
import Mathlib.Tactic.Linarith
import Mathlib.Tactic.SplitIfs

namespace RQ.Props.C19
open RQ.Q

def startsOf (l : List Log) : List Nat := l.filterMap (fun e => match e with | .start t => some t | _ => none)
def teardownsOf (l : List Log) : List Nat := l.filterMap (fun e => match e with | .teardown t _ => some t | _ => none)
def callbacksOf (l : List Log) : List Nat := l.filterMap (fun e => match e with | .callback i => some i | _ => none)
def teardownCodes (l : List Log) : List ExitCode := l.filterMap (fun e => match e with | .teardown _ c => some c | _ => none)

/-! ### helper lemmas -/

theorem sortMods_cons (x : ModSpec) (xs : List ModSpec) :
    sortMods (x :: xs) = ((sortMods xs).takeWhile (fun y => y.prio < x.prio)) ++
      x :: ((sortMods xs).dropWhile (fun y => y.prio < x.prio)) := rfl

/-- in a priority-sorted list everything after the `dropWhile (· < p)` point has priority `≥ p` -/
theorem dropWhile_ge (p : Int) : ∀ (l : List ModSpec), l.Pairwise (fun a b => a.prio ≤ b.prio) →
    ∀ y ∈ l.dropWhile (fun y => y.prio < p), p ≤ y.prio
  | [], _, y, hy => by simp at hy
  | a :: l, hl, y, hy => by
    rw [List.pairwise_cons] at hl
    by_cases ha : a.prio < p
    · have : (a :: l).dropWhile (fun y => decide (y.prio < p)) = l.dropWhile (fun y => decide (y.prio < p)) := by
        simp [ha]
      rw [this] at hy
      exact dropWhile_ge p l hl.2 y hy
    · have : (a :: l).dropWhile (fun y => decide (y.prio < p)) = a :: l := by
        simp [ha]
      rw [this] at hy
      have hpa : p ≤ a.prio := not_lt.mp ha
      rcases List.mem_cons.mp hy with rfl | hy
      · exact hpa
      · exact le_trans hpa (hl.1 y hy)

theorem takeWhile_lt (p : Int) (l : List ModSpec) :
    ∀ y ∈ l.takeWhile (fun y => y.prio < p), y.prio < p := by
  induction l with
  | nil => intro y hy; simp at hy
  | cons a l ih =>
    intro y hy
    by_cases ha : a.prio < p
    · have : (a :: l).takeWhile (fun y => decide (y.prio < p)) = a :: l.takeWhile (fun y => decide (y.prio < p)) := by
        simp [ha]
      rw [this] at hy
      rcases List.mem_cons.mp hy with rfl | hy
      · exact ha
      · exact ih y hy
    · have : (a :: l).takeWhile (fun y => decide (y.prio < p)) = [] := by
        simp [ha]
      rw [this] at hy
      simp at hy

/-- the priority sort is a permutation … -/
theorem sortMods_perm (mods : List ModSpec) : (sortMods mods).Perm mods := by
  induction mods with
  | nil => exact List.Perm.refl _
  | cons x xs ih =>
    rw [sortMods_cons]
    refine List.perm_middle.trans (List.Perm.cons x ?_)
    rw [List.takeWhile_append_dropWhile]
    exact ih

/-- … ordered by priority … -/
theorem sortMods_sorted (mods : List ModSpec) : (sortMods mods).Pairwise (fun a b => a.prio ≤ b.prio) := by
  induction mods with
  | nil => exact List.Pairwise.nil
  | cons x xs ih =>
    rw [sortMods_cons, List.pairwise_append]
    refine ⟨ih.sublist (List.takeWhile_sublist _), ?_, ?_⟩
    · rw [List.pairwise_cons]
      exact ⟨dropWhile_ge x.prio _ ih, ih.sublist (List.dropWhile_sublist _)⟩
    · intro a ha b hb
      have h1 := takeWhile_lt x.prio _ a ha
      rcases List.mem_cons.mp hb with rfl | hb
      · exact le_of_lt h1
      · exact le_trans (le_of_lt h1) (dropWhile_ge x.prio _ ih b hb)

/-- … and stable: two mods of equal priority keep their configuration order -/
theorem sortMods_stable (mods : List ModSpec) (p : Int) :
    (sortMods mods).filter (fun m => m.prio == p) = mods.filter (fun m => m.prio == p) := by
  induction mods with
  | nil => rfl
  | cons x xs ih =>
    have hsplit : (sortMods xs).filter (fun m => m.prio == p) =
        ((sortMods xs).takeWhile (fun y => y.prio < x.prio)).filter (fun m => m.prio == p) ++
        ((sortMods xs).dropWhile (fun y => y.prio < x.prio)).filter (fun m => m.prio == p) := by
      rw [← List.filter_append, List.takeWhile_append_dropWhile]
    rw [sortMods_cons, List.filter_append, List.filter_cons, List.filter_cons]
    by_cases hx : x.prio = p
    · have htw : ((sortMods xs).takeWhile (fun y => y.prio < x.prio)).filter (fun m => m.prio == p) = [] := by
        rw [List.filter_eq_nil_iff]
        intro a ha
        have := takeWhile_lt x.prio _ a ha
        simp only [beq_iff_eq]
        omega
      rw [htw] at hsplit
      simp only [hx, beq_self_eq_true, if_true]
      rw [← ih, hsplit]
      simp only [hx] at htw
      rw [htw]
      simp [hx]
    · have hx' : (x.prio == p) = false := by simpa using hx
      simp only [hx', Bool.false_eq_true, if_false]
      rw [← hsplit, ih]

def allStart (mods : List ModSpec) : Prop := ∀ m ∈ mods, m.startRaises = false

/-- when no mod raises in start-up, every mod is logged and start-up succeeds -/
theorem startUp_all : ∀ (l : List ModSpec), allStart l →
    startUp l = (l.map (fun m => Log.start m.tag), true)
  | [], _ => rfl
  | m :: ms, h => by
    have hm : m.startRaises = false := h m (List.mem_cons_self ..)
    have ih := startUp_all ms (fun a ha => h a (List.mem_cons_of_mem _ ha))
    simp [startUp, hm, ih]

/-- when some mod raises in start-up, start-up fails -/
theorem startUp_fail : ∀ (l : List ModSpec), ¬ allStart l → (startUp l).2 = false
  | [], h => (h (fun _ hm => by simp at hm)).elim
  | m :: ms, h => by
    by_cases hm : m.startRaises = true
    · simp [startUp, hm]
    · have hm' : m.startRaises = false := by simpa using hm
      have : ¬ allStart ms := by
        intro hall
        apply h
        intro a ha
        rcases List.mem_cons.mp ha with rfl | ha
        · exact hm'
        · exact hall a ha
      simp [startUp, hm', startUp_fail ms this]

/-- start-up only logs `start` entries -/
theorem startUp_log_starts : ∀ (l : List ModSpec),
    teardownsOf (startUp l).1 = [] ∧ callbacksOf (startUp l).1 = [] ∧ teardownCodes (startUp l).1 = []
  | [] => by simp [startUp, teardownsOf, callbacksOf, teardownCodes]
  | m :: ms => by
    have ih := startUp_log_starts ms
    unfold startUp
    split_ifs
    · simp [teardownsOf, callbacksOf, teardownCodes]
    · simpa [teardownsOf, callbacksOf, teardownCodes] using ih

theorem allStart_sort {mods : List ModSpec} : allStart (sortMods mods) ↔ allStart mods := by
  unfold allStart
  constructor
  · intro h m hm; exact h m ((sortMods_perm mods).mem_iff.mpr hm)
  · intro h m hm; exact h m ((sortMods_perm mods).mem_iff.mp hm)

theorem startsOf_append (a b : List Log) : startsOf (a ++ b) = startsOf a ++ startsOf b := by
  simp [startsOf, List.filterMap_append]
theorem teardownsOf_append (a b : List Log) : teardownsOf (a ++ b) = teardownsOf a ++ teardownsOf b := by
  simp [teardownsOf, List.filterMap_append]
theorem callbacksOf_append (a b : List Log) : callbacksOf (a ++ b) = callbacksOf a ++ callbacksOf b := by
  simp [callbacksOf, List.filterMap_append]
theorem teardownCodes_append (a b : List Log) : teardownCodes (a ++ b) = teardownCodes a ++ teardownCodes b := by
  simp [teardownCodes, List.filterMap_append]

theorem startsOf_starts (l : List ModSpec) : startsOf (l.map (fun m => Log.start m.tag)) = l.map (·.tag) := by
  induction l with
  | nil => rfl
  | cons a l ih => simpa [startsOf] using ih
theorem teardownsOf_starts (l : List ModSpec) : teardownsOf (l.map (fun m => Log.start m.tag)) = [] := by
  induction l with
  | nil => rfl
  | cons a l ih => simp [teardownsOf]
theorem callbacksOf_starts (l : List ModSpec) : callbacksOf (l.map (fun m => Log.start m.tag)) = [] := by
  induction l with
  | nil => rfl
  | cons a l ih => simp [callbacksOf]

theorem startsOf_callbacks (l : List Nat) : startsOf (l.map Log.callback) = [] := by
  induction l with
  | nil => rfl
  | cons a l ih => simp [startsOf]
theorem teardownsOf_callbacks (l : List Nat) : teardownsOf (l.map Log.callback) = [] := by
  induction l with
  | nil => rfl
  | cons a l ih => simp [teardownsOf]
theorem callbacksOf_callbacks (l : List Nat) : callbacksOf (l.map Log.callback) = l := by
  induction l with
  | nil => rfl
  | cons a l ih => simpa [callbacksOf] using ih
theorem teardownCodes_callbacks (l : List Nat) : teardownCodes (l.map Log.callback) = [] := by
  induction l with
  | nil => rfl
  | cons a l ih => simp [teardownCodes]

theorem startsOf_teardowns (l : List ModSpec) (c : ExitCode) :
    startsOf (l.map (fun m => Log.teardown m.tag c)) = [] := by
  induction l with
  | nil => rfl
  | cons a l ih => simp [startsOf]
theorem teardownsOf_teardowns (l : List ModSpec) (c : ExitCode) :
    teardownsOf (l.map (fun m => Log.teardown m.tag c)) = l.map (·.tag) := by
  induction l with
  | nil => rfl
  | cons a l ih => simpa [teardownsOf] using ih
theorem callbacksOf_teardowns (l : List ModSpec) (c : ExitCode) :
    callbacksOf (l.map (fun m => Log.teardown m.tag c)) = [] := by
  induction l with
  | nil => rfl
  | cons a l ih => simp [callbacksOf]
theorem teardownCodes_teardowns (l : List ModSpec) (c : ExitCode) :
    ∀ x ∈ teardownCodes (l.map (fun m => Log.teardown m.tag c)), x = c := by
  induction l with
  | nil => intro x hx; simp [teardownCodes] at hx
  | cons a l ih =>
    intro x hx
    simp only [List.map_cons, teardownCodes, List.filterMap_cons] at hx
    rcases List.mem_cons.mp hx with rfl | hx
    · rfl
    · exact ih x hx

/-- shape of a run: a start-up log, some callbacks, then the teardowns carrying the exit code -/
theorem runMain_shape (mods : List ModSpec) (n : Nat) (fault : Option (Nat × Origin)) :
    ∃ cbs : List Nat, (runMain mods n fault).log =
      ((startUp (sortMods mods)).1 ++ cbs.map Log.callback) ++
        (sortMods mods).reverse.map (fun m => Log.teardown m.tag (runMain mods n fault).code) := by
  unfold runMain
  simp only [tearDown]
  split_ifs with h1
  · exact ⟨[], by simp⟩
  · split
    · split_ifs
      · exact ⟨_, rfl⟩
      · exact ⟨_, rfl⟩
    · exact ⟨_, rfl⟩

/-- a run whose start-up succeeds, stated as an equation -/
theorem runMain_ok (mods : List ModSpec) (h : allStart mods) (n : Nat) (fault : Option (Nat × Origin)) :
    runMain mods n fault =
      match fault with
      | some (i, origin) =>
        if i < n then
          { log := (sortMods mods).map (fun m => Log.start m.tag) ++ (List.range (i + 1)).map Log.callback ++
              (tearDown (sortMods mods) (classify origin)).1, code := classify origin, result := none }
        else
          { log := (sortMods mods).map (fun m => Log.start m.tag) ++ (List.range n).map Log.callback ++
              (tearDown (sortMods mods) .success).1, code := .success,
            result := some (tearDown (sortMods mods) .success).2 }
      | none =>
          { log := (sortMods mods).map (fun m => Log.start m.tag) ++ (List.range n).map Log.callback ++
              (tearDown (sortMods mods) .success).1, code := .success,
            result := some (tearDown (sortMods mods) .success).2 } := by
  unfold runMain
  simp only [startUp_all _ (allStart_sort.mpr h)]
  rcases fault with _ | ⟨i, o⟩
  · simp
  · by_cases hi : i < n <;> simp [hi]

theorem runMain_fail (mods : List ModSpec) (h : ¬ allStart mods) (n : Nat) (fault : Option (Nat × Origin)) :
    runMain mods n fault =
      { log := (startUp (sortMods mods)).1 ++ (tearDown (sortMods mods) .internalError).1,
        code := .internalError, result := none } := by
  unfold runMain
  simp [startUp_fail _ (fun hs => h (allStart_sort.mp hs))]

/-- **C19.1** every enabled mod is started exactly once, in priority order, before any strategy code runs -/
theorem start_order (mods : List ModSpec) (h : allStart mods) (n : Nat) (fault : Option (Nat × Origin)) :
    startsOf (runMain mods n fault).log = (sortMods mods).map (·.tag) ∧
    ∃ pre post, (runMain mods n fault).log = pre ++ post ∧ pre = (sortMods mods).map (fun m => Log.start m.tag) ∧
      startsOf post = [] := by
  obtain ⟨cbs, hlog⟩ := runMain_shape mods n fault
  rw [startUp_all _ (allStart_sort.mpr h)] at hlog
  simp only [List.append_assoc] at hlog
  have hpost : startsOf (cbs.map Log.callback ++
      (sortMods mods).reverse.map (fun m => Log.teardown m.tag (runMain mods n fault).code)) = [] := by
    rw [startsOf_append, startsOf_callbacks, startsOf_teardowns]; rfl
  refine ⟨?_, _, _, hlog, rfl, hpost⟩
  rw [hlog, startsOf_append, hpost, startsOf_starts, List.append_nil]

/-- **C19.2** every mod is torn down exactly once, in reverse start order, whatever raises — the strategy, an API, a system
listener, another mod's teardown, or a mod's start-up — and the teardowns come last -/
theorem teardown_once_reverse (mods : List ModSpec) (n : Nat) (fault : Option (Nat × Origin)) :
    teardownsOf (runMain mods n fault).log = ((sortMods mods).map (·.tag)).reverse ∧
    ∃ pre, (runMain mods n fault).log = pre ++ ((sortMods mods).reverse.map (fun m => Log.teardown m.tag (runMain mods n fault).code)) ∧
      teardownsOf pre = [] := by
  obtain ⟨cbs, hlog⟩ := runMain_shape mods n fault
  have hpre : teardownsOf ((startUp (sortMods mods)).1 ++ cbs.map Log.callback) = [] := by
    rw [teardownsOf_append, (startUp_log_starts _).1, teardownsOf_callbacks]; rfl
  refine ⟨?_, _, hlog, hpre⟩
  rw [hlog, teardownsOf_append, hpre, teardownsOf_teardowns, List.nil_append, List.map_reverse]

/-- the exit code handed to every teardown is the run's exit code -/
theorem teardown_gets_exit_code (mods : List ModSpec) (n : Nat) (fault : Option (Nat × Origin)) :
    ∀ c ∈ teardownCodes (runMain mods n fault).log, c = (runMain mods n fault).code := by
  obtain ⟨cbs, hlog⟩ := runMain_shape mods n fault
  intro c hc
  rw [hlog, teardownCodes_append, teardownCodes_append, (startUp_log_starts _).2.2, teardownCodes_callbacks,
    List.nil_append, List.nil_append] at hc
  exact teardownCodes_teardowns _ _ c hc

/-- **C19.3** the exit code distinguishes success, strategy (user) error and internal error: success iff nothing raised;
an exception from user code or an API user error is a user error; anything else is internal -/
theorem exit_code_classification (mods : List ModSpec) (h : allStart mods) (n i : Nat) (o : Origin) (hi : i < n) :
    (runMain mods n none).code = .success ∧
    (runMain mods n (some (i, o))).code = classify o ∧ classify o ≠ .success ∧
    (classify o = .userError ↔ (o = .userCode ∨ o = .apiUserError)) := by
  refine ⟨?_, ?_, ?_, ?_⟩
  · rw [runMain_ok mods h]
  · rw [runMain_ok mods h]; simp only [hi, if_true]
  · cases o <;> simp [classify]
  · cases o <;> simp [classify]

/-- a start-up failure is an internal error, never success -/
theorem startup_failure_internal (mods : List ModSpec) (h : ¬ allStart mods) (n : Nat) (fault : Option (Nat × Origin)) :
    (runMain mods n fault).code = .internalError ∧ (runMain mods n fault).result = none ∧
    callbacksOf (runMain mods n fault).log = [] := by
  rw [runMain_fail mods h]
  refine ⟨rfl, rfl, ?_⟩
  simp only [tearDown]
  rw [callbacksOf_append, (startUp_log_starts _).2.1, callbacksOf_teardowns]; rfl

/-- a failed run never returns a report; a successful run returns the values of the mods whose teardown did not raise -/
theorem failed_run_no_report (mods : List ModSpec) (n : Nat) (fault : Option (Nat × Origin)) :
    ((runMain mods n fault).code ≠ .success → (runMain mods n fault).result = none) ∧
    ((runMain mods n fault).code = .success → (runMain mods n fault).result =
      some ((sortMods mods).reverse.filterMap (fun m => if m.teardownRaises then none else m.ret.map (fun v => (m.tag, v))))) := by
  by_cases h : allStart mods
  · rw [runMain_ok mods h]
    rcases fault with _ | ⟨i, o⟩
    · simp [tearDown]
    · by_cases hi : i < n
      · refine ⟨fun _ => by simp [hi], fun hc => ?_⟩
        exfalso
        revert hc
        cases o <;> simp [hi, classify]
      · simp [hi, tearDown]
  · rw [runMain_fail mods h]
    exact ⟨fun _ => rfl, fun hc => by simp at hc⟩

/-- **C19.4** after an exception in callback `i` no later callback runs -/
theorem nothing_after_fault (mods : List ModSpec) (h : allStart mods) (n i : Nat) (o : Origin) (hi : i < n) :
    callbacksOf (runMain mods n (some (i, o))).log = List.range (i + 1) := by
  rw [runMain_ok mods h]
  simp only [hi, if_true, tearDown]
  rw [callbacksOf_append, callbacksOf_append, callbacksOf_starts, callbacksOf_callbacks, callbacksOf_teardowns]
  simp

/-- non-vacuity: three mods with priorities 30 / 20 / 40, the middle one's teardown raises, user error in callback 2 -/
example : runMain [⟨1, 30, false, false, some 7⟩, ⟨2, 20, false, true, some 8⟩, ⟨3, 40, false, false, none⟩] 10 (some (2, .userCode)) =
    { log := [.start 2, .start 1, .start 3, .callback 0, .callback 1, .callback 2, .teardown 3 .userError, .teardown 1 .userError, .teardown 2 .userError],
      code := .userError, result := none } := by
  decide

end RQ.Props.C19

/-
C18 — the analysis report equals what happened in the run.
Theorems over the analyser model (RQ/Model/Analyser.lean), linked to the executor model (C08: which events are published for a
list of days) and to the run-control model (C19: exit codes).
-/
import RQ.Model.Analyser
import RQ.Model.Executor
import RQ.Props.C08
import RQ.Props.C19
import Mathlib.Tactic.Linarith
import Mathlib.Tactic.Ring
import Mathlib.Tactic.FieldSimp
import Mathlib.Tactic.SplitIfs
import Mathlib.Tactic.Positivity
import Mathlib.Tactic.Push
import Mathlib.Data.Rat.Floor
import RQ.Props.C20
namespace RQ.Props.C18
open RQ.Q

/-! ### what is collected -/

def pfOf : AEv → Option PfRec
  | .postSettlement d p _ _ => some (toPfRec d p)
  | _ => none
def retOf : AEv → Option R
  | .postSettlement _ p _ _ => some p.dailyReturns
  | _ => none
def tradeOf : AEv → Option TradeRec
  | .trade t => some (toTradeRec t)
  | _ => none
def orderOf : AEv → Option Nat
  | .orderPass o => some o
  | _ => none


theorem foldl_pfs (evs : List AEv) (s : AState) :
    (evs.foldl AState.step s).pfs = s.pfs ++ evs.filterMap pfOf := by
  induction evs generalizing s with
  | nil => simp
  | cons e es ih =>
    rw [List.foldl_cons, ih]
    cases e <;> simp [AState.step, List.filterMap_cons, pfOf]

theorem foldl_rets (evs : List AEv) (s : AState) :
    (evs.foldl AState.step s).rets = s.rets ++ evs.filterMap retOf := by
  induction evs generalizing s with
  | nil => simp
  | cons e es ih =>
    rw [List.foldl_cons, ih]
    cases e <;> simp [AState.step, List.filterMap_cons, retOf]

theorem foldl_trades (evs : List AEv) (s : AState) :
    (evs.foldl AState.step s).trades = s.trades ++ evs.filterMap tradeOf := by
  induction evs generalizing s with
  | nil => simp
  | cons e es ih =>
    rw [List.foldl_cons, ih]
    cases e <;> simp [AState.step, List.filterMap_cons, tradeOf]

theorem foldl_orders (evs : List AEv) (s : AState) :
    (evs.foldl AState.step s).orders = s.orders ++ evs.filterMap orderOf := by
  induction evs generalizing s with
  | nil => simp
  | cons e es ih =>
    rw [List.foldl_cons, ih]
    cases e <;> simp [AState.step, List.filterMap_cons, orderOf]

/-- C18.1/2: the portfolio table is exactly the POST_SETTLEMENT events of the run, in order, each the rounded state at that point -/
theorem portfolio_table_eq (evs : List AEv) : (collect evs).pfs = evs.filterMap pfOf := by
  simp [collect, foldl_pfs, AState.init]

theorem daily_returns_eq (evs : List AEv) : (collect evs).rets = evs.filterMap retOf := by
  simp [collect, foldl_rets, AState.init]

/-- C18.2: the trade table is exactly the published trades, in order -/
theorem trade_table_eq (evs : List AEv) : (collect evs).trades = evs.filterMap tradeOf := by
  simp [collect, foldl_trades, AState.init]

theorem order_table_eq (evs : List AEv) : (collect evs).orders = evs.filterMap orderOf := by
  simp [collect, foldl_orders, AState.init]

/-- the analyser's view of a published bus event (`pf d` = the portfolio at the settlement of day d; trades etc. are other events) -/
def viewPub (pf : Nat → PfSnap) (p : Pub) : AEv :=
  if p.kind = .st ∧ p.part = .post then .postSettlement (dayOf p.cal) (pf (dayOf p.cal)) [] [] else .other


theorem filterMap_spec1d (pf : Nat → PfSnap) (days : List Nat) :
    (C08.spec1d days).filterMap (pfOf ∘ viewPub pf) = days.map (fun x => toPfRec x (pf x)) := by
  induction days with
  | nil => simp [C08.spec1d]
  | cons d ds ih =>
    have h930 := C08.dayOf_mkTime d 930 (by omega)
    simp only [C08.spec1d, List.flatMap_cons] at ih ⊢
    rw [List.filterMap_append, ih]
    simp [C08.specDay1d, C08.split3, viewPub, pfOf, h930]

/-- C18.1: one record per trading day of the run, in order — for EVERY list of distinct consecutive trading days, from the events the
executor publishes (C08) -/
theorem one_record_per_day (cal : List Nat) (d : Nat) (ds : List Nat) (hnd : (d :: ds).Pairwise (· ≠ ·))
    (hl : C08.PrevLinked cal (d :: ds)) (startDay : Nat) (pf : Nat → PfSnap) :
    (collect ((execRun cal startDay ((d :: ds).getLast (by simp)) (source1d (d :: ds))).map (viewPub pf))).pfs
      = (d :: ds).map (fun x => toPfRec x (pf x)) := by
  rw [C08.published_eq_spec_1d cal d ds hnd hl startDay, portfolio_table_eq, List.filterMap_map]
  exact filterMap_spec1d pf (d :: ds)

/-- … and interleaving any number of trade / order events between the published events does not change the portfolio table -/
theorem records_ignore_trades (evs : List AEv) (h : ∀ e ∈ evs, pfOf e = none) (s : AState) :
    (evs.foldl AState.step s).pfs = s.pfs := by
  rw [foldl_pfs]
  have : evs.filterMap pfOf = [] := by
    rw [List.filterMap_eq_nil_iff]; exact h
  simp [this]

/-! ### summary figures -/


theorem foldl_benchReturns : ∀ (vs : List R) (v0 a : R), v0 ≠ 0 → (∀ v ∈ vs, v ≠ 0) →
    (benchReturns (v0 :: vs)).foldl (fun acc r => acc * (r + 1)) a = a * (v0 :: vs).getLast (by simp) / v0
  | [], v0, a, h0, _ => by
    simp only [benchReturns, List.foldl_nil, List.getLast_singleton]
    field_simp
  | v1 :: vs, v0, a, h0, hvs => by
    have h1 : v1 ≠ 0 := hvs v1 (by simp)
    have ih := foldl_benchReturns vs v1 (a * (v1 / v0 - 1 + 1)) h1 (fun v hv => hvs v (by simp [hv]))
    simp only [benchReturns, List.foldl_cons]
    rw [ih, List.getLast_cons (by simp : v1 :: vs ≠ [])]
    field_simp
    ring

/-- telescoping: compounding the day-over-day ratios of a series of non-zero values gives last / first -/
theorem prodPlus1_ratio : ∀ (v0 : R) (vs : List R), v0 ≠ 0 → (∀ v ∈ vs, v ≠ 0) →
    prodPlus1 (benchReturns (v0 :: vs)) = (v0 :: vs).getLast (by simp) / v0 := by
  intro v0 vs h0 hvs
  rw [prodPlus1, foldl_benchReturns vs v0 1 h0 hvs]; ring

/-- C18.3: total return = final unit net value - 1 -/
theorem total_returns_eq (s : AState) (final : PfSnap) (n : Nat) (b : Option (List R)) (r : Report)
    (h : analyserTearDown .success true s final n b = some r) :
    r.summary.totalReturns = final.nav - 1 ∧ r.summary.nav = final.nav ∧ r.summary.totalValue = final.totalValue ∧ r.summary.cash = final.cash := by
  unfold analyserTearDown at h
  split_ifs at h
  simp only [Option.some.injEq] at h
  subst h
  simp

/-- C18.3: … = compounded daily returns - 1, when each day's return is the ratio of consecutive closing net values (C03) starting from 1 -/
theorem total_returns_compounded (navs : List R) (hnz : ∀ v ∈ navs, v ≠ 0) :
    prodPlus1 (benchReturns ((1 : R) :: navs)) - 1 = ((1 : R) :: navs).getLast (by simp) - 1 := by
  rw [prodPlus1_ratio 1 navs one_ne_zero hnz]; simp

/-- C18.3: the annualised return is pow(final net value, 252 / number of trading days) - 1 (the constant -1 for a non-positive net value) -/
theorem annualised_args (s : AState) (final : PfSnap) (n : Nat) (b : Option (List R)) (r : Report)
    (h : analyserTearDown .success true s final n b = some r) :
    r.summary.annualized = (if final.nav ≤ 0 then Ann.minusOne else Ann.pow final.nav n) := by
  unfold analyserTearDown at h
  split_ifs at h
  simp only [Option.some.injEq] at h
  subst h
  simp [annualizedReturns]

/-- the number of trading days the annualisation uses is the number of days of the run (calendar model, C20) -/
theorem date_count_is_run_length (cal : List Nat) (s e : Nat) (hse : s ≤ e) :
    countTradingDates cal s e = ((getTradingDates cal s e).length : Int) := by
  exact C20.count_eq_length cal s e hse

theorem benchReturns_length : ∀ (c0 : R) (cs : List R), (benchReturns (c0 :: cs)).length = cs.length
  | _, [] => rfl
  | _, c1 :: cs => by simp [benchReturns, benchReturns_length c1 cs]

theorem zip_single (w : R) (hw : w ≠ 0) : ∀ (rs : List R),
    (List.zipWith (fun x r => x + r * w) (List.replicate rs.length 0) rs).map (· / (0 + w)) = rs
  | [] => rfl
  | r :: rs => by
    simp only [List.length_cons, List.replicate_succ, List.zipWith_cons_cons, List.map_cons, zip_single w hw rs]
    congr 1
    rw [zero_add, zero_add, mul_div_cancel_right₀ _ hw]

theorem benchCombine_single' (rs : List R) (w : R) (hw : w ≠ 0) : benchCombine rs.length [(rs, w)] = rs := by
  unfold benchCombine
  simp only [List.foldl_cons, List.foldl_nil]
  exact zip_single w hw rs

/-- C18.3: benchmark return = ratio of benchmark closes (single benchmark, any non-zero weight, non-zero closes) -/
theorem benchmark_total_eq (c0 : R) (cs : List R) (w : R) (hw : w ≠ 0) (h0 : c0 ≠ 0) (hnz : ∀ c ∈ cs, c ≠ 0)
    (s : AState) (final : PfSnap) (n : Nat) (r : Report)
    (h : analyserTearDown .success true s final n (some (benchCombine cs.length [(benchReturns (c0 :: cs), w)])) = some r) :
    r.summary.benchTotal = some ((c0 :: cs).getLast (by simp) / c0 - 1) := by
  have hlen : cs.length = (benchReturns (c0 :: cs)).length := (benchReturns_length c0 cs).symm
  rw [hlen, benchCombine_single' _ w hw] at h
  unfold analyserTearDown at h
  split_ifs at h
  simp only [Option.some.injEq] at h
  subst h
  simp [prodPlus1_ratio c0 cs h0 hnz]

/-- the weighted combination of one series is the series itself -/
theorem benchCombine_single (rs : List R) (w : R) (hw : w ≠ 0) : benchCombine rs.length [(rs, w)] = rs := by
  exact benchCombine_single' rs w hw


theorem cum_inv : ∀ (rs : List R) (st : R × List R), st.2.getLast? = some st.1 →
    (rs.foldl (fun (st : R × List R) r => let v := st.1 * (r + 1); (v, st.2 ++ [v])) st).2.getLast?
      = some (rs.foldl (fun (st : R × List R) r => let v := st.1 * (r + 1); (v, st.2 ++ [v])) st).1 ∧
    (rs.foldl (fun (st : R × List R) r => let v := st.1 * (r + 1); (v, st.2 ++ [v])) st).1
      = rs.foldl (fun acc r => acc * (r + 1)) st.1
  | [], st, h => by simpa using h
  | r :: rs, st, h => by
    simp only [List.foldl_cons]
    exact cum_inv rs _ (by simp)

theorem cum_len : ∀ (rs : List R) (st : R × List R),
    (rs.foldl (fun (st : R × List R) r => let v := st.1 * (r + 1); (v, st.2 ++ [v])) st).2.length
      = st.2.length + rs.length
  | [], st => by simp
  | r :: rs, st => by
    simp only [List.foldl_cons]
    rw [cum_len rs]; simp; omega

/-- the benchmark's final unit net value is its total return + 1 -/
theorem bench_nav_last (rs : List R) (hne : rs ≠ []) : (cumprodPlus1 rs).getLast? = some (prodPlus1 rs) := by
  cases rs with
  | nil => exact absurd rfl hne
  | cons r rs =>
    unfold cumprodPlus1 prodPlus1
    rw [List.foldl_cons, List.foldl_cons]
    have := cum_inv rs (1 * (r + 1), [] ++ [1 * (r + 1)]) (by simp)
    rw [this.1, this.2]

theorem bench_nav_length (rs : List R) : (cumprodPlus1 rs).length = rs.length := by
  unfold cumprodPlus1; rw [cum_len]; simp

/-- the report's tables are the collected ones -/
theorem report_tables (s : AState) (final : PfSnap) (n : Nat) (b : Option (List R)) (r : Report)
    (h : analyserTearDown .success true s final n b = some r) :
    r.trades = s.trades ∧ r.portfolio = s.pfs ∧ r.accounts = s.accounts ∧ r.positions = s.positions := by
  unfold analyserTearDown at h
  split_ifs at h
  simp only [Option.some.injEq] at h
  subst h
  simp

/-! ### no report from a failed run -/

/-- C18.4: a failed run returns no report, whatever was collected -/
theorem failed_run_no_report (code : ExitCode) (hc : code ≠ .success) (en : Bool) (s : AState) (final : PfSnap) (n : Nat) (b : Option (List R)) :
    analyserTearDown code en s final n b = none := by
  unfold analyserTearDown; simp [hc]

/-- … in particular for every fault of every origin (exit code from the run-control model, C19) -/
theorem fault_no_report (o : Origin) (en : Bool) (s : AState) (final : PfSnap) (n : Nat) (b : Option (List R)) :
    analyserTearDown (classify o) en s final n b = none := by
  apply failed_run_no_report; cases o <;> simp [classify]

/-- a successful run with at least one settled day does return a report -/
theorem success_reports (s : AState) (hs : s.pfs ≠ []) (final : PfSnap) (n : Nat) (b : Option (List R)) :
    (analyserTearDown .success true s final n b).isSome = true := by
  unfold analyserTearDown
  have : s.pfs.isEmpty = false := by cases hp : s.pfs with
    | nil => exact absurd hp hs
    | cons a l => rfl
  simp [this]

/-! ### rounding -/


theorem floor_eq (x : Rat) : x.floor = ⌊x⌋ := rfl

theorem roundI_close (y : Rat) : |(R.roundI y : Rat) - y| ≤ 1 / 2 := by
  have h1 : ((y.floor : Int) : Rat) ≤ y := Int.floor_le y
  have h2 : y < ((y.floor : Int) : Rat) + 1 := Int.lt_floor_add_one y
  unfold R.roundI
  rw [abs_le]
  simp only []
  split_ifs <;> push_cast <;> constructor <;> linarith

theorem roundI_intCast (k : Int) : R.roundI (k : Rat) = k := by
  unfold R.roundI
  simp [floor_eq]

/-- `round(x, n)` is within half a unit of the n-th decimal -/
theorem roundDec_close (n : Nat) (x : R) : |R.roundDec n x - x| ≤ 1 / (2 * (10 : R) ^ n) := by
  have hs : (0 : Rat) < (10 : Rat) ^ n := by positivity
  have hc := roundI_close (x * (10 : Rat) ^ n)
  unfold R.roundDec
  push_cast
  rw [abs_le] at hc ⊢
  obtain ⟨h1, h2⟩ := hc
  have e1 : (R.roundI (x * (10 : Rat) ^ n) : Rat) / (10 : Rat) ^ n - x
      = ((R.roundI (x * (10 : Rat) ^ n) : Rat) - x * (10 : Rat) ^ n) / (10 : Rat) ^ n := by
    field_simp
  have e2 : (1 : Rat) / (2 * (10 : Rat) ^ n) = (1 / 2) / (10 : Rat) ^ n := by field_simp
  rw [e1, e2]
  constructor
  · rw [← neg_div]; exact div_le_div_of_nonneg_right h1 hs.le
  · exact div_le_div_of_nonneg_right h2 hs.le

theorem roundDec_idem (n : Nat) (x : R) : R.roundDec n (R.roundDec n x) = R.roundDec n x := by
  have hs : ((10 ^ n : Nat) : Rat) ≠ 0 := by positivity
  unfold R.roundDec
  rw [div_mul_cancel₀ _ hs, roundI_intCast]

/-- non-vacuity: two days, one trade, report produced with the expected figures -/
example :
    let p1 : PfSnap := ⟨1000, 1000, 0, 1, 1000, 1, 0, 0⟩
    let p2 : PfSnap := ⟨500, 1100.12345, 600.12345, 1.10012345, 1000, 1, 0.10012345, 100.12345⟩
    let t : ATradeIn := ⟨1, 7, "000001.XSHE", "BUY", "OPEN", 100, 5.00005, 0, 5, 2900, 2900⟩
    let s := collect [.other, .postSettlement 1 p1 [] [], .trade t, .orderPass 7, .postSettlement 2 p2 [] []]
    (s.pfs.map (·.date) = [1, 2]) ∧ (s.pfs.map (·.nav) = [1, 1.100123]) ∧ (s.trades.map (·.price) = [5]) ∧
    ((analyserTearDown .success true s p2 2 (some (benchReturns [10, 11, 12.1]))).map (·.summary.benchTotal) = some (some (21/100))) := by
  decide +kernel

end RQ.Props.C18

/-
C09 — Buying power: orders are covered by cash, reserved cash is conserved.
Theorems over `RQ/Model/Account.lean` (reserve / release operations) and `RQ/Model/Validators.lean` (cash validator).
-/
import RQ.Model.Account
import RQ.Model.Validators
import Mathlib.Tactic.Linarith
import Mathlib.Tactic.Ring
import Mathlib.Tactic.FieldSimp
import Mathlib.Tactic.SplitIfs
import Mathlib.Tactic.Positivity
import RQ.Lemmas.WorldC

namespace RQ.Props.C09
open RQ.Q

/-- **acceptance ⇒ covered**: with the cash validator on, an OPEN order passes the chain only if its estimated cost
(price × quantity, or margin for futures, plus estimated fees) is at most the available cash -/
theorem accepted_implies_covered (sw : Switches) (cfg : InsCfg) (o : OrderIn) (m : MarketIn) (cl tcl : Int)
    (orderCost cash : R) (opp : List R) (hsw : sw.cash = true) (ho : o.effect = .open_)
    (h : validate sw cfg o m cl tcl orderCost cash opp = none) :
    frozenCashOfOrder cfg o.frozenPrice o.qty true orderCost ≤ cash := by
  by_contra hc
  have hveto : cashVeto cfg o orderCost cash = true := by
    simp [cashVeto, ho, hc]
  unfold validate at h
  rw [hsw, hveto] at h
  by_cases h1 : (sw.position && positionVeto o cl tcl) = true
  · rw [if_pos h1] at h; cases h
  · rw [if_neg h1] at h
    cases h2 : (if sw.price then priceVeto o m else none) with
    | some v => rw [h2] at h; cases h
    | none =>
      rw [h2] at h
      cases h3 : (if sw.isTrading then isTradingVeto m else none) with
      | some v => rw [h3] at h; cases h
      | none => rw [h3] at h; cases h

/-- the amount reserved at `ORDER_PENDING_NEW` is exactly the amount the validator compared with the cash -/
theorem reserve_is_validated_amount (cfg : InsCfg) (o : OrderIn) (orderCost : R) (a : Acct) (ho : o.effect = .open_) :
    (a.onPendingNew (frozenCashOfOrder cfg o.frozenPrice o.qty (o.effect == .open_) orderCost)).frozen =
      a.frozen + frozenCashOfOrder cfg o.frozenPrice o.qty true orderCost := by
  rw [ho]
  rfl

/-- reserved cash is unavailable to other orders: available cash falls by the reserve -/
theorem reserved_unavailable (a : Acct) (init : R) : (a.onPendingNew init).cash = a.cash - init := by
  simp only [Acct.cash, Acct.onPendingNew, Acct.margin, Acct.iterPos]
  ring

/-! ### The open-order book as ghost state -/

/-- an order whose reserve has been booked and not yet fully released -/
structure OOrder where
  id : Nat
  qty : Int
  filled : Int
  init : R

/-- unfilled fraction of the initial reserve -/
def OOrder.share (o : OOrder) : R := ((o.qty - o.filled : Int) : Rat) / (o.qty : Rat) * o.init

structure St where
  acct : Acct
  book : List OOrder

def bookSum (b : List OOrder) : R := (b.map OOrder.share).sum

/-- operations in any interleaving: a submission (PENDING_NEW), a fill of an open order (TRADE), the release of an
open order by cancellation / rejection / expiry (announced once) -/
inductive Op
  | submit (id : Nat) (qty : Int) (init : R)
  | fill (id : Nat) (ins : Nat) (cfg : InsCfg) (createLast : R) (isLong : Bool) (t : TradeIn)
  | release (id : Nat)

def stepB (s : St) : Op → St
  | .submit id qty init => { acct := s.acct.onPendingNew init, book := s.book ++ [⟨id, qty, 0, init⟩] }
  | .fill id ins cfg cl isLong t =>
    match s.book.find? (·.id == id) with
    | none => s
    | some o =>
      let o' : OOrder := { o with filled := o.filled + t.qty }
      let rest := s.book.filter (·.id != id)
      { acct := s.acct.applyTrade ins cfg cl isLong t (some (o.qty, o.init)),
        book := if o'.filled = o'.qty then rest else rest ++ [o'] }
  | .release id =>
    match s.book.find? (·.id == id) with
    | none => s
    | some o => { acct := s.acct.onUnsolicited o.qty o.filled o.init, book := s.book.filter (·.id != id) }

/-- well-formed book: distinct ids, `0 ≤ filled < qty` -/
def WF (s : St) : Prop :=
  (s.book.map (·.id)).Nodup ∧ ∀ o ∈ s.book, 0 < o.qty ∧ 0 ≤ o.filled ∧ o.filled < o.qty

/-- an operation is admissible in a state: fresh id and positive quantity for a submission; a fill does not exceed
the unfilled remainder -/
def Admissible (s : St) : Op → Prop
  | .submit id qty _ => 0 < qty ∧ id ∉ s.book.map (·.id)
  | .fill id _ _ _ _ t => 0 < t.qty ∧ ∀ o ∈ s.book, o.id = id → o.filled + t.qty ≤ o.qty
  | .release _ => True

def Inv (s : St) : Prop := s.acct.frozen = bookSum s.book

/-! ### helper lemmas: which operations touch `frozen` -/

theorem getOrCreate_frozen (a : Acct) (ins : Nat) (cfg : InsCfg) (cl : R) :
    (a.getOrCreate ins cfg cl).frozen = a.frozen := by
  unfold Acct.getOrCreate
  split <;> rfl

/-- the position part of `apply_trade` does not touch `frozen` -/
theorem applyTrade_frozen_pos (a2 : Acct) (ins : Nat) (isLong : Bool) (t : TradeIn) :
    (match a2.getPos ins isLong with
      | some (c, p) =>
        let r := p.applyTrade c t
        { (a2.setPos ins isLong r.1) with totalCash := a2.totalCash + r.2 }
      | none => a2).frozen = a2.frozen := by
  split <;> rfl

/-- the release part of `apply_trade`: both branches release `t.qty / oq · init` -/
theorem release_part_frozen (a : Acct) (t : TradeIn) (oq : Int) (init : R) (hoq : oq ≠ 0) :
    (if t.qty ≠ oq then ({ a with frozen := a.frozen - R.ofInt t.qty / R.ofInt oq * init } : Acct)
      else { a with frozen := a.frozen - init }).frozen = a.frozen - (t.qty : Rat) / (oq : Rat) * init := by
  have hq : (oq : Rat) ≠ 0 := by exact_mod_cast hoq
  split_ifs with h
  · rfl
  · have he : t.qty = oq := not_not.mp h
    show a.frozen - init = _
    rw [he, div_self hq, one_mul]

theorem applyTrade_frozen (a : Acct) (ins : Nat) (cfg : InsCfg) (cl : R) (isLong : Bool) (t : TradeIn) (oq : Int)
    (init : R) (hoq : oq ≠ 0) :
    (a.applyTrade ins cfg cl isLong t (some (oq, init))).frozen = a.frozen - (t.qty : Rat) / (oq : Rat) * init := by
  refine (applyTrade_frozen_pos _ ins isLong t).trans ?_
  rw [getOrCreate_frozen]
  exact release_part_frozen a t oq init hoq

/-! ### helper lemmas about the book -/

theorem stepB_fill_none {s : St} {id : Nat} (ins : Nat) (cfg : InsCfg) (cl : R) (isLong : Bool) (t : TradeIn)
    (h : s.book.find? (·.id == id) = none) : stepB s (.fill id ins cfg cl isLong t) = s := by
  simp only [stepB, h]

theorem stepB_fill_some {s : St} {id : Nat} {o : OOrder} (ins : Nat) (cfg : InsCfg) (cl : R) (isLong : Bool)
    (t : TradeIn) (h : s.book.find? (·.id == id) = some o) :
    stepB s (.fill id ins cfg cl isLong t) =
      { acct := s.acct.applyTrade ins cfg cl isLong t (some (o.qty, o.init)),
        book := if o.filled + t.qty = o.qty then s.book.filter (·.id != id)
                else s.book.filter (·.id != id) ++ [{ o with filled := o.filled + t.qty }] } := by
  simp only [stepB, h]

theorem stepB_release_none {s : St} {id : Nat} (h : s.book.find? (·.id == id) = none) :
    stepB s (.release id) = s := by
  simp only [stepB, h]

theorem stepB_release_some {s : St} {id : Nat} {o : OOrder} (h : s.book.find? (·.id == id) = some o) :
    stepB s (.release id) =
      { acct := s.acct.onUnsolicited o.qty o.filled o.init, book := s.book.filter (·.id != id) } := by
  simp only [stepB, h]

theorem bookSum_append (b : List OOrder) (o : OOrder) : bookSum (b ++ [o]) = bookSum b + o.share := by
  simp [bookSum]

theorem find_some_spec {b : List OOrder} {id : Nat} {o : OOrder} (h : b.find? (·.id == id) = some o) :
    o ∈ b ∧ o.id = id :=
  ⟨List.mem_of_find?_eq_some h, by simpa using List.find?_some h⟩

/-- removing the (unique) order with the id of `o` removes exactly the share of `o` -/
theorem bookSum_filter (b : List OOrder) (o : OOrder) (hnd : (b.map (·.id)).Nodup) (hm : o ∈ b) :
    bookSum b = bookSum (b.filter (·.id != o.id)) + o.share := by
  induction b with
  | nil => cases hm
  | cons x xs ih =>
    rw [List.map_cons, List.nodup_cons] at hnd
    rcases List.mem_cons.mp hm with rfl | hm'
    · have hxs : xs.filter (·.id != o.id) = xs := by
        rw [List.filter_eq_self]
        intro y hy
        have hne : y.id ≠ o.id := fun he => hnd.1 (List.mem_map.mpr ⟨y, hy, he⟩)
        simpa using hne
      have hhead : (o.id != o.id) = false := by simp
      rw [List.filter_cons, hhead, if_neg (by simp), hxs]
      simp only [bookSum, List.map_cons, List.sum_cons]
      ring
    · have hne : x.id ≠ o.id := fun he => hnd.1 (List.mem_map.mpr ⟨o, hm', he.symm⟩)
      have hhead : (x.id != o.id) = true := by simpa using hne
      have := ih hnd.2 hm'
      rw [List.filter_cons, hhead, if_pos rfl]
      simp only [bookSum, List.map_cons, List.sum_cons] at this ⊢
      rw [this]
      ring

theorem filter_ids_nodup (b : List OOrder) (id : Nat) (hnd : (b.map (·.id)).Nodup) :
    ((b.filter (·.id != id)).map (·.id)).Nodup :=
  List.Nodup.sublist (List.filter_sublist.map _) hnd

theorem id_not_mem_filter (b : List OOrder) (id : Nat) : id ∉ (b.filter (·.id != id)).map (·.id) := by
  intro h
  obtain ⟨y, hy, he⟩ := List.mem_map.mp h
  have := (List.mem_filter.mp hy).2
  simp [he] at this

theorem nodup_snoc (b : List OOrder) (o : OOrder) (hnd : (b.map (·.id)).Nodup) (hfresh : o.id ∉ b.map (·.id)) :
    ((b ++ [o]).map (·.id)).Nodup := by
  rw [List.map_append, List.map_cons, List.map_nil]
  refine List.Nodup.append hnd (List.nodup_singleton _) ?_
  intro x hx hx'
  rw [List.mem_singleton] at hx'
  exact hfresh (hx' ▸ hx)

/-- one step preserves well-formedness and the invariant -/
theorem step_inv (s : St) (op : Op) (hwf : WF s) (hinv : Inv s) (hadm : Admissible s op) :
    WF (stepB s op) ∧ Inv (stepB s op) := by
  obtain ⟨hnd, hel⟩ := hwf
  unfold Inv at hinv
  cases op with
  | submit id qty init =>
    obtain ⟨hq, hfresh⟩ := hadm
    have hqr : (qty : Rat) ≠ 0 := by exact_mod_cast hq.ne'
    refine ⟨⟨nodup_snoc s.book ⟨id, qty, 0, init⟩ hnd hfresh, ?_⟩, ?_⟩
    · intro o ho
      rcases List.mem_append.mp ho with ho | ho
      · exact hel o ho
      · rw [List.mem_singleton] at ho
        subst ho
        exact ⟨hq, le_refl _, hq⟩
    · show s.acct.frozen + init = bookSum (s.book ++ [⟨id, qty, 0, init⟩])
      rw [bookSum_append, hinv]
      simp only [OOrder.share, sub_zero, div_self hqr, one_mul]
  | fill id ins cfg cl isLong t =>
    obtain ⟨htq, hrem⟩ := hadm
    cases hf : s.book.find? (·.id == id) with
    | none => rw [stepB_fill_none ins cfg cl isLong t hf]; exact ⟨⟨hnd, hel⟩, hinv⟩
    | some o =>
      rw [stepB_fill_some ins cfg cl isLong t hf]
      obtain ⟨hmem, hid⟩ := find_some_spec hf
      obtain ⟨hoq, hof0, hoflt⟩ := hel o hmem
      have hle := hrem o hmem hid
      have hqr : (o.qty : Rat) ≠ 0 := by exact_mod_cast hoq.ne'
      have hsum := bookSum_filter s.book o hnd hmem
      rw [hid] at hsum
      have hfro := applyTrade_frozen s.acct ins cfg cl isLong t o.qty o.init hoq.ne'
      by_cases hcomp : o.filled + t.qty = o.qty
      · rw [if_pos hcomp]
        refine ⟨⟨filter_ids_nodup _ _ hnd, fun x hx => hel x (List.mem_filter.mp hx).1⟩, ?_⟩
        show (s.acct.applyTrade ins cfg cl isLong t (some (o.qty, o.init))).frozen = bookSum (s.book.filter (·.id != id))
        rw [hfro, hinv, hsum]
        have : (t.qty : Rat) = (o.qty : Rat) - (o.filled : Rat) := by
          have : t.qty = o.qty - o.filled := by omega
          rw [this]; push_cast; ring
        simp only [OOrder.share]
        push_cast
        rw [this]
        ring
      · rw [if_neg hcomp]
        refine ⟨⟨?_, ?_⟩, ?_⟩
        · exact nodup_snoc _ _ (filter_ids_nodup _ _ hnd) (by rw [hid]; exact id_not_mem_filter _ _)
        · intro x hx
          rcases List.mem_append.mp hx with hx | hx
          · exact hel x (List.mem_filter.mp hx).1
          · rw [List.mem_singleton] at hx
            subst hx
            exact ⟨hoq, by show 0 ≤ o.filled + t.qty; omega, by show o.filled + t.qty < o.qty; omega⟩
        · show (s.acct.applyTrade ins cfg cl isLong t (some (o.qty, o.init))).frozen =
            bookSum (s.book.filter (·.id != id) ++ [{ o with filled := o.filled + t.qty }])
          rw [hfro, hinv, hsum, bookSum_append]
          simp only [OOrder.share]
          push_cast
          field_simp
          ring
  | release id =>
    cases hf : s.book.find? (·.id == id) with
    | none => rw [stepB_release_none hf]; exact ⟨⟨hnd, hel⟩, hinv⟩
    | some o =>
      rw [stepB_release_some hf]
      obtain ⟨hmem, hid⟩ := find_some_spec hf
      obtain ⟨hoq, hof0, hoflt⟩ := hel o hmem
      have hqr : (o.qty : Rat) ≠ 0 := by exact_mod_cast hoq.ne'
      have hsum := bookSum_filter s.book o hnd hmem
      rw [hid] at hsum
      refine ⟨⟨filter_ids_nodup _ _ hnd, fun x hx => hel x (List.mem_filter.mp hx).1⟩, ?_⟩
      show (s.acct.onUnsolicited o.qty o.filled o.init).frozen = bookSum (s.book.filter (·.id != id))
      unfold Acct.onUnsolicited
      split_ifs with h0
      · show s.acct.frozen - R.ofInt (o.qty - o.filled) / R.ofInt o.qty * o.init = _
        rw [hinv, hsum]
        simp only [OOrder.share, R.ofInt]
        ring
      · have h0' : o.filled = 0 := not_not.mp h0
        show s.acct.frozen - o.init = _
        rw [hinv, hsum]
        simp only [OOrder.share, h0', sub_zero, div_self hqr, one_mul]
        ring

/-- admissibility along a run -/
def AdmissibleRun : St → List Op → Prop
  | _, [] => True
  | s, op :: ops => Admissible s op ∧ AdmissibleRun (stepB s op) ops

/-- **C09.2** for EVERY interleaving of submissions, partial and complete fills, cancels, rejections and expiries of any
number of concurrent orders: reserved cash = Σ over open orders of their unfilled fraction of the initial reserve -/
theorem frozen_invariant (s : St) (ops : List Op) (hwf : WF s) (hinv : Inv s) (hadm : AdmissibleRun s ops) :
    Inv (ops.foldl stepB s) ∧ WF (ops.foldl stepB s) := by
  induction ops generalizing s with
  | nil => exact ⟨hinv, hwf⟩
  | cons op ops ih =>
    obtain ⟨h1, h2⟩ := hadm
    obtain ⟨hwf', hinv'⟩ := step_inv s op hwf hinv h1
    exact ih (stepB s op) hwf' hinv' h2

/-- hence reserved cash is never negative (non-negative reserves) … -/
theorem frozen_nonneg (s : St) (hwf : WF s) (hinv : Inv s) (hpos : ∀ o ∈ s.book, 0 ≤ o.init) : 0 ≤ s.acct.frozen := by
  rw [hinv]
  unfold bookSum
  apply List.sum_nonneg
  intro x hx
  obtain ⟨o, ho, rfl⟩ := List.mem_map.mp hx
  obtain ⟨hoq, _, hoflt⟩ := hwf.2 o ho
  unfold OOrder.share
  have h1 : (0 : Rat) < (o.qty : Rat) := by exact_mod_cast hoq
  have h2 : (0 : Rat) ≤ ((o.qty - o.filled : Int) : Rat) := by
    have : 0 ≤ o.qty - o.filled := by omega
    exact_mod_cast this
  exact mul_nonneg (div_nonneg h2 h1.le) (hpos o ho)

/-- … and is zero whenever no order is open -/
theorem frozen_zero_when_no_open_orders (s : St) (hinv : Inv s) (hb : s.book = []) : s.acct.frozen = 0 := by
  rw [hinv, hb]
  rfl

/-- a complete fill in one trade releases the whole reserve; a partial fill releases pro rata -/
theorem release_pro_rata (a : Acct) (ins : Nat) (cfg : InsCfg) (cl : R) (isLong : Bool) (t : TradeIn) (oq : Int) (init : R)
    (hoq : oq ≠ 0) :
    (a.applyTrade ins cfg cl isLong t (some (oq, init))).frozen = a.frozen - (t.qty : Rat) / (oq : Rat) * init :=
  applyTrade_frozen a ins cfg cl isLong t oq init hoq

/-! ### helper lemmas: `totalCash` under `apply_trade` -/

theorem getOrCreate_totalCash (a : Acct) (ins : Nat) (cfg : InsCfg) (cl : R) :
    (a.getOrCreate ins cfg cl).totalCash = a.totalCash := by
  unfold Acct.getOrCreate
  split <;> rfl

/-- `_get_or_create_pos` followed by the lookup depends on the holdings only -/
theorem getOrCreate_getPos_congr (a a' : Acct) (h : a'.holdings = a.holdings) (ins : Nat) (cfg : InsCfg) (cl : R)
    (isLong : Bool) :
    (a'.getOrCreate ins cfg cl).getPos ins isLong = (a.getOrCreate ins cfg cl).getPos ins isLong := by
  unfold Acct.getOrCreate Acct.getPos Acct.findHolding
  rw [h]
  cases a.holdings.find? (·.ins == ins) with
  | some x => simp only [h]
  | none => rfl

/-- after `_get_or_create_pos` the position exists -/
theorem getOrCreate_getPos_some (a : Acct) (ins : Nat) (cfg : InsCfg) (cl : R) (isLong : Bool) :
    ∃ c p, (a.getOrCreate ins cfg cl).getPos ins isLong = some (c, p) := by
  unfold Acct.getOrCreate
  cases hf : a.findHolding ins with
  | some x =>
    refine ⟨x.cfg, if isLong then x.long else x.short, ?_⟩
    simp only [Acct.getPos, hf, Option.map_some]
  | none =>
    refine ⟨cfg, if isLong then Pos.empty true cl else Pos.empty false cl, ?_⟩
    unfold Acct.findHolding at hf
    simp only [Acct.getPos, Acct.findHolding, List.find?_append, hf, Option.none_or, List.find?_cons, beq_self_eq_true,
      Option.map_some]

theorem applyTrade_pos_totalCash (a2 : Acct) (ins : Nat) (isLong : Bool) (t : TradeIn) :
    (match a2.getPos ins isLong with
      | some (c, p) =>
        let r := p.applyTrade c t
        { (a2.setPos ins isLong r.1) with totalCash := a2.totalCash + r.2 }
      | none => a2).totalCash =
    (match a2.getPos ins isLong with
      | some (c, p) => a2.totalCash + (p.applyTrade c t).2
      | none => a2.totalCash) := by
  cases a2.getPos ins isLong with
  | none => rfl
  | some cp => rfl

/-- `apply_trade` of an order's trade changes `totalCash` by the position's `delta_cash` only -/
theorem applyTrade_totalCash (a : Acct) (ins : Nat) (cfg : InsCfg) (cl : R) (isLong : Bool) (t : TradeIn) (oq : Int)
    (init : R) :
    (a.applyTrade ins cfg cl isLong t (some (oq, init))).totalCash =
    (match (a.getOrCreate ins cfg cl).getPos ins isLong with
      | some (c, p) => a.totalCash + (p.applyTrade c t).2
      | none => a.totalCash) := by
  refine (applyTrade_pos_totalCash _ ins isLong t).trans ?_
  rw [getOrCreate_totalCash]
  dsimp only
  split_ifs with h
  · rw [getOrCreate_getPos_congr a { a with frozen := a.frozen - R.ofInt t.qty / R.ofInt oq * init } rfl]
  · rw [getOrCreate_getPos_congr a { a with frozen := a.frozen - init } rfl]

/-- **C09.3 (stocks, current-bar matching, no slippage)**: a BUY that was accepted with the cash validator on and fills
at a price not above its frozen price cannot drive the cash balance below the other orders' reserves: if
`price ≤ frozenPrice`, `fee ≤ estimated cost · (filled share)` … stated for the complete fill of a fresh order:
cash balance after the fill ≥ reserved cash of the remaining orders -/
theorem fill_keeps_balance_nonneg (a : Acct) (ins : Nat) (cfg : InsCfg) (hcfg : cfg.isFuture = false) (cl : R)
    (t : TradeIn) (ht : t.effect = .open_) (frozenPrice orderCost : R) (hq : 0 < t.qty)
    (hprice : t.price ≤ frozenPrice) (hfee : t.fee ≤ orderCost)
    (hcover : frozenCashOfOrder cfg frozenPrice t.qty true orderCost ≤ a.totalCash - a.frozen)
    (hstock : ∀ c p, (a.getOrCreate ins cfg cl).getPos ins true = some (c, p) → c.isFuture = false) :
    let init := frozenCashOfOrder cfg frozenPrice t.qty true orderCost
    let a1 := a.onPendingNew init
    let a2 := a1.applyTrade ins cfg cl true t (some (t.qty, init))
    a2.frozen = a.frozen ∧ a.frozen ≤ a2.totalCash := by
  intro init a1 a2
  have hqr : (t.qty : Rat) ≠ 0 := by exact_mod_cast hq.ne'
  have hq0 : (0 : Rat) ≤ (t.qty : Rat) := by exact_mod_cast hq.le
  constructor
  · show (a1.applyTrade ins cfg cl true t (some (t.qty, init))).frozen = a.frozen
    rw [applyTrade_frozen a1 ins cfg cl true t t.qty init hq.ne', div_self hqr, one_mul]
    show a.frozen + init - init = a.frozen
    ring
  · show a.frozen ≤ (a1.applyTrade ins cfg cl true t (some (t.qty, init))).totalCash
    rw [applyTrade_totalCash, getOrCreate_getPos_congr a a1 rfl]
    obtain ⟨c, p, hcp⟩ := getOrCreate_getPos_some a ins cfg cl true
    have hc := hstock c p hcp
    rw [hcp]
    show a.frozen ≤ a.totalCash + (p.applyTrade c t).2
    have h2 : (p.applyTrade c t).2 = (R.ofInt (-1) * t.price * R.ofInt t.qty) - t.fee := by
      unfold Pos.applyTrade
      rw [hc]
      simp only [Bool.false_eq_true, if_false, Pos.applyTradeStock, Pos.applyTradeBase, ht]
      split_ifs <;> rfl
    rw [h2]
    have hcov : frozenPrice * (t.qty : Rat) + orderCost ≤ a.totalCash - a.frozen := by
      have := hcover
      simp only [frozenCashOfOrder, hcfg, Bool.false_eq_true, if_false, if_true, R.ofInt] at this
      exact this
    have hmul : t.price * (t.qty : Rat) ≤ frozenPrice * (t.qty : Rat) := mul_le_mul_of_nonneg_right hprice hq0
    simp only [R.ofInt]
    push_cast
    linarith

/-- non-vacuity: two concurrent orders, partial fill of one, cancel of the other -/
example : let s0 : St := ⟨⟨100000, 0, 0, [], 0, 0, 0, []⟩, []⟩
    let s := ([Op.submit 1 1000 10508, .submit 2 500 5254, .fill 1 7 ⟨false, 1, 0, 1, true, 100⟩ 10 true ⟨10.5, 400, .open_, 5⟩, .release 2] : List Op).foldl stepB s0
    s.acct.frozen = 10508 * 600 / 1000 ∧ s.book.length = 1 := by
  decide +kernel


/-! ### whole runs of the composed world (`RQ/Model/World.lean`) -/

/-- **reserved cash is conserved, for whole runs of the whole system**: start from any portfolio without resting orders and without
reserved cash; let the strategy do anything (orders of positive quantity with the pairwise different ids the order-id counter hands out,
cancels, deposits, financing) on any market, over any number of days, with any configuration.  In EVERY state the run reaches, the cash
every account holds in reserve is exactly what its orders still resting in the broker's two books have not yet used or given back —
broker, matcher, cost decider, validators and accounts composed, not an abstract book. -/
theorem world_reserved_cash_is_resting_orders (w : World) (ins : List WIn) (ho : w.openOrders = []) (ha : w.auctionOrders = [])
    (hf : ∀ (k : Nat) (a : Acct), w.pf.accounts[k]? = some a → a.frozen = 0)
    (hi : ∀ i ∈ ins, RQ.Lemmas.WorldC.InputOk i) (hids : (RQ.Lemmas.WorldC.submittedIds ins).Nodup) :
    ∀ (k : Nat) (a : Acct), (w.run ins).1.pf.accounts[k]? = some a → a.frozen = RQ.Lemmas.WorldC.bookReserve (w.run ins).1 k :=
  (RQ.Lemmas.WorldC.run_from_start w ins ho ha hf hi hids).1

/-- … in particular whenever no order rests (after every close), nothing is reserved -/
theorem world_nothing_reserved_without_orders (w : World) (ins : List WIn) (ho : w.openOrders = []) (ha : w.auctionOrders = [])
    (hf : ∀ (k : Nat) (a : Acct), w.pf.accounts[k]? = some a → a.frozen = 0)
    (hi : ∀ i ∈ ins, RQ.Lemmas.WorldC.InputOk i) (hids : (RQ.Lemmas.WorldC.submittedIds ins).Nodup)
    (ho' : (w.run ins).1.openOrders = []) (ha' : (w.run ins).1.auctionOrders = []) :
    ∀ (k : Nat) (a : Acct), (w.run ins).1.pf.accounts[k]? = some a → a.frozen = 0 := by
  obtain ⟨h1, h2⟩ := RQ.Lemmas.WorldC.start_ok w ho ha hf
  have hb : RQ.Lemmas.WorldC.bookIds w = [] := by unfold RQ.Lemmas.WorldC.bookIds; rw [ho, ha]; rfl
  exact RQ.Lemmas.WorldC.no_orders_no_reserve_uniqueIds w ins h2 h1 hi (by rw [hb]; simpa using hids) ho' ha'

/-- the hypothesis on the ids is needed: with two resting orders under ONE id a cancellation releases one reserve and removes both orders
(kernel-checked counterexample; the real system's order ids come from a counter) -/
theorem world_reserve_needs_distinct_ids :
    ¬ ∀ (w : World) (i : WIn), RQ.Lemmas.WorldC.BooksWF w → RQ.Lemmas.WorldC.ReserveInv w → RQ.Lemmas.WorldC.InputOk i →
        RQ.Lemmas.WorldC.ReserveInv (w.step i).1 ∧ RQ.Lemmas.WorldC.BooksWF (w.step i).1 :=
  RQ.Lemmas.WorldC.Counterexample.step_reserveInv_false

end RQ.Props.C09

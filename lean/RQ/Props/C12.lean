/-
C12 — Corporate actions, delisting and expiry never change account value when applied.
The position-level statements are proved in `RQ/Props/C01.lean` (stock corporate actions) and `RQ/Props/C02.lean`
(futures expiry) and restated here under the property's names; share conversion is proved here.
-/
import RQ.Props.C01
import RQ.Props.C02
import Mathlib.Tactic.Linarith
import Mathlib.Tactic.Ring
import Mathlib.Tactic.FieldSimp
import Mathlib.Tactic.SplitIfs
import RQ.Lemmas.WorldL

namespace RQ.Props.C12
open RQ.Q RQ.Props

/-- **split**: quantity × ratio (rounded to whole shares), cost and marked price ÷ ratio; value changes by exactly the
rounding remainder `(q' − q·ρ)·last/ρ` -/
theorem split_neutral (c : InsCfg) (hc : C01.StockCfg c) (p : Pos) (ratio : R) (today : Nat) (fee : Int → R → R)
    (hr : ratio ≠ 0) (hnd : p.divRecv = none) (hq : p.qty ≠ 0) :
    let r := p.beforeTradingStock c { bookDps := none, split := some ratio, today := today } false fee
    r.1.qty = R.decMulRound10 (R.ofInt p.qty) ratio ∧ r.1.avg = p.avg / ratio ∧ r.1.last = p.last / ratio ∧ r.2.1 = 0 ∧
    r.1.equity c = p.equity c + (((R.decMulRound10 (R.ofInt p.qty) ratio : Int) : Rat) - (p.qty : Rat) * ratio) * (p.last / ratio) :=
  C01.bt_split c hc p ratio today fee hr hnd hq

/-- when `q·ρ` is a whole number the split is exactly neutral -/
theorem split_exact_when_whole (c : InsCfg) (hc : C01.StockCfg c) (p : Pos) (ratio : R) (today : Nat) (fee : Int → R → R)
    (hr : ratio ≠ 0) (hnd : p.divRecv = none) (hq : p.qty ≠ 0)
    (hw : ((R.decMulRound10 (R.ofInt p.qty) ratio : Int) : Rat) = (p.qty : Rat) * ratio) :
    (p.beforeTradingStock c { bookDps := none, split := some ratio, today := today } false fee).1.equity c = p.equity c := by
  have h := (split_neutral c hc p ratio today fee hr hnd hq).2.2.2.2
  simp only [hw, sub_self, zero_mul, add_zero] at h
  exact h

/-- **ex-date**: value moves from the marked price into a receivable of exactly record-date quantity × dividend per share -/
theorem ex_date_books_receivable (c : InsCfg) (p : Pos) (dps : R) (pay today : Nat) (fee : Int → R → R) (hpay : pay ≠ today)
    (hq : p.qty ≠ 0) :
    let r := p.beforeTradingStock c { bookDps := some (dps, pay), split := none, today := today } false fee
    r.1.divRecv = some (pay, (p.qty : Rat) * dps) ∧ r.1.last = p.last - dps ∧ r.1.avg = p.avg - dps ∧ r.1.qty = p.qty ∧ r.2.1 = 0 :=
  C01.bt_book_closure c p dps pay today fee hpay hq

/-- **payable date**: the receivable goes to cash in full — also if the shares were sold between record and payable date
(the statement does not mention the quantity) -/
theorem payable_pays_receivable (c : InsCfg) (p : Pos) (value : R) (today : Nat) (fee : Int → R → R) :
    let r := { p with divRecv := some (today, value) }.beforeTradingStock c { bookDps := none, split := none, today := today } false fee
    r.2.1 = value ∧ r.1.divRecv = none ∧ r.1.qty = p.qty :=
  C01.bt_payable c p value today fee

/-- booking and paying are value-neutral (no overlapping dividend windows: finding F21) -/
theorem dividend_steps_neutral (c : InsCfg) (hc : C01.StockCfg c) (p : Pos) (d : CorpDay) (fee : Int → R → R) (hs : d.split = none)
    (hov : d.bookDps = none ∨ p.recv = 0) :
    (p.beforeTradingStock c d false fee).1.equity c + (p.beforeTradingStock c d false fee).2.1 = p.equity c :=
  C01.bt_stock_neutral c hc p d fee hs hov

/-- **delisting payout** at the last price is value-neutral and empties the position -/
theorem delist_payout_neutral (c : InsCfg) (hc : C01.StockCfg c) (p : Pos) :
    (p.settlementStock .payout).1.equity c + (p.settlementStock .payout).2 = p.equity c ∧
    (p.settlementStock .payout).1.qty = 0 :=
  C01.st_payout_neutral c hc p

/-- **futures expiry**: closed at the final settlement price, leaving neither position nor margin; value to cash -/
theorem expiry_neutral (c : InsCfg) (hc : C02.FutCfg c) (p : Pos) (settle : Option R) (hq : p.qty ≠ 0) :
    let r := p.settlementFuture c settle true
    let s := settle.getD p.last
    r.1.qty = 0 ∧ r.1.margin c = 0 ∧ r.1.equity c + r.2.1 = p.equity c + (p.qty : Rat) * (s - p.last) * c.mult * p.dirFactor := by
  intro r s
  obtain ⟨h1, _, h3, h4, h5, _⟩ := C02.expiry_flat c hc p settle hq
  refine ⟨h1, h3, ?_⟩
  show (p.settlementFuture c settle true).1.equity c + (p.settlementFuture c settle true).2.1 = _
  rw [h4, h5, C02.equity_formula c hc p]
  ring

/-! ### Share conversion -/

/-- value of an account for this purpose: cash balance + Σ equity -/
def value (a : Acct) : R := a.totalCash + (a.iterPos.map (fun (c, p) => p.equity c)).sum

/-- common computation for both conversion variants -/
theorem convert_value (a : Acct) (pred succ : Nat) (hne : pred ≠ succ) (pc sc : InsCfg)
    (hpc : C01.StockCfg pc) (hsc : C01.StockCfg sc) (p ps : Pos) (hh : a.holdings = [⟨pred, pc, p, ps⟩])
    (hps : ps.qty = 0 ∧ ps.divRecv = none) (hp : p.divRecv = none) (ratio : R) (hr : ratio ≠ 0) (succQty : Int)
    (hsq : (succQty : Rat) = (p.qty : Rat) * ratio) (cl : R) (rep : Bool) :
    value (a.convert pred succ sc cl ratio succQty rep) =
      value a + ((if rep then p.avg * (p.qty : Rat) else p.last * (p.qty : Rat)) - p.avg * (p.qty : Rat)) := by
  have hne' : (pred == succ) = false := by simpa using hne
  have hne'' : (succ == pred) = false := by simpa using (Ne.symm hne)
  have hsc' : sc.isFuture = false := hsc
  obtain ⟨tc, fr, li, pe, mf, mr, fi, hs⟩ := a
  simp only at hh
  subst hh
  by_cases hq : p.qty = 0
  · simp [Acct.convert, Acct.getPos, Acct.findHolding, hq]
  · simp only [Acct.convert, Acct.getPos, Acct.findHolding, List.find?_cons, beq_self_eq_true, Option.map_some,
      if_true, hq, if_false, Acct.applyTrade, Acct.getOrCreate, hne', hne'', List.find?_nil, List.cons_append,
      List.nil_append, Acct.setPos, List.map_cons, List.map_nil, Bool.false_eq_true, value, Acct.iterPos,
      List.flatMap_cons, List.flatMap_nil, List.append_nil, List.sum_cons, List.sum_nil]
    have hT : Pos.applyTrade sc (Pos.empty true cl)
          { price := p.avg / ratio, qty := succQty, effect := Effect.open_, fee := 0 + 0 } =
        Pos.applyTradeStock sc (Pos.empty true cl)
          { price := p.avg / ratio, qty := succQty, effect := Effect.open_, fee := 0 + 0 } := by
      simp only [Pos.applyTrade, hsc', Bool.false_eq_true, if_false]
    obtain ⟨b1, b2, _, b4, _⟩ := C01.buy_effect sc hsc (Pos.empty true cl)
      { price := p.avg / ratio, qty := succQty, effect := Effect.open_, fee := 0 + 0 } rfl
    rw [hT]
    generalize Pos.applyTradeStock sc (Pos.empty true cl)
      { price := p.avg / ratio, qty := succQty, effect := Effect.open_, fee := 0 + 0 } = T at b1 b2 b4 ⊢
    simp only [Pos.empty, zero_add, add_zero, sub_zero] at b1 b2 b4
    simp only [C01.equity_eq pc hpc, C01.equity_eq sc hsc, Pos.recv, b1, b2, b4, hp, hps.1, hps.2, Pos.empty, R.ofInt,
      Int.cast_zero, zero_add, add_zero, mul_zero, hsq]
    split_ifs <;> field_simp <;> ring

/-- **conversion, repaired variant** (`repaired = true`: the cash the synthetic purchase consumed, `avg·q`, is given back):
the holding becomes `q·ratio` shares of the successor marked at `last/ratio`; value unchanged.
Stated for an account holding the predecessor (long, no receivable) and not yet the successor. -/
theorem conversion_neutral_repaired (a : Acct) (pred succ : Nat) (hne : pred ≠ succ) (pc sc : InsCfg)
    (hpc : C01.StockCfg pc) (hsc : C01.StockCfg sc) (p ps : Pos) (hh : a.holdings = [⟨pred, pc, p, ps⟩])
    (hps : ps.qty = 0 ∧ ps.divRecv = none) (hp : p.divRecv = none) (ratio : R) (hr : ratio ≠ 0) (succQty : Int)
    (hsq : (succQty : Rat) = (p.qty : Rat) * ratio) (cl : R) :
    value (a.convert pred succ sc cl ratio succQty true) = value a := by
  rw [convert_value a pred succ hne pc sc hpc hsc p ps hh hps hp ratio hr succQty hsq cl true]
  simp only [if_true, sub_self, add_zero]

/-- **conversion as coded** (finding F5): the predecessor's MARKET value is added back instead of the consumed `avg·q`,
so value jumps by the unrealised profit `(last − avg)·q` -/
theorem conversion_jumps_present (a : Acct) (pred succ : Nat) (hne : pred ≠ succ) (pc sc : InsCfg)
    (hpc : C01.StockCfg pc) (hsc : C01.StockCfg sc) (p ps : Pos) (hh : a.holdings = [⟨pred, pc, p, ps⟩])
    (hps : ps.qty = 0 ∧ ps.divRecv = none) (hp : p.divRecv = none) (ratio : R) (hr : ratio ≠ 0) (succQty : Int)
    (hsq : (succQty : Rat) = (p.qty : Rat) * ratio) (cl : R) :
    value (a.convert pred succ sc cl ratio succQty false) = value a + (p.last - p.avg) * (p.qty : Rat) := by
  rw [convert_value a pred succ hne pc sc hpc hsc p ps hh hps hp ratio hr succQty hsq cl false]
  simp only [Bool.false_eq_true, if_false]
  ring

/-- non-vacuity / the spike's numbers: 1000 shares bought at 10.5, converted at 11.75 with ratio 2: value jumps by 1250 -/
example : value ((⟨5000, 0, 0, [], 0, 0, 0, [⟨1, ⟨false, 1, 0, 1, true, 100⟩, ⟨true, 1000, 1000, 1000, 10.5, 0, 0, 11.75, 0, none⟩, Pos.empty false 11.75⟩]⟩ : Acct).convert
    1 2 ⟨false, 1, 0, 1, true, 100⟩ 5 2 2000 false) = 5000 + 11750 + 1250 := by
  decide +kernel


/-! ### whole accounts and the composed world (`RQ/Model/World.lean`) -/

/-- **the morning step of a WHOLE account is value-neutral** (any number of holdings): dividends move from the price into the receivable at book
closure and from the receivable into cash on the payable date, due deposits move from "in transit" into cash, empty holdings are purged — the
account's total value is unchanged.  `QuietMorning` excludes what changes value by design (a split's whole-share rounding, a reinvestment's fee,
interest on liabilities) and the overlapping-dividend case of the recorded finding F21 (a new book closure while an earlier dividend is still
receivable overwrites it: `onBeforeTrading_overwrites_receivable` is the kernel-checked witness, 1007 → 1000). -/
theorem account_morning_value_neutral (a : Acct) (i : BTInput) (hq : RQ.Lemmas.WorldL.QuietMorning a i) :
    (a.onBeforeTrading i).totalValue = a.totalValue :=
  RQ.Lemmas.WorldL.onBeforeTrading_value_neutral a i hq

/-- **the settlement step of a WHOLE account is value-neutral**: futures profit moves from the positions into cash and the carrying price is rebased,
expiring contracts are closed at the mark, delisted stock is paid out at the mark.  `QuietEvening` excludes a separate settlement price (a price move),
forfeited holdings, the management fee and forced liquidation. -/
theorem account_settlement_value_neutral (a : Acct) (i : STInput) (hq : RQ.Lemmas.WorldL.QuietEvening a i) :
    (a.onSettlement i).totalValue = a.totalValue :=
  RQ.Lemmas.WorldL.onSettlement_value_neutral a i hq

/-- … and in the composed world the SETTLEMENT step leaves the total value of every such account unchanged -/
theorem world_settlement_value_neutral (w : World) (k : Nat) (a : Acct) (hk : w.pf.accounts[k]? = some a)
    (hq : RQ.Lemmas.WorldL.QuietEvening a w.stInput) :
    ∃ a', (w.step .settlement).1.pf.accounts[k]? = some a' ∧ a'.totalValue = a.totalValue :=
  RQ.Lemmas.WorldL.world_settlement_value_neutral w k a hk hq

/-- the overlapping-dividend witness behind the extra hypothesis (finding F21) -/
theorem account_morning_overlapping_dividends_lose_value :
    ∃ (a : Acct) (i : BTInput), i.reinvest = false ∧ a.liabilities = 0 ∧
      (∀ h ∈ a.holdings, h.cfg.isFuture = false → (i.corp h.ins).split = none) ∧
      a.totalValue = 1007 ∧ (a.onBeforeTrading i).totalValue = 1000 :=
  RQ.Lemmas.WorldL.onBeforeTrading_overwrites_receivable

end RQ.Props.C12

/-
C07 — no look-ahead.  Theorems over the history model (RQ/Model/History.lean) and the view model (RQ/Model/View.lean):
what the history API returns at a moment depends only on bars dated up to the window's end and on factors in effect at the
trading date; before the open the window ends strictly before today; the auction bar carries no close/high/low.
-/
import RQ.Model.View
import RQ.Props.C20
import Mathlib.Tactic.SplitIfs
import Mathlib.Tactic.Linarith
import RQ.Lemmas.WorldB
namespace RQ.Props.C07
open RQ.Q

deriving instance DecidableEq for RQ.Q.Bar

/-! ### helper lemmas -/

open RQ.Lemmas in
theorem sortedBy_of_map {α : Type} (f : α → Nat) (l : List α) (h : (l.map f).Pairwise (· < ·)) : SortedBy f l := by
  unfold SortedBy; exact List.pairwise_map.mp h

theorem map_pairwise_filter {α : Type} (f : α → Nat) (p : α → Bool) (l : List α) (h : (l.map f).Pairwise (· < ·)) :
    ((l.filter p).map f).Pairwise (· < ·) := by
  rw [List.pairwise_map] at *; exact h.filter p

/-- filtering by a stronger predicate first through a weaker one changes nothing -/
theorem filter_through {α : Type} (p q : α → Bool) (l : List α) (hpq : ∀ a, p a = true → q a = true) :
    l.filter p = (l.filter q).filter p := by
  rw [List.filter_filter]; apply List.filter_congr; intro a _
  cases hp : p a with
  | false => simp
  | true => simp [hpq a hp]

theorem agree_mono (b1 b2 : List Bar) (c e : Nat) (hec : e ≤ c) (h : agreeUpTo b1 b2 c) : agreeUpTo b1 b2 e := by
  unfold agreeUpTo at *
  rw [filter_through (fun b : Bar => decide (b.dt ≤ e)) (fun b => decide (b.dt ≤ c)) b1 (by intro a ha; simp at *; omega),
      filter_through (fun b : Bar => decide (b.dt ≤ e)) (fun b => decide (b.dt ≤ c)) b2 (by intro a ha; simp at *; omega), h]

theorem agree_of_lt (b1 b2 : List Bar) (td e : Nat) (hec : e < td)
    (h : b1.filter (fun b => b.dt < td) = b2.filter (fun b => b.dt < td)) : agreeUpTo b1 b2 e := by
  unfold agreeUpTo at *
  rw [filter_through (fun b : Bar => decide (b.dt ≤ e)) (fun b => decide (b.dt < td)) b1 (by intro a ha; simp at *; omega),
      filter_through (fun b : Bar => decide (b.dt ≤ e)) (fun b => decide (b.dt < td)) b2 (by intro a ha; simp at *; omega), h]

theorem facs_mono (f1 f2 : List (Nat × R)) (c e : Nat) (hec : e ≤ c) (h : facsAgreeUpTo f1 f2 c) : facsAgreeUpTo f1 f2 e := by
  unfold facsAgreeUpTo at *
  rw [filter_through (fun r : Nat × R => decide (r.1 ≤ e)) (fun r => decide (r.1 ≤ c)) f1 (by intro a ha; simp at *; omega),
      filter_through (fun r : Nat × R => decide (r.1 ≤ e)) (fun r => decide (r.1 ≤ c)) f2 (by intro a ha; simp at *; omega), h]

open RQ.Lemmas in
/-- with a row starting at or before `d`, `_factor_for_date` is the last row starting at or before `d` -/
theorem factor_eq_last (f : List (Nat × R)) (d : Nat) (hs : (f.map (·.1)).Pairwise (· < ·))
    (hne : f.filter (fun r => r.1 ≤ d) ≠ []) :
    factorForDate f d = ((f.filter (fun r => r.1 ≤ d)).getLast?).map (·.2) := by
  have ht := take_ssRight (·.1) f (sortedBy_of_map _ _ hs) d
  have hle : ssRight (f.map (·.1)) d ≤ f.length := by simpa using ssRight_le_length (f.map (·.1)) d
  unfold factorForDate
  generalize hi : ssRight (f.map (·.1)) d = i at *
  have hlen : (f.filter (fun r => decide (r.1 ≤ d))).length = i := by rw [← ht, List.length_take]; omega
  have hi0 : i ≠ 0 := by
    intro h0; apply hne; apply List.eq_nil_of_length_eq_zero; omega
  simp only [hi0, if_false]
  rw [List.getLast?_eq_getElem?, hlen, ← ht, List.getElem?_take]
  have : i - 1 < i := by omega
  simp [this]

theorem mapM_congr_mem {α β : Type} (f g : α → Option β) : ∀ (l : List α), (∀ a ∈ l, f a = g a) → l.mapM f = l.mapM g
  | [], _ => by simp
  | a :: as, h => by
    have h1 := h a (by simp)
    have h2 := mapM_congr_mem f g as (fun x hx => h x (by simp [hx]))
    simp [List.mapM_cons, h1, h2]

/-- members of a history window are members of the table, dated at or before the end date -/
theorem mem_window (bars : List Bar) (hs : (bars.map (·.dt)).Pairwise (· < ·)) (dt n : Nat) (b : Bar)
    (hb : b ∈ historyWindow bars dt n) : b ∈ bars ∧ b.dt ≤ dt := by
  rw [RQ.Props.C20.window_spec bars (sortedBy_of_map _ _ hs) dt n] at hb
  unfold RQ.Props.C20.lastN at hb
  have := List.mem_of_mem_drop hb
  simpa using List.mem_filter.mp this

/-- entries of a sorted list below the `searchsorted` position are smaller than the probe -/
theorem lt_of_lt_ssLeft : ∀ (l : List Nat), l.Pairwise (· < ·) → ∀ (x i e : Nat), i < ssLeft l x → l[i]? = some e → e < x
  | [], _, x, i, e, hi, _ => by simp [ssLeft] at hi
  | y :: ys, h, x, i, e, hi, he => by
    have hy := List.pairwise_cons.mp h
    by_cases hyx : y < x
    · cases i with
      | zero => simp at he; omega
      | succ j =>
        have hj : j < ssLeft ys x := by
          simp only [ssLeft, List.filter_cons, hyx, decide_true, if_true, List.length_cons] at hi ⊢; omega
        exact lt_of_lt_ssLeft ys hy.2 x j e hj (by simpa using he)
    · have hnil : ys.filter (fun z => decide (z < x)) = [] :=
        List.filter_eq_nil_iff.mpr (by intro z hz; have := hy.1 z hz; simp; omega)
      simp [ssLeft, hyx, hnil] at hi

theorem prev_lt (cal : List Nat) (hc : cal.Pairwise (· < ·)) (td e : Nat) (hprev : ∃ c ∈ cal, c < td)
    (h : prevTradingDate cal td 1 = some e) : e < td := by
  obtain ⟨c, hcm, hct⟩ := hprev
  have hpos : 1 ≤ ssLeft cal td := by
    unfold ssLeft
    have : c ∈ cal.filter (fun z => decide (z < td)) := List.mem_filter.mpr ⟨hcm, by simpa using hct⟩
    exact List.length_pos_of_mem this
  unfold prevTradingDate at h
  simp only [ge_iff_le, hpos, if_true] at h
  exact lt_of_lt_ssLeft cal hc td (ssLeft cal td - 1) e (by omega) h

theorem prev_le (cal : List Nat) (hc : cal.Pairwise (· < ·)) (td e : Nat) (hprev : ∃ c ∈ cal, c ≤ td)
    (h : prevTradingDate cal td 1 = some e) : e ≤ td := by
  by_cases hpos : 1 ≤ ssLeft cal td
  · unfold prevTradingDate at h
    simp only [ge_iff_le, hpos, if_true] at h
    exact Nat.le_of_lt (lt_of_lt_ssLeft cal hc td (ssLeft cal td - 1) e (by omega) h)
  · unfold prevTradingDate at h
    simp only [ge_iff_le, hpos, if_false] at h
    obtain ⟨c, hcm, hct⟩ := hprev
    cases cal with
    | nil => simp at hcm
    | cons y ys =>
      simp at h; subst h
      have hy := List.pairwise_cons.mp hc
      rcases List.mem_cons.mp hcm with rfl | hin
      · exact hct
      · have := hy.1 c hin; omega

/-! ### history windows ignore later bars -/

/-- the window selected for end date `dt` is a function of the bars dated ≤ dt (for strictly increasing bar tables) -/
theorem window_ignores_future (b1 b2 : List Bar) (dt n : Nat)
    (h1 : (b1.map (·.dt)).Pairwise (· < ·)) (h2 : (b2.map (·.dt)).Pairwise (· < ·)) (h : agreeUpTo b1 b2 dt) :
    historyWindow b1 dt n = historyWindow b2 dt n := by
  rw [RQ.Props.C20.window_spec b1 (sortedBy_of_map _ _ h1) dt n, RQ.Props.C20.window_spec b2 (sortedBy_of_map _ _ h2) dt n]
  unfold agreeUpTo at h
  rw [h]

/-- … also after dropping zero-volume (suspended) days -/
theorem filtered_agree (b1 b2 : List Bar) (dt : Nat) (h : agreeUpTo b1 b2 dt) : agreeUpTo (filteredBars b1) (filteredBars b2) dt := by
  unfold agreeUpTo filteredBars at *
  have e : ∀ l : List Bar, (l.filter (fun b => decide (b.volume > 0))).filter (fun b => decide (b.dt ≤ dt))
      = (l.filter (fun b => decide (b.dt ≤ dt))).filter (fun b => decide (b.volume > 0)) := by
    intro l; rw [List.filter_filter, List.filter_filter]; apply List.filter_congr; intro x _; exact Bool.and_comm _ _
  rw [e, e, h]

/-- the factor in effect at a date `d ≤ cut` is a function of the factor rows starting ≤ cut, provided some row starts at or before `d`
(real tables start with a row at date 0; without it `_factor_for_date` wraps around to the LAST row — see `factor_wraps_without_first_row`) -/
theorem factor_ignores_future (f1 f2 : List (Nat × R)) (d cut : Nat) (hd : d ≤ cut)
    (h1 : (f1.map (·.1)).Pairwise (· < ·)) (h2 : (f2.map (·.1)).Pairwise (· < ·))
    (h : facsAgreeUpTo f1 f2 cut) (hfirst : ∃ r ∈ f1, r.1 ≤ d) :
    factorForDate f1 d = factorForDate f2 d := by
  have hfd := facs_mono f1 f2 cut d hd h
  unfold facsAgreeUpTo at hfd
  obtain ⟨r, hr, hrd⟩ := hfirst
  have hne1 : f1.filter (fun r => decide (r.1 ≤ d)) ≠ [] := by
    intro hnil
    have : r ∈ f1.filter (fun r => decide (r.1 ≤ d)) := List.mem_filter.mpr ⟨hr, by simpa using hrd⟩
    rw [hnil] at this; simp at this
  have hne2 : f2.filter (fun r => decide (r.1 ≤ d)) ≠ [] := by rw [← hfd]; exact hne1
  rw [factor_eq_last f1 d h1 hne1, factor_eq_last f2 d h2 hne2, hfd]

/-- without a row starting at or before the date the look-up returns the table's last row: a factor from the future -/
example : factorForDate [(20200110, 2), (20200301, 4)] 20200105 = some 4 := by decide +kernel

/-- adjustment of a window relative to `orig` ignores factor rows that start after `orig` (all bars dated ≤ orig) -/
theorem adjust_ignores_future (w : List Bar) (f1 f2 : List (Nat × R)) (t : AdjustType) (orig : Nat)
    (hw : ∀ b ∈ w, b.dt ≤ orig) (h1 : (f1.map (·.1)).Pairwise (· < ·)) (h2 : (f2.map (·.1)).Pairwise (· < ·))
    (h : facsAgreeUpTo f1 f2 orig) (hfirst : ∀ b ∈ w, ∃ r ∈ f1, r.1 ≤ b.dt) :
    adjustBars w f1 t orig = adjustBars w f2 t orig := by
  cases w with
  | nil => rfl
  | cons first rest =>
    have key : ∀ x, x ≤ orig → (∃ r ∈ f1, r.1 ≤ x) → factorForDate f1 x = factorForDate f2 x :=
      fun x hx hex => factor_ignores_future f1 f2 x orig hx h1 h2 h hex
    have hfm : first ∈ first :: rest := by simp
    have ho : factorForDate f1 orig = factorForDate f2 orig := by
      obtain ⟨r, hr, hrd⟩ := hfirst first hfm
      exact key orig (Nat.le_refl _) ⟨r, hr, Nat.le_trans hrd (hw first hfm)⟩
    have hm : ∀ b ∈ first :: rest, factorForDate f1 b.dt = factorForDate f2 b.dt :=
      fun b hb => key b.dt (hw b hb) (hfirst b hb)
    have hfl : (first :: rest).mapM (fun b => factorForDate f1 b.dt) = (first :: rest).mapM (fun b => factorForDate f2 b.dt) := by
      apply mapM_congr_mem; intro b hb; exact hm b hb
    have hmap : ∀ base : R, (first :: rest).mapM (fun b => (factorForDate f1 b.dt).map (fun f => scaleBar b (f / base)))
        = (first :: rest).mapM (fun b => (factorForDate f2 b.dt).map (fun f => scaleBar b (f / base))) := by
      intro base; apply mapM_congr_mem; intro b hb; rw [hm b hb]
    simp only [adjustBars]
    rw [ho, hfl]
    simp only [hmap]

/-- the tail of `historyBars` after the source table has been chosen -/
theorem history_core (s1 s2 : List Bar) (f1 f2 : List (Nat × R)) (n dt orig : Nat) (t : AdjustType)
    (hdo : dt ≤ orig)
    (hs1 : (s1.map (·.dt)).Pairwise (· < ·)) (hs2 : (s2.map (·.dt)).Pairwise (· < ·)) (hb : agreeUpTo s1 s2 dt)
    (hf1 : (f1.map (·.1)).Pairwise (· < ·)) (hf2 : (f2.map (·.1)).Pairwise (· < ·)) (hf : facsAgreeUpTo f1 f2 orig)
    (hfirst : ∀ b ∈ s1, ∃ r ∈ f1, r.1 ≤ b.dt) :
    (if s1.isEmpty then some s1 else
      if (t == AdjustType.none || false) then some (historyWindow s1 dt n)
      else adjustBars (historyWindow s1 dt n) f1 t orig)
    = (if s2.isEmpty then some s2 else
      if (t == AdjustType.none || false) then some (historyWindow s2 dt n)
      else adjustBars (historyWindow s2 dt n) f2 t orig) := by
  have hwin := window_ignores_future s1 s2 dt n hs1 hs2 hb
  have hadj : adjustBars (historyWindow s1 dt n) f1 t orig = adjustBars (historyWindow s2 dt n) f2 t orig := by
    rw [← hwin]
    apply adjust_ignores_future _ f1 f2 t orig _ hf1 hf2 hf
    · intro b hbm; exact hfirst b (mem_window s1 hs1 dt n b hbm).1
    · intro b hbm; exact Nat.le_trans (mem_window s1 hs1 dt n b hbm).2 hdo
  have hnilw : historyWindow ([] : List Bar) dt n = [] := by simp [historyWindow, pySlice]
  cases s1 with
  | nil =>
    cases s2 with
    | nil => rfl
    | cons y ys =>
      rw [hnilw] at hwin hadj
      simp only [List.isEmpty_nil, List.isEmpty_cons, if_true, Bool.false_eq_true, if_false]
      rw [← hadj, ← hwin]
      split_ifs <;> rfl
  | cons x xs =>
    cases s2 with
    | nil =>
      rw [hnilw] at hwin hadj
      simp only [List.isEmpty_nil, List.isEmpty_cons, if_true, Bool.false_eq_true, if_false]
      rw [hadj, hwin]
      split_ifs <;> rfl
    | cons y ys =>
      simp only [List.isEmpty_cons, Bool.false_eq_true, if_false]
      rw [hadj, hwin]

/-- C07 (history): two market histories that agree up to the window's end date (bars) and up to the trading date (factors) give the
same answer, for every window length, suspension flag and adjustment type -/
theorem history_ignores_future (b1 b2 : List Bar) (isCS : Bool) (f1 f2 : List (Nat × R)) (n dt orig : Nat) (skip : Bool) (t : AdjustType)
    (hdo : dt ≤ orig)
    (hb1 : (b1.map (·.dt)).Pairwise (· < ·)) (hb2 : (b2.map (·.dt)).Pairwise (· < ·)) (hb : agreeUpTo b1 b2 dt)
    (hf1 : (f1.map (·.1)).Pairwise (· < ·)) (hf2 : (f2.map (·.1)).Pairwise (· < ·)) (hf : facsAgreeUpTo f1 f2 orig)
    (hfirst : ∀ b ∈ b1, ∃ r ∈ f1, r.1 ≤ b.dt) :
    historyBars b1 isCS false (some f1) n dt skip t orig = historyBars b2 isCS false (some f2) n dt skip t orig := by
  unfold historyBars
  by_cases hsk : (skip && isCS) = true
  · simp only [hsk, if_true]
    exact history_core (filteredBars b1) (filteredBars b2) f1 f2 n dt orig t hdo
      (map_pairwise_filter _ _ _ hb1) (map_pairwise_filter _ _ _ hb2) (filtered_agree b1 b2 dt hb) hf1 hf2 hf
      (fun b hbm => hfirst b (List.mem_filter.mp hbm).1)
  · simp only [hsk]
    exact history_core b1 b2 f1 f2 n dt orig t hdo hb1 hb2 hb hf1 hf2 hf hfirst

/-! ### before the open the window ends before today -/

/-- the phases in which the CURRENT source ends the window at the previous trading day include both phases before the open -/
theorem source_prev_day_phases : RQ.Gen.historyPrevDayPhases.contains "BEFORE_TRADING" = true ∧ RQ.Gen.historyPrevDayPhases.contains "OPEN_AUCTION" = true := by
  decide

/-- before the open the end date is a trading day strictly before today — provided the calendar has a day before today (`hprev`,
added: `get_previous_trading_date` clamps to the calendar's FIRST day, so on/before that day the "previous" day is today or later:
`apiEndDate [5] true 5 5 = some 5`) -/
theorem api_end_before_today (cal : List Nat) (hc : cal.Pairwise (· < ·)) (td e : Nat) (hprev : ∃ c ∈ cal, c < td)
    (h : apiEndDate cal true td td = some e) : e < td := by
  unfold apiEndDate at h
  simp only [if_true] at h
  exact prev_lt cal hc td e hprev h

/-- C07 (before the open): in before_trading and open_auction the history API's answer does not depend on today's bar or any later one:
histories that agree on all bars dated before today (and on the factors in effect today) give the same answer
(`hprev` added: the calendar has a day before today; without it the end date clamps to the calendar's first day ≥ today) -/
theorem api_history_before_open_ignores_today (cal : List Nat) (hc : cal.Pairwise (· < ·)) (b1 b2 : List Bar) (isCS : Bool)
    (f1 f2 : List (Nat × R)) (phase : String) (hp : phase = "BEFORE_TRADING" ∨ phase = "OPEN_AUCTION") (td n : Nat) (skip : Bool) (t : AdjustType)
    (hb1 : (b1.map (·.dt)).Pairwise (· < ·)) (hb2 : (b2.map (·.dt)).Pairwise (· < ·))
    (hb : b1.filter (fun b => b.dt < td) = b2.filter (fun b => b.dt < td))
    (hf1 : (f1.map (·.1)).Pairwise (· < ·)) (hf2 : (f2.map (·.1)).Pairwise (· < ·)) (hf : facsAgreeUpTo f1 f2 td)
    (hfirst : ∀ b ∈ b1, ∃ r ∈ f1, r.1 ≤ b.dt) (hprev : ∃ c ∈ cal, c < td) :
    apiHistory cal b1 isCS (some f1) phase td n skip t = apiHistory cal b2 isCS (some f2) phase td n skip t := by
  have hph : RQ.Gen.historyPrevDayPhases.contains phase = true := by
    rcases hp with rfl | rfl
    · exact source_prev_day_phases.1
    · exact source_prev_day_phases.2
  unfold apiHistory
  rw [hph]
  cases he : apiEndDate cal true td td with
  | none => rfl
  | some e =>
    have hlt := api_end_before_today cal hc td e hprev he
    simp only [apiAdjustOrig]
    exact history_ignores_future b1 b2 isCS f1 f2 n e td skip t (Nat.le_of_lt hlt) hb1 hb2
      (agree_of_lt b1 b2 td e hlt hb) hf1 hf2 hf hfirst

/-- … and in the other phases it depends on bars up to today only (`hcal0` added: in the previous-day phases the calendar has a day
at or before today; without it the end date clamps to the calendar's first day, which may lie after today) -/
theorem api_history_ignores_tomorrow (cal : List Nat) (b1 b2 : List Bar) (isCS : Bool)
    (f1 f2 : List (Nat × R)) (phase : String) (td n : Nat) (skip : Bool) (t : AdjustType)
    (hb1 : (b1.map (·.dt)).Pairwise (· < ·)) (hb2 : (b2.map (·.dt)).Pairwise (· < ·)) (hb : agreeUpTo b1 b2 td)
    (hf1 : (f1.map (·.1)).Pairwise (· < ·)) (hf2 : (f2.map (·.1)).Pairwise (· < ·)) (hf : facsAgreeUpTo f1 f2 td)
    (hfirst : ∀ b ∈ b1, ∃ r ∈ f1, r.1 ≤ b.dt) (hcal : RQ.Gen.historyPrevDayPhases.contains phase = true → cal.Pairwise (· < ·))
    (hcal0 : RQ.Gen.historyPrevDayPhases.contains phase = true → ∃ c ∈ cal, c ≤ td) :
    apiHistory cal b1 isCS (some f1) phase td n skip t = apiHistory cal b2 isCS (some f2) phase td n skip t := by
  unfold apiHistory
  cases hph : RQ.Gen.historyPrevDayPhases.contains phase with
  | true =>
    cases he : apiEndDate cal true td td with
    | none => rfl
    | some e =>
      have hle : e ≤ td := by
        unfold apiEndDate at he
        simp only [if_true] at he
        exact prev_le cal (hcal hph) td e (hcal0 hph) he
      simp only [apiAdjustOrig]
      exact history_ignores_future b1 b2 isCS f1 f2 n e td skip t hle hb1 hb2
        (agree_mono b1 b2 td e hle hb) hf1 hf2 hf hfirst
  | false =>
    simp only [apiEndDate, Bool.false_eq_true, if_false, apiAdjustOrig]
    exact history_ignores_future b1 b2 isCS f1 f2 n td td skip t (Nat.le_refl _) hb1 hb2 hb hf1 hf2 hf hfirst

/-! ### the auction bar -/

/-- the fields the CURRENT source copies into the auction bar are within {open, limits, volume, turnover}: no close, high or low -/
theorem source_auction_fields_safe :
    ∀ f ∈ srcAuctionFields, f ∈ ["datetime", "open", "limit_up", "limit_down", "volume", "total_turnover"] := by
  decide

/-- C07 (auction): two day bars with the same open, limits, volume and turnover give the same auction bar — whatever their close, high, low -/
theorem auction_bar_hides_rest (a b : Bar) (h : Bar.sameAtOpen a b) : auctionBar srcAuctionFields a = auctionBar srcAuctionFields b := by
  obtain ⟨_, ho, hu, hd, hv, ht⟩ := h
  have hfields : srcAuctionFields = ["datetime", "open", "limit_up", "limit_down", "volume", "total_turnover"] := by decide
  rw [hfields]
  have hfil : (["datetime", "open", "limit_up", "limit_down", "volume", "total_turnover"].filter (· != "datetime"))
      = ["open", "limit_up", "limit_down", "volume", "total_turnover"] := by decide
  unfold auctionBar
  rw [hfil]
  simp [Bar.field, ho, hu, hd, hv, ht]

/-- non-vacuity / what a lapse looks like: with "close" in the field list the close is visible -/
example : let a : Bar := ⟨20200106, 10, 11, 12, 9, 1000, 10500, 11, 9⟩
          let b : Bar := ⟨20200106, 10, 9.5, 10, 9, 1000, 10500, 11, 9⟩
          auctionBar srcAuctionFields a = auctionBar srcAuctionFields b ∧ auctionBar ["open", "close"] a ≠ auctionBar ["open", "close"] b := by
  decide +kernel


/-! ### whole runs of the composed world (`RQ/Model/World.lean`) -/

/-- **no look-ahead in the trading core**: the composed world receives the market table of a day with that day's first event and
nothing earlier.  Whatever follows a prefix of the inputs — later calls, later days, later market tables — the state after the prefix
and everything published during it are the same: the past of a run is a function of the past of its inputs.  (The correspondence
check shows that the real system, which has the whole bundle at hand, behaves on every day exactly like this function.) -/
theorem world_past_independent_of_future (w : World) (past future future' : List WIn) :
    (w.run (past ++ future)).2.take ((w.run past).2.length) = (w.run past).2 ∧
    (w.run (past ++ future')).2.take ((w.run past).2.length) = (w.run (past ++ future)).2.take ((w.run past).2.length) := by
  rw [RQ.Lemmas.WorldB.run_append, RQ.Lemmas.WorldB.run_append]
  simp


/-- **no fill from a bar that has not happened (repaired, finding F43)**: at daily frequency, while the clock is still at 00:00 — before_trading,
the opening auction and every handler that runs then — the matcher does nothing to an order that is not matched as an auction order: it rests
until the bar.  (The unrepaired matcher filled such orders at the coming day's close.) -/
theorem no_match_before_the_open (cfg : MCfg) (ic : InsCfg) (o : Ord) (b : MBar) (tv : Int) (cash : R) (fee : Int → R → R) (ct : Int → Int) :
    matchOrderAt true cfg ic o b false tv cash fee ct = .rest := by
  simp [matchOrderAt]

/-- … and inside the composed world: before the bar of a daily run a matcher call on a non-auction order changes nothing and publishes nothing -/
theorem world_no_trade_before_the_open (w : World) (o : Ord) (hd : w.cfg.daily = true)
    (hp : w.phase = .before ∨ w.phase = .auction) :
    w.matchOne false o = (w, o, []) := by
  unfold World.matchOne
  split
  · rfl
  · rcases hp with hp | hp <;> simp [hd, hp]

end RQ.Props.C07

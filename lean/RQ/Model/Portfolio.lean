/-
Model of rqalpha/portfolio/__init__.py (Portfolio): units, unit net value, returns, deposits/withdrawals.
-/
import RQ.Num.Q
import RQ.Model.Account
namespace RQ.Q

structure Pf where
  accounts : List Acct          -- in the order of the accounts dict
  units : R
  staticNav : R                 -- `_static_unit_net_value`

/-- `total_value` -/
def Pf.totalValue (p : Pf) : R := R.pysum (p.accounts.map (·.totalValue))
/-- `unit_net_value` (`none` = NaN when there are no units) -/
def Pf.nav (p : Pf) : Option R := if p.units == 0 then none else some (p.totalValue / p.units)
/-- `daily_returns` -/
def Pf.dailyReturns (p : Pf) : Option R := if p.staticNav == 0 then none else p.nav.map (fun n => n / p.staticNav - 1)
/-- `total_returns` -/
def Pf.totalReturns (p : Pf) : Option R := p.nav.map (fun n => n - 1)

/-- `_pre_before_trading`: latch yesterday's closing net value (prepended: runs before the accounts' listeners) -/
def Pf.preBeforeTrading (p : Pf) : Pf :=
  match p.nav with
  | some n => { p with staticNav := n }
  | none => p

/-- `deposit_withdraw(account k, amount, receiving date)`: the unit net value is read first, the account books the
flow, then `units := total_value / unit_net_value`.  `none` = the account refused (insufficient cash), no units, or a unit net value of 0. -/
def Pf.depositWithdraw (p : Pf) (k : Nat) (amount : R) (recv : Option Nat) : Option Pf :=
  match p.nav, p.accounts[k]? with
  | some n, some a =>
    if n == 0 then none else       -- refused before anything is booked (after a wipe-out there is no unit price)
    match a.depositWithdraw amount recv with
    | some a' =>
      let p' := { p with accounts := p.accounts.set k a' }
      some { p' with units := p'.totalValue / n }
    | none => none
  | _, _ => none

/-- `finance_repay` on account k: units untouched -/
def Pf.financeRepay (p : Pf) (k : Nat) (amount : R) : Pf :=
  match p.accounts[k]? with
  | some a => { p with accounts := p.accounts.set k (a.financeRepay amount) }
  | none => p

end RQ.Q

/-
Model of rqalpha/core/executor.py (Executor.run, _ensure_before_trading, _split_and_publish) and of
rqalpha/mod/rqalpha_mod_sys_simulation/simulation_event_source.py (frequencies '1d' and '1m').
Clock values are absolute minutes: `dayOrdinal * 1440 + minuteOfDay`.
-/
import RQ.Num.Q
import RQ.Model.Calendar
namespace RQ.Q

inductive EvKind | bt | auc | bar | at_ | st
deriving DecidableEq, Repr

inductive Part | pre | main | post
deriving DecidableEq, Repr

/-- event yielded by the event source -/
structure Src where
  kind : EvKind
  cal : Nat
  trd : Nat
deriving DecidableEq, Repr

/-- event published on the bus, with the environment clocks at publication -/
structure Pub where
  kind : EvKind
  part : Part
  cal : Nat
  trd : Nat
deriving DecidableEq, Repr

def dayOf (t : Nat) : Nat := t / 1440
def minuteOf (t : Nat) : Nat := t % 1440
def mkTime (day minute : Nat) : Nat := day * 1440 + minute

/-! ### event source -/

/-- frequency '1d': four events per trading day (bar at 15:00, after_trading at 15:30) -/
def sourceDay1d (d : Nat) : List Src :=
  [⟨.bt, mkTime d 0, mkTime d 0⟩, ⟨.auc, mkTime d 0, mkTime d 0⟩, ⟨.bar, mkTime d 900, mkTime d 900⟩,
   ⟨.at_, mkTime d 930, mkTime d 930⟩]

def source1d (days : List Nat) : List Src := days.flatMap sourceDay1d

/-- One pass of `for calendar_dt in trading_minutes` of the '1m' loop (day-session minutes, `calendar_dt = trading_dt`).
`script e` says whether handling the yielded event `e` sets `_universe_changed`.
Returns (events yielded, `some last_dt` if the pass broke off for a restart, before_trading_flag, _universe_changed). -/
def pass1m (day : Nat) (script : Src → Bool) : List Nat → Option Nat → Bool → Bool → List Src × Option Nat × Bool × Bool
  | [], _, bt, chg => ([], none, bt, chg)
  | m :: rest, last, bt, chg =>
    if (match last with | some l => decide (m < l) | none => false) then pass1m day script rest last bt chg
    else
      let eBT : Src := ⟨.bt, mkTime day m - 30, mkTime day m - 30⟩
      let eAUC : Src := ⟨.auc, mkTime day m - 3, mkTime day m - 3⟩
      let evs0 := if bt then [eBT, eAUC] else []
      let chg1 := if bt then (chg || script eBT) || script eAUC else chg
      if chg1 then (evs0, some m, false, false)
      else
        let eBar : Src := ⟨.bar, mkTime day m, mkTime day m⟩
        let r := pass1m day script rest last false (script eBar)
        (evs0 ++ eBar :: r.1, r.2.1, r.2.2.1, r.2.2.2)

/-- the `while True` loop of one day: passes until one runs to the end of the minute list -/
def loop1m (day : Nat) (script : Src → Bool) (mins : List Nat) : Nat → Option Nat → Bool → Bool → List Src × Bool
  | 0, _, _, chg => ([], chg)
  | fuel + 1, last, bt, chg =>
    let r := pass1m day script mins last bt chg
    match r.2.1 with
    | none => (r.1, r.2.2.2)
    | some l =>
      let r2 := loop1m day script mins fuel (some l) r.2.2.1 r.2.2.2
      (r.1 ++ r2.1, r2.2)

/-- one day of frequency '1m' followed by AFTER_TRADING at 15:30; returns the events and `_universe_changed` carried over -/
def sourceDay1m (script : Src → Bool) (mins : List Nat) (day : Nat) (chg : Bool) : List Src × Bool :=
  let r := loop1m day script mins (mins.length + 2) none true chg
  let eAT : Src := ⟨.at_, mkTime day 930, mkTime day 930⟩
  (r.1 ++ [eAT], r.2 || script eAT)

def source1m (script : Src → Bool) (mins : List Nat) : List Nat → Bool → List Src
  | [], _ => []
  | d :: ds, chg =>
    let r := sourceDay1m script mins d chg
    r.1 ++ source1m script mins ds r.2

/-! ### executor -/

structure ExecState where
  lastBT : Option Nat        -- `_last_before_trading` (day ordinal)
  envCal : Nat               -- `env.calendar_dt`
  envTrd : Nat               -- `env.trading_dt`

/-- `_split_and_publish` of an event carrying clocks: update the environment time, publish PRE/main/POST -/
def splitPublish (s : ExecState) (k : EvKind) (clock : Option (Nat × Nat)) : ExecState × List Pub :=
  let s' := match clock with
    | some (c, t) => { s with envCal := c, envTrd := t }
    | none => s
  (s', [⟨k, .pre, s'.envCal, s'.envTrd⟩, ⟨k, .main, s'.envCal, s'.envTrd⟩, ⟨k, .post, s'.envCal, s'.envTrd⟩])

/-- `_ensure_before_trading`: (state, published, True if before_trading did not run now) -/
def ensureBT (cal : List Nat) (s : ExecState) (e : Src) : ExecState × List Pub × Bool :=
  if s.lastBT = some (dayOf e.trd) then (s, [], true)
  else
    let (s1, settle) := match s.lastBT with
      | some _ =>
        -- settlement of the previous trading day; clocks moved back only if the env date is not that day
        let prev := (prevTradingDate cal (dayOf e.trd) 1).getD (dayOf e.trd)
        let s0 := if dayOf s.envTrd ≠ prev then
            { s with envCal := mkTime prev (minuteOf s.envCal), envTrd := mkTime prev (minuteOf s.envTrd) } else s
        splitPublish s0 .st none
      | none => (s, [])
    let s2 := { s1 with lastBT := some (dayOf e.trd) }
    let (s3, btp) := splitPublish s2 .bt (some (e.cal, e.trd))
    (s3, settle ++ btp, false)

/-- one iteration of `Executor.run` -/
def execStep (cal : List Nat) (s : ExecState) (e : Src) : ExecState × List Pub :=
  match e.kind with
  | .bt => let r := ensureBT cal s e; (r.1, r.2.1)
  | .auc | .bar =>
    let r := ensureBT cal s e
    if r.2.2 then let p := splitPublish r.1 e.kind (some (e.cal, e.trd)); (p.1, r.2.1 ++ p.2) else (r.1, r.2.1)
  | .at_ => splitPublish s .at_ (some (e.cal, e.trd))
  | .st => splitPublish s .st (some (e.cal, e.trd))

def execFrom (cal : List Nat) (s : ExecState) : List Src → ExecState × List Pub
  | [] => (s, [])
  | e :: es =>
    let r1 := execStep cal s e
    let r2 := execFrom cal r1.1 es
    (r2.1, r1.2 ++ r2.2)

/-- whole `Executor.run`: the events, then the final settlement if the trading clock is on `end_date` -/
def execRun (cal : List Nat) (startDay endDay : Nat) (src : List Src) : List Pub :=
  let s0 : ExecState := { lastBT := none, envCal := mkTime startDay 0, envTrd := mkTime startDay 0 }
  let r := execFrom cal s0 src
  r.2 ++ (if dayOf r.1.envTrd = endDay then (splitPublish r.1 .st none).2 else [])

/-- `_adjust_start_date`: clip the configured range to the available data and snap to trading days; `none` = no data -/
def adjustRange (cal : List Nat) (dataStart dataEnd start end_ : Nat) : Option (Nat × Nat) :=
  let s := max dataStart start
  let e := min dataEnd end_
  let days := getTradingDates cal s e
  match days.head?, days.getLast? with
  | some a, some b => some (a, b)
  | _, _ => none

end RQ.Q

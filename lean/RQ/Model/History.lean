/-
Model of BaseDataSource.history_bars (frequency '1d'), adjust_bars (rqalpha/data/base_data_source/adjust.py)
and the end-date rule of the `history_bars` API (rqalpha/apis/api_base.py).
-/
import RQ.Num.Q
import RQ.Model.Calendar
namespace RQ.Q

structure Bar where
  dt : Nat
  openP : R
  closeP : R
  highP : R
  lowP : R
  volume : R
  turnover : R
  limitUp : R
  limitDown : R

/-- `_filtered_day_bars`: `bars[bars['volume'] > 0]` -/
def filteredBars (bars : List Bar) : List Bar := bars.filter (fun b => b.volume > 0)

/-- window selection of `history_bars` ('1d'): `i = searchsorted(dt, 'right')`, `left = i - n if i >= n else 0`, `bars[left:i]` -/
def historyWindow (bars : List Bar) (dt : Nat) (n : Nat) : List Bar :=
  let i := ssRight (bars.map (·.dt)) dt
  let left := if i ≥ n then i - n else 0
  pySlice bars left i

/-- `_factor_for_date`: `factors[bisect_right(dates, d) - 1]`; index −1 (no row starts at or before `d`) is Python's
last element -/
def factorForDate (facs : List (Nat × R)) (d : Nat) : Option R :=
  let pos := ssRight (facs.map (·.1)) d
  if pos = 0 then (facs.getLast?).map (·.2) else (facs[pos - 1]?).map (·.2)

inductive AdjustType | pre | post | none
deriving DecidableEq, Repr

/-- scale one bar by factor `f`: price fields `*= f`, volume `*= 1 / f` (total_turnover untouched) -/
def scaleBar (b : Bar) (f : R) : Bar :=
  { b with openP := b.openP * f, closeP := b.closeP * f, highP := b.highP * f, lowP := b.lowP * f,
           limitUp := b.limitUp * f, limitDown := b.limitDown * f, volume := b.volume * (1 / f) }

/-- `adjust_bars(bars, ex_factors, fields=None, adjust_type, adjust_orig)`; `none` models an exception
(empty factor table).  The window comes back unchanged when EVERY bar's factor equals the base factor (repaired, finding F15:
the code used to look at the first and the last bar only). -/
def adjustBars (bars : List Bar) (facs : List (Nat × R)) (t : AdjustType) (orig : Nat) : Option (List Bar) :=
  match bars with
  | [] => some bars
  | _ :: _ =>
    let base? : Option R := match t with
      | .pre => factorForDate facs orig
      | _ => some 1
    match base?, bars.mapM (fun b => factorForDate facs b.dt) with
    | some base, some fl =>
      if fl.all (fun f => f == base) then some bars
      else
        bars.mapM (fun b => (factorForDate facs b.dt).map (fun f => scaleBar b (f / base)))
    | _, _ => none

/-- data-source level `history_bars` for frequency '1d' with all fields -/
def historyBars (bars : List Bar) (isCS : Bool) (noAdjustType : Bool) (facs : Option (List (Nat × R)))
    (n : Nat) (dt : Nat) (skipSuspended : Bool) (t : AdjustType) (orig : Nat) : Option (List Bar) :=
  let src := if skipSuspended && isCS then filteredBars bars else bars
  if src.isEmpty then some src else
  let w := historyWindow src dt n
  if t == AdjustType.none || noAdjustType then some w
  else match facs with
    | none => some w
    | some fs => adjustBars w fs t orig

/-- end date of the `history_bars` API for frequency '1d' in a daily back-test: the previous trading date
before the open (before_trading, open_auction), the calendar date otherwise -/
def apiEndDate (cal : List Nat) (beforeOpen : Bool) (tradingDate calendarDate : Nat) : Option Nat :=
  if beforeOpen then prevTradingDate cal tradingDate 1 else some calendarDate

/-- the API passes `adjust_orig = env.trading_dt`: prices are adjusted relative to the current trading date in
every phase (also before the open, when the window ends at the previous trading day) -/
def apiAdjustOrig (tradingDate : Nat) : Nat := tradingDate

end RQ.Q

/-
Signal mode inside the free-running world (`sys_simulation.signal = True`): `SignalBroker` keeps no book and has no volume or cash
check — an order that passes the front-end validators is decided at once: rejected when there is no valid last price or (with
price_limit) the deal price is at the adverse limit, otherwise filled completely at its own limit price / the last price moved by
the slippage model.  Everything else of the world (accounts, deciders, validators, day events) is `World.lean` unchanged.
-/
import RQ.Num.Q
import RQ.Model.World
namespace RQ.Q

/-- `SignalBroker.submit_order` after the validators passed: ORDER_PENDING_NEW (the account reserves), ORDER_CREATION_PASS, `_match` -/
def World.signalAccepted (w : World) (wi : WIns) (d : DayIns) (k : Nat) (o : OrderReq) (frozenPrice : R) : World × List WEv :=
  let init := frozenCashOfOrder wi.cfg frozenPrice o.qty (o.effect == .open_) (w.orderCost wi o.isBuy o.effect frozenPrice o.qty)
  let w1 := w.apply k (.pendingNew init)
  let ord : Ord := { id := o.id, ins := o.ins, isBuy := o.isBuy, isLimit := o.isLimit, limitPrice := o.price, effect := o.effect,
                     qty := o.qty, filled := 0, status := .active, avg := 0, cost := 0, frozenPrice := frozenPrice, initFrozen := init }
  let b0 := if w1.phase == .auction then d.auc else d.bar
  let b : MBar := { b0 with deal := w1.lastPrice o.ins }
  let isLong := ordIsLong o.isBuy o.effect
  let createLast : R := match w1.lastPrice o.ins with | some p => p | none => 0
  -- the close-today quantity is read from the position `calc_close_today_amount` finds or creates
  let wt := w1.apply k (.touch o.ins wi.cfg createLast)
  let ct : Int → Int := fun q => (wt.posOf wi isLong).closeTodayAmount wi.cfg q o.effect
  let head := [WEv.order (.pendingNew o.id), WEv.order (.creationPass o.id)]
  match signalMatch w1.cfg.priceLimit (w1.slip wi) ord b ct with
  | .fill q p c _ =>
    let (fee, w2) := wt.tradeFee wi (some o.id) o.isBuy o.effect q p c
    let o1 := ord.fill p q fee
    let t : TradeIn := { price := p, qty := q, effect := o.effect, fee := fee }
    let w3 := w2.apply k (.trade o.ins wi.cfg createLast isLong t (some (ord.qty, ord.initFrozen)))
    ({ w3 with finals := o1 :: w3.finals }, head ++ [.order (.trade o.id q p fee)])
  | .rejected =>
    let or_ := ord.markRejected
    let w2 := w1.announce or_
    ({ w2 with finals := or_ :: w2.finals }, head ++ [.order (.unsolicited o.id)])
  | _ => ({ w1 with finals := ord :: w1.finals }, head)        -- the slippage model raised: the run ends with an exception

/-- `Environment.submit_order` in signal mode -/
def World.submitSignal (w : World) (o : OrderReq) : World × List WEv :=
  match w.cfg.find o.ins, w.dayOf o.ins with
  | some wi, some d =>
    match w.acctIdx wi with
    | none => (w, [.noMarket o.id])
    | some k =>
      let frozenPrice : R := if o.isLimit then o.price else (match w.lastPrice o.ins with | some p => p | none => 0)
      match w.validate wi d o frozenPrice with
      | some v => (w, [.creationReject o.id v])
      | none => w.signalAccepted wi d k o frozenPrice
  | _, _ => (w, [.noMarket o.id])

/-- one input of a signal-mode run: `cancel_order` is not supported (nothing happens), everything else is the world's step -/
def World.stepS (w : World) : WIn → World × List WEv
  | .submit o => w.submitSignal o
  | .cancel _ => (w, [])
  | i => w.step i

def World.runS (w : World) : List WIn → World × List WEv
  | [] => (w, [])
  | i :: rest =>
    let (w1, e1) := w.stepS i
    let (w2, e2) := w1.runS rest
    (w2, e1 ++ e2)

end RQ.Q

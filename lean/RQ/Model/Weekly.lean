/-
Model of the weekly branch of BaseDataSource.history_bars (frequency '1w'): the daily window (at most 5·n bars ending before this
week's Monday, or at the call date with include_now), ex-rights adjustment of the DAILY bars, then resampling into calendar weeks
(`resample('W-Fri')`: open = first, close = last, high = max, low = min, volume and total_turnover = sum).
Date labels of the weekly rows are not modelled (the implementation maps the week's Friday to a trading date).
-/
import RQ.Num.Q
import RQ.Model.Calendar
import RQ.Model.History
import RQ.Model.Scheduler
namespace RQ.Q

/-- ordinal of a date written as YYYYMMDD -/
def ordinalOfDateInt (d : Nat) : Nat := ordinalOfCivil (d / 10000) (d / 100 % 100) (d % 100)

/-- the Monday (as an ordinal) of the week a date lies in -/
def weekKey (d : Nat) : Nat := ordinalOfDateInt d - weekday (ordinalOfDateInt d)

/-- YYYYMMDD of an ordinal -/
def dateIntOfOrdinal (o : Nat) : Nat :=
  let (y, m, d) := civilOfOrdinal o
  y * 10000 + m * 100 + d

/-- one weekly bar from the daily bars of one week, in order -/
def weekAgg (first : Bar) (rest : List Bar) : Bar :=
  rest.foldl (fun w b =>
    { w with dt := b.dt, closeP := b.closeP, highP := (if b.highP > w.highP then b.highP else w.highP),
             lowP := (if b.lowP < w.lowP then b.lowP else w.lowP), volume := w.volume + b.volume, turnover := w.turnover + b.turnover }) first

/-- consecutive runs of bars with the same week key -/
def groupWeeks : List Bar → List (List Bar)
  | [] => []
  | b :: rest =>
    match groupWeeks rest with
    | [] => [[b]]
    | g :: gs =>
      match g with
      | [] => [b] :: gs
      | c :: _ => if weekKey b.dt = weekKey c.dt then (b :: g) :: gs else [b] :: g :: gs

/-- the last `n` weekly bars of a daily list -/
def weeklyBars (daily : List Bar) (n : Nat) : List Bar :=
  let ws := (groupWeeks daily).filterMap (fun g => match g with | [] => none | f :: r => some (weekAgg f r))
  ws.drop (ws.length - n)

/-- data-source level `history_bars` for frequency '1w'; `dt` is the call date (YYYYMMDD) -/
def historyBarsWeekly (bars : List Bar) (isCS : Bool) (noAdjustType : Bool) (facs : Option (List (Nat × R)))
    (n : Nat) (dt : Nat) (includeNow skipSuspended : Bool) (t : AdjustType) (orig : Nat) : Option (List Bar) :=
  let src := if skipSuspended && isCS then filteredBars bars else bars
  if src.isEmpty then some src else
  let dts := src.map (·.dt)
  let i := if includeNow then ssRight dts dt else ssLeft dts (dateIntOfOrdinal (weekKey dt))
  let left := if i ≥ n * 5 then i - n * 5 else 0
  let w := pySlice src left i
  if t == AdjustType.none || noAdjustType then some (weeklyBars w n)
  else match facs with
    | none => some (weeklyBars w n)
    | some fs => (adjustBars w fs t orig).map (fun a => weeklyBars a n)

end RQ.Q

/-
Model of the process-level state of rqalpha that outlives a run, and of how the start of the next run
re-initialises it (C13): class-level switches written by `AccountMod.start_up`, the `rqalpha.api` globals
(`export_as_api`), the instrument-type dispatcher of the order APIs (`rqalpha/utils/functools.py`: captured
data_proxy + lru cache, `clear_all_cached_functions` at every run entry) and the `Environment` singleton.
HOW each piece is re-initialised is not written here: it is read from the source by the translator
(`IsoFlags`, filled from RQ/Gen/Tables.lean).
-/
import RQ.Num.Q
import RQ.Gen.Tables
namespace RQ.Q

/-- how the source re-initialises process-level state (regenerated from the source on every run of the check) -/
structure IsoFlags where
  switchWrites : List (String × Bool × Bool)   -- (Class.attr, assigned unconditionally, value read from this run's configuration only)
  exportRebinds : Bool                         -- `export_as_api` assigns the global on every call
  dispatcherKeepsProxy : Bool                  -- the dispatcher captures a data_proxy in a closure variable
  cacheResettable : Bool                       -- the dispatcher's cache is registered with `clear_all_cached_functions`
  entryClears : Bool                           -- the run entry point clears the registered caches
  envReplaced : Bool                           -- `Environment.__init__` installs the new singleton unconditionally
deriving DecidableEq, Repr

structure Proc where
  switches : List (String × Int)     -- class attribute ↦ value (first match wins)
  api : List (String × Nat)          -- exported name ↦ run that owns the bound object
  dispProxy : Option Nat             -- run whose data_proxy the dispatcher captured
  dispCache : List (String × Nat)    -- dispatch cache: instrument id ↦ run whose bundle resolved it
  envRun : Nat                       -- run that owns the Environment singleton (0 = none yet)
deriving DecidableEq, Repr

def Proc.fresh : Proc := ⟨[], [], none, [], 0⟩

structure RunCfg where
  runId : Nat
  switchVals : String → Int          -- the value this run's configuration gives each switch
  exports : List String              -- names this run's mods export at start-up
  ids : List String                  -- instruments the strategy hands to the order APIs, in order

def alookup {α : Type} (l : List (String × α)) (k : String) : Option α := (l.find? (fun e => e.1 == k)).map (·.2)

/-- mod start-up: the class-level writes of the table, in order.  A guarded write may not happen (the old value stays);
a value that is not read from the configuration alone may depend on the old value. -/
def writeSwitches (tbl : List (String × Bool × Bool)) (c : RunCfg) (old : List (String × Int)) : List (String × Int) :=
  tbl.foldl (fun acc w =>
    if w.2.1 then (w.1, if w.2.2 then c.switchVals w.1 else (alookup acc w.1).getD (c.switchVals w.1)) :: acc
    else match alookup acc w.1 with
      | some _ => acc
      | none => (w.1, c.switchVals w.1) :: acc) old

/-- `export_as_api(obj, name)` for each per-run object -/
def exportApi (rebinds : Bool) (c : RunCfg) (old : List (String × Nat)) : List (String × Nat) :=
  c.exports.foldl (fun acc n => if rebinds || (alookup acc n).isNone then (n, c.runId) :: acc else acc) old

/-- run entry + Environment creation + mod start-up -/
def startRun (f : IsoFlags) (c : RunCfg) (p : Proc) : Proc :=
  { switches := writeSwitches f.switchWrites c p.switches
    api := exportApi f.exportRebinds c p.api
    dispProxy := p.dispProxy
    dispCache := if f.entryClears && f.cacheResettable then [] else p.dispCache
    envRun := if f.envReplaced || p.envRun == 0 then c.runId else p.envRun }

/-- one order-API call resolving `id`: which run's bundle answers, and the new process state -/
def dispatch (f : IsoFlags) (id : String) (p : Proc) : Nat × Proc :=
  match alookup p.dispCache id with
  | some r => (r, p)
  | none =>
    let proxy := if f.dispatcherKeepsProxy then p.dispProxy.getD p.envRun else p.envRun
    (proxy, { p with dispCache := (id, proxy) :: p.dispCache, dispProxy := if f.dispatcherKeepsProxy then some proxy else p.dispProxy })

def dispatchAll (f : IsoFlags) : List String → Proc → List Nat × Proc
  | [], p => ([], p)
  | id :: rest, p =>
    let r := dispatch f id p
    let r2 := dispatchAll f rest r.2
    (r.1 :: r2.1, r2.2)

/-- what a run observes of the process-level state -/
structure RunView where
  switches : List (Option Int)       -- value of each switch of the table, as the run's positions see it
  api : List (Option Nat)            -- owner of the object behind each name the run exported
  resolved : List Nat                -- which run's bundle answered each order-API resolution
  env : Nat
deriving DecidableEq, Repr

def runOnce (f : IsoFlags) (c : RunCfg) (p : Proc) : RunView × Proc :=
  let p1 := startRun f c p
  let d := dispatchAll f c.ids p1
  ({ switches := f.switchWrites.map (fun w => alookup p1.switches w.1), api := c.exports.map (fun n => alookup p1.api n),
     resolved := d.1, env := p1.envRun }, d.2)

/-- a process that has run the scenarios `cs` one after the other -/
def afterRuns (f : IsoFlags) (cs : List RunCfg) (p : Proc) : Proc := cs.foldl (fun p c => (runOnce f c p).2) p

/-- the flags of the CURRENT source (tables regenerated by harness/extract.py) -/
def srcFlags : IsoFlags :=
  { switchWrites := RQ.Gen.classSwitchWrites
    exportRebinds := RQ.Gen.apiRebindsAlways.all (·.2)
    dispatcherKeepsProxy := RQ.Gen.dispatcherKeepsProxy.getD true
    cacheResettable := RQ.Gen.dispatcherCacheResettable && RQ.Gen.unresettableCaches.isEmpty
    entryClears := RQ.Gen.runEntriesClearCaches.all (·.2) && RQ.Gen.runEntriesClearCaches.length == 3
    envReplaced := RQ.Gen.envSingletonReplaced }

/-! ### strategies given as source code (run_file / run_code): the namespace they are exec'ed into -/

/-- one source-code run: `shared` is the API module's namespace as earlier runs left it, `defs` the names the strategy source defines at module level.
Returns the names the run's scope holds (where `Strategy` looks the optional hooks up) and the shared namespace afterwards. -/
def scopeRun (copied : Bool) (shared defs : List String) : List String × List String :=
  if copied then (shared ++ defs, shared) else (shared ++ defs, shared ++ defs)

/-- the scope of the LAST of a sequence of source-code runs in one process -/
def scopeAfter (copied : Bool) (shared : List String) : List (List String) → List String → List String
  | [], defs => (scopeRun copied shared defs).1
  | h :: rest, defs => scopeAfter copied (scopeRun copied shared h).2 rest defs

/-- `create_base_scope` of the CURRENT source hands out a copy (regenerated by harness/extract.py) -/
def srcScopeCopied : Bool := RQ.Gen.baseScopeCopied

/-- renumbering of identifiers by first appearance (how traces of different processes are compared: order ids start at the wall clock) -/
def renumber (ids : List Nat) : List Nat :=
  let rec go (seen : List Nat) : List Nat → List Nat
    | [] => []
    | i :: rest => match seen.idxOf? i with
      | some k => k :: go seen rest
      | none => seen.length :: go (seen ++ [i]) rest
  go [] ids

end RQ.Q

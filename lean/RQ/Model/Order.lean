/-
Model of rqalpha/model/order.py (Order: status, fill accounting, guarded final transitions).
-/
import RQ.Num.Q
import RQ.Model.Position
namespace RQ.Q

inductive Status | pendingNew | active | filled | rejected | cancelled | pendingCancel
deriving DecidableEq, Repr

structure Ord where
  id : Nat
  ins : Nat
  isBuy : Bool
  isLimit : Bool
  limitPrice : R            -- `order.price` (0 for market orders)
  effect : Effect
  qty : Int
  filled : Int
  status : Status
  avg : R
  cost : R                  -- `transaction_cost`
  frozenPrice : R
  initFrozen : R

/-- `is_final`: not in {PENDING_NEW, ACTIVE, PENDING_CANCEL} -/
def Ord.isFinal (o : Ord) : Bool :=
  !(o.status == .pendingNew || o.status == .active || o.status == .pendingCancel)

def Ord.unfilled (o : Ord) : Int := o.qty - o.filled

/-- `active()` (unguarded in the code) -/
def Ord.activate (o : Ord) : Ord := { o with status := .active }

/-- `mark_rejected` / `mark_cancelled`: only if not final -/
def Ord.markRejected (o : Ord) : Ord := if !o.isFinal then { o with status := .rejected } else o
def Ord.markCancelled (o : Ord) : Ord := if !o.isFinal then { o with status := .cancelled } else o

/-- `fill(trade)`: `avg = (avg·filled + price·q) / (filled + q)`, cost accumulates commission + tax,
FILLED exactly when nothing is left -/
def Ord.fill (o : Ord) (price : R) (q : Int) (fee : R) : Ord :=
  let nq := o.filled + q
  let o1 := { o with cost := o.cost + fee,
                     avg := (o.avg * R.ofInt o.filled + price * R.ofInt q) / R.ofInt nq,
                     filled := nq }
  if o1.qty - o1.filled = 0 then { o1 with status := .filled } else o1

/-- `LimitOrder.round_price` (config `base.round_price`), on prices written in ten-thousandths as the code writes them (`"{:.4f}"`):
the limit goes DOWN to the tick grid (`to_integral` under ROUND_FLOOR); tick 0 ("Invalid tick size", a warning) leaves it alone. -/
def roundPrice (l t : Nat) : Nat := if t = 0 then l else (l / t) * t

end RQ.Q

/-
Model of run control: rqalpha/main.py (`run`: the single try / except CustomException / except Exception / else),
rqalpha/mod/__init__.py (ModHandler: priority sort, start_up, guarded reverse tear_down) and the exception
classification of rqalpha/utils/exception.py + core/strategy.py + utils/arg_checker.py.
-/
import RQ.Num.Q
namespace RQ.Q

structure ModSpec where
  tag : Nat
  prio : Int
  startRaises : Bool
  teardownRaises : Bool
  ret : Option Nat            -- value returned by tear_down (`none` = returns None)
deriving DecidableEq, Repr

/-- where an exception comes from (what decides its classification) -/
inductive Origin
  | userCode          -- raised by the strategy's own code inside a callback (wrapped by ModifyExceptionFromType(USER_EXC))
  | apiUserError      -- raised by an API as a user error (RQInvalidArgument, phase refusal: patch_user_exc at the raise site)
  | apiInternal       -- originates inside API / system code called from a callback (arg checker stamps SYSTEM_EXC on the way out)
  | systemListener    -- raised by a system (mod) listener / data look-up outside strategy code
deriving DecidableEq, Repr

inductive ExitCode | success | userError | internalError
deriving DecidableEq, Repr

/-- `_exception_handler`: user error iff the innermost exception carries the USER_EXC mark -/
def classify : Origin → ExitCode
  | .userCode => .userError
  | .apiUserError => .userError
  | .apiInternal => .internalError
  | .systemListener => .internalError

/-- `_mod_list.sort(key=priority)`: Python's sort is stable — mods of equal priority keep their configuration order.
Insertion sort from the right: `x` goes in front of the first element of the sorted tail whose priority is not smaller. -/
def sortMods : List ModSpec → List ModSpec
  | [] => []
  | x :: xs =>
    let rest := sortMods xs
    (rest.takeWhile (fun y => y.prio < x.prio)) ++ x :: (rest.dropWhile (fun y => y.prio < x.prio))

inductive Log
  | start (tag : Nat)
  | teardown (tag : Nat) (code : ExitCode)
  | callback (idx : Nat)
deriving DecidableEq, Repr

structure RunOut where
  log : List Log
  code : ExitCode
  result : Option (List (Nat × Nat))      -- `none` for a failed run; else (mod tag, returned value) of the mods that returned something
deriving DecidableEq, Repr

/-- `ModHandler.tear_down(code)`: every mod once, in reverse start order, each guarded; collects the non-None returns of the
mods whose tear_down did not raise -/
def tearDown (sorted : List ModSpec) (code : ExitCode) : List Log × List (Nat × Nat) :=
  let rev := sorted.reverse
  (rev.map (fun m => Log.teardown m.tag code),
   rev.filterMap (fun m => if m.teardownRaises then none else m.ret.map (fun v => (m.tag, v))))

/-- start-up: mods in order until one raises; returns the log and whether all started -/
def startUp : List ModSpec → List Log × Bool
  | [] => ([], true)
  | m :: ms => if m.startRaises then ([Log.start m.tag], false) else
      let r := startUp ms
      (Log.start m.tag :: r.1, r.2)

/-- `main.run`: `callbacks` = the strategy callbacks the event loop would invoke (init first), `fault = some (i, origin)` =
callback number `i` raises an exception of that origin -/
def runMain (mods : List ModSpec) (nCallbacks : Nat) (fault : Option (Nat × Origin)) : RunOut :=
  let sorted := sortMods mods
  let su := startUp sorted
  if !su.2 then
    -- a mod's start_up raised: plain exception in system code → internal error; tear_down is still called for every mod
    let td := tearDown sorted .internalError
    { log := su.1 ++ td.1, code := .internalError, result := none }
  else
    match fault with
    | some (i, origin) =>
      if i < nCallbacks then
        let code := classify origin
        let td := tearDown sorted code
        { log := su.1 ++ (List.range (i + 1)).map Log.callback ++ td.1, code := code, result := none }
      else
        let td := tearDown sorted .success
        { log := su.1 ++ (List.range nCallbacks).map Log.callback ++ td.1, code := .success, result := some td.2 }
    | none =>
      let td := tearDown sorted .success
      { log := su.1 ++ (List.range nCallbacks).map Log.callback ++ td.1, code := .success, result := some td.2 }

end RQ.Q

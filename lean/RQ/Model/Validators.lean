/-
Model of the front-end validators: rqalpha/mod/rqalpha_mod_sys_accounts/position_validator.py,
rqalpha/mod/rqalpha_mod_sys_risk/validators/{price,is_trading,cash,self_trade}_validator.py and the chain of
Environment.can_submit_order (type-specific validators first, then the defaults in registration order; first veto wins).
-/
import RQ.Num.Q
import RQ.Model.Account
namespace RQ.Q

/-- the order as the validators see it -/
structure OrderIn where
  isLimit : Bool
  price : R             -- `order.price` (limit price; 0 for market orders)
  frozenPrice : R
  qty : Int
  effect : Effect
  isBuy : Bool

/-- market facts at the clock (inputs from the data layer) -/
structure MarketIn where
  isIndex : Bool
  isCS : Bool
  listed : Bool               -- `instrument.listing_at(trading_dt)`
  suspended : Bool            -- `is_suspended(id, trading_dt)` (consulted for CS only)
  limitUp4 : Option R         -- `round(limit_up, 4)`; `none` = NaN (never vetoes)
  limitDown4 : Option R

structure Switches where
  position : Bool             -- sys_accounts `validate_stock_position` / `validate_future_position`
  price : Bool                -- sys_risk `validate_price`
  isTrading : Bool            -- `validate_is_trading`
  cash : Bool                 -- `validate_cash`
  selfTrade : Bool            -- `validate_self_trade`

inductive Veto | position | priceUp | priceDown | notListed | suspended | cash | selfTrade
deriving DecidableEq, Repr

/-- `Position.closable` / `StockPosition.closable`: quantity minus the unfilled quantity of the open closing orders
(CLOSE, CLOSE_TODAY) on this direction, minus — for stocks with T+1 switched on — everything bought today -/
def posClosable (cfg : InsCfg) (tplusOn : Bool) (p : Pos) (openClosing : Int) : Int :=
  if !cfg.isFuture && tplusOn then p.qty - openClosing - p.nonClosable else p.qty - openClosing

/-- `Position.today_closable`: today's quantity minus the unfilled quantity of the open CLOSE_TODAY orders, and (repaired) never
more than `closable`: lots already committed to resting closing orders of either kind cannot be closed again as today's -/
def posTodayClosable (p : Pos) (openCloseToday : Int) (closableAll : Int) : Int := min (p.qty - p.oldQty - openCloseToday) closableAll

/-- `PositionValidator.validate_submission` -/
def positionVeto (o : OrderIn) (closable todayClosable : Int) : Bool :=
  match o.effect with
  | .open_ => false
  | .closeToday => decide (o.qty > todayClosable)
  | .close => decide (o.qty > closable)

/-- `PriceValidator` -/
def priceVeto (o : OrderIn) (m : MarketIn) : Option Veto :=
  if !o.isLimit then none
  else if (match m.limitUp4 with | some u => decide (o.price > u) | none => false) then some .priceUp
  else if (match m.limitDown4 with | some d => decide (o.price < d) | none => false) then some .priceDown
  else none

/-- `IsTradingValidator` -/
def isTradingVeto (m : MarketIn) : Option Veto :=
  if !m.isIndex && !m.listed then some .notListed
  else if m.isCS && m.suspended then some .suspended
  else none

/-- `CashValidator` / `validate_cash`: `calc_cash_occupation + order cost ≤ cash` for OPEN orders -/
def cashVeto (cfg : InsCfg) (o : OrderIn) (orderCost cash : R) : Bool :=
  o.effect == .open_ && !(frozenCashOfOrder cfg o.frozenPrice o.qty true orderCost ≤ cash)

/-- `SelfTradeValidator`: `opp` = (isLimit, price) of the open orders of the opposite side on the instrument -/
def selfTradeVeto (o : OrderIn) (opp : List R) : Bool :=
  if opp.isEmpty then false
  else if !o.isLimit then true
  else if o.isBuy then opp.any (fun p => decide (o.price ≥ p)) else opp.any (fun p => decide (o.price ≤ p))

/-- the chain: first veto wins; `none` = the order is handed to the broker -/
def validate (sw : Switches) (cfg : InsCfg) (o : OrderIn) (m : MarketIn) (closable todayClosable : Int)
    (orderCost cash : R) (opp : List R) : Option Veto :=
  if sw.position && positionVeto o closable todayClosable then some .position
  else match (if sw.price then priceVeto o m else none) with
    | some v => some v
    | none =>
      match (if sw.isTrading then isTradingVeto m else none) with
      | some v => some v
      | none =>
        if sw.cash && cashVeto cfg o orderCost cash then some .cash
        else if sw.selfTrade && selfTradeVeto o opp then some .selfTrade
        else none

end RQ.Q

/-
Model of rqalpha/mod/rqalpha_mod_sys_analyser/mod.py (AnalyserMod): what is collected at TRADE,
ORDER_CREATION_PASS and POST_SETTLEMENT, the benchmark series, and the part of the report assembled in
`tear_down` that is a stated function of those series.  `pow` is not interpreted: an annualised figure is
represented by its arguments.  The rqrisk statistics, weekly/monthly resampling, turnover and plots are not modelled.
-/
import RQ.Num.Q
import RQ.Model.RunCtl
namespace RQ.Q

/-- what `_collect_daily` reads from the portfolio -/
structure PfSnap where
  cash : R
  totalValue : R
  marketValue : R
  nav : R                 -- unit_net_value
  units : R
  staticNav : R           -- static_unit_net_value
  dailyReturns : R
  dailyPnl : R

/-- `_to_portfolio_record` -/
structure PfRec where
  date : Nat
  cash : R
  totalValue : R
  marketValue : R
  nav : R
  units : R
  staticNav : R

def toPfRec (date : Nat) (p : PfSnap) : PfRec :=
  { date := date, cash := R.roundDec 4 p.cash, totalValue := R.roundDec 4 p.totalValue, marketValue := R.roundDec 4 p.marketValue,
    nav := R.roundDec 6 p.nav, units := p.units, staticNav := R.roundDec 4 p.staticNav }

/-- an account or position as read at POST_SETTLEMENT: a tag (account type / order_book_id) and its numeric fields in record order -/
structure RowSnap where
  tag : String
  fields : List R

structure Row where
  date : Nat
  tag : String
  fields : List R

/-- `_to_account_record` / `_to_position_record`: every numeric field through `_safe_convert` (4 decimals) -/
def toRow (date : Nat) (r : RowSnap) : Row := { date := date, tag := r.tag, fields := r.fields.map (R.roundDec 4) }

structure ATradeIn where
  execId : Nat
  orderId : Nat
  book : String
  side : String
  effect : String
  qty : R
  price : R
  tax : R
  commission : R
  cal : Nat               -- trade.datetime
  trd : Nat               -- trade.trading_datetime

/-- `_to_trade_record` -/
structure TradeRec where
  execId : Nat
  orderId : Nat
  book : String
  side : String
  effect : String
  qty : R
  price : R
  tax : R
  commission : R
  cost : R
  cal : Nat
  trd : Nat

def toTradeRec (t : ATradeIn) : TradeRec :=
  { execId := t.execId, orderId := t.orderId, book := t.book, side := t.side, effect := t.effect, qty := t.qty,
    price := R.roundDec 4 t.price, tax := t.tax, commission := t.commission, cost := t.commission + t.tax, cal := t.cal, trd := t.trd }

/-- the events the analyser listens to (everything else is `other`) -/
inductive AEv
  | trade (t : ATradeIn)
  | orderPass (orderId : Nat)
  | postSettlement (calDay : Nat) (p : PfSnap) (accounts : List RowSnap) (positions : List RowSnap)
  | other

structure AState where
  trades : List TradeRec
  orders : List Nat
  pfs : List PfRec
  rets : List R
  pnls : List R
  accounts : List Row
  positions : List Row

def AState.init : AState := ⟨[], [], [], [], [], [], []⟩

def AState.step (s : AState) : AEv → AState
  | .trade t => { s with trades := s.trades ++ [toTradeRec t] }
  | .orderPass o => { s with orders := s.orders ++ [o] }
  | .postSettlement d p accts poss =>
    { s with pfs := s.pfs ++ [toPfRec d p], rets := s.rets ++ [p.dailyReturns], pnls := s.pnls ++ [p.dailyPnl],
             accounts := s.accounts ++ accts.map (toRow d), positions := s.positions ++ poss.map (toRow d) }
  | .other => s

def collect (evs : List AEv) : AState := evs.foldl AState.step AState.init

/-! ### benchmark -/

/-- `(bars['close'] / np.roll(bars['close'], 1) - 1.0)[1:]` -/
def benchReturns : List R → List R
  | [] => []
  | [_] => []
  | a :: b :: rest => (b / a - 1) :: benchReturns (b :: rest)

/-- `(returns + 1).prod()` / the last element of `cumprod` (sequential products) -/
def prodPlus1 (rs : List R) : R := rs.foldl (fun acc r => acc * (r + 1)) 1

/-- `(returns + 1).cumprod()` -/
def cumprodPlus1 (rs : List R) : List R := (rs.foldl (fun (st : R × List R) r => let v := st.1 * (r + 1); (v, st.2 ++ [v])) (1, [])).2

/-- weighted benchmark: `sum_j returns_j * w_j / sum_j w_j`, day by day (parts in configuration order) -/
def benchCombine (n : Nat) (parts : List (List R × R)) : List R :=
  let acc := parts.foldl (fun (a : List R) (p : List R × R) => List.zipWith (fun x r => x + r * p.2) a p.1) (List.replicate n 0)
  let w := parts.foldl (fun (a : R) (p : List R × R) => a + p.2) 0
  acc.map (· / w)

/-! ### report -/

/-- an annualised figure: `pow base (252 / days) - 1`, or the constant -1 when the net value is not positive -/
inductive Ann
  | minusOne
  | pow (base : R) (days : Nat)

structure Summary where
  totalValue : R
  cash : R
  totalReturns : R
  nav : R
  units : R
  annualized : Ann
  benchTotal : Option R
  benchAnnualized : Option Ann

structure Report where
  summary : Summary
  trades : List TradeRec
  portfolio : List PfRec
  accounts : List Row
  positions : List Row
  benchNav : Option (List R)

/-- `Portfolio.annualized_returns` at the final clock (`dateCount` = trading days from the start date to the clock) -/
def annualizedReturns (nav : R) (dateCount : Nat) : Ann := if nav ≤ 0 then .minusOne else .pow nav dateCount

/-- `AnalyserMod.tear_down`: nothing unless the run succeeded, the mod is enabled and at least one day was recorded -/
def analyserTearDown (code : ExitCode) (enabled : Bool) (s : AState) (final : PfSnap) (dateCount : Nat)
    (bench : Option (List R)) : Option Report :=
  if code ≠ .success || !enabled then none
  else if s.pfs.isEmpty then none
  else
    let bt := bench.map (fun rs => prodPlus1 rs - 1)
    some { summary := { totalValue := final.totalValue, cash := final.cash, totalReturns := final.nav - 1, nav := final.nav,
                        units := final.units, annualized := annualizedReturns final.nav dateCount,
                        benchTotal := bt, benchAnnualized := match bench, bt with
                          | some rs, some t => some (.pow (t + 1) rs.length)
                          | _, _ => none },
           trades := s.trades, portfolio := s.pfs, accounts := s.accounts, positions := s.positions,
           benchNav := bench.map cumprodPlus1 }

end RQ.Q

/-
The free-running composition ("World") of the daily back-test: portfolio + accounts + simulation broker + bar matcher + cost
deciders + front-end validators, stepped by the events of a trading day and by the strategy's calls, in the order in which the
event bus of the real system runs its listeners:

  PRE_BEFORE_TRADING   Portfolio._pre_before_trading (prepended), then every Account._on_before_trading
  BEFORE_TRADING       SimulationBroker.before_trading (matcher accumulators cleared, carried orders re-announced)
  OPEN_AUCTION         only the strategy acts; orders go to the auction book and are matched at the open
  BAR                  Account._on_bar (prepended), SimulationBroker.on_bar (accumulators cleared, one matching round), strategy
  AFTER_TRADING        SimulationBroker.after_trading (whatever still rests is rejected and announced)
  SETTLEMENT           every Account._on_settlement

A strategy call arrives AFTER order sizing (the order-sizing APIs are modelled in Sizing.lean): `submit` carries the created order.
Every mutation of an account goes through `World.apply` with an `AcctOp`, and is appended to the ghost history `log`, so that
what a whole run does to an account is, by construction, a list of the account operations the component theorems quantify over.
-/
import RQ.Num.Q
import RQ.Model.Position
import RQ.Model.Account
import RQ.Model.Order
import RQ.Model.Cost
import RQ.Model.Matcher
import RQ.Model.Broker
import RQ.Model.Validators
import RQ.Model.Portfolio
namespace RQ.Q

/-! ### account operations as data -/

inductive AcctOp
  | pendingNew (init : R)
  | unsolicited (qty filled : Int) (init : R)
  | trade (ins : Nat) (cfg : InsCfg) (createLast : R) (isLong : Bool) (t : TradeIn) (order : Option (Int × R))
  | touch (ins : Nat) (cfg : InsCfg) (createLast : R)      -- `_get_or_create_pos` through `calc_close_today_amount`
  | bar (price : Nat → Option R)
  | beforeTrading (i : BTInput)
  | settlement (i : STInput)
  | deposit (amount : R) (recv : Option Nat)
  | finance (amount : R)

def Acct.stepOp (a : Acct) : AcctOp → Acct
  | .pendingNew init => a.onPendingNew init
  | .unsolicited q f init => a.onUnsolicited q f init
  | .trade ins cfg cl isLong t o => a.applyTrade ins cfg cl isLong t o
  | .touch ins cfg cl => a.getOrCreate ins cfg cl
  | .bar price => a.onBar price
  | .beforeTrading i => a.onBeforeTrading i
  | .settlement i => a.onSettlement i
  | .deposit amt recv => match a.depositWithdraw amt recv with | some a' => a' | none => a
  | .finance amt => a.financeRepay amt

/-! ### static configuration and market inputs -/

/-- an instrument of the run.  `typeKey` separates the cost deciders (one instance per instrument type). -/
structure WIns where
  ins : Nat
  cfg : InsCfg
  isCS : Bool
  typeKey : Nat
  tick : R
  futCost : FutCostCfg

structure WCfg where
  instruments : List WIns
  priceLimit : Bool
  inactiveLimit : Bool
  volumeLimit : Bool
  volumePercent : R
  slipKind : Nat                 -- 0 PriceRatioSlippage, 1 TickSizeSlippage, 2 LimitPriceSlippage
  slipRate : R
  stockCost : StockCostCfg       -- `taxRate` here is ignored: the rate in force is set every morning (`World.taxRate`)
  swStock : Switches
  swFut : Switches
  tplusOn : Bool
  reinvest : Bool
  forced : Bool
  matchImmediately : Bool        -- matching type current_bar / vwap: every submission triggers a matching round
  daily : Bool                   -- frequency '1d': before the bar event the clock stands at 00:00 and the day bar is not known yet

/-- what the data layer answers about one instrument on one trading day -/
structure DayIns where
  ins : Nat
  open_ : Option R               -- last price during the opening auction
  close : Option R               -- last price once the day bar is known
  auc : MBar                     -- matcher inputs for auction orders (deal = open)
  bar : MBar                     -- matcher inputs for bar orders (deal = close / vwap)
  listed : Bool
  suspended : Bool
  corp : CorpDay
  delist : DelistKind
  settle : Option R
  expires : Bool

inductive WPhase | before | auction | bar | after
deriving DecidableEq, Repr

/-- a created order as it reaches `Environment.submit_order` -/
structure OrderReq where
  id : Nat
  ins : Nat
  isBuy : Bool
  isLimit : Bool
  price : R                      -- limit price (0 for market orders)
  effect : Effect
  qty : Int

inductive WIn
  | preBeforeTrading (today : Nat) (taxRate : R) (mkt : List DayIns)
  | beforeTrading
  | openAuction
  | barData (rows : List (Nat × Option R × MBar))     -- a new bar of a sub-daily frequency: per instrument its close and the matcher's inputs
  | bar
  | afterTrading
  | settlement
  | submit (o : OrderReq)
  | cancel (id : Nat)
  | deposit (acct : Nat) (amount : R) (recv : Option Nat)
  | finance (acct : Nat) (amount : R)

inductive WEv
  | order (e : OEvent)
  | creationReject (id : Nat) (v : Veto)
  | noMarket (id : Nat)                 -- the instrument is unknown to the day's market table: nothing happens
  | depositRefused
deriving Repr

structure World where
  cfg : WCfg
  pf : Pf
  stockIdx : Option Nat
  futIdx : Option Nat
  openOrders : List Ord
  auctionOrders : List Ord
  finals : List Ord                      -- orders that have left the books, most recent first
  turnover : List (Nat × Int)
  commMap : List ((Option Nat × Nat) × R)   -- (order id or None, decider) → remaining minimum commission
  mkt : List DayIns
  today : Nat
  taxRate : R
  phase : WPhase
  log : List (Nat × AcctOp)              -- ghost: every account operation so far, most recent first

/-! ### look-ups -/

def WCfg.find (c : WCfg) (ins : Nat) : Option WIns := c.instruments.find? (·.ins == ins)
def World.dayOf (w : World) (ins : Nat) : Option DayIns := w.mkt.find? (·.ins == ins)

def World.acctIdx (w : World) (wi : WIns) : Option Nat := if wi.cfg.isFuture then w.futIdx else w.stockIdx
def World.acct (w : World) (k : Nat) : Option Acct := w.pf.accounts[k]?

/-- the one way an account changes -/
def World.apply (w : World) (k : Nat) (op : AcctOp) : World :=
  match w.pf.accounts[k]? with
  | some a => { w with pf := { w.pf with accounts := w.pf.accounts.set k (a.stepOp op) }, log := (k, op) :: w.log }
  | none => w

/-- `env.get_last_price` as the price board answers in the phase (auction: the open; afterwards: the close) -/
def World.lastPrice (w : World) (ins : Nat) : Option R :=
  match w.dayOf ins with
  | some d => if w.phase == .auction then d.open_ else d.close
  | none => none

def World.slip (w : World) (wi : WIns) : Slip :=
  if w.cfg.slipKind == 0 then .priceRatio w.cfg.slipRate
  else if w.cfg.slipKind == 1 then .tickSize w.cfg.slipRate wi.tick
  else .limitPrice

def World.mcfg (w : World) (wi : WIns) : MCfg :=
  { priceLimit := w.cfg.priceLimit, inactiveLimit := w.cfg.inactiveLimit, volumeLimit := w.cfg.volumeLimit,
    volumePercent := w.cfg.volumePercent, slip := w.slip wi }

def World.stockCost (w : World) : StockCostCfg := { w.cfg.stockCost with taxRate := w.taxRate }

def World.turnoverOf (w : World) (ins : Nat) : Int :=
  match w.turnover.find? (·.1 == ins) with | some x => x.2 | none => 0

def World.addTurnover (w : World) (ins : Nat) (q : Int) : World :=
  if w.turnover.any (·.1 == ins) then
    { w with turnover := w.turnover.map (fun x => if x.1 == ins then (x.1, x.2 + q) else x) }
  else { w with turnover := w.turnover ++ [(ins, q)] }

/-- `commission_map[order_id]` of the instrument's decider (`defaultdict`: the minimum commission when absent) -/
def World.commRem (w : World) (key : Option Nat × Nat) : R :=
  match w.commMap.find? (·.1 == key) with | some x => x.2 | none => w.cfg.stockCost.minC

def World.setCommRem (w : World) (key : Option Nat × Nat) (v : R) : World :=
  if w.commMap.any (·.1 == key) then { w with commMap := w.commMap.map (fun x => if x.1 == key then (x.1, v) else x) }
  else { w with commMap := w.commMap ++ [(key, v)] }

/-- commission + tax the cost decider stamps on a trade, and the decider's state afterwards -/
def World.tradeFee (w : World) (wi : WIns) (orderId : Option Nat) (isBuy : Bool) (effect : Effect) (q : Int) (price : R)
    (closeToday : Int) : R × World :=
  if wi.cfg.isFuture then
    (futCommission wi.futCost (effect == .open_) price (R.ofInt q) (R.ofInt closeToday) + 0, w)
  else
    let key := (orderId, wi.typeKey)
    let r := tradeCommission w.stockCost (w.commRem key) price (R.ofInt q)
    (r.1 + stockTax w.stockCost wi.isCS (!isBuy) (price * R.ofInt q), w.setCommRem key r.2)

/-- `get_order_transaction_cost` -/
def World.orderCost (w : World) (wi : WIns) (isBuy : Bool) (effect : Effect) (frozenPrice : R) (qty : Int) : R :=
  if wi.cfg.isFuture then futOrderCost wi.futCost (effect == .open_) (effect == .closeToday) frozenPrice (R.ofInt qty)
  else stockOrderCost w.stockCost wi.isCS (!isBuy) frozenPrice (R.ofInt qty)

/-- direction of the position an order acts on -/
def ordIsLong (isBuy : Bool) (effect : Effect) : Bool := if effect == .open_ then isBuy else !isBuy

def World.posOf (w : World) (wi : WIns) (isLong : Bool) : Pos :=
  match (w.acctIdx wi).bind w.acct with
  | some a => match a.getPos wi.ins isLong with | some (_, p) => p | none => Pos.empty isLong 0
  | none => Pos.empty isLong 0

/-- `broker.get_open_orders(order_book_id)` -/
def World.openOn (w : World) (ins : Nat) : List Ord := (w.openOrders ++ w.auctionOrders).filter (·.ins == ins)

/-! ### matching -/

/-- `DefaultBarMatcher.match` up to the point where the trade is created: `inl` = decided without a trade,
`inr (fill, price)` = a trade of `fill` at `price` is created and stamped by the cost decider -/
def matchPre (cfg : MCfg) (ic : InsCfg) (o : Ord) (b : MBar) (openAuction : Bool) (turnover : Int) : MOutcome ⊕ (Int × R) :=
  match validPrice b.deal with
  | none => .inl (if b.listedToday then .rejected else .rest)
  | some deal =>
    let atUp : Bool := match b.limitUp with | some u => decide (deal ≥ u) | none => false
    let atDown : Bool := match b.limitDown with | some d => decide (deal ≤ d) | none => false
    let priceStop : Option MOutcome :=
      if o.isLimit then
        if o.isBuy && o.limitPrice < deal then some .rest
        else if !o.isBuy && o.limitPrice > deal then some .rest
        else if cfg.priceLimit && ((o.isBuy && atUp) || (!o.isBuy && atDown)) then some .rest
        else none
      else
        if cfg.priceLimit && ((o.isBuy && atUp) || (!o.isBuy && atDown)) then some .rejected else none
    match priceStop with
    | some r => .inl r
    | none =>
      if cfg.inactiveLimit && (match b.volume with | some v => v == 0 | none => false) then .inl .cancelled
      else
        let fillOrStop : Option Int :=
          if cfg.volumeLimit then
            match b.volume with
            | some v =>
              let lim0 := R.roundI (v * cfg.volumePercent) - turnover
              let lim := (lim0 / ic.lot) * ic.lot
              if lim ≤ 0 then none else some (min o.unfilled lim)
            | none => some o.unfilled
          else some o.unfilled
        match fillOrStop with
        | none => .inl (if o.isLimit then .rest else .cancelled)
        | some f =>
          let price? := if openAuction then some deal else slipPrice cfg.slip o.isBuy o.isLimit o.limitPrice b deal
          match price? with
          | none => .inl .raises
          | some price => .inr (f, price)

/-- the rest of `match`: the cash check of an opening order after slippage, then the fill -/
def matchPost (cfg : MCfg) (ic : InsCfg) (o : Ord) (f : Int) (price : R) (cashPlusInit : R) (fee : R) (closeToday : Int) : MOutcome :=
  let needCheck : Option Bool :=
    if o.effect == .open_ then (match slipRate cfg.slip with | some r => some (r != 0) | none => none)
    else some false
  match needCheck with
  | none => .raises
  | some chk =>
    if chk && (frozenCashOfOrder ic price o.qty true 0 + fee > cashPlusInit) then .rejected
    else .fill f price closeToday (!o.isLimit && o.unfilled - f ≠ 0)

/-- one `matcher.match(account, order, open_auction)` call inside the world: the order afterwards, the events, the world -/
def World.matchOne (w : World) (auction : Bool) (o : Ord) : World × Ord × List WEv :=
  if o.isFinal then (w, o, [])
  else if w.cfg.daily && !auction && (w.phase == .before || w.phase == .auction) then
    -- (repaired, finding F43) daily frequency, clock still at 00:00: the day bar is not known yet, a non-auction order rests until the bar
    (w, o, [])
  else
    match w.cfg.find o.ins, w.dayOf o.ins with
    | some wi, some d =>
      match w.acctIdx wi with
      | none => (w, o, [])
      | some k =>
        let b := if auction then d.auc else d.bar
        match matchPre (w.mcfg wi) wi.cfg o b auction (w.turnoverOf o.ins) with
        | .inl out => (w, orderAfter o (fun _ _ => 0) out, [])
        | .inr (f, price) =>
          let isLong := ordIsLong o.isBuy o.effect
          -- `account.calc_close_today_amount` creates the pair of positions when the instrument is new to the account
          let createLast : R := match w.lastPrice o.ins with | some p => p | none => 0
          let w1 := w.apply k (.touch o.ins wi.cfg createLast)
          let ct := (w1.posOf wi isLong).closeTodayAmount wi.cfg f o.effect
          let (fee, w2) := w1.tradeFee wi (some o.id) o.isBuy o.effect f price ct
          let cash : R := match w2.acct k with | some a => a.cash | none => 0
          let out := matchPost (w2.mcfg wi) wi.cfg o f price (cash + o.initFrozen) fee ct
          match out with
          | .fill q p c cancelRem =>
            let o1 := o.fill p q fee
            let w3 := w2.addTurnover o.ins q
            let t : TradeIn := { price := p, qty := q, effect := o.effect, fee := fee }
            let w4 := w3.apply k (.trade o.ins wi.cfg createLast isLong t (some (o.qty, o.initFrozen)))
            let _ := c
            (w4, if cancelRem then o1.markCancelled else o1, [.order (.trade o.id q p fee)])
          | other => (w2, orderAfter o (fun _ _ => 0) other, [])
    | _, _ => (w, o, [])

/-- matching a list of orders one after the other -/
def World.matchList (w : World) (auction : Bool) : List Ord → World × List Ord × List WEv
  | [] => (w, [], [])
  | o :: rest =>
    let (w1, o1, e1) := w.matchOne auction o
    let (w2, os, e2) := w1.matchList auction rest
    (w2, o1 :: os, e1 ++ e2)

/-- the account learns that an order is final without being completely filled (`_on_order_unsolicited_update`) -/
def World.announce (w : World) (o : Ord) : World :=
  match (w.cfg.find o.ins).bind w.acctIdx with
  | some k => w.apply k (.unsolicited o.qty o.filled o.initFrozen)
  | none => w

/-- `SimulationBroker._match()` -/
def World.matchRound (w : World) : World × List WEv :=
  let (w1, r1, e1) := w.matchList false w.openOrders
  let (w2, r2, e2) := w1.matchList true w1.auctionOrders
  let all := r1 ++ r2
  let fin := all.filter (·.isFinal)
  let ann := fin.filter (fun o => o.status == .rejected || o.status == .cancelled)
  let w3 := ann.foldl World.announce w2
  ({ w3 with openOrders := all.filter (fun o => !o.isFinal), auctionOrders := [], finals := fin.reverse ++ w3.finals },
   e1 ++ e2 ++ ann.map (fun o => WEv.order (.unsolicited o.id)))

/-! ### strategy calls -/

/-- the front-end validators of `Environment.can_submit_order` on the world's state -/
def World.validate (w : World) (wi : WIns) (d : DayIns) (o : OrderReq) (frozenPrice : R) : Option Veto :=
  let isLong := ordIsLong o.isBuy o.effect
  let sw := if wi.cfg.isFuture then w.cfg.swFut else w.cfg.swStock
  let p := w.posOf wi isLong
  let mine := (w.openOn o.ins).filter (fun x => ordIsLong x.isBuy x.effect == isLong)
  let openClosing : Int := (mine.filter (fun x => x.effect != .open_)).foldl (fun s x => s + x.unfilled) 0
  let openCT : Int := (mine.filter (fun x => x.effect == .closeToday)).foldl (fun s x => s + x.unfilled) 0
  let closable := posClosable wi.cfg w.cfg.tplusOn p openClosing
  let todayClosable := posTodayClosable p openCT closable
  let b := if w.phase == .auction then d.auc else d.bar
  let m : MarketIn := { isIndex := false, isCS := wi.isCS, listed := d.listed, suspended := d.suspended,
                        limitUp4 := b.limitUp.map (R.roundDec 4), limitDown4 := b.limitDown.map (R.roundDec 4) }
  let oi : OrderIn := { isLimit := o.isLimit, price := o.price, frozenPrice := frozenPrice, qty := o.qty, effect := o.effect,
                        isBuy := o.isBuy }
  let cash : R := match (w.acctIdx wi).bind w.acct with | some a => a.cash | none => 0
  let opp := ((w.openOn o.ins).filter (fun x => x.isBuy != o.isBuy)).map (·.limitPrice)
  RQ.Q.validate sw wi.cfg oi m closable todayClosable (w.orderCost wi o.isBuy o.effect frozenPrice o.qty) cash opp

/-- `Environment.submit_order(order)` → validators → `SimulationBroker.submit_order` -/
def World.submit (w : World) (o : OrderReq) : World × List WEv :=
  match w.cfg.find o.ins, w.dayOf o.ins with
  | some wi, some d =>
    match w.acctIdx wi with
    | none => (w, [.noMarket o.id])
    | some k =>
      let frozenPrice : R := if o.isLimit then o.price else (match w.lastPrice o.ins with | some p => p | none => 0)
      match w.validate wi d o frozenPrice with
      | some v => (w, [.creationReject o.id v])
      | none =>
        let init := frozenCashOfOrder wi.cfg frozenPrice o.qty (o.effect == .open_) (w.orderCost wi o.isBuy o.effect frozenPrice o.qty)
        let w1 := w.apply k (.pendingNew init)
        let ord : Ord := { id := o.id, ins := o.ins, isBuy := o.isBuy, isLimit := o.isLimit, limitPrice := o.price, effect := o.effect,
                           qty := o.qty, filled := 0, status := .active, avg := 0, cost := 0, frozenPrice := frozenPrice,
                           initFrozen := init }
        let w2 := if w1.phase == .auction then { w1 with auctionOrders := w1.auctionOrders ++ [ord] }
                  else { w1 with openOrders := w1.openOrders ++ [ord] }
        if w2.cfg.matchImmediately then
          let (w3, evs) := w2.matchRound
          (w3, [.order (.pendingNew o.id), .order (.creationPass o.id)] ++ evs)
        else (w2, [.order (.pendingNew o.id), .order (.creationPass o.id)])
  | _, _ => (w, [.noMarket o.id])

/-- `cancel_order(order)` -/
def World.cancel (w : World) (id : Nat) : World × List WEv :=
  match (w.openOrders ++ w.auctionOrders).find? (·.id == id) with
  | none => (w, [])                      -- already final (or unknown): nothing happens
  | some o =>
    let oc := o.markCancelled
    let w1 := w.announce oc                -- ORDER_CANCELLATION_PASS: the account releases what is still reserved
    ({ w1 with openOrders := w1.openOrders.filter (·.id != id), auctionOrders := w1.auctionOrders.filter (·.id != id),
               finals := oc :: w1.finals },
     [.order (.pendingCancel id), .order (.cancellationPass id)])

/-- `Portfolio.deposit_withdraw` -/
def World.deposit (w : World) (k : Nat) (amount : R) (recv : Option Nat) : World × List WEv :=
  match w.pf.nav, w.pf.accounts[k]? with
  | some n, some a =>
    if n == 0 then (w, [.depositRefused])
    else match a.depositWithdraw amount recv with
      | some _ =>
        let w1 := w.apply k (.deposit amount recv)
        ({ w1 with pf := { w1.pf with units := w1.pf.totalValue / n } }, [])
      | none => (w, [.depositRefused])
  | _, _ => (w, [.depositRefused])

/-! ### the events of a trading day -/

/-- the fee the decider stamps on each reinvestment trade of this morning, in the order the positions are visited
(the trades of one decider share the map entry of the order id `None`) -/
def World.reinvestFees (w : World) (a : Acct) : List (Nat × R) × World :=
  a.holdings.foldl (fun (acc : List (Nat × R) × World) (h : Holding) =>
    if h.cfg.isFuture then acc
    else match acc.2.cfg.find h.ins, acc.2.dayOf h.ins with
      | some wi, some d =>
        let probe := h.long.beforeTradingStock h.cfg d.corp acc.2.cfg.reinvest
                       (fun q p => (acc.2.tradeFee wi none true .open_ q p 0).1)
        match probe.2.2 with
        | some t => (acc.1 ++ [(h.ins, t.fee)], (acc.2.tradeFee wi none true .open_ t.qty t.price 0).2)
        | none => acc
      | _, _ => acc) ([], w)

def World.btInput (w : World) (fees : List (Nat × R)) : BTInput :=
  { today := w.today,
    corp := fun i => match w.dayOf i with | some d => d.corp | none => { bookDps := none, split := none, today := w.today },
    reinvest := w.cfg.reinvest,
    fee := fun i _ _ => match fees.find? (·.1 == i) with | some x => x.2 | none => 0 }

/-- PRE_BEFORE_TRADING -/
def World.preBeforeTrading (w : World) (today : Nat) (taxRate : R) (mkt : List DayIns) : World :=
  let w0 := { w with today := today, taxRate := taxRate, mkt := mkt, phase := .before,
                     pf := w.pf.preBeforeTrading }
  (List.range w0.pf.accounts.length).foldl (fun (w : World) (k : Nat) =>
    match w.acct k with
    | some a =>
      let (fees, w1) := w.reinvestFees a
      w1.apply k (.beforeTrading (w1.btInput fees))
    | none => w) w0

/-- BEFORE_TRADING: the broker clears the matcher's accumulators and re-announces carried orders -/
def World.beforeTrading (w : World) : World × List WEv :=
  ({ w with turnover := [], openOrders := w.openOrders.map Ord.activate },
   w.openOrders.map (fun o => WEv.order (.creationPass o.id)))

def World.barPrices (w : World) : Nat → Option R := fun i => (w.dayOf i).bind (·.close)

/-- BAR: accounts mark to the close, the broker clears the accumulators and runs one matching round -/
def World.onBar (w : World) : World × List WEv :=
  let w0 := { w with phase := .bar }
  let w1 := (List.range w0.pf.accounts.length).foldl (fun (w : World) (k : Nat) => w.apply k (.bar w.barPrices)) w0
  { w1 with turnover := [] }.matchRound

/-- AFTER_TRADING: whatever still rests in the regular book is rejected and announced -/
def World.afterTrading (w : World) : World × List WEv :=
  let rej := w.openOrders.map Ord.markRejected
  let w1 := rej.foldl World.announce { w with phase := .after }
  ({ w1 with openOrders := [], finals := rej.reverse ++ w1.finals }, rej.map (fun o => WEv.order (.unsolicited o.id)))

def World.stInput (w : World) : STInput :=
  { delist := fun i => match w.dayOf i with | some d => d.delist | none => .none,
    settle := fun i => (w.dayOf i).bind (·.settle),
    expires := fun i => match w.dayOf i with | some d => d.expires | none => false,
    forced := w.cfg.forced }

/-- SETTLEMENT -/
def World.settlement (w : World) : World :=
  (List.range w.pf.accounts.length).foldl (fun (w : World) (k : Nat) => w.apply k (.settlement w.stInput)) w

/-- the data layer moves on to the next bar (minute frequency): last prices and matcher inputs of the instruments that have one -/
def World.barData (w : World) (rows : List (Nat × Option R × MBar)) : World :=
  { w with mkt := w.mkt.map (fun d => match rows.find? (·.1 == d.ins) with
      | some r => { d with close := r.2.1, bar := { r.2.2 with listedToday := d.bar.listedToday } }
      | none => d) }

def World.step (w : World) : WIn → World × List WEv
  | .preBeforeTrading today tax mkt => (w.preBeforeTrading today tax mkt, [])
  | .barData rows => (w.barData rows, [])
  | .beforeTrading => w.beforeTrading
  | .openAuction => ({ w with phase := .auction }, [])
  | .bar => w.onBar
  | .afterTrading => w.afterTrading
  | .settlement => (w.settlement, [])
  | .submit o => w.submit o
  | .cancel id => w.cancel id
  | .deposit k amount recv => w.deposit k amount recv
  | .finance k amount => (w.apply k (.finance amount), [])

/-- a whole run: the final world and what was published, in order -/
def World.run (w : World) : List WIn → World × List WEv
  | [] => (w, [])
  | i :: rest =>
    let (w1, e1) := w.step i
    let (w2, e2) := w1.run rest
    (w2, e1 ++ e2)

end RQ.Q

/-
Model of the order-sizing APIs: rqalpha/mod/rqalpha_mod_sys_accounts/api/api_stock.py
(`_round_order_quantity`, `_submit_order`, `_order_shares`, `_order_value`, order_lots / percent / target_value /
target_percent / order_to) and api_future.py (`_submit_order`, `_order`).
The result is the order(s) the API creates: (isBuy, effect, quantity); `none` / `[]` = no order.
-/
import RQ.Num.Q
import RQ.Model.Position
import RQ.Model.Cost
namespace RQ.Q

structure SzIns where
  isKSH : Bool          -- CS on the STAR market (board_type KSH): minimum 200 shares, lot 1
  lot : Int             -- `ins.round_lot`

/-- `KSH_MIN_AMOUNT` -/
def kshMinAmount : R := 200

/-- `_round_order_quantity(ins, quantity)` with `method = int` -/
def roundOrderQty (ins : SzIns) (q : R) : Int :=
  if ins.isKSH then (if (if q < 0 then -q else q) < kshMinAmount then 0 else R.truncI q)
  else R.decQuot10 q (R.ofInt ins.lot) * ins.lot

/-- `_submit_order` (stock): lot rounding unless the amount is exactly the whole holding (odd-lot liquidation);
a zero amount creates no order.  Returns the order quantity. -/
def stockSubmitQty (ins : SzIns) (amount : R) (isBuy : Bool) (currentQty : Int) : Option Int :=
  let needRound := (isBuy && R.ofInt currentQty != -amount) || (!isBuy && R.ofInt currentQty != (if amount < 0 then -amount else amount))
  let a : Int := if needRound then roundOrderQty ins amount else R.truncI amount
  if a = 0 then none else some (if a < 0 then -a else a)

/-- `_order_shares`: side from the sign of the amount -/
def orderShares (ins : SzIns) (amount : R) (currentQty : Int) : Option (Bool × Int) :=
  let isBuy := decide (amount > 0)
  (stockSubmitQty ins amount isBuy currentQty).map (fun q => (isBuy, q))

/-- the decrement loop of `_order_value`: largest candidate `a − k·lot > 0` with `a·price + cost(a) ≤ cash`, else 0 -/
def valueLoop (price cash : R) (cost : Int → R) (lot : Int) (hlot : 0 < lot) (a : Int) : Int :=
  if _h : 0 < a then
    if R.ofInt a * price + cost a ≤ cash then a else valueLoop price cash cost lot hlot (a - lot)
  else 0
termination_by a.toNat
decreasing_by omega

/-- `_order_value(account, position, ins, cash_amount, style)`; `price` = limit price or last price (valid),
`cost a` = estimated transaction cost of a BUY of `a` shares at `price` -/
def orderValue (ins : SzIns) (cashAmount price acctCash : R) (closable posQty : Int) (cost : Int → R) : Option (Bool × Int) :=
  -- a BUY amount is capped by the available cash, which counts as 0 when it is negative (repaired: a negative cap used to turn the buy into a sell)
  let c := if cashAmount > 0 then R.pymin cashAmount (R.pymax acctCash 0) else cashAmount
  let amount0 : Int := R.decQuot10 c price
  let loopLot : Int := if ins.isKSH then 1 else ins.lot
  if c > 0 then
    let a := roundOrderQty ins (R.ofInt amount0)
    if h : 0 < loopLot then
      let r := valueLoop price c cost loopLot h a
      if r = 0 then none else orderShares ins (R.ofInt r) posQty
    else none
  else
    let amount := if amount0 < 0 then max amount0 (-closable) else amount0
    orderShares ins (R.ofInt amount) posQty

/-- share-based stock APIs with `auto_switch_order_value` on: a BUY whose cost (frozen price × quantity + estimated fee) exceeds the
available cash is replaced by `_order_value(account.cash)` — "use all remaining cash"; sells and affordable buys are unchanged.
`price` = limit price or last price (the order's frozen price), `cost q` = estimated cost of a BUY of q shares at that price.
The replacement amount is the available cash, counted as 0 when negative (repaired together with `_order_value`). -/
def orderSharesAuto (ins : SzIns) (amount : R) (posQty closable : Int) (price acctCash : R) (cost : Int → R) : Option (Bool × Int) :=
  match orderShares ins amount posQty with
  | some (true, q) =>
    if price * R.ofInt q + cost q ≤ acctCash then some (true, q)
    else orderValue ins (R.pymax acctCash 0) price acctCash closable posQty cost
  | r => r

/-- `order_lots` -/
def orderLots (ins : SzIns) (lots : R) (currentQty : Int) : Option (Bool × Int) :=
  orderShares ins (lots * R.ofInt (if ins.isKSH then 1 else ins.lot)) currentQty

/-- `order_target_value` / `order_target_percent` with target money `target` (0 ⇒ sell the closable quantity) -/
def orderTargetValue (ins : SzIns) (target marketValue price acctCash : R) (closable posQty : Int) (cost : Int → R) :
    Option (Bool × Int) :=
  if target == 0 then (stockSubmitQty ins (R.ofInt closable) false posQty).map (fun q => (false, q))
  else orderValue ins (target - marketValue) price acctCash closable posQty cost

/-- `order_to` (stock) -/
def stockOrderTo (ins : SzIns) (quantity : R) (posQty : Int) : Option (Bool × Int) :=
  orderShares ins (quantity - R.ofInt posQty) posQty

/-! ### order_target_portfolio -/

/-- `_round_order_quantity(ins, quantity, method=round)` -/
def roundOrderQtyRound (ins : SzIns) (q : R) : Int :=
  if ins.isKSH then (if (if q < 0 then -q else q) < kshMinAmount then 0 else R.truncI q)
  else R.decQuotRound10 q (R.ofInt ins.lot) * ins.lot

/-- one entry of the target portfolio, with what the function reads for it -/
structure OtpItem where
  ins : SzIns
  percent : R            -- target weight (≥ 0)
  last : R               -- last price (valid)
  openP : R              -- price of the opening style: its limit, or the last price for a market order
  closeP : R             -- same for the closing style
  openMkt : Bool
  closeMkt : Bool
  cur : Int              -- current holding
  isCS : Bool            -- common stock (stamp tax on sales); funds are not

/-- an order the function creates: index of the entry, side, quantity, limit (none = market) -/
structure OtpOrder where
  idx : Nat
  isBuy : Bool
  qty : Int
  limit : Option R
deriving Repr

/-- the closing orders (entries whose rounded difference is negative), in entry order, and the entries waiting to buy.
-/
def otpSplit (value : R) : List OtpItem → Nat → List (OtpOrder × R × Bool) × List (Nat × OtpItem × Int)
  | [], _ => ([], [])
  | it :: rest, i =>
    let (cs, ws) := otpSplit value rest (i + 1)
    let d := roundOrderQtyRound it.ins (value * it.percent / it.closeP - R.ofInt it.cur)
    if d = 0 then (cs, ws)
    else if d > 0 then (cs, (i, it, d) :: ws)
    else
      let q := min (-d) it.cur              -- (repaired) never more than is held: an odd lot that rounds up is sold whole
      if q = 0 then (cs, ws) else           -- (repaired) nothing held: no order (a negative account value gives a negative target quantity)
      ((⟨i, false, q, if it.closeMkt then none else some it.closeP⟩, (if it.closeMkt then it.last else it.closeP), it.isCS) :: cs, ws)

/-- the buying pass: each waiting entry in order against the running cash estimate -/
def otpBuys (costV : R → R) : R → List (Nat × OtpItem × Int) → List OtpOrder
  | _, [] => []
  | est, (i, it, d) :: rest =>
    let cost := R.ofInt d * it.last + costV (R.ofInt d * it.last)
    if cost > est then
      let d2 := roundOrderQty it.ins (R.pymax est 0 / it.last)      -- (repaired) a negative cash estimate counts as 0
      if d2 = 0 then otpBuys costV est rest
      else
        let cost2 := R.ofInt d2 * it.last + costV (R.ofInt d2 * it.last)
        ⟨i, true, d2, if it.openMkt then none else some it.openP⟩ :: otpBuys costV (est - cost2) rest
    else ⟨i, true, d, if it.openMkt then none else some it.openP⟩ :: otpBuys costV (est - cost) rest

/-- `order_target_portfolio` for a target whose keys cover every current holding (holdings outside the target are sold
at market first, before the account is read): `value` = account total value, `cash` = available cash,
`costV v` = `get_transaction_cost_with_value(v)` (signed value: negative = sale), `sellCost isCS q price` = estimated cost
of a closing order.  Closing orders first, then the opening orders. -/
def orderTargetPortfolio (value cash : R) (items : List OtpItem) (costV : R → R) (sellCost : Bool → Int → R → R) : List OtpOrder :=
  let total := R.pysum (items.map (·.percent))
  let value' := if total == 1 then
      value - items.foldl (fun acc it => acc + costV (it.percent * value - R.ofInt it.cur * it.last)) 0
    else value
  let (cs, ws) := otpSplit value' items 0
  let est := cash + R.pysum (cs.map (fun (o, frozen, isCS) => R.ofInt o.qty * frozen - sellCost isCS o.qty frozen))
  cs.map (·.1) ++ otpBuys costV est ws

/-! ### futures -/

structure Leg where
  isBuy : Bool
  effect : Effect
  qty : Int
deriving DecidableEq, Repr

/-- `api_future._submit_order`: the orders it creates for one request (before the validators);
`amount` is already `int(amount)`.  An over-sized close creates nothing. -/
def futSubmitLegs (amount : Int) (isBuy : Bool) (effect : Effect) (posQty oldQty todayClosable : Int) : List Leg :=
  if amount = 0 then []
  else match effect with
    | .open_ => [⟨isBuy, .open_, amount⟩]
    | .closeToday => if amount > todayClosable then [] else [⟨isBuy, .closeToday, amount⟩]
    | .close =>
      if amount > posQty then []
      else if amount > oldQty then
        (if oldQty ≠ 0 then [⟨isBuy, .close, oldQty⟩] else []) ++ [⟨isBuy, .closeToday, amount - oldQty⟩]
      else [⟨isBuy, .close, amount⟩]

/-- `api_future._submit_order` from the caller's number: `amount = int(amount)` comes first, so a request of less than one
lot is "0 order quantity" and creates nothing -/
def futSubmit (amount : R) (isBuy : Bool) (effect : Effect) (posQty oldQty todayClosable : Int) : List Leg :=
  futSubmitLegs (R.truncI amount) isBuy effect posQty oldQty todayClosable

/-- `api_future._order(order_book_id, quantity, style, target)`: the requests handed to `_submit_order`, in order:
close yesterday's, close today's, open -/
def futOrderRequests (quantity : Int) (target : Bool) (longQty longOld shortQty shortOld : Int) : List Leg :=
  let q0 := if target then quantity - (longQty - shortQty) else quantity
  let isBuy := decide (q0 > 0)
  let old := if isBuy then shortOld else longOld
  let today := if isBuy then shortQty - shortOld else longQty - longOld
  let q := if isBuy then q0 else -q0
  let l1 : List Leg := if old > 0 then [⟨isBuy, .close, min q old⟩] else []
  let q1 := if old > 0 then q - old else q
  if q1 ≤ 0 then l1
  else
    let l2 : List Leg := if today > 0 then [⟨isBuy, .closeToday, min q1 today⟩] else []
    let q2 := if today > 0 then q1 - today else q1
    if q2 ≤ 0 then l1 ++ l2 else l1 ++ l2 ++ [⟨isBuy, .open_, q2⟩]

end RQ.Q

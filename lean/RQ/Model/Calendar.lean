/-
Model of rqalpha/data/trading_dates_mixin.py.  Dates are natural numbers in any strictly increasing
encoding (the harness uses proleptic day ordinals); only their order matters here.
`numpy.searchsorted` is modelled as a count, which is what it returns on a sorted array.
-/
import RQ.Num.Q
namespace RQ.Q

/-- `a.searchsorted(x)` (side='left') on a sorted list -/
def ssLeft (l : List Nat) (x : Nat) : Nat := (l.filter (· < x)).length
/-- `a.searchsorted(x, side='right')` -/
def ssRight (l : List Nat) (x : Nat) : Nat := (l.filter (· ≤ x)).length

/-- Python slice `l[a:b]` for `0 ≤ a`, `0 ≤ b` -/
def pySlice {α : Type} (l : List α) (a b : Nat) : List α := (l.drop a).take (b - a)

/-- `get_trading_dates(start, end)` -/
def getTradingDates (cal : List Nat) (s e : Nat) : List Nat := pySlice cal (ssLeft cal s) (ssRight cal e)

/-- `get_previous_trading_date(date, n)`; `none` only for an empty calendar (IndexError in Python) -/
def prevTradingDate (cal : List Nat) (d : Nat) (n : Nat) : Option Nat :=
  let pos := ssLeft cal d
  if pos ≥ n then cal[pos - n]? else cal[0]?

/-- `get_next_trading_date(date, n)` -/
def nextTradingDate (cal : List Nat) (d : Nat) (n : Nat) : Option Nat :=
  let pos := ssRight cal d
  if pos + n > cal.length then cal.getLast? else cal[pos + n - 1]?

/-- `is_trading_date(date)` -/
def isTradingDate (cal : List Nat) (d : Nat) : Bool :=
  let pos := ssLeft cal d
  match cal[pos]? with
  | some x => x == d
  | none => false

/-- `get_n_trading_dates_until(dt, n)` -/
def nTradingDatesUntil (cal : List Nat) (d : Nat) (n : Nat) : List Nat :=
  let pos := ssRight cal d
  if pos ≥ n then pySlice cal (pos - n) pos else pySlice cal 0 pos

/-- `count_trading_dates(start, end)` (an integer: negative when the range is inverted) -/
def countTradingDates (cal : List Nat) (s e : Nat) : Int := (ssRight cal e : Int) - (ssLeft cal s : Int)

/-- insertion into a strictly increasing list; a date already present is not added again -/
def insertSorted (x : Nat) : List Nat → List Nat
  | [] => [x]
  | y :: ys => if x < y then x :: y :: ys else if x = y then y :: ys else y :: insertSorted x ys

/-- `TradingDatesMixin.__init__`: the merged calendar of all registered calendars (exchange, inter-bank, …) is the SORTED SET UNION of their days;
it is what `get_trading_dates` answers from and therefore what the event source walks through -/
def mergeCals (cs : List (List Nat)) : List Nat := (cs.flatten).foldr insertSorted []

end RQ.Q

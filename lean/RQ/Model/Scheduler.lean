/-
Model of rqalpha/mod/rqalpha_mod_sys_scheduler/scheduler.py.
Dates are proleptic Gregorian day ordinals (`datetime.date.toordinal()`): ordinal 1 = 0001-01-01, a Monday.
-/
import RQ.Num.Q
import RQ.Model.Calendar
namespace RQ.Q

/-! ### civil dates -/

/-- `date.weekday()` (Monday = 0) of a day ordinal -/
def weekday (d : Nat) : Nat := (d + 6) % 7
/-- `date.isoweekday()` (Monday = 1) -/
def isoWeekday (d : Nat) : Nat := weekday d + 1

/-- day ordinal of a civil date (Hinnant's `days_from_civil`, shifted to Python's ordinal); years ≥ 1 -/
def ordinalOfCivil (y m d : Nat) : Nat :=
  let y' := if m ≤ 2 then y - 1 else y
  let era := y' / 400
  let yoe := y' - era * 400
  let mp := if m > 2 then m - 3 else m + 9
  let doy := (153 * mp + 2) / 5 + d - 1
  let doe := yoe * 365 + yoe / 4 - yoe / 100 + doy
  era * 146097 + doe + 719163 - 719468 + 1 - 1

/-- civil date (year, month, day) of a day ordinal (`civil_from_days`) -/
def civilOfOrdinal (n : Nat) : Nat × Nat × Nat :=
  let z := n + 719468 - 719163
  let era := z / 146097
  let doe := z - era * 146097
  let yoe := (doe - doe / 1460 + doe / 36524 - doe / 146096) / 365
  let y := yoe + era * 400
  let doy := doe - (365 * yoe + yoe / 4 - yoe / 100)
  let mp := (5 * doy + 2) / 153
  let d := doy - (153 * mp + 2) / 5 + 1
  let m := if mp < 10 then mp + 3 else mp - 9
  (if m ≤ 2 then y + 1 else y, m, d)

/-- `_fill_week`: Monday .. Sunday of the ISO week of `today` -/
def weekBounds (today : Nat) : Nat × Nat :=
  let weekend := today + (7 - isoWeekday today)
  (weekend - 6, weekend)

/-- `_fill_month`: first day of the month of `today` and first day of the next month -/
def monthBounds (today : Nat) : Nat × Nat :=
  let (y, m, _) := civilOfOrdinal today
  let monthEnd := if m + 1 > 12 then ordinalOfCivil (y + 1) 1 1 else ordinalOfCivil y (m + 1) 1
  (ordinalOfCivil y m 1, monthEnd)

/-- `_fill_week`: `calendar[searchsorted(week_start) : searchsorted(weekend, 'right')]` over the WHOLE calendar -/
def fillWeek (cal : List Nat) (today : Nat) : List Nat :=
  let b := weekBounds today
  pySlice cal (ssLeft cal b.1) (ssRight cal b.2)

/-- `_fill_month`: `calendar[searchsorted(month_begin) : searchsorted(month_end)]` -/
def fillMonth (cal : List Nat) (today : Nat) : List Nat :=
  let b := monthBounds today
  pySlice cal (ssLeft cal b.1) (ssLeft cal b.2)

/-- Python list indexing with negative indices; `none` is IndexError -/
def pyIndex {α : Type} (l : List α) (n : Int) : Option α :=
  if n ≥ 0 then l[n.toNat]?
  else if (-n).toNat ≤ l.length then l[l.length - (-n).toNat]? else none

/-- `_is_nth_trading_day_in_week/_month`: `bucket[n] == today`, IndexError ⇒ False -/
def isNth (bucket : List Nat) (n : Int) (today : Nat) : Bool :=
  match pyIndex bucket n with
  | some d => d == today
  | none => false

/-- argument normalisation of `run_weekly(tradingday=k)` / `run_monthly(tradingday=k)`: `k > 0 ↦ k − 1` -/
def normTradingDay (k : Int) : Int := if k > 0 then k - 1 else k

inductive DayRule
  | daily
  | weekday (wd : Nat)            -- `run_weekly(weekday=wd)`, wd ∈ [1,7]
  | weekNth (k : Int)             -- `run_weekly(tradingday=k)`
  | monthNth (k : Int)            -- `run_monthly(tradingday=k)`
deriving DecidableEq, Repr

/-- argument check of the registration functions (`none` = ValueError) -/
def DayRule.valid : DayRule → Bool
  | .daily => true
  | .weekday wd => 1 ≤ wd && wd ≤ 7
  | .weekNth k => !(k > 5 || k < -5 || k == 0)
  | .monthNth k => !(k > 23 || k < -23 || k == 0)

/-- cached buckets of the scheduler -/
structure SchedDay where
  today : Nat
  thisWeek : List Nat
  thisMonth : List Nat

/-- `next_day_` (bucket part): refill a bucket when it is empty or `today` is past its last element -/
def nextDay (cal : List Nat) (s : SchedDay) (today : Nat) : SchedDay :=
  let refill (b : List Nat) : Bool := match b.getLast? with
    | none => true
    | some l => today > l
  { today := today,
    thisWeek := if refill s.thisWeek then fillWeek cal today else s.thisWeek,
    thisMonth := if refill s.thisMonth then fillMonth cal today else s.thisMonth }

def dayRuleHolds (s : SchedDay) : DayRule → Bool
  | .daily => true
  | .weekday wd => weekday s.today == wd - 1
  | .weekNth k => isNth s.thisWeek (normTradingDay k) s.today
  | .monthNth k => isNth s.thisMonth (normTradingDay k) s.today

/-! ### time rules -/

inductive TimeRule
  | beforeTrading
  | minute (n : Nat)              -- minutes since midnight
deriving DecidableEq, Repr

structure SchedCfg where
  freq1d : Bool
  ranges : List (Nat × Nat)       -- `_trading_minute_range`
  startMinute : Nat               -- `_start_minute`

structure SchedClock where
  lastMinute : Nat
  currentMinute : Nat
  stageBT : Bool                  -- `_stage == "before_trading"`

/-- the stock baseline session `{(571, 690), (780, 900)}` -/
def stockBaseline : List (Nat × Nat) := [(571, 690), (780, 900)]

/-- `_universe_change`: the ranges after the universe changed — the trading hours of every universe member whose account
type is configured (`hours`, one list of (start, end) minutes per such member), plus the stock baseline whenever a stock
account is configured -/
def universeRanges (stockAccount : Bool) (hours : List (List (Nat × Nat))) : List (Nat × Nat) :=
  hours.flatten ++ (if stockAccount then stockBaseline else [])

/-- `_universe_change`: `_start_minute` only ever grows: the largest (first-session start − 1) seen so far -/
def universeStartMinute (start0 : Nat) (hours : List (List (Nat × Nat))) : Nat :=
  hours.foldl (fun acc h => match h with
    | [] => acc
    | r :: _ => max (r.1 - 1) acc) start0

def inRanges (ranges : List (Nat × Nat)) (n : Nat) : Bool := ranges.any (fun r => r.1 ≤ n && n ≤ r.2)

/-- `_should_trigger(n)` -/
def shouldTrigger (cfg : SchedCfg) (c : SchedClock) (n : Nat) : Bool :=
  if !(cfg.ranges.any (fun r => r.1 ≤ n && n ≤ r.2)) then false
  else if c.stageBT then false
  else if cfg.freq1d then true
  else if n == 0 && c.currentMinute == n then true
  else c.lastMinute < n && n ≤ c.currentMinute

def timeRuleHolds (cfg : SchedCfg) (c : SchedClock) : TimeRule → Bool
  | .beforeTrading => c.stageBT
  | .minute n => shouldTrigger cfg c n

/-- default time rule (`time_rule=None`): 09:31 -/
def defaultMinute : Nat := 9 * 60 + 31

/-- `market_open(hour, minute)` -/
def marketOpen (hour minute : Int) : Int :=
  let m := 9 * 60 + 31 + hour * 60 + minute
  if m > 11 * 60 + 30 then m + 90 else m
/-- `market_close(hour, minute)` -/
def marketClose (hour minute : Int) : Int :=
  let m := 15 * 60 - hour * 60 - minute
  if m < 13 * 60 then m - 90 else m
/-- `physical_time(hour, minute)` -/
def physicalTime (hour minute : Int) : Int := hour * 60 + minute

/-- One trading day of one registered function: the before-trading slot, then the bars (minutes since midnight)
in order.  Returns (fired in the before-trading slot, minutes of the bars at which it fired). -/
def dayFirings (cfg : SchedCfg) (dayOk : Bool) (tr : TimeRule) (bars : List Nat) : Bool × List Nat :=
  let bt := dayOk && timeRuleHolds cfg { lastMinute := cfg.startMinute, currentMinute := 0, stageBT := true } tr
  let rec go (last : Nat) : List Nat → List Nat
    | [] => []
    | m :: rest =>
      let fire := dayOk && timeRuleHolds cfg { lastMinute := last, currentMinute := m, stageBT := false } tr
      (if fire then [m] else []) ++ go m rest
  (bt, go cfg.startMinute bars)

end RQ.Q

/-
Model of rqalpha/portfolio/account.py (Account): ledger operations and observers.
Positions are kept in dict-insertion order; `_iter_pos` yields long then short of each instrument.
-/
import RQ.Num.Q
import RQ.Model.Position
namespace RQ.Q

structure Holding where
  ins : Nat
  cfg : InsCfg
  long : Pos
  short : Pos

structure Acct where
  totalCash : R
  frozen : R
  liabilities : R
  pending : List (Nat × R)      -- `_pending_deposit_withdraw`: (receiving date, amount), sorted by date
  mgmtFees : R
  mgmtRate : R
  finRate : R
  holdings : List Holding

/-! ### observers -/

def Acct.iterPos (a : Acct) : List (InsCfg × Pos) := a.holdings.flatMap (fun h => [(h.cfg, h.long), (h.cfg, h.short)])

/-- `margin` -/
def Acct.margin (a : Acct) : R := R.pysum (a.iterPos.map (fun (c, p) => p.margin c))
/-- `market_value` -/
def Acct.marketValue (a : Acct) : R :=
  R.pysum (a.iterPos.map (fun (c, p) => p.marketValue c * (if p.isLong then 1 else -1)))
/-- `position_equity` -/
def Acct.positionEquity (a : Acct) : R := R.pysum (a.iterPos.map (fun (c, p) => p.equity c))
/-- `cash_liabilities_interest` -/
def Acct.liabInterest (a : Acct) : R := a.liabilities * a.finRate / 365
/-- `cash` (available) -/
def Acct.cash (a : Acct) : R := a.totalCash - a.margin - a.frozen
/-- `total_value` -/
def Acct.totalValue (a : Acct) : R :=
  let tv := a.totalCash + a.positionEquity - a.liabilities - a.liabInterest
  if a.pending.isEmpty then tv else tv + R.pysum (a.pending.map (·.2))
/-- `transaction_cost` -/
def Acct.transactionCost (a : Acct) : R := R.pysum (a.iterPos.map (fun (_, p) => p.txnCost))
/-- `trading_pnl` -/
def Acct.tradingPnl (a : Acct) : R := R.pysum (a.iterPos.map (fun (c, p) => p.tradingPnl c))

/-! ### helpers -/

def Acct.findHolding (a : Acct) (ins : Nat) : Option Holding := a.holdings.find? (·.ins == ins)

def Acct.setPos (a : Acct) (ins : Nat) (isLong : Bool) (p : Pos) : Acct :=
  { a with holdings := a.holdings.map (fun h =>
      if h.ins == ins then (if isLong then { h with long := p } else { h with short := p }) else h) }

/-- `_get_or_create_pos`: a new pair of empty positions marked at `createLast` is appended -/
def Acct.getOrCreate (a : Acct) (ins : Nat) (cfg : InsCfg) (createLast : R) : Acct :=
  match a.findHolding ins with
  | some _ => a
  | none => { a with holdings := a.holdings ++ [{ ins := ins, cfg := cfg, long := Pos.empty true createLast,
                                                  short := Pos.empty false createLast }] }

def Acct.getPos (a : Acct) (ins : Nat) (isLong : Bool) : Option (InsCfg × Pos) :=
  (a.findHolding ins).map (fun h => (h.cfg, if isLong then h.long else h.short))

/-- `_frozen_cash_of_order`: cash occupation for OPEN (stock: price × qty; futures: margin) plus the estimated cost -/
def frozenCashOfOrder (cfg : InsCfg) (frozenPrice : R) (qty : Int) (isOpen : Bool) (orderCost : R) : R :=
  let occ : R :=
    if isOpen then
      (if cfg.isFuture then frozenPrice * R.ofInt qty * cfg.mult * cfg.marginRatio * cfg.marginMult
       else frozenPrice * R.ofInt qty)
    else 0
  occ + orderCost

/-! ### operations -/

/-- `_on_order_pending_new` -/
def Acct.onPendingNew (a : Acct) (initFrozen : R) : Acct := { a with frozen := a.frozen + initFrozen }

/-- `_on_order_unsolicited_update` (also cancellation pass) -/
def Acct.onUnsolicited (a : Acct) (qty filled : Int) (initFrozen : R) : Acct :=
  if filled ≠ 0 then { a with frozen := a.frozen - R.ofInt (qty - filled) / R.ofInt qty * initFrozen }
  else { a with frozen := a.frozen - initFrozen }

/-- `apply_trade`; `order = some (quantity, init_frozen_cash)` for a trade of an order -/
def Acct.applyTrade (a : Acct) (ins : Nat) (cfg : InsCfg) (createLast : R) (isLong : Bool) (t : TradeIn)
    (order : Option (Int × R)) : Acct :=
  let a1 : Acct := match order with
    | some (oq, init) =>
      if t.qty ≠ oq then { a with frozen := a.frozen - R.ofInt t.qty / R.ofInt oq * init }
      else { a with frozen := a.frozen - init }
    | none => a
  let a2 := a1.getOrCreate ins cfg createLast
  match a2.getPos ins isLong with
  | some (c, p) =>
    let r := p.applyTrade c t
    { (a2.setPos ins isLong r.1) with totalCash := a2.totalCash + r.2 }
  | none => a2

/-- `_on_bar`: mark both positions of each instrument at the new last price when it is a number -/
def Acct.onBar (a : Acct) (price : Nat → Option R) : Acct :=
  { a with holdings := a.holdings.map (fun h => match price h.ins with
      | some p => { h with long := { h.long with last := p }, short := { h.short with last := p } }
      | none => h) }

/-- inputs of one before_trading -/
structure BTInput where
  today : Nat
  corp : Nat → CorpDay           -- per instrument (stocks)
  reinvest : Bool
  fee : Nat → Int → R → R        -- instrument → quantity → price → commission+tax of a reinvestment trade

/-- `_on_before_trading` -/
def Acct.onBeforeTrading (a : Acct) (i : BTInput) : Acct :=
  -- purge instruments whose positions are all empty (quantity 0 and equity 0)
  let hs := a.holdings.filter (fun h =>
    !((h.long.qty == 0 && h.long.equity h.cfg == 0) && (h.short.qty == 0 && h.short.equity h.cfg == 0)))
  -- receive pending deposits/withdrawals that are due
  let due := a.pending.takeWhile (fun d => d.1 ≤ i.today)
  let rest := a.pending.dropWhile (fun d => d.1 ≤ i.today)
  let cash1 := due.foldl (fun c d => c + d.2) a.totalCash
  -- positions, in iteration order; `self._total_cash += position.before_trading(d)` reads `_total_cash` BEFORE the call,
  -- so what a reinvestment trade does to `_total_cash` inside the call is overwritten
  let step (acc : R × List Holding) (h : Holding) : R × List Holding :=
    if h.cfg.isFuture then
      (acc.1 + 0 + 0, acc.2 ++ [{ h with long := h.long.beforeTradingBase, short := h.short.beforeTradingBase }])
    else
      let rl := h.long.beforeTradingStock h.cfg (i.corp h.ins) i.reinvest (i.fee h.ins)
      -- a SHORT stock position raises in the code unless it is empty; the empty case returns early
      let sb := h.short.beforeTradingBase
      (acc.1 + rl.2.1 + 0, acc.2 ++ [{ h with long := rl.1, short := sb }])
  let r := hs.foldl step (cash1, [])
  let liab := if a.liabilities > 0 then a.liabilities + a.liabilities * a.finRate / 365 else a.liabilities
  { a with totalCash := r.1, pending := rest, holdings := r.2, liabilities := liab }

/-- per-instrument inputs of one settlement -/
structure STInput where
  delist : Nat → DelistKind          -- stocks
  settle : Nat → Option R            -- futures: settlement price when the mode is "settlement"
  expires : Nat → Bool               -- futures: delisted on the next trading day
  forced : Bool                      -- config base.forced_liquidation

/-- `_on_settlement` (share conversion excluded: see `Acct.convert`) -/
def Acct.onSettlement (a : Acct) (i : STInput) : Acct :=
  let step (acc : R × List Holding) (h : Holding) : R × List Holding :=
    if h.cfg.isFuture then
      let rl := h.long.settlementFuture h.cfg (i.settle h.ins) (i.expires h.ins)
      let rs := h.short.settlementFuture h.cfg (i.settle h.ins) (i.expires h.ins)
      (acc.1 + rl.2.1 + rs.2.1, acc.2 ++ [{ h with long := rl.1, short := rs.1 }])
    else
      let rl := h.long.settlementStock (i.delist h.ins)
      let rs := h.short.settlementStock .none
      (acc.1 + rl.2 + rs.2, acc.2 ++ [{ h with long := rl.1, short := rs.1 }])
  let r := a.holdings.foldl step (a.totalCash, [])
  let a1 := { a with totalCash := r.1, holdings := r.2 }
  let fee : R := if a1.mgmtRate == 0 then 0 else a1.totalValue * a1.mgmtRate
  let a2 := { a1 with mgmtFees := a1.mgmtFees + fee, totalCash := a1.totalCash - fee }
  if a2.totalValue ≤ 0 && i.forced then { a2 with holdings := [], totalCash := 0 } else a2

/-- `deposit_withdraw`; `none` = ValueError (insufficient cash).  `recv = some d`: pending until trading date `d` -/
def Acct.depositWithdraw (a : Acct) (amount : R) (recv : Option Nat) : Option Acct :=
  if amount < 0 && a.cash < amount * R.ofInt (-1) then none
  else match recv with
    | some d =>
      -- append, then stable sort by date = insert after the last entry with date ≤ d
      let before := a.pending.filter (fun x => x.1 ≤ d)
      let after := a.pending.filter (fun x => d < x.1)
      some { a with pending := before ++ [(d, amount)] ++ after }
    | none => some { a with totalCash := a.totalCash + amount }

/-- `finance_repay` on a stock account -/
def Acct.financeRepay (a : Acct) (amount : R) : Acct :=
  if amount > 0 then { a with liabilities := a.liabilities + amount, totalCash := a.totalCash + amount }
  else if amount < 0 then
    let amt := amount * R.ofInt (-1)
    let excess := R.pymin 0 (a.liabilities - amt)
    { a with liabilities := R.pymax 0 (a.liabilities - amt), totalCash := a.totalCash - (amt + excess) }
  else a

/-- share conversion at the settlement of the predecessor's last day, as coded: a synthetic purchase of the successor at
`avg / ratio` through `apply_trade`, the successor marked at `last / ratio`, then the predecessor's MARKET VALUE added back
and the predecessor emptied (finding F5: the cash consumed was `avg · q`, not `last · q`).
`repaired = true` gives back `avg · q` instead. -/
def Acct.convert (a : Acct) (pred succ : Nat) (succCfg : InsCfg) (succCreateLast : R) (ratio : R) (succQty : Int)
    (repaired : Bool) : Acct :=
  match a.getPos pred true with
  | none => a
  | some (_, p) =>
    if p.qty = 0 then a else
    let t : TradeIn := { price := p.avg / ratio, qty := succQty, effect := .open_, fee := 0 + 0 }
    let a1 := a.applyTrade succ succCfg succCreateLast true t none
    let a2 := { a1 with holdings := a1.holdings.map (fun (h : Holding) =>
      if h.ins == succ then { h with long := { h.long with last := p.last / ratio }, short := { h.short with last := p.last / ratio } } else h) }
    let back : R := if repaired then p.avg * R.ofInt p.qty else p.last * R.ofInt p.qty
    let a3 := a2.setPos pred true { p with qty := 0, oldQty := 0 }
    { a3 with totalCash := a3.totalCash + back }

end RQ.Q

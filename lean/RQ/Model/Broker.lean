/-
Model of rqalpha/mod/rqalpha_mod_sys_simulation/simulation_broker.py (SimulationBroker): the two order books,
submit / cancel / match round / before_trading / after_trading, and the order events they publish.
The matcher's decisions are inputs (`decide : Ord → MOutcome`-like function), so that the theorems hold for every market.
-/
import RQ.Num.Q
import RQ.Model.Order
import RQ.Model.Matcher
namespace RQ.Q

inductive OEvent
  | pendingNew (id : Nat)
  | creationPass (id : Nat)
  | trade (id : Nat) (q : Int) (price : R) (fee : R)
  | unsolicited (id : Nat)
  | pendingCancel (id : Nat)
  | cancellationPass (id : Nat)
deriving Repr

structure Broker where
  openOrders : List Ord             -- `_open_orders`
  auctionOrders : List Ord          -- `_open_auction_orders`
  matchImmediately : Bool           -- matching type current_bar / vwap

/-- the matcher as a function of the order and whether it is matched as an auction order; `fee` = commission + tax of a
fill (inputs; C05/C06/C11 say what they can be) -/
structure Oracle where
  decide : Ord → Bool → MOutcome
  fee : Int → R → R

/-- `get_open_orders()` -/
def Broker.getOpen (b : Broker) : List Ord := b.openOrders ++ b.auctionOrders

/-- one matcher call on a non-final order: the order afterwards and the TRADE event if it filled -/
def matchOne (orc : Oracle) (auction : Bool) (o : Ord) : Ord × List OEvent :=
  if o.isFinal then (o, [])
  else
    let out := orc.decide o auction
    let o' := orderAfter o orc.fee out
    match out with
    | .fill q p _ _ => (o', [.trade o.id q p (orc.fee q p)])
    | _ => (o', [])

/-- `_match()`: regular book first, then the auction book (matched as auction orders); final orders leave, REJECTED /
CANCELLED ones are announced with ORDER_UNSOLICITED_UPDATE; survivors of BOTH books continue in the regular book -/
def Broker.matchRound (b : Broker) (orc : Oracle) : Broker × List OEvent :=
  let r1 := b.openOrders.map (matchOne orc false)
  let r2 := b.auctionOrders.map (matchOne orc true)
  let all := (r1 ++ r2).map (·.1)
  let trades := (r1 ++ r2).flatMap (·.2)
  let finals := all.filter (·.isFinal)
  let ann := (finals.filter (fun o => o.status == .rejected || o.status == .cancelled)).map (fun o => OEvent.unsolicited o.id)
  ({ b with openOrders := all.filter (fun o => !o.isFinal), auctionOrders := [] }, trades ++ ann)

/-- `submit_order(order)` in phase `inAuction`; `initFinal` = the order is already final after ORDER_PENDING_NEW
(a listener rejected it) -/
def Broker.submit (b : Broker) (orc : Oracle) (o : Ord) (inAuction : Bool) : Broker × List OEvent :=
  if o.isFinal then (b, [.pendingNew o.id])
  else
    let o' := o.activate
    let b1 := if inAuction then { b with auctionOrders := b.auctionOrders ++ [o'] }
              else { b with openOrders := b.openOrders ++ [o'] }
    let evs := [OEvent.pendingNew o.id, .creationPass o.id]
    if b.matchImmediately then
      let r := b1.matchRound orc
      (r.1, evs ++ r.2)
    else (b1, evs)

/-- `cancel_order(order)`: nothing happens for an order that is already final (repaired: finding F23); otherwise
PENDING_CANCEL, the order is marked cancelled, CANCELLATION_PASS, and it is removed from BOTH books (repaired: finding F4 —
the original code removed it from the regular book only) -/
def Broker.cancel (b : Broker) (o : Ord) : Broker × List OEvent :=
  if o.isFinal then (b, [])
  else
    let upd := fun (x : Ord) => if x.id == o.id then x.markCancelled else x
    ({ b with openOrders := (b.openOrders.map upd).filter (fun x => x.id != o.id),
              auctionOrders := (b.auctionOrders.map upd).filter (fun x => x.id != o.id) },
     [.pendingCancel o.id, .cancellationPass o.id])

/-- `after_trading`: everything still in the regular book is rejected and announced; the book is emptied -/
def Broker.afterTrading (b : Broker) : Broker × List OEvent :=
  ({ b with openOrders := [] }, b.openOrders.map (fun o => OEvent.unsolicited o.id))

/-- `before_trading`: orders carried over are re-activated and re-announced -/
def Broker.beforeTrading (b : Broker) : Broker × List OEvent :=
  ({ b with openOrders := b.openOrders.map Ord.activate }, b.openOrders.map (fun o => OEvent.creationPass o.id))

/-- `on_bar`: matcher accumulators are cleared (not part of this state), then a match round -/
def Broker.onBar (b : Broker) (orc : Oracle) : Broker × List OEvent := b.matchRound orc

end RQ.Q

/-
Model of rqalpha/mod/rqalpha_mod_sys_transaction_cost/deciders.py
(StockTransactionCostDecider / CNStockTransactionCostDecider / CNFutureTransactionCostDecider).
Expression structure (association order of products) mirrors the Python text so that the
`Float` instance is bit-identical to CPython.
-/
import RQ.Num.Q
namespace RQ.Q

/-- configuration of the stock decider (rates come from `RQ/Gen/Consts.lean`, regenerated from source) -/
structure StockCostCfg where
  rate : R          -- commission_rate
  mult : R          -- commission_multiplier
  minC : R          -- min_commission
  taxRate : R       -- tax rate currently in force
  taxMult : R       -- tax_multiplier

/-- raw commission of one fill: `last_price * last_quantity * commission_rate * commission_multiplier` -/
def rawCommission (cfg : StockCostCfg) (price qty : R) : R := price * qty * cfg.rate * cfg.mult

/-- `get_trade_commission`: `rem` is `commission_map[order_id]` (remaining minimum commission).
Returns (charged commission, new remaining minimum). -/
def tradeCommission (cfg : StockCostCfg) (rem price qty : R) : R × R :=
  let c := rawCommission cfg price qty
  if c > rem then
    if rem == cfg.minC then (c, 0) else (c - rem, 0)
  else
    if rem == cfg.minC then (rem, rem - c) else (0, rem - c)

/-- charge a whole fill sequence of ONE order, starting from a fresh map entry (`rem = min_commission`).
Returns the list of per-fill commissions. -/
def chargeFills (cfg : StockCostCfg) : R → List (R × R) → List R
  | _, [] => []
  | rem, (p, q) :: rest =>
    let r := tradeCommission cfg rem p q
    r.1 :: chargeFills cfg r.2 rest

/-- `CNStockTransactionCostDecider._get_tax` / `get_trade_tax`: only SELL of common stock (`CS`) -/
def stockTax (cfg : StockCostCfg) (isCS isSell : Bool) (costMoney : R) : R :=
  if !isCS then 0 else if isSell then costMoney * cfg.taxRate * cfg.taxMult else 0

/-- `_get_order_commission` -/
def orderCommission (cfg : StockCostCfg) (price qty : R) : R :=
  R.pymax (price * qty * cfg.rate * cfg.mult) cfg.minC

/-- `get_order_transaction_cost` (stock): `tax + commission` -/
def stockOrderCost (cfg : StockCostCfg) (isCS isSell : Bool) (frozenPrice qty : R) : R :=
  stockTax cfg isCS isSell (frozenPrice * qty) + orderCommission cfg frozenPrice qty

/-- `get_transaction_cost_with_value` -/
def stockCostWithValue (cfg : StockCostCfg) (isSell : Bool) (value : R) : R :=
  (if isSell then value * cfg.taxRate * cfg.taxMult else 0) + R.pymax (value * cfg.rate * cfg.mult) cfg.minC

/-- `set_tax_rate`: rate in force on a trading date (dates as YYYYMMDD naturals) -/
def pitTaxRate (changeDate : Nat) (before after : R) (tradingDate : Nat) : R :=
  if tradingDate < changeDate then before else after

/-- futures trading parameters of one contract -/
structure FutCostCfg where
  byMoney : Bool
  openR : R
  closeR : R
  closeTodayR : R
  contractMult : R
  commMult : R       -- commission_multiplier

/-- `CNFutureTransactionCostDecider._get_commission` -/
def futCommission (cfg : FutCostCfg) (isOpen : Bool) (price qty closeToday : R) : R :=
  let c : R :=
    if cfg.byMoney then
      if isOpen then 0 + price * qty * cfg.contractMult * cfg.openR
      else 0 + price * (qty - closeToday) * cfg.contractMult * cfg.closeR
             + price * closeToday * cfg.contractMult * cfg.closeTodayR
    else
      if isOpen then 0 + qty * cfg.openR
      else 0 + (qty - closeToday) * cfg.closeR + closeToday * cfg.closeTodayR
  c * cfg.commMult

/-- `get_order_transaction_cost` (futures): close-today quantity is the whole order for CLOSE_TODAY, else 0 -/
def futOrderCost (cfg : FutCostCfg) (isOpen isCloseToday : Bool) (frozenPrice qty : R) : R :=
  futCommission cfg isOpen frozenPrice qty (if isCloseToday then qty else 0)

end RQ.Q

/-
Model of persistence (C14): `get_state` / `set_state` of Position, StockPosition, Account, Portfolio as key-wise copies — WHICH
keys are written and read back is regenerated from the source (RQ/Gen/Tables.lean: `persistedKeys`) — the PersistHelper's
skip-if-unchanged store, and the executor state across a stop / resume.
A field whose key is not persisted keeps the value of the freshly constructed object of the new run (`fresh`); for a position's
`last_price` that is whatever the price board answers at the first access after the restore.
-/
import RQ.Num.Q
import RQ.Gen.Tables
import RQ.Model.Account
import RQ.Model.Portfolio
import RQ.Model.Executor
namespace RQ.Q

def keysOf (cls : String) : List String := ((RQ.Gen.persistedKeys.find? (fun e => e.1 == cls)).map (·.2)).getD []

structure PersistKeys where
  pos : List String          -- Position ∪ StockPosition
  acct : List String
  pf : List String

/-- the keys of the CURRENT source -/
def srcKeys : PersistKeys := { pos := keysOf "Position" ++ keysOf "StockPosition", acct := keysOf "Account", pf := keysOf "Portfolio" }

def kept (ks : List String) (k : String) : Bool := ks.contains k

/-- `Position.set_state(get_state())` on a freshly created position of the new run -/
def Pos.restore (ks : List String) (fresh saved : Pos) : Pos :=
  { isLong := fresh.isLong
    qty := if kept ks "quantity" then saved.qty else fresh.qty
    oldQty := if kept ks "old_quantity" then saved.oldQty else fresh.oldQty
    logicalOld := if kept ks "logical_old_quantity" then saved.logicalOld else fresh.logicalOld
    avg := if kept ks "avg_price" then saved.avg else fresh.avg
    tradeCost := if kept ks "trade_cost" then saved.tradeCost else fresh.tradeCost
    txnCost := if kept ks "transaction_cost" then saved.txnCost else fresh.txnCost
    last := if kept ks "last_price" then saved.last else fresh.last
    nonClosable := if kept ks "non_closable" then saved.nonClosable else fresh.nonClosable
    divRecv := if kept ks "dividend_receivable" then saved.divRecv else fresh.divRecv }

/-- `Account.set_state(get_state())` on the new run's account (`fresh`: starting cash and rates from the configuration, no positions).
`boardLast ins` = what the price board answers for `ins` at the first access after the restore. -/
def Acct.restore (k : PersistKeys) (boardLast : Nat → R) (fresh saved : Acct) : Acct :=
  { totalCash := if kept k.acct "total_cash" then saved.totalCash else fresh.totalCash
    frozen := if kept k.acct "frozen_cash" then saved.frozen else fresh.frozen
    liabilities := if kept k.acct "cash_liabilities" then saved.liabilities else fresh.liabilities
    pending := if kept k.acct "pending_deposit_withdraw" then saved.pending else fresh.pending
    mgmtFees := if kept k.acct "management_fees" then saved.mgmtFees else fresh.mgmtFees
    mgmtRate := fresh.mgmtRate
    finRate := fresh.finRate
    holdings := if kept k.acct "positions" then
        saved.holdings.map (fun h => { h with long := Pos.restore k.pos (Pos.empty true (boardLast h.ins)) h.long,
                                              short := Pos.restore k.pos (Pos.empty false (boardLast h.ins)) h.short })
      else fresh.holdings }

/-- `Portfolio.set_state(get_state())` -/
def Pf.restore (k : PersistKeys) (boardLast : Nat → R) (fresh saved : Pf) : Pf :=
  { units := if kept k.pf "units" then saved.units else fresh.units
    staticNav := if kept k.pf "static_unit_net_value" then saved.staticNav else fresh.staticNav
    accounts := if kept k.pf "accounts" then List.zipWith (Acct.restore k boardLast) fresh.accounts saved.accounts else fresh.accounts }

/-- the keys the model's fields need -/
def requiredPosKeys : List String :=
  ["quantity", "old_quantity", "logical_old_quantity", "avg_price", "trade_cost", "transaction_cost", "last_price", "non_closable", "dividend_receivable"]
def requiredAcctKeys : List String := ["total_cash", "frozen_cash", "cash_liabilities", "pending_deposit_withdraw", "management_fees", "positions"]
def requiredPfKeys : List String := ["units", "static_unit_net_value", "accounts"]

def PersistKeys.complete (k : PersistKeys) : Bool :=
  requiredPosKeys.all (kept k.pos) && requiredAcctKeys.all (kept k.acct) && requiredPfKeys.all (kept k.pf)

/-! ### PersistHelper -/

/-- one `persist()` of one registered object whose serialized state is `cur` (`none` = empty state: skipped).
`skipOnLastEqual` (regenerated): the store is skipped exactly when `cur` equals the last stored state.
State of the helper for this key: the last stored state.  Returns (new provider content, new last). -/
def persistOne {σ : Type} [DecidableEq σ] (skipOnLastEqual : Bool) (store : Option σ) (last : Option σ) (cur : Option σ) : Option σ × Option σ :=
  match cur with
  | none => (store, last)
  | some s => if skipOnLastEqual && last == some s then (store, last) else (some s, some s)

def persistSeq {σ : Type} [DecidableEq σ] (skip : Bool) (states : List (Option σ)) : Option σ × Option σ :=
  states.foldl (fun st cur => persistOne skip st.1 st.2 cur) (none, none)

/-! ### executor across stop and resume -/

/-- the resumed run: the executor restored with `last_before_trading = some stopDay`, clocks at the new start date -/
def execResume (cal : List Nat) (stopDay startDay endDay : Nat) (src : List Src) : List Pub :=
  let s0 : ExecState := { lastBT := some stopDay, envCal := mkTime startDay 0, envTrd := mkTime startDay 0 }
  let r := execFrom cal s0 src
  r.2 ++ (if dayOf r.1.envTrd = endDay then (splitPublish r.1 .st none).2 else [])

end RQ.Q

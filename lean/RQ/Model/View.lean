/-
What a strategy may see of the market at a moment (C07): the bar a strategy gets in the opening auction (fields regenerated from
`BaseDataSource.OPEN_AUCTION_BAR_FIELDS`), the phases in which the history API ends at the previous trading day (regenerated), and
the agreement relation between two market histories up to a cut-off.
-/
import RQ.Num.Q
import RQ.Gen.Tables
import RQ.Model.History
namespace RQ.Q

/-- value of a named field of a day bar -/
def Bar.field (b : Bar) : String → Option R
  | "open" => some b.openP
  | "close" => some b.closeP
  | "high" => some b.highP
  | "low" => some b.lowP
  | "volume" => some b.volume
  | "total_turnover" => some b.turnover
  | "limit_up" => some b.limitUp
  | "limit_down" => some b.limitDown
  | _ => none

/-- `get_open_auction_bar`: the listed fields of the day bar, plus `last := open` -/
def auctionBar (fields : List String) (b : Bar) : List (String × Option R) :=
  (fields.filter (· != "datetime")).map (fun f => (f, b.field f)) ++ [("last", b.field "open")]

/-- the fields of the CURRENT source -/
def srcAuctionFields : List String := RQ.Gen.openAuctionBarFields.getD ["close"]

/-- two day bars a strategy cannot tell apart in the opening auction: same date, open, limits, volume and turnover -/
def Bar.sameAtOpen (a b : Bar) : Prop :=
  a.dt = b.dt ∧ a.openP = b.openP ∧ a.limitUp = b.limitUp ∧ a.limitDown = b.limitDown ∧ a.volume = b.volume ∧ a.turnover = b.turnover

/-- two bar tables agree on everything dated up to and including `cut` -/
def agreeUpTo (b1 b2 : List Bar) (cut : Nat) : Prop := b1.filter (fun b => b.dt ≤ cut) = b2.filter (fun b => b.dt ≤ cut)

/-- two factor tables agree on the rows in effect up to `cut` -/
def facsAgreeUpTo (f1 f2 : List (Nat × R)) (cut : Nat) : Prop := f1.filter (fun r => r.1 ≤ cut) = f2.filter (fun r => r.1 ≤ cut)

/-- the history API in a daily back-test: end date by phase (regenerated phase list), adjustment relative to the trading date -/
def apiHistory (cal : List Nat) (bars : List Bar) (isCS : Bool) (facs : Option (List (Nat × R))) (phase : String) (tradingDate : Nat)
    (n : Nat) (skip : Bool) (t : AdjustType) : Option (List Bar) :=
  match apiEndDate cal (RQ.Gen.historyPrevDayPhases.contains phase) tradingDate tradingDate with
  | none => none
  | some e => historyBars bars isCS false facs n e skip t (apiAdjustOrig tradingDate)

end RQ.Q

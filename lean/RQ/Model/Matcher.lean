/-
Model of rqalpha/mod/rqalpha_mod_sys_simulation/matcher.py (DefaultBarMatcher.match / update) and slippage.py.
Missing values (NaN / None) of the data layer are `Option`; `is_valid_price(p)` = present and `> 0`.
-/
import RQ.Num.Q
import RQ.Model.Position
import RQ.Model.Order
import RQ.Model.Account
namespace RQ.Q

inductive Slip
  | priceRatio (rate : R)
  | tickSize (rate : R) (tick : R)
  | limitPrice
deriving Repr

structure MCfg where
  priceLimit : Bool
  inactiveLimit : Bool
  volumeLimit : Bool
  volumePercent : R
  slip : Slip

/-- what the matcher reads from the market for one order at the clock -/
structure MBar where
  deal : Option R           -- the price the matching rule prescribes (close / open / vwap / auction open); NaN → none
  limitUp : Option R        -- price board; NaN → none
  limitDown : Option R
  volume : Option R         -- bar (or auction) volume; NaN → none
  listedToday : Bool        -- `instrument.listed_date == trading date` (reason for an invalid price)

def validPrice (p : Option R) : Option R := match p with | some x => if x > 0 then some x else none | none => none

/-- slippage models.  `none` = the model raises (TickSize: resulting price ≤ 0) -/
def slipPrice (s : Slip) (isBuy isLimit : Bool) (limitPrice : R) (b : MBar) (price : R) : Option R :=
  match s with
  | .priceRatio rate =>
    let t0 := price + price * rate * (if isBuy then 1 else -1)
    let t1 := match validPrice b.limitUp with | some u => R.pymin t0 u | none => t0
    let t2 := match validPrice b.limitDown with | some d => R.pymax t1 d | none => t1
    some t2
  | .tickSize rate tick =>
    let p := price + tick * rate * (if isBuy then 1 else -1)
    if p ≤ 0 then none
    else
      let t1 := match validPrice b.limitUp with | some u => R.pymin p u | none => p
      let t2 := match validPrice b.limitDown with | some d => R.pymax t1 d | none => t1
      some t2
  | .limitPrice => some (if isLimit then limitPrice else price)

/-- `decider.rate` (`none` would mean the attribute does not exist: that was finding F22 for LimitPriceSlippage, repaired
by a `fix:` commit — it is 0 now) -/
def slipRate : Slip → Option R
  | .priceRatio r => some r
  | .tickSize r _ => some r
  | .limitPrice => some 0

inductive MOutcome
  | rest                                   -- nothing happens, the order stays as it is
  | rejected                               -- `mark_rejected`
  | cancelled                              -- `mark_cancelled`
  | fill (q : Int) (price : R) (closeToday : Int) (cancelRemainder : Bool)
  | raises                                 -- an exception leaves `match` (slippage price ≤ 0, missing `rate`)
deriving Repr

/-- `DefaultBarMatcher.match`.  `turnover` = quantity already filled on this instrument since the last `update`;
`cashPlusInit` = `account.cash + order.init_frozen_cash`; `fee q p` = commission + tax the cost decider stamps;
`closeToday q` = `account.calc_close_today_amount`. -/
def matchOrder (cfg : MCfg) (ic : InsCfg) (o : Ord) (b : MBar) (openAuction : Bool) (turnover : Int)
    (cashPlusInit : R) (fee : Int → R → R) (closeToday : Int → Int) : MOutcome :=
  match validPrice b.deal with
  | none => if b.listedToday then .rejected else .rest
  | some deal =>
    let atUp : Bool := match b.limitUp with | some u => decide (deal ≥ u) | none => false
    let atDown : Bool := match b.limitDown with | some d => decide (deal ≤ d) | none => false
    -- price conditions
    let priceStop : Option MOutcome :=
      if o.isLimit then
        if o.isBuy && o.limitPrice < deal then some .rest
        else if !o.isBuy && o.limitPrice > deal then some .rest
        else if cfg.priceLimit && ((o.isBuy && atUp) || (!o.isBuy && atDown)) then some .rest
        else none
      else
        if cfg.priceLimit && ((o.isBuy && atUp) || (!o.isBuy && atDown)) then some .rejected else none
    match priceStop with
    | some r => r
    | none =>
      if cfg.inactiveLimit && (match b.volume with | some v => v == 0 | none => false) then .cancelled
      else
        -- volume limit
        let fillOrStop : Option Int :=
          if cfg.volumeLimit then
            match b.volume with
            | some v =>
              let lim0 := R.roundI (v * cfg.volumePercent) - turnover
              let lim := (lim0 / ic.lot) * ic.lot          -- Python `//`: floor division (Int `/` is floor for positive lot)
              if lim ≤ 0 then none else some (min o.unfilled lim)
            | none => some o.unfilled
          else some o.unfilled
        match fillOrStop with
        | none => if o.isLimit then .rest else .cancelled
        | some f =>
          let price? := if openAuction then some deal else slipPrice cfg.slip o.isBuy o.isLimit o.limitPrice b deal
          match price? with
          | none => .raises
          | some price =>
            -- cash check after slippage for opening orders
            let needCheck : Option Bool :=
              if o.effect == .open_ then (match slipRate cfg.slip with | some r => some (r != 0) | none => none)
              else some false
            match needCheck with
            | none => .raises
            | some chk =>
              if chk &&
                  (frozenCashOfOrder ic price o.qty true 0 + fee f price > cashPlusInit) then .rejected
              else .fill f price (closeToday f) (!o.isLimit && o.unfilled - f ≠ 0)

/-- `DefaultBarMatcher.match` with its first guard (repaired, finding F43): at daily frequency, while the clock is still at 00:00 (before_trading,
the opening auction and every handler that runs then), the day bar is not known yet — an order that is not matched as an auction order is not
matched at all and rests until the bar.  (It used to be matched against the coming day bar: filled at that day's close before the open.) -/
def matchOrderAt (beforeOpen : Bool) (cfg : MCfg) (ic : InsCfg) (o : Ord) (b : MBar) (openAuction : Bool) (turnover : Int)
    (cashPlusInit : R) (fee : Int → R → R) (closeToday : Int → Int) : MOutcome :=
  if beforeOpen && !openAuction then .rest else matchOrder cfg ic o b openAuction turnover cashPlusInit fee closeToday

/-- signal mode: the deal price is the order's own limit price (limit order) or the last price -/
def signalDeal (o : Ord) (last : R) : R := if o.isLimit then o.frozenPrice else last

/-- the deal price is at the adverse limit (a missing / NaN limit never is) -/
def signalAtLimit (o : Ord) (b : MBar) (deal : R) : Bool :=
  (o.isBuy && (match b.limitUp with | some u => decide (deal ≥ u) | none => false)) ||
  (!o.isBuy && (match b.limitDown with | some d => decide (deal ≤ d) | none => false))

/-- `SignalBroker._match` (signal mode: no book, no volume cap, no cash check): the order is decided at once — rejected when the
last price is invalid or, with `price_limit`, when the deal price is at the adverse limit; otherwise the WHOLE quantity is filled at
the deal price moved by the slippage model.  `b.deal` = last price. -/
def signalMatch (priceLimit : Bool) (slip : Slip) (o : Ord) (b : MBar) (closeToday : Int → Int) : MOutcome :=
  match validPrice b.deal with
  | none => .rejected
  | some last =>
    if priceLimit && signalAtLimit o b (signalDeal o last) then .rejected
    else match slipPrice slip o.isBuy o.isLimit o.limitPrice b (signalDeal o last) with
      | none => .raises
      | some price => .fill o.qty price (closeToday o.qty) false

/-- per-instrument accumulator of the bar: `_turnover[id] += fill`; `update` clears it -/
def turnoverAfter (turnover : Int) : MOutcome → Int
  | .fill q _ _ _ => turnover + q
  | _ => turnover

/-- the order after the matcher call (status and fill bookkeeping) -/
def orderAfter (o : Ord) (fee : Int → R → R) : MOutcome → Ord
  | .rest => o
  | .raises => o
  | .rejected => o.markRejected
  | .cancelled => o.markCancelled
  | .fill q p _ cancelRem =>
    let o1 := o.fill p q (fee q p)
    if cancelRem then o1.markCancelled else o1

end RQ.Q

/-
Share conversion inside the free-running world: at the settlement of a predecessor's last trading day its holding is converted into
the successor (`StockPosition.settlement` with `share_transformation` data: a synthetic purchase of the successor at
`avg / ratio` booked through `apply_trade`, the successor marked at `last / ratio`, the cash the purchase consumed given back —
`Acct.convert`, repaired form).  A layer on top of `WorldApi.lean`; the conversion is applied to the stock account directly (it is
not one of the logged `AcctOp`s: the refinement theorem of `World.run` does not speak about it, C12's own theorems do).
-/
import RQ.Num.Q
import RQ.Model.WorldApi
namespace RQ.Q

/-- the conversion of one predecessor, as the settlement of the stock account performs it when the position is visited.
The successor quantity is `quantity × ratio` (the code does not round it: finding F31; the model's quantities are whole, a
fractional result is outside it). -/
def World.convertHolding (w : World) (pred succ : Nat) (ratio : R) : World :=
  match w.stockIdx, w.cfg.find succ with
  | some k, some wi =>
    match w.acct k with
    | some a =>
      match a.getPos pred true with
      | some (_, p) =>
        let succQty : Int := R.truncI (R.ofInt p.qty * ratio)
        let createLast : R := match w.lastPrice succ with | some x => x | none => 0
        { w with pf := { w.pf with accounts := w.pf.accounts.set k (a.convert pred succ wi.cfg createLast ratio succQty true) } }
      | none => w
    | none => w
  | _, _ => w

inductive WIn3
  | w2 (i : WIn2)
  | convert (pred succ : Nat) (ratio : R)

def World.step3 (w : World) (ac : ApiCfg) : WIn3 → World × List WEv
  | .w2 i => w.step2 ac i
  | .convert pred succ ratio => (w.convertHolding pred succ ratio, [])

def World.run3 (w : World) (ac : ApiCfg) : List WIn3 → World × List WEv
  | [] => (w, [])
  | i :: rest =>
    let (w1, e1) := w.step3 ac i
    let (w2, e2) := w1.run3 ac rest
    (w2, e1 ++ e2)

end RQ.Q

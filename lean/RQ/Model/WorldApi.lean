/-
The order-sizing APIs inside the free-running world: a strategy call arrives as the API call itself (`order_shares(id, 250.7)`,
`order_target_percent(id, 0.3, LimitOrder(p))`, `sell_close(id, 5)`, …).  The world sizes it on ITS OWN state — holding, closable
quantity, available cash, total value, last price of the phase — with the sizing model of `Sizing.lean`, and hands every created
order to `World.submit` (validators → broker → matcher), one after the other, as `api_stock._submit_order` /
`api_future._submit_order` do.  Nothing of `World.lean` is changed: an API call IS a run of `submit` inputs.
-/
import RQ.Num.Q
import RQ.Model.World
import RQ.Model.Sizing
namespace RQ.Q

inductive StockApi | shares | lots | value | percent | targetValue | targetPercent | orderTo
deriving DecidableEq, Repr

inductive ApiCall
  | stock (api : StockApi) (ins : Nat) (x : R) (limit : Option R)
  | future (ins : Nat) (amount : R) (isBuy : Bool) (effect : Effect) (limit : Option R)

/-- what the APIs read from the configuration -/
structure ApiCfg where
  autoSwitch : Bool              -- sys_accounts.auto_switch_order_value
  ksh : List Nat                 -- STAR-market instruments (minimum 200 shares, lot 1)

/-- `position.closable` of the LONG (stock) position as the position object computes it from the broker's open orders -/
def World.closableOf (w : World) (wi : WIns) (isLong : Bool) : Int × Int :=
  let p := w.posOf wi isLong
  let mine := (w.openOn wi.ins).filter (fun x => ordIsLong x.isBuy x.effect == isLong)
  let openClosing : Int := (mine.filter (fun x => x.effect != .open_)).foldl (fun s x => s + x.unfilled) 0
  let openCT : Int := (mine.filter (fun x => x.effect == .closeToday)).foldl (fun s x => s + x.unfilled) 0
  let closable := posClosable wi.cfg w.cfg.tplusOn p openClosing
  (closable, posTodayClosable p openCT closable)

/-- the orders one API call creates, before the validators see them (`none` inside = nothing is created) -/
def World.sized (w : World) (ac : ApiCfg) : ApiCall → List (Nat × Bool × Effect × Int × Option R)
  | .stock api ins x limit =>
    match w.cfg.find ins, w.lastPrice ins with
    | some wi, some last =>
      if !(last > 0) then [] else            -- "No market data"
      match w.acctIdx wi |>.bind w.acct with
      | none => []
      | some a =>
        let sz : SzIns := { isKSH := ac.ksh.contains ins, lot := wi.cfg.lot }
        let p := w.posOf wi true
        let closable := (w.closableOf wi true).1
        let price : R := match limit with | some l => l | none => last
        let cost : Int → R := fun q => stockOrderCost w.stockCost wi.isCS false price (R.ofInt q)
        let r : Option (Bool × Int) :=
          match api with
          | .shares => if ac.autoSwitch then orderSharesAuto sz x p.qty closable price a.cash cost else orderShares sz x p.qty
          | .lots =>
            if ac.autoSwitch then orderSharesAuto sz (x * R.ofInt (if sz.isKSH then 1 else sz.lot)) p.qty closable price a.cash cost
            else orderLots sz x p.qty
          | .orderTo =>
            if ac.autoSwitch then orderSharesAuto sz (x - R.ofInt p.qty) p.qty closable price a.cash cost else stockOrderTo sz x p.qty
          | .value => orderValue sz x price a.cash closable p.qty cost
          | .percent => orderValue sz (a.totalValue * x) price a.cash closable p.qty cost
          | .targetValue => orderTargetValue sz x (p.marketValue wi.cfg) price a.cash closable p.qty cost
          | .targetPercent =>
            orderTargetValue sz (if x != 0 then a.totalValue * x else 0) (p.marketValue wi.cfg) price a.cash closable p.qty cost
        match r with
        | some (isBuy, q) => [(ins, isBuy, if isBuy then Effect.open_ else Effect.close, q, limit)]
        | none => []
    | _, _ => []
  | .future ins amount isBuy effect limit =>
    match w.cfg.find ins, w.lastPrice ins with
    | some wi, some last =>
      if !(last > 0) then [] else
      let isLong := ordIsLong isBuy effect
      let p := w.posOf wi isLong
      let tc := (w.closableOf wi isLong).2
      (futSubmit amount isBuy effect p.qty p.oldQty tc).map (fun l => (ins, l.isBuy, l.effect, l.qty, limit))
    | _, _ => []

/-- the submissions an API call amounts to; `ids` are the fresh order ids the environment hands out, in order -/
def World.apiInputs (w : World) (ac : ApiCfg) (c : ApiCall) (ids : List Nat) : List WIn :=
  ((w.sized ac c).zip ids).map (fun (x, id) =>
    WIn.submit { id := id, ins := x.1, isBuy := x.2.1, isLimit := x.2.2.2.2.isSome,
                 price := (match x.2.2.2.2 with | some l => l | none => 0), effect := x.2.2.1, qty := x.2.2.2.1 })

/-- an API call: size on the present state, then submit one created order after the other -/
def World.api (w : World) (ac : ApiCfg) (c : ApiCall) (ids : List Nat) : World × List WEv :=
  w.run (w.apiInputs ac c ids)

/-- inputs of the API-level world -/
inductive WIn2
  | base (i : WIn)
  | api (c : ApiCall) (ids : List Nat)

def World.step2 (w : World) (ac : ApiCfg) : WIn2 → World × List WEv
  | .base i => w.step i
  | .api c ids => w.api ac c ids

def World.run2 (w : World) (ac : ApiCfg) : List WIn2 → World × List WEv
  | [] => (w, [])
  | i :: rest =>
    let (w1, e1) := w.step2 ac i
    let (w2, e2) := w1.run2 ac rest
    (w2, e1 ++ e2)

end RQ.Q

/-
Model of rqalpha/portfolio/position.py (Position) and rqalpha/mod/rqalpha_mod_sys_accounts/position_model.py
(StockPosition, FuturePosition).  Quantities are integers (as in the code: order quantities are whole numbers and a
split rounds to whole shares); prices and money are `R`.  Expression structure mirrors the Python text.
-/
import RQ.Num.Q
namespace RQ.Q

inductive Effect | open_ | close | closeToday
deriving DecidableEq, Repr

/-- static description of the instrument a position is in -/
structure InsCfg where
  isFuture : Bool
  mult : R              -- contract_multiplier (futures); unused for stocks
  marginRatio : R       -- long/short margin ratio of the contract (futures)
  marginMult : R        -- config base.margin_multiplier
  tplus : Bool          -- market_tplus ≥ 1 (stocks)
  lot : Int             -- round_lot

structure Pos where
  isLong : Bool
  qty : Int
  oldQty : Int
  logicalOld : Int
  avg : R
  tradeCost : R
  txnCost : R
  last : R                       -- value of the `last_price` property
  nonClosable : Int              -- `_non_closable` (T+1 lock, stocks)
  divRecv : Option (Nat × R)     -- `_dividend_receivable`: (payable date, amount)

def Pos.dirFactor (p : Pos) : R := if p.isLong then 1 else -1

def Pos.empty (isLong : Bool) (last : R) : Pos :=
  { isLong := isLong, qty := 0, oldQty := 0, logicalOld := 0, avg := 0, tradeCost := 0, txnCost := 0, last := last,
    nonClosable := 0, divRecv := none }

/-- a trade as seen by a position -/
structure TradeIn where
  price : R
  qty : Int
  effect : Effect
  fee : R               -- `trade.transaction_cost` = commission + tax

/-- `Position.apply_trade` (base class): returns the new position and `delta_cash` -/
def Pos.applyTradeBase (p : Pos) (t : TradeIn) : Pos × R :=
  let p1 := { p with txnCost := p.txnCost + t.fee }
  match t.effect with
  | .open_ =>
    let avg' : R :=
      if p1.qty < (0 : Int) then (if p1.qty + t.qty > (0 : Int) then t.price else 0)
      else
        let cost := R.ofInt p1.qty * p1.avg + R.ofInt t.qty * t.price
        cost / R.ofInt (p1.qty + t.qty)
    ({ p1 with avg := avg', qty := p1.qty + t.qty, tradeCost := p1.tradeCost + t.price * R.ofInt t.qty },
     (R.ofInt (-1) * t.price * R.ofInt t.qty) - t.fee)
  | _ =>
    ({ p1 with oldQty := p1.oldQty - min t.qty p1.oldQty, qty := p1.qty - t.qty,
               tradeCost := p1.tradeCost - t.price * R.ofInt t.qty },
     t.price * R.ofInt t.qty - t.fee)

/-- `StockPosition.apply_trade` -/
def Pos.applyTradeStock (cfg : InsCfg) (p : Pos) (t : TradeIn) : Pos × R :=
  let r := p.applyTradeBase t
  if t.effect == .open_ && cfg.tplus then ({ r.1 with nonClosable := r.1.nonClosable + t.qty }, r.2) else r

/-- `FuturePosition.apply_trade` -/
def Pos.applyTradeFuture (cfg : InsCfg) (p : Pos) (t : TradeIn) : Pos × R :=
  let p' : Pos :=
    match t.effect with
    | .closeToday =>
      { p with txnCost := p.txnCost + t.fee, qty := p.qty - t.qty, tradeCost := p.tradeCost - t.price * R.ofInt t.qty }
    | _ => (p.applyTradeBase t).1
  match t.effect with
  | .open_ => (p', R.ofInt (-1) * t.fee)
  | _ => (p', R.ofInt (-1) * t.fee + (t.price - p'.avg) * R.ofInt t.qty * cfg.mult * p'.dirFactor)

def Pos.applyTrade (cfg : InsCfg) (p : Pos) (t : TradeIn) : Pos × R :=
  if cfg.isFuture then p.applyTradeFuture cfg t else p.applyTradeStock cfg t

/-- `FuturePosition.calc_close_today_amount` (stocks: 0) -/
def Pos.closeTodayAmount (cfg : InsCfg) (p : Pos) (amount : Int) (effect : Effect) : Int :=
  if !cfg.isFuture then 0
  else match effect with
    | .closeToday => if amount ≤ p.qty - p.oldQty then amount else p.qty - p.oldQty
    | _ => max (amount - p.oldQty) 0

/-! ### observers -/

/-- `market_value` -/
def Pos.marketValue (cfg : InsCfg) (p : Pos) : R :=
  let base : R := if p.qty ≠ 0 then p.last * R.ofInt p.qty else 0
  if cfg.isFuture then cfg.mult * base else base

/-- `dividend_receivable` -/
def Pos.recv (p : Pos) : R := match p.divRecv with | some d => d.2 | none => 0

/-- `equity` -/
def Pos.equity (cfg : InsCfg) (p : Pos) : R :=
  if cfg.isFuture then R.ofInt p.qty * (p.last - p.avg) * cfg.mult * p.dirFactor
  else (if p.qty ≠ 0 then p.last * R.ofInt p.qty else 0) + p.recv

/-- `margin` (futures; 0 for stocks) -/
def Pos.margin (cfg : InsCfg) (p : Pos) : R :=
  if cfg.isFuture then (cfg.marginRatio * cfg.marginMult) * p.marketValue cfg else 0

/-- `trading_pnl` -/
def Pos.tradingPnl (cfg : InsCfg) (p : Pos) : R :=
  let b := (R.ofInt (p.qty - p.logicalOld) * p.last - p.tradeCost) * p.dirFactor
  if cfg.isFuture then cfg.mult * b else b

/-- `position_pnl` given the value of the `prev_close` property -/
def Pos.positionPnl (cfg : InsCfg) (p : Pos) (prevClose : R) : R :=
  let b : R := if p.logicalOld ≠ 0 then R.ofInt p.logicalOld * (p.last - prevClose) * p.dirFactor else 0
  if cfg.isFuture then cfg.mult * b else b

/-! ### day boundary -/

/-- `Position.before_trading` (base) -/
def Pos.beforeTradingBase (p : Pos) : Pos :=
  { p with oldQty := p.qty, logicalOld := p.qty, tradeCost := 0, nonClosable := 0, txnCost := 0 }

/-- corporate-action data of one stock for one trading date (from the bundle) -/
structure CorpDay where
  bookDps : Option (R × Nat)     -- dividend whose book-closure date is the previous trading day: (per share, payable date)
  split : Option R               -- split ratio with ex-date today
  today : Nat

/-- reinvestment trade data: commission and tax as stamped by the cost decider (inputs; checked in C11) -/
structure ReinvestFee where
  commission : R
  tax : R

/-- `StockPosition.before_trading`.  Returns (position, delta_cash, reinvestment trade if one was published).
`reinvest` = `dividend_reinvestment`; `fee q p` = commission+tax the decider stamps on a reinvestment trade. -/
def Pos.beforeTradingStock (cfg : InsCfg) (p : Pos) (c : CorpDay) (reinvest : Bool) (fee : Int → R → R) :
    Pos × R × Option TradeIn :=
  let p0 := p.beforeTradingBase
  if p0.qty = 0 && p0.divRecv.isNone then (p0, 0, none)
  else
    -- _handle_dividend_book_closure
    let p1 : Pos := match c.bookDps with
      | some (dps, payable) =>
        { p0 with avg := p0.avg - dps, last := p0.last - dps, divRecv := some (payable, R.ofInt p0.qty * dps) }
      | none => p0
    -- _handle_dividend_payable
    let (p2, delta, tr) : Pos × R × Option TradeIn := match p1.divRecv with
      | some (payable, value) =>
        if payable ≠ c.today then (p1, 0, none)
        else
          let pc := { p1 with divRecv := none }
          if reinvest then
            let a0 := R.decQuot10 value pc.last
            let amount := R.decQuot10 (R.ofInt a0) (R.ofInt cfg.lot) * cfg.lot
            if amount > 0 then
              let t : TradeIn := { price := pc.last, qty := amount, effect := .open_, fee := fee amount pc.last }
              -- (repaired, F11) net effect on the account's cash: the dividend arrives (return value) and the account pays for the reinvested
              -- shares AND their fee when it books the published trade (`apply_trade` inside the call; it used to be overwritten)
              ((pc.applyTradeStock cfg t).1, value - R.ofInt amount * pc.last - t.fee, some t)
            else (pc, value, none)
          else (pc, value, none)
      | none => (p1, 0, none)
    -- _handle_split
    let p3 : Pos := match c.split with
      | some ratio =>
        let q' := R.decMulRound10 (R.ofInt p2.qty) ratio
        { p2 with avg := p2.avg / ratio, last := p2.last / ratio, qty := q', oldQty := q',
                  logicalOld := R.decMulRound10 (R.ofInt p2.logicalOld) ratio }
      | none => p2
    (p3, 0 + delta, tr)

/-- what happens to a stock holding at the settlement of its last trading day -/
inductive DelistKind
  | none                         -- not delisted tomorrow
  | payout                       -- `cash_return_by_stock_delisted`: paid out at the last price
  | forfeit                      -- payout switched off and no successor: holding removed
deriving DecidableEq, Repr

/-- `StockPosition.settlement` (without share conversion, which touches another position: see `Account`) -/
def Pos.settlementStock (p : Pos) (k : DelistKind) : Pos × R :=
  if p.qty = 0 then (p, 0)
  else match k with
    | .none => (p, 0)
    | .payout => ({ p with qty := 0, oldQty := 0 }, p.last * R.ofInt p.qty)
    | .forfeit => ({ p with qty := 0, oldQty := 0 }, 0)

/-- `FuturePosition.settlement`: `settle` = settlement price if the mode is "settlement" (else `none`: keep last),
`expires` = the contract is delisted on the next trading day.  Returns (position, delta_cash, close-out trade). -/
def Pos.settlementFuture (cfg : InsCfg) (p : Pos) (settle : Option R) (expires : Bool) : Pos × R × Option TradeIn :=
  if p.qty = 0 then (p, 0, none)
  else
    let p1 : Pos := match settle with
      | some s => { p with last := s }
      | none => p
    let delta := 0 + p1.equity cfg
    let p2 := { p1 with avg := p1.last }
    if expires then
      let t : TradeIn := { price := p2.last, qty := p2.qty, effect := .close, fee := 0 + 0 }
      let p3 := (p2.applyTradeFuture cfg t).1
      ({ p3 with qty := 0, oldQty := 0 }, delta, some t)
    else (p2, delta, none)

end RQ.Q

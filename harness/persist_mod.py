"""Harness-side mod: an in-memory persist provider (rqalpha's AbstractPersistProvider extension point) for the C14 check."""
from rqalpha.interface import AbstractMod, AbstractPersistProvider
STORE = {}
LOG = []          # (key, len(state)) for every store call
RESUME = [False]


class MemoryPersistProvider(AbstractPersistProvider):
    def store(self, key, value):
        STORE[key] = value
        LOG.append((key, len(value)))

    def load(self, key):
        return STORE.get(key)

    def should_resume(self):
        return RESUME[0]

    def should_run_init(self):
        return True


class Mod(AbstractMod):
    def start_up(self, env, mod_config):
        env.set_persist_provider(MemoryPersistProvider())

    def tear_down(self, code, exception=None):
        pass


def load_mod():
    return Mod()

"""C02 — futures account: margin and mark-to-market.  Step-sync of every FUTURE-account operation of real runs against the
Lean model; monitors: value ledger, margin/cash formulas, settlement neutrality, expiry, forced liquidation."""
import tstream, monitors
LEVEL = "proof"
RULE = ("daily runs with 1-3 futures contracts (by-money and by-volume commissions, expiry inside the run, both settlement-price modes, margin multipliers, "
        "accounts from tiny to ample) and scripted open/close/close-today/order/order_to calls in both directions, limit and market, cancels, deposits; "
        "non-trivial = ledger-changing operation; distinct = by (operation, changed fields, effect)")
TRUSTED = ["harness wraps Account methods at run time; settlement prices / expiry dates come from the generated bundle"]
ASSUMPTIONS = ["'flattened to exactly zero' needs no deposit in transit (finding F14, theorem forced_liquidation_leaves_pending)"]


def run(ctx):
    corrs = tstream.make_corrs(ctx)
    # a futures account that STARTS with positions, as the first run of a fresh process (no earlier run has created a futures position there)
    import random, bundle as B, trading
    rnd = random.Random(ctx.rnd.random())
    for _ in range(ctx.n(2, 40)):
        seed = rnd.randrange(1, 10 ** 6)
        r2 = random.Random(seed)
        S = B.gen_market(r2, ndays=r2.randrange(6, 12), with_future=True, n_stocks=0, opts={"p_expire": 0.2})
        cfgk = trading.gen_config(r2, S, {"no_signal": True, "p_init_pos": 1.0})
        if "init_positions" not in (cfgk.get("base_extra") or {}):
            f0 = S["futures"][0]
            cfgk["base_extra"] = dict(cfgk.get("base_extra") or {}, init_positions="%s:%d" % (f0["id"], r2.choice([2, 3, -2])))
        tstream.fresh_process_run(ctx, S, cfgk, seed, ["c02_monitor"], "futures account starting from configured positions %s" % cfgk["base_extra"]["init_positions"])
    tstream.stream(ctx, ctx.n(50, 2500), corrs, [monitors.c02_monitor, monitors.marked_at_bar_monitor("C02.1", "FUTURE"), monitors.positions_view_monitor("C02.5", "FUTURE")], acct_types=("FUTURE",),
                   market_opts=lambda k: {"with_future": True, "n_stocks": 0 if k % 2 else None, "opts": {"p_expire": 0.6, "crash": k % 8 == 5}},
                   cfg_opts=lambda k: {"p_init_pos": 0.25, "pf_roundtrip": k % 3 == 2, "wipeout": k % 8 == 5})


def replay(ctx, data):
    run(ctx)
    return "%d witnesses" % len(ctx.witnesses)

"""C02 — futures account: margin and mark-to-market.  Step-sync of every FUTURE-account operation of real runs against the
Lean model; monitors: value ledger, margin/cash formulas, settlement neutrality, expiry, forced liquidation."""
import tstream, monitors
LEVEL = "proof"
RULE = ("daily runs with 1-3 futures contracts (by-money and by-volume commissions, expiry inside the run, both settlement-price modes, margin multipliers, "
        "accounts from tiny to ample) and scripted open/close/close-today/order/order_to calls in both directions, limit and market, cancels, deposits; "
        "non-trivial = ledger-changing operation; distinct = by (operation, changed fields, effect)")
TRUSTED = ["harness wraps Account methods at run time; settlement prices / expiry dates come from the generated bundle"]
ASSUMPTIONS = ["'flattened to exactly zero' needs no deposit in transit (finding F14, theorem forced_liquidation_leaves_pending)"]


def run(ctx):
    corrs = tstream.make_corrs(ctx)
    tstream.stream(ctx, ctx.n(50, 2500), corrs, [monitors.c02_monitor], acct_types=("FUTURE",),
                   market_opts=lambda k: {"with_future": True, "n_stocks": 0 if k % 2 else None, "opts": {"p_expire": 0.6}}, cfg_opts=lambda k: {"p_init_pos": 0.25, "pf_roundtrip": k % 3 == 2})


def replay(ctx, data):
    run(ctx)
    return "%d witnesses" % len(ctx.witnesses)

"""C04 — order lifecycle.  Step-sync of every matcher call (order status / fill bookkeeping) against the Lean model; monitors on the
published order/trade event stream: legal transitions, single announcement, fill accounting, returned orders, nothing open after the close."""
import tstream, monitors, match_sync, minute_stream
LEVEL = "proof"
RULE = ("daily runs with several orders per bar (market/limit, stock/futures, all sides and effects), cancels at later points, partial fills under volume caps, split "
        "closes with resting closes, orders in the auction and in bars; one evaluation = one order/trade event or matcher call; non-trivial = status change; "
        "distinct = by (order type, effect, outcome, auction)")
TRUSTED = ["harness wraps DefaultBarMatcher.match at run time and listens to every ORDER_*/TRADE event"]
ASSUMPTIONS = ["signal mode and minute frequency (stock accounts, synthesised minute bars, current_bar / next_bar) are monitored only: the matcher step-sync runs on the daily stream"]


def run(ctx):
    corr = ctx.corr("DefaultBarMatcher.match -> order", "order status, filled quantity, average price, cost and the bar accumulator after every real matcher call vs model `matchOrder/orderAfter`")
    tstream.stream(ctx, ctx.n(60, 3000), None, [monitors.c04_monitor], extra_sync=lambda c, tr, ix: match_sync.run_sync(c, corr, tr, ix),
                   cfg_opts=lambda k: ({"trade_handler_acts": True, "force_volume_limit": True, "otp": True} if k % 2 else {"otp": True, "fut_plan": "split_close" if k % 4 == 0 else None}),
                   market_opts=lambda k: ({"n_stocks": 3, "opts": {"p_thin": 1.0, "p_delist": 0.05}} if k % 2 else ({"with_future": True} if k % 4 == 0 else {})))
    # minute frequency (current_bar / next_bar matching): event-stream monitor only
    minute_stream.stream(ctx, ctx.n(4, 120), [monitors.c04_monitor])


def replay(ctx, data):
    run(ctx)
    return "%d witnesses" % len(ctx.witnesses)
